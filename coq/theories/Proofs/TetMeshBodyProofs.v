(** * The lazily cached properties of RigidBody always agree with a direct computation on
    the current vertices, after any sequence of reads and express_in calls (C17). *)
From Coq Require Import List ZArith QArith.
From D3 Require Import Base.Ops Base.Vec Model.TetSym Model.TetMesh Model.TetMeshProc Model.TetMeshBody.
Import ListNotations.

Section Fresh.
  Context {F : Type} {O : Ops F}.

  Definition direct_tp (b : @body F) := mesh_tetpts (b_verts b) (b_tets b).
  Definition direct_com (b : @body F) := mesh_com (direct_tp b).
  Definition direct_aabbs (b : @body F) := mesh_aabbs (direct_tp b).

  (** every filled cache holds the value a direct computation gives now *)
  Definition fresh (b : @body F) : Prop :=
    (forall x, c_tp b = Some x -> x = direct_tp b) /\
    (forall x, c_com b = Some x -> x = direct_com b) /\
    (forall x, c_aabbs b = Some x -> x = direct_aabbs b) /\
    (forall x, c_tree b = Some x -> x = direct_aabbs b).

  (** operations of the interface *)
  Inductive op := OpTp | OpCom | OpAabbs | OpRoot | OpExpress (T : Pose F).
  Definition step (b : @body F) (o : op) : @body F :=
    match o with
    | OpTp => snd (get_tp b)
    | OpCom => snd (get_com b)
    | OpAabbs => snd (get_aabbs b)
    | OpRoot => snd (get_root b)
    | OpExpress T => express_in T b
    end.
  Definition same_mesh (b b' : @body F) : Prop :=
    b_verts b' = b_verts b /\ b_tets b' = b_tets b /\ b_pots b' = b_pots b /\ b_pose b' = b_pose b.

  Lemma new_body_fresh pose vs ts ps : fresh (new_body pose vs ts ps).
  Proof. repeat split; cbn; discriminate. Qed.

  Lemma fresh_upd b tp com aabbs tree :
    fresh b ->
    (forall x, tp = Some x -> x = direct_tp b) -> (forall x, com = Some x -> x = direct_com b) ->
    (forall x, aabbs = Some x -> x = direct_aabbs b) -> (forall x, tree = Some x -> x = direct_aabbs b) ->
    fresh (Body (b_pose b) (b_verts b) (b_tets b) (b_pots b) tp com aabbs tree) /\
    same_mesh b (Body (b_pose b) (b_verts b) (b_tets b) (b_pots b) tp com aabbs tree).
  Proof. intros _ A1 A2 A3 A4. split; [|repeat split]. unfold fresh, direct_com, direct_aabbs, direct_tp in *. cbn. auto. Qed.

  Lemma same_mesh_direct b b' :
    same_mesh b b' -> direct_tp b' = direct_tp b /\ direct_com b' = direct_com b /\ direct_aabbs b' = direct_aabbs b.
  Proof. intros (S1 & S2 & _). unfold direct_com, direct_aabbs, direct_tp. rewrite S1, S2. auto. Qed.

  Lemma same_mesh_trans b b' b'' : same_mesh b b' -> same_mesh b' b'' -> same_mesh b b''.
  Proof. intros (A1 & A2 & A3 & A4) (B1 & B2 & B3 & B4). repeat split; congruence. Qed.

  Lemma get_tp_ok b : fresh b -> fst (get_tp b) = direct_tp b /\ fresh (snd (get_tp b)) /\ same_mesh b (snd (get_tp b)).
  Proof.
    intros Hf. pose proof Hf as (H1 & H2 & H3 & H4). unfold get_tp. destruct (c_tp b) as [x|] eqn:E; cbn [fst snd].
    - split; [apply H1; reflexivity|]. split; [exact Hf|repeat split; reflexivity].
    - split; [reflexivity|]. apply fresh_upd; try assumption. intros x Hx. inversion Hx. reflexivity.
  Qed.

  Lemma get_com_ok b : fresh b -> fst (get_com b) = direct_com b /\ fresh (snd (get_com b)) /\ same_mesh b (snd (get_com b)).
  Proof.
    intros Hf. unfold get_com. destruct (c_com b) as [c|] eqn:E.
    - cbn [fst snd]. pose proof Hf as (H1 & H2 & H3 & H4). split; [apply H2; assumption|].
      split; [exact Hf|repeat split; reflexivity].
    - destruct (get_tp_ok b Hf) as (T1 & G & S).
      destruct (get_tp b) as [tp b1]. cbn [fst snd] in *. subst tp.
      destruct (same_mesh_direct _ _ S) as (D1 & D2 & D3). pose proof G as (G1 & G2 & G3 & G4).
      split; [unfold direct_com; reflexivity|].
      destruct (fresh_upd b1 (c_tp b1) (Some (mesh_com (direct_tp b))) (c_aabbs b1) (c_tree b1) G) as [F1 F2]; try assumption.
      + intros x Hx. inversion Hx. unfold direct_com. now rewrite D1.
      + split; [exact F1|]. eapply same_mesh_trans; eassumption.
  Qed.

  Lemma get_aabbs_ok b : fresh b -> fst (get_aabbs b) = direct_aabbs b /\ fresh (snd (get_aabbs b)) /\ same_mesh b (snd (get_aabbs b)).
  Proof.
    intros Hf. unfold get_aabbs. destruct (c_aabbs b) as [c|] eqn:E.
    - cbn [fst snd]. pose proof Hf as (H1 & H2 & H3 & H4). split; [apply H3; assumption|].
      split; [exact Hf|repeat split; reflexivity].
    - destruct (get_tp_ok b Hf) as (T1 & G & S).
      destruct (get_tp b) as [tp b1]. cbn [fst snd] in *. subst tp.
      destruct (same_mesh_direct _ _ S) as (D1 & D2 & D3). pose proof G as (G1 & G2 & G3 & G4).
      split; [unfold direct_aabbs; reflexivity|].
      destruct (fresh_upd b1 (c_tp b1) (c_com b1) (Some (mesh_aabbs (direct_tp b))) (c_tree b1) G) as [F1 F2]; try assumption.
      + intros x Hx. inversion Hx. unfold direct_aabbs. now rewrite D1.
      + split; [exact F1|]. eapply same_mesh_trans; eassumption.
  Qed.

  Lemma get_tree_ok b : fresh b -> fst (get_tree b) = direct_aabbs b /\ fresh (snd (get_tree b)) /\ same_mesh b (snd (get_tree b)).
  Proof.
    intros Hf. unfold get_tree. destruct (c_tree b) as [c|] eqn:E.
    - cbn [fst snd]. pose proof Hf as (H1 & H2 & H3 & H4). split; [apply H4; assumption|].
      split; [exact Hf|repeat split; reflexivity].
    - destruct (get_aabbs_ok b Hf) as (T1 & G & S).
      destruct (get_aabbs b) as [a b1]. cbn [fst snd] in *. subst a.
      destruct (same_mesh_direct _ _ S) as (D1 & D2 & D3). pose proof G as (G1 & G2 & G3 & G4).
      split; [reflexivity|].
      destruct (fresh_upd b1 (c_tp b1) (c_com b1) (c_aabbs b1) (Some (direct_aabbs b)) G) as [F1 F2]; try assumption.
      + intros x Hx. inversion Hx. now rewrite D3.
      + split; [exact F1|]. eapply same_mesh_trans; eassumption.
  Qed.

  Lemma get_root_ok b : fresh b -> fst (get_root b) = root_aabb (direct_aabbs b) /\ fresh (snd (get_root b)) /\ same_mesh b (snd (get_root b)).
  Proof.
    intros Hf. unfold get_root. destruct (get_tree_ok b Hf) as (T1 & G & S).
    destruct (get_tree b) as [t b1]. cbn [fst snd] in *. subst t. repeat split; try apply G; try apply S.
  Qed.

  Lemma express_in_fresh T b : fresh (express_in T b).
  Proof. repeat split; cbn; discriminate. Qed.

  Lemma step_fresh b o : fresh b -> fresh (step b o).
  Proof.
    intros Hf. destruct o; cbn [step].
    - apply get_tp_ok; assumption.
    - apply get_com_ok; assumption.
    - apply get_aabbs_ok; assumption.
    - apply get_root_ok; assumption.
    - apply express_in_fresh.
  Qed.

  (** after any history every read returns what a direct computation on the current vertices gives *)
  Theorem reads_are_direct pose vs ts ps (history : list op) :
    let b := fold_left step history (new_body pose vs ts ps) in
    fst (get_tp b) = direct_tp b /\ fst (get_com b) = direct_com b /\
    fst (get_aabbs b) = direct_aabbs b /\ fst (get_root b) = root_aabb (direct_aabbs b).
  Proof.
    intros b.
    assert (Hf : fresh b).
    { unfold b. generalize (new_body_fresh pose vs ts ps). generalize (new_body pose vs ts ps).
      induction history as [|o h IH]; intros b0 H0; cbn [fold_left]; [assumption|].
      apply IH. apply step_fresh. assumption. }
    repeat split; [apply get_tp_ok|apply get_com_ok|apply get_aabbs_ok|apply get_root_ok]; assumption.
  Qed.

  (** reads never change the mesh; express_in keeps elements and potentials *)
  Lemma step_mesh b o :
    fresh b -> b_tets (step b o) = b_tets b /\ b_pots (step b o) = b_pots b /\
    (match o with OpExpress _ => True | _ => b_verts (step b o) = b_verts b /\ b_pose (step b o) = b_pose b end).
  Proof.
    intros Hf. destruct o; cbn [step].
    - destruct (get_tp_ok b Hf) as (_ & _ & (S1 & S2 & S3 & S4)). auto.
    - destruct (get_com_ok b Hf) as (_ & _ & (S1 & S2 & S3 & S4)). auto.
    - destruct (get_aabbs_ok b Hf) as (_ & _ & (S1 & S2 & S3 & S4)). auto.
    - destruct (get_root_ok b Hf) as (_ & _ & (S1 & S2 & S3 & S4)). auto.
    - cbn. auto.
  Qed.
End Fresh.
