(** * Metric facts about the curved factories over the reals (C17):
    capsule vertices lie on the surface of the capsule (medial points at depth = radius) and the
    potentials are the distance to the surface; the normalisation step of the icosphere puts every
    non-zero raw vertex on the sphere / ellipsoid. *)
From Coq Require Import List ZArith QArith Reals Lra Lia Bool Psatz.
From D3 Require Import Base.Ops Base.Vec Base.RVec Model.TetSym Gen.TetTables Model.TetMesh Checker.TetMesh
                       Proofs.TetMeshBase Proofs.TetMeshBox Proofs.TetMeshCyl Proofs.TetMeshCaps.
Import ListNotations.
Local Open Scope R_scope.

(** ** capsule *)
(** squared distance to the medial segment {(0, 0, t) : |t| <= mtz} *)
Definition seg_dist2 (mtz : R) (p : V3 R) : R :=
  let dz := Rmax (Rabs (vz p) - mtz) 0 in vx p * vx p + vy p * vy p + dz * dz.
Definition capsule_depth (radius mtz : R) (p : V3 R) : R := radius - R_sqrt.sqrt (seg_dist2 mtz p).
Definition unit_pairs (l : list (R * R)) : Prop := Forall (fun p => fst p * fst p + snd p * snd p = 1) l.

Lemma map_seq_const {A} (g : nat -> A) (c : A) k m :
  (forall i, (k <= i)%nat -> g i = c) -> map g (seq k m) = repeat c m.
Proof.
  revert k; induction m as [|m IH]; intros k H; cbn; [reflexivity|].
  rewrite H by lia. f_equal. apply IH. intros i Hi. apply H. lia.
Qed.

Lemma Forall2_repeat {A B} (P : A -> B -> Prop) (c : B) l :
  Forall (fun a => P a c) l -> Forall2 P l (repeat c (length l)).
Proof. induction 1; cbn; constructor; assumption. Qed.

Section CapsuleMetric.
  Variables (radius height : R) (circ ring : list (R * R)).
  Hypothesis Hr : 0 < radius.
  Hypothesis Hh : 0 < height.
  Hypothesis Hcirc : unit_pairs circ.
  Hypothesis Hcos : Forall (fun sc => 0 <= snd sc) circ.      (* cos theta_i >= 0: the upper quarter circle *)
  Hypothesis Hring : unit_pairs ring.
  Let mtz := height / 2.

  Definition pot_ok_capsule (p : V3 R) (q : R) : Prop :=
    q = capsule_depth radius mtz p /\ (q = 0 \/ q = radius).

  Lemma depth_surface x y z :
    0 <= z - mtz -> x * x + y * y + (z - mtz) * (z - mtz) = radius * radius ->
    capsule_depth radius mtz (V x y z) = 0 /\ capsule_depth radius mtz (V x y (- z)) = 0.
  Proof.
    intros Hz E. assert (Hm : 0 < mtz) by (unfold mtz; lra).
    unfold capsule_depth, seg_dist2; cbv zeta; cbn [vx vy vz]. rewrite Rabs_Ropp.
    rewrite (Rabs_pos_eq z) by lra. rewrite Rmax_left by lra. rewrite E.
    rewrite sqrt_square by lra. split; ring.
  Qed.

  Lemma cap_vertex_surface sc cs :
    fst sc * fst sc + snd sc * snd sc = 1 -> 0 <= snd sc -> fst cs * fst cs + snd cs * snd cs = 1 ->
    capsule_depth radius mtz (cap_top radius height sc cs) = 0 /\
    capsule_depth radius mtz (cap_bot radius height sc cs) = 0.
  Proof.
    intros E1 Hc E2. unfold cap_top, cap_bot. fold mtz. apply depth_surface.
    - assert (0 <= radius * snd sc) by (apply Rmult_le_pos; lra). lra.
    - replace (radius * snd sc + mtz - mtz) with (radius * snd sc) by ring.
      replace (radius * fst sc * fst cs * (radius * fst sc * fst cs) + radius * fst sc * snd cs * (radius * fst sc * snd cs))
        with (radius * radius * (fst sc * fst sc) * (fst cs * fst cs + snd cs * snd cs)) by ring.
      rewrite E2. replace (radius * radius * (fst sc * fst sc) * 1 + radius * snd sc * (radius * snd sc))
        with (radius * radius * (fst sc * fst sc + snd sc * snd sc)) by ring.
      rewrite E1. ring.
  Qed.

  Theorem capsule_mesh_potentials :
    let m := capsule_mesh (O := ROps) radius height circ ring in
    Forall2 pot_ok_capsule (mverts m) (mpots m) /\
    Forall (fun p => seg_dist2 mtz p <= radius * radius) (mverts m).
  Proof.
    intros m. assert (Hm : 0 < mtz) by (unfold mtz; lra).
    unfold m, capsule_mesh, mverts, mpots. cbn [fst snd].
    rewrite (capsule_verts_eq radius height circ ring). fold mtz.
    set (caps := flat_map _ circ).
    (* the cap vertices: all on the surface *)
    assert (Hcaps : Forall (fun p => capsule_depth radius mtz p = 0) caps).
    { unfold caps. apply Forall_forall. intros p Hp. apply in_flat_map in Hp as [sc [Hsc Hp]].
      apply in_flat_map in Hp as [cs [Hcs Hp]].
      unfold unit_pairs in *. rewrite Forall_forall in Hcirc, Hcos, Hring.
      destruct (cap_vertex_surface sc cs (Hcirc _ Hsc) (Hcos _ Hsc) (Hring _ Hcs)) as [A B].
      destruct Hp as [<-|[<-|[]]]; assumption. }
    assert (D0 : capsule_depth radius mtz (V 0 0 mtz) = radius /\ capsule_depth radius mtz (V 0 0 (- mtz)) = radius).
    { unfold capsule_depth, seg_dist2; cbv zeta; cbn [vx vy vz]. rewrite Rabs_Ropp, (Rabs_pos_eq mtz) by lra.
      replace (mtz - mtz) with 0 by ring. rewrite Rmax_left by lra.
      match goal with |- context [R_sqrt.sqrt ?e] => replace e with 0 by ring end. rewrite sqrt_0. split; ring. }
    assert (D1 : capsule_depth radius mtz (V 0 0 (mtz + radius)) = 0 /\ capsule_depth radius mtz (V 0 0 (- (mtz + radius))) = 0).
    { apply depth_surface; [lra|]. ring. }
    split.
    - cbn [app length seq map Nat.ltb Nat.leb].
      rewrite (map_seq_const _ 0 4) by (intros i Hi; destruct i as [|[|i]]; [lia|lia|reflexivity]).
      unfold pot_ok_capsule.
      constructor; [split; [symmetry; apply D0|right; reflexivity]|].
      constructor; [split; [symmetry; apply D0|right; reflexivity]|].
      constructor; [split; [symmetry; apply D1|left; reflexivity]|].
      constructor; [split; [symmetry; apply D1|left; reflexivity]|].
      apply Forall2_repeat. eapply Forall_impl; [|exact Hcaps]. intros p Hp. split; [symmetry; exact Hp|left; reflexivity].
    - assert (In0 : forall p, capsule_depth radius mtz p = 0 \/ capsule_depth radius mtz p = radius ->
                              seg_dist2 mtz p <= radius * radius).
      { intros p Hp. unfold capsule_depth in Hp.
        assert (Hq : 0 <= seg_dist2 mtz p).
        { unfold seg_dist2. cbv zeta. nra. }
        pose proof (sqrt_sqrt _ Hq) as Hs. pose proof (R_sqrt.sqrt_pos (seg_dist2 mtz p)) as Hp0.
        destruct Hp as [Hp|Hp]; nra. }
      constructor; [apply In0; right; apply D0|].
      constructor; [apply In0; right; apply D0|].
      constructor; [apply In0; left; apply D1|].
      constructor; [apply In0; left; apply D1|].
      eapply Forall_impl; [|exact Hcaps]. intros p Hp. apply In0. left. exact Hp.
  Qed.
End CapsuleMetric.

(** ** icosphere normalisation *)
Lemma ico_normalize_on_sphere (radius : R) (v : V3 R) :
  0 < radius -> 0 < vx v * vx v + vy v * vy v + vz v * vz v ->
  let w := ico_normalize (O := ROps) radius (vzero (O := ROps)) v in
  vx w * vx w + vy w * vy w + vz w * vz w = radius * radius.
Proof.
  intros Hr Hq. unfold ico_normalize. cbn [vx vy vz vadd vdivs vzero add mul div one zero sqrt ROps].
  set (q := vx v * vx v + vy v * vy v + vz v * vz v) in *.
  change (@sqrt R ROps q) with (R_sqrt.sqrt q).
  assert (Hs : R_sqrt.sqrt q * R_sqrt.sqrt q = q) by (apply sqrt_sqrt; lra).
  assert (Hs0 : 0 < R_sqrt.sqrt q) by (apply sqrt_lt_R0; assumption).
  set (s := R_sqrt.sqrt q) in *. clearbody s.
  replace ((vx v / (1 / radius * s) + 0) * (vx v / (1 / radius * s) + 0) +
           (vy v / (1 / radius * s) + 0) * (vy v / (1 / radius * s) + 0) +
           (vz v / (1 / radius * s) + 0) * (vz v / (1 / radius * s) + 0))
    with (radius * radius * q / (s * s)) by (unfold q; field; lra).
  rewrite Hs. field. lra.
Qed.

(** the ellipsoid scaling of a point of the unit sphere lies on the ellipsoid *)
Lemma ellipsoid_scale_on_surface (rx ry rz : R) (u : V3 R) :
  0 < rx -> 0 < ry -> 0 < rz -> vx u * vx u + vy u * vy u + vz u * vz u = 1 ->
  (vx u * rx / rx) * (vx u * rx / rx) + (vy u * ry / ry) * (vy u * ry / ry) + (vz u * rz / rz) * (vz u * rz / rz) = 1.
Proof. intros. rewrite <- H2. field. lra. Qed.
