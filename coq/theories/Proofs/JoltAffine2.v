From Coq Require Import Reals Lra Psatz List NArith Bool QArith Qreals.
From D3 Require Import Base.Ops Base.Vec Base.RVec Spec.Convex Spec.ConvexHull Model.Simplex Model.JoltLoop
  Proofs.JoltLoop Proofs.SimplexLine Proofs.JoltAffine.
Import ListNotations.
Local Open Scope R_scope.

(** ** two live rows: no hypothesis about the solver is needed.  When [closest_point_line] keeps
       both rows (set = 3, the interior arm) the weights that [calculate_closest_points] recomputes
       from those two rows are the same [u, v] and both are positive. *)
Lemma line_interior_weights_pos (a b v : V3R) :
  closest_point_line a b = (v, 3%N) ->
  0 < fst (get_barycentric_coordinates_line a b) /\ 0 < snd (get_barycentric_coordinates_line a b).
Proof.
  unfold closest_point_line, closest_point_line_t, get_barycentric_coordinates_line.
  destruct (get_barycentric_coordinates_line_t a b) as [[u w] t]. cbn [fst snd].
  destruct (leb w zero) eqn:E1; [intros H; inversion H|].
  destruct (leb u zero) eqn:E2; [intros H; inversion H|].
  intros _. apply Rleb_false in E1. apply Rleb_false in E2. cbn in E1, E2. lra.
Qed.

Theorem closest_points_feasible_two_rows A B y0 y1 p0 p1 q0 q1 v a b :
  convex A -> convex B -> rows A B [y0; y1] [p0; p1] [q0; q1] ->
  closest_point_line y0 y1 = (v, 3%N) ->
  calculate_closest_points [y0; y1] [p0; p1] [q0; q1] = Some (a, b) ->
  A a /\ B b /\ conv_hull [y0; y1] (vsub a b).
Proof.
  intros CA CB Hr Hl Hc.
  apply (closest_points_feasible_partial A B _ _ _ a b CA CB Hr Hc I).
  intros ws Hw. unfold closest_weights in Hw.
  destruct (line_interior_weights_pos _ _ _ Hl) as [Hu Hv].
  destruct (get_barycentric_coordinates_line y0 y1) as [u w]. cbn [fst snd] in *.
  inversion Hw; subst. repeat constructor; lra.
Qed.

Lemma fx_closest_line : closest_point_line (V 1 1 0 : V3R) (V 1 (-1) 0) = (V 1 0 0, 3%N).
Proof.
  unfold closest_point_line, closest_point_line_t.
  pose proof fx_line as H. unfold get_barycentric_coordinates_line in H.
  destruct (get_barycentric_coordinates_line_t (V 1 1 0) (V 1 (-1) 0)) as [[u w] t]. cbn [fst] in H.
  inversion H; subst.
  assert (E : leb (/ 2) (zero : R) = false) by (apply Rleb_false; cbn; lra).
  rewrite E. cbn [fst]. f_equal. vsimp. f_equal; field.
Qed.

Definition fxy0 : V3R := V 1 1 0.
Definition fxy1 : V3R := V 1 (-1) 0.
Theorem closest_points_feasible_two_rows_nonvacuous :
  convex fxA /\ convex fxB /\ rows fxA fxB fxY fxP fxQ /\
  (exists v, closest_point_line fxy0 fxy1 = (v, 3%N)) /\
  (exists a b, calculate_closest_points fxY fxP fxQ = Some (a, b)).
Proof.
  destruct closest_points_feasible_nonvacuous as (H1 & H2 & H3 & H4 & _ & _).
  refine (conj H1 (conj H2 (conj H3 (conj _ _)))).
  - eexists. exact fx_closest_line.
  - eexists; eexists; exact H4.
Qed.
