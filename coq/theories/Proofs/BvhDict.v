(** * C06, part 1: association-list dictionaries (Model/Bvh.v [dict_*]) *)
From Coq Require Import List Arith Bool Lia Permutation.
From D3 Require Import Model.Bvh.
Import ListNotations.

Lemma NoDup_map_inj_on {A B} (g : A -> B) (l : list A) :
  NoDup l -> (forall x y, In x l -> In y l -> g x = g y -> x = y) -> NoDup (map g l).
Proof.
  induction 1 as [|a l Hn Hd IH]; intros Hinj; simpl; constructor.
  - intros Hin. apply in_map_iff in Hin as (y & Hy & Hiny).
    assert (y = a) by (apply Hinj; simpl; auto). subst; auto.
  - apply IH. intros x y Hx Hy. apply Hinj; simpl; auto.
Qed.

Lemma NoDup_map_NoDup {A B} (g : A -> B) (l : list A) : NoDup (map g l) -> NoDup l.
Proof.
  induction l as [|a l IH]; simpl; intros H; constructor; inversion H; subst; auto.
  intros Hin; apply H2, in_map; auto.
Qed.

Lemma NoDup_fst_inj {A B} (l : list (A * B)) a b b' :
  NoDup (map fst l) -> In (a, b) l -> In (a, b') l -> b = b'.
Proof.
  induction l as [|[x y] l IH]; simpl; intros Hn H1 H2; [tauto|].
  inversion Hn; subst.
  destruct H1 as [E1|H1], H2 as [E2|H2].
  - congruence.
  - inversion E1; subst. exfalso. apply H3. apply in_map_iff. exists (a, b'); auto.
  - inversion E2; subst. exfalso. apply H3. apply in_map_iff. exists (a, b); auto.
  - eauto.
Qed.

Lemma NoDup_incl_fst {A B} (r l : list (A * B)) :
  NoDup r -> incl r l -> NoDup (map fst l) -> NoDup (map fst r).
Proof.
  intros Hr Hi Hl. apply NoDup_map_inj_on; auto.
  intros [a b] [a' b'] H1 H2; simpl; intros ->. f_equal.
  eapply NoDup_fst_inj; eauto.
Qed.

Lemma filter_all_true {A} (p : A -> bool) (l : list A) :
  (forall x, In x l -> p x = true) -> filter p l = l.
Proof.
  induction l as [|a l IH]; simpl; intros H; auto.
  rewrite H by auto. f_equal. auto.
Qed.

Section Dict.
  Variables K V : Type.
  Variable keqb : K -> K -> bool.
  Hypothesis keqb_spec : forall a b, keqb a b = true <-> a = b.

  Lemma keqb_refl a : keqb a a = true.
  Proof. apply keqb_spec; auto. Qed.
  Lemma keqb_neq a b : a <> b -> keqb a b = false.
  Proof. intros H. destruct (keqb a b) eqn:E; auto. apply keqb_spec in E. tauto. Qed.
  Lemma keqb_false a b : keqb a b = false -> a <> b.
  Proof. intros H ->. rewrite keqb_refl in H. discriminate. Qed.

  Lemma dict_get_In (d : list (K * V)) k v : dict_get keqb d k = Some v -> In (k, v) d.
  Proof.
    induction d as [|[k' v'] d IH]; simpl; [discriminate|].
    destruct (keqb k' k) eqn:E.
    - apply keqb_spec in E. intros H; inversion H; subst; auto.
    - auto.
  Qed.

  Lemma dict_get_None (d : list (K * V)) k : dict_get keqb d k = None <-> ~ In k (map fst d).
  Proof.
    induction d as [|[k' v'] d IH]; simpl; [tauto|].
    destruct (keqb k' k) eqn:E.
    - apply keqb_spec in E. split; [discriminate|]. intros H; exfalso; apply H; auto.
    - apply keqb_false in E. rewrite IH. tauto.
  Qed.

  Lemma dict_get_NoDup (d : list (K * V)) k v :
    NoDup (map fst d) -> In (k, v) d -> dict_get keqb d k = Some v.
  Proof.
    intros Hn Hin. destruct (dict_get keqb d k) as [v'|] eqn:E.
    - apply dict_get_In in E. f_equal. eapply NoDup_fst_inj; eauto.
    - apply dict_get_None in E. exfalso. apply E. apply in_map_iff. exists (k, v); auto.
  Qed.

  Lemma dict_mem_iff (d : list (K * V)) k : dict_mem keqb d k = true <-> In k (map fst d).
  Proof.
    unfold dict_mem. destruct (dict_get keqb d k) eqn:E.
    - apply dict_get_In in E. split; auto. intros _. apply in_map_iff. eexists; split; eauto. reflexivity.
    - apply dict_get_None in E. split; [discriminate|tauto].
  Qed.

  Lemma dict_set_fresh (d : list (K * V)) k v :
    ~ In k (map fst d) -> dict_set keqb d k v = d ++ [(k, v)].
  Proof.
    induction d as [|[k' v'] d IH]; simpl; intros H; auto.
    rewrite keqb_neq by tauto. f_equal. apply IH. tauto.
  Qed.

  Lemma dict_get_set_eq (d : list (K * V)) k v : dict_get keqb (dict_set keqb d k v) k = Some v.
  Proof.
    induction d as [|[k' v'] d IH]; simpl.
    - rewrite keqb_refl; auto.
    - destruct (keqb k' k) eqn:E; simpl; rewrite E; auto.
  Qed.

  Lemma dict_get_set_neq (d : list (K * V)) k v k' :
    k <> k' -> dict_get keqb (dict_set keqb d k v) k' = dict_get keqb d k'.
  Proof.
    intros Hne. induction d as [|[k0 v0] d IH]; simpl.
    - rewrite keqb_neq; auto.
    - destruct (keqb k0 k) eqn:E; simpl.
      + apply keqb_spec in E. subst. rewrite keqb_neq; auto.
      + destruct (keqb k0 k'); auto.
  Qed.

  Lemma dict_set_keys (d : list (K * V)) k v k' :
    In k' (map fst (dict_set keqb d k v)) <-> k' = k \/ In k' (map fst d).
  Proof.
    induction d as [|[k0 v0] d IH]; simpl.
    - intuition.
    - destruct (keqb k0 k) eqn:E; simpl.
      + apply keqb_spec in E. subst. intuition.
      + rewrite IH. intuition.
  Qed.

  Lemma dict_set_NoDup (d : list (K * V)) k v :
    NoDup (map fst d) -> NoDup (map fst (dict_set keqb d k v)).
  Proof.
    induction d as [|[k0 v0] d IH]; simpl; intros Hn.
    - constructor; auto.
    - inversion Hn; subst. destruct (keqb k0 k) eqn:E; simpl.
      + constructor; auto.
      + constructor; auto. rewrite dict_set_keys. apply keqb_false in E. intuition.
  Qed.

  (** with unique keys [dict(rows)] is [rows] *)
  Lemma dict_update_NoDup (rows d : list (K * V)) :
    NoDup (map fst (d ++ rows)) -> dict_update keqb d rows = d ++ rows.
  Proof.
    revert d; induction rows as [|[k v] rows IH]; intros d Hn; simpl.
    - rewrite app_nil_r; auto.
    - unfold dict_update in *. simpl.
      assert (Hk : ~ In k (map fst d)).
      { rewrite map_app in Hn. simpl in Hn. apply NoDup_remove_2 in Hn.
        intros Hin; apply Hn; apply in_or_app; auto. }
      rewrite dict_set_fresh by auto.
      rewrite IH; rewrite <- app_assoc; simpl; auto.
  Qed.

  Lemma dict_of_NoDup (rows : list (K * V)) : NoDup (map fst rows) -> dict_of keqb rows = rows.
  Proof. intros H. unfold dict_of. rewrite dict_update_NoDup; auto. Qed.

  Lemma dict_pop_filter (d : list (K * V)) k :
    NoDup (map fst d) -> dict_pop keqb d k = filter (fun kv => negb (keqb (fst kv) k)) d.
  Proof.
    induction d as [|[k0 v0] d IH]; simpl; intros Hn; auto.
    inversion Hn; subst. destruct (keqb k0 k) eqn:E; simpl.
    - apply keqb_spec in E. subst.
      symmetry. apply filter_all_true.
      intros [k1 v1] Hin. simpl. rewrite keqb_neq; auto.
      intros ->. apply H1. apply in_map_iff. exists (k, v1); auto.
    - f_equal; auto.
  Qed.

  Lemma dict_pop_keys_incl (d : list (K * V)) k x :
    In x (map fst (dict_pop keqb d k)) -> In x (map fst d).
  Proof.
    induction d as [|[k0 v0] d IH]; simpl; auto.
    destruct (keqb k0 k); simpl; intuition.
  Qed.

  Lemma dict_pop_NoDup (d : list (K * V)) k :
    NoDup (map fst d) -> NoDup (map fst (dict_pop keqb d k)).
  Proof.
    induction d as [|[k0 v0] d IH]; simpl; intros Hn; auto.
    inversion Hn; subst. destruct (keqb k0 k); simpl; auto.
    constructor; auto. intros Hin. apply H1. eapply dict_pop_keys_incl; eauto.
  Qed.
End Dict.
