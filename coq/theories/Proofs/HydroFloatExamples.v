(** * PrimFloat (binary64) examples for the hydroelastic model (C15): kept out of Props/C15.v, which is
    PrimFloat-free.  [Print Assumptions] lists the PrimFloat primitives here (kernel primitives, not axioms). *)
From Coq Require Import List ZArith PrimFloat.
From D3 Require Import Base.Ops Base.Vec Model.AabbTree Model.Hydro.
Import ListNotations.

(** the hypotheses are satisfiable: a binary64 run of the model that returns a triangle; the
    eighth face is parallel to the plane and is dropped by the compaction *)
Section FloatExample.
  Local Open Scope float_scope.
  Definition eX1 : @M4 float := (mkV4 1 0 0 0, mkV4 0 1 0 0, mkV4 (-1) (-1) 0 1, mkV4 0 0 1 0).
  Definition eX2 : @M4 float := (mkV4 1 0 0 1, mkV4 0 1 0 1, mkV4 (-1) (-1) 0 3, mkV4 0 0 (-1) 5).
  Example model_binary64_example :
    (exists rows, make_halfplanes (m4rows eX1 ++ m4rows eX2) (V 0 0 0.25) (V (-1) 0 0) (V 0 (-1) 0) = Ok rows /\ length rows = 6%nat) /\
    (exists poly, compute_contact_polygon eX1 eX2 (V 0 0 1) 0.25 [0; 1; 2]%nat = Ok poly /\ length poly = 3%nat).
  Proof. split; eexists; split; vm_compute; reflexivity. Qed.
End FloatExample.


(** ** Known finding F26 inside Coq: the binary64 instance of the model loses a vertex.
    [f26_hs12] are the halfplanes the implementation builds for the corpus input
    corpus/C15/f18_aligned_lost_vertex.json in the order (t1, t2); for the order (t2, t1) it builds
    the mirror image (x -> -x) of the same eight halfplanes, rows of the two tetrahedra exchanged.
    Over the reals the mirror image of an arrangement vertex is an arrangement vertex (and
    [intersect_halfplanes_complete] (Proofs/HydroHalfplanes.v) returns all of them); in binary64 the first run returns
    4 points, the mirrored run 3. *)
Section F26.
  Local Open Scope float_scope.
  Definition f26_hs12 : list (HP float) :=
    [mkHP (mkV2 (-0x1.07fc8d56770e3p+0) (-0x1.7555555555557p+0)) (mkV2 0x1.0000000000001p+2 (-0x1.6a09e667f3bbbp+1));
     mkHP (mkV2 (-0x1.88356445f2b99p-2) 0x1.1555555555567p-1) (mkV2 (-0x1.0000000000004p+2) (-0x1.6a09e667f3bdfp+1));
     mkHP (mkV2 (-0x1.9d666c7d534a0p+45) (-0x1.18eb036d1908cp+45)) (mkV2 0x1.26c8547f1cb3bp-48 (-0x1.b1cd9cceef236p-48));
     mkHP (mkV2 (-0x1.04371d9ab72fep+1) (-0x1.2418533f75f2fp-50)) (mkV2 (-0x1.9664a0584b0f8p-49) 0x1.6a09e667f3bd4p+2);
     mkHP (mkV2 (-0x1.26280b3476090p+0) (-0x1.9fffffffffffep+0)) (mkV2 0x1.000000000000dp+1 (-0x1.6a09e667f3bd9p+0));
     mkHP (mkV2 (-0x1.db2cfe686fe64p-1) (-0x1.5000000000003p+0)) (mkV2 (-0x1.000000000000ep+1) 0x1.6a09e667f3bcbp+0);
     mkHP (mkV2 (-0x1.070b316787176p+1) (-0x1.5a8c16c68e5f2p-50)) (mkV2 0x1.dcf7dd4855d7dp-50 (-0x1.6a09e667f3bccp+1));
     mkHP (mkV2 (-0x1.04371d9ab72fep+1) (-0x1.2418533f75f30p-50)) (mkV2 (-0x1.9664a0584b0f7p-50) 0x1.6a09e667f3bd3p+1)].
  Definition mirror_hp (h : HP float) : HP float :=
    mkHP (mkV2 (- px (hp h)) (py (hp h))) (mkV2 (px (hdir h)) (- py (hdir h))).
  Definition f26_hs21 : list (HP float) := map mirror_hp (skipn 4 f26_hs12 ++ firstn 4 f26_hs12).
  Example F26_binary64_example :
    (exists pts, intersect_halfplanes f26_hs12 = Ok pts /\ length pts = 4%nat) /\
    (exists pts, intersect_halfplanes f26_hs21 = Ok pts /\ length pts = 3%nat).
  Proof. split; eexists; split; vm_compute; reflexivity. Qed.
End F26.


Print Assumptions model_binary64_example.
Print Assumptions F26_binary64_example.
