(** * point_to_rectangle, point_to_box over the reals:
      feasibility (C10) and optimality (C11) of the model of [Model/DistPrim.v]. *)
From Coq Require Import Reals Lra Psatz List Bool.
From D3 Require Import Base.Ops Base.Vec Base.RVec Base.RVec2 Base.RVec3 Spec.Convex Spec.Prims Model.DistPrim Proofs.DistBase.
Local Open Scope R_scope.

(** ** one clipped coordinate: range, and the one-dimensional variational inequality *)
Lemma Rabs_le_between' (x h : R) : Rabs x <= h -> - h <= x <= h.
Proof. unfold Rabs. destruct (Rcase_abs x); lra. Qed.

Lemma clip_half (k l : R) :
  0 <= l ->
  Rabs (clip (O:=ROps) k (- (half (O:=ROps) * l)) (half (O:=ROps) * l)) <= l / 2 /\
  forall y, Rabs y <= l / 2 ->
            (k - clip (O:=ROps) k (- (half (O:=ROps) * l)) (half (O:=ROps) * l))
            * (y - clip (O:=ROps) k (- (half (O:=ROps) * l)) (half (O:=ROps) * l)) <= 0.
Proof.
  intros Hl. rewrite half_R.
  replace (/ 2 * l) with (l / 2) by lra.
  set (h := l / 2). assert (Hh : 0 <= h) by (unfold h; lra). clearbody h.
  destruct (clip_spec k (- h) h) as [Hr Hc]; [lra|].
  set (c := clip (O:=ROps) k (- h) h) in *. clearbody c.
  split; [apply Rabs_le; lra|].
  intros y Hy. apply Rabs_le_between' in Hy.
  destruct Hc as [Hc|[[Hc Hc']|[Hc Hc']]].
  - rewrite Hc. lra.
  - subst c. replace ((k - - h) * (y - - h)) with (- ((- h - k) * (y + h))) by ring.
    assert (0 <= (- h - k) * (y + h)) by (apply Rmult_le_pos; lra). lra.
  - subst c. replace ((k - h) * (y - h)) with (- ((k - h) * (h - y))) by ring.
    assert (0 <= (k - h) * (h - y)) by (apply Rmult_le_pos; lra). lra.
Qed.

(** ** point_to_rectangle *)
(** no hypothesis on the axes: the clipped coefficients are within +-l/2 whatever the axes are *)
Lemma point_to_rectangle_feasible (p c a0 a1 : V3R) (l0 l1 : R) d cp :
  0 <= l0 -> 0 <= l1 ->
  point_to_rectangle p c a0 a1 l0 l1 = (d, cp) ->
  feasible (point_set p) (rectangle_set c a0 a1 l0 l1) d p cp.
Proof.
  unfold point_to_rectangle. intros H0 H1 H. apply pair_equal_spec in H. destruct H as [Hd Hc]. subst d cp.
  apply feasible_point. ops_R.
  destruct (clip_half (dot a0 (vsub p c)) l0 H0) as [R0 _].
  destruct (clip_half (dot a1 (vsub p c)) l1 H1) as [R1 _].
  eexists; eexists. split; [exact R0|]. split; [exact R1|]. reflexivity.
Qed.

Lemma rect_dot_identity (w a0 a1 : V3R) (c0 c1 y0 y1 : R) :
  dot (vsub w (vadd (vscale c0 a0) (vscale c1 a1)))
      (vadd (vscale (y0 - c0) a0) (vscale (y1 - c1) a1))
  = (y0 - c0) * (dot a0 w - c0 * dot a0 a0 - c1 * dot a0 a1)
    + (y1 - c1) * (dot a1 w - c0 * dot a0 a1 - c1 * dot a1 a1).
Proof. vsimp; ring. Qed.

(** orthonormal axes (the documented precondition) => global minimum over the rectangle *)
Lemma point_to_rectangle_optimal (p c a0 a1 : V3R) (l0 l1 : R) d cp :
  dot a0 a0 = 1 -> dot a1 a1 = 1 -> dot a0 a1 = 0 -> 0 <= l0 -> 0 <= l1 ->
  point_to_rectangle p c a0 a1 l0 l1 = (d, cp) -> closest_on (rectangle_set c a0 a1 l0 l1) p d.
Proof.
  unfold point_to_rectangle. intros U0 U1 U01 H0 H1 H.
  apply pair_equal_spec in H. destruct H as [Hd Hc]. subst d cp.
  apply variational_closest. intros x (y0 & y1 & Y0 & Y1 & ->). ops_R.
  destruct (clip_half (dot a0 (vsub p c)) l0 H0) as [_ V0]. specialize (V0 y0 Y0).
  destruct (clip_half (dot a1 (vsub p c)) l1 H1) as [_ V1]. specialize (V1 y1 Y1).
  set (w := vsub p c) in *.
  set (c0 := clip (O:=ROps) (dot a0 w) (- (half (O:=ROps) * l0)) (half (O:=ROps) * l0)) in *.
  set (c1 := clip (O:=ROps) (dot a1 w) (- (half (O:=ROps) * l1)) (half (O:=ROps) * l1)) in *.
  replace (vsub p (vadd c (vadd (vscale c0 a0) (vscale c1 a1))))
    with (vsub w (vadd (vscale c0 a0) (vscale c1 a1))) by (unfold w; veq).
  replace (vsub (vadd c (vadd (vscale y0 a0) (vscale y1 a1))) (vadd c (vadd (vscale c0 a0) (vscale c1 a1))))
    with (vadd (vscale (y0 - c0) a0) (vscale (y1 - c1) a1)) by veq.
  rewrite rect_dot_identity, U0, U1, U01.
  set (k0 := dot a0 w) in *. set (k1 := dot a1 w) in *. clearbody k0 k1 c0 c1. nra.
Qed.

(** ** point_to_box *)
Lemma mulMV_cols (m : M3 R) (k : V3R) :
  mulMV m k = vadd (vscale (vx k) (col m 0)) (vadd (vscale (vy k) (col m 1)) (vscale (vz k) (col m 2))).
Proof. veq. Qed.

(** no hypothesis on the pose: the clipped coefficients are within +-size/2 whatever the columns are *)
Lemma point_to_box_feasible (p : V3R) (T : Pose R) (sz : V3R) d cp :
  0 <= vx sz -> 0 <= vy sz -> 0 <= vz sz ->
  point_to_box p T sz = (d, cp) -> feasible (point_set p) (box_of T sz) d p cp.
Proof.
  unfold point_to_box. intros H0 H1 H2 H. apply pair_equal_spec in H. destruct H as [Hd Hc]. subst d cp.
  apply feasible_point. rewrite mulMV_cols. cbn [vx vy vz vscale]. ops_R.
  set (q := inverse_transform_point_code T p).
  destruct (clip_half (vx q) (vx sz) H0) as [R0 _].
  destruct (clip_half (vy q) (vy sz) H1) as [R1 _].
  destruct (clip_half (vz q) (vz sz) H2) as [R2 _].
  unfold box_of, box_set, pose_x, pose_y, pose_z.
  eexists; eexists; eexists. split; [exact R0|]. split; [exact R1|]. split; [exact R2|]. reflexivity.
Qed.

Lemma box_dot_identity (w a0 a1 a2 : V3R) (c0 c1 c2 y0 y1 y2 : R) :
  dot (vsub w (vadd (vscale c0 a0) (vadd (vscale c1 a1) (vscale c2 a2))))
      (vadd (vscale (y0 - c0) a0) (vadd (vscale (y1 - c1) a1) (vscale (y2 - c2) a2)))
  = (y0 - c0) * (dot a0 w - c0 * dot a0 a0 - c1 * dot a0 a1 - c2 * dot a0 a2)
    + (y1 - c1) * (dot a1 w - c0 * dot a0 a1 - c1 * dot a1 a1 - c2 * dot a1 a2)
    + (y2 - c2) * (dot a2 w - c0 * dot a0 a2 - c1 * dot a1 a2 - c2 * dot a2 a2).
Proof. vsimp; ring. Qed.

Lemma inverse_transform_point_coords (T : Pose R) (p : V3R) :
  inverse_transform_point T p
  = V (dot (col (rot T) 0) (vsub p (trans T))) (dot (col (rot T) 1) (vsub p (trans T)))
      (dot (col (rot T) 2) (vsub p (trans T))).
Proof. reflexivity. Qed.

(** orthonormal pose (the documented precondition) => global minimum over the box *)
Lemma point_to_box_optimal (p : V3R) (T : Pose R) (sz : V3R) d cp :
  is_rotation (rot T) -> 0 <= vx sz -> 0 <= vy sz -> 0 <= vz sz ->
  point_to_box p T sz = (d, cp) -> closest_on (box_of T sz) p d.
Proof.
  unfold point_to_box. intros HR H0 H1 H2 H. apply pair_equal_spec in H. destruct H as [Hd Hc]. subst d cp.
  apply is_rotation_cols in HR. destruct HR as (U0 & U1 & U2 & U01 & U02 & U12).
  apply variational_closest. unfold box_of, box_set, pose_x, pose_y, pose_z.
  intros x (y0 & y1 & y2 & Y0 & Y1 & Y2 & ->).
  rewrite mulMV_cols, inverse_transform_point_code_eq, inverse_transform_point_coords. cbn [vx vy vz vscale]. ops_R.
  set (a0 := col (rot T) 0) in *. set (a1 := col (rot T) 1) in *. set (a2 := col (rot T) 2) in *.
  set (t := trans T). set (w := vsub p t).
  destruct (clip_half (dot a0 w) (vx sz) H0) as [_ V0]. specialize (V0 y0 Y0).
  destruct (clip_half (dot a1 w) (vy sz) H1) as [_ V1]. specialize (V1 y1 Y1).
  destruct (clip_half (dot a2 w) (vz sz) H2) as [_ V2]. specialize (V2 y2 Y2).
  set (c0 := clip (O:=ROps) (dot a0 w) (- (half (O:=ROps) * vx sz)) (half (O:=ROps) * vx sz)) in *.
  set (c1 := clip (O:=ROps) (dot a1 w) (- (half (O:=ROps) * vy sz)) (half (O:=ROps) * vy sz)) in *.
  set (c2 := clip (O:=ROps) (dot a2 w) (- (half (O:=ROps) * vz sz)) (half (O:=ROps) * vz sz)) in *.
  replace (vsub p (vadd t (vadd (vscale c0 a0) (vadd (vscale c1 a1) (vscale c2 a2)))))
    with (vsub w (vadd (vscale c0 a0) (vadd (vscale c1 a1) (vscale c2 a2)))) by (unfold w; veq).
  replace (vsub (vadd t (vadd (vscale y0 a0) (vadd (vscale y1 a1) (vscale y2 a2))))
                (vadd t (vadd (vscale c0 a0) (vadd (vscale c1 a1) (vscale c2 a2)))))
    with (vadd (vscale (y0 - c0) a0) (vadd (vscale (y1 - c1) a1) (vscale (y2 - c2) a2))) by veq.
  rewrite box_dot_identity, U0, U1, U2, U01, U02, U12.
  set (k0 := dot a0 w) in *. set (k1 := dot a1 w) in *. set (k2 := dot a2 w) in *.
  clearbody k0 k1 k2 c0 c1 c2. nra.
Qed.
