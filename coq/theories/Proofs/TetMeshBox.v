(** * make_tetrahedral_box and make_tetrahedral_cube: exact tiling for ALL sizes > 0 (C17).

    The model [box_core] (driven by the tables re-extracted from the source:
    [box_faces], [hex_rule], [box_n_corner]) is run symbolically, once per topology class
    (which central half-extents vanish: 7 reachable classes), on polynomial vertex
    coordinates in the positive parameters [c_i] (non-vanishing central half extents) and
    [e_i = h_i - c_i]; the symbolic checker of [TetMeshSym] then decides orientation, the
    volume sum, containment and pairwise separation by coefficient signs ([vm_compute]),
    and its soundness theorem gives the statement for every real value of the sizes. *)
From Coq Require Import List ZArith QArith Reals Lra Lia Bool.
From D3 Require Import Base.Ops Base.Vec Base.RVec Model.TetSym Gen.TetTables Model.TetMesh Checker.TetMesh
                       Proofs.TetMeshPoly Proofs.TetMeshBase Proofs.TetMeshSym.
Import ListNotations.
Import TetTables.

(** ** the symbolic run *)
Definition Cv (i : nat) : poly := pvar i.            (* c_x c_y c_z : variables 0 1 2 *)
Definition Ev (i : nat) : poly := pvar (3 + i).      (* e_x e_y e_z : variables 3 4 5 *)
Definition sym_h (d : bool) (i : nat) : poly := if d then Ev i else padd (Cv i) (Ev i).
Definition sym_c (d : bool) (i : nat) : poly := if d then [] else Cv i.

Definition sym_box (dx dy dz : bool) : @mesh poly :=
  box_core (O := POps) (V (sym_h dx 0) (sym_h dy 1) (sym_h dz 2))
           (V (sym_c dx 0) (sym_c dy 1) (sym_c dz 2)) dx dy dz [].

Definition is_pm (x h : poly) : bool := pzero (psub x h) || pzero (padd x h).
Definition is_at (hx hy hz : poly) (s : spoint) : bool :=
  is_pm (vx s) hx && is_pm (vy s) hy && is_pm (vz s) hz.

(** vertices below [box_n_corner] are corners (+-h), the others medial (+-c) *)
Fixpoint chk_kinds (dx dy dz : bool) (i : nat) (svs : list spoint) : bool :=
  match svs with
  | [] => true
  | s :: r => (if Nat.ltb i box_n_corner
               then is_at (sym_h dx 0) (sym_h dy 1) (sym_h dz 2) s
               else is_at (sym_c dx 0) (sym_c dy 1) (sym_c dz 2) s)
              && chk_kinds dx dy dz (S i) r
  end.

Definition mverts {F} (m : @mesh F) : list (V3 F) := fst (fst m).
Definition mtets {F} (m : @mesh F) : list tet := snd (fst m).
Definition mpots {F} (m : @mesh F) : list F := snd m.

(** (projections, not a destructuring [let]: the kernel must never be led to evaluate
    [sym_box] on variable booleans) *)
Definition box_class_ok (dx dy dz : bool) : bool :=
  let hx := sym_h dx 0 in let hy := sym_h dy 1 in let hz := sym_h dz 2 in
  chk_oriented 1 (mverts (sym_box dx dy dz)) (mtets (sym_box dx dy dz)) &&
  chk_sum 1 (mverts (sym_box dx dy dz)) (mtets (sym_box dx dy dz)) (pscale [] 48 (pmul (pmul hx hy) hz)) &&
  chk_inbox hx hy hz (mverts (sym_box dx dy dz)) &&
  chk_disjoint (mverts (sym_box dx dy dz)) (mtets (sym_box dx dy dz)) &&
  chk_kinds dx dy dz 0 (mverts (sym_box dx dy dz)).

(** conversion must never unfold the table-driven computations on variable booleans *)
Local Strategy opaque [sym_box chk_oriented chk_sum chk_inbox chk_disjoint chk_kinds box_core].

(** the finite computation on the extracted tables: all 7 reachable classes *)
Lemma box_classes_ok dx dy dz : dx || dy || dz = true -> box_class_ok dx dy dz = true.
Proof. destruct dx, dy, dz; intros H; try discriminate H; vm_cast_no_check (eq_refl true). Qed.

(** ** the real run of [box_core] is the evaluation of the symbolic run *)
Local Open Scope R_scope.

Definition box_pots (mh : R) (n : nat) : list R :=
  map (fun idx => if Nat.ltb idx box_n_corner then 0 else mh) (seq 0 n).

Ltac mesh_eq :=
  repeat match goal with
         | |- (_, _) = (_, _) => apply f_equal2
         | |- cons _ _ = cons _ _ => apply f_equal2
         | |- V _ _ _ = V _ _ _ => apply f_equal3
         | |- nil = nil => reflexivity
         end.

Lemma box_core_sym dx dy dz (cx cy cz ex ey ez mh : R) :
  let env := [cx; cy; cz; ex; ey; ez] in
  box_core (O := ROps)
           (V (peval env (sym_h dx 0)) (peval env (sym_h dy 1)) (peval env (sym_h dz 2)))
           (V (peval env (sym_c dx 0)) (peval env (sym_c dy 1)) (peval env (sym_c dz 2))) dx dy dz mh
  = (map (eval_pt env) (mverts (sym_box dx dy dz)), mtets (sym_box dx dy dz),
     box_pots mh (length (mverts (sym_box dx dy dz)))).
Proof.
  destruct dx, dy, dz; vm_compute; mesh_eq; try reflexivity; ring.
Qed.

(** ** real-number facts about the prologue of make_tetrahedral_box *)
Lemma Rmin3_eq a b c m :
  m <= a -> m <= b -> m <= c -> (a = m \/ b = m \/ c = m) -> Rmin a (Rmin b c) = m.
Proof. intros. unfold Rmin. destruct (Rle_dec b c); destruct (Rle_dec a _); lra. Qed.
Lemma Rmin3_facts a b c :
  0 < a -> 0 < b -> 0 < c ->
  let m := Rmin (Rmin a b) c in 0 < m /\ m <= a /\ m <= b /\ m <= c /\ (m = a \/ m = b \/ m = c).
Proof. intros. unfold m, Rmin. destruct (Rle_dec a b); destruct (Rle_dec _ c); lra. Qed.
Lemma half_R : @half R ROps = / 2.
Proof. unfold half. cbn. unfold Q2R. cbn. lra. Qed.
Lemma fmin_R a b : fmin (O := ROps) a b = Rmin a b.
Proof. unfold fmin, Rmin. cbn. unfold Rltb. destruct (Rlt_dec b a), (Rle_dec a b); lra. Qed.
Lemma fmax_R a b : fmax (O := ROps) a b = Rmax a b.
Proof. unfold fmax, Rmax. cbn. unfold Rltb. destruct (Rlt_dec a b), (Rle_dec a b); lra. Qed.
Lemma fpow2_pos k : 0 < fpow2 (O := ROps) k.
Proof. induction k; cbn in *; unfold two; cbn; lra. Qed.
Lemma lit_pos m k : (0 < m)%Z -> 0 < lit (O := ROps) m k.
Proof.
  intros H. unfold lit. cbn. unfold Q2R. cbn. apply IZR_lt in H.
  apply Rdiv_lt_0_compat; [lra | apply fpow2_pos].
Qed.

Lemma box_central_cases h mh tol :
  0 < tol -> mh <= h ->
  let c := box_central (O := ROps) h mh tol in
  (c = 0 /\ Reqb c 0 = true /\ h - c = h) \/ (0 < c /\ Reqb c 0 = false /\ h - c = mh).
Proof.
  intros Ht Hm. unfold box_central. cbn. unfold Rleb.
  destruct (Rle_dec (h - mh) tol) as [L|L].
  - left. repeat split; [apply Reqb_true; reflexivity | lra].
  - right. repeat split; [lra | apply Reqb_false; lra | lra].
Qed.

Lemma box_central_min h mh tol : 0 < tol -> h = mh -> box_central (O := ROps) h mh tol = 0.
Proof.
  intros Ht ->. unfold box_central. cbn. unfold Rleb. destruct (Rle_dec (mh - mh) tol); [reflexivity|lra].
Qed.

(** ** potentials: corner / medial vertices *)
Section Kinds.
  Variables (env : list R) (dx dy dz : bool) (mh : R).
  Let hx := peval env (sym_h dx 0). Let hy := peval env (sym_h dy 1). Let hz := peval env (sym_h dz 2).
  Let cx := peval env (sym_c dx 0). Let cy := peval env (sym_c dy 1). Let cz := peval env (sym_c dz 2).
  Hypothesis Hc : 0 <= cx /\ 0 <= cy /\ 0 <= cz.
  Hypothesis He : Rmin (hx - cx) (Rmin (hy - cy) (hz - cz)) = mh.
  Hypothesis Hh : 0 <= hx /\ 0 <= hy /\ 0 <= hz.

  Lemma is_pm_sound x h : 0 <= peval env h -> is_pm x h = true -> Rabs (peval env x) = peval env h.
  Proof.
    intros H0 H. unfold is_pm in H. apply orb_true_iff in H as [H|H]; apply (pzero_sound env) in H.
    - rewrite peval_psub in H. replace (peval env x) with (peval env h) by lra. now apply Rabs_pos_eq.
    - rewrite peval_padd in H. replace (peval env x) with (- peval env h) by lra.
      rewrite Rabs_Ropp. now apply Rabs_pos_eq.
  Qed.

  Definition pot_ok (p : V3 R) (q : R) : Prop := q = box_depth hx hy hz p /\ (q = 0 \/ q = mh).

  Lemma chk_kinds_sound i svs :
    chk_kinds dx dy dz i svs = true ->
    Forall2 pot_ok (map (eval_pt env) svs)
            (map (fun idx => if Nat.ltb idx box_n_corner then 0 else mh) (seq i (length svs))).
  Proof.
    revert i; induction svs as [|s r IH]; intros i H; cbn [chk_kinds map seq length] in *; [constructor|].
    apply andb_true_iff in H as [H1 H2]. constructor; [|apply IH; assumption].
    destruct Hc as (C1 & C2 & C3), Hh as (H1' & H2' & H3').
    unfold pot_ok, box_depth, eval_pt; cbn [vx vy vz].
    destruct (Nat.ltb i box_n_corner).
    - unfold is_at in H1. repeat (apply andb_true_iff in H1 as [H1 ?]).
      rewrite (is_pm_sound (vx s) (sym_h dx 0)), (is_pm_sound (vy s) (sym_h dy 1)),
              (is_pm_sound (vz s) (sym_h dz 2)); try assumption.
      fold hx hy hz. replace (hx - hx) with 0 by lra. replace (hy - hy) with 0 by lra.
      replace (hz - hz) with 0 by lra. split; [|left; reflexivity].
      symmetry. apply Rmin3_eq; lra.
    - unfold is_at in H1. repeat (apply andb_true_iff in H1 as [H1 ?]).
      rewrite (is_pm_sound (vx s) (sym_c dx 0)), (is_pm_sound (vy s) (sym_c dy 1)),
              (is_pm_sound (vz s) (sym_c dz 2)); try assumption.
      fold cx cy cz. split; [symmetry; exact He | right; reflexivity].
  Qed.
End Kinds.

(** ** per class: the claims for the evaluation of the symbolic run *)
Definition box_claims (sigma hx hy hz mh total : R) (m : @mesh R) : Prop :=
  (* every element refers to existing vertices and has non-zero volume of orientation sign [sigma] *)
  tets_oriented sigma (mverts m) (mtets m) /\
  (* sigma * 6 * the signed volumes add up to [total] *)
  sum_vol6 sigma (mverts m) (mtets m) = Some total /\
  (* all vertices (hence all elements) lie in the box *)
  verts_in_box hx hy hz (mverts m) /\
  (* no two elements overlap *)
  interiors_disjoint (mverts m) (mtets m) /\
  (* potential = distance to the boundary of the box: 0 (corners) or the inradius (medial) *)
  Forall2 (fun p q => q = box_depth hx hy hz p /\ (q = 0 \/ q = mh)) (mverts m) (mpots m).

Lemma box_core_class dx dy dz (c1 c2 c3 e1 e2 e3 mh : R) :
  dx || dy || dz = true ->
  let env := [c1; c2; c3; e1; e2; e3] in
  env_pos env ->
  let hx := peval env (sym_h dx 0) in let hy := peval env (sym_h dy 1) in let hz := peval env (sym_h dz 2) in
  let cx := peval env (sym_c dx 0) in let cy := peval env (sym_c dy 1) in let cz := peval env (sym_c dz 2) in
  Rmin (hx - cx) (Rmin (hy - cy) (hz - cz)) = mh ->
  box_claims 1 hx hy hz mh (48 * (hx * hy * hz))
             (box_core (O := ROps) (V hx hy hz) (V cx cy cz) dx dy dz mh).
Proof.
  intros Hd env Henv hx hy hz cx cy cz Hemin.
  assert (Hc : 0 <= cx /\ 0 <= cy /\ 0 <= cz /\ 0 <= hx /\ 0 <= hy /\ 0 <= hz).
  { inversion Henv as [|? ? P1 Q1]; inversion Q1 as [|? ? P2 Q2]; inversion Q2 as [|? ? P3 Q3];
    inversion Q3 as [|? ? P4 Q4]; inversion Q4 as [|? ? P5 Q5]; inversion Q5 as [|? ? P6 Q6]; subst.
    unfold cx, cy, cz, hx, hy, hz, env, sym_c, sym_h. destruct dx, dy, dz; cbn; repeat split; lra. }
  pose proof (box_classes_ok dx dy dz Hd) as OK.
  pose proof (box_core_sym dx dy dz c1 c2 c3 e1 e2 e3 mh) as CS. cbv zeta in CS.
  fold env in CS. fold hx hy hz cx cy cz in CS. rewrite CS. clear CS.
  unfold box_class_ok in OK.
  set (svs := mverts (sym_box dx dy dz)) in *. set (sts := mtets (sym_box dx dy dz)) in *.
  clearbody svs sts.
  repeat (apply andb_true_iff in OK as [OK ?]).
  unfold box_claims, mverts, mtets, mpots. cbn [fst snd].
  repeat split.
  - apply (chk_oriented_sound env Henv 1). assumption.
  - rewrite (chk_sum_sound env 1 svs sts _ H2). f_equal.
    rewrite peval_pscale0, !peval_pmul. reflexivity.
  - apply (chk_inbox_sound env Henv). assumption.
  - apply (chk_disjoint_sound env Henv). assumption.
  - unfold box_pots. apply (chk_kinds_sound env dx dy dz mh); try assumption; tauto.
Qed.

(** ** the theorem: make_tetrahedral_box, all sizes *)
Definition box_statement (sx sy sz : R) : Prop :=
  let hx := sx / 2 in let hy := sy / 2 in let hz := sz / 2 in
  box_claims 1 hx hy hz (Rmin (Rmin hx hy) hz) (6 * (sx * sy * sz)) (box_mesh (O := ROps) sx sy sz).

(** elimination principle: every property of [box_mesh] for positive sizes follows from the same
    property of [box_core] on the evaluation of a symbolic class *)
Lemma box_mesh_elim (P : @mesh R -> Prop) sx sy sz :
  0 < sx -> 0 < sy -> 0 < sz ->
  (forall dx dy dz c1 c2 c3 e1 e2 e3,
      let env := [c1; c2; c3; e1; e2; e3] in
      let hx := peval env (sym_h dx 0) in let hy := peval env (sym_h dy 1) in let hz := peval env (sym_h dz 2) in
      let cx := peval env (sym_c dx 0) in let cy := peval env (sym_c dy 1) in let cz := peval env (sym_c dz 2) in
      let mh := Rmin (Rmin (sx / 2) (sy / 2)) (sz / 2) in
      dx || dy || dz = true -> env_pos env ->
      hx = sx / 2 -> hy = sy / 2 -> hz = sz / 2 ->
      Rmin (hx - cx) (Rmin (hy - cy) (hz - cz)) = mh ->
      P (box_core (O := ROps) (V hx hy hz) (V cx cy cz) dx dy dz mh)) ->
  P (box_mesh (O := ROps) sx sy sz).
Proof.
  intros Hx Hy Hz K. unfold box_mesh.
  rewrite !fmin_R, fmax_R, half_R. cbn [mul one ROps].
  replace (/ 2 * sx) with (sx / 2) by lra. replace (/ 2 * sy) with (sy / 2) by lra.
  replace (/ 2 * sz) with (sz / 2) by lra.
  set (hx := sx / 2) in *. set (hy := sy / 2) in *. set (hz := sz / 2) in *.
  set (mh := Rmin (Rmin hx hy) hz) in *.
  set (tol := lit box_tol_m box_tol_k * Rmax 1 mh).
  assert (Hhx : 0 < hx) by (unfold hx; lra). assert (Hhy : 0 < hy) by (unfold hy; lra).
  assert (Hhz : 0 < hz) by (unfold hz; lra).
  assert (Hmh : 0 < mh /\ mh <= hx /\ mh <= hy /\ mh <= hz /\ (mh = hx \/ mh = hy \/ mh = hz)).
  { apply Rmin3_facts; assumption. }
  destruct Hmh as (Hm0 & Hmx & Hmy & Hmz & Hmin).
  assert (Htol : 0 < tol).
  { unfold tol. apply Rmult_lt_0_compat; [apply lit_pos; reflexivity|].
    unfold Rmax. destruct (Rle_dec 1 mh); lra. }
  pose proof (box_central_cases hx mh tol Htol Hmx) as Cx.
  pose proof (box_central_cases hy mh tol Htol Hmy) as Cy.
  pose proof (box_central_cases hz mh tol Htol Hmz) as Cz.
  cbv zeta in Cx, Cy, Cz.
  pose proof (box_central_min hx mh tol Htol) as Mx.
  pose proof (box_central_min hy mh tol Htol) as My.
  pose proof (box_central_min hz mh tol Htol) as Mz.
  cbn [eqb ROps zero].
  generalize dependent (box_central hx mh tol). intros cx Cx Mx.
  generalize dependent (box_central hy mh tol). intros cy Cy My.
  generalize dependent (box_central hz mh tol). intros cz Cz Mz.
  generalize dependent (Reqb cx 0). intros dx Cx.
  generalize dependent (Reqb cy 0). intros dy Cy.
  generalize dependent (Reqb cz 0). intros dz Cz.
  assert (Gx : mh <= hx - cx) by (destruct Cx as [(_ & _ & X)|(_ & _ & X)]; lra).
  assert (Gy : mh <= hy - cy) by (destruct Cy as [(_ & _ & X)|(_ & _ & X)]; lra).
  assert (Gz : mh <= hz - cz) by (destruct Cz as [(_ & _ & X)|(_ & _ & X)]; lra).
  assert (Hex : hx - cx = mh \/ hy - cy = mh \/ hz - cz = mh).
  { destruct Hmin as [Hm|[Hm|Hm]]; symmetry in Hm; [left|right; left|right; right].
    - rewrite (Mx Hm). lra.
    - rewrite (My Hm). lra.
    - rewrite (Mz Hm). lra. }
  assert (Hemin : Rmin (hx - cx) (Rmin (hy - cy) (hz - cz)) = mh) by (apply Rmin3_eq; assumption).
  assert (Hd : dx || dy || dz = true).
  { destruct Hmin as [Hm|[Hm|Hm]]; symmetry in Hm.
    - specialize (Mx Hm). destruct Cx as [(_ & -> & _)|(? & _ & _)]; [reflexivity|lra].
    - specialize (My Hm). destruct Cy as [(_ & -> & _)|(? & _ & _)]; [apply orb_true_iff; left; apply orb_true_r|lra].
    - specialize (Mz Hm). destruct Cz as [(_ & -> & _)|(? & _ & _)]; [apply orb_true_r|lra]. }
  specialize (K dx dy dz (if dx then 1 else cx) (if dy then 1 else cy) (if dz then 1 else cz)
                (hx - cx) (hy - cy) (hz - cz)).
  cbv zeta in K.
  assert (E : peval [if dx then 1 else cx; if dy then 1 else cy; if dz then 1 else cz; hx - cx; hy - cy; hz - cz]
                    (sym_h dx 0) = hx /\
              peval [if dx then 1 else cx; if dy then 1 else cy; if dz then 1 else cz; hx - cx; hy - cy; hz - cz]
                    (sym_h dy 1) = hy /\
              peval [if dx then 1 else cx; if dy then 1 else cy; if dz then 1 else cz; hx - cx; hy - cy; hz - cz]
                    (sym_h dz 2) = hz /\
              peval [if dx then 1 else cx; if dy then 1 else cy; if dz then 1 else cz; hx - cx; hy - cy; hz - cz]
                    (sym_c dx 0) = cx /\
              peval [if dx then 1 else cx; if dy then 1 else cy; if dz then 1 else cz; hx - cx; hy - cy; hz - cz]
                    (sym_c dy 1) = cy /\
              peval [if dx then 1 else cx; if dy then 1 else cy; if dz then 1 else cz; hx - cx; hy - cy; hz - cz]
                    (sym_c dz 2) = cz).
  { unfold sym_h, sym_c.
    destruct Cx as [(? & -> & ?)|(? & -> & ?)], Cy as [(? & -> & ?)|(? & -> & ?)],
             Cz as [(? & -> & ?)|(? & -> & ?)]; cbn; repeat split; lra. }
  destruct E as (E1 & E2 & E3 & E4 & E5 & E6).
  rewrite E1, E2, E3, E4, E5, E6 in K.
  assert (Henv : env_pos [if dx then 1 else cx; if dy then 1 else cy; if dz then 1 else cz;
                          hx - cx; hy - cy; hz - cz]).
  { unfold env_pos.
    destruct Cx as [(? & -> & ?)|(? & -> & ?)], Cy as [(? & -> & ?)|(? & -> & ?)],
             Cz as [(? & -> & ?)|(? & -> & ?)]; repeat constructor; lra. }
  apply K; try assumption; reflexivity.
Qed.

Theorem box_mesh_exact_tiling sx sy sz : 0 < sx -> 0 < sy -> 0 < sz -> box_statement sx sy sz.
Proof.
  intros Hx Hy Hz. unfold box_statement. apply box_mesh_elim; try assumption.
  intros dx dy dz c1 c2 c3 e1 e2 e3 env hx hy hz cx cy cz mh Hd Henv E1 E2 E3 Hemin.
  pose proof (box_core_class dx dy dz c1 c2 c3 e1 e2 e3 mh Hd Henv Hemin) as CC.
  fold env hx hy hz cx cy cz in CC.
  set (m := box_core (V hx hy hz) (V cx cy cz) dx dy dz mh) in *.
  destruct CC as (A1 & A2 & A3 & A4 & A5).
  rewrite E1, E2, E3 in A2, A3, A5.
  split; [exact A1|split; [|split; [exact A3|split; [exact A4|exact A5]]]].
  rewrite A2. f_equal. field.
Qed.

(** ** make_tetrahedral_cube, all sizes: one parameter S = size / 2 (variable 0) *)
Definition Sv : poly := pvar 0.
(** a table entry n/2 or n/1 as a multiple of S *)
Definition qsym (q : Q) : poly :=
  if (Zpos (Qden q) =? 2)%Z then pscale [] (Qnum q) Sv
  else if (Zpos (Qden q) =? 1)%Z then pscale [] (2 * Qnum q) Sv else pvar 1 (* not a half-integer: fails the tests *).
Definition sym_cube_verts : list spoint := map (fun '(x, y, z) => V (qsym x) (qsym y) (qsym z)) cube_verts.
Definition cube_elems : list tet :=
  map (fun '(a, b, c, d) => (Z.of_nat a, Z.of_nat b, Z.of_nat c, Z.of_nat d)) cube_tets.

(** vertices with potential 0.0 are corners (+-S), the one with size / 2.0 is the centre *)
Fixpoint chk_cube_kinds (svs : list spoint) (ps : list cpot) : bool :=
  match svs, ps with
  | [], [] => true
  | s :: r, p :: rp => (match p with CPzero => is_at Sv Sv Sv s | CPhalfsize => is_at [] [] [] s end)
                       && chk_cube_kinds r rp
  | _, _ => false
  end.

Definition cube_ok : bool :=
  chk_oriented (-1) sym_cube_verts cube_elems &&
  chk_sum (-1) sym_cube_verts cube_elems (pscale [] 48 (pmul (pmul Sv Sv) Sv)) &&
  chk_inbox Sv Sv Sv sym_cube_verts &&
  chk_disjoint sym_cube_verts cube_elems &&
  chk_cube_kinds sym_cube_verts cube_pots.

Local Strategy opaque [sym_cube_verts cube_elems chk_cube_kinds].

Lemma cube_table_ok : cube_ok = true.
Proof. vm_cast_no_check (eq_refl true). Qed.

Lemma cube_mesh_sym (size : R) :
  cube_mesh (O := ROps) size
  = (map (eval_pt [size / 2]) sym_cube_verts, cube_elems,
     map (fun p => match p with CPzero => 0 | CPhalfsize => size / 2 end) cube_pots).
Proof. vm_compute. mesh_eq; try reflexivity; field. Qed.

Lemma chk_cube_kinds_sound (h : R) svs ps :
  0 < h -> chk_cube_kinds svs ps = true ->
  Forall2 (fun p q => q = box_depth h h h p /\ (q = 0 \/ q = h))
          (map (eval_pt [h]) svs) (map (fun p => match p with CPzero => 0 | CPhalfsize => h end) ps).
Proof.
  intros Hh. revert ps; induction svs as [|s r IH]; intros [|p rp] H; cbn [chk_cube_kinds map] in *;
    try discriminate; [constructor|].
  apply andb_true_iff in H as [H1 H2]. constructor; [|apply IH; assumption].
  assert (ES : peval [h] Sv = h) by (cbn; lra).
  assert (E0 : peval [h] [] = 0) by reflexivity.
  unfold box_depth, eval_pt; cbn [vx vy vz].
  destruct p; unfold is_at in H1; repeat (apply andb_true_iff in H1 as [H1 ?]).
  - rewrite (is_pm_sound [h] (vx s) Sv), (is_pm_sound [h] (vy s) Sv), (is_pm_sound [h] (vz s) Sv);
      try assumption; try (rewrite ES; lra).
    rewrite ES. replace (h - h) with 0 by lra. split; [|left; reflexivity].
    symmetry. apply Rmin3_eq; lra.
  - rewrite (is_pm_sound [h] (vx s) []), (is_pm_sound [h] (vy s) []), (is_pm_sound [h] (vz s) []);
      try assumption; try (rewrite E0; lra).
    rewrite E0. replace (h - 0) with h by lra. split; [|right; reflexivity].
    symmetry. apply Rmin3_eq; lra.
Qed.

Definition cube_statement (size : R) : Prop :=
  box_claims (-1) (size / 2) (size / 2) (size / 2) (size / 2) (6 * (size * size * size))
             (cube_mesh (O := ROps) size).

Theorem cube_mesh_exact_tiling size : 0 < size -> cube_statement size.
Proof.
  intros Hs. unfold cube_statement. rewrite cube_mesh_sym.
  pose proof cube_table_ok as OK. unfold cube_ok in OK.
  repeat (apply andb_true_iff in OK as [OK ?]).
  assert (Henv : env_pos [size / 2]) by (repeat constructor; lra).
  assert (ES : peval [size / 2] Sv = size / 2) by (cbn; lra).
  unfold box_claims, mverts, mtets, mpots. cbn [fst snd].
  repeat split.
  - apply (chk_oriented_sound _ Henv (-1)). assumption.
  - rewrite (chk_sum_sound _ (-1) _ _ _ H2). f_equal.
    rewrite peval_pscale0, !peval_pmul, ES. field.
  - rewrite <- ES at 1 2 3. apply (chk_inbox_sound _ Henv). assumption.
  - apply (chk_disjoint_sound _ Henv). assumption.
  - apply chk_cube_kinds_sound; [lra | assumption].
Qed.
