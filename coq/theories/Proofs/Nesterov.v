(** * The dispatch of the Nesterov-accelerated GJK hands the loop a pair of sets that,
      inflated by [inflation], is the original pair — for every pair of collider types
      (and the pre-4366de3 logic did not: finding F3). *)
From Coq Require Import Reals Lra Psatz List Bool QArith.
From D3 Require Import Base.Ops Base.Vec Base.RVec Spec.Convex Model.Nesterov.
Import ListNotations.
Local Open Scope R_scope.

(** Minkowski sum with the closed ball of radius r *)
Definition inflate (S : set3) (r : R) : set3 :=
  fun x => exists y u, S y /\ norm u <= r /\ x = vadd y u.

(** [g] is the distance of the two sets: no pair is closer, some pair is that close *)
Definition is_dist (A B : set3) (g : R) : Prop := dist_ge A B g /\ dist_le A B g.

Lemma vzero_norm : norm (@vzero R _) = 0.
Proof. apply norm_zero_iff. reflexivity. Qed.

Lemma inflate_0 S x : inflate S 0 x <-> S x.
Proof.
  split.
  - intros (y & u & Hy & Hu & ->).
    assert (u = vzero). { apply norm_zero_iff. pose proof (norm_nonneg u). lra. }
    subst u. replace (vadd y vzero) with y; auto. destruct y; vunfold; f_equal; ring.
  - intros H. exists x, vzero. split; auto. split; [rewrite vzero_norm; lra|].
    destruct x; vunfold; f_equal; ring.
Qed.

Lemma norm_sub_triangle (a b : V3R) : norm a - norm b <= norm (vsub a b).
Proof.
  pose proof (norm_triangle (vsub a b) b) as H.
  replace (vadd (vsub a b) b) with a in H by (destruct a, b; vunfold; f_equal; ring). lra.
Qed.

Lemma inflate_dist_ge S T r0 r1 g :
  dist_ge S T g -> dist_ge (inflate S r0) (inflate T r1) (g - r0 - r1).
Proof.
  intros H a b (a' & u & Ha & Hu & ->) (b' & v & Hb & Hv & ->).
  specialize (H a' b' Ha Hb).
  replace (vsub (vadd a' u) (vadd b' v)) with (vsub (vsub a' b') (vsub v u))
    by (destruct a', b', u, v; vunfold; f_equal; ring).
  pose proof (norm_sub_triangle (vsub a' b') (vsub v u)).
  pose proof (norm_triangle v (vneg u)) as Ht.
  replace (vadd v (vneg u)) with (vsub v u) in Ht by (destruct u, v; vunfold; f_equal; ring).
  rewrite norm_neg in Ht. lra.
Qed.

Lemma norm_scale_nonneg (s : R) (a : V3R) : 0 <= s -> norm (vscale s a) = s * norm a.
Proof. intros H. rewrite norm_scale, Rabs_right; auto. lra. Qed.

Lemma inflate_dist_le S T r0 r1 g :
  0 <= r0 -> 0 <= r1 -> dist_le S T g -> dist_le (inflate S r0) (inflate T r1) (Rmax (g - r0 - r1) 0).
Proof.
  intros H0 H1 (a' & b' & Ha & Hb & Hab).
  set (w := vsub b' a'). set (l := norm w).
  assert (Hl : l = norm (vsub a' b')) by (unfold l, w; apply norm_sub_comm).
  assert (Hl0 : 0 <= l) by apply norm_nonneg.
  destruct (Rle_dec l (r0 + r1)) as [Hc|Hc].
  - (* the inflated sets share a point *)
    destruct (Req_dec (r0 + r1) 0) as [E|E].
    + assert (l = 0) by lra.
      assert (w = vzero) by (apply norm_zero_iff; auto).
      assert (b' = a').
      { unfold w in H2. destruct a', b'. vunfold. injection H2; intros. f_equal; lra. }
      subst b'. exists a', a'. split; [|split].
      * apply inflate_0 in Ha. destruct Ha as (y & u & ? & ? & ?). exists y, u. repeat split; auto. lra.
      * apply inflate_0 in Hb. destruct Hb as (y & u & ? & ? & ?). exists y, u. repeat split; auto. lra.
      * replace (vsub a' a') with (@vzero R _) by (destruct a'; vunfold; f_equal; ring).
        rewrite vzero_norm. apply Rmax_r.
    + assert (Hp : 0 < r0 + r1) by lra.
      set (t := r0 / (r0 + r1)).
      assert (Ht : 0 <= t <= 1).
      { unfold t. split; [apply Rmult_le_pos; [lra|left; apply Rinv_0_lt_compat; lra]|].
        apply Rmult_le_reg_r with (r0 + r1); auto. unfold Rdiv. rewrite Rmult_assoc, Rinv_l by lra. lra. }
      set (x := vadd a' (vscale t w)).
      exists x, x. split; [|split].
      * exists a', (vscale t w). repeat split; auto.
        rewrite norm_scale_nonneg by lra. fold l.
        assert (t * l <= t * (r0 + r1)) by (apply Rmult_le_compat_l; lra).
        unfold t in H at 2. unfold Rdiv in H. rewrite Rmult_assoc, Rinv_l, Rmult_1_r in H by lra. exact H.
      * exists b', (vscale (1 - t) (vneg w)). repeat split; auto.
        -- rewrite norm_scale_nonneg by lra. rewrite norm_neg. fold l.
           assert ((1 - t) * l <= (1 - t) * (r0 + r1)) by (apply Rmult_le_compat_l; lra).
           assert ((1 - t) * (r0 + r1) = r1).
           { unfold t. field. lra. }
           lra.
        -- unfold x, w. destruct a', b'. vunfold. f_equal; ring.
      * replace (vsub x x) with (@vzero R _) by (destruct x; vunfold; f_equal; ring).
        rewrite vzero_norm. apply Rmax_r.
  - (* separated: move towards each other along the connecting line *)
    apply Rnot_le_lt in Hc.
    assert (Hlp : 0 < l) by lra.
    set (e := vscale (/ l) w).
    assert (He : norm e = 1).
    { unfold e. rewrite norm_scale_nonneg by (left; apply Rinv_0_lt_compat; auto). fold l. field. lra. }
    exists (vadd a' (vscale r0 e)), (vadd b' (vscale r1 (vneg e))). split; [|split].
    + exists a', (vscale r0 e). repeat split; auto. rewrite norm_scale_nonneg, He by auto. lra.
    + exists b', (vscale r1 (vneg e)). repeat split; auto. rewrite norm_scale_nonneg, norm_neg, He by auto. lra.
    + replace (vsub (vadd a' (vscale r0 e)) (vadd b' (vscale r1 (vneg e))))
        with (vscale (- (l - r0 - r1)) e).
      * rewrite norm_scale, He, Rabs_Ropp, Rabs_right by lra.
        eapply Rle_trans; [|apply Rmax_l]. lra.
      * assert (Hw : w = vscale l e).
        { unfold e. destruct w. vunfold. f_equal; field; lra. }
        unfold w in Hw.
        assert (Hb' : b' = vadd a' (vscale l e)).
        { rewrite <- Hw. destruct a', b'. vunfold. f_equal; ring. }
        rewrite Hb'. destruct a', e. vunfold. f_equal; ring.
Qed.

Lemma is_dist_inflate S T r0 r1 g :
  0 <= r0 -> 0 <= r1 -> is_dist S T g -> is_dist (inflate S r0) (inflate T r1) (Rmax (g - r0 - r1) 0).
Proof.
  intros H0 H1 (Hge & Hle). split.
  - intros a b Ha Hb. pose proof (inflate_dist_ge S T r0 r1 g Hge a b Ha Hb).
    pose proof (norm_nonneg (vsub a b)). unfold Rmax. destruct (Rle_dec (g - r0 - r1) 0); lra.
  - apply inflate_dist_le; auto.
Qed.

Lemma is_dist_ext (A A' B B' : set3) g :
  (forall x, A x <-> A' x) -> (forall x, B x <-> B' x) -> is_dist A' B' g -> is_dist A B g.
Proof.
  intros HA HB (Hge & (a & b & Ha & Hb & Hab)). split.
  - intros x y Hx Hy. apply Hge; [apply HA|apply HB]; auto.
  - exists a, b. split; [apply HA; auto|]. split; [apply HB; auto|auto].
Qed.

(** ** colliders as the dispatch sees them *)
Record coll := Coll {
  ty : ctype;
  radius : R;        (* the [radius] attribute (Sphere, Capsule); unused otherwise *)
  full : set3;       (* the collider's point set = what [collider.support_function] describes *)
  core : set3 }.     (* what the specialised support of lines 551-615 describes, in world coordinates *)

(** Facts about the individual support mappings that the dispatch relies on (MODELLED, not
    verified here; they are C03's subject): the specialised support of a sphere / capsule is that
    of its core point / segment, so the full collider is the core inflated by the radius; for
    box, ellipsoid, cylinder the specialised support describes the collider itself (the relative
    inflation factors 1.00000001 / 1.00001 of box_support / cylinder_support in degenerate
    directions are abstracted away). *)
Definition wf (c : coll) : Prop :=
  0 <= radius c /\
  (is_sphere_or_capsule (ty c) = true -> forall x, full c x <-> inflate (core c) (radius c) x) /\
  (is_sphere_or_capsule (ty c) = false -> forall x, full c x <-> core c x).

(** the sets whose support mappings the loop is given (lines 516-524) *)
Definition used (c0 c1 : coll) : set3 * set3 :=
  match support_dispatch (ty c0) (ty c1) with
  | Specialized => (core c0, core c1)
  | Generic => (full c0, full c1)
  end.

(** this collider's share of [inflation] *)
Definition share (c other : coll) : R :=
  if has_specialized_support (ty c) && has_specialized_support (ty other) && is_sphere_or_capsule (ty c)
  then radius c else 0.

Lemma select_found_spec t : select_found t = has_specialized_support t.
Proof. destruct t; reflexivity. Qed.

Lemma inflation_shares c0 c1 :
  inflation (ty c0) (radius c0) (ty c1) (radius c1) = share c0 c1 + share c1 c0.
Proof.
  unfold inflation, share.
  destruct (has_specialized_support (ty c0)), (has_specialized_support (ty c1));
    destruct (is_sphere_or_capsule (ty c0)), (is_sphere_or_capsule (ty c1));
    cbn [andb zero add ROps]; lra.
Qed.

Lemma share_nonneg c o : wf c -> 0 <= share c o.
Proof. intros (H & _). unfold share. destruct (_ && _ && _); lra. Qed.

(** for EVERY pair of collider types: each collider is the set handed to the loop, inflated by
    its share of [inflation], and the shares add up to [inflation] *)
Theorem nesterov_inflation_consistent c0 c1 :
  wf c0 -> wf c1 ->
  inflation (ty c0) (radius c0) (ty c1) (radius c1) = share c0 c1 + share c1 c0 /\
  (forall x, full c0 x <-> inflate (fst (used c0 c1)) (share c0 c1) x) /\
  (forall x, full c1 x <-> inflate (snd (used c0 c1)) (share c1 c0) x).
Proof.
  intros W0 W1. split; [apply inflation_shares|].
  destruct W0 as (R0 & S0 & N0). destruct W1 as (R1 & S1 & N1).
  unfold used, support_dispatch, share. rewrite !select_found_spec.
  destruct (has_specialized_support (ty c0)) eqn:E0, (has_specialized_support (ty c1)) eqn:E1;
    cbn [andb fst snd].
  - split.
    + destruct (is_sphere_or_capsule (ty c0)) eqn:K; intros x.
      * apply S0; auto.
      * rewrite inflate_0. apply N0; auto.
    + destruct (is_sphere_or_capsule (ty c1)) eqn:K; intros x.
      * apply S1; auto.
      * rewrite inflate_0. apply N1; auto.
  - split; intros x; rewrite inflate_0; tauto.
  - split; intros x; rewrite inflate_0; tauto.
  - split; intros x; rewrite inflate_0; tauto.
Qed.

Lemma fmax_R (a b : R) : fmax a b = Rmax a b.
Proof.
  unfold fmax, Rmax. cbn [ltb ROps]. unfold Rltb.
  destruct (Rlt_dec a b), (Rle_dec a b); try lra; reflexivity.
Qed.

(** if the loop converges to the true distance [g] of the sets it was given, the distance
    wrapper returns the true distance of the ORIGINAL pair — for every pair of types *)
Theorem nesterov_distance_exact_if_loop_exact c0 c1 tol g :
  wf c0 -> wf c1 ->
  is_dist (fst (used c0 c1)) (snd (used c0 c1)) g ->
  is_dist (full c0) (full c1)
    (distance_wrapper (finish tol (inflation (ty c0) (radius c0) (ty c1) (radius c1)) (EConverged g))).
Proof.
  intros W0 W1 Hg.
  destruct (nesterov_inflation_consistent c0 c1 W0 W1) as (Ei & F0 & F1).
  unfold distance_wrapper, finish. cbn [snd]. rewrite fmax_R. cbn [zero sub ROps]. rewrite Ei.
  eapply is_dist_ext; [exact F0|exact F1|].
  replace (g - (share c0 c1 + share c1 c0)) with (g - share c0 c1 - share c1 c0) by ring.
  apply is_dist_inflate; auto using share_nonneg.
Qed.

(** ** the logic before commit 4366de3 is refuted: unit sphere at the origin against the
    one-vertex hull {(5,0,0)} (a mixed specialised / generic pair).  The loop is given the full
    sets (distance 4) and the old code subtracts the radius again: 3. *)
Definition f3_sphere : coll :=
  Coll TSphere 1 (fun x => norm x <= 1) (fun x => x = vzero).
Definition f3_vertex : coll :=
  Coll TConvexHullVertices 0 (fun x => x = V 5 0 0) (fun x => x = V 5 0 0).

Lemma norm_V_x (a : R) : 0 <= a -> norm (V a 0 0) = a.
Proof.
  intros H. unfold norm. vunfold. replace (a * a + 0 * 0 + 0 * 0) with (a * a) by ring.
  apply sqrt_square; auto.
Qed.

Lemma f3_wf : wf f3_sphere /\ wf f3_vertex.
Proof.
  split; unfold wf; cbn [ty radius full core f3_sphere f3_vertex is_sphere_or_capsule ctype_eqb orb].
  - split; [lra|]. split; [|discriminate]. intros _ x. split.
    + intros H. exists vzero, x. repeat split; auto. destruct x; vunfold; f_equal; ring.
    + intros (y & u & -> & Hu & ->). replace (vadd vzero u) with u by (destruct u; vunfold; f_equal; ring). auto.
  - split; [lra|]. split; [discriminate|]. intros _ x. tauto.
Qed.

Lemma f3_true_distance : is_dist (full f3_sphere) (full f3_vertex) 4.
Proof.
  split; cbn [full f3_sphere f3_vertex].
  - intros a b Ha ->. pose proof (norm_sub_triangle (V 5 0 0) a) as H.
    rewrite norm_V_x in H by lra. rewrite norm_sub_comm. lra.
  - exists (V 1 0 0), (V 5 0 0). split; [rewrite norm_V_x; lra|]. split; auto.
    replace (vsub (V 1 0 0) (V 5 0 0)) with (vneg (V 4 0 0)) by (vunfold; f_equal; ring).
    rewrite norm_neg, norm_V_x; lra.
Qed.

Theorem nesterov_inflation_old_refuted :
  exists c0 c1 g, wf c0 /\ wf c1 /\
    is_dist (fst (used c0 c1)) (snd (used c0 c1)) g /\
    ~ is_dist (full c0) (full c1)
        (distance_wrapper (finish 0 (inflation_old (ty c0) (radius c0) (ty c1) (radius c1)) (EConverged g))) /\
    is_dist (full c0) (full c1)
        (distance_wrapper (finish 0 (inflation (ty c0) (radius c0) (ty c1) (radius c1)) (EConverged g))).
Proof.
  exists f3_sphere, f3_vertex, 4. destruct f3_wf as (W0 & W1).
  split; auto. split; auto.
  assert (U : used f3_sphere f3_vertex = (full f3_sphere, full f3_vertex)) by reflexivity.
  split; [rewrite U; apply f3_true_distance|]. split.
  - unfold distance_wrapper, finish, inflation_old. cbn [snd ty radius f3_sphere f3_vertex is_sphere_or_capsule ctype_eqb orb].
    rewrite fmax_R. cbn [zero add sub ROps].
    replace (Rmax (4 - (0 + 1)) 0) with 3 by (unfold Rmax; destruct (Rle_dec (4 - (0 + 1)) 0); lra).
    intros (_ & (a & b & Ha & Hb & Hab)).
    destruct f3_true_distance as (Hge & _). specialize (Hge a b Ha Hb). lra.
  - apply nesterov_distance_exact_if_loop_exact; auto. rewrite U. apply f3_true_distance.
Qed.

(** ** the finite part, by complete enumeration of the 11 x 11 type pairs: the specialised
    supports are used exactly when both types have one, and a radius enters [inflation] exactly
    when the specialised (core) support of that collider is used *)
Theorem dispatch_table :
  forallb (fun t0 => forallb (fun t1 =>
     match support_dispatch t0 t1 with
     | Specialized => has_specialized_support t0 && has_specialized_support t1
     | Generic => negb (has_specialized_support t0 && has_specialized_support t1)
     end) all_ctypes) all_ctypes = true.
Proof. vm_compute. reflexivity. Qed.

Theorem inflation_generic_is_zero t0 r0 t1 r1 :
  support_dispatch t0 t1 = Generic -> inflation (O := ROps) t0 r0 t1 r1 = 0.
Proof.
  unfold support_dispatch, inflation. rewrite !select_found_spec.
  destruct (has_specialized_support t0 && has_specialized_support t1); [discriminate|reflexivity].
Qed.

(** ** the hypotheses [wf] are satisfiable by the sets of Spec/Shapes.v for which C03 proves the
    colliders' support functions correct: a sphere is its centre inflated by the radius, a
    capsule (rigid pose) is its axis segment inflated by the radius *)
From D3 Require Import Base.RVec2 Spec.Shapes.

Lemma norm_le_iff_sq (v : V3R) (r : R) : 0 <= r -> (norm v <= r <-> dot v v <= r * r).
Proof.
  intros Hr. pose proof (norm_nonneg v) as Hn. pose proof (norm_sq v) as Hs. split; intros H.
  - rewrite <- Hs. nra.
  - apply Rsqr_incr_0_var; auto. unfold Rsqr. lra.
Qed.

Definition sphere_coll (c : V3R) (r : R) : coll :=
  Coll TSphere r (sphere_set c r) (fun x => x = c).

Theorem sphere_coll_wf c r : 0 <= r -> wf (sphere_coll c r).
Proof.
  intros Hr. unfold wf, sphere_coll. cbn [ty radius full core is_sphere_or_capsule ctype_eqb orb].
  split; auto. split; [|discriminate]. intros _ x. rewrite sphere_set_iff. split.
  - intros H. exists c, (vsub x c). split; auto. split; [apply norm_le_iff_sq; auto|].
    destruct x, c; vunfold; f_equal; ring.
  - intros (y & u & -> & Hu & ->).
    replace (vsub (vadd c u) c) with u by (destruct c, u; vunfold; f_equal; ring).
    apply norm_le_iff_sq; auto.
Qed.

Definition segment_K (h : R) : set3 := fun k => exists t, Rabs t <= h / 2 /\ k = V 0 0 t.

Definition capsule_coll (T : Pose R) (r h : R) : coll :=
  Coll TCapsule r (capsule_set T r h) (image T (segment_K h)).

Lemma mulMV_add (m : M3 R) (a b : V3R) : mulMV m (vadd a b) = vadd (mulMV m a) (mulMV m b).
Proof. destruct m as [[? ? ?] [? ? ?] [? ? ?]], a, b. vunfold. f_equal; ring. Qed.
Lemma mulMV_sub (m : M3 R) (a b : V3R) : mulMV m (vsub a b) = vsub (mulMV m a) (mulMV m b).
Proof. destruct m as [[? ? ?] [? ? ?] [? ? ?]], a, b. vunfold. f_equal; ring. Qed.

Theorem capsule_coll_wf T r h : 0 <= r -> is_rotation (rot T) -> wf (capsule_coll T r h).
Proof.
  intros Hr HR. unfold wf, capsule_coll. cbn [ty radius full core is_sphere_or_capsule ctype_eqb orb].
  split; auto. split; [|discriminate]. intros _ x. unfold capsule_set, image, capsule_K, segment_K. split.
  - intros (k & (t & Ht & Hk) & ->).
    exists (transform_point T (V 0 0 t)), (mulMV (rot T) (vsub k (V 0 0 t))). split; [|split].
    + exists (V 0 0 t). split; auto. exists t. auto.
    + rewrite is_rotation_norm by auto. apply norm_le_iff_sq; auto.
    + unfold transform_point. rewrite mulMV_sub.
      destruct (mulMV (rot T) k), (mulMV (rot T) (V 0 0 t)), (trans T). vunfold. f_equal; ring.
  - intros (y & u & (k0 & (t & Ht & ->) & ->) & Hu & ->).
    exists (vadd (V 0 0 t) (mulTV (rot T) u)). split.
    + exists t. split; auto.
      replace (vsub (vadd (V 0 0 t) (mulTV (rot T) u)) (V 0 0 t)) with (mulTV (rot T) u)
        by (destruct (mulTV (rot T) u); vunfold; f_equal; ring).
      apply norm_le_iff_sq; auto.
      unfold mulTV. rewrite is_rotation_norm by (apply rotation_transpose; auto). exact Hu.
    + unfold transform_point. rewrite mulMV_add, rotation_inverse_r by auto.
      destruct (mulMV (rot T) (V 0 0 t)), u, (trans T). vunfold. f_equal; ring.
Qed.
