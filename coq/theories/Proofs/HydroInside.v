(** * A reported contact polygon lies in both tetrahedra (C15): the halfplane layer and the
    pre-check combined.  Partial only w.r.t. faces whose projected normal has norm in (0, EPSILON]. *)
From Coq Require Import Reals Lra List Bool Arith Lia.
From D3 Require Import Base.Ops Base.Vec Base.RVec Base.RVec2 Model.AabbTree Model.Hydro
     Proofs.HydroPlane Proofs.HydroHalfplanes Proofs.HydroPair Proofs.HydroParallel Proofs.HydroOrder.
Import ListNotations.
Local Open Scope R_scope.

Lemma precheck_true_crossing (t1 t2 : @tetra R) (n : V3R) (d : R) :
  check_tetrahedra_intersect_contact_plane t1 t2 n d PRECHECK_TOL = true ->
  (let '(p0, p1, p2, p3) := plane_distances t1 n d in min4 p0 p1 p2 p3 < 0 /\ 0 < max4 p0 p1 p2 p3) /\
  (let '(p0, p1, p2, p3) := plane_distances t2 n d in min4 p0 p1 p2 p3 < 0 /\ 0 < max4 p0 p1 p2 p3).
Proof.
  unfold check_tetrahedra_intersect_contact_plane.
  destruct (plane_distances t1 n d) as [[[p0 p1] p2] p3]. destruct (plane_distances t2 n d) as [[[q0 q1] q2] q3].
  intros H. apply andb_true_iff in H as [H H4]. apply andb_true_iff in H as [H H3]. apply andb_true_iff in H as [H1 H2].
  apply Rltb_true in H1, H2, H3, H4. pose proof PRECHECK_TOL_pos as Ht. cbn [opp ROps] in *.
  repeat split; lra.
Qed.

(** For a reported intersection (not the same-tetrahedron branch), with X1, X2 the barycentric
    transforms of the two tetrahedra: every polygon vertex v lies on the plane and, for every
    face Xi of either tetrahedron,
    - if the face has a halfplane row (projected normal longer than EPSILON): lambda_i(v) >= -EPSILON,
    - if the face is exactly parallel to the plane (projected normal zero): lambda_i(v) > 0.
    Not covered: faces whose projected normal has norm in (0, EPSILON]. *)
Theorem reported_polygon_inside_partial
        (t1 t2 : @tetra R) (e1 e2 : V4R) (X1 X2 : @M4 R) (E1 E2 : R) (perm : list nat) (pl : V4R) (poly : list V3R) :
  is_bary X1 t1 -> is_bary X2 t2 ->
  snd (contact_plane X1 X2 e1 e2 E1 E2) = false ->
  intersect_tetrahedron_pair t1 e1 X1 t2 e2 X2 E1 E2 perm = Ok (true, pl, poly) ->
  forall v, In v poly ->
    dot (xyz pl) v = c3 pl /\
    let '(x, y) := plane_basis_from_normal (xyz pl) in
    let pp := vmap (fun c => (c * c3 pl)%o) (xyz pl) in
    forall Xi, In Xi (m4rows X1 ++ m4rows X2) ->
      ((exists h, hp_row x y pp Xi = Some h) -> - EPSILON <= bary_row Xi v) /\
      (dot (xyz Xi) x = 0 -> dot (xyz Xi) y = 0 -> 0 < bary_row Xi v).
Proof.
  intros HB1 HB2 Hs Hr v Hv.
  destruct (intersection_true_vertices t1 t2 e1 e2 X1 X2 E1 E2 perm pl poly Hs Hr) as (Hn & _ & Hpre & Hall).
  destruct (Hall v Hv) as [Hon Hin]. split; [exact Hon|].
  pose proof (frame_of_basis (xyz pl) Hn) as Fr.
  destruct (plane_basis_from_normal (xyz pl)) as [x y]. cbv zeta in *.
  intros Xi HXi. split.
  - intros [h Hh]. apply (Hin Xi h HXi Hh).
  - intros Hx Hy.
    destruct (precheck_true_crossing t1 t2 (xyz pl) (c3 pl) Hpre) as [C1 C2].
    apply in_app_or in HXi as [H1|H2].
    + apply (parallel_face_positive t1 X1 (xyz pl) x y (c3 pl) Hn (fr_c _ _ _ Fr) HB1 C1 Xi H1 Hx Hy v Hon).
    + apply (parallel_face_positive t2 X2 (xyz pl) x y (c3 pl) Hn (fr_c _ _ _ Fr) HB2 C2 Xi H2 Hx Hy v Hon).
Qed.
