(** * make_tetrahedral_cylinder: every element of a sector lies in the triangular prism over
    (axis, rim_i, rim_j) x [-len/2, len/2] (C17).  Together with [cyl_mesh_rim_volumes] (the
    volumes of a sector add up to the volume of that prism) and [cyl_mesh_rim_disjoint] (no two
    elements overlap) the elements of a sector tile the sector prism. *)
From Coq Require Import List ZArith QArith Reals Lra Lia Bool Psatz.
From D3 Require Import Base.Ops Base.Vec Base.RVec Model.TetSym Gen.TetTables Model.TetMesh Checker.TetMesh
                       Proofs.TetMeshPoly Proofs.TetMeshBase Proofs.TetMeshSym Proofs.TetMeshBox Proofs.TetMeshCyl
                       Proofs.TetMeshCylDisj.
Import ListNotations.
Import TetTables.
Local Open Scope R_scope.

(** the prism over the triangle (0, pi, pj), between z = -tz and z = tz *)
Definition in_sector_prism (pi pj : R * R) (tz : R) (p : V3 R) : Prop :=
  exists al be, 0 <= al /\ 0 <= be /\ al + be <= 1 /\
                vx p = al * fst pi + be * fst pj /\ vy p = al * snd pi + be * snd pj /\ - tz <= vz p <= tz.

(** the canonical prism: x, y >= 0, x + y <= 1, |z| <= tz *)
Definition in_unit_prism (tz : R) (q : V3 R) : Prop :=
  0 <= vx q /\ 0 <= vy q /\ vx q + vy q <= 1 /\ - tz <= vz q <= tz.

Lemma unit_prism_image xi yi xj yj tz q :
  in_unit_prism tz q -> in_sector_prism (xi, yi) (xj, yj) tz (amap xi yi xj yj q).
Proof.
  intros (H1 & H2 & H3 & H4). exists (vx q), (vy q). unfold amap; cbn [vx vy vz fst snd].
  repeat split; try assumption; try ring; lra.
Qed.

Lemma sector_prism_convex pi pj tz a b c d p :
  in_sector_prism pi pj tz a -> in_sector_prism pi pj tz b -> in_sector_prism pi pj tz c -> in_sector_prism pi pj tz d ->
  tet_closed a b c d p -> in_sector_prism pi pj tz p.
Proof.
  intros (a1 & a2 & A1 & A2 & A3 & A4 & A5 & A6) (b1 & b2 & B1 & B2 & B3 & B4 & B5 & B6)
         (c1 & c2 & C1 & C2 & C3 & C4 & C5 & C6) (d1 & d2 & D1 & D2 & D3 & D4 & D5 & D6)
         (w0 & w1 & w2 & w3 & W0 & W1 & W2 & W3 & Ws & Hp).
  subst p. exists (w0 * a1 + w1 * b1 + w2 * c1 + w3 * d1), (w0 * a2 + w1 * b2 + w2 * c2 + w3 * d2).
  unfold comb4; cbn [vx vy vz]. rewrite A4, A5, B4, B5, C4, C5, D4, D5.
  repeat split; try nra; ring.
Qed.

(** the canonical sectors lie in the canonical prism (polynomial coefficient test) *)
Definition loc_in_prism (svs : list spoint) (one tz : poly) : bool :=
  forallb (fun v => pnonneg (vx v) && pnonneg (vy v) && pnonneg (psub one (padd (vx v) (vy v))) &&
                    pnonneg (psub tz (vz v)) && pnonneg (padd tz (vz v))) svs.

Lemma loc_in_prism_sound env svs one tz :
  env_pos env -> peval env one = 1 -> loc_in_prism svs one tz = true ->
  forall q, In q (map (eval_pt env) svs) -> in_unit_prism (peval env tz) q.
Proof.
  intros He H1 H q Hq. apply in_map_iff in Hq as [s [<- Hs]]. unfold loc_in_prism in H. rewrite forallb_forall in H.
  specialize (H s Hs). repeat (apply andb_true_iff in H as [H ?]).
  repeat match goal with X : pnonneg _ = true |- _ => apply (pnonneg_sound env _ He) in X end.
  rewrite ?peval_psub, ?peval_padd, ?H1 in *. unfold in_unit_prism, eval_pt; cbn [vx vy vz]. repeat split; lra.
Qed.

Lemma loc_long_prism : loc_in_prism loc_long p1 (padd (pvar 0) (pvar 1)) = true.
Proof. vm_compute. reflexivity. Qed.
Lemma loc_medium_prism : loc_in_prism loc_medium p1 (pvar 0) = true.
Proof. vm_compute. reflexivity. Qed.
Lemma loc_short_prism : loc_in_prism loc_short (padd (pvar 1) (pvar 2)) (pvar 0) = true.
Proof. vm_compute. reflexivity. Qed.

(** every element of the image of a canonical sector lies in the sector prism *)
Lemma sector_elements_in_prism vs xi yi xj yj tz loc ts tsl :
  Forall2 (tet_img vs (amap xi yi xj yj) loc) ts tsl ->
  (forall q, In q loc -> in_unit_prism tz q) ->
  forall t a b c d p, In t ts -> tet_points vs t = Some (a, b, c, d) -> tet_closed a b c d p ->
                      in_sector_prism (xi, yi) (xj, yj) tz p.
Proof.
  intros HF Hq t a b c d p Ht Hp Hc.
  induction HF as [|t0 tl r rl (a0 & b0 & c0 & d0 & L & Rr) HF IH]; [destruct Ht|].
  destruct Ht as [<-|Ht]; [|apply IH; assumption].
  rewrite Rr in Hp. inversion Hp; subst.
  destruct (tet_points_in _ _ _ _ _ _ L) as (Ia & Ib & Ic & Id).
  apply (sector_prism_convex (xi, yi) (xj, yj) tz (amap xi yi xj yj a0) (amap xi yi xj yj b0)
                             (amap xi yi xj yj c0) (amap xi yi xj yj d0) p);
    try assumption; apply unit_prism_image; apply Hq; assumption.
Qed.

(** ** the theorem: all classes, any n *)
Theorem cyl_mesh_rim_elements_in_prism radius len rim :
  0 < radius -> 0 < len ->
  let m := cyl_mesh_rim (O := ROps) radius len rim in
  forall i j xi yi xj yj,
    rim_at rim i = Some (xi, yi) -> rim_at rim j = Some (xj, yj) ->
    forall table, table = match cyl_classify (O := ROps) radius len with Long => cyl_long | Medium => cyl_medium | Short => cyl_short end ->
    forall t a b c d p,
      In t (flat_map (celem_tets (Z.of_nat (length rim)) i j) table) ->
      tet_points (mverts m) t = Some (a, b, c, d) -> tet_closed a b c d p ->
      in_sector_prism (xi, yi) (xj, yj) (len / 2) p.
Proof.
  intros Hr Hl m i j xi yi xj yj Hi Hj table Etab t a b c d p Ht Hp Hc.
  destruct (cyl_classify_cases radius len) as [Htol Hcl]. cbv zeta in Hcl.
  set (tz := len / 2) in *.
  assert (Hz : 0 < tz) by (unfold tz; lra).
  unfold m, cyl_mesh_rim in Hp. rewrite half_R in Hp. cbn [mul sub div zero opp ROps] in Hp.
  replace (/ 2 * len) with tz in Hp by (unfold tz; lra).
  destruct (cyl_classify radius len); subst table; unfold mverts in Hp; cbn [fst snd] in Hp.
  - assert (He : env_pos [radius; tz - radius]) by (repeat constructor; lra).
    assert (E1 : peval [radius; tz - radius] p1 = 1) by (cbn; lra).
    pose proof (loc_in_prism_sound [radius; tz - radius] loc_long p1 (padd (pvar 0) (pvar 1)) He E1 loc_long_prism) as Q.
    replace (peval [radius; tz - radius] (padd (pvar 0) (pvar 1))) with tz in Q by (cbn; lra).
    apply (sector_elements_in_prism _ xi yi xj yj tz _ _ _
             (img_long radius tz rim Hz i j xi yi xj yj Hi Hj (tz - radius) ltac:(lra)) Q t a b c d p Ht Hp Hc).
  - assert (He : env_pos [tz]) by (repeat constructor; lra).
    assert (E1 : peval [tz] p1 = 1) by (cbn; lra).
    pose proof (loc_in_prism_sound [tz] loc_medium p1 (pvar 0) He E1 loc_medium_prism) as Q.
    replace (peval [tz] (pvar 0)) with tz in Q by (cbn; lra).
    apply (sector_elements_in_prism _ xi yi xj yj tz _ _ _ (img_medium tz rim i j xi yi xj yj Hi Hj) Q t a b c d p Ht Hp Hc).
  - set (s := (radius - tz) / radius) in *.
    assert (Hs : 0 < s < 1).
    { unfold s. split; [apply Rdiv_lt_0_compat; lra|]. apply (Rmult_lt_reg_r radius); [assumption|].
      unfold Rdiv. rewrite Rmult_assoc, Rinv_l by lra. lra. }
    assert (He : env_pos [tz; s; 1 - s]) by (repeat constructor; lra).
    assert (E1 : peval [tz; s; 1 - s] (padd (pvar 1) (pvar 2)) = 1) by (cbn; lra).
    pose proof (loc_in_prism_sound [tz; s; 1 - s] loc_short (padd (pvar 1) (pvar 2)) (pvar 0) He E1 loc_short_prism) as Q.
    replace (peval [tz; s; 1 - s] (pvar 0)) with tz in Q by (cbn; lra).
    apply (sector_elements_in_prism _ xi yi xj yj tz _ _ _ (img_short tz rim i j xi yi xj yj Hi Hj s) Q t a b c d p Ht Hp Hc).
Qed.
