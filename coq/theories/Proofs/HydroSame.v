(** * The same-tetrahedron branch (C15): [_handle_same_tetrahedron(epsilon2, tetrahedron2)] returns three
    copies of the potential-weighted centre of tetrahedron 2; that point is a convex combination of
    the vertices of tetrahedron 2 and lies on the returned plane exactly. *)
From Coq Require Import Reals Lra List Bool Arith Lia.
From D3 Require Import Base.Ops Base.Vec Base.RVec Base.RVec2 Spec.Convex Model.AabbTree Model.Hydro Proofs.HydroPlane Proofs.HydroForce.
Import ListNotations.
Local Open Scope R_scope.

Theorem same_tetrahedron_point (e : V4R) (t : @tetra R) :
  nonneg4 e -> 0 < c0 e + c1 e + c2 e + c3 e ->
  let '(pl, poly) := handle_same_tetrahedron e t in
  exists p, poly = [p; p; p] /\ conv_hull (tverts t) p /\ dot (xyz pl) p = c3 pl /\
            (p <> vzero -> dot (xyz pl) (xyz pl) = 1).
Proof.
  intros (E0 & E1 & E2 & E3) Hs. unfold handle_same_tetrahedron.
  destruct t as [[[a b] c] g]. cbn [add ROps].
  set (s := c0 e + c1 e + c2 e + c3 e) in *.
  set (w := v4divs e s). cbn [c0 c1 c2 c3 v4divs] in *.
  set (p := V (c0 w * vx a + c1 w * vx b + c2 w * vx c + c3 w * vx g)
              (c0 w * vy a + c1 w * vy b + c2 w * vy c + c3 w * vy g)
              (c0 w * vz a + c1 w * vz b + c2 w * vz c + c3 w * vz g)).
  cbn [add mul ROps]. fold p.
  exists p. split; [reflexivity|]. split; [|].
  - exists [c0 e / s; c1 e / s; c2 e / s; c3 e / s]. cbn [tverts length]. split; [reflexivity|]. split; [|split].
    + repeat (apply Forall_cons; [unfold Rdiv; apply Rmult_le_pos; auto; left; apply Rinv_0_lt_compat; exact Hs|]). apply Forall_nil.
    + cbn [sum]. unfold s. field. unfold s in Hs. lra.
    + unfold p, w, v4divs, comb, vadd, vscale, vzero. destruct a as [a1 a2 a3], b as [b1 b2 b3], c as [g1 g2 g3], g as [h1 h2 h3]. cbn [c0 c1 c2 c3 vx vy vz add mul div zero ROps].
      f_equal; ring.
  - set (d := norm p). cbn [ltb zero ROps].
    destruct (Rltb 0 d) eqn:Hd.
    + apply Rltb_true in Hd. unfold xyz. cbn [c0 c1 c2 c3].
      pose proof (norm_sq p) as Hsq. fold d in Hsq.
      destruct p as [p1 p2 p3]. unfold vdivs, dot in *. cbn [vx vy vz add mul div ROps] in *.
      split.
      * transitivity ((p1 * p1 + p2 * p2 + p3 * p3) / d); [field; lra|]. rewrite <- Hsq. field. lra.
      * intros _. transitivity ((p1 * p1 + p2 * p2 + p3 * p3) / (d * d)); [field; lra|]. rewrite <- Hsq. field. lra.
    + apply Rltb_false in Hd. pose proof (norm_nonneg p). fold d in H.
      assert (Hz : d = 0) by lra. apply norm_zero_iff in Hz. rewrite Hz.
      unfold xyz, dot, vzero. cbn [c0 c1 c2 c3 vx vy vz add mul zero one ROps].
      assert (Hd0 : norm (V 0 0 0 : V3R) = 0) by (apply norm_zero_iff; reflexivity).
      split; [|intros Hne; exfalso; apply Hne; reflexivity].
      unfold d. rewrite Hz. unfold vzero. cbn [zero ROps]. rewrite Hd0. ring.
Qed.
