(** * The closest points returned by the loop model are AFFINE combinations of the support points
      (the barycentric weights sum to one in every arm, over the reals), hence - for convex
      colliders and non-negative weights - points of the colliders. *)
From Coq Require Import Reals Lra Psatz List NArith Bool QArith Qreals.
From D3 Require Import Base.Ops Base.Vec Base.RVec Spec.Convex Spec.ConvexHull Model.Simplex Model.JoltLoop
  Proofs.JoltLoop Proofs.SimplexLine.
Import ListNotations.
Local Open Scope R_scope.

(** ** the weights sum to one *)
Lemma bary_line_sum (a b : V3R) :
  fst (get_barycentric_coordinates_line a b) + snd (get_barycentric_coordinates_line a b) = 1.
Proof.
  unfold get_barycentric_coordinates_line, get_barycentric_coordinates_line_t.
  destruct (ltb _ _); [destruct (ltb _ _)|]; cbn; lra.
Qed.

Lemma bary_plane_sum (a b c : V3R) :
  let '(u, v, w) := get_barycentric_coordinates_plane a b c in u + v + w = 1.
Proof.
  unfold get_barycentric_coordinates_plane.
  pose proof (bary_line_sum a b) as Hab. pose proof (bary_line_sum a c) as Hac.
  pose proof (bary_line_sum b c) as Hbc.
  destruct (get_barycentric_coordinates_line a b) as [u1 v1].
  destruct (get_barycentric_coordinates_line a c) as [u2 v2].
  destruct (get_barycentric_coordinates_line b c) as [u3 v3].
  cbn [fst snd] in *.
  destruct (leb _ _); destruct (ltb _ _); try destruct (ltb _ _); cbn; lra.
Qed.

Lemma bary_tet_sum (a b c d : V3R) :
  scalar_triple_product (vsub b a) (vsub c a) (vsub d a) <> 0 ->
  let '(u, v, w, x) := get_barycentric_coordinates_tetrahedron a b c d in u + v + w + x = 1.
Proof.
  unfold get_barycentric_coordinates_tetrahedron, scalar_triple_product.
  intros H. vsimp. field_simplify_eq; [ring|exact H].
Qed.

(** ** a convex set contains the convex combinations of its points *)
Lemma sum_nonneg ws : Forall (fun w => 0 <= w) ws -> 0 <= sum ws.
Proof. induction 1; cbn [sum]; lra. Qed.
Lemma comb_sum_zero : forall ws ps,
  Forall (fun w => 0 <= w) ws -> sum ws = 0 -> comb ws ps = vzero.
Proof.
  induction ws as [|w ws IH]; intros [|p ps] Hw Hs; cbn [comb]; auto.
  inversion Hw as [|? ? H0 Hw']; subst. cbn [sum] in Hs.
  pose proof (sum_nonneg _ Hw'). assert (w = 0) by lra. assert (sum ws = 0) by lra.
  rewrite (IH ps Hw') by assumption. subst w. vsimp. f_equal; ring.
Qed.

Lemma convex_comb (S : set3) (HS : convex S) : forall ps ws,
  Forall S ps -> length ws = length ps -> Forall (fun w => 0 <= w) ws -> sum ws = 1 -> S (comb ws ps).
Proof.
  induction ps as [|p ps IH]; intros [|w ws] Hp Hl Hw Hs; simpl in Hl; try discriminate.
  - cbn in Hs. lra.
  - inversion Hp as [|? ? Sp Hp']; subst. inversion Hw as [|? ? H0 Hw']; subst.
    cbn [sum] in Hs. cbn [comb]. pose proof (sum_nonneg _ Hw') as Hn.
    destruct (Req_dec (sum ws) 0) as [Z|NZ].
    + rewrite (comb_sum_zero ws ps Hw' Z). assert (w = 1) by lra. subst w.
      replace (vadd (vscale 1 p) vzero) with p by (vsimp; f_equal; ring). exact Sp.
    + set (s := sum ws) in *. assert (0 < s) by lra.
      assert (E : comb ws ps = vscale s (comb (wscale (/ s) ws) ps)).
      { rewrite comb_wscale. generalize (comb ws ps). intros q. vsimp. f_equal; field; lra. }
      rewrite E. replace w with (1 - s) by lra. apply HS; [exact Sp| |lra].
      apply IH; auto.
      * unfold wscale. rewrite map_length. injection Hl; auto.
      * apply Forall_wscale; [|exact Hw']. left. apply Rinv_0_lt_compat. lra.
      * rewrite sum_wscale. fold s. field. lra.
Qed.

(** ** the weights of [calculate_closest_points] *)
Definition closest_weights (Y : list V3R) : option (list R) :=
  match Y with
  | [_] => Some [1]
  | [y0; y1] => let '(u, v) := get_barycentric_coordinates_line y0 y1 in Some [u; v]
  | [y0; y1; y2] => let '(u, v, w) := get_barycentric_coordinates_plane y0 y1 y2 in Some [u; v; w]
  | [y0; y1; y2; y3] =>
    let '(u, v, w, x) := get_barycentric_coordinates_tetrahedron y0 y1 y2 y3 in Some [u; v; w; x]
  | _ => None
  end.

(** four live rows: the tetrahedron is not flat (the code divides by this volume) *)
Definition tetra_regular (Y : list V3R) : Prop :=
  match Y with
  | [y0; y1; y2; y3] => scalar_triple_product (vsub y1 y0) (vsub y2 y0) (vsub y3 y0) <> 0
  | _ => True
  end.

Lemma closest_points_affine A B Y P Q a b :
  rows A B Y P Q -> calculate_closest_points Y P Q = Some (a, b) -> tetra_regular Y ->
  exists ws, closest_weights Y = Some ws /\ length ws = length Y /\ sum ws = 1 /\
             a = comb ws P /\ b = comb ws Q /\ vsub a b = comb ws Y.
Proof.
  intros Hr. unfold calculate_closest_points, closest_weights, tetra_regular.
  destruct Hr as [|y0 p0 q0 Y P Q _ _ E0 Hr]; [discriminate|].
  destruct Hr as [|y1 p1 q1 Y P Q _ _ E1 Hr].
  { intros H _; inversion H; subst. exists [1]. repeat split; cbn [comb sum]; try lra; vsimp; f_equal; ring. }
  destruct Hr as [|y2 p2 q2 Y P Q _ _ E2 Hr].
  { pose proof (bary_line_sum y0 y1) as Hs.
    destruct (get_barycentric_coordinates_line y0 y1) as [u v]. cbn [fst snd] in Hs.
    intros H _; inversion H; subst. exists [u; v]. unfold lin2.
    repeat split; cbn [comb sum]; try lra; vsimp; f_equal; ring. }
  destruct Hr as [|y3 p3 q3 Y P Q _ _ E3 Hr].
  { pose proof (bary_plane_sum y0 y1 y2) as Hs.
    destruct (get_barycentric_coordinates_plane y0 y1 y2) as [[u v] w].
    intros H _; inversion H; subst. exists [u; v; w]. unfold lin2.
    repeat split; cbn [comb sum]; try lra; vsimp; f_equal; ring. }
  destruct Hr as [|y4 p4 q4 Y P Q _ _ E4 Hr].
  { intros H Hreg. pose proof (bary_tet_sum y0 y1 y2 y3 Hreg) as Hs.
    destruct (get_barycentric_coordinates_tetrahedron y0 y1 y2 y3) as [[[u v] w] x].
    inversion H; subst. exists [u; v; w; x]. unfold lin2.
    repeat split; cbn [comb sum]; try lra; vsimp; f_equal; ring. }
  discriminate.
Qed.

Lemma rows_Forall A B Y P Q : rows A B Y P Q -> Forall A P /\ Forall B Q.
Proof. induction 1 as [|y p q Y P Q HA HB _ _ [IP IQ]]; split; constructor; auto. Qed.

(** FEASIBILITY of the returned points (partial: the non-negativity of the weights is the
    carrier property of the simplex solver - the final simplex is the face that carries the
    closest point - which is C18's subject and a hypothesis here) *)
Theorem closest_points_feasible_partial A B Y P Q a b :
  convex A -> convex B ->
  rows A B Y P Q -> calculate_closest_points Y P Q = Some (a, b) -> tetra_regular Y ->
  (forall ws, closest_weights Y = Some ws -> Forall (fun w => 0 <= w) ws) ->
  A a /\ B b /\ conv_hull Y (vsub a b).
Proof.
  intros CA CB Hr Hc Hreg Hnn.
  destruct (closest_points_affine _ _ _ _ _ _ _ Hr Hc Hreg) as (ws & Hw & Hl & Hs & -> & -> & Hy).
  specialize (Hnn ws Hw). destruct (rows_Forall _ _ _ _ _ Hr) as [FA FB].
  destruct (rows_length _ _ _ _ _ Hr) as [LP LQ].
  split; [|split].
  - apply convex_comb; auto. congruence.
  - apply convex_comb; auto. congruence.
  - exists ws. repeat split; auto.
Qed.

(** ** the hypotheses are satisfiable together: a two-row simplex with weights (1/2, 1/2) *)
Definition fxA : set3 := fun x => vx x = 1 /\ vz x = 0 /\ -1 <= vy x <= 1.
Definition fxB : set3 := fun x => x = V 0 0 0.
Definition fxY : list V3R := [V 1 1 0; V 1 (-1) 0].
Definition fxP : list V3R := [V 1 1 0; V 1 (-1) 0].
Definition fxQ : list V3R := [V 0 0 0; V 0 0 0].

Lemma fx_line : get_barycentric_coordinates_line (V 1 1 0 : V3R) (V 1 (-1) 0) = (/ 2, / 2).
Proof.
  unfold get_barycentric_coordinates_line, get_barycentric_coordinates_line_t.
  rewrite eps_sqr. pose proof eps_pos as Hp. pose proof eps_val as Hv.
  replace (dot (vsub (V 1 (-1) 0) (V 1 1 0)) (vsub (V 1 (-1) 0) (V 1 1 0))) with 4 by (vsimp; ring).
  assert (E : ltb 4 (eps * eps) = false).
  { apply Rltb_false. assert (eps <= 1) by (rewrite Hv; lra). nra. }
  rewrite E. cbn [fst]. f_equal; vsimp; field.
Qed.

Theorem closest_points_feasible_nonvacuous :
  convex fxA /\ convex fxB /\ rows fxA fxB fxY fxP fxQ /\
  calculate_closest_points fxY fxP fxQ = Some (V 1 0 0, V 0 0 0) /\ tetra_regular fxY /\
  (forall ws, closest_weights fxY = Some ws -> Forall (fun w => 0 <= w) ws).
Proof.
  split; [|split; [|split; [|split; [|split]]]].
  - intros x y t (X1 & X2 & X3) (Y1 & Y2 & Y3) Ht. unfold fxA in *. vsimp. repeat split; nra.
  - intros x y t -> -> Ht. unfold fxB. vsimp. f_equal; ring.
  - unfold fxY, fxP, fxQ. repeat constructor; unfold fxA, fxB; cbn [vx vy vz]; try lra; vsimp; f_equal; ring.
  - unfold calculate_closest_points, fxY, fxP, fxQ. rewrite fx_line. unfold lin2. f_equal. f_equal; vsimp; f_equal; field.
  - exact I.
  - unfold closest_weights, fxY. rewrite fx_line. intros ws H. inversion H; subst.
    repeat constructor; lra.
Qed.

Lemma closest_points_feasible_nonvacuous_ex :
  convex fxA /\ convex fxB /\ rows fxA fxB fxY fxP fxQ /\
  (exists a b, calculate_closest_points fxY fxP fxQ = Some (a, b)) /\ tetra_regular fxY /\
  (forall ws, closest_weights fxY = Some ws -> Forall (fun w => 0 <= w) ws).
Proof.
  destruct closest_points_feasible_nonvacuous as (H1 & H2 & H3 & H4 & H5 & H6).
  refine (conj H1 (conj H2 (conj H3 (conj _ (conj H5 H6))))). eexists; eexists; exact H4.
Qed.
