(** * plane_to_ellipsoid / plane_to_cylinder (distance3d/distance/_plane.py): feasibility (C10) and
      optimality (C11) of the model of [Model/DistPrimComb.v] over the reals.

    Both functions hand the two support points of the shape along [-n] and [+n] to
    [_plane_to_convex_hull_points] ([plane_to_points]).  The general theorems of
    [Proofs/DistPlaneHull.v] ask of the target set [S] that it contains the points and the segments
    between them (true because [S] is convex) and that the signed distance of every point of [S]
    lies between the extreme signed distances of the listed points (true because the two points are
    support points of [S] along [-n] and [+n]).

    The sets are [Shapes.ellipsoid_set T radii] / [Shapes.cylinder_set T r l] ([image T K], the sets
    for which [Proofs/SupportA.v], [Proofs/SupportB.v] prove the support functions correct); they
    coincide with [Prims.ellipsoid_of] / [Prims.cylinder_of] for EVERY pose matrix ([ellipsoid_bridge]
    needs positive radii, [cylinder_bridge] nothing), so the theorems are restated against the sets
    of [Spec/Prims.v] as well.  No hypothesis on the pose ([is_rotation]) is needed anywhere. *)
From Coq Require Import Reals Lra Psatz List Bool.
From D3 Require Import Base.Ops Base.Vec Base.RVec Base.RVec2 Spec.Convex Spec.Shapes Spec.Prims Model.Support Model.DistPrim Model.DistPrimComb
  Proofs.DistBase Proofs.DistPoint Proofs.DistPlane Proofs.DistPlaneHull Proofs.SupportA Proofs.SupportB.
Import ListNotations. Local Open Scope R_scope.

(** ** convexity of the two sets *)
Lemma sq_conv (t u v : R) :
  ((1 - t) * u + t * v) * ((1 - t) * u + t * v)
  = (1 - t) * (u * u) + t * (v * v) - t * (1 - t) * ((u - v) * (u - v)).
Proof. ring. Qed.

Lemma sq_conv2 (t u0 u1 v0 v1 c : R) :
  0 <= t <= 1 -> u0 * u0 + u1 * u1 <= c -> v0 * v0 + v1 * v1 <= c ->
  ((1 - t) * u0 + t * v0) * ((1 - t) * u0 + t * v0)
  + ((1 - t) * u1 + t * v1) * ((1 - t) * u1 + t * v1) <= c.
Proof.
  intros Ht Hu Hv. rewrite !sq_conv.
  pose proof (sqr_nonneg (u0 - v0)) as S0. pose proof (sqr_nonneg (u1 - v1)) as S1.
  unfold Rsqr in S0, S1.
  set (a0 := (u0 - v0) * (u0 - v0)) in *. set (a1 := (u1 - v1) * (u1 - v1)) in *.
  set (U := u0 * u0 + u1 * u1) in *. set (W := v0 * v0 + v1 * v1) in *.
  assert (0 <= t * (1 - t) * (a0 + a1)).
  { apply Rmult_le_pos; [apply Rmult_le_pos; lra|lra]. }
  assert (0 <= (1 - t) * (c - U)) by (apply Rmult_le_pos; lra).
  assert (0 <= t * (c - W)) by (apply Rmult_le_pos; lra).
  unfold U, W in *. lra.
Qed.

Lemma sq_conv3 (t u0 u1 u2 v0 v1 v2 c : R) :
  0 <= t <= 1 -> u0 * u0 + u1 * u1 + u2 * u2 <= c -> v0 * v0 + v1 * v1 + v2 * v2 <= c ->
  ((1 - t) * u0 + t * v0) * ((1 - t) * u0 + t * v0)
  + ((1 - t) * u1 + t * v1) * ((1 - t) * u1 + t * v1)
  + ((1 - t) * u2 + t * v2) * ((1 - t) * u2 + t * v2) <= c.
Proof.
  intros Ht Hu Hv. rewrite !sq_conv.
  pose proof (sqr_nonneg (u0 - v0)) as S0. pose proof (sqr_nonneg (u1 - v1)) as S1.
  pose proof (sqr_nonneg (u2 - v2)) as S2. unfold Rsqr in S0, S1, S2.
  set (a0 := (u0 - v0) * (u0 - v0)) in *. set (a1 := (u1 - v1) * (u1 - v1)) in *.
  set (a2 := (u2 - v2) * (u2 - v2)) in *.
  set (U := u0 * u0 + u1 * u1 + u2 * u2) in *. set (W := v0 * v0 + v1 * v1 + v2 * v2) in *.
  assert (0 <= t * (1 - t) * (a0 + a1 + a2)).
  { apply Rmult_le_pos; [apply Rmult_le_pos; lra|lra]. }
  assert (0 <= (1 - t) * (c - U)) by (apply Rmult_le_pos; lra).
  assert (0 <= t * (c - W)) by (apply Rmult_le_pos; lra).
  unfold U, W in *. lra.
Qed.

(** the image of a convex set under an affine map (any matrix) is convex *)
Lemma transform_point_conv (T : Pose R) (t : R) (k1 k2 : V3R) :
  transform_point T (vadd (vscale (1 - t) k1) (vscale t k2))
  = vadd (vscale (1 - t) (transform_point T k1)) (vscale t (transform_point T k2)).
Proof. veq. Qed.

Lemma image_convex (T : Pose R) (K : set3) : convex K -> convex (image T K).
Proof.
  intros HK x y t (k1 & Hk1 & ->) (k2 & Hk2 & ->) Ht.
  exists (vadd (vscale (1 - t) k1) (vscale t k2)). split.
  - apply HK; assumption.
  - symmetry. apply transform_point_conv.
Qed.

(** no hypothesis on the radii: [x / a] is [x * / a] whatever [a] is *)
Lemma ellipsoid_K_convex (radii : V3R) : convex (ellipsoid_K radii).
Proof.
  intros [x0 x1 x2] [y0 y1 y2] t Hx Hy Ht. destruct radii as [a0 a1 a2].
  unfold ellipsoid_K, vadd, vscale in *. cbn [vx vy vz] in *. ops_R.
  replace (((1 - t) * x0 + t * y0) / a0) with ((1 - t) * (x0 / a0) + t * (y0 / a0)) by (unfold Rdiv; ring).
  replace (((1 - t) * x1 + t * y1) / a1) with ((1 - t) * (x1 / a1) + t * (y1 / a1)) by (unfold Rdiv; ring).
  replace (((1 - t) * x2 + t * y2) / a2) with ((1 - t) * (x2 / a2) + t * (y2 / a2)) by (unfold Rdiv; ring).
  apply sq_conv3; assumption.
Qed.

Lemma cylinder_K_convex (r l : R) : convex (cylinder_K r l).
Proof.
  intros [x0 x1 x2] [y0 y1 y2] t [Hx Hxz] [Hy Hyz] Ht.
  unfold cylinder_K, vadd, vscale in *. cbn [vx vy vz] in *. ops_R. split.
  - apply sq_conv2; assumption.
  - apply Rabs_conv; assumption.
Qed.

Theorem ellipsoid_set_convex (T : Pose R) (radii : V3R) : convex (Shapes.ellipsoid_set T radii).
Proof. apply image_convex, ellipsoid_K_convex. Qed.

Theorem cylinder_set_convex (T : Pose R) (r l : R) : convex (Shapes.cylinder_set T r l).
Proof. apply image_convex, cylinder_K_convex. Qed.

(** ** the general step: a convex set and its two support points along [-n] and [+n] *)
Lemma convex_segment_in (S : set3) (p q x : V3R) :
  convex S -> S p -> S q -> segment_set p q x -> S x.
Proof.
  intros HS Hp Hq (t & Ht & ->).
  replace (vadd p (vscale t (vsub q p))) with (vadd (vscale (1 - t) p) (vscale t q)) by veq.
  apply HS; assumption.
Qed.

(** the signed distance of every point of [S] lies between those of the two support points, which
    are the extreme signed distances of the two-element list *)
Lemma supports_sd_between (S : set3) (pp pn sm sp : V3R) :
  is_support S (vneg pn) sm -> is_support S pn sp ->
  forall x, S x -> sd_min pp pn [sm; sp] <= dot (vsub x pp) pn <= sd_max pp pn [sm; sp].
Proof.
  intros [Hsm Hm] [Hsp Hp] x Hx.
  assert (Hne : [sm; sp] <> []) by discriminate.
  destruct (sd_min_spec pp pn [sm; sp] Hne) as (_ & _ & Hmin).
  destruct (sd_max_spec pp pn [sm; sp] Hne) as (_ & _ & Hmax).
  pose proof (Hmin sm (or_introl eq_refl)) as Lm.
  pose proof (Hmax sp (or_intror (or_introl eq_refl))) as Lp.
  specialize (Hm x Hx). specialize (Hp x Hx).
  rewrite !(dot_comm _ (vneg pn)), !dot_neg_l, !(dot_comm pn) in Hm. rewrite !dot_sub_l in *. lra.
Qed.

Theorem plane_to_supports_feasible (S : set3) (pp pn sm sp : V3R) d c1 c2 arm :
  dot pn pn = 1 -> convex S -> S sm -> S sp ->
  plane_to_points pp pn [sm; sp] = (d, c1, c2, arm) ->
  feasible (plane_set pp pn) S d c1 c2.
Proof.
  intros Hu HS Hsm Hsp H.
  assert (Hin : forall p, In p [sm; sp] -> S p) by (intros p [<-|[<-|[]]]; assumption).
  apply (plane_to_points_feasible S pp pn [sm; sp] d c1 c2 arm); auto.
  - discriminate.
  - intros p q Ip Iq x Hx. apply (convex_segment_in S p q x); auto.
Qed.

Theorem plane_to_supports_optimal (S : set3) (pp pn sm sp : V3R) d c1 c2 arm :
  dot pn pn = 1 -> is_support S (vneg pn) sm -> is_support S pn sp ->
  plane_to_points pp pn [sm; sp] = (d, c1, c2, arm) ->
  optimal (plane_set pp pn) S d.
Proof.
  intros Hu Hm Hp H.
  apply (plane_to_points_optimal S pp pn [sm; sp] d c1 c2 arm); auto.
  - discriminate.
  - apply supports_sd_between; assumption.
Qed.

(** ** plane_to_ellipsoid *)
Theorem plane_to_ellipsoid_feasible (pp pn : V3R) (T : Pose R) (radii : V3R) d c1 c2 arm :
  dot pn pn = 1 -> 0 < vx radii -> 0 < vy radii -> 0 < vz radii ->
  plane_to_ellipsoid pp pn T radii = (d, c1, c2, arm) ->
  feasible (plane_set pp pn) (Shapes.ellipsoid_set T radii) d c1 c2.
Proof.
  intros Hu H0 H1 H2 H. unfold plane_to_ellipsoid in H.
  destruct (support_ellipsoid_correct (vneg pn) T radii H0 H1 H2) as [Hm _].
  destruct (support_ellipsoid_correct pn T radii H0 H1 H2) as [Hp _].
  exact (plane_to_supports_feasible _ pp pn _ _ d c1 c2 arm Hu (ellipsoid_set_convex T radii) Hm Hp H).
Qed.

Theorem plane_to_ellipsoid_optimal (pp pn : V3R) (T : Pose R) (radii : V3R) d c1 c2 arm :
  dot pn pn = 1 -> 0 < vx radii -> 0 < vy radii -> 0 < vz radii ->
  plane_to_ellipsoid pp pn T radii = (d, c1, c2, arm) ->
  optimal (plane_set pp pn) (Shapes.ellipsoid_set T radii) d.
Proof.
  intros Hu H0 H1 H2 H. unfold plane_to_ellipsoid in H.
  exact (plane_to_supports_optimal _ pp pn _ _ d c1 c2 arm Hu
           (support_ellipsoid_correct (vneg pn) T radii H0 H1 H2)
           (support_ellipsoid_correct pn T radii H0 H1 H2) H).
Qed.

(** ** plane_to_cylinder *)
Theorem plane_to_cylinder_feasible (pp pn : V3R) (T : Pose R) (r l : R) d c1 c2 arm :
  dot pn pn = 1 -> 0 <= r -> 0 <= l ->
  plane_to_cylinder pp pn T r l = (d, c1, c2, arm) ->
  feasible (plane_set pp pn) (Shapes.cylinder_set T r l) d c1 c2.
Proof.
  intros Hu Hr Hl H. unfold plane_to_cylinder in H.
  destruct (support_cylinder_correct (vneg pn) T r l Hr Hl) as [Hm _].
  destruct (support_cylinder_correct pn T r l Hr Hl) as [Hp _].
  exact (plane_to_supports_feasible _ pp pn _ _ d c1 c2 arm Hu (cylinder_set_convex T r l) Hm Hp H).
Qed.

Theorem plane_to_cylinder_optimal (pp pn : V3R) (T : Pose R) (r l : R) d c1 c2 arm :
  dot pn pn = 1 -> 0 <= r -> 0 <= l ->
  plane_to_cylinder pp pn T r l = (d, c1, c2, arm) ->
  optimal (plane_set pp pn) (Shapes.cylinder_set T r l) d.
Proof.
  intros Hu Hr Hl H. unfold plane_to_cylinder in H.
  exact (plane_to_supports_optimal _ pp pn _ _ d c1 c2 arm Hu
           (support_cylinder_correct (vneg pn) T r l Hr Hl)
           (support_cylinder_correct pn T r l Hr Hl) H).
Qed.

(** ** bridge to the sets of [Spec/Prims.v] (centre + coefficients along the pose columns).
    Both hold for EVERY pose matrix: [transform_point T k] is [trans T + k0 col0 + k1 col1 + k2 col2]. *)
Lemma transform_point_cols (T : Pose R) (a b h : R) :
  transform_point T (V a b h)
  = vadd (trans T) (vadd (vscale a (pose_x T)) (vadd (vscale b (pose_y T)) (vscale h (pose_z T)))).
Proof. unfold pose_x, pose_y, pose_z. veq. Qed.

Lemma cylinder_bridge (T : Pose R) (r l : R) (x : V3R) :
  Shapes.cylinder_set T r l x <-> Prims.cylinder_of T r l x.
Proof.
  unfold Shapes.cylinder_set, image, cylinder_K, Prims.cylinder_of, Prims.cylinder_set. split.
  - intros ([a b h] & [Hr Hh] & ->). cbn [vx vy vz] in *.
    exists a, b, h. split; [exact Hr|]. split; [exact Hh|]. apply transform_point_cols.
  - intros (a & b & h & Hr & Hh & ->). exists (V a b h). cbn [vx vy vz].
    split; [split; assumption|]. symmetry. apply transform_point_cols.
Qed.

(** positive (indeed non-zero) radii: the canonical coordinates are [k_i = K_i * radii_i] *)
Lemma ellipsoid_bridge (T : Pose R) (radii : V3R) (x : V3R) :
  0 < vx radii -> 0 < vy radii -> 0 < vz radii ->
  (Shapes.ellipsoid_set T radii x <-> Prims.ellipsoid_of T radii x).
Proof.
  destruct radii as [a0 a1 a2]. cbn [vx vy vz]. intros H0 H1 H2.
  unfold Shapes.ellipsoid_set, image, ellipsoid_K, Prims.ellipsoid_of, Prims.ellipsoid_set.
  cbn [vx vy vz]. split.
  - intros ([k0 k1 k2] & Hk & ->). cbn [vx vy vz] in *.
    exists (k0 / a0), (k1 / a1), (k2 / a2). split; [exact Hk|].
    rewrite <- transform_point_cols. f_equal. f_equal; field; lra.
  - intros (k0 & k1 & k2 & Hk & ->). exists (V (k0 * a0) (k1 * a1) (k2 * a2)). cbn [vx vy vz].
    split; [|symmetry; apply transform_point_cols].
    replace (k0 * a0 / a0) with k0 by (field; lra).
    replace (k1 * a1 / a1) with k1 by (field; lra).
    replace (k2 * a2 / a2) with k2 by (field; lra). exact Hk.
Qed.

Lemma feasible_ext_r (A B B' : set3) d c1 c2 :
  (forall x, B x <-> B' x) -> feasible A B d c1 c2 -> feasible A B' d c1 c2.
Proof. intros E (Ha & Hb & Hd & Hn). split; [exact Ha|]. split; [apply E; exact Hb|]. split; assumption. Qed.

Lemma optimal_ext_r (A B B' : set3) d :
  (forall x, B x <-> B' x) -> optimal A B d -> optimal A B' d.
Proof. intros E H a b Ha Hb. apply H; [exact Ha|apply E; exact Hb]. Qed.

(** *** the four theorems against the sets of [Spec/Prims.v] *)
Corollary plane_to_ellipsoid_feasible_prims (pp pn : V3R) (T : Pose R) (radii : V3R) d c1 c2 arm :
  dot pn pn = 1 -> 0 < vx radii -> 0 < vy radii -> 0 < vz radii ->
  plane_to_ellipsoid pp pn T radii = (d, c1, c2, arm) ->
  feasible (plane_set pp pn) (Prims.ellipsoid_of T radii) d c1 c2.
Proof.
  intros Hu H0 H1 H2 H. apply (feasible_ext_r _ (Shapes.ellipsoid_set T radii)).
  - intros x. apply ellipsoid_bridge; assumption.
  - exact (plane_to_ellipsoid_feasible pp pn T radii d c1 c2 arm Hu H0 H1 H2 H).
Qed.

Corollary plane_to_ellipsoid_optimal_prims (pp pn : V3R) (T : Pose R) (radii : V3R) d c1 c2 arm :
  dot pn pn = 1 -> 0 < vx radii -> 0 < vy radii -> 0 < vz radii ->
  plane_to_ellipsoid pp pn T radii = (d, c1, c2, arm) ->
  optimal (plane_set pp pn) (Prims.ellipsoid_of T radii) d.
Proof.
  intros Hu H0 H1 H2 H. apply (optimal_ext_r _ (Shapes.ellipsoid_set T radii)).
  - intros x. apply ellipsoid_bridge; assumption.
  - exact (plane_to_ellipsoid_optimal pp pn T radii d c1 c2 arm Hu H0 H1 H2 H).
Qed.

Corollary plane_to_cylinder_feasible_prims (pp pn : V3R) (T : Pose R) (r l : R) d c1 c2 arm :
  dot pn pn = 1 -> 0 <= r -> 0 <= l ->
  plane_to_cylinder pp pn T r l = (d, c1, c2, arm) ->
  feasible (plane_set pp pn) (Prims.cylinder_of T r l) d c1 c2.
Proof.
  intros Hu Hr Hl H. apply (feasible_ext_r _ (Shapes.cylinder_set T r l)).
  - intros x. apply cylinder_bridge.
  - exact (plane_to_cylinder_feasible pp pn T r l d c1 c2 arm Hu Hr Hl H).
Qed.

Corollary plane_to_cylinder_optimal_prims (pp pn : V3R) (T : Pose R) (r l : R) d c1 c2 arm :
  dot pn pn = 1 -> 0 <= r -> 0 <= l ->
  plane_to_cylinder pp pn T r l = (d, c1, c2, arm) ->
  optimal (plane_set pp pn) (Prims.cylinder_of T r l) d.
Proof.
  intros Hu Hr Hl H. apply (optimal_ext_r _ (Shapes.cylinder_set T r l)).
  - intros x. apply cylinder_bridge.
  - exact (plane_to_cylinder_optimal pp pn T r l d c1 c2 arm Hu Hr Hl H).
Qed.

(** ** concrete inputs: identity pose, plane z = 0, shape centred at height 3 (closest-vertex arm) *)
Lemma ex_supports_result (r : R) :
  plane_to_points (V 0 0 0 : V3R) (V 0 0 1) [V r 0 2; V r 0 4] = (2, V r 0 0, V r 0 2, 1%nat).
Proof.
  assert (Ta : dot (vsub (V r 0 2) (V 0 0 0 : V3R)) (V 0 0 1) = 2) by (vunfold; ring).
  assert (Tb : dot (vsub (V r 0 4) (V 0 0 0 : V3R)) (V 0 0 1) = 4) by (vunfold; ring).
  unfold plane_to_points. cbn [map]. rewrite Ta, Tb.
  unfold argmin, argmax, argbest. ops_R. repeat rb_dec. cbn [nth map].
  rewrite (Rabs_pos_eq 4), (Rabs_pos_eq 2) by lra. repeat rb_dec. rewrite (Rabs_pos_eq 2) by lra.
  replace (vsub (V r 0 2) (vscale 2 (V 0 0 1 : V3R))) with (V r 0 0) by (vunfold; f_equal; ring).
  reflexivity.
Qed.

(** the cylinder of radius 1 and length 2 around (0,0,3): support points (1,0,4) and (1,0,2) *)
Lemma ex_cylinder_up : support_cylinder (V 0 0 1 : V3R) (P ident (V 0 0 3)) 1 2 = V 1 0 4.
Proof.
  unfold support_cylinder. cbv zeta.
  replace (mulTV (rot (P ident (V 0 0 3))) (V 0 0 1 : V3R)) with (V 0 0 1 : V3R) by veq.
  cbn [vx vy vz]. ops_R.
  replace (0 * 0 + 0 * 0) with 0 by ring. rewrite sqrt_0.
  rewrite (proj2 (Reqb_true 0 0) eq_refl). rb_dec.
  rewrite ShapesTac.half_R. veq.
Qed.
Lemma ex_cylinder_down : support_cylinder (vneg (V 0 0 1 : V3R)) (P ident (V 0 0 3)) 1 2 = V 1 0 2.
Proof.
  unfold support_cylinder. cbv zeta.
  replace (mulTV (rot (P ident (V 0 0 3))) (vneg (V 0 0 1 : V3R))) with (V 0 0 (-1) : V3R) by veq.
  cbn [vx vy vz]. ops_R.
  replace (0 * 0 + 0 * 0) with 0 by ring. rewrite sqrt_0.
  rewrite (proj2 (Reqb_true 0 0) eq_refl). rb_dec.
  rewrite ShapesTac.mhalf_R. veq.
Qed.

(** distance 3 - l/2 = 2, closest points (1,0,0) on the plane and (1,0,2) on the bottom rim *)
Example plane_to_cylinder_nonvacuous :
  let pp : V3R := V 0 0 0 in let pn : V3R := V 0 0 1 in
  let T : Pose R := P ident (V 0 0 3) in
  dot pn pn = 1 /\ is_rotation (rot T) /\ 0 <= 1 /\ 0 <= 2 /\
  plane_to_cylinder pp pn T 1 2 = (2, V 1 0 0, V 1 0 2, 1%nat) /\
  feasible (plane_set pp pn) (Shapes.cylinder_set T 1 2) 2 (V 1 0 0) (V 1 0 2) /\
  optimal (plane_set pp pn) (Shapes.cylinder_set T 1 2) 2.
Proof.
  cbv zeta.
  assert (Hu : dot (V 0 0 1 : V3R) (V 0 0 1) = 1) by (vunfold; ring).
  assert (H : plane_to_cylinder (V 0 0 0 : V3R) (V 0 0 1) (P ident (V 0 0 3)) 1 2
              = (2, V 1 0 0, V 1 0 2, 1%nat)).
  { unfold plane_to_cylinder. rewrite ex_cylinder_up, ex_cylinder_down. apply ex_supports_result. }
  split; [exact Hu|]. split; [exact rotation_ident|]. split; [lra|]. split; [lra|].
  split; [exact H|]. split.
  - apply (plane_to_cylinder_feasible _ _ _ _ _ _ _ _ 1%nat Hu); [lra|lra|exact H].
  - apply (plane_to_cylinder_optimal _ _ _ _ _ _ (V 1 0 0) (V 1 0 2) 1%nat Hu); [lra|lra|exact H].
Qed.

(** the ellipsoid with radii (2,3,1) around (0,0,3): support points (0,0,4) and (0,0,2) *)
Lemma ex_ellipsoid_up : support_ellipsoid (V 0 0 1 : V3R) (P ident (V 0 0 3)) (V 2 3 1) = V 0 0 4.
Proof.
  unfold support_ellipsoid. cbv zeta.
  replace (mulTV (rot (P ident (V 0 0 3))) (V 0 0 1 : V3R)) with (V 0 0 1 : V3R) by veq.
  replace (vmul (V 0 0 1 : V3R) (V 2 3 1)) with (V 0 0 1 : V3R) by veq.
  unfold Support.norm_vector. cbv zeta. unfold norm.
  replace (dot (V 0 0 1 : V3R) (V 0 0 1)) with 1 by (vunfold; ring). ops_R. rewrite sqrt_1.
  rewrite (proj2 (Reqb_false 1 0)) by lra. veq.
Qed.
Lemma ex_ellipsoid_down :
  support_ellipsoid (vneg (V 0 0 1 : V3R)) (P ident (V 0 0 3)) (V 2 3 1) = V 0 0 2.
Proof.
  unfold support_ellipsoid. cbv zeta.
  replace (mulTV (rot (P ident (V 0 0 3))) (vneg (V 0 0 1 : V3R))) with (V 0 0 (-1) : V3R) by veq.
  replace (vmul (V 0 0 (-1) : V3R) (V 2 3 1)) with (V 0 0 (-1) : V3R) by veq.
  unfold Support.norm_vector. cbv zeta. unfold norm.
  replace (dot (V 0 0 (-1) : V3R) (V 0 0 (-1))) with 1 by (vunfold; ring). ops_R. rewrite sqrt_1.
  rewrite (proj2 (Reqb_false 1 0)) by lra. veq.
Qed.

(** distance 3 - radius_z = 2, closest points (0,0,0) and the south pole (0,0,2) *)
Example plane_to_ellipsoid_nonvacuous :
  let pp : V3R := V 0 0 0 in let pn : V3R := V 0 0 1 in
  let T : Pose R := P ident (V 0 0 3) in let radii : V3R := V 2 3 1 in
  dot pn pn = 1 /\ is_rotation (rot T) /\ 0 < vx radii /\ 0 < vy radii /\ 0 < vz radii /\
  plane_to_ellipsoid pp pn T radii = (2, V 0 0 0, V 0 0 2, 1%nat) /\
  feasible (plane_set pp pn) (Shapes.ellipsoid_set T radii) 2 (V 0 0 0) (V 0 0 2) /\
  optimal (plane_set pp pn) (Shapes.ellipsoid_set T radii) 2.
Proof.
  cbv zeta.
  assert (Hu : dot (V 0 0 1 : V3R) (V 0 0 1) = 1) by (vunfold; ring).
  assert (H : plane_to_ellipsoid (V 0 0 0 : V3R) (V 0 0 1) (P ident (V 0 0 3)) (V 2 3 1)
              = (2, V 0 0 0, V 0 0 2, 1%nat)).
  { unfold plane_to_ellipsoid. rewrite ex_ellipsoid_up, ex_ellipsoid_down. apply ex_supports_result. }
  assert (R0 : 0 < vx (V 2 3 1 : V3R)) by (cbn; lra).
  assert (R1 : 0 < vy (V 2 3 1 : V3R)) by (cbn; lra).
  assert (R2 : 0 < vz (V 2 3 1 : V3R)) by (cbn; lra).
  split; [exact Hu|]. split; [exact rotation_ident|]. split; [exact R0|]. split; [exact R1|].
  split; [exact R2|]. split; [exact H|]. split.
  - exact (plane_to_ellipsoid_feasible _ _ _ _ _ _ _ 1%nat Hu R0 R1 R2 H).
  - exact (plane_to_ellipsoid_optimal _ _ _ _ _ (V 0 0 0) (V 0 0 2) 1%nat Hu R0 R1 R2 H).
Qed.
