(** * C06, part 5: the collider parameters of the BVH model instantiated with the collider
    state machine of C14 (Model/Colliders.v): [update_pose] with the C-contiguous array a
    transform manager returns, [aabb()] of the collider classes.  This is what "uses C14"
    means for [poses_current]: after update_collider_poses every registered collider holds,
    in every attribute, the data of a collider of the same shape constructed directly at the
    transform manager's current transform, and the box stored in the tree is that collider's
    aabb(). *)
From Coq Require Import List Bool.
From D3 Require Import Base.Vec Gen.CollidersTables Model.AabbTree Model.Colliders Model.Bvh
                       Proofs.CollidersProofs Proofs.BvhProofs.
Import ListNotations.

Section BvhColliders.
  Variable F : Type.
  Variable Conn : Type.
  Variable K : kern F Conn.
  Variable dflt : F.                         (* only to make [aabb_of] total *)
  Notation coll := (Colliders.coll F Conn).

  (** [collider.update_pose(A2B)], A2B a fresh C-contiguous 4x4 array *)
  Definition c_upd (c : coll) (p : Pose F) : coll :=
    fst (Colliders.update_pose F Conn K current c (Arr LC p)).

  (** [collider.aabb()] as a tree box (rows x, y, z; columns min, max) *)
  Definition c_aabb (c : coll) : AabbTree.box F :=
    match Colliders.aabb F Conn K current c with
    | Ok (OBox (lo, hi)) => @AabbTree.Box F (vx lo) (vx hi) (vy lo) (vy hi) (vz lo) (vz hi)
    | _ => @AabbTree.Box F dflt dflt dflt dflt dflt dflt
    end.

  (** a collider of some shape whose array attributes have the layouts the compiled
      kernels accept *)
  Definition c_good (c : coll) : Prop :=
    CollidersProofs.Inv F Conn c /\ exists s p, sim F Conn c (construct F Conn K s p).

  (** "the collider is at pose p": same data as a collider of its shape built at p, same aabb *)
  Definition c_at (c : coll) (p : Pose F) : Prop :=
    exists s, sim F Conn c (construct F Conn K s p) /\ c_aabb c = c_aabb (construct F Conn K s p).

  Lemma c_upd_good c p : c_good c -> c_good (c_upd c p).
  Proof.
    intros (HI & s & p0 & Hs). split.
    - apply (update_Inv F Conn K c (Arr LC p)); auto.
    - exists s, p. apply (update_sim F Conn K s p0 c (Arr LC p)); auto.
  Qed.

  Lemma c_upd_at c p : c_good c -> c_at (c_upd c p) p.
  Proof.
    intros (HI & s & p0 & Hs). exists s.
    assert (Hsim : sim F Conn (c_upd c p) (construct F Conn K s p))
      by (apply (update_sim F Conn K s p0 c (Arr LC p)); auto).
    split; auto. unfold c_aabb.
    rewrite (aabb_data F Conn K (c_upd c p) (construct F Conn K s p)); auto.
    - apply (update_Inv F Conn K c (Arr LC p)); auto.
    - apply construct_Inv.
  Qed.

  Lemma construct_good s p : c_good (construct F Conn K s p).
  Proof. split; [apply construct_Inv|]. exists s, p. apply sim_refl. Qed.

  (** ** end to end: history, then the box query, in terms of the transform manager *)
  Section EndToEnd.
    Variable le : F -> F -> bool.
    Variables cmin cmax : F -> F -> F.
    Variable czero : F.
    Variable go_left : AabbTree.box F -> AabbTree.box F -> AabbTree.box F -> bool.
    Variable cost_ok : AabbTree.box F -> AabbTree.box F -> AabbTree.box F -> AabbTree.box F -> bool.
    Hypothesis le_trans : forall a b c, le a b = true -> le b c = true -> le a c = true.
    Hypothesis cmin_l : forall a b, le (cmin a b) a = true.
    Hypothesis cmin_r : forall a b, le (cmin a b) b = true.
    Hypothesis cmax_l : forall a b, le a (cmax a b) = true.
    Hypothesis cmax_r : forall a b, le b (cmax a b) = true.
    Variable frame : Type.
    Variable feqb : frame -> frame -> bool.
    Hypothesis feqb_spec : forall a b, feqb a b = true <-> a = b.

    Notation state := (state F frame coll (Pose F)).
    Notation run_ops := (run_ops F cmin cmax czero go_left cost_ok frame feqb coll (Pose F) c_upd c_aabb).

    (** after any history ending with update_collider_poses, aabb_overlapping_colliders
        returns exactly the registered colliders outside the whitelist for which a collider
        of the same shape built at the transform manager's CURRENT transform of the frame has
        an aabb overlapping the query box *)
    Theorem history_box_query_exact (st0 : state) h st q wl :
      NoDup (map fst (colliders _ _ _ _ st0)) -> Forall c_good (heap _ _ _ _ st0) ->
      run_ops st0 (h ++ [UpdatePoses frame (Pose F)]) = XOk st ->
      NoDup (map snd (colliders _ _ _ _ st)) ->
      exists r, aabb_overlapping_colliders F le frame feqb coll (Pose F) st q wl = XOk r /\
        NoDup (map fst r) /\
        forall f o, In (f, o) r <->
          In (f, o) (colliders _ _ _ _ st) /\ ~ In f wl /\
          exists c s p, nth_error (heap _ _ _ _ st) o = Some c /\ tmap _ _ _ _ st f = Some p /\
                        sim F Conn c (construct F Conn K s p) /\
                        overlap F le (c_aabb (construct F Conn K s p)) q = true.
    Proof.
      intros Hk Hg Hrun Hid.
      destruct (history_poses_current F le cmin cmax czero go_left cost_ok frame feqb feqb_spec
                  coll (Pose F) c_upd c_aabb c_good c_at c_upd_good c_upd_at st0 h st Hk Hg Hrun Hid)
        as (HI & Hat).
      destruct (overlapping_colliders_exact F le cmin cmax go_left cost_ok le_trans cmin_l cmin_r
                  cmax_l cmax_r frame feqb feqb_spec coll (Pose F) c_aabb st q wl HI)
        as (r & Hr & Hn & Hiff).
      exists r. split; auto. split; auto. intros f o. rewrite Hiff. split.
      - intros (Hin & Hwl & c & Hc & Ho). repeat split; auto.
        destruct (Hat f o Hin) as (p & c' & Hp & Hc' & s & Hs & Hb).
        assert (c' = c) by congruence. subst c'.
        exists c, s, p. repeat split; auto. rewrite <- Hb. exact Ho.
      - intros (Hin & Hwl & c & s & p & Hc & Hp & Hs & Ho). repeat split; auto.
        exists c. split; auto.
        destruct (Hat f o Hin) as (p' & c' & Hp' & Hc' & s' & Hs' & Hb').
        assert (c' = c) by congruence. assert (p' = p) by congruence. subst c' p'.
        (* the aabb of c is that of a fresh collider of ITS shape at p; same data => same aabb *)
        rewrite Hb'. unfold c_aabb.
        rewrite (aabb_data F Conn K (construct F Conn K s' p) (construct F Conn K s p)); auto.
        + apply construct_Inv.
        + apply construct_Inv.
        + eapply sim_trans; [|exact Hs]. apply sim_sym. exact Hs'.
    Qed.
  End EndToEnd.
End BvhColliders.
