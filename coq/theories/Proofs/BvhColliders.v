(** * C06, part 5: the collider parameters of the BVH model instantiated with the collider
    state machine of C14 (Model/Colliders.v): [update_pose] with the C-contiguous array a
    transform manager returns, [aabb()] of the collider classes.  This is what "uses C14"
    means for [poses_current]: after update_collider_poses every registered collider holds,
    in every attribute, the data of a collider of the same shape constructed directly at the
    transform manager's current transform, and the box stored in the tree is that collider's
    aabb(). *)
From Coq Require Import List Bool.
From D3 Require Import Base.Vec Gen.CollidersTables Model.AabbTree Model.Colliders Model.Bvh
                       Proofs.CollidersProofs Proofs.BvhProofs.
Import ListNotations.

Section BvhColliders.
  Variable F : Type.
  Variable Conn : Type.
  Variable K : kern F Conn.
  Variable dflt : F.                         (* only to make [aabb_of] total *)
  Notation coll := (Colliders.coll F Conn).

  (** [collider.update_pose(A2B)], A2B a fresh C-contiguous 4x4 array *)
  Definition c_upd (c : coll) (p : Pose F) : coll :=
    fst (Colliders.update_pose F Conn K current c (Arr LC p)).

  (** [collider.aabb()] as a tree box (rows x, y, z; columns min, max) *)
  Definition c_aabb (c : coll) : AabbTree.box F :=
    match Colliders.aabb F Conn K current c with
    | Ok (OBox (lo, hi)) => @AabbTree.Box F (vx lo) (vx hi) (vy lo) (vy hi) (vz lo) (vz hi)
    | _ => @AabbTree.Box F dflt dflt dflt dflt dflt dflt
    end.

  (** a collider of some shape whose array attributes have the layouts the compiled
      kernels accept *)
  Definition c_good (c : coll) : Prop :=
    CollidersProofs.Inv F Conn c /\ exists s p, sim F Conn c (construct F Conn K s p).

  (** "the collider is at pose p": same data as a collider of its shape built at p, same aabb *)
  Definition c_at (c : coll) (p : Pose F) : Prop :=
    exists s, sim F Conn c (construct F Conn K s p) /\ c_aabb c = c_aabb (construct F Conn K s p).

  Lemma c_upd_good c p : c_good c -> c_good (c_upd c p).
  Proof.
    intros (HI & s & p0 & Hs). split.
    - apply (update_Inv F Conn K c (Arr LC p)); auto.
    - exists s, p. apply (update_sim F Conn K s p0 c (Arr LC p)); auto.
  Qed.

  Lemma c_upd_at c p : c_good c -> c_at (c_upd c p) p.
  Proof.
    intros (HI & s & p0 & Hs). exists s.
    assert (Hsim : sim F Conn (c_upd c p) (construct F Conn K s p))
      by (apply (update_sim F Conn K s p0 c (Arr LC p)); auto).
    split; auto. unfold c_aabb.
    rewrite (aabb_data F Conn K (c_upd c p) (construct F Conn K s p)); auto.
    - apply (update_Inv F Conn K c (Arr LC p)); auto.
    - apply construct_Inv.
  Qed.

  Lemma construct_good s p : c_good (construct F Conn K s p).
  Proof. split; [apply construct_Inv|]. exists s, p. apply sim_refl. Qed.
End BvhColliders.
