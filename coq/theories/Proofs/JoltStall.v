(** * The two classical GJK lemmas on the model of the Jolt loop, and what they give for the
      "no improvement" exit of [distance_step] (over the reals, arbitrary sets). *)
From Coq Require Import Reals Lra Psatz List NArith Bool QArith Qreals.
From D3 Require Import Base.Ops Base.Vec Base.RVec Spec.Convex Model.Simplex Model.JoltLoop Proofs.JoltLoop.
Import ListNotations.
Local Open Scope R_scope.

(** (1) if the support point w of A-B in direction -v does not get farther along -v than v
        itself (v.w >= v.v), then |v| is a lower bound for every difference vector *)
Lemma gjk_stall_lower_bound (A B : set3) (v p q : V3R) :
  is_support A (vneg v) p -> is_support B (vneg (vneg v)) q ->
  dot v v <= dot v (vsub p q) ->
  forall a b, A a -> B b -> norm v <= norm (vsub a b).
Proof.
  intros HA HB Hw a b Ha Hb.
  pose proof (support_pair_bound A B (vneg v) p q a b HA HB Ha Hb) as Hs.
  rewrite !dot_neg_l in Hs.
  pose proof (cauchy_schwarz v (vsub a b)) as Hcs.
  pose proof (norm_sq v) as Hv. pose proof (norm_nonneg v) as Hn. pose proof (norm_nonneg (vsub a b)).
  destruct (Req_dec (norm v) 0) as [E|E]; [lra|].
  assert (0 < norm v) by lra.
  apply Rmult_le_reg_l with (norm v); auto. lra.
Qed.

(** (2) otherwise the segment from v to w contains a strictly shorter point: an exact solver
        run on a simplex containing both must make progress *)
Lemma gjk_progress_possible (v w : V3R) :
  dot v w < dot v v ->
  exists t, 0 < t <= 1 /\
    dot (vadd (vscale (1 - t) v) (vscale t w)) (vadd (vscale (1 - t) v) (vscale t w)) < dot v v.
Proof.
  intros H.
  set (dd := dot (vsub w v) (vsub w v)).
  assert (Hdd : 0 <= dd) by apply dot_self_nonneg.
  set (g := dot v v - dot v w). assert (Hg : 0 < g) by (unfold g; lra).
  assert (Hid : forall t, dot (vadd (vscale (1 - t) v) (vscale t w)) (vadd (vscale (1 - t) v) (vscale t w))
                          = dot v v - 2 * t * g + t * t * dd).
  { intros t. unfold g, dd. vsimp. ring. }
  destruct (Rle_dec dd g) as [Hle|Hgt].
  - exists 1. split; [lra|]. rewrite Hid. nra.
  - apply Rnot_le_lt in Hgt. exists (g / dd).
    assert (Hd : 0 < dd) by lra.
    assert (0 < g / dd) by (apply Rdiv_lt_0_compat; lra).
    assert (g / dd <= 1).
    { apply Rmult_le_reg_r with dd; auto. unfold Rdiv. rewrite Rmult_assoc, Rinv_l by lra. lra. }
    split; [lra|]. rewrite Hid.
    replace (dot v v - 2 * (g / dd) * g + g / dd * (g / dd) * dd) with (dot v v - g * g / dd) by (field; lra).
    assert (0 < g * g / dd) by (apply Rdiv_lt_0_compat; nra). lra.
Qed.

(** [x] has minimum norm in the hull of [Y] *)
Definition min_norm_in_hull (Y : list V3R) (x : V3R) : Prop :=
  conv_hull Y x /\ forall y, conv_hull Y y -> dot x x <= dot y y.

Definition mix (t : R) (wx wy : list R) : list R :=
  map (fun ab => (1 - t) * fst ab + t * snd ab) (combine wx wy).

Lemma mix_spec t : forall wx wy (Y : list V3R),
  length wx = length Y -> length wy = length Y ->
  length (mix t wx wy) = length Y /\
  Convex.sum (mix t wx wy) = (1 - t) * Convex.sum wx + t * Convex.sum wy /\
  comb (mix t wx wy) Y = vadd (vscale (1 - t) (comb wx Y)) (vscale t (comb wy Y)) /\
  (0 <= t <= 1 -> Forall (fun w => 0 <= w) wx -> Forall (fun w => 0 <= w) wy ->
   Forall (fun w => 0 <= w) (mix t wx wy)).
Proof.
  induction wx as [|a wx IH]; intros [|b wy] [|p Y] Lx Ly; try discriminate.
  - unfold mix. cbn. repeat split; auto; try ring. vsimp. f_equal; ring.
  - injection Lx as Lx. injection Ly as Ly.
    destruct (IH wy Y Lx Ly) as (L & S & C & P).
    unfold mix in *. cbn [combine map length Convex.sum comb fst snd]. repeat split.
    + f_equal. exact L.
    + rewrite S. ring.
    + rewrite C. vsimp. f_equal; ring.
    + intros Ht Px Py. inversion Px; inversion Py; subst. constructor; [nra|auto].
Qed.

Lemma hull_segment (Y : list V3R) (x y : V3R) t :
  conv_hull Y x -> conv_hull Y y -> 0 <= t <= 1 ->
  conv_hull Y (vadd (vscale (1 - t) x) (vscale t y)).
Proof.
  intros (wx & Lx & Px & Sx & ->) (wy & Ly & Py & Sy & ->) Ht.
  destruct (mix_spec t wx wy Y Lx Ly) as (L & S & C & P).
  exists (mix t wx wy). repeat split; auto.
  rewrite S, Sx, Sy. ring.
Qed.

Lemma sum_map_zero (Y : list V3R) : Convex.sum (map (fun _ : V3R => 0) Y) = 0.
Proof. induction Y as [|q Y IH]; cbn [map Convex.sum]; lra. Qed.
Lemma comb_map_zero (Y : list V3R) : comb (map (fun _ : V3R => 0) Y) Y = vzero.
Proof. induction Y as [|q Y IH]; cbn [map comb]; [reflexivity|]. rewrite IH. vsimp. f_equal; ring. Qed.

Lemma hull_generator (Y : list V3R) (y : V3R) : In y Y -> conv_hull Y y.
Proof.
  induction Y as [|p Y IH]; intros Hin; [contradiction|].
  destruct Hin as [->|Hin].
  - exists (1 :: map (fun _ => 0) Y). repeat split.
    + cbn. rewrite map_length. reflexivity.
    + constructor; [lra|]. apply Forall_forall. intros w Hw. apply in_map_iff in Hw as (_ & <- & _). lra.
    + cbn [Convex.sum]. rewrite sum_map_zero. lra.
    + cbn [comb]. rewrite comb_map_zero. vsimp. f_equal; ring.
  - destruct (IH Hin) as (ws & L & P & S & E).
    exists (0 :: ws). repeat split.
    + cbn. f_equal. exact L.
    + constructor; [lra|exact P].
    + cbn. lra.
    + cbn [comb]. rewrite <- E. vsimp. f_equal; ring.
Qed.

(** (3) hence: if the solver returns a minimum-norm point of the hull of a simplex that contains
        both the previous closest point [v] (as a point of the hull) and the new support point [w],
        and that point is NOT strictly shorter than [v] (the loop's "no improvement" test), then
        v.w >= v.v, and by (1) |v| is the distance of the two sets *)
Theorem stall_exact (A B : set3) (Y1 : list V3R) (v v' p q : V3R) :
  is_support A (vneg v) p -> is_support B (vneg (vneg v)) q ->
  conv_hull Y1 v -> In (vsub p q) Y1 ->
  min_norm_in_hull Y1 v' -> ~ (dot v' v' < dot v v) ->
  forall a b, A a -> B b -> norm v <= norm (vsub a b).
Proof.
  intros HA HB Hv Hw (Hv' & Hmin) Hno.
  apply (gjk_stall_lower_bound A B v p q HA HB).
  destruct (Rle_dec (dot v v) (dot v (vsub p q))) as [H|H]; [exact H|exfalso].
  apply Rnot_le_lt in H.
  destruct (gjk_progress_possible v (vsub p q) H) as (t & Ht & Hlt).
  assert (Hseg : conv_hull Y1 (vadd (vscale (1 - t) v) (vscale t (vsub p q)))).
  { apply hull_segment; auto. apply hull_generator; auto. lra. }
  specialize (Hmin _ Hseg). lra.
Qed.

Lemma vneg_invol (x : V3R) : vneg (vneg x) = x.
Proof. vsimp. f_equal; ring. Qed.
Lemma dot_neg_neg (x : V3R) : dot (vneg x) (vneg x) = dot x x.
Proof. vsimp. ring. Qed.

(** ** the "no improvement" arm of [distance_step] *)
Lemma gcp_fail_inv (Y : list V3R) n prev :
  get_closest_point_to_origin Y n prev = GcpFail ->
  exists v' sx, ~ (dot v' v' < prev) /\
    forall prev', dot v' v' < prev' -> get_closest_point_to_origin Y n prev' = GcpOk v' (dot v' v') sx.
Proof.
  unfold get_closest_point_to_origin.
  match goal with |- context [match ?r with None => GcpErr | Some _ => _ end] => destruct r as [[vv ss]|] end;
    [|discriminate].
  destruct (ltb (dot vv vv) prev) eqn:E; [discriminate|]. intros _.
  exists vv, ss. split.
  - cbn [ltb ROps] in E. apply Rltb_false in E. lra.
  - intros prev' H. cbn [ltb ROps]. assert (Rltb (dot vv vv) prev' = true) as -> by (apply Rltb_true; exact H).
    reflexivity.
Qed.

(** If, in a state whose carried squared length is that of the search direction and equals the
    previous one (every state the loop continues from), the closest point v = -search_direction
    lies in the hull of the current rows, and the solver - whatever it returns for the enlarged
    simplex - returns a minimum-norm point of its hull (the property C18 is about: proved for the
    line and triangle arms, lattice-exhaustive for the tetrahedron), then the solver's "no
    improvement" verdict implies that |v|, the distance the loop is about to report, is a lower
    bound for every pair of points: the reported distance is EXACT (partial: the two hypotheses
    about the solver are not discharged here). *)
Theorem distance_step_stall_exact_partial (A B : set3) (p q : V3R) (s : @dstate R) :
  srows A B s -> dinv s -> prev_v_len_sq s = v_len_sq s ->
  is_support A (search_direction s) p -> is_support B (vneg (search_direction s)) q ->
  conv_hull (Ys s) (vneg (search_direction s)) ->
  (forall v' sx prev', get_closest_point_to_origin (Ys s ++ [vsub p q]) (length (Ys s ++ [vsub p q])) prev'
                       = GcpOk v' (dot v' v') sx -> min_norm_in_hull (Ys s ++ [vsub p q]) v') ->
  get_closest_point_to_origin (Ys s ++ [vsub p q]) (length (Ys s ++ [vsub p q])) (prev_v_len_sq s) = GcpFail ->
  forall a b, A a -> B b -> norm (search_direction s) <= norm (vsub a b).
Proof.
  intros Hr Hd Hp HA HB Hhull Hsolver Hfail a b Ha Hb.
  destruct (gcp_fail_inv _ _ _ Hfail) as (v' & sx & Hno & Hok).
  assert (Hlt : dot v' v' < dot v' v' + 1) by lra.
  specialize (Hsolver v' sx (dot v' v' + 1) (Hok _ Hlt)).
  set (v := vneg (search_direction s)).
  assert (Ed : search_direction s = vneg v) by (unfold v; rewrite vneg_invol; reflexivity).
  rewrite Ed in HA, HB.
  assert (Hvv : dot v v = prev_v_len_sq s).
  { rewrite Hp, Hd. unfold v. apply dot_neg_neg. }
  rewrite <- (norm_neg (search_direction s)). fold v.
  apply (stall_exact A B (Ys s ++ [vsub p q]) v v' p q HA HB); auto.
  - destruct Hhull as (ws & L & P & S & E).
    exists (ws ++ [0]). repeat split.
    + rewrite !app_length, L. reflexivity.
    + apply Forall_app. split; [exact P|constructor; [lra|constructor]].
    + assert (forall l, Convex.sum (l ++ [0]) = Convex.sum l) as -> by (induction l; cbn; lra). exact S.
    + fold v in E. rewrite E.
      assert (Hc : forall (l : list R) (Y : list V3R) y, length l = length Y -> comb (l ++ [0]) (Y ++ [y]) = comb l Y).
      { induction l as [|w l IH]; intros [|p0 Y] y Hl; try discriminate; cbn [app comb].
        - vsimp. f_equal; ring.
        - rewrite IH by (injection Hl; auto). reflexivity. }
      rewrite Hc; auto.
  - apply in_or_app. right. left. reflexivity.
  - rewrite Hvv. exact Hno.
Qed.
