(** * The traced Jolt solver (Model/Simplex.v) computes what the plain one computes.
    All plain sub-functions are projections of the traced ones by definition; only the
    top-level [get_closest_point_to_origin] is written out, so this is the one lemma needed. *)
From Coq Require Import List NArith.
From D3 Require Import Base.Ops Base.Vec Model.Simplex.
Import ListNotations.

Section Trace.
  Context {F : Type} {O : Ops F}.

  Lemma get_closest_point_to_origin_t_fst (Y : list (V3 F)) n prev :
    fst (get_closest_point_to_origin_t Y n prev) = get_closest_point_to_origin Y n prev.
  Proof.
    unfold get_closest_point_to_origin_t, get_closest_point_to_origin,
      closest_point_line, closest_point_triangle, closest_point_tetrahedron.
    destruct n as [|[|[|[|[|n]]]]]; try reflexivity;
      destruct Y as [|y0 [|y1 [|y2 [|y3 Y]]]]; try reflexivity.
    all: try (destruct (ltb _ _); reflexivity).
    all: try (match goal with |- context [closest_point_line_t ?a ?b] => destruct (closest_point_line_t a b) as [[v s] t] end;
              cbn [fst]; destruct (ltb _ _); reflexivity).
    all: try (match goal with |- context [closest_point_triangle_t ?a ?b ?c] => destruct (closest_point_triangle_t a b c) as [[v s] t] end;
              cbn [fst]; destruct (ltb _ _); reflexivity).
    all: try (match goal with |- context [closest_point_tetrahedron_t ?a ?b ?c ?d] => destruct (closest_point_tetrahedron_t a b c d) as [[v s] t] end;
              cbn [fst]; destruct (ltb _ _); reflexivity).
  Qed.
End Trace.
