(** * What the "False" exits of the libccd-derived boolean tests prove (model Model/GjkLibccd.v
      over the reals, ARBITRARY point sets A, B given only through support points).

    - [libccd_before_origin_exit_sound]: [_gjk]'s exit [dot(w, dir) < -sqrt(eps)] answers False and
      the sets are then disjoint;
    - [mpr_discovery_false_exits_bound]: every False of portal discovery comes with
      [dot(w, dir) < eps] for a support point w of A - B, hence every difference vector has a
      component below eps along the (unit or not) search direction: the sets overlap by less than
      eps along it (NOT: that they are disjoint — the threshold is +eps);
    - [mpr_refine_not_encapsulated_exit_sound]: the refinement exit
      [not _encapsulates_origin(v4, dir)] proves disjointness.
    NOT proved: anything about the True answers, about the exits that rest on simplex / portal
    geometry (degenerate simplex, |dir|^2 < eps, portal reach tolerance, iteration caps). *)
From Coq Require Import Reals Lra Psatz List Bool QArith Qreals.
From D3 Require Import Base.Ops Base.Vec Base.RVec Spec.Convex Model.DistPrim Model.GjkLibccd Proofs.JoltLoop.
Import ListNotations.
Local Open Scope R_scope.

Lemma EPS_pos : 0 < @EPS R ROps.
Proof. unfold EPS. cbn [cst ROps]. unfold Q2R. cbn. lra. Qed.
Lemma EPS_SQRT_pos : 0 < @EPS_SQRT R ROps.
Proof. unfold EPS_SQRT. cbn [cst ROps]. unfold Q2R. cbn. lra. Qed.

Section Sets.
  Variables A B : set3.

  (** a support pair bounds every difference vector along the direction *)
  Lemma diff_bound dir p q a b :
    is_support A dir p -> is_support B (vneg dir) q -> A a -> B b ->
    dot (vsub a b) dir <= dot (vsub p q) dir.
  Proof.
    intros HA HB Ha Hb. pose proof (support_pair_bound A B dir p q a b HA HB Ha Hb) as H.
    rewrite (dot_comm (vsub a b)), (dot_comm (vsub p q)). exact H.
  Qed.

  Theorem libccd_before_origin_exit_sound s dir p q :
    is_support A dir p -> is_support B (vneg dir) q ->
    EPS <= dot (vsub p q) (vsub p q) ->
    dot (vsub p q) dir < - EPS_SQRT ->
    gjk_step s dir p q = SAns false /\ ~ intersect A B.
  Proof.
    intros HA HB Hn Hlt. split.
    - unfold gjk_step. cbv zeta.
      assert (E1 : ltb (dot (vsub p q) (vsub p q)) EPS = false) by (cbn [ltb ROps]; apply Rltb_false; exact Hn).
      rewrite E1.
      assert (E2 : ltb (dot (vsub p q) dir) (opp EPS_SQRT) = true) by (cbn [ltb opp ROps]; apply Rltb_true; exact Hlt).
      rewrite E2. reflexivity.
    - intros (x & Ha & Hb). pose proof (diff_bound dir p q x x HA HB Ha Hb) as H.
      replace (vsub x x) with (@vzero R _) in H by (vsimp; f_equal; ring).
      assert (dot (@vzero R _) dir = 0) by (vsimp; ring).
      pose proof EPS_SQRT_pos. lra.
  Qed.

  (** the three False exits of portal discovery *)
  Theorem mpr_discovery_false_exits_bound max_it tol ph p q :
    (match ph with PRefine _ _ _ _ => False | _ => True end) ->
    is_support A (phase_dir ph) p -> is_support B (vneg (phase_dir ph)) q ->
    mpr_step max_it tol ph p q = MAns false ->
    forall a b, A a -> B b -> dot (vsub a b) (phase_dir ph) < EPS.
  Proof.
    intros Hph HA HB Hstep a b Ha Hb.
    pose proof (diff_bound _ p q a b HA HB Ha Hb) as Hd.
    destruct ph as [v0|v0 v1 dir|v0 v1 v2 dir it|v0 v1 v2 v3]; [| | |contradiction]; cbn [phase_dir] in *;
      revert Hstep; unfold mpr_step; cbv zeta.
    - destruct (any_nonzero (vsub p q) && ltb (dot (vsub p q) (norm_vector (vneg v0))) EPS) eqn:E.
      + intros _. apply andb_true_iff in E as (_ & E). cbn [ltb ROps] in E. apply Rltb_true in E. lra.
      + match goal with |- context [if ?c then _ else _] => destruct c end; intros H; discriminate H.
    - destruct (ltb (dot (vsub p q) dir) EPS) eqn:E.
      + intros _. cbn [ltb ROps] in E. apply Rltb_true in E. lra.
      + unfold start_discover. match goal with |- context [if ?c then _ else _] => destruct c end; intros H; discriminate H.
    - destruct (ltb (dot (vsub p q) dir) EPS) eqn:E.
      + intros _. cbn [ltb ROps] in E. apply Rltb_true in E. lra.
      + unfold enter_refine.
        repeat match goal with
               | |- context [if ?c then _ else _] => destruct c
               end; intros H; discriminate H.
  Qed.

  Theorem mpr_refine_not_encapsulated_exit_sound v0 v1 v2 v3 p q :
    is_support A (portal_dir v1 v2 v3) p -> is_support B (vneg (portal_dir v1 v2 v3)) q ->
    encapsulates_origin (vsub p q) (portal_dir v1 v2 v3) = false ->
    (forall max_it tol, mpr_step max_it tol (PRefine v0 v1 v2 v3) p q = MAns false) /\ ~ intersect A B.
  Proof.
    intros HA HB He. split.
    - intros max_it tol. unfold mpr_step. cbv zeta. rewrite He. reflexivity.
    - intros (x & Ha & Hb). pose proof (diff_bound _ p q x x HA HB Ha Hb) as H.
      replace (vsub x x) with (@vzero R _) in H by (vsimp; f_equal; ring).
      assert (dot (@vzero R _) (portal_dir v1 v2 v3) = 0) by (vsimp; ring).
      unfold encapsulates_origin in He. cbn [ltb opp mul ROps] in He. apply Rltb_false in He.
      pose proof EPS_pos as HE. unfold ten in He. cbn [cst ROps] in He.
      assert (H10 : Q2R (10 # 1) = 10) by (unfold Q2R; cbn; lra). rewrite H10 in He. nra.
  Qed.
End Sets.
