(** * Both simplex solvers are EXACT on every configuration of 1-3 points with coordinates in
      {-1, 0, 1} (and, Proofs/SimplexLattice4*.v, of 4 points) -- checked inside Coq.

    The models (Model/Simplex.v, Model/SimplexOrig.v) are run in exact rational arithmetic
    ([QOpsSF]: a plain instance of the same generic code; [Qred] and the integer fast path only
    change the representation of a rational, never its value) on all 27^k configurations by
    [vm_compute]; each result is accepted by the proven certificate [kkt_cert] with slack 0
    (Checker/Kkt.v), hence is the exact minimum-norm point of the hull, carried by the returned
    subset.  This covers every degeneracy (duplicates, collinear, coplanar) and every boundary
    between Voronoi regions, which the general theorems exclude or only bound. *)
From Coq Require Import List NArith ZArith QArith Qabs Qreals Reals Bool Lia.
From D3 Require Import Base.Ops Base.Vec Base.RVec Spec.Convex Spec.ConvexHull
  Model.Simplex Model.SimplexOrig Model.SimplexRun Checker.Kkt.
Import ListNotations.

(** ** the lattice *)
Definition lat1 : list Q := [(-1)%Q; 0%Q; 1%Q].
Definition lattice_pts : list (V3 Q) :=
  flat_map (fun x => flat_map (fun y => map (fun z => V x y z) lat1) lat1) lat1.
Fixpoint configs (k : nat) : list (list (V3 Q)) :=
  match k with
  | 0%nat => [[]]
  | S k' => flat_map (fun p => map (fun Y => p :: Y) (configs k')) lattice_pts
  end.

Lemma lattice_pts_spec p :
  In p lattice_pts <-> In (vx p) lat1 /\ In (vy p) lat1 /\ In (vz p) lat1.
Proof.
  unfold lattice_pts. rewrite in_flat_map. split.
  - intros (x & Hx & H). apply in_flat_map in H. destruct H as (y & Hy & H).
    apply in_map_iff in H. destruct H as (z & <- & Hz). cbn [vx vy vz]. auto.
  - intros (Hx & Hy & Hz). exists (vx p). split; auto. apply in_flat_map. exists (vy p). split; auto.
    apply in_map_iff. exists (vz p). split; auto. destruct p; reflexivity.
Qed.

Lemma configs_spec k Y :
  In Y (configs k) <-> length Y = k /\ Forall (fun p => In p lattice_pts) Y.
Proof.
  revert Y; induction k as [|k IH]; intros Y; cbn [configs].
  - split.
    + intros [<-|[]]. split; auto.
    + intros [H _]. destruct Y; [left; auto|discriminate].
  - rewrite in_flat_map. split.
    + intros (p & Hp & H). apply in_map_iff in H. destruct H as (Y' & <- & HY').
      apply IH in HY'. destruct HY' as [Hl HF]. split; [simpl; congruence|constructor; auto].
    + intros [Hl HF]. destruct Y as [|p Y']; [discriminate|].
      inversion HF; subst. exists p. split; auto. apply in_map_iff. exists Y'. split; auto.
      apply IH. split; auto.
Qed.

(** ** untrusted witness generator for the Jolt solver (which returns no weights):
       barycentric coordinates of [p] over affinely independent points, by Cramer's rule on their
       Gram matrix.  Whatever it returns is checked by [kkt_cert]. *)
Section Witness.
  Local Open Scope Q_scope.
  Definition qdet3 (a b c d e f g h i : Q) : Q := a * (e * i - f * h) - b * (d * i - f * g) + c * (d * h - e * g).
  Definition bary_weights (ps : list (V3 Q)) (p : V3 Q) : list Q :=
    match ps with
    | [p0] => [1]
    | [p0; p1] =>
      let e1 := qsub p1 p0 in let r := qsub p p0 in
      let t := Qred (qdot r e1 / qdot e1 e1) in [Qred (1 - t); t]
    | [p0; p1; p2] =>
      let e1 := qsub p1 p0 in let e2 := qsub p2 p0 in let r := qsub p p0 in
      let g11 := qdot e1 e1 in let g12 := qdot e1 e2 in let g22 := qdot e2 e2 in
      let b1 := qdot r e1 in let b2 := qdot r e2 in
      let D := g11 * g22 - g12 * g12 in
      let u := Qred ((b1 * g22 - g12 * b2) / D) in let v := Qred ((g11 * b2 - b1 * g12) / D) in
      [Qred (1 - u - v); u; v]
    | [p0; p1; p2; p3] =>
      let e1 := qsub p1 p0 in let e2 := qsub p2 p0 in let e3 := qsub p3 p0 in let r := qsub p p0 in
      let g11 := qdot e1 e1 in let g12 := qdot e1 e2 in let g13 := qdot e1 e3 in
      let g22 := qdot e2 e2 in let g23 := qdot e2 e3 in let g33 := qdot e3 e3 in
      let b1 := qdot r e1 in let b2 := qdot r e2 in let b3 := qdot r e3 in
      let D := qdet3 g11 g12 g13 g12 g22 g23 g13 g23 g33 in
      let u := Qred (qdet3 b1 g12 g13 b2 g22 g23 b3 g23 g33 / D) in
      let v := Qred (qdet3 g11 b1 g13 g12 b2 g23 g13 b3 g33 / D) in
      let w := Qred (qdet3 g11 g12 b1 g12 g22 b2 g13 g23 b3 / D) in
      [Qred (1 - u - v - w); u; v; w]
    | _ => []
    end.
End Witness.

(** ** the executable checks *)
(** the caller's "previous squared length": larger than every squared norm on the lattice (3) *)
Definition lat_prev : Q := 4.
Definition max_float_q : Q := Eval vm_compute in (@MAX_FLOAT Q QOpsSF).
Lemma max_float_q_eq : max_float_q = @MAX_FLOAT Q QOpsSF.
Proof. vm_compute. reflexivity. Qed.

Definition jolt_ok (m : Q) (Y : list (V3 Q)) : bool :=
  match jolt_q_with m lat_prev Y with
  | Some (p, s) =>
    let sub := bits_idx (length Y) s in
    match select Y sub with
    | Some ps => kkt_cert Y p sub (bary_weights ps p) 0
    | None => false
    end
  | None => false
  end.
Definition orig_ok (Y : list (V3 Q)) : bool :=
  match orig_q Y with
  | Some (p, w, ord) => kkt_cert Y p ord w 0
  | None => false
  end.

(** ** what acceptance means *)
Local Open Scope R_scope.
Definition jolt_exact (Y : list (V3 Q)) : Prop :=
  exists p s, jolt_q lat_prev Y = Some (p, s) /\
    is_min_norm (map Q2V Y) (Q2V p) /\
    exists ps, select Y (bits_idx (length Y) s) = Some ps /\ conv_hull (map Q2V ps) (Q2V p).

Definition orig_exact (Y : list (V3 Q)) : Prop :=
  exists p w ord, orig_q Y = Some (p, w, ord) /\
    is_min_norm (map Q2V Y) (Q2V p) /\
    exists ps, select Y ord = Some ps /\ conv_hull (map Q2V ps) (Q2V p) /\
      length w = length ps /\ Forall (fun x => 0 <= x) (map Q2R w) /\ sum (map Q2R w) = 1 /\
      Q2V p = comb (map Q2R w) (map Q2V ps).

Lemma jolt_ok_sound Y : jolt_ok max_float_q Y = true -> jolt_exact Y.
Proof.
  unfold jolt_ok. rewrite max_float_q_eq, jolt_q_with_eq.
  destruct (jolt_q lat_prev Y) as [[p s]|] eqn:E; [|discriminate].
  destruct (select Y (bits_idx (length Y) s)) as [ps|] eqn:Es; [|discriminate].
  intros H. destruct (kkt_cert_exact _ _ _ _ H) as (Hm & ps' & Es' & Hh).
  exists p, s. split; auto. split; auto. exists ps'. split; auto.
Qed.

Lemma orig_ok_sound Y : orig_ok Y = true -> orig_exact Y.
Proof.
  unfold orig_ok. destruct (orig_q Y) as [[[p w] ord]|] eqn:E; [|discriminate].
  intros H. destruct (kkt_cert_exact _ _ _ _ H) as (Hm & ps & Es & Hh).
  destruct (kkt_cert_weights _ _ _ _ _ H) as (ps' & Es' & Hl & Hn & Hs & Hc).
  rewrite Es in Es'. injection Es' as <-.
  exists p, w, ord. split; auto. split; auto. exists ps. repeat split; auto.
Qed.

(** ** k = 1, 2, 3: all 27 + 729 + 19683 configurations *)
Lemma jolt_lattice_123_check : forallb (jolt_ok max_float_q) (configs 1 ++ configs 2 ++ configs 3) = true.
Proof. vm_compute. reflexivity. Qed.
Lemma orig_lattice_123_check : forallb orig_ok (configs 1 ++ configs 2 ++ configs 3) = true.
Proof. vm_compute. reflexivity. Qed.

Lemma in_configs_123 k Y : (1 <= k <= 3)%nat -> In Y (configs k) -> In Y (configs 1 ++ configs 2 ++ configs 3).
Proof.
  intros Hk H. rewrite !in_app_iff.
  destruct k as [|[|[|[|k]]]].
  - exfalso. clear H. lia.
  - left. exact H.
  - right. left. exact H.
  - right. right. exact H.
  - exfalso. clear H. lia.
Qed.

Theorem jolt_lattice_exact k Y : (1 <= k <= 3)%nat -> In Y (configs k) -> jolt_exact Y.
Proof.
  intros Hk H. apply jolt_ok_sound.
  pose proof jolt_lattice_123_check as Hc. rewrite forallb_forall in Hc.
  apply Hc. eapply in_configs_123; eauto.
Qed.
Theorem orig_lattice_exact k Y : (1 <= k <= 3)%nat -> In Y (configs k) -> orig_exact Y.
Proof.
  intros Hk H. apply orig_ok_sound.
  pose proof orig_lattice_123_check as Hc. rewrite forallb_forall in Hc.
  apply Hc. eapply in_configs_123; eauto.
Qed.

(** ** k = 4 is split by the first point (Proofs/SimplexLattice4*.v) *)
Definition slice4 (ok : list (V3 Q) -> bool) (p0 : V3 Q) : bool :=
  forallb (fun p1 => forallb (fun p2 => forallb (fun p3 => ok [p0; p1; p2; p3]) lattice_pts) lattice_pts) lattice_pts.
(** the 27 first points in 9 groups of 3 (one file of Proofs/SimplexLat4*.v per group/solver) *)
Definition pts_group (i : nat) : list (V3 Q) := firstn 3 (skipn (3 * i) lattice_pts).
Lemma lattice_pts_split :
  lattice_pts = pts_group 0 ++ pts_group 1 ++ pts_group 2 ++ pts_group 3 ++ pts_group 4 ++
                pts_group 5 ++ pts_group 6 ++ pts_group 7 ++ pts_group 8.
Proof. reflexivity. Qed.

Lemma slice4_all ok :
  (forall i, (i < 9)%nat -> forallb (slice4 ok) (pts_group i) = true) ->
  forall Y, In Y (configs 4) -> ok Y = true.
Proof.
  intros Hg Y HY. apply configs_spec in HY. destruct HY as [Hl HF].
  destruct Y as [|p0 [|p1 [|p2 [|p3 [|? ?]]]]]; try discriminate.
  inversion HF as [|? ? H0 HF1]; subst. inversion HF1 as [|? ? H1 HF2]; subst.
  inversion HF2 as [|? ? H2 HF3]; subst. inversion HF3 as [|? ? H3 _]; subst.
  assert (Hs : slice4 ok p0 = true).
  { rewrite lattice_pts_split, !in_app_iff in H0.
    assert (Hi : forall i, (i < 9)%nat -> In p0 (pts_group i) -> slice4 ok p0 = true).
    { intros i Hi Hin. specialize (Hg i Hi). rewrite forallb_forall in Hg. auto. }
    repeat (destruct H0 as [H0|H0]; [eapply Hi; [|exact H0]; lia|]).
    eapply Hi; [|exact H0]; lia. }
  unfold slice4 in Hs. rewrite forallb_forall in Hs. specialize (Hs p1 H1).
  rewrite forallb_forall in Hs. specialize (Hs p2 H2).
  rewrite forallb_forall in Hs. exact (Hs p3 H3).
Qed.

(** non-vacuity: a genuinely degenerate configuration of the lattice *)
Example lattice_nonvacuous :
  In [V (-1) 0 1; V 0 0 0; V 1 0 (-1)]%Q (configs 3) /\ In [V 1 1 1; V 1 1 1]%Q (configs 2).
Proof.
  assert (Hin : forall x y z : Q, In x lat1 -> In y lat1 -> In z lat1 -> In (V x y z) lattice_pts)
    by (intros; apply lattice_pts_spec; auto).
  assert (Hm : In (-1)%Q lat1) by (left; reflexivity).
  assert (H0 : In 0%Q lat1) by (right; left; reflexivity).
  assert (H1 : In 1%Q lat1) by (right; right; left; reflexivity).
  split; apply configs_spec; (split; [reflexivity|]).
  - constructor; [apply Hin; assumption|]. constructor; [apply Hin; assumption|].
    constructor; [apply Hin; assumption|]. constructor.
  - constructor; [apply Hin; assumption|]. constructor; [apply Hin; assumption|]. constructor.
Qed.
