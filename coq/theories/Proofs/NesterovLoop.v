(** * What the exits of the Nesterov-accelerated GJK loop guarantee (model Model/NesterovLoop.v over
      the reals, for an ARBITRARY set D = A (-) B given only through the support pair of the pass).

    - [omega_lower_bound]: the quantity [omega = ray_dir . w / |ray_dir|] computed from a support point w of D
      for the direction [-ray_dir] is a lower bound of the distance of D from the origin;
    - [pass_omega_exit_sound]: the early exit [omega > upper_bound] returns such a lower bound;
    - [pass_converged_exit_partial]: at the convergence exit the returned [ray_len] is within the relative
      [tolerance] of the distance of D — GIVEN the two invariants of the loop (the current [ray] is a point of D
      of norm [ray_len]; [alpha] is a lower bound, i.e. a maximum of earlier omegas).  PARTIAL: that the three
      simplex projections preserve "ray is in D and is the closest point of the simplex" is not proved (they are
      tied to the code by the unit correspondence, and to the truth per input by the value certificates). *)
From Coq Require Import Reals Lra Psatz List Bool QArith Qreals.
From D3 Require Import Base.Ops Base.Vec Base.RVec Spec.Convex Model.DistPrim Model.Nesterov Model.NesterovLoop Proofs.Nesterov.
Import ListNotations.
Local Open Scope R_scope.

Section Loop.
  Variable D : set3.            (* the Minkowski difference of the two (core) sets *)

  (** w is a support point of D for the direction -rd *)
  Definition support_for (rd w : V3R) : Prop := forall x, D x -> dot x (vneg rd) <= dot w (vneg rd).

  Lemma omega_lower_bound rd w :
    0 < norm rd -> support_for rd w -> forall x, D x -> dot rd w / norm rd <= norm x.
  Proof.
    intros Hn Hs x Hx. specialize (Hs x Hx).
    assert (E1 : dot x (vneg rd) = - dot x rd) by (vsimp; ring).
    assert (E2 : dot w (vneg rd) = - dot w rd) by (vsimp; ring).
    rewrite E1, E2 in Hs.
    pose proof (cauchy_schwarz x rd) as HC.
    rewrite (dot_comm rd w).
    apply Rmult_le_reg_r with (norm rd); auto.
    unfold Rdiv. rewrite Rmult_assoc, Rinv_l by lra. lra.
  Qed.

  Definition omega_of (normalize : bool) (s : @nstate R) (s0 s1 : V3R) : R :=
    @div R ROps (dot (next_dir normalize s) (vsub s0 s1)) (norm (next_dir normalize s)).
  Lemma omega_of_lower normalize s s0 s1 :
    0 < norm (next_dir normalize s) -> support_for (next_dir normalize s) (vsub s0 s1) ->
    forall x, D x -> omega_of normalize s s0 s1 <= norm x.
  Proof. intros Hn Hs x Hx. unfold omega_of. cbn [div ROps]. apply omega_lower_bound; auto. Qed.

  (** the early exit returns a lower bound of the distance *)
  Theorem pass_omega_exit_sound normalize tol ub infl s s0 s1 om :
    0 < norm (next_dir normalize s) -> support_for (next_dir normalize s) (vsub s0 s1) ->
    pass normalize tol ub infl s s0 s1 = PDone (EOmega om) ->
    ub < om /\ forall x, D x -> om <= norm x.
  Proof.
    intros Hn Hs. unfold pass. cbv zeta.
    fold (omega_of normalize s s0 s1).
    destruct (ltb ub (omega_of normalize s s0 s1)) eqn:E.
    - intros H. inversion H; subst. cbn [ltb ROps] in E. apply Rltb_true in E. split; auto.
      intros x Hx. apply omega_of_lower; auto.
    - repeat match goal with
             | |- context [if ?c then _ else _] => destruct c
             | |- context [match ?c with Some _ => _ | None => _ end] => destruct c as [[[? ?] ?]|]
             | |- context [match ?c with [] => _ | _ :: _ => _ end] => destruct c
             end; intros H; try discriminate H.
  Qed.

  (** the convergence exit: relative accuracy [tol], given the loop invariants *)
  Theorem pass_converged_exit_partial normalize tol ub infl s s0 s1 rl :
    0 < norm (next_dir normalize s) -> support_for (next_dir normalize s) (vsub s0 s1) ->
    (exists x, D x /\ norm x <= ray_len s) ->          (* invariant: the current ray is a point of D of norm ray_len *)
    (forall x, D x -> alpha s <= norm x) ->            (* invariant: alpha is a lower bound *)
    pass normalize tol ub infl s s0 s1 = PDone (EConverged rl) ->
    rl = ray_len s /\
    (exists x, D x /\ norm x <= rl) /\ (forall x, D x -> rl - tol * rl <= norm x).
  Proof.
    intros Hn Hs Hray Halpha. unfold pass. cbv zeta.
    fold (omega_of normalize s s0 s1). set (om := omega_of normalize s s0 s1).
    destruct (ltb ub om); [intros H; discriminate H|].
    destruct (acc s && leb (sub (mul two (dot (ray s) (vsub (ray s) (vsub s0 s1)))) tol) zero); [intros H; discriminate H|].
    destruct ((0 <? it s)%nat && leb (sub (sub (ray_len s) (fmax (alpha s) om)) (mul tol (ray_len s))) zero) eqn:E.
    - destruct (acc s); [intros H; discriminate H|].
      intros H. inversion H; subst rl. split; auto. split; auto.
      apply andb_true_iff in E as (_ & E). cbn [leb sub mul zero ROps] in E. apply Rleb_true in E.
      rewrite fmax_R in E.
      intros x Hx.
      assert (Hom : om <= norm x) by (unfold om; apply omega_of_lower; auto).
      specialize (Halpha x Hx).
      assert (Rmax (alpha s) om <= norm x) by (apply Rmax_lub; auto).
      lra.
    - repeat match goal with
             | |- context [match ?c with Some _ => _ | None => _ end] => destruct c as [[[? ?] ?]|]
             | |- context [match ?c with [] => _ | _ :: _ => _ end] => destruct c
             | |- context [if ?c then _ else _] => destruct c
             end; intros H; try discriminate H.
  Qed.
End Loop.

(** ** non-vacuity: D = {(2,0,0)}, second pass of the plain loop with ray = (2,0,0): the support point is (2,0,0),
    omega = 2 = ray_len, the convergence check passes and the exit returns 2 *)
Definition ex_D : set3 := fun x => x = V 2 0 0.
Definition ex_state : @nstate R := NS [V 2 0 0] (V 2 0 0) 2 (V 2 0 0) (V 2 0 0) 0 1 false.

Lemma norm_200 : norm (V 2 0 0 : V3R) = 2.
Proof.
  unfold norm. vunfold. replace (2 * 2 + 0 * 0 + 0 * 0) with (2 * 2) by ring. apply sqrt_square. lra.
Qed.

Example converged_exit_example :
  0 < norm (next_dir false ex_state) /\
  support_for ex_D (next_dir false ex_state) (vsub (V 2 0 0) (V 0 0 0)) /\
  (exists x, ex_D x /\ norm x <= ray_len ex_state) /\
  (forall x, ex_D x -> alpha ex_state <= norm x) /\
  pass false (1 / 1000000) 1000000 0 ex_state (V 2 0 0) (V 0 0 0) = PDone (EConverged 2).
Proof.
  assert (Hd : next_dir false ex_state = V 2 0 0) by reflexivity.
  assert (Hw : vsub (V 2 0 0) (V 0 0 0) = (V 2 0 0 : V3R)) by (vunfold; f_equal; ring).
  rewrite Hd, Hw. split; [rewrite norm_200; lra|]. split.
  { intros x ->. lra. }
  split. { exists (V 2 0 0). split; [reflexivity|]. rewrite norm_200. cbn. lra. }
  split. { intros x ->. rewrite norm_200. cbn. lra. }
  unfold pass. cbv zeta. rewrite Hd, Hw.
  assert (Eo : @div R ROps (dot (V 2 0 0 : V3R) (V 2 0 0)) (norm (V 2 0 0 : V3R)) = 2).
  { rewrite norm_200. cbn [div ROps]. vunfold. field. }
  rewrite Eo.
  assert (E1 : ltb (1000000 : R) 2 = false) by (cbn [ltb ROps]; apply Rltb_false; lra).
  rewrite E1. cbn [acc ex_state andb it ray_len alpha].
  assert (E2 : fmax (0 : R) 2 = 2) by (rewrite fmax_R; unfold Rmax; destruct (Rle_dec 0 2); lra).
  rewrite E2.
  assert (E3 : leb (sub (sub (2 : R) 2) (mul (1 / 1000000) 2)) zero = true) by (cbn [leb sub mul zero ROps]; apply Rleb_true; lra).
  rewrite E3. reflexivity.
Qed.
