(** * center_of_mass_tetrahedral_mesh of the box / cube meshes is the centre of the box, for ALL
    sizes (C17): the first moment  sum_t 6vol_t * (a_t + b_t + c_t + d_t)  vanishes identically as a
    polynomial in the sizes (checked per topology class on the symbolic run). *)
From Coq Require Import List ZArith QArith Reals Lra Lia Bool.
From D3 Require Import Base.Ops Base.Vec Base.RVec Model.TetSym Gen.TetTables Model.TetMesh Model.TetMeshProc
                       Checker.TetMesh Proofs.TetMeshPoly Proofs.TetMeshBase Proofs.TetMeshSym Proofs.TetMeshBox
                       Proofs.TetMeshHelpers.
Import ListNotations.
Local Open Scope R_scope.

(** ** first moment (times 24) of an oriented mesh *)
Section Moment.
  Context {F : Type} {O : Ops F}.
  Local Open Scope ops_scope.
  Definition tet_mom (a b c d : V3 F) : V3 F := vscale (vol6 a b c d) (vadd (vadd (vadd a b) c) d).
  Fixpoint mom6 (vs : list (V3 F)) (ts : list tet) : option (V3 F) :=
    match ts with
    | [] => Some vzero
    | t :: r => match tet_points vs t, mom6 vs r with
                | Some (a, b, c, d), Some m => Some (vadd (tet_mom a b c d) m)
                | _, _ => None
                end
    end.
End Moment.

(** ** the centre of mass of a positively oriented mesh from its first moment *)
Lemma fold_wsum (l : list (R * V3 R)) (acc : V3 R) :
  fold_left (fun a vc => vadd (O := ROps) a (vscale (O := ROps) (fst vc) (snd vc))) l acc
  = vadd (O := ROps) acc (wsum l).
Proof.
  unfold wsum. revert acc; induction l as [|[v c] l IH]; intros acc; cbn [fold_left].
  - destruct acc as [a1 a2 a3]; unfold vadd, vzero; cbn. f_equal; ring.
  - rewrite (IH (vadd acc _)), (IH (vadd vzero _)). destruct acc as [a1 a2 a3], c as [c1 c2 c3].
    unfold vadd, vscale, vzero; cbn.
    set (w := fold_left _ l _). destruct w as [w1 w2 w3]. cbn. f_equal; ring.
Qed.

Lemma wsum_cons v c l : wsum ((v, c) :: l) = vadd (O := ROps) (vscale (O := ROps) v c) (wsum l).
Proof.
  unfold wsum at 1. cbn [fold_left]. rewrite fold_wsum. destruct c as [c1 c2 c3]. unfold vadd, vscale, vzero; cbn.
  destruct (wsum l) as [w1 w2 w3]. cbn. f_equal; ring.
Qed.

Theorem mesh_com_from_moment vs ts total m :
  tets_oriented 1 vs ts -> sum_vol6 1 vs ts = Some total -> mom6 (O := ROps) vs ts = Some m -> total <> 0 ->
  mesh_com (O := ROps) (mesh_tetpts vs ts) = vscale (O := ROps) (/ (4 * total)) m.
Proof.
  intros Ho Hs Hm Ht.
  assert (G : forall ts total m, tets_oriented 1 vs ts -> sum_vol6 1 vs ts = Some total -> mom6 (O := ROps) vs ts = Some m ->
              sumR (mesh_volumes (O := ROps) (mesh_tetpts vs ts)) = total / 6 /\
              wsum (combine (mesh_volumes (O := ROps) (mesh_tetpts vs ts)) (map (centroid (O := ROps)) (mesh_tetpts vs ts)))
              = vscale (O := ROps) (/ 24) m).
  { clear. induction ts as [|t r IH]; intros total m Ho Hs Hm.
    - cbn in *. inversion Hs; inversion Hm; subst. split; [unfold sumR; cbn; lra|].
      unfold wsum, vscale, vzero; cbn. f_equal; ring.
    - inversion Ho as [|? ? [v [Hv Hp]] Ho']; subst. cbn [sum_vol6 mom6] in Hs, Hm. rewrite Hv in Hs.
      unfold tet_vol6 in Hv. destruct (tet_points vs t) as [[[[a b] c] d]|] eqn:Ep; [|discriminate].
      assert (Ev : v = vol6 (O := ROps) a b c d) by congruence. subst v. clear Hv.
      destruct (sum_vol6 1 vs r) as [s|] eqn:Es; [|discriminate].
      destruct (mom6 (O := ROps) vs r) as [mr|] eqn:Em; [|discriminate].
      assert (Et : total = 1 * vol6 (O := ROps) a b c d + s) by congruence.
      assert (Emm : m = vadd (O := ROps) (tet_mom (O := ROps) a b c d) mr) by congruence. subst total m. clear Hs Hm.
      destruct (IH s mr Ho' eq_refl eq_refl) as [I1 I2].
      cbn [mesh_tetpts flat_map]. rewrite Ep. cbn [app mesh_volumes map combine].
      fold (mesh_tetpts vs r). fold (mesh_volumes (O := ROps) (mesh_tetpts vs r)).
      destruct (mesh_volume_spec a b c d) as [Evol _]. rewrite Rabs_pos_eq in Evol by lra.
      split.
      + rewrite sumR_cons, I1, Evol. lra.
      + rewrite wsum_cons, I2, Evol, centroid_spec.
        unfold tet_mom. destruct a as [a1 a2 a3], b as [b1 b2 b3], c as [c1 c2 c3], d as [d1 d2 d3], mr as [m1 m2 m3].
        unfold vadd, vscale; cbn [vx vy vz add mul ROps].
        f_equal; field. }
  destruct (G ts total m Ho Hs Hm) as [G1 G2].
  pose proof (mesh_com_spec (mesh_tetpts vs ts)) as C. cbv zeta in C. rewrite G1, G2 in C.
  assert (Hne : total / 6 <> 0) by (intros E; apply Ht; lra). specialize (C Hne).
  destruct (mesh_com (O := ROps) (mesh_tetpts vs ts)) as [x y z], m as [mx my mz].
  unfold vscale in *; cbn [vx vy vz mul ROps] in *. inversion C as [[Cx Cy Cz]].
  f_equal; apply (Rmult_eq_reg_l (total / 6)); try assumption; [rewrite Cx|rewrite Cy|rewrite Cz]; field; assumption.
Qed.

(** ** symbolic first moment and its soundness *)
Section SymMoment.
  Variable env : list R.
  Notation ev := (eval_pt env).

  Lemma ev_vadd a b : ev (vadd (O := POps) a b) = vadd (O := ROps) (ev a) (ev b).
  Proof. unfold eval_pt, vadd; cbn [vx vy vz]. now rewrite !peval_add. Qed.
  Lemma ev_vscale p a : ev (vscale (O := POps) p a) = vscale (O := ROps) (peval env p) (ev a).
  Proof. unfold eval_pt, vscale; cbn [vx vy vz]. now rewrite !peval_mul. Qed.

  Lemma ev_mom6 vs ts m :
    mom6 (O := POps) vs ts = Some m -> mom6 (O := ROps) (map ev vs) ts = Some (ev m).
  Proof.
    revert m; induction ts as [|t r IH]; intros m H; cbn [mom6] in *.
    - inversion H; subst. reflexivity.
    - rewrite (ev_tet_points env). destruct (tet_points vs t) as [[[[a b] c] d]|]; [|discriminate].
      destruct (mom6 (O := POps) vs r) as [mr|]; [|discriminate]. inversion H; subst.
      cbn [option_map ev_tet]. rewrite (IH mr eq_refl). f_equal.
      unfold tet_mom. rewrite ev_vadd, ev_vscale, !ev_vadd, (ev_vol6 env). reflexivity.
  Qed.
End SymMoment.

Definition chk_mom_zero (vs : list spoint) (ts : list tet) : bool :=
  match mom6 (O := POps) vs ts with
  | Some m => pzero (vx m) && pzero (vy m) && pzero (vz m)
  | None => false
  end.

Lemma chk_mom_zero_sound env vs ts :
  chk_mom_zero vs ts = true -> mom6 (O := ROps) (map (eval_pt env) vs) ts = Some (V 0 0 0).
Proof.
  unfold chk_mom_zero. destruct (mom6 (O := POps) vs ts) as [m|] eqn:E; [|discriminate].
  intros H. repeat (apply andb_true_iff in H as [H ?]).
  rewrite (ev_mom6 env vs ts m E). unfold eval_pt. f_equal.
  f_equal; apply pzero_sound; assumption.
Qed.

(** the finite computations: 7 box classes and the cube table *)
Local Strategy opaque [sym_box chk_mom_zero sym_cube_verts cube_elems box_core].

Lemma box_mom_ok dx dy dz :
  dx || dy || dz = true -> chk_mom_zero (mverts (sym_box dx dy dz)) (mtets (sym_box dx dy dz)) = true.
Proof. destruct dx, dy, dz; intros H; try discriminate H; vm_cast_no_check (eq_refl true). Qed.
Lemma cube_mom_ok : chk_mom_zero sym_cube_verts cube_elems = true.
Proof. vm_cast_no_check (eq_refl true). Qed.

(** ** the theorems *)
Lemma box_core_com dx dy dz (c1 c2 c3 e1 e2 e3 mh : R) :
  dx || dy || dz = true ->
  let env := [c1; c2; c3; e1; e2; e3] in
  env_pos env ->
  let hx := peval env (sym_h dx 0) in let hy := peval env (sym_h dy 1) in let hz := peval env (sym_h dz 2) in
  let cx := peval env (sym_c dx 0) in let cy := peval env (sym_c dy 1) in let cz := peval env (sym_c dz 2) in
  Rmin (hx - cx) (Rmin (hy - cy) (hz - cz)) = mh ->
  0 < hx * hy * hz ->
  let m := box_core (O := ROps) (V hx hy hz) (V cx cy cz) dx dy dz mh in
  mesh_com (O := ROps) (mesh_tetpts (mverts m) (mtets m)) = V 0 0 0.
Proof.
  intros Hd env Henv hx hy hz cx cy cz Hemin Hpos m.
  pose proof (box_mom_ok dx dy dz Hd) as MOK.
  pose proof (box_core_class dx dy dz c1 c2 c3 e1 e2 e3 mh Hd Henv Hemin) as CC.
  pose proof (box_core_sym dx dy dz c1 c2 c3 e1 e2 e3 mh) as CS.
  destruct CC as (A1 & A2 & _).
  fold env hx hy hz cx cy cz in A1, A2. fold m in A1, A2.
  cbv zeta in CS.
  fold env in CS. fold hx hy hz cx cy cz in CS. fold m in CS.
  set (svs := mverts (sym_box dx dy dz)) in *. set (sts := mtets (sym_box dx dy dz)) in *.
  clearbody svs sts. clearbody m.
  abstract (subst m;
  unfold mverts, mtets in A1, A2 |- *; cbn [fst snd] in A1, A2 |- *;
  pose proof (chk_mom_zero_sound env svs sts MOK) as M;
  rewrite (mesh_com_from_moment _ _ _ _ A1 A2 M);
  [ unfold vscale; cbn [vx vy vz mul ROps]; apply f_equal3; ring | lra ]).
Qed.

Theorem box_mesh_com_centre sx sy sz :
  0 < sx -> 0 < sy -> 0 < sz ->
  let m := box_mesh (O := ROps) sx sy sz in
  mesh_com (O := ROps) (mesh_tetpts (mverts m) (mtets m)) = V 0 0 0.
Proof.
  intros Hx Hy Hz m. unfold m.
  apply (box_mesh_elim (fun m => mesh_com (O := ROps) (mesh_tetpts (mverts m) (mtets m)) = V 0 0 0)); try assumption.
  intros dx dy dz c1 c2 c3 e1 e2 e3 env hx hy hz cx cy cz mh Hd Henv E1 E2 E3 Hemin.
  apply (box_core_com dx dy dz c1 c2 c3 e1 e2 e3 mh Hd Henv Hemin).
  fold env hx hy hz. rewrite E1, E2, E3.
  assert (0 < sx / 2 * (sy / 2)) by (apply Rmult_lt_0_compat; lra).
  apply Rmult_lt_0_compat; lra.
Qed.

Theorem cube_mesh_com_centre size :
  0 < size ->
  let m := cube_mesh (O := ROps) size in
  mesh_com (O := ROps) (mesh_tetpts (mverts m) (mtets m)) = V 0 0 0.
Proof.
  intros Hs m. destruct (cube_mesh_exact_tiling size Hs) as (A1 & A2 & _). fold m in A1, A2.
  unfold m in *. rewrite cube_mesh_sym in *. unfold mverts, mtets in *. cbn [fst snd] in *.
  pose proof (chk_mom_zero_sound [size / 2] _ _ cube_mom_ok) as M.
  (* orientation sign -1: the moment of the mirrored orientation *)
  assert (G : forall ts total mm,
             tets_oriented (-1) (map (eval_pt [size / 2]) sym_cube_verts) ts ->
             sum_vol6 (-1) (map (eval_pt [size / 2]) sym_cube_verts) ts = Some total ->
             mom6 (O := ROps) (map (eval_pt [size / 2]) sym_cube_verts) ts = Some mm ->
             sumR (mesh_volumes (O := ROps) (mesh_tetpts (map (eval_pt [size / 2]) sym_cube_verts) ts)) = total / 6 /\
             wsum (combine (mesh_volumes (O := ROps) (mesh_tetpts (map (eval_pt [size / 2]) sym_cube_verts) ts))
                           (map (centroid (O := ROps)) (mesh_tetpts (map (eval_pt [size / 2]) sym_cube_verts) ts)))
             = vscale (O := ROps) (- / 24) mm).
  { set (vs := map (eval_pt [size / 2]) sym_cube_verts). clear.
    induction ts as [|t r IH]; intros total mm Ho Hsum Hm.
    - cbn in *. inversion Hsum; inversion Hm; subst. split; [unfold sumR; cbn; lra|].
      unfold wsum, vscale, vzero; cbn. f_equal; ring.
    - inversion Ho as [|? ? [v [Hv Hp]] Ho']; subst. cbn [sum_vol6 mom6] in Hsum, Hm. rewrite Hv in Hsum.
      unfold tet_vol6 in Hv. destruct (tet_points vs t) as [[[[a b] c] d]|] eqn:Ep; [|discriminate].
      assert (Ev : v = vol6 (O := ROps) a b c d) by congruence. subst v. clear Hv.
      destruct (sum_vol6 (-1) vs r) as [s|] eqn:Es; [|discriminate].
      destruct (mom6 (O := ROps) vs r) as [mr|] eqn:Em; [|discriminate].
      assert (Et : total = -1 * vol6 (O := ROps) a b c d + s) by congruence.
      assert (Emm : mm = vadd (O := ROps) (tet_mom (O := ROps) a b c d) mr) by congruence. subst total mm. clear Hsum Hm.
      destruct (IH s mr Ho' eq_refl eq_refl) as [I1 I2].
      cbn [mesh_tetpts flat_map]. rewrite Ep. cbn [app mesh_volumes map combine].
      fold (mesh_tetpts vs r). fold (mesh_volumes (O := ROps) (mesh_tetpts vs r)).
      destruct (mesh_volume_spec a b c d) as [Evol _]. rewrite Rabs_left in Evol by lra.
      split.
      + rewrite sumR_cons, I1, Evol. lra.
      + rewrite wsum_cons, I2, Evol, centroid_spec.
        unfold tet_mom. destruct a as [a1 a2 a3], b as [b1 b2 b3], c as [c1 c2 c3], d as [d1 d2 d3], mr as [m1 m2 m3].
        unfold vadd, vscale; cbn [vx vy vz add mul ROps].
        f_equal; field. }
  destruct (G _ _ _ A1 A2 M) as [G1 G2].
  pose proof (mesh_com_spec (mesh_tetpts (map (eval_pt [size / 2]) sym_cube_verts) cube_elems)) as C.
  cbv zeta in C. rewrite G1, G2 in C.
  assert (Hne : 6 * (size * size * size) / 6 <> 0).
  { assert (0 < size * size * size) by (apply Rmult_lt_0_compat; [apply Rmult_lt_0_compat|]; assumption). lra. }
  specialize (C Hne).
  destruct (mesh_com (O := ROps) _) as [x y z].
  unfold vscale in C; cbn [vx vy vz mul ROps] in C. injection C as Cx Cy Cz.
  apply f_equal3.
  - apply (Rmult_eq_reg_l (6 * (size * size * size) / 6)); [|exact Hne]. rewrite Cx. cbn [vx vy vz]. field.
  - apply (Rmult_eq_reg_l (6 * (size * size * size) / 6)); [|exact Hne]. rewrite Cy. cbn [vx vy vz]. field.
  - apply (Rmult_eq_reg_l (6 * (size * size * size) / 6)); [|exact Hne]. rewrite Cz. cbn [vx vy vz]. field.
Qed.
