(** * Faces parallel to the contact plane (C15).

    [make_halfplanes] drops a face whose projected normal is (numerically) zero, so the
    halfplane layer does not constrain the polygon w.r.t. that face.  If the face is exactly
    parallel to the plane and X really is the barycentric transform of the tetrahedron, the
    plane-crossing pre-check guarantees that the whole contact plane lies strictly on the inner
    side of that face: [parallel_face_positive]. *)
From Coq Require Import Reals Lra List Bool Arith Lia.
From D3 Require Import Base.Ops Base.Vec Base.RVec Base.RVec2 Model.AabbTree Model.Hydro
     Proofs.HydroPlane Proofs.HydroPair.
Import ListNotations.
Local Open Scope R_scope.

(** X is the barycentric transform of t: row k applied to vertex j gives delta_kj *)
Definition is_bary (X : @M4 R) (t : @tetra R) : Prop :=
  let '(r0, r1, r2, r3) := X in let '(v0, v1, v2, v3) := t in
  aff r0 v0 = 1 /\ aff r0 v1 = 0 /\ aff r0 v2 = 0 /\ aff r0 v3 = 0 /\
  aff r1 v0 = 0 /\ aff r1 v1 = 1 /\ aff r1 v2 = 0 /\ aff r1 v3 = 0 /\
  aff r2 v0 = 0 /\ aff r2 v1 = 0 /\ aff r2 v2 = 1 /\ aff r2 v3 = 0 /\
  aff r3 v0 = 0 /\ aff r3 v1 = 0 /\ aff r3 v2 = 0 /\ aff r3 v3 = 1.

(** a vector orthogonal to x and y is a multiple of n = x cross y (|n| = 1) *)
Lemma parallel_to_normal (n x y f : V3R) :
  dot n n = 1 -> cross x y = n -> dot f x = 0 -> dot f y = 0 -> f = vscale (dot n f) n.
Proof.
  intros Hn Hxy Hfx Hfy.
  (* f x (x x y) = x (f.y) - y (f.x) = 0 ; f = n (n.f) + n x (f x n) *)
  assert (Hfn : cross f n = vzero).
  { rewrite <- Hxy. destruct f as [f1 f2 f3], x as [x1 x2 x3], y as [y1 y2 y3].
    unfold dot, cross, vzero in *. cbn [vx vy vz add sub mul zero ROps] in *.
    f_equal.
    - transitivity (x1 * (f1 * y1 + f2 * y2 + f3 * y3) - y1 * (f1 * x1 + f2 * x2 + f3 * x3)); [ring|]. rewrite Hfx, Hfy. ring.
    - transitivity (x2 * (f1 * y1 + f2 * y2 + f3 * y3) - y2 * (f1 * x1 + f2 * x2 + f3 * x3)); [ring|]. rewrite Hfx, Hfy. ring.
    - transitivity (x3 * (f1 * y1 + f2 * y2 + f3 * y3) - y3 * (f1 * x1 + f2 * x2 + f3 * x3)); [ring|]. rewrite Hfx, Hfy. ring. }
  destruct f as [f1 f2 f3], n as [n1 n2 n3].
  unfold dot, cross, vscale, vzero in *. cbn [vx vy vz add sub mul zero ROps] in *.
  injection Hfn as H1 H2 H3.
  f_equal.
  - transitivity (f1 * (n1 * n1 + n2 * n2 + n3 * n3)); [rewrite Hn; ring|].
    transitivity ((n1 * f1 + n2 * f2 + n3 * f3) * n1 + (n2 * (f1 * n2 - f2 * n1) - n3 * (f3 * n1 - f1 * n3))); [ring|].
    rewrite H3, H2. ring.
  - transitivity (f2 * (n1 * n1 + n2 * n2 + n3 * n3)); [rewrite Hn; ring|].
    transitivity ((n1 * f1 + n2 * f2 + n3 * f3) * n2 + (n3 * (f2 * n3 - f3 * n2) - n1 * (f1 * n2 - f2 * n1))); [ring|].
    rewrite H1, H3. ring.
  - transitivity (f3 * (n1 * n1 + n2 * n2 + n3 * n3)); [rewrite Hn; ring|].
    transitivity ((n1 * f1 + n2 * f2 + n3 * f3) * n3 + (n1 * (f3 * n1 - f1 * n3) - n2 * (f2 * n3 - f3 * n2))); [ring|].
    rewrite H2, H1. ring.
Qed.

Lemma fmin_cases (a b : R) : fmin a b = a \/ fmin a b = b.
Proof. unfold fmin. destruct (b <? a)%o; auto. Qed.
Lemma fmax_cases (a b : R) : fmax a b = a \/ fmax a b = b.
Proof. unfold fmax. destruct (a <? b)%o; auto. Qed.
Lemma min4_cases (a b c d : R) : min4 a b c d = a \/ min4 a b c d = b \/ min4 a b c d = c \/ min4 a b c d = d.
Proof.
  unfold min4. destruct (fmin_cases (fmin (fmin a b) c) d) as [->| ->]; auto.
  destruct (fmin_cases (fmin a b) c) as [->| ->]; auto.
  destruct (fmin_cases a b) as [->| ->]; auto.
Qed.
Lemma max4_cases (a b c d : R) : max4 a b c d = a \/ max4 a b c d = b \/ max4 a b c d = c \/ max4 a b c d = d.
Proof.
  unfold max4. destruct (fmax_cases (fmax (fmax a b) c) d) as [->| ->]; auto.
  destruct (fmax_cases (fmax a b) c) as [->| ->]; auto.
  destruct (fmax_cases a b) as [->| ->]; auto.
Qed.

(** an affine function alpha * s + c that is >= 0 at some s > 0 and some s < 0 and not
    identically zero-or-one-valued ... : the core sign argument *)
Lemma affine_positive (alpha c sp sm : R) :
  0 < sp -> sm < 0 -> 0 <= alpha * sp + c -> 0 <= alpha * sm + c -> (alpha = 0 -> 0 < c) -> 0 < c.
Proof.
  intros Hp Hm H1 H2 H0.
  destruct (Rtotal_order alpha 0) as [Ha|[Ha|Ha]]; [nra|auto|nra].
Qed.

Section Parallel.
  Variables (t : @tetra R) (X : @M4 R) (n x y : V3R) (d : R).
  Hypothesis Hn : dot n n = 1.
  Hypothesis Hxy : cross x y = n.
  Hypothesis HX : is_bary X t.
  (** the tetrahedron crosses the plane strictly on both sides (what the pre-check demands,
      with any positive tolerance) *)
  Hypothesis Hcross :
    let '(p0, p1, p2, p3) := plane_distances t n d in
    min4 p0 p1 p2 p3 < 0 /\ 0 < max4 p0 p1 p2 p3.

  Theorem parallel_face_positive (Xi : V4R) :
    In Xi (m4rows X) -> dot (xyz Xi) x = 0 -> dot (xyz Xi) y = 0 ->
    forall p, dot n p = d -> 0 < bary_row Xi p.
  Proof.
    intros HXi Hfx Hfy p Hp.
    pose proof (parallel_to_normal n x y (xyz Xi) Hn Hxy Hfx Hfy) as Hf.
    set (alpha := dot n (xyz Xi)) in *.
    (* the row is affine in the signed distance: aff Xi q = alpha * (n.q - d) + c *)
    set (c := alpha * d + c3 Xi).
    assert (Haff : forall q, aff Xi q = alpha * (dot n q - d) + c).
    { intros q. unfold aff, c. rewrite Hf, dot_scale_l. ring. }
    unfold bary_row. rewrite Haff, Hp. replace (alpha * (d - d) + c) with c by ring.
    destruct t as [[[v0 v1] v2] v3]. destruct X as [[[r0 r1] r2] r3].
    unfold plane_distances in Hcross. cbn [add sub ROps] in Hcross.
    replace (dot v0 n) with (dot n v0) in Hcross by apply dot_comm.
    replace (dot v1 n) with (dot n v1) in Hcross by apply dot_comm.
    replace (dot v2 n) with (dot n v2) in Hcross by apply dot_comm.
    replace (dot v3 n) with (dot n v3) in Hcross by apply dot_comm.
    remember (dot n v0 - d) as s0 eqn:Es0 in *. remember (dot n v1 - d) as s1 eqn:Es1 in *.
    remember (dot n v2 - d) as s2 eqn:Es2 in *. remember (dot n v3 - d) as s3 eqn:Es3 in *.
    destruct Hcross as [Hmin Hmax].
    unfold is_bary in HX.
    destruct HX as (A00 & A01 & A02 & A03 & A10 & A11 & A12 & A13 & A20 & A21 & A22 & A23 & A30 & A31 & A32 & A33).
    (* values of this row at the four vertices are 0 or 1, in particular >= 0, and one of them is 1 *)
    assert (Hvals : (0 <= alpha * s0 + c /\ 0 <= alpha * s1 + c /\ 0 <= alpha * s2 + c /\ 0 <= alpha * s3 + c) /\
                    (alpha = 0 -> 0 < c)).
    { cbn [m4rows In] in HXi.
      destruct HXi as [<-|[<-|[<-|[<-|[]]]]];
        rewrite ?Haff in *; rewrite <- ?Es0, <- ?Es1, <- ?Es2, <- ?Es3 in *;
        (split; [repeat split; lra|intros E; rewrite E in *; lra]). }
    destruct Hvals as [(H0 & H1 & H2 & H3) Hz].
    assert (Hm : exists sm, sm < 0 /\ 0 <= alpha * sm + c).
    { destruct (min4_cases s0 s1 s2 s3) as [E|[E|[E|E]]]; rewrite E in Hmin; eauto. }
    assert (HM : exists sp, 0 < sp /\ 0 <= alpha * sp + c).
    { destruct (max4_cases s0 s1 s2 s3) as [E|[E|[E|E]]]; rewrite E in Hmax; eauto. }
    destruct Hm as (sm & Hsm & Hvm). destruct HM as (sp & Hsp & Hvp).
    apply (affine_positive alpha c sp sm); auto.
  Qed.
End Parallel.
