(** * Jolt simplex solver, three points: [closest_point_triangle] (Model/Simplex.v over [ROps]).

    Non-degenerate branch ([|n|^2 >= EPSILON^2], [n] the normal the code computes): for ALL real
    inputs the result is the exact minimum-norm point of the triangle and the bit set names a
    subset of the vertices whose hull contains it -- each of the seven Voronoi arms satisfies
    the variational inequality [p.(y - p) >= 0] at every vertex, and the last arm (face
    interior) is only reached when the three barycentric numerators are positive
    ([tri_all_pos], the combinatorial heart: the six region tests leave nothing else).

    Degenerate branch: see [jolt_triangle_degenerate_partial]. *)
From Coq Require Import List NArith QArith Qreals Reals Lra Psatz Bool.
From D3 Require Import Base.Ops Base.Vec Base.RVec Spec.Convex Spec.ConvexHull Model.Simplex
  Proofs.SimplexLine.
Import ListNotations.
Local Open Scope R_scope.

(** ** scalar part: the region tests in terms of d1, d2 and the Gram matrix of (ab, ac) *)
(** core: origin's projection beyond the line AB on the A side cannot escape arms A, AC, C *)
Lemma tri_core (d1 d2 g11 g12 g22 : R) :
  0 < g11 -> 0 < g22 -> 0 < g11 * g22 - g12 * g12 ->
  d1 < 0 -> 0 < d2 -> g11 * d2 - g12 * d1 <= 0 ->
  ~ (g22 * d1 - g12 * d2 <= 0 /\ d2 - g22 <= 0) ->
  ~ (0 <= d2 - g22 /\ d1 - g12 <= d2 - g22) ->
  False.
Proof.
  intros Hg11 Hg22 HD H1 H2 Hvc HAC HC.
  assert (Hg : g12 < 0) by nra.
  destruct (Rlt_le_dec 0 (g22 * d1 - g12 * d2)) as [Hvb|Hvb].
  - (* vb > 0 *)
    assert (P0 : 0 < - d1 * d2) by nra.
    assert (P1 : (g11 * d2) * (g22 * (- d1)) <= (g12 * d1) * (g22 * (- d1))) by (apply Rmult_le_compat_r; nra).
    assert (P2 : (g22 * (- d1)) * (- g12 * d1) <= (- g12 * d2) * (- g12 * d1)) by (apply Rmult_le_compat_r; nra).
    (* g11 g22 d2 (-d1) <= g12 d1 g22 (-d1) = (-g12)(-d1) g22 (-d1) <= ... *)
    nra.
  - assert (H6 : 0 < d2 - g22) by (destruct (Rlt_le_dec 0 (d2 - g22)); [assumption|exfalso; apply HAC; lra]).
    assert (H5 : d2 - g22 < d1 - g12) by (destruct (Rlt_le_dec (d2 - g22) (d1 - g12)); [assumption|exfalso; apply HC; lra]).
    assert (Q1 : 0 < (- g12) * (- g12 - (d2 - g22) + d1)) by (apply Rmult_lt_0_compat; lra).
    assert (Q2 : 0 < (g11 - g12) * (d2 - g22)) by (apply Rmult_lt_0_compat; lra).
    nra.
Qed.

Lemma g_bc_pos g11 g12 g22 : 0 < g11 -> 0 < g22 -> 0 < g11 * g22 - g12 * g12 -> 0 < g11 - 2 * g12 + g22.
Proof.
  intros H1 H2 HD. destruct (Rlt_le_dec 0 (g11 - 2 * g12 + g22)) as [|H]; [assumption|exfalso].
  assert (Hs : (g11 + g22) * (g11 + g22) <= (2 * g12) * (2 * g12)) by (apply Rmult_le_compat; lra).
  pose proof (Rle_0_sqr (g11 - g22)) as Hq. unfold Rsqr in Hq. nra.
Qed.

Section Arms.
  Variables d1 d2 g11 g12 g22 : R.
  Definition aD := g11 * g22 - g12 * g12.
  Definition avc := g11 * d2 - g12 * d1.
  Definition avb := g22 * d1 - g12 * d2.
  Definition ava := aD - avb - avc.
  Definition armA := d1 <= 0 /\ d2 <= 0.
  Definition armB := 0 <= d1 - g11 /\ d2 - g12 <= d1 - g11.
  Definition armAB := avc <= 0 /\ 0 <= d1 /\ d1 - g11 <= 0.
  Definition armC := 0 <= d2 - g22 /\ d1 - g12 <= d2 - g22.
  Definition armAC := avb <= 0 /\ 0 <= d2 /\ d2 - g22 <= 0.
  Definition armBC := ava <= 0 /\ 0 <= (d2 - g12) - (d1 - g11) /\ 0 <= (d1 - g12) - (d2 - g22).
  Definition no_arm := ~ armA /\ ~ armB /\ ~ armAB /\ ~ armC /\ ~ armAC /\ ~ armBC.
End Arms.

Lemma tri_vc_pos d1 d2 g11 g12 g22 :
  0 < g11 -> 0 < g22 -> 0 < aD g11 g12 g22 -> no_arm d1 d2 g11 g12 g22 -> 0 < avc d1 d2 g11 g12.
Proof.
  unfold no_arm, armA, armB, armAB, armC, armAC, armBC, ava, avb, avc, aD.
  intros Hg11 Hg22 HD (HA & HB & HAB & HC & HAC & HBC).
  destruct (Rlt_le_dec 0 (g11 * d2 - g12 * d1)) as [|Hvc]; [assumption|exfalso].
  destruct (Rlt_le_dec d1 0) as [H1|H1].
  - assert (H2 : 0 < d2) by (destruct (Rlt_le_dec 0 d2); [assumption|exfalso; apply HA; lra]).
    apply (tri_core d1 d2 g11 g12 g22); auto.
    intros [h1 h2]. apply HAC. lra.
  - assert (H3 : 0 < d1 - g11) by (destruct (Rlt_le_dec 0 (d1 - g11)); [assumption|exfalso; apply HAB; lra]).
    assert (H4 : d1 - g11 < d2 - g12) by (destruct (Rlt_le_dec (d1 - g11) (d2 - g12)); [assumption|exfalso; apply HB; lra]).
    assert (Hg22' : 0 < g11 - 2 * g12 + g22) by (apply g_bc_pos; auto).
    apply (tri_core (g11 - d1) ((d2 - g12) - (d1 - g11)) g11 (g11 - g12) (g11 - 2 * g12 + g22)); auto; try lra.
    all: intros [h1 h2]; first [apply HBC; lra | apply HC; lra].
Qed.

Lemma no_arm_swap_bc d1 d2 g11 g12 g22 :
  no_arm d1 d2 g11 g12 g22 -> no_arm d2 d1 g22 g12 g11.
Proof.
  unfold no_arm, armA, armB, armAB, armC, armAC, armBC, ava, avb, avc, aD.
  intros (HA & HB & HAB & HC & HAC & HBC). repeat split; intros H.
  - apply HA; lra.
  - apply HC; lra.
  - apply HAC; lra.
  - apply HB; lra.
  - apply HAB; lra.
  - apply HBC; lra.
Qed.

(** relabel (a, b, c) -> (b, c, a) *)
Lemma no_arm_rot d1 d2 g11 g12 g22 :
  no_arm d1 d2 g11 g12 g22 ->
  no_arm ((d2 - g12) - (d1 - g11)) (g11 - d1) (g11 - 2 * g12 + g22) (g11 - g12) g11.
Proof.
  unfold no_arm, armA, armB, armAB, armC, armAC, armBC, ava, avb, avc, aD.
  intros (HA & HB & HAB & HC & HAC & HBC). repeat split; intros H.
  - apply HB; lra.
  - apply HC; lra.
  - apply HBC; lra.
  - apply HA; lra.
  - apply HAB; lra.
  - apply HAC; lra.
Qed.

Lemma tri_all_pos d1 d2 g11 g12 g22 :
  0 < g11 -> 0 < g22 -> 0 < aD g11 g12 g22 -> no_arm d1 d2 g11 g12 g22 ->
  0 < ava d1 d2 g11 g12 g22 /\ 0 < avb d1 d2 g12 g22 /\ 0 < avc d1 d2 g11 g12.
Proof.
  intros Hg11 Hg22 HD Hn. split; [|split].
  - pose proof (tri_vc_pos ((d2 - g12) - (d1 - g11)) (g11 - d1) (g11 - 2 * g12 + g22) (g11 - g12) g11) as H.
    unfold ava, avb, avc, aD in *.
    assert (0 < g11 - 2 * g12 + g22) by (apply g_bc_pos; auto).
    specialize (H H0 Hg11). 
    assert (E : 0 < (g11 - 2 * g12 + g22) * g11 - (g11 - g12) * (g11 - g12)) by lra.
    specialize (H E (no_arm_rot _ _ _ _ _ Hn)).
    match goal with |- 0 < ?x => match type of H with 0 < ?y => replace x with y by ring end end. exact H.
  - pose proof (tri_vc_pos d2 d1 g22 g12 g11 Hg22 Hg11) as H.
    unfold ava, avb, avc, aD in *.
    assert (E : 0 < g22 * g11 - g12 * g12) by lra.
    specialize (H E (no_arm_swap_bc _ _ _ _ _ Hn)). lra.
  - apply tri_vc_pos with (g22 := g22); auto.
Qed.

(** ** vector part *)
Lemma cross_ab_bc (a b c : V3R) : cross (vsub b a) (vsub c b) = cross (vsub b a) (vsub c a).
Proof. vsimp; f_equal; ring. Qed.

(** the six dot products of the code in terms of d1, d2 and the Gram entries *)
Lemma d3_eq (a b c : V3R) : dot (vsub b a) (vneg b) = dot (vsub b a) (vneg a) - dot (vsub b a) (vsub b a).
Proof. vsimp; ring. Qed.
Lemma d4_eq (a b c : V3R) : dot (vsub c a) (vneg b) = dot (vsub c a) (vneg a) - dot (vsub b a) (vsub c a).
Proof. vsimp; ring. Qed.
Lemma d5_eq (a b c : V3R) : dot (vsub b a) (vneg c) = dot (vsub b a) (vneg a) - dot (vsub b a) (vsub c a).
Proof. vsimp; ring. Qed.
Lemma d6_eq (a b c : V3R) : dot (vsub c a) (vneg c) = dot (vsub c a) (vneg a) - dot (vsub c a) (vsub c a).
Proof. vsimp; ring. Qed.
Lemma n_len_sq_eq (a b c : V3R) :
  dot (cross (vsub b a) (vsub c a)) (cross (vsub b a) (vsub c a)) =
  dot (vsub b a) (vsub b a) * dot (vsub c a) (vsub c a) - dot (vsub b a) (vsub c a) * dot (vsub b a) (vsub c a).
Proof. pose proof (lagrange (vsub b a) (vsub c a)). lra. Qed.

(** projection of the origin on the plane of the triangle, in barycentric form *)
Lemma face_point_bary (a b c : V3R) :
  let ab := vsub b a in let ac := vsub c a in
  let n := cross ab ac in
  let d1 := dot ab (vneg a) in let d2 := dot ac (vneg a) in
  let g11 := dot ab ab in let g12 := dot ab ac in let g22 := dot ac ac in
  vscale (dot a n) n =
  vadd (vadd (vscale (ava d1 d2 g11 g12 g22) a) (vscale (avb d1 d2 g12 g22) b)) (vscale (avc d1 d2 g11 g12) c).
Proof. unfold ava, avb, avc, aD. vsimp. f_equal; ring. Qed.

Lemma dot_n_b (a b c : V3R) : dot b (cross (vsub b a) (vsub c a)) = dot a (cross (vsub b a) (vsub c a)).
Proof. vsimp; ring. Qed.
Lemma dot_n_c (a b c : V3R) : dot c (cross (vsub b a) (vsub c a)) = dot a (cross (vsub b a) (vsub c a)).
Proof. vsimp; ring. Qed.

Definition tri_set_ok (s : N) : Prop :=
  s = 1%N \/ s = 2%N \/ s = 3%N \/ s = 4%N \/ s = 5%N \/ s = 6%N \/ s = 7%N.

(** what each arm has to deliver *)
Definition tri_exact (a b c p : V3R) (s : N) : Prop :=
  tri_set_ok s /\ conv_hull (update_simplex_y [a; b; c] 3 s) p /\ is_min_norm [a; b; c] p.

Lemma tri_exact_intro (a b c p : V3R) (s : N) :
  tri_set_ok s -> conv_hull (update_simplex_y [a; b; c] 3 s) p -> conv_hull [a; b; c] p ->
  dot p p <= dot p a -> dot p p <= dot p b -> dot p p <= dot p c -> tri_exact a b c p s.
Proof.
  intros Hs H1 H2 Ha Hb Hc. split; auto. split; auto. apply is_min_norm_of_kkt; auto.
  intros y [<-|[<-|[<-|[]]]]; auto.
Qed.

Lemma hull3_of_2ab (a b c : V3R) u v : 0 <= u -> 0 <= v -> u + v = 1 ->
  conv_hull [a; b; c] (vadd (vscale u a) (vscale v b)).
Proof.
  intros. replace (vadd (vscale u a) (vscale v b)) with (vadd (vadd (vscale u a) (vscale v b)) (vscale 0 c))
    by (vsimp; f_equal; ring). apply conv_hull_3; lra.
Qed.
Lemma hull3_of_2ac (a b c : V3R) u w : 0 <= u -> 0 <= w -> u + w = 1 ->
  conv_hull [a; b; c] (vadd (vscale u a) (vscale w c)).
Proof.
  intros. replace (vadd (vscale u a) (vscale w c)) with (vadd (vadd (vscale u a) (vscale 0 b)) (vscale w c))
    by (vsimp; f_equal; ring). apply conv_hull_3; lra.
Qed.
Lemma hull3_of_2bc (a b c : V3R) v w : 0 <= v -> 0 <= w -> v + w = 1 ->
  conv_hull [a; b; c] (vadd (vscale v b) (vscale w c)).
Proof.
  intros. replace (vadd (vscale v b) (vscale w c)) with (vadd (vadd (vscale 0 a) (vscale v b)) (vscale w c))
    by (vsimp; f_equal; ring). apply conv_hull_3; lra.
Qed.

Lemma three_val : @three R ROps = 3.
Proof. unfold three. cbn [cst ROps]. unfold Q2R. cbn [Qnum Qden]. lra. Qed.

(** ** the theorem for the non-degenerate branch *)
Theorem jolt_triangle_correct (a b c : V3R) :
  eps * eps <= dot (cross (vsub b a) (vsub c a)) (cross (vsub b a) (vsub c a)) ->
  let r := @closest_point_triangle R ROps a b c in
  tri_exact a b c (fst r) (snd r).
Proof.
  intros Hn. pose proof eps_pos as Heps.
  unfold closest_point_triangle, closest_point_triangle_t.
  rewrite eps_sqr. cbn [ltb leb ROps zero one add sub mul div opp].
  rewrite cross_ab_bc.
  rewrite (d3_eq a b c), (d4_eq a b c), (d5_eq a b c), (d6_eq a b c).
  set (ab := vsub b a) in *. set (ac := vsub c a) in *. set (bc := vsub c b).
  set (n := cross ab ac) in *.
  assert (En : (if Rltb (dot bc bc) (dot ac ac) then n else n) = n) by (destruct (Rltb _ _); reflexivity).
  rewrite En. clear En.
  set (nn := dot n n) in *.
  replace (Rltb nn (eps * eps)) with false by (symmetry; apply Rltb_false; lra).
  set (d1 := dot ab (vneg a)). set (d2 := dot ac (vneg a)).
  set (g11 := dot ab ab). set (g12 := dot ab ac). set (g22 := dot ac ac).
  assert (HD : nn = g11 * g22 - g12 * g12) by (apply n_len_sq_eq).
  assert (Hnn : 0 < nn) by nra.
  assert (Hg11 : 0 < g11).
  { pose proof (dot_self_nonneg ab). fold g11 in H. destruct (Req_dec g11 0) as [E|E]; [|lra].
    rewrite E in HD. nra. }
  assert (Hg22 : 0 < g22).
  { pose proof (dot_self_nonneg ac). fold g22 in H. destruct (Req_dec g22 0) as [E|E]; [|lra].
    rewrite E in HD. nra. }
  (* dot products with the vertices *)
  assert (Eab : dot a ab = - d1) by (unfold d1; vsimp; ring).
  assert (Eac : dot a ac = - d2) by (unfold d2; vsimp; ring).
  assert (Ebb : b = vadd a ab) by (unfold ab; vsimp; f_equal; ring).
  assert (Ecc : c = vadd a ac) by (unfold ac; vsimp; f_equal; ring).
  assert (Ebc : bc = vsub ac ab) by (unfold bc, ac, ab; vsimp; f_equal; ring).
  assert (Qb : forall q, dot q b = dot q a + dot q ab) by (intros q; unfold ab; rewrite dot_sub_r; ring).
  assert (Qc : forall q, dot q c = dot q a + dot q ac) by (intros q; unfold ac; rewrite dot_sub_r; ring).
  assert (Qbc : forall q, dot q c = dot q b + dot q bc) by (intros q; unfold bc; rewrite dot_sub_r; ring).
  (* arm A *)
  destruct (Rleb d1 0 && Rleb d2 0) eqn:EA.
  { apply andb_true_iff in EA. destruct EA as [E1 E2]. apply Rleb_true in E1, E2. cbn [fst snd].
    apply tri_exact_intro; [unfold tri_set_ok; auto|cbn; apply conv_hull_1|apply conv_hull_In; simpl; auto|lra| |].
    - rewrite Qb. lra.
    - rewrite Qc. lra. }
  (* arm B *)
  destruct (Rleb 0 (d1 - g11) && Rleb (d2 - g12) (d1 - g11)) eqn:EB.
  { apply andb_true_iff in EB. destruct EB as [E1 E2]. apply Rleb_true in E1, E2. cbn [fst snd].
    assert (Hba : dot b ab = g11 - d1) by (rewrite Ebb, dot_add_l; fold g11; lra).
    assert (Hbc : dot b ac = g12 - d2) by (rewrite Ebb, dot_add_l; fold g12; lra).
    apply tri_exact_intro; [unfold tri_set_ok; auto|cbn; apply conv_hull_1|apply conv_hull_In; simpl; auto| |lra|].
    - assert (dot b a = dot b b - dot b ab) by (unfold ab; rewrite dot_sub_r; ring). lra.
    - assert (dot b c = dot b b - dot b ab + dot b ac) by (unfold ab, ac; rewrite !dot_sub_r; ring). lra. }
  (* arm AB *)
  set (vc := d1 * (d2 - g12) - (d1 - g11) * d2).
  assert (Evc : vc = avc d1 d2 g11 g12) by (unfold vc, avc; ring).
  destruct (Rleb vc 0 && Rleb 0 d1 && Rleb (d1 - g11) 0) eqn:EAB.
  { apply andb_true_iff in EAB. destruct EAB as [E12 E3]. apply andb_true_iff in E12. destruct E12 as [E1 E2].
    apply Rleb_true in E1, E2, E3. cbn [fst snd].
    replace (d1 - (d1 - g11)) with g11 by ring.
    set (v := d1 / g11). set (p := vadd a (vscale v ab)).
    assert (Hv0 : 0 <= v) by (unfold v; apply Rmult_le_pos; [lra|left; apply Rinv_0_lt_compat; lra]).
    assert (Hv1 : v <= 1) by (unfold v; apply (Rmult_le_reg_r g11); [lra|]; unfold Rdiv; rewrite Rmult_assoc, Rinv_l; lra).
    assert (Hvg : v * g11 = d1) by (unfold v; field; lra).
    assert (Hp2 : p = vadd (vscale (1 - v) a) (vscale v b)) by (unfold p, ab; vsimp; f_equal; ring).
    assert (Hpab : dot p ab = 0) by (unfold p; rewrite dot_add_l, dot_scale_l; fold g11; lra).
    assert (Hpac : dot p ac = - vc / g11).
    { unfold p. rewrite dot_add_l, dot_scale_l. fold g12. unfold vc, v. rewrite Eac. field. lra. }
    assert (Hpp : dot p p = dot p a) by (unfold p at 2; rewrite dot_add_r, dot_scale_r; nra).
    apply tri_exact_intro; [unfold tri_set_ok; auto| | |lra| |].
    - cbn. rewrite Hp2. apply conv_hull_2; lra.
    - rewrite Hp2. apply hull3_of_2ab; lra.
    - rewrite Qb. lra.
    - rewrite Qc, Hpac.
      assert (0 <= - vc / g11) by (apply Rmult_le_pos; [lra|left; apply Rinv_0_lt_compat; lra]). lra. }
  (* arm C *)
  destruct (Rleb 0 (d2 - g22) && Rleb (d1 - g12) (d2 - g22)) eqn:EC.
  { apply andb_true_iff in EC. destruct EC as [E1 E2]. apply Rleb_true in E1, E2. cbn [fst snd].
    assert (Hca : dot c ab = g12 - d1) by (rewrite Ecc, dot_add_l; fold g12; rewrite (dot_comm ac ab); fold g12; lra).
    assert (Hcc : dot c ac = g22 - d2) by (rewrite Ecc, dot_add_l; fold g22; lra).
    apply tri_exact_intro; [unfold tri_set_ok; auto 10|cbn; apply conv_hull_1|apply conv_hull_In; simpl; auto| | |lra].
    - assert (dot c a = dot c c - dot c ac) by (unfold ac; rewrite dot_sub_r; ring). lra.
    - assert (dot c b = dot c c - dot c ac + dot c ab) by (unfold ab, ac; rewrite !dot_sub_r; ring). lra. }
  (* arm AC *)
  set (vb := (d1 - g12) * d2 - d1 * (d2 - g22)).
  assert (Evb : vb = avb d1 d2 g12 g22) by (unfold vb, avb; ring).
  destruct (Rleb vb 0 && Rleb 0 d2 && Rleb (d2 - g22) 0) eqn:EAC.
  { apply andb_true_iff in EAC. destruct EAC as [E12 E3]. apply andb_true_iff in E12. destruct E12 as [E1 E2].
    apply Rleb_true in E1, E2, E3. cbn [fst snd].
    replace (d2 - (d2 - g22)) with g22 by ring.
    set (w := d2 / g22). set (p := vadd a (vscale w ac)).
    assert (Hw0 : 0 <= w) by (unfold w; apply Rmult_le_pos; [lra|left; apply Rinv_0_lt_compat; lra]).
    assert (Hw1 : w <= 1) by (unfold w; apply (Rmult_le_reg_r g22); [lra|]; unfold Rdiv; rewrite Rmult_assoc, Rinv_l; lra).
    assert (Hwg : w * g22 = d2) by (unfold w; field; lra).
    assert (Hp2 : p = vadd (vscale (1 - w) a) (vscale w c)) by (unfold p, ac; vsimp; f_equal; ring).
    assert (Hpac : dot p ac = 0) by (unfold p; rewrite dot_add_l, dot_scale_l; fold g22; lra).
    assert (Hpab : dot p ab = - vb / g22).
    { unfold p. rewrite dot_add_l, dot_scale_l, (dot_comm ac ab). fold g12. unfold vb, w. rewrite Eab. field. lra. }
    assert (Hpp : dot p p = dot p a) by (unfold p at 2; rewrite dot_add_r, dot_scale_r; nra).
    apply tri_exact_intro; [unfold tri_set_ok; auto 10| | |lra| |].
    - cbn. rewrite Hp2. apply conv_hull_2; lra.
    - rewrite Hp2. apply hull3_of_2ac; lra.
    - rewrite Qb, Hpab.
      assert (0 <= - vb / g22) by (apply Rmult_le_pos; [lra|left; apply Rinv_0_lt_compat; lra]). lra.
    - rewrite Qc. lra. }
  (* arm BC *)
  set (va := (d1 - g11) * (d2 - g22) - (d1 - g12) * (d2 - g12)).
  assert (Eva : va = ava d1 d2 g11 g12 g22) by (unfold va, ava, avb, avc, aD; ring).
  set (d43 := d2 - g12 - (d1 - g11)). set (d56 := d1 - g12 - (d2 - g22)).
  assert (Hgbc : d43 + d56 = g11 - 2 * g12 + g22) by (unfold d43, d56; ring).
  assert (Hgbc0 : 0 < g11 - 2 * g12 + g22) by (apply g_bc_pos; auto; lra).
  destruct (Rleb va 0 && Rleb 0 d43 && Rleb 0 d56) eqn:EBC.
  { apply andb_true_iff in EBC. destruct EBC as [E12 E3]. apply andb_true_iff in E12. destruct E12 as [E1 E2].
    apply Rleb_true in E1, E2, E3. cbn [fst snd].
    set (gb := d43 + d56) in *.
    assert (Hgbe : gb = d43 + d56) by reflexivity.
    set (w := d43 / gb). set (p := vadd b (vscale w bc)).
    assert (Hw0 : 0 <= w) by (unfold w; apply Rmult_le_pos; [lra|left; apply Rinv_0_lt_compat; lra]).
    assert (Hw1 : w <= 1) by (unfold w; apply (Rmult_le_reg_r gb); [lra|]; unfold Rdiv; rewrite Rmult_assoc, Rinv_l; lra).
    assert (Hwg : w * gb = d43) by (unfold w; field; lra).
    assert (Hp2 : p = vadd (vscale (1 - w) b) (vscale w c)) by (unfold p, bc; vsimp; f_equal; ring).
    assert (Hbcbc : dot bc bc = gb) by (rewrite Ebc, dot_sub_l, !dot_sub_r, (dot_comm ac ab); fold g11 g12 g22; lra).
    assert (Hbab : dot b ab = g11 - d1) by (rewrite Ebb, dot_add_l; fold g11; lra).
    assert (Hbac : dot b ac = g12 - d2) by (rewrite Ebb, dot_add_l; fold g12; lra).
    assert (Hbbc : dot b bc = - d43) by (rewrite Ebc, dot_sub_r; unfold d43; lra).
    assert (Hpbc : dot p bc = 0) by (unfold p; rewrite dot_add_l, dot_scale_l, Hbcbc; lra).
    assert (Hbcab : dot bc ab = g12 - g11) by (rewrite Ebc, dot_sub_l, (dot_comm ac ab); fold g11 g12; lra).
    assert (Hpab : dot p ab = va / gb).
    { unfold p. rewrite dot_add_l, dot_scale_l, Hbab, Hbcab. unfold w, va, d43. unfold gb, d43, d56. field. lra. }
    assert (Hpp : dot p p = dot p b) by (unfold p at 2; rewrite dot_add_r, dot_scale_r; nra).
    apply tri_exact_intro; [unfold tri_set_ok; auto 10| | | |lra|].
    - cbn. rewrite Hp2. apply conv_hull_2; lra.
    - rewrite Hp2. apply hull3_of_2bc; lra.
    - replace (dot p a) with (dot p b - dot p ab) by (rewrite Qb; ring). rewrite Hpab.
      assert (va / gb <= 0).
      { unfold Rdiv. replace (va * / gb) with (- ((- va) * / gb)) by ring.
        assert (0 <= - va * / gb) by (apply Rmult_le_pos; [lra|left; apply Rinv_0_lt_compat; lra]). lra. }
      lra.
    - rewrite Qbc. lra. }
  (* face interior: all three numerators are positive *)
  cbn [fst snd].
  assert (Hno : no_arm d1 d2 g11 g12 g22).
  { unfold no_arm, armA, armB, armAB, armC, armAC, armBC. rewrite <- Evc, <- Evb, <- Eva.
    fold d43 d56.
    repeat split; intros H.
    - destruct H as [h1 h2]. apply Rleb_true in h1, h2. rewrite h1, h2 in EA. discriminate.
    - destruct H as [h1 h2]. apply Rleb_true in h1, h2. rewrite h1, h2 in EB. discriminate.
    - destruct H as [h1 [h2 h3]]. apply Rleb_true in h1, h2, h3. rewrite h1, h2, h3 in EAB. discriminate.
    - destruct H as [h1 h2]. apply Rleb_true in h1, h2. rewrite h1, h2 in EC. discriminate.
    - destruct H as [h1 [h2 h3]]. apply Rleb_true in h1, h2, h3. rewrite h1, h2, h3 in EAC. discriminate.
    - destruct H as [h1 [h2 h3]]. apply Rleb_true in h1, h2, h3. rewrite h1, h2, h3 in EBC. discriminate. }
  assert (HDa : 0 < aD g11 g12 g22) by (unfold aD; lra).
  destruct (tri_all_pos d1 d2 g11 g12 g22 Hg11 Hg22 HDa Hno) as (Hva & Hvb & Hvc).
  set (h := dot a n).
  assert (Hbn : dot b n = h) by apply dot_n_b.
  assert (Hcn : dot c n = h) by apply dot_n_c.
  set (p := vdivs (vscale (dot (vadd (vadd a b) c) n) n) (three * nn)).
  assert (Hp : p = vscale (h / nn) n).
  { unfold p. rewrite three_val. cbn [mul ROps]. rewrite !dot_add_l, Hbn, Hcn. fold h. generalize n. intros m. vsimp. f_equal; field; lra. }
  assert (Hsum : ava d1 d2 g11 g12 g22 + avb d1 d2 g12 g22 + avc d1 d2 g11 g12 = nn) by (unfold ava; rewrite HD; unfold aD; ring).
  assert (Hbary : p = vadd (vadd (vscale (ava d1 d2 g11 g12 g22 / nn) a) (vscale (avb d1 d2 g12 g22 / nn) b))
                           (vscale (avc d1 d2 g11 g12 / nn) c)).
  { rewrite Hp. pose proof (face_point_bary a b c) as Hf. cbv zeta in Hf.
    fold ab ac n d1 d2 g11 g12 g22 h in Hf.
    replace (vscale (h / nn) n) with (vscale (/ nn) (vscale h n)) by (generalize n; intros m; vsimp; f_equal; field; lra).
    rewrite Hf.
    generalize (ava d1 d2 g11 g12 g22) (avb d1 d2 g12 g22) (avc d1 d2 g11 g12). intros x y z.
    vsimp. f_equal; field; lra. }
  assert (Hinv : 0 < / nn) by (apply Rinv_0_lt_compat; lra).
  assert (Hhull : conv_hull [a; b; c] p).
  { rewrite Hbary. apply conv_hull_3.
    - apply Rmult_le_pos; lra.
    - apply Rmult_le_pos; lra.
    - apply Rmult_le_pos; lra.
    - replace (ava d1 d2 g11 g12 g22 / nn + avb d1 d2 g12 g22 / nn + avc d1 d2 g11 g12 / nn)
        with ((ava d1 d2 g11 g12 g22 + avb d1 d2 g12 g22 + avc d1 d2 g11 g12) / nn) by (field; lra).
      rewrite Hsum. field. lra. }
  assert (Hpy : forall y, dot y n = h -> dot p y = h * h / nn).
  { intros y Hy. rewrite Hp, dot_scale_l, (dot_comm n y), Hy. field. lra. }
  assert (Hpp : dot p p = h * h / nn).
  { rewrite Hp at 2. rewrite dot_scale_r, Hp, dot_scale_l. fold nn. field. lra. }
  apply tri_exact_intro; [unfold tri_set_ok; auto 10|cbn; exact Hhull|exact Hhull| | |].
  - rewrite Hpp, (Hpy a eq_refl). lra.
  - rewrite Hpp, (Hpy b Hbn). lra.
  - rewrite Hpp, (Hpy c Hcn). lra.
Qed.

(** ** the degenerate branch ([|n|^2 < EPSILON^2]): best of the three edges.
    PARTIAL: the result lies in the hull of the returned subset and is within EPSILON of the
    minimum over the three EDGES; nothing is claimed about interior points of the triangle
    (for an exactly degenerate triangle the edges are the whole hull, but a small
    non-degenerate triangle, edge < ~1.5e-8, also lands here: known finding C18-JOLT-EPS-ABS). *)
Lemma line_facts (a b : V3R) p s t :
  @closest_point_line_t R ROps a b = (p, s, t) ->
  (s = 1%N \/ s = 2%N \/ s = 3%N) /\ conv_hull (update_simplex_y [a; b] 2 s) p /\
  (forall x, conv_hull [a; b] x -> norm p <= norm x + eps).
Proof.
  intros E. pose proof (jolt_line_correct a b) as H. cbv zeta in H.
  unfold closest_point_line in H. rewrite E in H. cbn [fst snd] in H.
  destruct H as (H1 & H2 & _ & _ & H5). auto.
Qed.

Lemma norm_le_of_sq_le (p q : V3R) : dot p p <= dot q q -> norm p <= norm q.
Proof. apply norm_le_of_sq. Qed.

Theorem jolt_triangle_degenerate_partial (a b c : V3R) :
  dot (cross (vsub b a) (vsub c a)) (cross (vsub b a) (vsub c a)) < eps * eps ->
  let r := @closest_point_triangle R ROps a b c in
  tri_set_ok (snd r) /\
  conv_hull (update_simplex_y [a; b; c] 3 (snd r)) (fst r) /\
  conv_hull [a; b; c] (fst r) /\
  forall x, (conv_hull [a; b] x \/ conv_hull [a; c] x \/ conv_hull [b; c] x) ->
            norm (fst r) <= norm x + eps.
Proof.
  intros Hn.
  unfold closest_point_triangle, closest_point_triangle_t.
  rewrite eps_sqr. cbn [ltb leb ROps zero one add sub mul div opp].
  rewrite cross_ab_bc.
  set (n := cross (vsub b a) (vsub c a)) in *.
  assert (En : (if Rltb (dot (vsub c b) (vsub c b)) (dot (vsub c a) (vsub c a)) then n else n) = n)
    by (destruct (Rltb _ _); reflexivity).
  rewrite En. clear En.
  replace (Rltb (dot n n) (eps * eps)) with true by (symmetry; apply Rltb_true; exact Hn).
  destruct (closest_point_line_t a b) as [[p1 s1] t1] eqn:E1.
  destruct (closest_point_line_t a c) as [[p2 s2] t2] eqn:E2.
  destruct (closest_point_line_t b c) as [[p3 s3] t3] eqn:E3.
  destruct (line_facts _ _ _ _ _ E1) as (S1 & H1 & M1).
  destruct (line_facts _ _ _ _ _ E2) as (S2 & H2 & M2).
  destruct (line_facts _ _ _ _ _ E3) as (S3 & H3 & M3).
  (* hull facts for every possible bit set *)
  assert (Hab : forall x, conv_hull [a; b] x -> conv_hull [a; b; c] x)
    by (apply conv_hull_incl; intros v [<-|[<-|[]]]; simpl; auto).
  assert (Hac : forall x, conv_hull [a; c] x -> conv_hull [a; b; c] x)
    by (apply conv_hull_incl; intros v [<-|[<-|[]]]; simpl; auto).
  assert (Hbc : forall x, conv_hull [b; c] x -> conv_hull [a; b; c] x)
    by (apply conv_hull_incl; intros v [<-|[<-|[]]]; simpl; auto).
  assert (G1 : conv_hull [a; b; c] p1 /\ conv_hull (update_simplex_y [a; b; c] 3 s1) p1).
  { destruct S1 as [->|[->| ->]]; cbn in H1 |- *; split; auto;
      apply Hab; revert H1; apply conv_hull_incl; intros v Hv; simpl in *; tauto. }
  assert (G2 : conv_hull [a; b; c] p2 /\
               conv_hull (update_simplex_y [a; b; c] 3 (N.land s2 1 + N.shiftl (N.land s2 2) 1)) p2).
  { destruct S2 as [->|[->| ->]]; cbn in H2 |- *; split; auto;
      apply Hac; revert H2; apply conv_hull_incl; intros v Hv; simpl in *; tauto. }
  assert (G3 : conv_hull [a; b; c] p3 /\ conv_hull (update_simplex_y [a; b; c] 3 (N.shiftl s3 1)) p3).
  { destruct S3 as [->|[->| ->]]; cbn in H3 |- *; split; auto;
      apply Hbc; revert H3; apply conv_hull_incl; intros v Hv; simpl in *; tauto. }
  assert (K2 : tri_set_ok (N.land s2 1 + N.shiftl (N.land s2 2) 1))
    by (destruct S2 as [->|[->| ->]]; cbn; unfold tri_set_ok; auto 10).
  assert (K3 : tri_set_ok (N.shiftl s3 1))
    by (destruct S3 as [->|[->| ->]]; cbn; unfold tri_set_ok; auto 10).
  assert (K1 : tri_set_ok s1) by (destruct S1 as [->|[->| ->]]; unfold tri_set_ok; auto 10).
  destruct G1 as [G1a G1b]. destruct G2 as [G2a G2b]. destruct G3 as [G3a G3b].
  (* the two comparisons *)
  destruct (Rltb (dot p2 p2) (dot p1 p1)) eqn:C2; [apply Rltb_true in C2|apply Rltb_false in C2];
  [destruct (Rltb (dot p3 p3) (dot p2 p2)) eqn:C3|destruct (Rltb (dot p3 p3) (dot p1 p1)) eqn:C3];
  [apply Rltb_true in C3|apply Rltb_false in C3|apply Rltb_true in C3|apply Rltb_false in C3];
  cbn [fst snd]; (split; [assumption|]); (split; [assumption|]); (split; [assumption|]);
  intros x [Hx|[Hx|Hx]];
  match goal with
  | |- norm ?p <= _ =>
    pose proof (norm_le_of_sq_le p p1); pose proof (norm_le_of_sq_le p p2); pose proof (norm_le_of_sq_le p p3)
  end;
  try specialize (M1 x Hx); try specialize (M2 x Hx); try specialize (M3 x Hx); lra.
Qed.

(** ** the same for possibly collinear but pairwise distinct points (used by Proofs/SimplexOrigCand.v) *)
(** the region lemma for possibly collinear, pairwise distinct points: D >= 0 and all three edges > 0 *)
Lemma tri_core0 (d1 d2 g11 g12 g22 : R) :
  0 < g11 -> 0 < g22 -> 0 <= g11 * g22 - g12 * g12 ->
  d1 < 0 -> 0 < d2 -> g11 * d2 - g12 * d1 <= 0 ->
  ~ (g22 * d1 - g12 * d2 <= 0 /\ d2 - g22 <= 0) ->
  ~ (0 <= d2 - g22 /\ d1 - g12 <= d2 - g22) ->
  False.
Proof.
  intros Hg11 Hg22 HD H1 H2 Hvc HAC HC.
  assert (Hg : g12 < 0) by nra.
  destruct (Rlt_le_dec 0 (g22 * d1 - g12 * d2)) as [Hvb|Hvb].
  - assert (P0 : 0 < - d1 * d2) by nra.
    assert (P1 : (g11 * d2) * (g22 * (- d1)) <= (g12 * d1) * (g22 * (- d1))) by (apply Rmult_le_compat_r; nra).
    assert (P2 : (g22 * (- d1)) * (- g12 * d1) < (- g12 * d2) * (- g12 * d1)) by (apply Rmult_lt_compat_r; nra).
    nra.
  - assert (H6 : 0 < d2 - g22) by (destruct (Rlt_le_dec 0 (d2 - g22)); [assumption|exfalso; apply HAC; lra]).
    assert (H5 : d2 - g22 < d1 - g12) by (destruct (Rlt_le_dec (d2 - g22) (d1 - g12)); [assumption|exfalso; apply HC; lra]).
    assert (Q1 : 0 < (- g12) * (- g12 - (d2 - g22) + d1)) by (apply Rmult_lt_0_compat; lra).
    assert (Q2 : 0 < (g11 - g12) * (d2 - g22)) by (apply Rmult_lt_0_compat; lra).
    nra.
Qed.

Lemma tri_vc_pos0 d1 d2 g11 g12 g22 :
  0 < g11 -> 0 < g22 -> 0 < g11 - 2 * g12 + g22 -> 0 <= aD g11 g12 g22 -> no_arm d1 d2 g11 g12 g22 -> 0 < avc d1 d2 g11 g12.
Proof.
  unfold no_arm, armA, armB, armAB, armC, armAC, armBC, ava, avb, avc, aD.
  intros Hg11 Hg22 Hg22' HD (HA & HB & HAB & HC & HAC & HBC).
  destruct (Rlt_le_dec 0 (g11 * d2 - g12 * d1)) as [|Hvc]; [assumption|exfalso].
  destruct (Rlt_le_dec d1 0) as [H1|H1].
  - assert (H2 : 0 < d2) by (destruct (Rlt_le_dec 0 d2); [assumption|exfalso; apply HA; lra]).
    apply (tri_core0 d1 d2 g11 g12 g22); auto.
    intros [h1 h2]. apply HAC. lra.
  - assert (H3 : 0 < d1 - g11) by (destruct (Rlt_le_dec 0 (d1 - g11)); [assumption|exfalso; apply HAB; lra]).
    assert (H4 : d1 - g11 < d2 - g12) by (destruct (Rlt_le_dec (d1 - g11) (d2 - g12)); [assumption|exfalso; apply HB; lra]).
    apply (tri_core0 (g11 - d1) ((d2 - g12) - (d1 - g11)) g11 (g11 - g12) (g11 - 2 * g12 + g22)); auto; try lra.
    all: intros [h1 h2]; first [apply HBC; lra | apply HC; lra].
Qed.

Lemma tri_all_pos0 d1 d2 g11 g12 g22 :
  0 < g11 -> 0 < g22 -> 0 < g11 - 2 * g12 + g22 -> 0 <= aD g11 g12 g22 -> no_arm d1 d2 g11 g12 g22 ->
  0 < ava d1 d2 g11 g12 g22 /\ 0 < avb d1 d2 g12 g22 /\ 0 < avc d1 d2 g11 g12.
Proof.
  intros Hg11 Hg22 Hgbc HD Hn. split; [|split].
  - pose proof (tri_vc_pos0 ((d2 - g12) - (d1 - g11)) (g11 - d1) (g11 - 2 * g12 + g22) (g11 - g12) g11) as H.
    unfold ava, avb, avc, aD in *.
    specialize (H Hgbc Hg11).
    assert (E1 : 0 < g11 - 2 * g12 + g22 - 2 * (g11 - g12) + g11) by lra.
    assert (E : 0 <= (g11 - 2 * g12 + g22) * g11 - (g11 - g12) * (g11 - g12)) by lra.
    specialize (H E1 E (no_arm_rot _ _ _ _ _ Hn)).
    match goal with |- 0 < ?x => match type of H with 0 < ?y => replace x with y by ring end end. exact H.
  - pose proof (tri_vc_pos0 d2 d1 g22 g12 g11 Hg22 Hg11) as H.
    unfold ava, avb, avc, aD in *.
    assert (E1 : 0 < g22 - 2 * g12 + g11) by lra.
    assert (E : 0 <= g22 * g11 - g12 * g12) by lra.
    specialize (H E1 E (no_arm_swap_bc _ _ _ _ _ Hn)). lra.
  - apply tri_vc_pos0 with (g22 := g22); auto.
Qed.
