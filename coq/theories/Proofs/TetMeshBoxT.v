(** * make_tetrahedral_box and make_tetrahedral_cube: exact tiling for ALL sizes > 0 (C17).

    The model [box_core] (driven by the tables re-extracted from the source:
    [box_faces], [hex_rule], [box_n_corner]) is run symbolically, once per topology class
    (which central half-extents vanish: 7 reachable classes), on polynomial vertex
    coordinates in the positive parameters [c_i] (non-vanishing central half extents) and
    [e_i = h_i - c_i]; the symbolic checker of [TetMeshSym] then decides orientation, the
    volume sum, containment and pairwise separation by coefficient signs ([vm_compute]),
    and its soundness theorem gives the statement for every real value of the sizes. *)
From Coq Require Import List ZArith QArith Reals Lra Lia Bool.
From D3 Require Import Base.Ops Base.Vec Base.RVec Model.TetSym Gen.TetTables Model.TetMesh Checker.TetMesh
                       Proofs.TetMeshPoly Proofs.TetMeshBase Proofs.TetMeshSym.
Import ListNotations.
Import TetTables.

(** ** the symbolic run *)
Definition Cv (i : nat) : poly := pvar i.            (* c_x c_y c_z : variables 0 1 2 *)
Definition Ev (i : nat) : poly := pvar (3 + i).      (* e_x e_y e_z : variables 3 4 5 *)
Definition sym_h (d : bool) (i : nat) : poly := if d then Ev i else padd (Cv i) (Ev i).
Definition sym_c (d : bool) (i : nat) : poly := if d then [] else Cv i.

Definition sym_box (dx dy dz : bool) : @mesh poly :=
  box_core (O := POps) (V (sym_h dx 0) (sym_h dy 1) (sym_h dz 2))
           (V (sym_c dx 0) (sym_c dy 1) (sym_c dz 2)) dx dy dz [].

Definition is_pm (x h : poly) : bool := pzero (psub x h) || pzero (padd x h).
Definition is_at (hx hy hz : poly) (s : spoint) : bool :=
  is_pm (vx s) hx && is_pm (vy s) hy && is_pm (vz s) hz.

(** vertices below [box_n_corner] are corners (+-h), the others medial (+-c) *)
Fixpoint chk_kinds (dx dy dz : bool) (i : nat) (svs : list spoint) : bool :=
  match svs with
  | [] => true
  | s :: r => (if Nat.ltb i box_n_corner
               then is_at (sym_h dx 0) (sym_h dy 1) (sym_h dz 2) s
               else is_at (sym_c dx 0) (sym_c dy 1) (sym_c dz 2) s)
              && chk_kinds dx dy dz (S i) r
  end.

Definition box_class_ok (dx dy dz : bool) : bool :=
  let '(vs, ts, _) := sym_box dx dy dz in
  let hx := sym_h dx 0 in let hy := sym_h dy 1 in let hz := sym_h dz 2 in
  chk_oriented 1 vs ts &&
  chk_sum 1 vs ts (pscale [] 48 (pmul (pmul hx hy) hz)) &&
  chk_inbox hx hy hz vs &&
  chk_disjoint vs ts &&
  chk_kinds dx dy dz 0 vs.

(** the finite computation on the extracted tables: all 7 reachable classes *)
Lemma box_classes_ok dx dy dz : dx || dy || dz = true -> box_class_ok dx dy dz = true.
Proof. destruct dx, dy, dz; intros H; try discriminate H; vm_cast_no_check (eq_refl true). Qed.

(** ** the real run of [box_core] is the evaluation of the symbolic run *)
Local Open Scope R_scope.

Definition box_pots (mh : R) (n : nat) : list R :=
  map (fun idx => if Nat.ltb idx box_n_corner then 0 else mh) (seq 0 n).

Lemma box_core_sym dx dy dz (cx cy cz ex ey ez mh : R) :
  let env := [cx; cy; cz; ex; ey; ez] in
  box_core (O := ROps)
           (V (peval env (sym_h dx 0)) (peval env (sym_h dy 1)) (peval env (sym_h dz 2)))
           (V (peval env (sym_c dx 0)) (peval env (sym_c dy 1)) (peval env (sym_c dz 2))) dx dy dz mh
  = (map (eval_pt env) (fst (fst (sym_box dx dy dz))), snd (fst (sym_box dx dy dz)),
     box_pots mh (length (fst (fst (sym_box dx dy dz))))).
Proof.
  destruct dx, dy, dz; vm_compute; repeat f_equal; ring.
Qed.

(** ** real-number facts about the prologue of make_tetrahedral_box *)
Lemma Rmin3_eq a b c m :
  m <= a -> m <= b -> m <= c -> (a = m \/ b = m \/ c = m) -> Rmin a (Rmin b c) = m.
Proof. intros. unfold Rmin. destruct (Rle_dec b c); destruct (Rle_dec a _); lra. Qed.
Lemma Rmin3_facts a b c :
  0 < a -> 0 < b -> 0 < c ->
  let m := Rmin (Rmin a b) c in 0 < m /\ m <= a /\ m <= b /\ m <= c /\ (m = a \/ m = b \/ m = c).
Proof. intros. unfold m, Rmin. destruct (Rle_dec a b); destruct (Rle_dec _ c); lra. Qed.
Lemma half_R : @half R ROps = / 2.
Proof. unfold half. cbn. unfold Q2R. cbn. lra. Qed.
Lemma fmin_R a b : fmin (O := ROps) a b = Rmin a b.
Proof. unfold fmin, Rmin. cbn. unfold Rltb. destruct (Rlt_dec b a), (Rle_dec a b); lra. Qed.
Lemma fmax_R a b : fmax (O := ROps) a b = Rmax a b.
Proof. unfold fmax, Rmax. cbn. unfold Rltb. destruct (Rlt_dec a b), (Rle_dec a b); lra. Qed.
Lemma fpow2_pos k : 0 < fpow2 (O := ROps) k.
Proof. induction k; cbn in *; unfold two; cbn; lra. Qed.
Lemma lit_pos m k : (0 < m)%Z -> 0 < lit (O := ROps) m k.
Proof.
  intros H. unfold lit. cbn. unfold Q2R. cbn. apply IZR_lt in H.
  apply Rdiv_lt_0_compat; [lra | apply fpow2_pos].
Qed.

Lemma box_central_cases h mh tol :
  0 < tol -> mh <= h ->
  let c := box_central (O := ROps) h mh tol in
  (c = 0 /\ Reqb c 0 = true /\ h - c = h) \/ (0 < c /\ Reqb c 0 = false /\ h - c = mh).
Proof.
  intros Ht Hm. unfold box_central. cbn. unfold Rleb.
  destruct (Rle_dec (h - mh) tol) as [L|L].
  - left. repeat split; [apply Reqb_true; reflexivity | lra].
  - right. repeat split; [lra | apply Reqb_false; lra | lra].
Qed.

Lemma box_central_min h mh tol : 0 < tol -> h = mh -> box_central (O := ROps) h mh tol = 0.
Proof.
  intros Ht ->. unfold box_central. cbn. unfold Rleb. destruct (Rle_dec (mh - mh) tol); [reflexivity|lra].
Qed.

(** ** potentials: corner / medial vertices *)
Section Kinds.
  Variables (env : list R) (dx dy dz : bool) (mh : R).
  Let hx := peval env (sym_h dx 0). Let hy := peval env (sym_h dy 1). Let hz := peval env (sym_h dz 2).
  Let cx := peval env (sym_c dx 0). Let cy := peval env (sym_c dy 1). Let cz := peval env (sym_c dz 2).
  Hypothesis Hc : 0 <= cx /\ 0 <= cy /\ 0 <= cz.
  Hypothesis He : Rmin (hx - cx) (Rmin (hy - cy) (hz - cz)) = mh.
  Hypothesis Hh : 0 <= hx /\ 0 <= hy /\ 0 <= hz.

  Lemma is_pm_sound x h : 0 <= peval env h -> is_pm x h = true -> Rabs (peval env x) = peval env h.
  Proof.
    intros H0 H. unfold is_pm in H. apply orb_true_iff in H as [H|H]; apply (pzero_sound env) in H.
    - rewrite peval_psub in H. replace (peval env x) with (peval env h) by lra. now apply Rabs_pos_eq.
    - rewrite peval_padd in H. replace (peval env x) with (- peval env h) by lra.
      rewrite Rabs_Ropp. now apply Rabs_pos_eq.
  Qed.

  Definition pot_ok (p : V3 R) (q : R) : Prop := q = box_depth hx hy hz p /\ (q = 0 \/ q = mh).

  Lemma chk_kinds_sound i svs :
    chk_kinds dx dy dz i svs = true ->
    Forall2 pot_ok (map (eval_pt env) svs)
            (map (fun idx => if Nat.ltb idx box_n_corner then 0 else mh) (seq i (length svs))).
  Proof.
    revert i; induction svs as [|s r IH]; intros i H; cbn [chk_kinds map seq length] in *; [constructor|].
    apply andb_true_iff in H as [H1 H2]. constructor; [|apply IH; assumption].
    destruct Hc as (C1 & C2 & C3), Hh as (H1' & H2' & H3').
    unfold pot_ok, box_depth, eval_pt; cbn [vx vy vz].
    destruct (Nat.ltb i box_n_corner).
    - unfold is_at in H1. repeat (apply andb_true_iff in H1 as [H1 ?]).
      rewrite (is_pm_sound (vx s) (sym_h dx 0)), (is_pm_sound (vy s) (sym_h dy 1)),
              (is_pm_sound (vz s) (sym_h dz 2)); try assumption.
      fold hx hy hz. replace (hx - hx) with 0 by lra. replace (hy - hy) with 0 by lra.
      replace (hz - hz) with 0 by lra. split; [|left; reflexivity].
      symmetry. apply Rmin3_eq; lra.
    - unfold is_at in H1. repeat (apply andb_true_iff in H1 as [H1 ?]).
      rewrite (is_pm_sound (vx s) (sym_c dx 0)), (is_pm_sound (vy s) (sym_c dy 1)),
              (is_pm_sound (vz s) (sym_c dz 2)); try assumption.
      fold cx cy cz. split; [symmetry; exact He | right; reflexivity].
  Qed.
End Kinds.

(** ** per class: the claims for the evaluation of the symbolic run *)
Lemma box_core_class dx dy dz (c1 c2 c3 e1 e2 e3 mh : R) :
  dx || dy || dz = true ->
  let env := [c1; c2; c3; e1; e2; e3] in
  env_pos env ->
  let hx := peval env (sym_h dx 0) in let hy := peval env (sym_h dy 1) in let hz := peval env (sym_h dz 2) in
  let cx := peval env (sym_c dx 0) in let cy := peval env (sym_c dy 1) in let cz := peval env (sym_c dz 2) in
  Rmin (hx - cx) (Rmin (hy - cy) (hz - cz)) = mh ->
  let '(vs, ts, ps) := box_core (O := ROps) (V hx hy hz) (V cx cy cz) dx dy dz mh in
  tets_oriented 1 vs ts /\
  sum_vol6 1 vs ts = Some (48 * (hx * hy * hz)) /\
  verts_in_box hx hy hz vs /\
  interiors_disjoint vs ts /\
  Forall2 (fun p q => q = box_depth hx hy hz p /\ (q = 0 \/ q = mh)) vs ps.
Proof.
  intros Hd env Henv hx hy hz cx cy cz Hemin.
  assert (Hc : 0 <= cx /\ 0 <= cy /\ 0 <= cz /\ 0 <= hx /\ 0 <= hy /\ 0 <= hz).
  { inversion Henv as [|? ? P1 Q1]; inversion Q1 as [|? ? P2 Q2]; inversion Q2 as [|? ? P3 Q3];
    inversion Q3 as [|? ? P4 Q4]; inversion Q4 as [|? ? P5 Q5]; inversion Q5 as [|? ? P6 Q6]; subst.
    unfold cx, cy, cz, hx, hy, hz, env, sym_c, sym_h. destruct dx, dy, dz; cbn; repeat split; lra. }
  pose proof (box_classes_ok dx dy dz Hd) as OK.
  pose proof (box_core_sym dx dy dz c1 c2 c3 e1 e2 e3 mh) as CS. cbv zeta in CS.
  fold env in CS. fold hx hy hz cx cy cz in CS. rewrite CS. clear CS.
  unfold box_class_ok in OK.
  destruct (sym_box dx dy dz) as [[svs sts] sps]. cbn [fst snd].
  repeat (apply andb_true_iff in OK as [OK ?]).
  repeat split.
  - apply (chk_oriented_sound env Henv 1). assumption.
  - rewrite (chk_sum_sound env 1 svs sts _ H2). f_equal.
    rewrite peval_pscale0, !peval_pmul. reflexivity.
  - apply (chk_inbox_sound env Henv). assumption.
  - apply (chk_disjoint_sound env Henv). assumption.
  - unfold box_pots. apply (chk_kinds_sound env dx dy dz mh); try assumption; tauto.
Time Qed.

