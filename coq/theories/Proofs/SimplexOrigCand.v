From Coq Require Import List NArith QArith Reals Lra Psatz Bool Lia.
From D3 Require Import Base.Ops Base.Vec Base.RVec Spec.Convex Spec.ConvexHull Model.SimplexOrig
  Proofs.SimplexTriangle Proofs.SimplexOrig.
Import ListNotations.
Local Open Scope R_scope.

(** * Johnson's candidates of a triangle and the key lemma [tri_cand_exists]: for ANY three real
      points (collinear, duplicates included) one of the seven candidates -- a vertex, an ELIGIBLE
      segment projection (both cofactors > 0) or the ELIGIBLE face projection (all three cofactors
      > 0) -- lies in the triangle and satisfies the variational inequality at all three vertices,
      hence is a minimum-norm point of the triangle.  Used for the original solver's backup
      procedure on 3 points (Proofs/SimplexOrigFace.v) and on the faces of 4 points
      (Proofs/SimplexOrigTetra.v). *)

(** ** Johnson's candidates of a triangle (a, b, c), written with the model's own formulas *)
(** segment (p, q): the weight of [p] is [q.q - q.p], that of [q] is [p.p - q.p] *)
Definition seg_wp (p q : V3R) : R := dot q q - dot q p.
Definition seg_wq (p q : V3R) : R := dot p p - dot q p.
Definition seg_el (p q : V3R) : Prop := 0 < seg_wp p q /\ 0 < seg_wq p q.
Definition seg_v (p q : V3R) : V3R :=
  let b0 := seg_wp p q / (seg_wp p q + seg_wq p q) in vadd (vscale b0 p) (vscale (1 - b0) q).

(** face: the cofactors in the variables of the triangle lemma *)
Definition fd1 (a b c : V3R) : R := dot a a - dot b a.
Definition fd2 (a b c : V3R) : R := dot a a - dot c a.
Definition fg11 (a b c : V3R) : R := dot b b - 2 * dot b a + dot a a.
Definition fg12 (a b c : V3R) : R := dot c b - dot b a - dot c a + dot a a.
Definition fg22 (a b c : V3R) : R := dot c c - 2 * dot c a + dot a a.
Definition fva (a b c : V3R) : R := ava (fd1 a b c) (fd2 a b c) (fg11 a b c) (fg12 a b c) (fg22 a b c).
Definition fvb (a b c : V3R) : R := avb (fd1 a b c) (fd2 a b c) (fg12 a b c) (fg22 a b c).
Definition fvc (a b c : V3R) : R := avc (fd1 a b c) (fd2 a b c) (fg11 a b c) (fg12 a b c).
Definition face_el (a b c : V3R) : Prop := 0 < fva a b c /\ 0 < fvb a b c /\ 0 < fvc a b c.
Definition face_v (a b c : V3R) : V3R :=
  let s := fva a b c + fvb a b c + fvc a b c in
  let b0 := fva a b c / s in let b1 := fvb a b c / s in let b2 := 1 - (b0 + b1) in
  vadd (vadd (vscale b0 a) (vscale b1 b)) (vscale b2 c).

Definition cand_of (a b c v : V3R) : Prop :=
  v = a \/ v = b \/ v = c \/ (seg_el a b /\ v = seg_v a b) \/ (seg_el a c /\ v = seg_v a c) \/
  (seg_el c b /\ v = seg_v c b) \/ (face_el a b c /\ v = face_v a b c).

Definition kkt3 (a b c v : V3R) : Prop :=
  conv_hull [a; b; c] v /\ dot v v <= dot v a /\ dot v v <= dot v b /\ dot v v <= dot v c.

Lemma dec_and (P Q : Prop) : {P} + {~ P} -> {Q} + {~ Q} -> {P /\ Q} + {~ (P /\ Q)}.
Proof. intros [p|p] [q|q]; [left; auto|right; tauto|right; tauto|right; tauto]. Qed.
Lemma arm_dec (P : Prop) : {P} + {~ P} -> P \/ ~ P.
Proof. intros [p|p]; auto. Qed.

Theorem tri_cand_exists (a b c : V3R) : exists v, cand_of a b c v /\ kkt3 a b c v.
Proof.
  set (g11 := dot (vsub b a) (vsub b a)). set (g12 := dot (vsub b a) (vsub c a)).
  set (g22 := dot (vsub c a) (vsub c a)).
  assert (HD : 0 <= g11 * g22 - g12 * g12).
  { pose proof (cauchy_schwarz_sq (vsub b a) (vsub c a)) as H. fold g11 g12 g22 in H. lra. }
  assert (Hg11n : 0 <= g11) by apply dot_self_nonneg.
  assert (Hg22n : 0 <= g22) by apply dot_self_nonneg.
  set (t00 := dot a a). set (t10 := dot b a). set (t11 := dot b b).
  set (t20 := dot c a). set (t21 := dot c b). set (t22 := dot c c).
  set (d1 := t00 - t10). set (d2 := t00 - t20).
  assert (G11 : g11 = t11 - 2 * t10 + t00) by (unfold g11, t11, t10, t00; vsimp; ring).
  assert (G12 : g12 = t21 - t10 - t20 + t00) by (unfold g12, t21, t10, t20, t00; vsimp; ring).
  assert (G22 : g22 = t22 - 2 * t20 + t00) by (unfold g22, t22, t20, t00; vsimp; ring).
  assert (Gbc : g11 - 2 * g12 + g22 = dot (vsub c b) (vsub c b)) by (unfold g11, g12, g22; vsimp; ring).
  assert (Hgbcn : 0 <= g11 - 2 * g12 + g22) by (rewrite Gbc; apply dot_self_nonneg).
  assert (Eab : dot a b = t10) by (unfold t10; apply dot_comm).
  assert (Eac : dot a c = t20) by (unfold t20; apply dot_comm).
  assert (Ebc : dot b c = t21) by (unfold t21; apply dot_comm).
  assert (F1 : fd1 a b c = d1) by reflexivity. assert (F2 : fd2 a b c = d2) by reflexivity.
  assert (F11 : fg11 a b c = g11) by (rewrite G11; reflexivity).
  assert (F12 : fg12 a b c = g12) by (rewrite G12; reflexivity).
  assert (F22 : fg22 a b c = g22) by (rewrite G22; reflexivity).
  assert (Ha : conv_hull [a; b; c] a) by (apply conv_hull_In; simpl; auto).
  assert (Hb : conv_hull [a; b; c] b) by (apply conv_hull_In; simpl; auto).
  assert (Hc : conv_hull [a; b; c] c) by (apply conv_hull_In; simpl; auto).
  (* vertices *)
  assert (KA : d1 <= 0 -> d2 <= 0 -> exists v, cand_of a b c v /\ kkt3 a b c v).
  { intros h1 h2. exists a. split; [left; reflexivity|]. split; auto. fold t00. rewrite Eab, Eac. unfold d1, d2 in *. lra. }
  assert (KB : 0 <= d1 - g11 -> d2 - g12 <= d1 - g11 -> exists v, cand_of a b c v /\ kkt3 a b c v).
  { intros h1 h2. exists b. split; [right; left; reflexivity|]. split; auto. fold t11 t10. rewrite Ebc.
    unfold d1, d2 in *. rewrite G11 in h1, h2. rewrite G12 in h2. lra. }
  assert (KC : 0 <= d2 - g22 -> d1 - g12 <= d2 - g22 -> exists v, cand_of a b c v /\ kkt3 a b c v).
  { intros h1 h2. exists c. split; [right; right; left; reflexivity|]. split; auto. fold t22 t20 t21.
    unfold d1, d2 in *. rewrite G22 in h1, h2. rewrite G12 in h2. lra. }
  (* segment ab *)
  assert (KAB : 0 < g11 -> avc d1 d2 g11 g12 <= 0 -> 0 < d1 -> d1 - g11 < 0 -> exists v, cand_of a b c v /\ kkt3 a b c v).
  { intros Hg11 hv h1 h3.
    assert (Hel : seg_el a b) by (unfold seg_el, seg_wp, seg_wq; fold t11 t10 t00; unfold d1 in *; rewrite G11 in h3; lra).
    exists (seg_v a b). split; [right; right; right; left; auto|].
    unfold seg_v, seg_wp, seg_wq. fold t11 t10 t00. cbv zeta.
    assert (Hs : t11 - t10 + (t00 - t10) = g11) by (rewrite G11; ring). rewrite Hs.
    set (b0 := (t11 - t10) / g11). set (v := vadd (vscale b0 a) (vscale (1 - b0) b)).
    assert (Hb0 : 0 <= b0 <= 1).
    { unfold b0. split; [apply Rmult_le_pos; [unfold d1 in *; rewrite G11 in h3; lra|left; apply Rinv_0_lt_compat; lra]|].
      apply (Rmult_le_reg_r g11); [lra|]. unfold Rdiv. rewrite Rmult_assoc, Rinv_l by lra. unfold d1 in *. rewrite G11 in *. lra. }
    assert (Hva : dot v a = b0 * t00 + (1 - b0) * t10) by (unfold v; rewrite dot_add_l, !dot_scale_l; reflexivity).
    assert (Hvb : dot v b = b0 * t10 + (1 - b0) * t11) by (unfold v; rewrite dot_add_l, !dot_scale_l, Eab; reflexivity).
    assert (Hvc : dot v c = b0 * t20 + (1 - b0) * t21) by (unfold v; rewrite dot_add_l, !dot_scale_l, Eac, Ebc; reflexivity).
    assert (Hab : dot v a = dot v b).
    { rewrite Hva, Hvb. unfold b0. rewrite G11. field. rewrite <- G11. lra. }
    assert (Hvv : dot v v = dot v a).
    { unfold v at 2. rewrite dot_add_r, !dot_scale_r, <- Hab. ring. }
    assert (Hcc : dot v c - dot v a = - avc d1 d2 g11 g12 / g11).
    { rewrite Hvc, Hva. unfold b0, avc, d1, d2. rewrite G12, G11. field. rewrite <- G11. lra. }
    assert (0 <= - avc d1 d2 g11 g12 / g11) by (apply Rmult_le_pos; [lra|left; apply Rinv_0_lt_compat; lra]).
    split; [|lra].
    unfold v. replace (vadd (vscale b0 a) (vscale (1 - b0) b)) with
      (vadd (vadd (vscale b0 a) (vscale (1 - b0) b)) (vscale 0 c)) by (vsimp; f_equal; ring).
    apply conv_hull_3; lra. }
  (* segment ac *)
  assert (KAC : 0 < g22 -> avb d1 d2 g12 g22 <= 0 -> 0 < d2 -> d2 - g22 < 0 -> exists v, cand_of a b c v /\ kkt3 a b c v).
  { intros Hg22 hv h1 h3.
    assert (Hel : seg_el a c) by (unfold seg_el, seg_wp, seg_wq; fold t22 t20 t00; unfold d2 in *; rewrite G22 in h3; lra).
    exists (seg_v a c). split; [right; right; right; right; left; auto|].
    unfold seg_v, seg_wp, seg_wq. fold t22 t20 t00. cbv zeta.
    assert (Hs : t22 - t20 + (t00 - t20) = g22) by (rewrite G22; ring). rewrite Hs.
    set (b0 := (t22 - t20) / g22). set (v := vadd (vscale b0 a) (vscale (1 - b0) c)).
    assert (Hb0 : 0 <= b0 <= 1).
    { unfold b0. split; [apply Rmult_le_pos; [unfold d2 in *; rewrite G22 in h3; lra|left; apply Rinv_0_lt_compat; lra]|].
      apply (Rmult_le_reg_r g22); [lra|]. unfold Rdiv. rewrite Rmult_assoc, Rinv_l by lra. unfold d2 in *. rewrite G22 in *. lra. }
    assert (Hva : dot v a = b0 * t00 + (1 - b0) * t20) by (unfold v; rewrite dot_add_l, !dot_scale_l; reflexivity).
    assert (Hvb : dot v b = b0 * t10 + (1 - b0) * t21) by (unfold v; rewrite dot_add_l, !dot_scale_l, Eab; reflexivity).
    assert (Hvc : dot v c = b0 * t20 + (1 - b0) * t22) by (unfold v; rewrite dot_add_l, !dot_scale_l, Eac; reflexivity).
    assert (Hac : dot v a = dot v c).
    { rewrite Hva, Hvc. unfold b0. rewrite G22. field. rewrite <- G22. lra. }
    assert (Hvv : dot v v = dot v a).
    { unfold v at 2. rewrite dot_add_r, !dot_scale_r, <- Hac. ring. }
    assert (Hbb : dot v b - dot v a = - avb d1 d2 g12 g22 / g22).
    { rewrite Hvb, Hva. unfold b0, avb, d1, d2. rewrite G12, G22. field. rewrite <- G22. lra. }
    assert (0 <= - avb d1 d2 g12 g22 / g22) by (apply Rmult_le_pos; [lra|left; apply Rinv_0_lt_compat; lra]).
    split; [|lra].
    unfold v. replace (vadd (vscale b0 a) (vscale (1 - b0) c)) with
      (vadd (vadd (vscale b0 a) (vscale 0 b)) (vscale (1 - b0) c)) by (vsimp; f_equal; ring).
    apply conv_hull_3; lra. }
  (* segment cb *)
  set (d43 := d2 - g12 - (d1 - g11)). set (d56 := d1 - g12 - (d2 - g22)).
  assert (E25 : t11 - t21 = d43) by (unfold d43, d1, d2; rewrite G11, G12; ring).
  assert (E15 : t22 - t21 = d56) by (unfold d56, d1, d2; rewrite G12, G22; ring).
  assert (Hsum : d43 + d56 = g11 - 2 * g12 + g22) by (unfold d43, d56; ring).
  assert (KBC : ava d1 d2 g11 g12 g22 <= 0 -> 0 < d43 -> 0 < d56 -> exists v, cand_of a b c v /\ kkt3 a b c v).
  { intros hv h1 h3.
    assert (Hel : seg_el c b).
    { unfold seg_el, seg_wp, seg_wq. rewrite Ebc. fold t11 t22. rewrite E25, E15. lra. }
    exists (seg_v c b). split; [right; right; right; right; right; left; auto|].
    unfold seg_v, seg_wp, seg_wq. rewrite Ebc. fold t11 t22. cbv zeta. rewrite E25, E15.
    set (gb := d43 + d56).
    assert (Hgb : 0 < gb) by (unfold gb; lra).
    set (b0 := d43 / gb). set (v := vadd (vscale b0 c) (vscale (1 - b0) b)).
    assert (Hb0 : 0 <= b0 <= 1).
    { unfold b0. split; [apply Rmult_le_pos; [lra|left; apply Rinv_0_lt_compat; lra]|].
      apply (Rmult_le_reg_r gb); [lra|]. unfold Rdiv. rewrite Rmult_assoc, Rinv_l by lra. unfold gb. lra. }
    assert (Hva : dot v a = b0 * t20 + (1 - b0) * t10) by (unfold v; rewrite dot_add_l, !dot_scale_l; reflexivity).
    assert (Hvb : dot v b = b0 * t21 + (1 - b0) * t11) by (unfold v; rewrite dot_add_l, !dot_scale_l; reflexivity).
    assert (Hvc : dot v c = b0 * t22 + (1 - b0) * t21) by (unfold v; rewrite dot_add_l, !dot_scale_l, Ebc; reflexivity).
    assert (Hgbv : gb = t11 - 2 * t21 + t22) by (unfold gb; rewrite Hsum, G11, G12, G22; ring).
    assert (Hbc' : dot v b = dot v c).
    { rewrite Hvb, Hvc. unfold b0. rewrite <- E25. rewrite Hgbv. field. rewrite <- Hgbv. lra. }
    assert (Hvv : dot v v = dot v b).
    { unfold v at 2. rewrite dot_add_r, !dot_scale_r, <- Hbc'. ring. }
    assert (Haa : dot v a - dot v b = - ava d1 d2 g11 g12 g22 / gb).
    { rewrite Hva, Hvb. unfold b0. rewrite <- E25. unfold ava, avb, avc, aD, d1, d2.
      rewrite G11, G12, G22. rewrite Hgbv. field. rewrite <- Hgbv. lra. }
    assert (0 <= - ava d1 d2 g11 g12 g22 / gb) by (apply Rmult_le_pos; [lra|left; apply Rinv_0_lt_compat; lra]).
    split; [|lra].
    unfold v. replace (vadd (vscale b0 c) (vscale (1 - b0) b)) with
      (vadd (vadd (vscale 0 a) (vscale (1 - b0) b)) (vscale b0 c)) by (vsimp; f_equal; ring).
    apply conv_hull_3; lra. }
  (* face *)
  assert (KF : 0 < ava d1 d2 g11 g12 g22 -> 0 < avb d1 d2 g12 g22 -> 0 < avc d1 d2 g11 g12 ->
               exists v, cand_of a b c v /\ kkt3 a b c v).
  { intros ha hb hc.
    assert (HDp : 0 < g11 * g22 - g12 * g12) by (unfold ava, aD in ha; lra).
    assert (Hel : face_el a b c) by (unfold face_el, fva, fvb, fvc; rewrite F1, F2, F11, F12, F22; auto).
    exists (face_v a b c). split; [right; right; right; right; right; right; auto|].
    unfold face_v, fva, fvb, fvc. rewrite F1, F2, F11, F12, F22. cbv zeta.
    set (va := ava d1 d2 g11 g12 g22) in *. set (vb := avb d1 d2 g12 g22) in *. set (vc := avc d1 d2 g11 g12) in *.
    assert (Hs : va + vb + vc = g11 * g22 - g12 * g12) by (unfold va, ava, aD; fold vb vc; ring).
    set (D := g11 * g22 - g12 * g12) in *. rewrite Hs.
    set (b0 := va / D). set (b1 := vb / D). set (b2 := 1 - (b0 + b1)).
    assert (Hb2 : b2 = vc / D) by (unfold b2, b0, b1; field_simplify_eq; [lra|lra]).
    assert (Hi : 0 < / D) by (apply Rinv_0_lt_compat; lra).
    assert (P0 : 0 <= b0) by (apply Rmult_le_pos; lra).
    assert (P1 : 0 <= b1) by (apply Rmult_le_pos; lra).
    assert (P2 : 0 <= b2) by (rewrite Hb2; apply Rmult_le_pos; lra).
    set (v := vadd (vadd (vscale b0 a) (vscale b1 b)) (vscale b2 c)).
    assert (Hva : dot v a = b0 * t00 + b1 * t10 + b2 * t20) by (unfold v; rewrite !dot_add_l, !dot_scale_l; reflexivity).
    assert (Hvb : dot v b = b0 * t10 + b1 * t11 + b2 * t21) by (unfold v; rewrite !dot_add_l, !dot_scale_l, Eab; reflexivity).
    assert (Hvc : dot v c = b0 * t20 + b1 * t21 + b2 * t22) by (unfold v; rewrite !dot_add_l, !dot_scale_l, Eac, Ebc; reflexivity).
    assert (Hab : dot v a = dot v b).
    { rewrite Hva, Hvb, Hb2. unfold b0, b1, va, vb, vc, ava, avb, avc, aD, D, d1, d2. rewrite G11, G12, G22. field.
      unfold D in HDp. rewrite G11, G12, G22 in HDp. lra. }
    assert (Hac : dot v a = dot v c).
    { rewrite Hva, Hvc, Hb2. unfold b0, b1, va, vb, vc, ava, avb, avc, aD, D, d1, d2. rewrite G11, G12, G22. field.
      unfold D in HDp. rewrite G11, G12, G22 in HDp. lra. }
    assert (Hvv : dot v v = dot v a).
    { unfold v at 2. rewrite !dot_add_r, !dot_scale_r, <- Hab, <- Hac. unfold b2. ring. }
    split; [|lra]. unfold v. apply conv_hull_3; auto. unfold b2. lra. }
  (* case analysis *)
  assert (Eva : ava d1 d2 g11 g12 g22 = (d1 - g11) * (d2 - g22) - (d1 - g12) * (d2 - g12))
    by (unfold ava, avb, avc, aD; ring).
  destruct (Req_dec g11 0) as [Z11|N11].
  { assert (Hba : vsub b a = vzero) by (apply dot_self_zero; exact Z11).
    assert (E10 : t10 = t00).
    { unfold t10, t00. replace b with (vadd a (vsub b a)) by (vsimp; f_equal; ring). rewrite Hba. vsimp. ring. }
    assert (E12 : g12 = 0) by (unfold g12; rewrite Hba; vsimp; ring).
    assert (Ed1 : d1 = 0) by (unfold d1; lra).
    destruct (Rle_dec d2 0) as [q|q]; [apply KA; lra|].
    destruct (Rle_dec 0 (d2 - g22)) as [q6|q6]; [apply KC; lra|].
    apply KAC; try lra. unfold avb. rewrite Ed1, E12. lra. }
  destruct (Req_dec g22 0) as [Z22|N22].
  { assert (Hca : vsub c a = vzero) by (apply dot_self_zero; exact Z22).
    assert (E20 : t20 = t00).
    { unfold t20, t00. replace c with (vadd a (vsub c a)) by (vsimp; f_equal; ring). rewrite Hca. vsimp. ring. }
    assert (E12 : g12 = 0) by (unfold g12; rewrite Hca; vsimp; ring).
    assert (Ed2 : d2 = 0) by (unfold d2; lra).
    destruct (Rle_dec d1 0) as [q|q]; [apply KA; lra|].
    destruct (Rle_dec 0 (d1 - g11)) as [q3|q3]; [apply KB; lra|].
    apply KAB; try lra. unfold avc. rewrite Ed2, E12. lra. }
  destruct (Req_dec (g11 - 2 * g12 + g22) 0) as [Zbc|Nbc].
  { assert (Hcb : vsub c b = vzero) by (apply dot_self_zero; rewrite <- Gbc; exact Zbc).
    assert (Ecb : c = b) by (replace c with (vadd b (vsub c b)) by (vsimp; f_equal; ring); rewrite Hcb; vsimp; f_equal; ring).
    assert (E20 : t20 = t10) by (unfold t20, t10; rewrite Ecb; reflexivity).
    assert (Eg : g12 = g11 /\ g22 = g11) by (unfold g12, g22, g11; rewrite Ecb; split; reflexivity).
    destruct Eg as [Eg12 Eg22].
    assert (Ed : d2 = d1) by (unfold d2, d1; lra).
    destruct (Rle_dec d1 0) as [q|q]; [apply KA; lra|].
    destruct (Rle_dec 0 (d1 - g11)) as [q3|q3]; [apply KB; lra|].
    apply KAB; try lra. unfold avc. rewrite Ed, Eg12. lra. }
  assert (Hg11 : 0 < g11) by lra. assert (Hg22 : 0 < g22) by lra. assert (Hgbc : 0 < g11 - 2 * g12 + g22) by lra.
  assert (HDa : 0 <= aD g11 g12 g22) by (unfold aD; lra).
  assert (Harm : (0 < ava d1 d2 g11 g12 g22 /\ 0 < avb d1 d2 g12 g22 /\ 0 < avc d1 d2 g11 g12) \/
                 armA d1 d2 \/ armB d1 d2 g11 g12 \/ armAB d1 d2 g11 g12 \/ armC d1 d2 g12 g22 \/
                 armAC d1 d2 g12 g22 \/ armBC d1 d2 g11 g12 g22).
  { destruct (arm_dec (armA d1 d2)) as [h|hA]; [unfold armA; repeat apply dec_and; apply Rle_dec|auto|].
    destruct (arm_dec (armB d1 d2 g11 g12)) as [h|hB]; [unfold armB; repeat apply dec_and; apply Rle_dec|auto|].
    destruct (arm_dec (armAB d1 d2 g11 g12)) as [h|hAB]; [unfold armAB; repeat apply dec_and; apply Rle_dec|auto 6|].
    destruct (arm_dec (armC d1 d2 g12 g22)) as [h|hC]; [unfold armC; repeat apply dec_and; apply Rle_dec|auto 6|].
    destruct (arm_dec (armAC d1 d2 g12 g22)) as [h|hAC]; [unfold armAC; repeat apply dec_and; apply Rle_dec|auto 8|].
    destruct (arm_dec (armBC d1 d2 g11 g12 g22)) as [h|hBC]; [unfold armBC; repeat apply dec_and; apply Rle_dec|auto 8|].
    left. apply tri_all_pos0; auto. unfold no_arm. auto 8. }
  destruct Harm as [(Pa & Pb & Pc)|[[h1 h2]|[[h1 h2]|[(hv & h1 & h3)|[[h1 h2]|[(hv & h1 & h3)|(hv & h1 & h3)]]]]]].
  - apply KF; auto.
  - apply KA; auto.
  - apply KB; auto.
  - destruct (Req_dec d1 0) as [z|nz].
    { apply KA; [lra|]. unfold avc in hv. rewrite z in hv. nra. }
    destruct (Req_dec (d1 - g11) 0) as [z3|nz3].
    { apply KB; [lra|]. unfold avc in hv. assert (E : d1 = g11) by lra. rewrite E in hv. rewrite E. nra. }
    apply KAB; auto; lra.
  - apply KC; auto.
  - destruct (Req_dec d2 0) as [z|nz].
    { apply KA; [|lra]. unfold avb in hv. rewrite z in hv. nra. }
    destruct (Req_dec (d2 - g22) 0) as [z3|nz3].
    { apply KC; [lra|]. unfold avb in hv. assert (E : d2 = g22) by lra. rewrite E in hv. rewrite E. nra. }
    apply KAC; auto; lra.
  - fold d43 d56 in h1, h3.
    destruct (Req_dec d43 0) as [z|nz].
    { assert (Hd56 : 0 < d56) by lra.
      apply KB.
      - rewrite Eva in hv. assert (E : d2 - g12 = d1 - g11) by (unfold d43 in z; lra).
        rewrite E in hv. unfold d56 in Hd56. nra.
      - unfold d43 in z. lra. }
    destruct (Req_dec d56 0) as [z3|nz3].
    { assert (Hd43 : 0 < d43) by lra.
      apply KC.
      - rewrite Eva in hv. assert (E : d1 - g12 = d2 - g22) by (unfold d56 in z3; lra).
        rewrite E in hv. unfold d43 in Hd43. nra.
      - unfold d56 in z3. lra. }
    apply KBC; auto; lra.
Qed.

(** a candidate with the variational inequality is no farther from the origin than any hull point *)
Lemma kkt3_lower (a b c v x : V3R) : kkt3 a b c v -> conv_hull [a; b; c] x -> dot v v <= dot x x.
Proof.
  intros (Hv & Ha & Hb & Hc) Hx.
  assert (Hm : is_min_norm [a; b; c] v).
  { apply is_min_norm_of_kkt; auto. intros y [<-|[<-|[<-|[]]]]; auto. }
  destruct Hm as [_ Hm]. specialize (Hm x Hx).
  pose proof (norm_sq v). pose proof (norm_sq x). pose proof (norm_nonneg v). pose proof (norm_nonneg x). nra.
Qed.
