(** * C06, part 3: self_collision.detect / detect_any against the all-pairs narrow phase. *)
From Coq Require Import List Arith Bool Lia Permutation.
From D3 Require Import Model.AabbTree Model.Bvh Proofs.AabbTreeQuery Proofs.AabbTreeInsert
                       Proofs.AabbTreeProofs Proofs.BvhDict Proofs.BvhProofs.
Import ListNotations.

Section Detect.
  Variable C : Type.
  Variable le : C -> C -> bool.
  Variables cmin cmax : C -> C -> C.
  Hypothesis le_trans : forall a b c, le a b = true -> le b c = true -> le a c = true.
  Hypothesis cmin_l : forall a b, le (cmin a b) a = true.
  Hypothesis cmin_r : forall a b, le (cmin a b) b = true.
  Hypothesis cmax_l : forall a b, le a (cmax a b) = true.
  Hypothesis cmax_r : forall a b, le b (cmax a b) = true.

  Variable frame : Type.
  Variable feqb : frame -> frame -> bool.
  Hypothesis feqb_spec : forall a b, feqb a b = true <-> a = b.
  Variables coll pose : Type.
  Variable aabb_of : coll -> box C.
  Variable narrow : coll -> coll -> bool.

  (** C04's corollary (every shape lies inside its AABB, so intersecting shapes have
      overlapping AABBs) for the narrow phase in use: a hypothesis of the completeness
      statements only. *)
  Definition narrow_implies_aabb_overlap : Prop :=
    forall c c', narrow c c' = true -> overlap C le (aabb_of c) (aabb_of c') = true.

  Notation state := (state C frame coll pose).
  Notation Inv := (Inv C cmin cmax frame coll pose aabb_of).
  Notation cs_ st := (colliders C frame coll pose st).
  Notation heap_ st := (heap C frame coll pose st).
  Notation wls_ st := (wls C frame coll pose st).
  Notation overlap := (overlap C le).
  Notation aabb_overlapping_colliders := (aabb_overlapping_colliders C le frame feqb coll pose).
  Notation detect_loop := (detect_loop C le frame feqb coll pose aabb_of narrow).
  Notation detect := (detect C le frame feqb coll pose aabb_of narrow).
  Notation detect_any_loop := (detect_any_loop C le frame feqb coll pose aabb_of narrow).
  Notation detect_any := (detect_any C le frame feqb coll pose aabb_of narrow).
  Notation first_hit := (first_hit frame coll narrow).

  (** the collider object registered under frame [f] *)
  Definition coll_at (st : state) (f : frame) (c : coll) : Prop :=
    exists o, In (f, o) (cs_ st) /\ nth_error (heap_ st) o = Some c.

  (** the all-pairs oracle: the narrow phase finds [f] colliding with [g], and [g] is not
      in the whitelist of [f] *)
  Definition hits (st : state) (f g : frame) : Prop :=
    exists c c' w, coll_at st f c /\ coll_at st g c' /\
                   dict_get feqb (wls_ st) f = Some w /\ ~ In g w /\ narrow c c' = true.

  Definition wl_total (st : state) : Prop :=
    forall f, In f (map fst (cs_ st)) -> exists w, dict_get feqb (wls_ st) f = Some w.

  Lemma feq_dec (a b : frame) : a = b \/ a <> b.
  Proof.
    destruct (feqb a b) eqn:E; [left; apply feqb_spec; auto|right].
    intros ->. rewrite (keqb_refl _ feqb feqb_spec) in E. discriminate.
  Qed.

  Lemma first_hit_spec hp c cands :
    (forall f2 o2, In (f2, o2) cands -> exists c2, nth_error hp o2 = Some c2) ->
    (first_hit hp c cands = XOk None /\
     forall f2 o2 c2, In (f2, o2) cands -> nth_error hp o2 = Some c2 -> narrow c c2 = false) \/
    (exists f2 o2 c2, first_hit hp c cands = XOk (Some f2) /\ In (f2, o2) cands /\
                      nth_error hp o2 = Some c2 /\ narrow c c2 = true).
  Proof.
    induction cands as [|[f2 o2] cands IH]; intros H; simpl.
    - left. split; auto. intros ? ? ? [].
    - destruct (H f2 o2 (or_introl eq_refl)) as (c2 & Hc2). unfold hget. rewrite Hc2. simpl.
      destruct (narrow c c2) eqn:En.
      + right. exists f2, o2, c2. auto.
      + destruct IH as [(H1 & H2)|(f3 & o3 & c3 & H1 & H2 & H3 & H4)].
        * intros; eapply H; simpl; eauto.
        * left. split; auto. intros f3 o3 c3 [E|Hin] Hc3.
          -- inversion E; subst. congruence.
          -- eauto.
        * right. exists f3, o3, c3. simpl; auto.
  Qed.

  Section WithState.
    Variable st : state.
    Hypothesis HI : Inv st.
    Hypothesis Hwl : wl_total st.

    Lemma keys_NoDup : NoDup (map fst (cs_ st)).
    Proof. destruct HI as (? & _ & _ & H); exact H. Qed.

    Lemma cs_heap f o : In (f, o) (cs_ st) -> exists c, nth_error (heap_ st) o = Some c.
    Proof.
      destruct HI as (asg & HW & HF & Hk). intros Hin.
      destruct (Forall2_In_r _ _ _ _ HF Hin) as (e & _ & (c & Hc & _)). eauto.
    Qed.

    Lemma coll_at_fun f c c' : coll_at st f c -> coll_at st f c' -> c = c'.
    Proof.
      intros (o & H1 & H2) (o' & H1' & H2').
      assert (o = o') by (eapply NoDup_fst_inj; eauto using keys_NoDup). subst. congruence.
    Qed.

    (** one iteration's candidate search and narrow-phase loop, as the oracle sees it *)
    Lemma iteration f o :
      In (f, o) (cs_ st) ->
      exists c w cands,
        hget coll (heap_ st) o = XOk c /\ wl_of C frame feqb coll pose st f = XOk w /\
        aabb_overlapping_colliders st (aabb_of c) w = XOk cands /\
        ((first_hit (heap_ st) c cands = XOk None /\
          (narrow_implies_aabb_overlap -> ~ exists g, hits st f g)) \/
         (exists f2, first_hit (heap_ st) c cands = XOk (Some f2) /\ hits st f f2)).
    Proof.
      intros Hin. destruct (cs_heap f o Hin) as (c & Hc).
      destruct (Hwl f) as (w & Hw). { apply in_map_iff. exists (f, o); auto. }
      destruct (overlapping_colliders_exact C le cmin cmax (fun _ _ _ => true) (fun _ _ _ _ => true)
                  le_trans cmin_l cmin_r cmax_l cmax_r
                  frame feqb feqb_spec coll pose aabb_of st (aabb_of c) w HI)
        as (cands & Hcands & Hnd & Hiff).
      exists c, w, cands. unfold hget, wl_of. rewrite Hc, Hw. repeat split; auto.
      destruct (first_hit_spec (heap_ st) c cands) as [(H1 & H2)|(f2 & o2 & c2 & H1 & H2 & H3 & H4)].
      - intros f2 o2 H. apply Hiff in H as (H & _). eapply cs_heap; eauto.
      - left. split; auto. intros Hna (g & c0 & c' & w0 & Hf & (o' & Hg & Hc') & Hw0 & Hnw & Hn).
        assert (c0 = c) by (eapply coll_at_fun; eauto; exists o; auto). subst c0.
        assert (w0 = w) by congruence. subst w0.
        assert (Hcand : In (g, o') cands).
        { apply Hiff. repeat split; auto. exists c'. split; auto.
          rewrite (overlap_sym C le). apply Hna; auto. }
        rewrite (H2 g o' c' Hcand Hc') in Hn. discriminate.
      - right. exists f2. split; auto. apply Hiff in H2 as (Hg & Hnw & _).
        exists c, c2, w. repeat split; auto; [exists o|exists o2]; auto.
    Qed.

    (** ** detect *)
    Definition DInv (contacts : list (frame * bool)) (done : list (frame * oid)) : Prop :=
      NoDup (map fst contacts) /\
      (forall f, In f (map fst contacts) -> In f (map fst (cs_ st))) /\
      (forall f, In f (map fst done) -> In f (map fst contacts)) /\
      (forall f, dict_get feqb contacts f = Some false ->
                 In f (map fst done) /\ (narrow_implies_aabb_overlap -> ~ exists g, hits st f g)) /\
      (forall f, dict_get feqb contacts f = Some true -> exists g, hits st f g \/ hits st g f).

    Lemma hits_key_r f g : hits st f g -> In g (map fst (cs_ st)).
    Proof.
      intros (c & c' & w & _ & (o & Hin & _) & _). apply in_map_iff. exists (g, o); auto.
    Qed.

    Lemma detect_loop_spec : forall cs' done contacts,
      cs_ st = done ++ cs' -> DInv contacts done ->
      exists contacts', detect_loop st cs' contacts = XOk contacts' /\ DInv contacts' (cs_ st).
    Proof.
      induction cs' as [|[f o] cs' IH]; intros done contacts Hsplit HD; simpl.
      - rewrite app_nil_r in Hsplit. subst done. eauto.
      - assert (Hin : In (f, o) (cs_ st)) by (rewrite Hsplit; apply in_or_app; simpl; auto).
        assert (Hsplit' : cs_ st = (done ++ [(f, o)]) ++ cs') by (rewrite <- app_assoc; auto).
        destruct HD as (Hnd & HK & HDn & HF & HT).
        destruct (dict_mem feqb contacts f) eqn:Emem.
        + apply (IH _ _ Hsplit'). apply (dict_mem_iff _ _ feqb feqb_spec) in Emem.
          split; [auto|]. split; [auto|]. split; [|split; [|auto]].
          * intros f'. rewrite map_app, in_app_iff. simpl. intros [H|[<-|[]]]; auto.
          * intros f' H. apply HF in H as (H1 & H2). split; auto.
            rewrite map_app, in_app_iff. auto.
        + assert (Hnk : ~ In f (map fst contacts)).
          { intros H. apply (dict_mem_iff _ _ feqb feqb_spec) in H. congruence. }
          destruct (iteration f o Hin) as (c & w & cands & Hc & Hw & Hcands & Hhit).
          rewrite Hc. simpl. rewrite Hw. simpl. rewrite Hcands. simpl.
          destruct Hhit as [(Hfh & Hno)|(f2 & Hfh & Hh)]; rewrite Hfh; simpl.
          * apply (IH _ _ Hsplit'). split; [|split; [|split; [|split]]].
            -- apply (dict_set_NoDup _ _ feqb feqb_spec); auto.
            -- intros f'. rewrite (dict_set_keys _ _ feqb feqb_spec). intros [->|H]; auto.
               apply in_map_iff. exists (f, o); auto.
            -- intros f'. rewrite map_app, in_app_iff, (dict_set_keys _ _ feqb feqb_spec). simpl.
               intros [H|[<-|[]]]; auto.
            -- intros f' H. destruct (feq_dec f f') as [<-|Hne].
               ++ split; auto. rewrite map_app, in_app_iff. simpl. auto.
               ++ rewrite (dict_get_set_neq _ _ feqb feqb_spec) in H by auto.
                  apply HF in H as (H1 & H2). split; auto. rewrite map_app, in_app_iff. auto.
            -- intros f'. destruct (feq_dec f f') as [<-|Hne].
               ++ rewrite (dict_get_set_eq _ _ feqb feqb_spec). discriminate.
               ++ rewrite (dict_get_set_neq _ _ feqb feqb_spec) by auto. apply HT.
          * apply (IH _ _ Hsplit'). split; [|split; [|split; [|split]]].
            -- repeat apply (dict_set_NoDup _ _ feqb feqb_spec); auto.
            -- intros f'. rewrite !(dict_set_keys _ _ feqb feqb_spec).
               intros [->|[->|[->|H]]];
                 [eapply hits_key_r; eauto|apply in_map_iff; exists (f, o); auto
                 |apply in_map_iff; exists (f, o); auto|auto].
            -- intros f'. rewrite map_app, in_app_iff, !(dict_set_keys _ _ feqb feqb_spec). simpl.
               intros [H|[<-|[]]]; auto.
            -- intros f' H. destruct (feq_dec f2 f') as [<-|Hne2].
               { rewrite (dict_get_set_eq _ _ feqb feqb_spec) in H. discriminate. }
               rewrite (dict_get_set_neq _ _ feqb feqb_spec) in H by auto.
               destruct (feq_dec f f') as [<-|Hne].
               { rewrite (dict_get_set_eq _ _ feqb feqb_spec) in H. discriminate. }
               rewrite !(dict_get_set_neq _ _ feqb feqb_spec) in H by auto.
               apply HF in H as (H1 & H2). split; auto. rewrite map_app, in_app_iff. auto.
            -- intros f' H. destruct (feq_dec f2 f') as [<-|Hne2]; [exists f; auto|].
               rewrite (dict_get_set_neq _ _ feqb feqb_spec) in H by auto.
               destruct (feq_dec f f') as [<-|Hne]; [exists f2; auto|].
               rewrite !(dict_get_set_neq _ _ feqb feqb_spec) in H by auto. apply HT; auto.
    Qed.

    (** [detect] returns a dict whose keys are exactly the collider frames; a frame is
        marked whenever the all-pairs narrow phase finds it colliding with a frame outside
        its whitelist (needs [narrow_implies_aabb_overlap]); a frame is marked only if it
        collides with a frame such that at least one of the two does not whitelist the other *)
    Theorem detect_spec_st :
      exists contacts, detect st = XOk contacts /\ NoDup (map fst contacts) /\
        (forall f, In f (map fst contacts) <-> In f (map fst (cs_ st))) /\
        (narrow_implies_aabb_overlap ->
         forall f, (exists g, hits st f g) -> dict_get feqb contacts f = Some true) /\
        (forall f, dict_get feqb contacts f = Some true -> exists g, hits st f g \/ hits st g f).
    Proof.
      destruct (detect_loop_spec (cs_ st) [] []) as (contacts & Hd & Hnd & HK & HDn & HF & HT); auto.
      { repeat split; simpl; try tauto; try constructor; discriminate. }
      exists contacts. split; [exact Hd|]. split; auto. split; [split; auto|]. split; auto.
      intros Hna f (g & Hh).
      assert (Hk : In f (map fst contacts)).
      { apply HDn. destruct Hh as (c & c' & w & (o & Hin & _) & _). apply in_map_iff. exists (f, o); auto. }
      apply (dict_mem_iff _ _ feqb feqb_spec) in Hk. unfold dict_mem in Hk.
      destruct (dict_get feqb contacts f) as [[|]|] eqn:E; auto; try discriminate.
      exfalso. apply HF in E as (_ & E). apply E; eauto.
    Qed.

    (** ** detect_any *)
    Lemma detect_any_loop_spec : forall cs' done,
      cs_ st = done ++ cs' ->
      exists b, detect_any_loop st cs' = XOk b /\
        (b = true -> exists f g, hits st f g) /\
        (narrow_implies_aabb_overlap -> b = false ->
         forall f g, In f (map fst cs') -> ~ hits st f g).
    Proof.
      induction cs' as [|[f o] cs' IH]; intros done Hsplit; simpl.
      - exists false. repeat split; auto. discriminate.
      - assert (Hin : In (f, o) (cs_ st)) by (rewrite Hsplit; apply in_or_app; simpl; auto).
        assert (Hsplit' : cs_ st = (done ++ [(f, o)]) ++ cs') by (rewrite <- app_assoc; auto).
        destruct (iteration f o Hin) as (c & w & cands & Hc & Hw & Hcands & Hhit).
        rewrite Hc. simpl. rewrite Hw. simpl. rewrite Hcands. simpl.
        destruct Hhit as [(Hfh & Hno)|(f2 & Hfh & Hh)]; rewrite Hfh; simpl.
        + destruct (IH _ Hsplit') as (b & Hb & H1 & H2). exists b. split; auto. split; auto.
          intros Hna Hbf f' g [<-|Hf'] Hh; [apply (Hno Hna); eauto|]. eapply H2; eauto.
        + exists true. repeat split; eauto. discriminate.
    Qed.

    Theorem detect_any_spec_st :
      exists b, detect_any st = XOk b /\
        (b = true -> exists f g, hits st f g) /\
        (narrow_implies_aabb_overlap -> (exists f g, hits st f g) -> b = true).
    Proof.
      destruct (detect_any_loop_spec (cs_ st) [] eq_refl) as (b & Hb & H1 & H2).
      exists b. split; [exact Hb|]. split; auto.
      intros Hna (f & g & Hh). destruct b; auto. exfalso.
      apply (H2 Hna eq_refl f g); auto.
      destruct Hh as (c & c' & w & (o & Hin & _) & _). apply in_map_iff. exists (f, o); auto.
    Qed.

    (** symmetric narrow phase and symmetric whitelists: the two bounds coincide *)
    Definition narrow_symmetric : Prop := forall c c', narrow c c' = narrow c' c.
    Definition wl_symmetric : Prop :=
      forall f g wf wg, dict_get feqb (wls_ st) f = Some wf -> dict_get feqb (wls_ st) g = Some wg ->
                        (In g wf <-> In f wg).

    Lemma hits_sym f g : narrow_symmetric -> wl_symmetric -> hits st g f -> hits st f g.
    Proof.
      intros Hn Hs (c & c' & w & Hg & Hf & Hw & Hnw & Hnar).
      destruct Hf as (o & Hin & Hc).
      destruct (Hwl f) as (wf & Hwf). { apply in_map_iff. exists (f, o); auto. }
      exists c', c, wf. repeat split; auto.
      - exists o; auto.
      - intros Hin'. apply Hnw. apply (Hs f g wf w Hwf Hw). exact Hin'.
      - rewrite Hn. exact Hnar.
    Qed.

    Corollary detect_spec_symmetric :
      narrow_implies_aabb_overlap -> narrow_symmetric -> wl_symmetric ->
      exists contacts, detect st = XOk contacts /\
        forall f, dict_get feqb contacts f = Some true <-> exists g, hits st f g.
    Proof.
      intros Hna Hn Hs. destruct detect_spec_st as (contacts & Hd & _ & _ & Hc & Hsnd).
      exists contacts. split; auto. intros f. split.
      - intros H. destruct (Hsnd f H) as (g & [Hh|Hh]); exists g; auto. apply hits_sym; auto.
      - apply Hc; auto.
    Qed.

    (** detect and detect_any agree: some frame is marked iff detect_any answers True *)
    Corollary detect_any_consistent :
      narrow_implies_aabb_overlap ->
      exists contacts b, detect st = XOk contacts /\ detect_any st = XOk b /\
        ((exists f, dict_get feqb contacts f = Some true) <-> b = true).
    Proof.
      intros Hna. destruct detect_spec_st as (contacts & Hd & _ & _ & Hc & Hs).
      destruct detect_any_spec_st as (b & Hb & H1 & H2).
      exists contacts, b. split; auto. split; auto. split.
      - intros (f & Hf). apply H2; auto. destruct (Hs f Hf) as (g & [H|H]); eauto.
      - intros Hbt. destruct (H1 Hbt) as (f & g & Hh). exists f. apply Hc; eauto.
    Qed.
  End WithState.
End Detect.
