(** * C14: proofs about the collider state machine (Model/Colliders.v).

    - [Inv]: the layout invariant of every state reachable with well-formed inputs under
      the CURRENT configuration (Gen/CollidersTables.v): established by [construct],
      preserved by every operation, and sufficient for every compiled call to match its
      declared signature ([no_type_error]).
    - [sim]: two objects hold the same DATA in every attribute (layout tags and the cached
      start vertex of the mesh functor are ignored); [update_pose] with pose [p] leads to a
      state [sim]ilar to [construct s p] whatever happened before ([update_equals_fresh]).
    The proofs compute with the generated tables: if a signature or an update_pose in the
    sources changes so that a compiled call can see a non-contiguous argument, this file
    stops compiling. *)
From Coq Require Import List Bool Lia.
From D3 Require Import Base.Ops Base.Vec Gen.CollidersTables Model.Colliders.
Import ListNotations.

Section Proofs.
  Variable F : Type.
  Variable Conn : Type.
  Variable K : kern F Conn.
  Notation coll := (coll F Conn).
  Notation spec := (spec F Conn).
  Notation op := (op F).
  Notation query := (query F).
  Notation update_pose := (update_pose F Conn K current).
  Notation support := (support F Conn K current).
  Notation aabb := (aabb F Conn K current).
  Notation center := (center F Conn K).
  Notation first_vertex := (first_vertex F Conn K current).
  Notation collider2origin := (collider2origin F Conn K current).
  Notation run_query := (run_query F Conn K current).
  Notation step := (step F Conn K current).
  Notation run := (run F Conn K current).
  Notation construct := (construct F Conn K).
  Notation last_pose := (last_pose F).
  Notation wf_op := (wf_op F).
  Notation wf_query := (wf_query F).

  (** ** the layout invariant *)
  Fixpoint Inv (c : coll) : Prop :=
    match c with
    | Sphere _ _ => True
    | Capsule p _ _ | Cylinder p _ _ | Cone p _ _ => lay p = LC
    | Ellipsoid p radii => lay p = LC /\ lay radii = LC
    | Box p size _ => lay p = LC /\ lay size = LC
    | Disk cc _ n => lay cc = LC /\ lay n = LC
    | Ellipse cc axes radii => lay cc = LC /\ lay axes = LC /\ lay radii = LC
    | MeshGraph _ _ _ _ _ => True
    | Margin c' _ => Inv c'
    end.

  Lemma is_C_LC l : is_C l = true -> l = LC.
  Proof. destruct l; simpl; congruence. Qed.

  Lemma construct_Inv s p : Inv (construct s p).
  Proof. induction s; simpl; auto. Qed.

  Ltac tables :=
    cbv [current sig_of upd_contig wrap maybe_contig ascontig fresh call call_ok args_ok al w vec
         v_col v_colsT view_col view_colsT is_C lay dat
         CollidersTables.sig_convert_box_to_vertices CollidersTables.sig_support_function_cylinder
         CollidersTables.sig_support_function_capsule CollidersTables.sig_support_function_ellipsoid
         CollidersTables.sig_support_function_sphere CollidersTables.sig_support_function_disk
         CollidersTables.sig_support_function_ellipse CollidersTables.sig_support_function_cone
         CollidersTables.sig_norm_vector CollidersTables.sig_plane_basis_from_normal
         CollidersTables.sig_hill_climb_mesh_extreme
         CollidersTables.upd_Sphere_c_contig CollidersTables.upd_Disk_c_contig
         CollidersTables.upd_Disk_normal_contig CollidersTables.upd_Ellipse_c_contig
         CollidersTables.upd_Ellipse_axes_contig
         CollidersTables.wrap_Sphere_support_function_c
         CollidersTables.wrap_Capsule_support_function_capsule2origin
         CollidersTables.wrap_Cylinder_support_function_cylinder2origin
         CollidersTables.wrap_Cone_support_function_cone2origin
         CollidersTables.wrap_Ellipsoid_support_function_ellipsoid2origin
         CollidersTables.wrap_Ellipsoid_support_function_radii
         CollidersTables.wrap_Disk_support_function_c CollidersTables.wrap_Disk_support_function_normal
         CollidersTables.wrap_Disk_first_vertex_normal CollidersTables.wrap_Disk_collider2origin_normal
         CollidersTables.wrap_Ellipse_support_function_c CollidersTables.wrap_Ellipse_support_function_axes
         CollidersTables.wrap_Ellipse_support_function_radii].

  (** [update_pose] with a C-contiguous pose: never raises, keeps the invariant *)
  Lemma update_Inv c pose :
    lay pose = LC -> Inv c ->
    Inv (fst (update_pose c pose)) /\ snd (update_pose c pose) = Ok ONone.
  Proof.
    intros Hp. induction c; simpl; intros HI.
    - tables. simpl. auto.
    - auto.
    - auto.
    - auto.
    - destruct HI. auto.
    - (* Box *) destruct HI as (H1 & H2). destruct pose as [lp dp], size as [ls ds].
      simpl in *. subst. tables. simpl. auto.
    - (* Disk *) tables. simpl. auto.
    - (* Ellipse *) destruct HI as (H1 & H2 & H3). tables. simpl. auto.
    - auto.
    - (* Margin *) destruct (IHc HI) as (I1 & I2).
      destruct (Colliders.update_pose F Conn K current c pose) as [c'' r]; simpl in *. auto.
  Qed.

  (** queries under the invariant never raise and keep it *)
  Lemma support_Inv c d :
    lay d = LC -> Inv c ->
    Inv (fst (support c d)) /\ is_ok (snd (support c d)) = true /\
    (exists v, snd (support c d) = Ok (OVec v)).
  Proof.
    intros Hd. destruct d as [ld dd]. simpl in Hd. subst ld.
    induction c; simpl; intros HI.
    - (* Sphere *) destruct c as [lc dc]. tables. simpl. repeat split; eauto.
    - destruct capsule2origin as [l x]; simpl in HI; subst. tables. simpl. repeat split; eauto.
    - destruct cylinder2origin as [l x]; simpl in HI; subst. tables. simpl. repeat split; eauto.
    - destruct cone2origin as [l x]; simpl in HI; subst. tables. simpl. repeat split; eauto.
    - destruct ellipsoid2origin as [l x], radii as [l2 x2]; simpl in HI; destruct HI; subst.
      tables. simpl. repeat split; eauto.
    - destruct HI; repeat split; eauto.
    - destruct c as [l x], normal as [l2 x2]; simpl in HI; destruct HI; subst. tables. simpl. repeat split; eauto.
    - destruct c as [l x], axes as [l2 x2], radii as [l3 x3]; simpl in HI; destruct HI as (?&?&?); subst.
      tables. simpl. repeat split; eauto.
    - (* Mesh *) destruct vertices as [lv xv]. tables. simpl. repeat split; eauto.
    - (* Margin *) destruct (IHc HI) as (I1 & I2 & (v & I3)).
      destruct (Colliders.support F Conn K current c (Arr LC dd)) as [c'' r]; simpl in *. subst r.
      tables. simpl. repeat split; eauto.
  Qed.

  Lemma aabb_ok c : Inv c -> exists b, aabb c = Ok (OBox b).
  Proof.
    induction c; simpl; intros HI; eauto.
    - destruct box2origin as [l x], size as [l2 x2]; simpl in HI; destruct HI; subst. tables. simpl. repeat split; eauto.
    - destruct (IHc HI) as (b & ->). eauto.
  Qed.

  Lemma center_ok c : exists v, center c = Ok (OVec v).
  Proof. induction c; simpl; eauto. Qed.

  Lemma first_vertex_ok c : Inv c -> exists v, first_vertex c = Ok (OVec v).
  Proof.
    induction c; simpl; intros HI; eauto.
    destruct normal as [l x]; simpl in HI; destruct HI; subst. tables. simpl. repeat split; eauto.
  Qed.

  Lemma collider2origin_ok c : Inv c -> exists p, collider2origin c = Ok (OPose p).
  Proof.
    induction c; simpl; intros HI; eauto.
    destruct normal as [l x]; simpl in HI; destruct HI; subst. tables. simpl. repeat split; eauto.
  Qed.

  Lemma query_Inv c q :
    wf_query q = true -> Inv c ->
    Inv (fst (run_query c q)) /\ is_ok (snd (run_query c q)) = true.
  Proof.
    intros Hq HI. destruct q; simpl in *.
    - apply is_C_LC in Hq. destruct (support_Inv c d Hq HI) as (A & B & _). auto.
    - destruct (aabb_ok c HI) as (b & ->). auto.
    - destruct (center_ok c) as (b & ->). auto.
    - destruct (first_vertex_ok c HI) as (b & ->). auto.
    - destruct (collider2origin_ok c HI) as (b & ->). auto.
  Qed.

  Lemma step_Inv c o :
    wf_op o = true -> Inv c -> Inv (fst (step c o)) /\ is_ok (snd (step c o)) = true.
  Proof.
    intros Ho HI. destruct o; simpl in *.
    - apply is_C_LC in Ho. destruct (update_Inv c pose Ho HI) as (A & ->). auto.
    - apply query_Inv; auto.
  Qed.

  Lemma run_Inv h : forall c,
    forallb wf_op h = true -> Inv c ->
    Inv (fst (run c h)) /\ forallb is_ok (snd (run c h)) = true.
  Proof.
    induction h as [|o h IH]; intros c Hh HI; simpl in *; auto.
    apply andb_true_iff in Hh as (Ho & Hh).
    destruct (step_Inv c o Ho HI) as (A & B).
    destruct (Colliders.step F Conn K current c o) as [c' r]; simpl in *.
    destruct (IH c' Hh A) as (A' & B').
    destruct (Colliders.run F Conn K current c' h) as [c'' rs]; simpl in *.
    rewrite B, B'. auto.
  Qed.

  (** ** no_type_error *)
  Theorem no_type_error_run s p0 h :
    forallb wf_op h = true ->
    forallb is_ok (snd (run (construct s p0) h)) = true.
  Proof. intros Hh. apply run_Inv; auto. apply construct_Inv. Qed.

  (** ** same data *)
  Fixpoint sim (a b : coll) : Prop :=
    match a, b with
    | Sphere c r, Sphere c' r' => dat c = dat c' /\ r = r'
    | Capsule p r h, Capsule p' r' h' => dat p = dat p' /\ r = r' /\ h = h'
    | Cylinder p r h, Cylinder p' r' h' => dat p = dat p' /\ r = r' /\ h = h'
    | Cone p r h, Cone p' r' h' => dat p = dat p' /\ r = r' /\ h = h'
    | Ellipsoid p r, Ellipsoid p' r' => dat p = dat p' /\ dat r = dat r'
    | Box p s v, Box p' s' v' => dat p = dat p' /\ dat s = dat s' /\ dat v = dat v'
    | Disk c r n, Disk c' r' n' => dat c = dat c' /\ r = r' /\ dat n = dat n'
    | Ellipse c a r, Ellipse c' a' r' => dat c = dat c' /\ dat a = dat a' /\ dat r = dat r'
    | MeshGraph p v cn sp _, MeshGraph p' v' cn' sp' _ =>
        dat p = dat p' /\ dat v = dat v' /\ cn = cn' /\ dat sp = dat sp'
    | Margin c m, Margin c' m' => sim c c' /\ m = m'
    | _, _ => False
    end.

  (** ... and the same cached start vertices *)
  Fixpoint same_idx (a b : coll) : Prop :=
    match a, b with
    | MeshGraph _ _ _ _ i, MeshGraph _ _ _ _ j => i = j
    | Margin c _, Margin c' _ => same_idx c c'
    | _, _ => True
    end.

  (** [b] with the cached start vertices of [a] *)
  Fixpoint with_idx_of (a b : coll) : coll :=
    match a, b with
    | MeshGraph _ _ _ _ i, MeshGraph p v cn sp _ => MeshGraph p v cn sp i
    | Margin c _, Margin c' m => Margin (with_idx_of c c') m
    | _, _ => b
    end.

  Fixpoint mesh_free (s : spec) : bool :=
    match s with PMesh _ _ _ _ _ => false | PMargin _ _ s' _ => mesh_free s' | _ => true end.

  Lemma sim_refl c : sim c c.
  Proof. induction c; simpl; auto. Qed.

  Lemma sim_with_idx a b : sim a b -> sim a (with_idx_of a b) /\ same_idx a (with_idx_of a b).
  Proof.
    revert b; induction a; intros b; destruct b; simpl; try tauto.
    intros (H & ->). destruct (IHa _ H). auto.
  Qed.

  Lemma Inv_with_idx a b : Inv b -> Inv (with_idx_of a b).
  Proof. revert b; induction a; intros b; destruct b; simpl; auto. Qed.

  Lemma mesh_free_with_idx s p a : mesh_free s = true -> with_idx_of a (construct s p) = construct s p.
  Proof.
    revert a; induction s; intros a Hm; simpl in *; try discriminate; destruct a; simpl; auto.
    rewrite IHs; auto.
  Qed.

  (** [update_pose] with pose [p] leads to the data of [construct s p], whatever the
      history was (this is where a stale cache would show) *)
  Lemma update_sim s : forall p c pose,
    lay pose = LC -> Inv c -> sim c (construct s p) ->
    sim (fst (update_pose c pose)) (construct s (dat pose)).
  Proof.
    induction s; intros p c pose Hp HI Hs; destruct c; simpl in Hs; try contradiction; simpl.
    - destruct Hs as (_ & ->). tables. simpl. auto.
    - destruct Hs as (_ & -> & ->). auto.
    - destruct Hs as (_ & -> & ->). auto.
    - destruct Hs as (_ & -> & ->). auto.
    - destruct Hs as (_ & ->). auto.
    - (* Box: the vertex cache is recomputed from the new pose *)
      destruct Hs as (_ & Hsz & _). destruct HI as (H1 & H2).
      destruct pose as [lp dp], size0 as [ls ds]. simpl in *. subst. tables. simpl. auto.
    - destruct Hs as (_ & -> & _). tables. simpl. auto.
    - destruct Hs as (_ & _ & Hr). tables. simpl. auto.
    - (* Mesh: both copies of the pose are replaced *)
      destruct Hs as (_ & Hv & -> & _). simpl. auto.
    - destruct Hs as (Hs & ->). simpl in HI.
      specialize (IHs p c pose Hp HI Hs).
      destruct (Colliders.update_pose F Conn K current c pose) as [c'' r]; simpl in *. auto.
  Qed.

  (** queries do not change the data *)
  Lemma support_sim c d : sim (fst (support c d)) c.
  Proof.
    induction c; simpl; auto using sim_refl; try (repeat split; reflexivity).
    - destruct (Colliders.support F Conn K current c d) as [c'' r]; simpl in *. auto.
  Qed.

  Lemma sim_trans a b c : sim a b -> sim b c -> sim a c.
  Proof.
    revert b c; induction a; intros b c'; destruct b; simpl; try tauto; destruct c'; simpl; try tauto;
      intuition (try congruence; eauto).
  Qed.

  Lemma sim_sym a b : sim a b -> sim b a.
  Proof.
    revert b; induction a; intros b; destruct b; simpl; try tauto; intuition (try congruence; eauto).
  Qed.

  Lemma query_sim c q : sim (fst (run_query c q)) c.
  Proof. destruct q; simpl; auto using sim_refl, support_sim. Qed.

  Lemma run_sim s h : forall p c,
    forallb wf_op h = true -> Inv c -> sim c (construct s p) ->
    sim (fst (run c h)) (construct s (last_pose p h)).
  Proof.
    induction h as [|o h IH]; intros p c Hh HI Hs; simpl in *; auto.
    apply andb_true_iff in Hh as (Ho & Hh).
    destruct (step_Inv c o Ho HI) as (A & _).
    destruct o as [pose|q]; simpl in *.
    - apply is_C_LC in Ho.
      pose proof (update_sim s p c pose Ho HI Hs) as Hu.
      destruct (Colliders.update_pose F Conn K current c pose) as [c' r]; simpl in *.
      specialize (IH (dat pose) c' Hh A Hu).
      destruct (Colliders.run F Conn K current c' h) as [c'' rs]; simpl in *. auto.
    - pose proof (query_sim c q) as Hq.
      destruct (Colliders.run_query F Conn K current c q) as [c' r]; simpl in *.
      specialize (IH p c' Hh A (sim_trans _ _ _ Hq Hs)).
      destruct (Colliders.run F Conn K current c' h) as [c'' rs]; simpl in *. auto.
  Qed.

  (** observables depend on the data only (and, for support, on the cached start vertex) *)
  Lemma dat_maybe {T} b (a : arr T) : dat (maybe_contig b a) = dat a.
  Proof. destruct b; reflexivity. Qed.

  Ltac arrs := repeat match goal with a : arr _ |- _ => destruct a end; simpl in *.
  Ltac closed := arrs; intuition subst; tables; simpl; reflexivity.

  Lemma support_data a : forall b d,
    lay d = LC -> Inv a -> Inv b -> sim a b -> same_idx a b ->
    snd (support a d) = snd (support b d).
  Proof.
    induction a; intros b d Hd Ha Hb Hs Hi; destruct b; simpl in Hs; try contradiction.
    1-9: closed.
    (* Margin *)
    destruct Hs as (Hs & ->). simpl in *.
    specialize (IHa b d Hd Ha Hb Hs Hi).
    destruct (Colliders.support F Conn K current a d) as [a' ra];
    destruct (Colliders.support F Conn K current b d) as [b' rb]; simpl in *. subst rb. auto.
  Qed.

  Lemma aabb_data a : forall b, Inv a -> Inv b -> sim a b -> aabb a = aabb b.
  Proof.
    induction a; intros b Ha Hb Hs; destruct b; simpl in Hs; try contradiction.
    1-9: closed.
    destruct Hs as (Hs & ->). simpl in *. rewrite (IHa b Ha Hb Hs). auto.
  Qed.

  Lemma center_data a : forall b, sim a b -> center a = center b.
  Proof.
    induction a; intros b Hs; destruct b; simpl in Hs; try contradiction.
    1-9: closed.
    destruct Hs as (Hs & _). simpl. auto.
  Qed.

  Lemma first_vertex_data a : forall b, Inv a -> Inv b -> sim a b -> first_vertex a = first_vertex b.
  Proof.
    induction a; intros b Ha Hb Hs; destruct b; simpl in Hs; try contradiction.
    1-9: closed.
    destruct Hs as (Hs & _). simpl in *. auto.
  Qed.

  Lemma collider2origin_data a : forall b, Inv a -> Inv b -> sim a b -> collider2origin a = collider2origin b.
  Proof.
    induction a; intros b Ha Hb Hs; destruct b; simpl in Hs; try contradiction.
    1-9: closed.
    destruct Hs as (Hs & _). simpl in *. auto.
  Qed.

  Definition is_support (q : query) : bool := match q with QSupport _ => true | _ => false end.

  (** ** update_equals_fresh *)
  Theorem update_equals_fresh_run s p0 h :
    forallb wf_op h = true ->
    let c := fst (run (construct s p0) h) in
    let f := construct s (last_pose p0 h) in
    sim c f /\
    (forall q, wf_query q = true -> is_support q = false ->
       snd (run_query c q) = snd (run_query f q) /\ is_ok (snd (run_query c q)) = true) /\
    (forall d, lay d = LC ->
       snd (support c d) = snd (support (with_idx_of c f) d) /\ is_ok (snd (support c d)) = true) /\
    (mesh_free s = true -> with_idx_of c f = f).
  Proof.
    intros Hh c f.
    assert (HIc : Inv c) by (apply run_Inv; auto; apply construct_Inv).
    assert (HIf : Inv f) by apply construct_Inv.
    assert (Hs : sim c f) by (apply run_sim; auto using construct_Inv, sim_refl).
    split; [exact Hs|]. split; [|split].
    - intros q Hq Hns. split; [|apply query_Inv; auto].
      destruct q; simpl in *; try discriminate.
      + apply aabb_data; auto.
      + apply center_data; auto.
      + apply first_vertex_data; auto.
      + apply collider2origin_data; auto.
    - intros d Hd. destruct (sim_with_idx c f Hs) as (S1 & S2). split.
      + apply support_data; auto. apply Inv_with_idx; auto.
      + apply support_Inv; auto.
    - intros Hm. apply mesh_free_with_idx; auto.
  Qed.
End Proofs.

(** ** the defect fixed by b36ceae, on the configuration of the old code *)
Section Old.
  Variable F : Type.
  Variable Conn : Type.
  Variable K : kern F Conn.

  Lemma disk_old r p0 pose d :
    lay pose = LC -> lay d = LC ->
    snd (run F Conn K before_b36ceae (construct F Conn K (PDisk F Conn r) p0)
             [Update pose; Query (QSupport d)]) = [Ok ONone; Raise TypeError].
  Proof.
    destruct pose as [lp dp], d as [ld dd]; simpl; intros -> ->. reflexivity.
  Qed.

  Lemma ellipse_old r p0 pose d :
    lay pose = LC -> lay d = LC ->
    snd (run F Conn K before_b36ceae (construct F Conn K (PEllipse F Conn r) p0)
             [Update pose; Query (QSupport d)]) = [Ok ONone; Raise TypeError].
  Proof.
    destruct pose as [lp dp], d as [ld dd]; simpl; intros -> ->. reflexivity.
  Qed.

  (** the same two operations on the current code *)
  Lemma disk_now r p0 pose d :
    lay pose = LC -> lay d = LC ->
    exists v, snd (run F Conn K current (construct F Conn K (PDisk F Conn r) p0)
                       [Update pose; Query (QSupport d)]) = [Ok ONone; Ok (OVec v)].
  Proof.
    destruct pose as [lp dp], d as [ld dd]; simpl; intros -> ->. eexists. reflexivity.
  Qed.
End Old.
