(** * Bounds on the number of support evaluations of the capped narrow-phase loops, for every
      oracle (i.e. whatever the geometry and the floating-point arithmetic decide), and the
      statement that the uncapped loops have no such bound in their control structure. *)
From Coq Require Import Arith Bool Lia.
From D3 Require Import Model.GjkCaps.

Lemma for_range_bound n per ret : forall pass count,
  for_range n per ret pass count <= count + n * per.
Proof.
  induction n as [|n IH]; intros pass count; simpl; [lia|].
  destruct (ret pass); [lia|]. specialize (IH (S pass) (count + per)). lia.
Qed.

Theorem libccd_bound max_iterations pairs ret :
  libccd_evals max_iterations pairs ret <= 2 * pairs * max_iterations.
Proof. unfold libccd_evals. pose proof (for_range_bound max_iterations (2 * pairs) ret 0 0). lia. Qed.

Theorem epa_bound max_iter per ret : epa_evals max_iter per ret <= per * max_iter.
Proof. unfold epa_evals. pose proof (for_range_bound max_iter per ret 0 0). lia. Qed.

Lemma pre_seq_bound pre ret : forall k count, fst (pre_seq pre ret k count) <= count + 2 * pre.
Proof.
  induction pre as [|p IH]; intros k count; simpl; [lia|].
  destruct (ret k); simpl; [lia|]. specialize (IH (S k) (count + 2)). lia.
Qed.

(** number of passes the cap allows when the counter is incremented before the test *)
Definition cap_passes (is_ge : bool) (cap : nat) : nat := if is_ge then Nat.max cap 1 else S cap.

Lemma discover_loop_bound is_ge cap outside built : forall fuel it count c,
  discover_loop fuel is_ge cap outside built it count = Some c ->
  c <= count + 2 * (cap_passes is_ge cap - it) \/ (cap_passes is_ge cap <= it /\ c = count + 2).
Proof.
  induction fuel as [|f IH]; intros it count c H; simpl in H; [discriminate|].
  destruct (outside it).
  { inversion H; subst. destruct (le_lt_dec (cap_passes is_ge cap) it); [right; lia|left; lia]. }
  destruct (cap_test is_ge (S it) cap) eqn:EC.
  { inversion H; subst. destruct (le_lt_dec (cap_passes is_ge cap) it); [right; lia|left; lia]. }
  destruct (built it).
  { inversion H; subst. destruct (le_lt_dec (cap_passes is_ge cap) it); [right; lia|left; lia]. }
  apply IH in H.
  assert (S it < cap_passes is_ge cap).
  { unfold cap_test, cap_passes in *. destruct is_ge.
    - apply Nat.leb_gt in EC. lia.
    - apply Nat.ltb_ge in EC. lia. }
  destruct H as [H|(H1 & H2)]; [left; lia|lia].
Qed.

Lemma discover_loop_fuel is_ge cap outside built : forall fuel it count,
  cap_passes is_ge cap - it < fuel -> discover_loop fuel is_ge cap outside built it count <> None.
Proof.
  induction fuel as [|f IH]; intros it count Hf; [lia|]. simpl.
  destruct (outside it); [discriminate|].
  destruct (cap_test is_ge (S it) cap) eqn:EC; [discriminate|].
  destruct (built it); [discriminate|].
  apply IH.
  unfold cap_test, cap_passes in *. destruct is_ge.
  - apply Nat.leb_gt in EC. lia.
  - apply Nat.ltb_ge in EC. lia.
Qed.

Theorem discover_bound fuel pre is_ge cap ret_pre outside built c :
  discover_evals fuel pre is_ge cap ret_pre outside built = Some c ->
  c <= 2 * pre + 2 * cap_passes is_ge cap.
Proof.
  unfold discover_evals. destruct (pre_seq pre ret_pre 0 0) as (count, returned) eqn:E.
  pose proof (pre_seq_bound pre ret_pre 0 0) as HB. rewrite E in HB. simpl in HB.
  destruct returned.
  - intros H; inversion H; subst. lia.
  - intros H. apply discover_loop_bound in H.
    assert (1 <= cap_passes is_ge cap) by (unfold cap_passes; destruct is_ge; lia).
    destruct H as [H|(H1 & H2)]; lia.
Qed.

Theorem discover_terminates fuel pre is_ge cap ret_pre outside built :
  cap_passes is_ge cap < fuel -> discover_evals fuel pre is_ge cap ret_pre outside built <> None.
Proof.
  intros Hf. unfold discover_evals. destruct (pre_seq pre ret_pre 0 0) as (count, returned).
  destruct returned; [discriminate|]. apply discover_loop_fuel. lia.
Qed.

(** _find_penetration_info: the counter is tested before it is incremented *)
Definition pen_passes (is_ge : bool) (cap : nat) : nat := if is_ge then S cap else S (S cap).

Lemma pen_loop_bound is_ge cap tol : forall fuel iterations count c,
  pen_loop fuel is_ge cap tol iterations count = Some c ->
  c <= count + 2 * (pen_passes is_ge cap - iterations) \/ (pen_passes is_ge cap <= iterations /\ c = count + 2).
Proof.
  induction fuel as [|f IH]; intros it count c H; simpl in H; [discriminate|].
  destruct (tol it || cap_test is_ge it cap) eqn:E.
  { inversion H; subst. destruct (le_lt_dec (pen_passes is_ge cap) it); [right; lia|left; lia]. }
  apply orb_false_iff in E as (_ & EC).
  apply IH in H.
  assert (S it < pen_passes is_ge cap).
  { unfold cap_test, pen_passes in *. destruct is_ge.
    - apply Nat.leb_gt in EC. lia.
    - apply Nat.ltb_ge in EC. lia. }
  destruct H as [H|(H1 & H2)]; [left; lia|lia].
Qed.

Theorem pen_bound fuel is_ge cap tol c :
  pen_loop fuel is_ge cap tol 0 0 = Some c -> c <= 2 * pen_passes is_ge cap.
Proof.
  intros H. apply pen_loop_bound in H.
  assert (1 <= pen_passes is_ge cap) by (unfold pen_passes; destruct is_ge; lia).
  destruct H as [H|(H1 & H2)]; lia.
Qed.

Theorem pen_terminates is_ge cap tol : forall fuel iterations count,
  pen_passes is_ge cap - iterations < fuel -> pen_loop fuel is_ge cap tol iterations count <> None.
Proof.
  induction fuel as [|f IH]; intros it count Hf; [lia|]. simpl.
  destruct (tol it || cap_test is_ge it cap) eqn:E; [discriminate|].
  apply orb_false_iff in E as (_ & EC). apply IH.
  unfold cap_test, pen_passes in *. destruct is_ge.
  - apply Nat.leb_gt in EC. lia.
  - apply Nat.ltb_ge in EC. lia.
Qed.

(** Nesterov: at most one `continue` ever happens, because all three switch the acceleration off
    and nothing switches it on again (the cut-off of commit 6bd22f2 only switches it off, too) *)
Definition b2n (b : bool) : nat := if b then 1 else 0.

Lemma b2n_cut acc x : b2n (acc && x) <= b2n acc.
Proof. destruct acc, x; simpl; lia. Qed.

Lemma nesterov_loop_bound cap ray_short omega gap cv dup inside : forall fuel i acc pass count c,
  nesterov_loop fuel cap ray_short omega gap cv dup inside i acc pass count = Some c ->
  c <= count + 2 * ((cap - i) + b2n acc).
Proof.
  induction fuel as [|f IH]; intros i acc pass count c H; [discriminate|].
  cbn [nesterov_loop] in H. cbv zeta in H.
  destruct (i <? cap) eqn:EI.
  2:{ inversion H; subst. lia. }
  apply Nat.ltb_lt in EI.
  destruct (ray_short pass). { inversion H; subst. lia. }
  pose proof (b2n_cut acc (negb (cap / 4 <=? i))) as Hc.
  set (acc' := acc && negb (cap / 4 <=? i)) in *.
  destruct (omega pass). { inversion H; subst. lia. }
  destruct (acc' && gap pass) eqn:EA.
  { apply andb_true_iff in EA as (EA & _). rewrite EA in Hc. apply IH in H. simpl in *. lia. }
  destruct ((0 <? i) && cv pass).
  { destruct acc'.
    - apply IH in H. simpl in *. lia.
    - inversion H; subst. lia. }
  destruct (dup pass).
  { destruct acc'.
    - apply IH in H. simpl in *. lia.
    - inversion H; subst. lia. }
  destruct (inside pass). { inversion H; subst. lia. }
  apply IH in H. lia.
Qed.

Theorem nesterov_bound fuel cap ray_short omega gap cv dup inside acc c :
  nesterov_loop fuel cap ray_short omega gap cv dup inside 0 acc 0 0 = Some c -> c <= 2 * (cap + 1).
Proof. intros H. apply nesterov_loop_bound in H. destruct acc; simpl in H; lia. Qed.

Theorem nesterov_terminates cap ray_short omega gap cv dup inside : forall fuel i acc pass count,
  (cap - i) + b2n acc < fuel ->
  nesterov_loop fuel cap ray_short omega gap cv dup inside i acc pass count <> None.
Proof.
  induction fuel as [|f IH]; intros i acc pass count Hf; [lia|]. cbn [nesterov_loop]. cbv zeta.
  destruct (i <? cap) eqn:EI; [|discriminate]. apply Nat.ltb_lt in EI.
  destruct (ray_short pass); [discriminate|].
  pose proof (b2n_cut acc (negb (cap / 4 <=? i))) as Hc.
  set (acc' := acc && negb (cap / 4 <=? i)) in *.
  destruct (omega pass); [discriminate|].
  destruct (acc' && gap pass) eqn:EA.
  { apply andb_true_iff in EA as (EA & _). rewrite EA in Hc. apply IH. simpl in *. lia. }
  destruct ((0 <? i) && cv pass).
  { destruct acc'; [|discriminate]. apply IH. simpl in *. lia. }
  destruct (dup pass).
  { destruct acc'; [|discriminate]. apply IH. simpl in *. lia. }
  destruct (inside pass); [discriminate|].
  apply IH. lia.
Qed.

(** ** the uncapped loops: their control structure alone bounds nothing.  For every N there is
    an oracle (a sequence of geometric decisions) under which `while True` makes more than N
    support evaluations; any bound must come from the geometry (strict decrease of |v|^2 for
    Jolt / original GJK, portal progress for _refine_portal), which is monitored, not proved. *)
Lemma while_true_count leave : forall fuel pass count c,
  while_true_loop fuel leave pass count = Some c -> count + 2 <= c.
Proof.
  induction fuel as [|f IH]; intros pass count c H; simpl in H; [discriminate|].
  destruct (leave pass); [inversion H; lia|]. apply IH in H. lia.
Qed.

Lemma while_true_run N : forall fuel pass count,
  pass <= N -> N - pass < fuel ->
  while_true_loop fuel (fun p => N <=? p) pass count = Some (count + 2 * (S (N - pass))).
Proof.
  induction fuel as [|f IH]; intros pass count Hp Hf; [lia|]. simpl.
  destruct (N <=? pass) eqn:E.
  - apply Nat.leb_le in E. replace (N - pass) with 0 by lia. f_equal; lia.
  - apply Nat.leb_gt in E. rewrite IH by lia. f_equal; lia.
Qed.

Theorem uncapped_loop_has_no_structural_bound :
  forall N, exists leave fuel c, while_true_loop fuel leave 0 0 = Some c /\ N < c.
Proof.
  intros N. exists (fun p => N <=? p), (S (S N)), (2 * S N). split.
  - rewrite while_true_run by lia. f_equal. lia.
  - lia.
Qed.
