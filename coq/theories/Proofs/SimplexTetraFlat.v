From Coq Require Import List NArith QArith Qreals Reals Lra Psatz Bool Lia.
From D3 Require Import Base.Ops Base.Vec Base.RVec Spec.Convex Spec.ConvexHull Model.Simplex
  Proofs.SimplexLine Proofs.SimplexTriangle Proofs.SimplexTetra Proofs.SimplexCara.
Import ListNotations.
Local Open Scope R_scope.

(** ** Jolt, flat tetrahedron (V6 = 0: the "mixed signs" arm): all four faces are examined; with
       non-degenerate faces the result is exact, because a flat tetrahedron is the union of its faces *)
Lemma oop_flat a b c d : V6 a b c d = 0 ->
  @origin_outside_of_tetrahedron_planes R ROps a b c d = (true, true, true, true).
Proof.
  intros HV. unfold origin_outside_of_tetrahedron_planes, origin_outside_of_tetrahedron_planes_t.
  cbn [ltb leb ROps zero opp]. rewrite (signd1_eq a b c d), (signd2_eq a b c d), (signd3_eq a b c d).
  change (dot (vsub d a) (cross (vsub b a) (vsub c a))) with (V6 a b c d). rewrite HV.
  replace (Rltb 0 0) with false by (symmetry; apply Rltb_false; lra).
  cbn [andb fst]. reflexivity.
Qed.

Theorem jolt_tetra_flat (a b c d : V3R) :
  let nsq (u v w : V3R) := dot (cross (vsub v u) (vsub w u)) (cross (vsub v u) (vsub w u)) in
  V6 a b c d = 0 ->
  eps * eps <= nsq a b c -> eps * eps <= nsq a c d -> eps * eps <= nsq a d b -> eps * eps <= nsq b d c ->
  dot a a < maxf -> dot b b < maxf -> dot c c < maxf -> dot d d < maxf ->
  let r := @closest_point_tetrahedron R ROps a b c d in
  conv_hull (update_simplex_y [a; b; c; d] 4 (snd r)) (fst r) /\ is_min_norm [a; b; c; d] (fst r).
Proof.
  intros nsq HV N0 N1 N2 N3 Ma Mb Mc Md r.
  destruct (jolt_triangle_correct a b c N0) as (S0 & U0 & [I0 L0]).
  destruct (jolt_triangle_correct a c d N1) as (S1 & U1 & [I1 L1]).
  destruct (jolt_triangle_correct a d b N2) as (S2 & U2 & [I2 L2]).
  destruct (jolt_triangle_correct b d c N3) as (S3 & U3 & [I3 L3]).
  set (q0 := @closest_point_triangle R ROps a b c) in *.
  set (q1 := @closest_point_triangle R ROps a c d) in *.
  set (q2 := @closest_point_triangle R ROps a d b) in *.
  set (q3 := @closest_point_triangle R ROps b d c) in *.
  assert (Hle : forall (p y : V3R), norm p <= norm y -> dot y y < maxf -> dot p p < maxf).
  { intros p y Hn Hy. pose proof (norm_sq p). pose proof (norm_sq y).
    pose proof (norm_nonneg p). pose proof (norm_nonneg y). nra. }
  assert (Ain0 : conv_hull [a; b; c] a) by (apply conv_hull_In; simpl; auto).
  assert (Ain1 : conv_hull [a; c; d] a) by (apply conv_hull_In; simpl; auto).
  assert (Ain2 : conv_hull [a; d; b] a) by (apply conv_hull_In; simpl; auto).
  assert (Bin3 : conv_hull [b; d; c] b) by (apply conv_hull_In; simpl; auto).
  assert (Hm : forall i, (i < 4)%nat -> dot (fst (tcand a b c d i)) (fst (tcand a b c d i)) < maxf).
  { intros i Hi. destruct i as [|[|[|[|i]]]]; cbn [tcand fst]; try (exfalso; clear -Hi; lia).
    - eapply Hle; [apply (L0 a Ain0)|auto].
    - eapply Hle; [apply (L1 a Ain1)|auto].
    - eapply Hle; [apply (L2 a Ain2)|auto].
    - eapply Hle; [apply (L3 b Bin3)|auto]. }
  assert (F0 : forall x, conv_hull [a; b; c] x -> conv_hull [a; b; c; d] x)
    by (apply conv_hull_incl; intros v Hv; simpl in *; tauto).
  assert (F1 : forall x, conv_hull [a; c; d] x -> conv_hull [a; b; c; d] x)
    by (apply conv_hull_incl; intros v Hv; simpl in *; tauto).
  assert (F2 : forall x, conv_hull [a; d; b] x -> conv_hull [a; b; c; d] x)
    by (apply conv_hull_incl; intros v Hv; simpl in *; tauto).
  assert (F3 : forall x, conv_hull [b; d; c] x -> conv_hull [a; b; c; d] x)
    by (apply conv_hull_incl; intros v Hv; simpl in *; tauto).
  assert (P2 : forall x, conv_hull [a; b; d] x -> conv_hull [a; d; b] x)
    by (apply conv_hull_incl; intros v Hv; simpl in *; tauto).
  assert (P3 : forall x, conv_hull [b; c; d] x -> conv_hull [b; d; c] x)
    by (apply conv_hull_incl; intros v Hv; simpl in *; tauto).
  assert (Hex : forall j, texamined a b c d j = true).
  { intros j. unfold texamined. rewrite (oop_flat a b c d HV). destruct j as [|[|[|j]]]; reflexivity. }
  destruct (tetra_structure a b c d Hm) as [[Hnone _]|(i & Hi & Hexi & Hr & Hbest)].
  { exfalso. specialize (Hnone 0%nat ltac:(lia)). rewrite Hex in Hnone. discriminate. }
  fold r in Hr, Hbest.
  assert (Hsub : conv_hull (update_simplex_y [a; b; c; d] 4 (snd r)) (fst r) /\ conv_hull [a; b; c; d] (fst r)).
  { rewrite Hr. destruct i as [|[|[|[|i]]]]; cbn [tcand fst snd]; try (exfalso; clear -Hi; lia).
    - split; [apply face0_subset; auto|apply F0; auto].
    - split; [apply face1_subset; auto|apply F1; auto].
    - split; [apply face2_subset; auto|apply F2; auto].
    - split; [apply face3_subset; auto|apply F3; auto]. }
  destruct Hsub as [Hsub Hin]. split; auto. split; auto.
  intros x Hx.
  destruct (flat_hull_faces a b c d x HV Hx) as [Hy|[Hy|[Hy|Hy]]].
  - specialize (Hbest 3%nat ltac:(lia) (Hex 3%nat)). cbn [tcand fst] in Hbest.
    apply norm_le_of_sq in Hbest. specialize (L3 x (P3 x Hy)). fold q3 in Hbest. lra.
  - specialize (Hbest 1%nat ltac:(lia) (Hex 1%nat)). cbn [tcand fst] in Hbest.
    apply norm_le_of_sq in Hbest. specialize (L1 x Hy). fold q1 in Hbest. lra.
  - specialize (Hbest 2%nat ltac:(lia) (Hex 2%nat)). cbn [tcand fst] in Hbest.
    apply norm_le_of_sq in Hbest. specialize (L2 x (P2 x Hy)). fold q2 in Hbest. lra.
  - specialize (Hbest 0%nat ltac:(lia) (Hex 0%nat)). cbn [tcand fst] in Hbest.
    apply norm_le_of_sq in Hbest. specialize (L0 x Hy). fold q0 in Hbest. lra.
Qed.
