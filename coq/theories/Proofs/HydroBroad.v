(** * Tree broad phase = brute-force broad phase (C16), a corollary of the C05 development.

    [RigidBody.aabb_tree] inserts the AABBs of all tetrahedra as ONE batch into an empty tree
    (mode "sort": some permutation of the rows), so row i of the tree is tetrahedron i.
    With the C05 lemmas ([insert_batch_spec], [overlaps_aabb_tree_WF]) the pair list of
    [overlaps_aabb_tree] has no duplicates and contains (i, j) iff the boxes of tetrahedron i
    of body 1 and tetrahedron j of body 2 overlap, which is what [all_aabbs_overlap] lists. *)
From Coq Require Import List Arith Bool Lia Permutation.
From D3 Require Import Base.Ops Base.Vec Model.AabbTree Model.HydroWrench
     Proofs.AabbTreeQuery Proofs.AabbTreeInsert Proofs.AabbTreeProofs.
Import ListNotations.

Section Broad.
  Variable C : Type.
  Variable le : C -> C -> bool.
  Variables cmin cmax : C -> C -> C.
  Variable czero : C.
  Variable go_left : box C -> box C -> box C -> bool.
  Variable cost_ok : box C -> box C -> box C -> box C -> bool.
  Hypothesis le_trans : forall a b c, le a b = true -> le b c = true -> le a c = true.
  Hypothesis cmin_l : forall a b, le (cmin a b) a = true.
  Hypothesis cmin_r : forall a b, le (cmin a b) b = true.
  Hypothesis cmax_l : forall a b, le a (cmax a b) = true.
  Hypothesis cmax_r : forall a b, le b (cmax a b) = true.
  Notation box := (box C).
  Notation insert_batch := (insert_batch C cmin cmax czero go_left cost_ok nat).
  Notation empty := (empty_tree C nat).

  (** the brute-force list: row-major, (i, j) with overlapping boxes *)
  Definition brute (a1 a2 : list box) : list (nat * nat) :=
    flat_map (fun ib => map (fun jb => (fst ib, fst jb))
                            (filter (fun jb => overlap C le (snd ib) (snd jb)) (combine (seq 0 (length a2)) a2)))
             (combine (seq 0 (length a1)) a1).

  Lemma in_combine_seq {A} (l : list A) : forall k i x,
    In (i, x) (combine (seq k (length l)) l) <-> k <= i /\ nth_error l (i - k) = Some x.
  Proof.
    induction l as [|a l IH]; intros k i x; cbn [length seq combine In].
    - split; [tauto|]. intros [_ H]. destruct (i - k); discriminate.
    - rewrite IH. split.
      + intros [H|[H1 H2]].
        * injection H as <- <-. rewrite Nat.sub_diag. split; [lia|reflexivity].
        * split; [lia|]. replace (i - k) with (S (i - S k)) by lia. exact H2.
      + intros [H1 H2]. destruct (Nat.eq_dec i k) as [->|Hne].
        * rewrite Nat.sub_diag in H2. injection H2 as <-. now left.
        * right. split; [lia|]. replace (i - k) with (S (i - S k)) in H2 by lia. exact H2.
  Qed.

  Lemma in_brute a1 a2 i j :
    In (i, j) (brute a1 a2) <->
    exists b1 b2, nth_error a1 i = Some b1 /\ nth_error a2 j = Some b2 /\ overlap C le b1 b2 = true.
  Proof.
    unfold brute. rewrite in_flat_map. split.
    - intros ([i' b1] & Hi & Hin). apply in_map_iff in Hin as ([j' b2] & Heq & Hj).
      cbn [fst snd] in *. injection Heq as <- <-. apply filter_In in Hj as [Hj Hov]. cbn [snd] in Hov.
      apply in_combine_seq in Hi as [_ Hi]. apply in_combine_seq in Hj as [_ Hj].
      rewrite Nat.sub_0_r in Hi, Hj. exists b1, b2. auto.
    - intros (b1 & b2 & H1 & H2 & Hov). exists (i, b1). split.
      + apply in_combine_seq. rewrite Nat.sub_0_r. split; [lia|exact H1].
      + apply in_map_iff. exists (j, b2). split; [reflexivity|]. apply filter_In. split; [|exact Hov].
        apply in_combine_seq. rewrite Nat.sub_0_r. split; [lia|exact H2].
  Qed.

  Lemma in_assign_none (bs : list box) : forall k i b (d : option nat),
    In (i, b, d) (assign C nat k bs None) <-> d = None /\ k <= i /\ nth_error bs (i - k) = Some b.
  Proof.
    induction bs as [|a bs IH]; intros k i b d; cbn [assign In].
    - split; [tauto|]. intros (_ & _ & H). destruct (i - k); discriminate.
    - rewrite IH. split.
      + intros [H|(Hd & H1 & H2)].
        * injection H as <- <- <-. rewrite Nat.sub_diag. repeat split; auto.
        * split; [exact Hd|]. split; [lia|]. replace (i - k) with (S (i - S k)) by lia. exact H2.
      + intros (Hd & H1 & H2). destruct (Nat.eq_dec i k) as [->|Hne].
        * rewrite Nat.sub_diag in H2. injection H2 as <-. subst d. now left.
        * right. split; [exact Hd|]. split; [lia|]. replace (i - k) with (S (i - S k)) in H2 by lia. exact H2.
  Qed.

  (** For every pair of AABB arrays and every pair of insertion orders that permute the rows
      (this covers "sort", "shuffle" and "none"): if both one-batch trees are built, the tree
      query succeeds, lists no pair twice, and lists exactly the pairs of the brute-force
      broad phase. *)
  Theorem tree_vs_brute_same_pairs (a1 a2 : list box) (o1 o2 : list nat) t1 t2 :
    Permutation o1 (seq 0 (length a1)) -> Permutation o2 (seq 0 (length a2)) ->
    insert_batch empty a1 None o1 = Ok t1 -> insert_batch empty a2 None o2 = Ok t2 ->
    exists l, overlaps_aabb_tree C le nat t1 t2 = Ok l /\ NoDup l /\
              forall i j, In (i, j) l <-> In (i, j) (brute a1 a2).
  Proof.
    intros Ho1 Ho2 H1 H2.
    pose proof (insert_batch_spec C le cmin cmax czero go_left cost_ok nat empty [] a1 None o1
                  (WF_empty C le cmin cmax czero go_left cost_ok nat) Ho1) as W1.
    pose proof (insert_batch_spec C le cmin cmax czero go_left cost_ok nat empty [] a2 None o2
                  (WF_empty C le cmin cmax czero go_left cost_ok nat) Ho2) as W2.
    rewrite H1 in W1. rewrite H2 in W2. cbn [batch_post app filled empty_tree] in W1, W2.
    destruct (overlaps_aabb_tree_WF C le cmin cmax nat le_trans cmin_l cmin_r cmax_l cmax_r
                t1 _ t2 _ W1 W2) as (l & Hl & Hnd & Hin).
    exists l. split; [exact Hl|]. split; [exact Hnd|].
    intros i j. rewrite Hin, in_brute. split.
    - intros ([[i1 b1] d1] & [[j2 b2] d2] & He1 & He2 & Hi & Hj & Hov).
      unfold eidx, ebox in *. cbn [fst snd] in *. subst i j.
      apply in_assign_none in He1 as (_ & _ & He1). apply in_assign_none in He2 as (_ & _ & He2).
      rewrite Nat.sub_0_r in He1, He2. exists b1, b2. auto.
    - intros (b1 & b2 & Hb1 & Hb2 & Hov).
      exists (i, b1, None), (j, b2, None). unfold eidx, ebox. cbn [fst snd].
      repeat split; auto; apply in_assign_none; rewrite Nat.sub_0_r; repeat split; auto; lia.
  Qed.
End Broad.

(** the list [brute] is the model's [all_aabbs_overlap] (Model/HydroWrench.v) *)
Lemma brute_is_all_aabbs_overlap (F : Type) (le : F -> F -> bool) (a1 a2 : list (box F)) :
  brute F le a1 a2 = all_aabbs_overlap le a1 a2.
Proof. reflexivity. Qed.
