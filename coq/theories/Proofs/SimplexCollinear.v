From Coq Require Import List NArith QArith Reals Lra Psatz Bool Lia.
From D3 Require Import Base.Ops Base.Vec Base.RVec Spec.Convex Spec.ConvexHull Model.Simplex
  Proofs.SimplexLine Proofs.SimplexTriangle Proofs.SimplexTetra Proofs.SimplexCara.
Import ListNotations.
Local Open Scope R_scope.

(** * Three exactly collinear points (duplicates included): the hull is the union of the three
      segments, so the degenerate branch of the Jolt triangle ("best of the three edges") is within
      EPSILON of the minimum over the whole hull. *)
Lemma hull3_weights (a b c x : V3R) :
  conv_hull [a; b; c] x ->
  exists w0 w1 w2, 0 <= w0 /\ 0 <= w1 /\ 0 <= w2 /\ w0 + w1 + w2 = 1 /\
    x = vadd (vadd (vscale w0 a) (vscale w1 b)) (vscale w2 c).
Proof.
  intros (ws & Hl & Hw & Hs & ->).
  destruct ws as [|w0 [|w1 [|w2 [|? ?]]]]; simpl in Hl; try discriminate.
  inversion Hw as [|? ? H0 Hw1]; subst. inversion Hw1 as [|? ? H1 Hw2]; subst.
  inversion Hw2 as [|? ? H2 _]; subst.
  exists w0, w1, w2. simpl in Hs. repeat split; auto; try lra.
  simpl. vsimp. f_equal; ring.
Qed.

Lemma eliminate3 (a b c : V3R) (w0 w1 w2 c0 c1 c2 : R) :
  0 <= w0 -> 0 <= w1 -> 0 <= w2 -> w0 + w1 + w2 = 1 ->
  c0 + c1 + c2 = 0 ->
  vadd (vadd (vscale c0 a) (vscale c1 b)) (vscale c2 c) = vzero ->
  (0 < c0 \/ 0 < c1 \/ 0 < c2) ->
  let x := vadd (vadd (vscale w0 a) (vscale w1 b)) (vscale w2 c) in
  conv_hull [b; c] x \/ conv_hull [a; c] x \/ conv_hull [a; b] x.
Proof.
  intros H0 H1 H2 Hw Hc Hz Hpos x.
  set (B := 1 + (if Rlt_dec 0 c0 then w0 / c0 else 0) + (if Rlt_dec 0 c1 then w1 / c1 else 0)
              + (if Rlt_dec 0 c2 then w2 / c2 else 0)).
  assert (P : forall w c', 0 <= w -> 0 <= (if Rlt_dec 0 c' then w / c' else 0)).
  { intros w c' Hw'. destruct (Rlt_dec 0 c'); [|lra]. apply Rmult_le_pos; [lra|left; apply Rinv_0_lt_compat; lra]. }
  pose proof (P w0 c0 H0) as Q0. pose proof (P w1 c1 H1) as Q1. pose proof (P w2 c2 H2) as Q2.
  assert (HB : 0 <= B) by (unfold B; lra).
  set (r0 := ratio w0 c0 B). set (r1 := ratio w1 c1 B). set (r2 := ratio w2 c2 B).
  set (t := Rmin (Rmin r0 r1) r2).
  assert (Ht0 : t <= r0) by (unfold t; eapply Rle_trans; [apply Rmin_l|apply Rmin_l]).
  assert (Ht1 : t <= r1) by (unfold t; eapply Rle_trans; [apply Rmin_l|apply Rmin_r]).
  assert (Ht2 : t <= r2) by (unfold t; apply Rmin_r).
  assert (Htpos : 0 <= t).
  { unfold t. apply Rmin_glb; [apply Rmin_glb|]; apply ratio_nonneg; auto. }
  assert (HtB : t < B).
  { destruct Hpos as [Hp|[Hp|Hp]].
    - assert (r0 < B) by (unfold r0, ratio, B; destruct (Rlt_dec 0 c0); [lra|contradiction]). lra.
    - assert (r1 < B) by (unfold r1, ratio, B; destruct (Rlt_dec 0 c1); [lra|contradiction]). lra.
    - assert (r2 < B) by (unfold r2, ratio, B; destruct (Rlt_dec 0 c2); [lra|contradiction]). lra. }
  set (u0 := w0 - t * c0). set (u1 := w1 - t * c1). set (u2 := w2 - t * c2).
  assert (U0 : 0 <= u0) by (apply (ratio_keeps w0 c0 B t); auto).
  assert (U1 : 0 <= u1) by (apply (ratio_keeps w1 c1 B t); auto).
  assert (U2 : 0 <= u2) by (apply (ratio_keeps w2 c2 B t); auto).
  assert (Usum : u0 + u1 + u2 = 1) by (unfold u0, u1, u2; nra).
  assert (Hx : x = vadd (vadd (vscale u0 a) (vscale u1 b)) (vscale u2 c)).
  { assert (E : x = vsub x (vscale t vzero)) by (generalize x; intros z; vsimp; f_equal; ring).
    rewrite E, <- Hz. unfold x, u0, u1, u2. generalize a b c. clear. intros a b c. vsimp. f_equal; ring. }
  assert (Hmin : t = r0 \/ t = r1 \/ t = r2).
  { unfold t. destruct (rmin_or (Rmin r0 r1) r2) as [E|E]; rewrite E; auto.
    destruct (rmin_or r0 r1) as [E'|E']; rewrite E'; auto. }
  assert (Hzero : u0 = 0 \/ u1 = 0 \/ u2 = 0).
  { destruct Hmin as [E|[E|E]].
    - left. unfold u0. rewrite E. apply ratio_hits.
      destruct (Rlt_dec 0 c0); auto. exfalso. unfold r0, ratio in E. destruct (Rlt_dec 0 c0); [contradiction|lra].
    - right; left. unfold u1. rewrite E. apply ratio_hits.
      destruct (Rlt_dec 0 c1); auto. exfalso. unfold r1, ratio in E. destruct (Rlt_dec 0 c1); [contradiction|lra].
    - right; right. unfold u2. rewrite E. apply ratio_hits.
      destruct (Rlt_dec 0 c2); auto. exfalso. unfold r2, ratio in E. destruct (Rlt_dec 0 c2); [contradiction|lra]. }
  rewrite Hx. destruct Hzero as [Z|[Z|Z]]; rewrite Z in *.
  - left. replace (vadd (vadd (vscale 0 a) (vscale u1 b)) (vscale u2 c)) with (vadd (vscale u1 b) (vscale u2 c))
      by (generalize a b c; clear; intros; vsimp; f_equal; ring).
    apply conv_hull_2; auto; lra.
  - right; left. replace (vadd (vadd (vscale u0 a) (vscale 0 b)) (vscale u2 c)) with (vadd (vscale u0 a) (vscale u2 c))
      by (generalize a b c; clear; intros; vsimp; f_equal; ring).
    apply conv_hull_2; auto; lra.
  - right; right. replace (vadd (vadd (vscale u0 a) (vscale u1 b)) (vscale 0 c)) with (vadd (vscale u0 a) (vscale u1 b))
      by (generalize a b c; clear; intros; vsimp; f_equal; ring).
    apply conv_hull_2; auto; lra.
Qed.

Theorem collinear_hull_edges (a b c x : V3R) :
  cross (vsub b a) (vsub c a) = vzero -> conv_hull [a; b; c] x ->
  conv_hull [a; b] x \/ conv_hull [a; c] x \/ conv_hull [b; c] x.
Proof.
  intros Hn Hx.
  destruct (hull3_weights _ _ _ _ Hx) as (w0 & w1 & w2 & H0 & H1 & H2 & Hw & ->).
  set (u := vsub b a) in *. set (v := vsub c a) in *.
  destruct (Req_dec (dot u u) 0) as [Zu|Nu].
  - (* a = b *)
    assert (Hu : u = vzero) by (apply dot_self_zero; exact Zu).
    assert (Eb : b = a) by (replace b with (vadd a u) by (unfold u; vsimp; f_equal; ring); rewrite Hu; vsimp; f_equal; ring).
    right; left. rewrite Eb.
    replace (vadd (vadd (vscale w0 a) (vscale w1 a)) (vscale w2 c)) with (vadd (vscale (w0 + w1) a) (vscale w2 c))
      by (vsimp; f_equal; ring).
    apply conv_hull_2; lra.
  - assert (Hg : 0 < dot u u) by (pose proof (dot_self_nonneg u); lra).
    assert (Hz : vadd (vadd (vscale (- dot u u + dot u v) a) (vscale (- dot u v) b)) (vscale (dot u u) c) = vzero).
    { replace (vadd (vadd (vscale (- dot u u + dot u v) a) (vscale (- dot u v) b)) (vscale (dot u u) c))
        with (vsub (vscale (dot u u) v) (vscale (dot u v) u))
        by (unfold u, v; generalize (dot (vsub b a) (vsub b a)) (dot (vsub b a) (vsub c a)); generalize a b c; clear; intros; vsimp; f_equal; ring).
      rewrite triple_expand.
      replace (cross v u) with (vscale (-1) (cross u v)) by (generalize u v; clear; intros; vsimp; f_equal; ring).
      rewrite Hn. generalize u. clear. intros u. vsimp. f_equal; ring. }
    assert (Hc : - dot u u + dot u v + - dot u v + dot u u = 0) by ring.
    assert (Hp : 0 < - dot u u + dot u v \/ 0 < - dot u v \/ 0 < dot u u) by (right; right; exact Hg).
    pose proof (eliminate3 a b c w0 w1 w2 _ _ _ H0 H1 H2 Hw Hc Hz Hp) as He.
    cbv zeta in He. tauto.
Qed.

(** ** consequence for the degenerate branch of the Jolt triangle on exactly collinear points *)
Theorem jolt_triangle_collinear (a b c : V3R) :
  cross (vsub b a) (vsub c a) = vzero ->
  let r := @closest_point_triangle R ROps a b c in
  tri_set_ok (snd r) /\
  conv_hull (update_simplex_y [a; b; c] 3 (snd r)) (fst r) /\
  conv_hull [a; b; c] (fst r) /\
  forall x, conv_hull [a; b; c] x -> norm (fst r) <= norm x + eps.
Proof.
  intros Hn r. pose proof eps_pos as He.
  assert (Hlt : dot (cross (vsub b a) (vsub c a)) (cross (vsub b a) (vsub c a)) < eps * eps).
  { rewrite Hn. replace (dot (vzero : V3R) vzero) with 0 by (vsimp; ring). nra. }
  destruct (jolt_triangle_degenerate_partial a b c Hlt) as (S & U & I & Hb).
  split; auto. split; auto. split; auto.
  intros x Hx. apply Hb. apply collinear_hull_edges; auto.
Qed.
