(** * line_to_line, line_to_line_segment, line_segment_to_line_segment over the reals:
      feasibility (C10) and optimality (C11) of the models of [Model/DistPrim.v]
      against [line_set] / [segment_set] of [Spec/Prims.v]. *)
From Coq Require Import Reals Lra Psatz List Bool.
From D3 Require Import Base.Ops Base.Vec Base.RVec Base.RVec2 Spec.Convex Spec.Prims Model.DistPrim Proofs.DistBase.
Local Open Scope R_scope.

(** ** scalar facts: a convex quadratic in two parameters and its first-order conditions *)

(** the quadratic  Q(s,t) = |r + s d1 - t d2|^2  in the Gram entries
    a = d1.d1, b = d1.d2, c = d1.r, e = d2.d2, f = d2.r, g = r.r *)
Definition Qf (a b c e f g s t : R) : R :=
  a * s * s - 2 * b * s * t + e * t * t + 2 * c * s - 2 * f * t + g.

(** first-order optimality of [x] in [0,1] for a function with derivative [q] at [x] *)
Definition kkt01 (x q : R) : Prop := (x = 0 /\ 0 <= q) \/ (x = 1 /\ q <= 0) \/ q = 0.

Lemma kkt01_dir x q x' : 0 <= x <= 1 -> kkt01 x q -> 0 <= x' <= 1 -> 0 <= q * (x' - x).
Proof. intros Hx [[-> H]|[[-> H]| ->]] Hx'; nra. Qed.

Lemma quad_form_nonneg a b e u v : 0 < a -> b * b <= a * e -> 0 <= a * u * u - 2 * b * u * v + e * v * v.
Proof.
  intros Ha Hd.
  assert (H : a * (a * u * u - 2 * b * u * v + e * v * v)
              = (a * u - b * v) * (a * u - b * v) + (a * e - b * b) * (v * v)) by ring.
  pose proof (Rle_0_sqr (a * u - b * v)) as H1. unfold Rsqr in H1.
  pose proof (Rle_0_sqr v) as H2. unfold Rsqr in H2.
  assert (0 <= (a * e - b * b) * (v * v)) by (apply Rmult_le_pos; lra).
  assert (H3 : 0 <= a * (a * u * u - 2 * b * u * v + e * v * v)) by lra.
  set (w := a * u * u - 2 * b * u * v + e * v * v) in *. clearbody w.
  destruct (Rle_dec 0 w); auto. nra.
Qed.

Lemma kkt_dir_optimal a b c e f g s t s' t' :
  0 < a -> b * b <= a * e ->
  0 <= (a * s - b * t + c) * (s' - s) ->
  0 <= (e * t - b * s - f) * (t' - t) ->
  Qf a b c e f g s t <= Qf a b c e f g s' t'.
Proof.
  intros Ha Hd Hs Ht. unfold Qf.
  pose proof (quad_form_nonneg a b e (s' - s) (t' - t) Ha Hd) as Hq.
  replace (a * s' * s' - 2 * b * s' * t' + e * t' * t' + 2 * c * s' - 2 * f * t' + g)
    with (a * s * s - 2 * b * s * t + e * t * t + 2 * c * s - 2 * f * t + g
          + 2 * ((a * s - b * t + c) * (s' - s)) + 2 * ((e * t - b * s - f) * (t' - t))
          + (a * (s' - s) * (s' - s) - 2 * b * (s' - s) * (t' - t) + e * (t' - t) * (t' - t))) by ring.
  lra.
Qed.

(** both parameters free *)
Lemma kkt_free_optimal a b c e f g s t s' t' :
  0 < a -> b * b <= a * e ->
  a * s - b * t + c = 0 -> e * t - b * s - f = 0 ->
  Qf a b c e f g s t <= Qf a b c e f g s' t'.
Proof. intros Ha Hd H1 H2. apply kkt_dir_optimal; auto; [rewrite H1|rewrite H2]; lra. Qed.

(** both parameters in [0,1] *)
Lemma kkt_box_optimal a b c e f g s t s' t' :
  0 < a -> b * b <= a * e ->
  0 <= s <= 1 -> 0 <= t <= 1 ->
  kkt01 s (a * s - b * t + c) -> kkt01 t (e * t - b * s - f) ->
  0 <= s' <= 1 -> 0 <= t' <= 1 ->
  Qf a b c e f g s t <= Qf a b c e f g s' t'.
Proof.
  intros. apply kkt_dir_optimal; auto; eapply kkt01_dir; eauto.
Qed.

(** s in [0,1], t free *)
Lemma kkt_strip_optimal a b c e f g s t s' t' :
  0 < a -> b * b <= a * e ->
  0 <= s <= 1 ->
  kkt01 s (a * s - b * t + c) -> e * t - b * s - f = 0 ->
  0 <= s' <= 1 ->
  Qf a b c e f g s t <= Qf a b c e f g s' t'.
Proof.
  intros. apply kkt_dir_optimal; auto; [eapply kkt01_dir; eauto|].
  rewrite H3. lra.
Qed.

(** a clamped stationary point of  s |-> a s^2/2 + k s  satisfies the first-order condition *)
Lemma clamp_kkt a k x s : 0 < a -> a * x = - k -> s = clamp01 x -> 0 <= s <= 1 /\ kkt01 s (a * s + k).
Proof.
  intros Ha Ex Hs. destruct (clamp01_spec x) as [Hr Hc]. rewrite <- Hs in *. split; [exact Hr|].
  destruct Hc as [Hc|[[Hc Hc']|[Hc Hc']]].
  - right; right. rewrite Hc. lra.
  - left. split; auto. rewrite Hc. nra.
  - right; left. split; auto. rewrite Hc. nra.
Qed.

(** first stage: s = clamp of the unconstrained line/line parameter (or 0 when parallel),
    t = the projection of that point on the second line *)
Lemma stage1_nonpar a b c e f s t :
  0 < e -> 0 <= a * e - b * b -> a * e - b * b <> 0 ->
  s = clamp01 ((b * f - c * e) / (a * e - b * b)) ->
  t = (b * s + f) / e ->
  0 <= s <= 1 /\ e * t - b * s - f = 0 /\ kkt01 s (a * s - b * t + c).
Proof.
  intros He Hd ED Hs Ht.
  assert (Et : e * t = b * s + f) by (subst t; field; lra).
  assert (Eq : e * (a * s - b * t + c) = (a * e - b * b) * s - (b * f - c * e)).
  { replace (e * (a * s - b * t + c)) with (a * e * s - b * (e * t) + c * e) by ring.
    rewrite Et. ring. }
  set (D := a * e - b * b) in *.
  set (q := a * s - b * t + c) in *. clearbody q.
  assert (HD : 0 < D) by lra.
  set (su := (b * f - c * e) / D) in *.
  assert (Esu : D * su = b * f - c * e) by (unfold su; field; lra).
  clearbody su. destruct (clamp01_spec su) as [Hr Hc]. rewrite <- Hs in *.
  split; [lra|]. split; [lra|].
  assert (Eq' : e * q = D * (s - su)) by (rewrite Eq; lra).
  clearbody D.
  destruct Hc as [Hc|[[Hc Hc']|[Hc Hc']]].
  - right; right. rewrite Hc in Eq'. nra.
  - left. split; auto. rewrite Hc in Eq'. nra.
  - right; left. split; auto. rewrite Hc in Eq'. nra.
Qed.

Lemma stage1_par a b c e f s t :
  0 < e -> a * e - b * b = 0 -> c * e = b * f ->
  s = 0 -> t = (b * s + f) / e ->
  0 <= s <= 1 /\ e * t - b * s - f = 0 /\ kkt01 s (a * s - b * t + c).
Proof.
  intros He ED Hpar Hs Ht.
  assert (Et : e * t = b * s + f) by (subst t; field; lra).
  assert (Eq : e * (a * s - b * t + c) = (a * e - b * b) * s - (b * f - c * e)).
  { replace (e * (a * s - b * t + c)) with (a * e * s - b * (e * t) + c * e) by ring.
    rewrite Et. ring. }
  set (q := a * s - b * t + c) in *. clearbody q. subst s.
  split; [lra|]. split; [lra|]. right; right.
  assert (e * q = 0) by (rewrite Eq, ED; lra). nra.
Qed.

(** second stage (Ericson's clamp-and-recompute): the first-stage pair (s0, t0) is stationary in t
    and first-order optimal in s; t0 lies outside [0,1] by tau = t0 - t1 on the side of the clamp
    value t1; s1 is the re-clamped minimiser on the line t = t1 (x its unclamped value).
    Then dQ/dt at (s1, t1) still points out of the box:  tau * (e t1 - b s1 - f) <= 0,
    written with f eliminated. *)
Lemma stage2_core a b e u tau :
  0 < a -> b * b <= a * e -> a * (u * u) <= - (b * tau * u) -> - (b * tau * u) <= e * (tau * tau).
Proof.
  intros Ha Hd H.
  set (w := - (b * tau * u)) in *.
  assert (Ew : w * w = (b * b) * ((tau * tau) * (u * u))) by (unfold w; ring).
  clearbody w.
  pose proof (sqr_nonneg u) as Hu. pose proof (sqr_nonneg tau) as Ht.
  assert (He : 0 <= e) by nra.
  set (uu := u * u) in *. set (tt := tau * tau) in *. clearbody uu tt.
  assert (Hw : 0 <= w) by nra.
  assert (H1 : w * w <= (a * e) * (tt * uu)).
  { rewrite Ew. apply Rmult_le_compat_r; [nra|lra]. }
  assert (H2 : (a * e) * (tt * uu) <= w * (e * tt)).
  { replace (a * e * (tt * uu)) with ((a * uu) * (e * tt)) by ring.
    apply Rmult_le_compat_r; [nra|lra]. }
  destruct (Rle_dec w (e * tt)); auto. exfalso.
  assert (0 <= e * tt) by nra.
  assert (w * (e * tt) < w * w) by (apply Rmult_lt_compat_l; lra). lra.
Qed.

Lemma stage2_gen a b e s0 s1 x tau :
  0 < a -> b * b <= a * e ->
  0 <= s0 <= 1 -> kkt01 s0 (a * (s0 - x) - b * tau) ->
  s1 = clamp01 x ->
  0 <= tau * (b * (s1 - s0) + e * tau).
Proof.
  intros Ha Hd Hs0 K Hs1.
  destruct (clamp01_spec x) as [Hr Hc]. rewrite <- Hs1 in *. clear Hs1.
  set (u := s1 - s0).
  (* KKT of s0 in direction s1, and projection property of s1 in direction s0 *)
  assert (K1 : 0 <= (a * (s0 - x) - b * tau) * u) by (unfold u; eapply kkt01_dir; eauto).
  assert (K2 : 0 <= (x - s1) * u).
  { unfold u. destruct Hc as [Hc|[[Hc Hc']|[Hc Hc']]]; rewrite Hc in *; nra. }
  assert (K3 : a * (u * u) <= - (b * tau * u)).
  { replace (x - s1) with (x - s0 - u) in K2 by (unfold u; ring).
    assert (0 <= a * ((x - s0 - u) * u)) by (apply Rmult_le_pos; lra). nra. }
  pose proof (stage2_core a b e u tau Ha Hd K3). nra.
Qed.

(** ** vector facts *)
(** equality in Cauchy-Schwarz makes the two directions dependent: e d1 = b d2, hence e c = b f *)
Lemma cs_eq_dot (d1 d2 r : V3R) :
  dot d1 d1 * dot d2 d2 - dot d1 d2 * dot d1 d2 = 0 ->
  dot d1 r * dot d2 d2 = dot d1 d2 * dot d2 r.
Proof.
  intros H.
  set (w := vsub (vscale (dot d2 d2) d1) (vscale (dot d1 d2) d2)).
  assert (Hw : dot w w = dot d2 d2 * (dot d1 d1 * dot d2 d2 - dot d1 d2 * dot d1 d2)).
  { unfold w. rewrite dot_sub_l, !dot_sub_r, !dot_scale_l, !dot_scale_r, (dot_comm d2 d1). ring. }
  rewrite H, Rmult_0_r in Hw. apply dot_self_zero in Hw.
  assert (E : dot w r = 0) by (rewrite Hw; vsimp; ring).
  unfold w in E. rewrite dot_sub_l, !dot_scale_l in E. lra.
Qed.

Lemma Q_expand (r d1 d2 : V3R) (s t : R) :
  dot (vsub (vadd r (vscale s d1)) (vscale t d2)) (vsub (vadd r (vscale s d1)) (vscale t d2))
  = Qf (dot d1 d1) (dot d1 d2) (dot d1 r) (dot d2 d2) (dot d2 r) (dot r r) s t.
Proof. unfold Qf. vsimp; ring. Qed.

Lemma pts_diff (p1 d1 p2 d2 : V3R) (s t : R) :
  vsub (vadd p1 (vscale s d1)) (vadd p2 (vscale t d2))
  = vsub (vadd (vsub p1 p2) (vscale s d1)) (vscale t d2).
Proof. veq. Qed.

(** ** line_segment_to_line_segment *)
(** what the non-degenerate arms (10, 11, 12, 20, 21, 22) return: parameters in the unit square
    satisfying the first-order conditions of Q on the square *)
Lemma lsls_full_spec (s1 e1 s2 e2 : V3R) (eps : R) :
  let d1 := vsub e1 s1 in let d2 := vsub e2 s2 in let r := vsub s1 s2 in
  eps <= dot d1 d1 -> 0 < dot d1 d1 -> eps < dot d2 d2 -> 0 < dot d2 d2 ->
  exists s t arm,
    line_segment_to_line_segment_full s1 e1 s2 e2 eps
    = (norm (vsub (vadd s2 (vscale t d2)) (vadd s1 (vscale s d1))),
       vadd s1 (vscale s d1), vadd s2 (vscale t d2), s, t, arm) /\
    0 <= s <= 1 /\ 0 <= t <= 1 /\
    kkt01 s (dot d1 d1 * s - dot d1 d2 * t + dot d1 r) /\
    kkt01 t (dot d2 d2 * t - dot d1 d2 * s - dot d2 r).
Proof.
  intros d1 d2 r Ha Ha0 He He0.
  unfold line_segment_to_line_segment_full. fold d1 d2 r. ops_R.
  set (a := dot d1 d1) in *. set (e := dot d2 d2) in *. set (b := dot d1 d2).
  set (c := dot d1 r). set (f := dot d2 r).
  assert (Hcs : 0 <= a * e - b * b) by (pose proof (cauchy_schwarz_sq d1 d2); unfold a, e, b; lra).
  assert (Hpar : a * e - b * b = 0 -> c * e = b * f) by (apply cs_eq_dot).
  replace (Rltb a eps) with false by (symmetry; apply Rltb_false; lra).
  replace (Rleb e eps) with false by (symmetry; apply Rleb_false; lra).
  cbn [andb].
  clearbody a e b c f.
  (* the two recomputation arms *)
  assert (LO : forall s0 t0, 0 <= s0 <= 1 -> e * t0 - b * s0 - f = 0 -> kkt01 s0 (a * s0 - b * t0 + c) -> t0 < 0 ->
               let s := fmin (fmax (- c / a) 0) 1 in
               0 <= s <= 1 /\ 0 <= 0 <= 1 /\ kkt01 s (a * s - b * 0 + c) /\ kkt01 0 (e * 0 - b * s - f)).
  { intros s0 t0 Hs0 Et K Ht s. fold (clamp01 (- c / a)) in s.
    assert (Ex : a * (- c / a) = - c) by (field; lra).
    destruct (clamp_kkt a c (- c / a) s Ha0 Ex eq_refl) as [Hs Ks].
    split; [exact Hs|]. split; [lra|]. split.
    - replace (a * s - b * 0 + c) with (a * s + c) by ring. exact Ks.
    - left. split; [reflexivity|].
      assert (K' : kkt01 s0 (a * (s0 - - c / a) - b * t0)).
      { replace (a * (s0 - - c / a) - b * t0) with (a * s0 - b * t0 + c) by (field; lra). exact K. }
      pose proof (stage2_gen a b e s0 s (- c / a) t0 Ha0 ltac:(lra) Hs0 K' eq_refl) as H2.
      assert (Ef : f = e * t0 - b * s0) by lra. rewrite Ef. nra. }
  assert (HI : forall s0 t0, 0 <= s0 <= 1 -> e * t0 - b * s0 - f = 0 -> kkt01 s0 (a * s0 - b * t0 + c) -> 1 < t0 ->
               let s := fmin (fmax ((b - c) / a) 0) 1 in
               0 <= s <= 1 /\ 0 <= 1 <= 1 /\ kkt01 s (a * s - b * 1 + c) /\ kkt01 1 (e * 1 - b * s - f)).
  { intros s0 t0 Hs0 Et K Ht s. fold (clamp01 ((b - c) / a)) in s.
    assert (Ex : a * ((b - c) / a) = - (c - b)) by (field; lra).
    destruct (clamp_kkt a (c - b) ((b - c) / a) s Ha0 Ex eq_refl) as [Hs Ks].
    split; [exact Hs|]. split; [lra|]. split.
    - replace (a * s - b * 1 + c) with (a * s + (c - b)) by ring. exact Ks.
    - right; left. split; [reflexivity|].
      assert (K' : kkt01 s0 (a * (s0 - (b - c) / a) - b * (t0 - 1))).
      { replace (a * (s0 - (b - c) / a) - b * (t0 - 1)) with (a * s0 - b * t0 + c) by (field; lra). exact K. }
      pose proof (stage2_gen a b e s0 s ((b - c) / a) (t0 - 1) Ha0 ltac:(lra) Hs0 K' eq_refl) as H2.
      assert (Ef : f = e * t0 - b * s0) by lra. rewrite Ef. nra. }
  unfold neqb. ops_R.
  destruct (Reqb (a * e - b * b) 0) eqn:ED; rb_hyp ED; cbn [negb]; cbv beta iota.
  - (* parallel *)
    destruct (stage1_par a b c e f 0 ((b * 0 + f) / e) He0 ED (Hpar ED) eq_refl eq_refl) as (Hs0 & Et & K).
    rb_case; [|rb_case].
    + eexists _, _, _. split; [reflexivity|]. eapply LO; eauto.
    + eexists _, _, _. split; [reflexivity|]. eapply HI; eauto.
    + eexists _, _, _. split; [reflexivity|]. split; [exact Hs0|]. split; [lra|]. split; [exact K|].
      right; right. exact Et.
  - fold (clamp01 ((b * f - c * e) / (a * e - b * b))).
    set (s0 := clamp01 ((b * f - c * e) / (a * e - b * b))).
    destruct (stage1_nonpar a b c e f s0 ((b * s0 + f) / e) He0 Hcs ED eq_refl eq_refl) as (Hs0 & Et & K).
    rb_case; [|rb_case].
    + eexists _, _, _. split; [reflexivity|]. eapply LO; eauto.
    + eexists _, _, _. split; [reflexivity|]. eapply HI; eauto.
    + eexists _, _, _. split; [reflexivity|]. split; [exact Hs0|]. split; [lra|]. split; [exact K|].
      right; right. exact Et.
Qed.

Lemma pair6_eq {A B C D E G : Type} (a a' : A) (b b' : B) (c c' : C) (d d' : D) (e e' : E) (g g' : G) :
  (a, b, c, d, e, g) = (a', b', c', d', e', g') -> a = a' /\ b = b' /\ c = c' /\ d = d' /\ e = e' /\ g = g'.
Proof. intros H. inversion H. repeat split. Qed.

Lemma segment_mem (s e : V3R) (t : R) : 0 <= t <= 1 -> segment_set s e (vadd s (vscale t (vsub e s))).
Proof. intros H. exists t. split; [exact H|reflexivity]. Qed.
Lemma segment_mem_start (s e : V3R) : segment_set s e s.
Proof. exists 0. split; [lra|]. veq. Qed.
Lemma line_mem (lp ld : V3R) (t : R) : line_set lp ld (vadd lp (vscale t ld)).
Proof. exists t. reflexivity. Qed.
Lemma line_mem_start (lp ld : V3R) : line_set lp ld lp.
Proof. exists 0. veq. Qed.

Lemma feasible_swapped_norm (A B : set3) (c1 c2 : V3R) :
  A c1 -> B c2 -> feasible A B (norm (vsub c2 c1)) c1 c2.
Proof.
  intros H1 H2. split; [exact H1|]. split; [exact H2|]. split; [apply norm_nonneg|apply norm_sub_comm].
Qed.

(** feasibility holds in every arm, for every [eps] and without any non-degeneracy hypothesis *)
Lemma line_segment_to_line_segment_full_feasible (s1 e1 s2 e2 : V3R) (eps : R) d c1 c2 s t arm :
  line_segment_to_line_segment_full s1 e1 s2 e2 eps = (d, c1, c2, s, t, arm) ->
  feasible (segment_set s1 e1) (segment_set s2 e2) d c1 c2.
Proof.
  unfold line_segment_to_line_segment_full, neqb. ops_R.
  repeat (rb_case; cbn [andb negb]; cbv beta iota);
    intros H; apply pair6_eq in H; destruct H as (<- & <- & <- & _);
    apply feasible_swapped_norm;
    first [ apply segment_mem_start
          | apply segment_mem; first [ apply (proj1 (clamp01_spec _)) | lra ] ].
Qed.

Lemma line_segment_to_line_segment_feasible (s1 e1 s2 e2 : V3R) (eps : R) d c1 c2 :
  line_segment_to_line_segment s1 e1 s2 e2 eps = (d, c1, c2) ->
  feasible (segment_set s1 e1) (segment_set s2 e2) d c1 c2.
Proof.
  unfold line_segment_to_line_segment.
  destruct (line_segment_to_line_segment_full s1 e1 s2 e2 eps) as [[[[[d' c1'] c2'] s] t] arm] eqn:E.
  intros H. apply pair3_eq in H. destruct H as (<- & <- & <-).
  eapply line_segment_to_line_segment_full_feasible; eauto.
Qed.

(** optimality: both segments non-degenerate in the model's sense.  NOTE the strict [eps < |d2|^2]:
    the model tests [a < eps] for the first but [e <= eps] for the second segment, and in the arm
    [e <= eps] (t = 0) the result is not optimal unless the second segment really is a point. *)
Lemma line_segment_to_line_segment_optimal (s1 e1 s2 e2 : V3R) (eps : R) d c1 c2 :
  0 < eps ->
  eps <= dot (vsub e1 s1) (vsub e1 s1) -> eps < dot (vsub e2 s2) (vsub e2 s2) ->
  line_segment_to_line_segment s1 e1 s2 e2 eps = (d, c1, c2) ->
  optimal (segment_set s1 e1) (segment_set s2 e2) d.
Proof.
  intros Heps Ha He. unfold line_segment_to_line_segment.
  destruct (lsls_full_spec s1 e1 s2 e2 eps Ha ltac:(lra) He ltac:(lra)) as (s & t & arm & E & Hs & Ht & Ks & Kt).
  rewrite E. intros H. apply pair3_eq in H. destruct H as (<- & _ & _).
  intros x y (s' & Hs' & ->) (t' & Ht' & ->).
  rewrite norm_sub_comm. apply norm_le_of_sq.
  rewrite !pts_diff, !Q_expand.
  apply kkt_box_optimal; auto; try lra.
  apply cauchy_schwarz_sq.
Qed.

(** ** line_to_line *)
Lemma sqrt_abs_dot (w : V3R) (x : R) : x = dot w w -> R_sqrt.sqrt (Rabs x) = norm w.
Proof. intros ->. rewrite Rabs_right; [reflexivity|]. pose proof (dot_self_nonneg w). lra. Qed.

(** what both arms return: points with parameters t1, t2, the distance of these two points,
    and (outside the epsilon band) stationarity of |lp1 + t1 ld1 - lp2 - t2 ld2|^2 *)
Lemma line_to_line_full_spec (lp1 ld1 lp2 ld2 : V3R) (eps : R) :
  let diff := vsub lp1 lp2 in
  dot ld1 ld1 = 1 -> dot ld2 ld2 = 1 -> 0 < eps ->
  exists t1 t2 arm,
    line_to_line_full lp1 ld1 lp2 ld2 eps
    = (norm (vsub (vadd lp1 (vscale t1 ld1)) (vadd lp2 (vscale t2 ld2))),
       vadd lp1 (vscale t1 ld1), vadd lp2 (vscale t2 ld2), t1, t2, arm) /\
    ((1 - dot ld1 ld2 * dot ld1 ld2 = 0 \/ eps <= Rabs (1 - dot ld1 ld2 * dot ld1 ld2)) ->
     1 * t1 - dot ld1 ld2 * t2 + dot ld1 diff = 0 /\
     1 * t2 - dot ld1 ld2 * t1 - dot ld2 diff = 0).
Proof.
  intros diff H1 H2 Heps.
  unfold line_to_line_full. fold diff. ops_R. unfold two. ops_R.
  pose proof (cs_eq_dot ld1 ld2 diff) as Hpar. rewrite H1, H2 in Hpar.
  set (b := dot ld1 ld2) in *. set (c := dot ld1 diff) in *. set (f := dot ld2 diff) in *.
  replace (1 - - b * - b) with (1 - b * b) by ring.
  rb_case.
  - (* general arm: det <> 0 *)
    assert (Hdet : 1 - b * b <> 0).
    { intros Z. rewrite Z, Rabs_R0 in E. lra. }
    set (t1 := (- b * - f - c) / (1 - b * b)). set (t2 := (- b * c - - f) / (1 - b * b)).
    exists t1, t2, 0%nat. split.
    + repeat f_equal. apply sqrt_abs_dot.
      rewrite pts_diff, Q_expand. fold diff b c f. rewrite H1, H2. unfold Qf. ring.
    + intros _. unfold t1, t2. split; field; exact Hdet.
  - (* parallel arm *)
    exists (- c), 0, 1%nat. split.
    + replace (vadd lp2 (vscale 0 ld2)) with lp2 by veq.
      repeat f_equal. apply sqrt_abs_dot.
      replace (vsub (vadd lp1 (vscale (- c) ld1)) lp2)
        with (vsub (vadd diff (vscale (- c) ld1)) (vscale 0 ld2)) by (unfold diff; veq).
      rewrite Q_expand. fold b c f. rewrite H1, H2. unfold Qf. ring.
    + intros [Z|Z]; [|lra].
      assert (c = b * f) by (assert (c * 1 = b * f) by (apply Hpar; lra); lra).
      split; [ring|]. replace (1 * 0 - b * - c - f) with (b * c - f) by ring.
      rewrite H. replace (b * (b * f) - f) with (- (1 - b * b) * f) by ring. rewrite Z. ring.
Qed.

Lemma line_to_line_feasible (lp1 ld1 lp2 ld2 : V3R) (eps : R) d c1 c2 :
  dot ld1 ld1 = 1 -> dot ld2 ld2 = 1 -> 0 < eps ->
  line_to_line lp1 ld1 lp2 ld2 eps = (d, c1, c2) ->
  feasible (line_set lp1 ld1) (line_set lp2 ld2) d c1 c2.
Proof.
  intros H1 H2 Heps. unfold line_to_line.
  destruct (line_to_line_full_spec lp1 ld1 lp2 ld2 eps H1 H2 Heps) as (t1 & t2 & arm & E & _).
  rewrite E. intros H. apply pair3_eq in H. destruct H as (<- & <- & <-).
  split; [apply line_mem|]. split; [apply line_mem|]. split; [apply norm_nonneg|reflexivity].
Qed.

Lemma line_to_line_optimal (lp1 ld1 lp2 ld2 : V3R) (eps : R) d c1 c2 :
  dot ld1 ld1 = 1 -> dot ld2 ld2 = 1 -> 0 < eps ->
  (1 - dot ld1 ld2 * dot ld1 ld2 = 0 \/ eps <= Rabs (1 - dot ld1 ld2 * dot ld1 ld2)) ->
  line_to_line lp1 ld1 lp2 ld2 eps = (d, c1, c2) ->
  optimal (line_set lp1 ld1) (line_set lp2 ld2) d.
Proof.
  intros H1 H2 Heps Hband. unfold line_to_line.
  destruct (line_to_line_full_spec lp1 ld1 lp2 ld2 eps H1 H2 Heps) as (t1 & t2 & arm & E & K).
  destruct (K Hband) as [K1 K2].
  rewrite E. intros H. apply pair3_eq in H. destruct H as (<- & _ & _).
  intros x y (s' & ->) (t' & ->).
  apply norm_le_of_sq. rewrite !pts_diff, !Q_expand. rewrite H1, H2.
  apply kkt_free_optimal; auto; try lra.
  pose proof (cauchy_schwarz_sq ld1 ld2) as HC. rewrite H1, H2 in HC. lra.
Qed.

(** ** line_to_line_segment (first result on the line, second on the segment) *)
(** feasibility in every arm but arm 0 (both degenerate), where the code returns the two points
    swapped *)
Lemma line_to_line_segment_full_feasible (lp ld s0 e0 : V3R) (eps : R) d c1 c2 t s arm :
  eps <= dot (vsub e0 s0) (vsub e0 s0) \/ eps <= dot ld ld ->
  line_to_line_segment_full lp ld s0 e0 eps = (d, c1, c2, t, s, arm) ->
  feasible (line_set lp ld) (segment_set s0 e0) d c1 c2.
Proof.
  intros Hne. unfold line_to_line_segment_full, neqb. ops_R.
  repeat (rb_case; cbn [andb negb]; cbv beta iota);
    try (exfalso; destruct Hne; lra);
    intros H; apply pair6_eq in H; destruct H as (<- & <- & <- & _);
    (apply feasible_swapped_norm; [apply line_mem|]);
    apply segment_mem; first [ apply (proj1 (clamp01_spec _)) | lra ].
Qed.

Lemma line_to_line_segment_feasible_gen (lp ld s0 e0 : V3R) (eps : R) d c1 c2 :
  eps <= dot (vsub e0 s0) (vsub e0 s0) \/ eps <= dot ld ld ->
  line_to_line_segment lp ld s0 e0 eps = (d, c1, c2) ->
  feasible (line_set lp ld) (segment_set s0 e0) d c1 c2.
Proof.
  intros Hne. unfold line_to_line_segment.
  destruct (line_to_line_segment_full lp ld s0 e0 eps) as [[[[[d' c1'] c2'] t] s] arm] eqn:E.
  intros H. apply pair3_eq in H. destruct H as (<- & <- & <-).
  eapply line_to_line_segment_full_feasible; eauto.
Qed.

(** unit direction and eps <= 1: arm 0 is unreachable *)
Lemma line_to_line_segment_feasible (lp ld s0 e0 : V3R) (eps : R) d c1 c2 :
  dot ld ld = 1 -> eps <= 1 ->
  line_to_line_segment lp ld s0 e0 eps = (d, c1, c2) ->
  feasible (line_set lp ld) (segment_set s0 e0) d c1 c2.
Proof. intros Hu He. apply line_to_line_segment_feasible_gen. right. lra. Qed.

(** arms 3 and 4: s in [0,1] first-order optimal, t stationary *)
Lemma line_to_line_segment_full_spec (lp ld s0 e0 : V3R) (eps : R) :
  let d := vsub e0 s0 in let r := vsub s0 lp in
  eps <= dot d d -> 0 < dot d d -> eps < dot ld ld -> 0 < dot ld ld ->
  exists s t arm,
    line_to_line_segment_full lp ld s0 e0 eps
    = (norm (vsub (vadd s0 (vscale s d)) (vadd lp (vscale t ld))),
       vadd lp (vscale t ld), vadd s0 (vscale s d), t, s, arm) /\
    0 <= s <= 1 /\
    kkt01 s (dot d d * s - dot d ld * t + dot d r) /\
    dot ld ld * t - dot d ld * s - dot ld r = 0.
Proof.
  intros d r Ha Ha0 He He0.
  unfold line_to_line_segment_full. fold d r. ops_R.
  set (a := dot d d) in *. set (e := dot ld ld) in *. set (b := dot d ld).
  set (c := dot d r). set (f := dot ld r).
  assert (Hcs : 0 <= a * e - b * b) by (pose proof (cauchy_schwarz_sq d ld); unfold a, e, b; lra).
  assert (Hpar : a * e - b * b = 0 -> c * e = b * f) by (apply cs_eq_dot).
  replace (Rltb a eps) with false by (symmetry; apply Rltb_false; lra).
  replace (Rleb e eps) with false by (symmetry; apply Rleb_false; lra).
  cbn [andb].
  clearbody a e b c f.
  unfold neqb. ops_R.
  destruct (Reqb (a * e - b * b) 0) eqn:ED; rb_hyp ED; cbn [negb]; cbv beta iota.
  - destruct (stage1_par a b c e f 0 ((b * 0 + f) / e) He0 ED (Hpar ED) eq_refl eq_refl) as (Hs0 & Et & K).
    eexists _, _, _. split; [reflexivity|]. auto.
  - fold (clamp01 ((b * f - c * e) / (a * e - b * b))).
    set (s1 := clamp01 ((b * f - c * e) / (a * e - b * b))).
    destruct (stage1_nonpar a b c e f s1 ((b * s1 + f) / e) He0 Hcs ED eq_refl eq_refl) as (Hs0 & Et & K).
    eexists _, _, _. split; [reflexivity|]. auto.
Qed.

(** optimality: line direction and segment both non-degenerate in the model's sense.  NOTE the strict
    [eps < |ld|^2] (the model tests [e <= eps]). *)
Lemma line_to_line_segment_optimal_gen (lp ld s0 e0 : V3R) (eps : R) d c1 c2 :
  0 < eps ->
  eps <= dot (vsub e0 s0) (vsub e0 s0) -> eps < dot ld ld ->
  line_to_line_segment lp ld s0 e0 eps = (d, c1, c2) ->
  optimal (line_set lp ld) (segment_set s0 e0) d.
Proof.
  intros Heps Ha He. unfold line_to_line_segment.
  destruct (line_to_line_segment_full_spec lp ld s0 e0 eps Ha ltac:(lra) He ltac:(lra))
    as (s & t & arm & E & Hs & Ks & Kt).
  rewrite E. intros H. apply pair3_eq in H. destruct H as (<- & _ & _).
  intros x y (t' & ->) (s' & Hs' & ->).
  rewrite (norm_sub_comm (vadd lp (vscale t' ld))). apply norm_le_of_sq.
  rewrite !pts_diff, !Q_expand.
  apply kkt_strip_optimal; auto; try lra.
  apply cauchy_schwarz_sq.
Qed.

(** the documented domain: unit direction; then [eps < 1] makes arms 0 and 2 unreachable and
    [eps <= |e0 - s0|^2] excludes arm 1 *)
Lemma line_to_line_segment_optimal (lp ld s0 e0 : V3R) (eps : R) d c1 c2 :
  dot ld ld = 1 -> 0 < eps -> eps < 1 ->
  eps <= dot (vsub e0 s0) (vsub e0 s0) ->
  line_to_line_segment lp ld s0 e0 eps = (d, c1, c2) ->
  optimal (line_set lp ld) (segment_set s0 e0) d.
Proof. intros Hu Heps H1 Ha. apply line_to_line_segment_optimal_gen; auto. lra. Qed.

(** ** line_segment_to_line_segment: the degenerate arms 0, 1, 2 under exact degeneracy *)
Lemma quad_form_nonneg0 a b e u v :
  0 <= a -> 0 <= e -> b * b <= a * e -> 0 <= a * u * u - 2 * b * u * v + e * v * v.
Proof.
  intros Ha He Hd. destruct (Req_dec a 0) as [Z|Z].
  - subst a. assert (b = 0) by nra. subst b. pose proof (sqr_nonneg v). nra.
  - apply quad_form_nonneg; lra.
Qed.

Lemma kkt_box_optimal0 a b c e f g s t s' t' :
  0 <= a -> 0 <= e -> b * b <= a * e ->
  0 <= s <= 1 -> 0 <= t <= 1 ->
  kkt01 s (a * s - b * t + c) -> kkt01 t (e * t - b * s - f) ->
  0 <= s' <= 1 -> 0 <= t' <= 1 ->
  Qf a b c e f g s t <= Qf a b c e f g s' t'.
Proof.
  intros Ha He Hd Hs Ht Ks Kt Hs' Ht'. unfold Qf.
  pose proof (quad_form_nonneg0 a b e (s' - s) (t' - t) Ha He Hd) as Hq.
  pose proof (kkt01_dir _ _ s' Hs Ks Hs') as H1. pose proof (kkt01_dir _ _ t' Ht Kt Ht') as H2.
  replace (a * s' * s' - 2 * b * s' * t' + e * t' * t' + 2 * c * s' - 2 * f * t' + g)
    with (a * s * s - 2 * b * s * t + e * t * t + 2 * c * s - 2 * f * t + g
          + 2 * ((a * s - b * t + c) * (s' - s)) + 2 * ((e * t - b * s - f) * (t' - t))
          + (a * (s' - s) * (s' - s) - 2 * b * (s' - s) * (t' - t) + e * (t' - t) * (t' - t))) by ring.
  lra.
Qed.

Lemma dot_self_sub_l (p x : V3R) : dot (vsub p p) x = 0.
Proof. vsimp; ring. Qed.

(** the same conclusion as [lsls_full_spec] (up to the returned points, which arm 0 returns
    as [s1], [s2]) when a segment is exactly a point *)
Lemma lsls_full_spec_deg (s1 e1 s2 e2 : V3R) (eps : R) :
  let d1 := vsub e1 s1 in let d2 := vsub e2 s2 in let r := vsub s1 s2 in
  0 < eps ->
  (e1 = s1 /\ e2 = s2) \/ (e1 = s1 /\ eps <= dot d2 d2) \/ (eps <= dot d1 d1 /\ e2 = s2) ->
  exists s t c1 c2 arm,
    line_segment_to_line_segment_full s1 e1 s2 e2 eps
    = (norm (vsub (vadd s2 (vscale t d2)) (vadd s1 (vscale s d1))), c1, c2, s, t, arm) /\
    0 <= s <= 1 /\ 0 <= t <= 1 /\
    kkt01 s (dot d1 d1 * s - dot d1 d2 * t + dot d1 r) /\
    kkt01 t (dot d2 d2 * t - dot d1 d2 * s - dot d2 r).
Proof.
  intros d1 d2 r Heps Hdeg.
  unfold line_segment_to_line_segment_full. fold d1 d2 r. ops_R.
  destruct Hdeg as [[Z1 Z2]|[[Z1 He]|[Ha Z2]]].
  - (* arm 0 *)
    assert (A0 : dot d1 d1 = 0) by (unfold d1; rewrite Z1; apply dot_self_sub_l).
    assert (E0 : dot d2 d2 = 0) by (unfold d2; rewrite Z2; apply dot_self_sub_l).
    assert (B0 : dot d1 d2 = 0) by (unfold d1; rewrite Z1; apply dot_self_sub_l).
    assert (C0 : dot d1 r = 0) by (unfold d1; rewrite Z1; apply dot_self_sub_l).
    assert (F0 : dot d2 r = 0) by (unfold d2; rewrite Z2; apply dot_self_sub_l).
    rewrite A0, E0, B0, C0, F0.
    replace (Rltb 0 eps) with true by (symmetry; apply Rltb_true; lra). cbn [andb].
    exists 0, 0, s1, s2, 0%nat. split.
    + repeat f_equal; veq.
    + split; [lra|]. split; [lra|]. split; right; right; ring.
  - (* arm 1 *)
    assert (A0 : dot d1 d1 = 0) by (unfold d1; rewrite Z1; apply dot_self_sub_l).
    assert (B0 : dot d1 d2 = 0) by (unfold d1; rewrite Z1; apply dot_self_sub_l).
    assert (C0 : dot d1 r = 0) by (unfold d1; rewrite Z1; apply dot_self_sub_l).
    rewrite A0, B0, C0.
    set (e := dot d2 d2) in *. set (f := dot d2 r). clearbody e f.
    replace (Rltb 0 eps) with true by (symmetry; apply Rltb_true; lra).
    replace (Rltb e eps) with false by (symmetry; apply Rltb_false; lra). cbn [andb].
    fold (clamp01 (f / e)).
    assert (Ex : e * (f / e) = - - f) by (field; lra).
    destruct (clamp_kkt e (- f) (f / e) _ ltac:(lra) Ex eq_refl) as [Ht Kt].
    eexists _, _, _, _, _. split; [reflexivity|].
    split; [lra|]. split; [exact Ht|]. split; [right; right; ring|].
    replace (e * clamp01 (f / e) - 0 * 0 - f) with (e * clamp01 (f / e) + - f) by ring. exact Kt.
  - (* arm 2 *)
    assert (E0 : dot d2 d2 = 0) by (unfold d2; rewrite Z2; apply dot_self_sub_l).
    assert (B0 : dot d1 d2 = 0) by (rewrite dot_comm; unfold d2; rewrite Z2; apply dot_self_sub_l).
    assert (F0 : dot d2 r = 0) by (unfold d2; rewrite Z2; apply dot_self_sub_l).
    rewrite E0, B0, F0.
    set (a := dot d1 d1) in *. set (c := dot d1 r). clearbody a c.
    replace (Rltb a eps) with false by (symmetry; apply Rltb_false; lra).
    replace (Rleb 0 eps) with true by (symmetry; apply Rleb_true; lra). cbn [andb].
    fold (clamp01 (- c / a)).
    assert (Ex : a * (- c / a) = - c) by (field; lra).
    destruct (clamp_kkt a c (- c / a) _ ltac:(lra) Ex eq_refl) as [Hs Ks].
    eexists _, _, _, _, _. split; [reflexivity|].
    split; [exact Hs|]. split; [lra|]. split; [|right; right; ring].
    replace (a * clamp01 (- c / a) - 0 * 0 + c) with (a * clamp01 (- c / a) + c) by ring. exact Ks.
Qed.

(** optimality on the whole domain "each segment is either exactly a point or non-degenerate in
    the model's sense" *)
Lemma line_segment_to_line_segment_optimal_deg (s1 e1 s2 e2 : V3R) (eps : R) d c1 c2 :
  0 < eps ->
  e1 = s1 \/ eps <= dot (vsub e1 s1) (vsub e1 s1) ->
  e2 = s2 \/ eps < dot (vsub e2 s2) (vsub e2 s2) ->
  line_segment_to_line_segment s1 e1 s2 e2 eps = (d, c1, c2) ->
  optimal (segment_set s1 e1) (segment_set s2 e2) d.
Proof.
  intros Heps H1 H2.
  destruct H1 as [Z1|Ha]; destruct H2 as [Z2|He];
    [ | | | apply line_segment_to_line_segment_optimal; auto ].
  all: unfold line_segment_to_line_segment.
  all: destruct (lsls_full_spec_deg s1 e1 s2 e2 eps Heps) as (s & t & k1 & k2 & arm & E & Hs & Ht & Ks & Kt);
    [ first [ left; split; assumption | right; left; split; [assumption|lra] | right; right; split; assumption ] | ].
  all: rewrite E; intros H; apply pair3_eq in H; destruct H as (<- & _ & _).
  all: intros x y (s' & Hs' & ->) (t' & Ht' & ->).
  all: rewrite norm_sub_comm; apply norm_le_of_sq.
  all: rewrite !pts_diff, !Q_expand.
  all: apply kkt_box_optimal0; auto; try apply dot_self_nonneg; apply cauchy_schwarz_sq.
Qed.

(** ** the strict inequalities above are necessary: refutations at the boundary *)
Ltac rb_eval :=
  repeat match goal with
  | |- context [Rltb ?a ?b] =>
      first [ replace (Rltb a b) with true by (symmetry; apply Rltb_true; lra)
            | replace (Rltb a b) with false by (symmetry; apply Rltb_false; lra) ]
  | |- context [Rleb ?a ?b] =>
      first [ replace (Rleb a b) with true by (symmetry; apply Rleb_true; lra)
            | replace (Rleb a b) with false by (symmetry; apply Rleb_false; lra) ]
  | |- context [Reqb ?a ?b] =>
      first [ replace (Reqb a b) with true by (symmetry; apply Reqb_true; lra)
            | replace (Reqb a b) with false by (symmetry; apply Reqb_false; lra) ]
  end.
Ltac vcalc := unfold dot, vsub, vadd, vscale; cbn [vx vy vz]; ops_R.

Lemma norm_le_dot (u v : V3R) : norm u <= norm v -> dot u u <= dot v v.
Proof.
  intros H. rewrite <- !norm_sq. pose proof (norm_nonneg u). pose proof (norm_nonneg v). nra.
Qed.

(** unit direction, eps = 1 (so [eps <= 1] but not [eps < 1]): the model takes arm 2
    ("line direction degenerate": t = 0) and returns the pair (0,0,0), (5,1,0) at distance sqrt 26,
    while (5,0,0) on the line is at distance 1 from (5,1,0) *)
Lemma line_to_line_segment_optimal_refuted :
  exists lp ld s0 e0 eps d c1 c2,
    dot ld ld = 1 /\ 0 < eps /\ eps <= 1 /\ eps <= dot (vsub e0 s0) (vsub e0 s0) /\
    line_to_line_segment lp ld s0 e0 eps = (d, c1, c2) /\
    ~ optimal (line_set lp ld) (segment_set s0 e0) d.
Proof.
  exists (V 0 0 0), (V 1 0 0), (V 5 1 0), (V 5 2 0), 1.
  eexists _, _, _.
  split; [vcalc; lra|]. split; [lra|]. split; [lra|]. split; [vcalc; lra|].
  split.
  - unfold line_to_line_segment, line_to_line_segment_full, neqb, fmin, fmax. vcalc.
    rb_eval. cbn [andb negb]. cbv beta iota. reflexivity.
  - intros H.
    specialize (H (V 5 0 0) (V 5 1 0)).
    assert (H1 : line_set (V 0 0 0) (V 1 0 0) (V 5 0 0)) by (exists 5; vcalc; f_equal; ring).
    assert (H2 : segment_set (V 5 1 0) (V 5 2 0) (V 5 1 0)) by (exists 0; split; [lra|]; vcalc; f_equal; ring).
    specialize (H H1 H2). apply norm_le_dot in H. revert H. vcalc. lra.
Qed.

(** eps = |e2 - s2|^2 exactly: the model takes arm 2 ("second segment degenerate": t = 0) and
    returns (0,0,0), (0,2,0) at distance 2, while the end point (0,1,0) is at distance 1 *)
Lemma line_segment_to_line_segment_optimal_refuted :
  exists s1 e1 s2 e2 eps d c1 c2,
    0 < eps /\ eps <= dot (vsub e1 s1) (vsub e1 s1) /\ eps <= dot (vsub e2 s2) (vsub e2 s2) /\
    line_segment_to_line_segment s1 e1 s2 e2 eps = (d, c1, c2) /\
    ~ optimal (segment_set s1 e1) (segment_set s2 e2) d.
Proof.
  exists (V 0 0 0), (V 1 0 0), (V 0 2 0), (V 0 1 0), 1.
  eexists _, _, _.
  split; [lra|]. split; [vcalc; lra|]. split; [vcalc; lra|].
  split.
  - unfold line_segment_to_line_segment, line_segment_to_line_segment_full, neqb, fmin, fmax. vcalc.
    rb_eval. cbn [andb negb]. cbv beta iota. reflexivity.
  - intros H.
    specialize (H (V 0 0 0) (V 0 1 0)).
    assert (H1 : segment_set (V 0 0 0) (V 1 0 0) (V 0 0 0)) by (exists 0; split; [lra|]; vcalc; f_equal; ring).
    assert (H2 : segment_set (V 0 2 0) (V 0 1 0) (V 0 1 0)) by (exists 1; split; [lra|]; vcalc; f_equal; ring).
    specialize (H H1 H2). apply norm_le_dot in H. revert H. vcalc. lra.
Qed.

(** ** the hypotheses of the optimality theorems are satisfiable *)
Example line_to_line_optimal_nonvacuous :
  exists ld1 ld2 eps,
    dot ld1 ld1 = 1 /\ dot ld2 ld2 = 1 /\ 0 < eps /\
    (1 - dot ld1 ld2 * dot ld1 ld2 = 0 \/ eps <= Rabs (1 - dot ld1 ld2 * dot ld1 ld2)).
Proof.
  exists (V 1 0 0), (V 0 1 0), (/ 2). vcalc.
  split; [lra|]. split; [lra|]. split; [lra|]. right.
  replace (1 - (1 * 0 + 0 * 1 + 0 * 0) * (1 * 0 + 0 * 1 + 0 * 0)) with 1 by ring.
  rewrite Rabs_R1. lra.
Qed.
Example line_to_line_segment_optimal_nonvacuous :
  exists ld s0 e0 eps,
    dot ld ld = 1 /\ 0 < eps /\ eps < 1 /\ eps <= dot (vsub e0 s0) (vsub e0 s0).
Proof. exists (V 1 0 0), (V 5 1 0), (V 5 2 0), (/ 2). vcalc. repeat split; lra. Qed.
Example line_segment_to_line_segment_optimal_nonvacuous :
  exists s1 e1 s2 e2 eps,
    0 < eps /\ eps <= dot (vsub e1 s1) (vsub e1 s1) /\ eps < dot (vsub e2 s2) (vsub e2 s2).
Proof. exists (V 0 0 0), (V 1 0 0), (V 0 2 0), (V 0 1 0), (/ 2). vcalc. repeat split; lra. Qed.
(** inside the epsilon band (0 < |det| < eps) the parallel arm is taken for non-parallel lines:
    two intersecting lines are reported at distance 5 *)
Lemma line_to_line_optimal_refuted_in_band :
  exists lp1 ld1 lp2 ld2 eps d c1 c2,
    dot ld1 ld1 = 1 /\ dot ld2 ld2 = 1 /\ 0 < eps /\
    line_to_line lp1 ld1 lp2 ld2 eps = (d, c1, c2) /\
    ~ optimal (line_set lp1 ld1) (line_set lp2 ld2) d.
Proof.
  exists (V 0 0 0), (V 1 0 0), (V 0 5 0), (V (3 / 5) (4 / 5) 0), 1.
  eexists _, _, _.
  split; [vcalc; lra|]. split; [vcalc; lra|]. split; [lra|].
  split.
  - unfold line_to_line, line_to_line_full, two. vcalc.
    replace (Rleb _ _) with false; [reflexivity|].
    symmetry. apply Rleb_false. apply Rabs_def1; lra.
  - intros H.
    specialize (H (V (- (15 / 4)) 0 0) (V (- (15 / 4)) 0 0)).
    assert (H1 : line_set (V 0 0 0) (V 1 0 0) (V (- (15 / 4)) 0 0)) by (exists (- (15 / 4)); vcalc; f_equal; ring).
    assert (H2 : line_set (V 0 5 0) (V (3 / 5) (4 / 5) 0) (V (- (15 / 4)) 0 0))
      by (exists (- (25 / 4)); vcalc; f_equal; field).
    specialize (H H1 H2). rewrite norm_sub_self in H.
    assert (0 < R_sqrt.sqrt (Rabs ((1 * (0 - 0) + 0 * (0 - 5) + 0 * (0 - 0)) * - (1 * (0 - 0) + 0 * (0 - 5) + 0 * (0 - 0)) +
            ((0 - 0) * (0 - 0) + (0 - 5) * (0 - 5) + (0 - 0) * (0 - 0))))).
    { apply sqrt_lt_R0. apply Rabs_pos_lt. lra. }
    lra.
Qed.
