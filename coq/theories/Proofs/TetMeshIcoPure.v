(** * Midpoint subdivision preserves closed oriented surfaces (C17, icosphere), pure part:
    for ANY symmetric midpoint numbering [m] that is injective on the edges of the surface
    and takes fresh values, the 4-children subdivision of a good surface is good.
    "Good" = every directed edge occurs exactly once and its reverse occurs (closed,
    consistently oriented), triangles are non-degenerate, ids are in range, and no triangle
    occurs together with its mirror image. *)
From Coq Require Import List ZArith Lia Bool.
From D3 Require Import Model.TetSym Gen.TetTables Model.TetMesh Proofs.TetMeshIcoKey.
Import ListNotations.
Local Open Scope Z_scope.

Definition rotations (t : tri) : list tri := let '(a, b, c) := t in [(a, b, c); (b, c, a); (c, a, b)].
Definition RT (ts : list tri) : list tri := flat_map rotations ts.
Definition proj (t : tri) : edge := let '(a, b, _) := t in (a, b).
Definition dedges (t : tri) : list edge := let '(a, b, c) := t in [(a, b); (b, c); (c, a)].
Definition dedges_of (ts : list tri) : list edge := flat_map dedges ts.

Lemma dedges_RT ts : dedges_of ts = map proj (RT ts).
Proof.
  unfold dedges_of, RT. induction ts as [|[[a b] c] r IH]; [reflexivity|].
  cbn [flat_map]. rewrite map_app, <- IH. reflexivity.
Qed.

Definition good (n : Z) (ts : list tri) : Prop :=
  NoDup (dedges_of ts) /\
  (forall a b, In (a, b) (dedges_of ts) -> In (b, a) (dedges_of ts)) /\
  (forall p q r, In (p, q, r) (RT ts) -> p <> q /\ 0 <= p < n) /\
  (forall p q r, In (p, q, r) (RT ts) -> ~ In (q, p, r) (RT ts)).

(** ** general list facts *)
Lemma NoDup_map_inj {A B} (f : A -> B) l x y :
  NoDup (map f l) -> In x l -> In y l -> f x = f y -> x = y.
Proof.
  induction l as [|a l IH]; cbn; intros N Hx Hy E; [tauto|].
  inversion N as [|? ? N1 N2]; subst.
  destruct Hx as [Hx|Hx], Hy as [Hy|Hy].
  - congruence.
  - subst a. exfalso. apply N1. rewrite E. apply in_map. assumption.
  - subst a. exfalso. apply N1. rewrite <- E. apply in_map. assumption.
  - apply IH; assumption.
Qed.

Lemma NoDup_flat_map {A B} (f : A -> list B) l :
  NoDup l -> (forall x, In x l -> NoDup (f x)) ->
  (forall x y z, In x l -> In y l -> In z (f x) -> In z (f y) -> x = y) ->
  NoDup (flat_map f l).
Proof.
  induction l as [|a l IH]; cbn; intros N H1 H2; [constructor|].
  inversion N as [|? ? Na Nl]; subst.
  assert (IH' : NoDup (flat_map f l)).
  { apply IH; [assumption | intros; apply H1; right; assumption |].
    intros x y z Hx Hy. apply H2; right; assumption. }
  assert (Hd : forall z, In z (f a) -> ~ In z (flat_map f l)).
  { intros z Hz Hin. apply in_flat_map in Hin as [y [Hy Hzy]].
    assert (a = y) by (apply (H2 a y z); [left; reflexivity|right; assumption|assumption|assumption]).
    subst. tauto. }
  specialize (H1 a (or_introl eq_refl)). revert H1 Hd. generalize (f a) as fa.
  induction fa as [|z fa IHf]; cbn; intros Nf Hd; [assumption|].
  inversion Nf as [|? ? Nz Nfa]; subst. constructor.
  - rewrite in_app_iff. intros [H|H]; [tauto|]. apply (Hd z); auto.
  - apply IHf; [assumption|]. intros z' Hz'. apply Hd. right; assumption.
Qed.

Lemma flat_map_flat_map {A B C} (f : A -> list B) (g : B -> list C) l :
  flat_map g (flat_map f l) = flat_map (fun x => flat_map g (f x)) l.
Proof. induction l as [|a l IH]; cbn; [reflexivity|]. rewrite flat_map_app, IH. reflexivity. Qed.

Lemma flat_map_length_const {A B} (f : A -> list B) k l :
  (forall x, length (f x) = k) -> length (flat_map f l) = (k * length l)%nat.
Proof. intros H. induction l as [|a l IH]; cbn; [lia|]. rewrite app_length, H, IH. lia. Qed.

(** ** facts about the rotated triples of a good surface *)
Lemma RT_rot ts p q r : In (p, q, r) (RT ts) -> In (q, r, p) (RT ts).
Proof.
  unfold RT. rewrite !in_flat_map. intros [[[a b] c] [Ht Hx]]. exists (a, b, c). split; [assumption|].
  cbn in *. intuition congruence.
Qed.

Section Good.
  Variables (n : Z) (ts : list tri).
  Hypothesis G : good n ts.

  Lemma RT_edge p q r : In (p, q, r) (RT ts) -> In (p, q) (dedges_of ts).
  Proof. intros H. rewrite dedges_RT. change (p, q) with (proj (p, q, r)). apply in_map. assumption. Qed.

  Lemma RT_uniq p q r r' : In (p, q, r) (RT ts) -> In (p, q, r') (RT ts) -> r = r'.
  Proof.
    intros H H'. destruct G as [N _]. rewrite dedges_RT in N.
    assert (E : (p, q, r) = (p, q, r')) by (apply (NoDup_map_inj proj (RT ts)); auto).
    congruence.
  Qed.

  Lemma RT_rev p q r : In (p, q, r) (RT ts) -> exists r', In (q, p, r') (RT ts).
  Proof.
    intros H. destruct G as [_ [Rv _]]. apply RT_edge in H. apply Rv in H.
    rewrite dedges_RT in H. apply in_map_iff in H as [[[x y] z] [E H]]. cbn in E. inversion E; subst.
    exists z. assumption.
  Qed.

  Lemma RT_nodup : NoDup (RT ts).
  Proof. destruct G as [N _]. rewrite dedges_RT in N. eapply NoDup_map_inv. eassumption. Qed.

  Lemma RT_facts p q r :
    In (p, q, r) (RT ts) ->
    p <> q /\ q <> r /\ r <> p /\ 0 <= p < n /\ 0 <= q < n /\ 0 <= r < n /\
    In (q, r, p) (RT ts) /\ In (r, p, q) (RT ts).
  Proof.
    intros H. pose proof (RT_rot _ _ _ _ H) as H1. pose proof (RT_rot _ _ _ _ H1) as H2.
    destruct G as [_ [_ [D _]]].
    destruct (D _ _ _ H), (D _ _ _ H1), (D _ _ _ H2). repeat split; assumption || lia.
  Qed.

  Lemma RT_twin p q r : In (p, q, r) (RT ts) -> ~ In (q, p, r) (RT ts).
  Proof. destruct G as [_ [_ [_ T]]]. apply T. Qed.
End Good.

(** ** one subdivision step with an abstract midpoint numbering *)
Definition children (m : Z -> Z -> Z) (t : tri) : list tri :=
  let '(v1, v2, v3) := t in
  let a := m v1 v2 in let b := m v2 v3 in let c := m v3 v1 in
  [(v1, a, c); (v2, b, a); (v3, c, b); (a, b, c)].

(** the rotated triples of the children, grouped by rotated parent (p, q, r) *)
Definition quadT (m : Z -> Z -> Z) (t : tri) : list tri :=
  let '(p, q, r) := t in
  [(p, m p q, m r p); (m p q, q, m q r); (m p q, m r p, p); (m p q, m q r, m r p)].

Section Subdivide.
  Variables (n n' : Z) (ts : list tri) (m : Z -> Z -> Z).
  Hypothesis G : good n ts.
  Hypothesis Hsym : forall x y, m x y = m y x.
  Hypothesis Hfresh : forall x y, In (x, y) (dedges_of ts) -> n <= m x y < n'.
  Hypothesis Hinj : forall x y x' y',
      In (x, y) (dedges_of ts) -> In (x', y') (dedges_of ts) -> m x y = m x' y' ->
      (x = x' /\ y = y') \/ (x = y' /\ y = x').

  Let ts' := flat_map (children m) ts.
  Let QT := flat_map (quadT m) (RT ts).

  Lemma RT_children X : In X (RT ts') <-> In X QT.
  Proof.
    unfold ts', QT, RT. rewrite !flat_map_flat_map, !in_flat_map.
    split; intros [[[v1 v2] v3] [Ht HX]]; exists (v1, v2, v3); (split; [assumption|]); cbn in *; tauto.
  Qed.

  Lemma RT_children_length : length (RT ts') = length QT.
  Proof.
    unfold ts', QT, RT. rewrite !flat_map_flat_map.
    rewrite (flat_map_length_const _ 12%nat), (flat_map_length_const _ 12%nat); [reflexivity| |];
      intros [[a b] c]; reflexivity.
  Qed.

  Lemma in_QT X :
    In X QT <-> exists p q r, In (p, q, r) (RT ts) /\
                (X = (p, m p q, m r p) \/ X = (m p q, q, m q r) \/ X = (m p q, m r p, p) \/
                 X = (m p q, m q r, m r p)).
  Proof.
    unfold QT. rewrite in_flat_map. split.
    - intros [[[p q] r] [H HX]]. exists p, q, r. split; [assumption|]. cbn in HX. intuition congruence.
    - intros [p [q [r [H HX]]]]. exists (p, q, r). split; [assumption|]. cbn. intuition congruence.
  Qed.

  Lemma rt_all p q r :
    In (p, q, r) (RT ts) ->
    (p <> q /\ q <> r /\ r <> p) /\ (0 <= p < n /\ 0 <= q < n /\ 0 <= r < n) /\
    (In (q, r, p) (RT ts) /\ In (r, p, q) (RT ts)) /\
    (In (p, q) (dedges_of ts) /\ In (q, r) (dedges_of ts) /\ In (r, p) (dedges_of ts)) /\
    (n <= m p q < n' /\ n <= m q r < n' /\ n <= m r p < n').
  Proof.
    intros H. destruct (RT_facts n ts G p q r H) as (A1 & A2 & A3 & B1 & B2 & B3 & R1 & R2).
    pose proof (RT_edge ts p q r H) as E1. pose proof (RT_edge ts q r p R1) as E2.
    pose proof (RT_edge ts r p q R2) as E3.
    repeat split; try assumption; try (apply Hfresh; assumption); lia.
  Qed.

  Ltac use_rt H :=
    let F := fresh "F" in
    pose proof (rt_all _ _ _ H) as F;
    destruct F as ((? & ? & ?) & (? & ? & ?) & (? & ?) & (? & ? & ?) & (? & ? & ?)).
  Ltac minj E :=
    match type of E with
    | m ?x ?y = m ?x' ?y' =>
        let K := fresh "K" in
        assert (K : (x = x' /\ y = y') \/ (x = y' /\ y = x')) by (apply Hinj; assumption)
    end.

  Ltac minj_all :=
    repeat match goal with
           | E : m ?x ?y = m ?x' ?y' |- _ => first [minj E; clear E | clear E]
           end.

  Lemma map_flat_map {A B C} (f : A -> list B) (g : B -> C) l :
    map g (flat_map f l) = flat_map (fun x => map g (f x)) l.
  Proof. induction l as [|a l IH]; cbn; [reflexivity|]. now rewrite map_app, IH. Qed.

  (** every directed edge of the subdivided surface occurs once *)
  Lemma QT_nodup : NoDup (map proj QT).
  Proof.
    unfold QT. rewrite map_flat_map. apply NoDup_flat_map.
    - apply (RT_nodup n ts G).
    - intros [[p q] r] H. use_rt H. cbn.
      repeat constructor; cbn; intros E;
        repeat (destruct E as [E|E]; [injection E; intros; try lia|]); try tauto.
      all: minj_all; lia.
    - intros [[p q] r] [[p' q'] r'] z H H' Hz Hz'. use_rt H. use_rt H'. cbn in Hz, Hz'.
      assert (U : p = p' -> q = q' -> (p, q, r) = (p', q', r')).
      { intros -> ->. f_equal. apply (RT_uniq n ts G p' q'); assumption. }
      pose proof (RT_twin n ts G p q r H) as TW.
      repeat (destruct Hz as [Hz|Hz]; [|]); try tauto; subst z;
        repeat (destruct Hz' as [Hz'|Hz']; [|]); try tauto; injection Hz'; intros; try lia.
      all: minj_all.
      all: try lia.
      all: first [ apply U; lia
                 | exfalso; apply TW;
                   assert (Et : (q, p, r) = (p', q', r')) by (f_equal; [f_equal|]; lia);
                   rewrite Et; assumption ].
  Qed.

  (** the reverse of every directed edge occurs *)
  Lemma QT_rev x y z : In (x, y, z) QT -> exists z', In (y, x, z') QT.
  Proof.
    intros H. apply in_QT in H as [p [q [r [H HX]]]]. use_rt H.
    destruct (RT_rev n ts G p q r H) as [r'' Hr].
    destruct HX as [E|[E|[E|E]]]; injection E; intros; subst x y z.
    - exists (m p r''). apply in_QT. exists q, p, r''. split; [assumption|]. right; left. now rewrite (Hsym q p).
    - exists (m r'' q). apply in_QT. exists q, p, r''. split; [assumption|]. left. now rewrite (Hsym q p).
    - exists (m q r). apply in_QT. exists r, p, q. split; [assumption|]. right; right; right. reflexivity.
    - exists q. apply in_QT. exists q, r, p. split; [assumption|]. right; right; left. reflexivity.
  Qed.

  (** non-degenerate, ids in range *)
  Lemma QT_dist x y z : In (x, y, z) QT -> x <> y /\ 0 <= x < n'.
  Proof.
    intros H. apply in_QT in H as [p [q [r [H HX]]]]. use_rt H.
    destruct HX as [E|[E|[E|E]]]; injection E; intros; subst x y z; (split; [|lia]); try lia;
      intros E'; minj_all; lia.
  Qed.

  (** no triangle together with its mirror image *)
  Lemma QT_twin x y z : In (x, y, z) QT -> ~ In (y, x, z) QT.
  Proof.
    intros H H'. apply in_QT in H as [p [q [r [H HX]]]]. apply in_QT in H' as [p' [q' [r' [H' HX']]]].
    use_rt H. use_rt H'.
    pose proof (RT_twin n ts G p q r H) as TW.
    assert (TW2 : ~ In (p, r, q) (RT ts)).
    { intros K. apply TW. apply RT_rot. apply RT_rot. assumption. }
    assert (TW3 : ~ In (r, q, p) (RT ts)).
    { intros K. apply TW. apply RT_rot. assumption. }
    destruct HX as [E|[E|[E|E]]]; injection E; intros; subst x y z;
      destruct HX' as [E'|[E'|[E'|E']]]; injection E'; intros; try lia.
    all: minj_all.
    all: try lia.
    all: exfalso;
      first [ apply TW; assert (Et : (q, p, r) = (p', q', r')) by (f_equal; [f_equal|]; lia); rewrite Et; assumption
            | apply TW2; assert (Et : (p, r, q) = (p', q', r')) by (f_equal; [f_equal|]; lia); rewrite Et; assumption
            | apply TW3; assert (Et : (r, q, p) = (p', q', r')) by (f_equal; [f_equal|]; lia); rewrite Et; assumption ].
  Qed.

  (** ** the subdivided surface is good *)
  Theorem subdivide_good : good n' ts'.
  Proof.
    unfold good. repeat split.
    - rewrite dedges_RT.
      apply (@NoDup_incl_NoDup _ (map proj QT)); [apply QT_nodup | rewrite !map_length, RT_children_length; lia |].
      intros e He. apply in_map_iff in He as [X [<- HX]]. apply in_map. apply RT_children. assumption.
    - intros a b H. rewrite dedges_RT in H |- *. apply in_map_iff in H as [[[x y] z] [E HX]].
      cbn in E. injection E; intros; subst x y.
      apply RT_children in HX. apply QT_rev in HX as [z' HX]. apply RT_children in HX.
      change (b, a) with (proj (b, a, z')). apply in_map. assumption.
    - apply RT_children in H. apply QT_dist in H. tauto.
    - apply RT_children in H. apply QT_dist in H. tauto.
    - apply RT_children in H. apply QT_dist in H. tauto.
    - intros p q r H H'. apply RT_children in H, H'. exact (QT_twin _ _ _ H H').
  Qed.
End Subdivide.
