(** * Geometry of tetrahedral meshes over the reals: the notions the C17 theorems are
    stated with (orientation, volume sums, containment in a box, depth, open tetrahedra,
    separation by a plane) and their basic lemmas. *)
From Coq Require Import List ZArith Reals Lra Lia Bool.
From D3 Require Import Base.Ops Base.Vec Base.RVec Model.TetSym Model.TetMesh Checker.TetMesh.
Import ListNotations.
Local Open Scope R_scope.

(** every tetrahedron refers to existing vertices and [sigma * 6 * signed volume > 0] *)
Definition tets_oriented (sigma : R) (vs : list (V3 R)) (ts : list tet) : Prop :=
  Forall (fun t => exists v, tet_vol6 (O := ROps) vs t = Some v /\ 0 < sigma * v) ts.

Lemma sum_vol6_app sigma vs l1 l2 s1 s2 :
  sum_vol6 sigma vs l1 = Some s1 -> sum_vol6 sigma vs l2 = Some s2 ->
  sum_vol6 sigma vs (l1 ++ l2) = Some (s1 + s2).
Proof.
  revert s1; induction l1 as [|t r IH]; intros s1 H1 H2; cbn in *.
  - inversion H1; subst. rewrite H2. f_equal. ring.
  - destruct (tet_vol6 vs t) as [v|]; [|discriminate].
    destruct (sum_vol6 sigma vs r) as [s|]; [|discriminate].
    inversion H1; subst. rewrite (IH s eq_refl H2). f_equal. ring.
Qed.

Lemma tets_oriented_app sigma vs l1 l2 :
  tets_oriented sigma vs l1 -> tets_oriented sigma vs l2 -> tets_oriented sigma vs (l1 ++ l2).
Proof. unfold tets_oriented. intros. apply Forall_app. split; assumption. Qed.

(** ** axis-aligned box, depth *)
Definition in_box (hx hy hz : R) (p : V3 R) : Prop :=
  Rabs (vx p) <= hx /\ Rabs (vy p) <= hy /\ Rabs (vz p) <= hz.
(** distance of a point of the box to the boundary of the box *)
Definition box_depth (hx hy hz : R) (p : V3 R) : R :=
  Rmin (hx - Rabs (vx p)) (Rmin (hy - Rabs (vy p)) (hz - Rabs (vz p))).

(** ** open tetrahedra and separation *)
Definition comb4 (w0 w1 w2 w3 : R) (a b c d : V3 R) : V3 R :=
  V (w0 * vx a + w1 * vx b + w2 * vx c + w3 * vx d)
    (w0 * vy a + w1 * vy b + w2 * vy c + w3 * vy d)
    (w0 * vz a + w1 * vz b + w2 * vz c + w3 * vz d).

(** [p] is in the interior of the tetrahedron with vertices a b c d *)
Definition tet_interior (a b c d p : V3 R) : Prop :=
  exists w0 w1 w2 w3, 0 < w0 /\ 0 < w1 /\ 0 < w2 /\ 0 < w3 /\ w0 + w1 + w2 + w3 = 1 /\
                      p = comb4 w0 w1 w2 w3 a b c d.
(** [p] is in the closed tetrahedron *)
Definition tet_closed (a b c d p : V3 R) : Prop :=
  exists w0 w1 w2 w3, 0 <= w0 /\ 0 <= w1 /\ 0 <= w2 /\ 0 <= w3 /\ w0 + w1 + w2 + w3 = 1 /\
                      p = comb4 w0 w1 w2 w3 a b c d.

(** the affine functional of the plane through [q] with normal [n] *)
Definition plane_fn (n q p : V3 R) : R := dot n (vsub p q).

Lemma plane_fn_comb n q w0 w1 w2 w3 a b c d :
  w0 + w1 + w2 + w3 = 1 ->
  plane_fn n q (comb4 w0 w1 w2 w3 a b c d)
  = w0 * plane_fn n q a + w1 * plane_fn n q b + w2 * plane_fn n q c + w3 * plane_fn n q d.
Proof.
  intros H. replace w3 with (1 - w0 - w1 - w2) by lra.
  unfold plane_fn, comb4. vsimp. ring.
Qed.

(** a plane with one tetrahedron on its non-positive and the other on its non-negative
    side, one vertex strictly off the plane, separates the interiors *)
Lemma separated_interiors_disjoint n q a1 b1 c1 d1 a2 b2 c2 d2 :
  plane_fn n q a1 <= 0 -> plane_fn n q b1 <= 0 -> plane_fn n q c1 <= 0 -> plane_fn n q d1 <= 0 ->
  0 <= plane_fn n q a2 -> 0 <= plane_fn n q b2 -> 0 <= plane_fn n q c2 -> 0 <= plane_fn n q d2 ->
  (plane_fn n q a1 < 0 \/ plane_fn n q b1 < 0 \/ plane_fn n q c1 < 0 \/ plane_fn n q d1 < 0 \/
   0 < plane_fn n q a2 \/ 0 < plane_fn n q b2 \/ 0 < plane_fn n q c2 \/ 0 < plane_fn n q d2) ->
  forall p, ~ (tet_interior a1 b1 c1 d1 p /\ tet_interior a2 b2 c2 d2 p).
Proof.
  intros A1 B1 C1 D1 A2 B2 C2 D2 S p [[w0 [w1 [w2 [w3 (W0 & W1 & W2 & W3 & Ws & Hp)]]]]
                                      [u0 [u1 [u2 [u3 (U0 & U1 & U2 & U3 & Us & Hq)]]]]].
  pose proof (plane_fn_comb n q w0 w1 w2 w3 a1 b1 c1 d1 Ws) as E1.
  pose proof (plane_fn_comb n q u0 u1 u2 u3 a2 b2 c2 d2 Us) as E2.
  rewrite <- Hp in E1. rewrite <- Hq in E2.
  set (f := plane_fn n q) in *. clearbody f.
  generalize dependent (f p). intros fp E1 E2.
  generalize dependent (f a1). generalize dependent (f b1). generalize dependent (f c1).
  generalize dependent (f d1). generalize dependent (f a2). generalize dependent (f b2).
  generalize dependent (f c2). generalize dependent (f d2). intros.
  destruct S as [S|[S|[S|[S|[S|[S|[S|S]]]]]]]; nra.
Qed.

(** containment of a closed tetrahedron in a box follows from that of its vertices *)
Lemma Rabs_comb4_le w0 w1 w2 w3 x0 x1 x2 x3 h :
  0 <= w0 -> 0 <= w1 -> 0 <= w2 -> 0 <= w3 -> w0 + w1 + w2 + w3 = 1 ->
  Rabs x0 <= h -> Rabs x1 <= h -> Rabs x2 <= h -> Rabs x3 <= h ->
  Rabs (w0 * x0 + w1 * x1 + w2 * x2 + w3 * x3) <= h.
Proof.
  intros W0 W1 W2 W3 Ws H0 H1 H2 H3.
  assert (I : forall x, Rabs x <= h -> - h <= x <= h)
    by (intros x; unfold Rabs; destruct (Rcase_abs x); lra).
  apply I in H0, H1, H2, H3. apply Rabs_le. nra.
Qed.

Lemma tet_closed_in_box hx hy hz a b c d p :
  in_box hx hy hz a -> in_box hx hy hz b -> in_box hx hy hz c -> in_box hx hy hz d ->
  tet_closed a b c d p -> in_box hx hy hz p.
Proof.
  intros (A1 & A2 & A3) (B1 & B2 & B3) (C1 & C2 & C3) (D1 & D2 & D3)
         [w0 [w1 [w2 [w3 (W0 & W1 & W2 & W3 & Ws & Hp)]]]].
  subst p. unfold in_box, comb4; cbn [vx vy vz].
  repeat split; apply Rabs_comb4_le; assumption.
Qed.

(** the mesh-level notions *)
Definition mesh_interior (vs : list (V3 R)) (t : tet) (p : V3 R) : Prop :=
  exists a b c d, tet_points vs t = Some (a, b, c, d) /\ tet_interior a b c d p.

(** no point lies in the interior of two different elements *)
Definition interiors_disjoint (vs : list (V3 R)) (ts : list tet) : Prop :=
  forall i j ti tj, (i < j)%nat -> nth_error ts i = Some ti -> nth_error ts j = Some tj ->
                    forall p, ~ (mesh_interior vs ti p /\ mesh_interior vs tj p).

(** every vertex of the mesh is used by the statement "all elements lie in the box" *)
Definition verts_in_box (hx hy hz : R) (vs : list (V3 R)) : Prop := Forall (in_box hx hy hz) vs.

Lemma vget_in vs i (p : V3 R) : vget vs i = Some p -> In p vs.
Proof. unfold vget. destruct (i <? 0)%Z; [discriminate|]. apply nth_error_In. Qed.

Lemma mesh_elements_in_box hx hy hz vs t a b c d p :
  verts_in_box hx hy hz vs -> tet_points vs t = Some (a, b, c, d) ->
  tet_closed a b c d p -> in_box hx hy hz p.
Proof.
  intros Hv Ht Hp. destruct t as [[[ia ib] ic] id]. unfold tet_points in Ht.
  destruct (vget vs ia) as [pa|] eqn:Ea; [|discriminate].
  destruct (vget vs ib) as [pb|] eqn:Eb; [|discriminate].
  destruct (vget vs ic) as [pc|] eqn:Ec; [|discriminate].
  destruct (vget vs id) as [pd|] eqn:Ed; [|discriminate].
  inversion Ht; subst. unfold verts_in_box in Hv. rewrite Forall_forall in Hv.
  apply (tet_closed_in_box hx hy hz a b c d p); try assumption; apply Hv; eapply vget_in; eassumption.
Qed.
