(** * Optimality (C11) of the COMBINATORS of [Model/DistPrimComb.v] over the reals.

    [Proofs/DistComb.v] proves feasibility (the returned pair is a pair of members and [d] is their
    distance).  Here: no pair of members is closer than the returned [d].

    1. the justification the code comments cite for "clamp the line parameter": a convex function on
       a line restricted to a segment is minimised at the clamped global minimiser
       ([clamp_of_convex_line_min]); geometric form for a convex set ([segment_end_optimal_convex]),
       instances for triangles and rectangles.
    2. line_to_triangle (both arms; parallel and non-parallel case).
    3. line_segment_to_triangle.
    4. line_to_rectangle, line_segment_to_rectangle: optimal unless the returned distance lies in (0, eps)
       (`if best_dist < epsilon: break` skips edges); refutations inside that band.
    5. triangle_to_triangle, triangle_to_rectangle, rectangle_to_rectangle: a pair of points of two planar
       convex polygons can be slid along a direction common to the two planes until one point lies on an edge.
    Every edge must be at least sqrt(eps) long and [0 < eps < 1] strictly: the domain of
    [Proofs/DistLine.v: line_to_line_segment_optimal] (refuted at eps = 1 there). *)
From Coq Require Import Reals Lra Psatz List Bool.
From D3 Require Import Base.Ops Base.Vec Base.RVec Base.RVec2 Spec.Convex Spec.Prims Model.DistPrim Model.DistPrimComb
  Proofs.DistBase Proofs.DistPoint Proofs.DistRect Proofs.DistTriangle Proofs.DistLine Proofs.DistPlane Proofs.DistComb.
Import ListNotations. Local Open Scope R_scope.

(** ** 1. clamping the minimiser of a convex function *)
Definition clampR (ts lo hi : R) : R :=
  if Rlt_dec ts lo then lo else if Rlt_dec hi ts then hi else ts.

Lemma clamp_of_convex_line_min (f : R -> R) (ts L : R) :
  (forall x y l, 0 <= l <= 1 -> f (l * x + (1 - l) * y) <= l * f x + (1 - l) * f y) ->
  (forall t, f ts <= f t) ->
  0 <= L -> forall t, 0 <= t <= L -> f (clampR ts 0 L) <= f t.
Proof.
  intros Hc Hm HL t Ht. unfold clampR.
  destruct (Rlt_dec ts 0) as [H0|H0]; [|destruct (Rlt_dec L ts) as [H1|H1]].
  - set (l := t / (t - ts)).
    assert (Hl : 0 <= l <= 1).
    { unfold l. split; [apply Rmult_le_pos; [lra|left; apply Rinv_0_lt_compat; lra]|].
      apply (Rmult_le_reg_r (t - ts)); [lra|]. unfold Rdiv. rewrite Rmult_assoc, Rinv_l; lra. }
    pose proof (Hc ts t l Hl) as H.
    replace (l * ts + (1 - l) * t) with 0 in H by (unfold l; field; lra).
    pose proof (Hm t). nra.
  - set (l := (L - t) / (ts - t)).
    assert (Hl : 0 <= l <= 1).
    { unfold l. split; [apply Rmult_le_pos; [lra|left; apply Rinv_0_lt_compat; lra]|].
      apply (Rmult_le_reg_r (ts - t)); [lra|]. unfold Rdiv. rewrite Rmult_assoc, Rinv_l; lra. }
    pose proof (Hc ts t l Hl) as H.
    replace (l * ts + (1 - l) * t) with L in H by (unfold l; field; lra).
    pose proof (Hm t). nra.
  - apply Hm.
Qed.

(** geometric form, pointwise (no infima): the line [s + u sd] is closest to the convex set [C] at
    parameter [ts < 0] (attained at [ystar]).  Then every pair (point of the ray [t >= 0], point of [C])
    is at least as far apart as the start point [s] is from some point of [C]. *)
Lemma segment_end_optimal_convex (C : set3) (s sd ystar : V3R) (ts : R) :
  convex C -> C ystar ->
  (forall u y, C y -> norm (vsub (vadd s (vscale ts sd)) ystar) <= norm (vsub (vadd s (vscale u sd)) y)) ->
  ts < 0 ->
  forall t y, 0 <= t -> C y ->
    exists y', C y' /\ norm (vsub s y') <= norm (vsub (vadd s (vscale t sd)) y).
Proof.
  intros Hcv Hy Hopt Hts t y Ht Hyc.
  set (l := t / (t - ts)).
  assert (Hl : 0 <= l <= 1).
  { unfold l. split; [apply Rmult_le_pos; [lra|left; apply Rinv_0_lt_compat; lra]|].
    apply (Rmult_le_reg_r (t - ts)); [lra|]. unfold Rdiv. rewrite Rmult_assoc, Rinv_l; lra. }
  assert (Hz : l * ts + (1 - l) * t = 0) by (unfold l; field; lra).
  exists (vadd (vscale (1 - (1 - l)) ystar) (vscale (1 - l) y)). split.
  - apply Hcv; auto. lra.
  - set (P1 := vsub (vadd s (vscale ts sd)) ystar). set (P2 := vsub (vadd s (vscale t sd)) y).
    assert (E : vsub s (vadd (vscale (1 - (1 - l)) ystar) (vscale (1 - l) y))
                = vadd (vscale l P1) (vscale (1 - l) P2)).
    { unfold P1, P2. clearbody l.
      replace s with (vadd s (vscale (l * ts + (1 - l) * t) sd)) at 1 by (rewrite Hz; veq).
      veq. }
    rewrite E. eapply Rle_trans; [apply norm_triangle|]. rewrite !norm_scale.
    rewrite !Rabs_pos_eq by lra.
    pose proof (Hopt t y Hyc) as H. fold P1 P2 in H.
    pose proof (norm_nonneg P1). pose proof (norm_nonneg P2). clearbody l P1 P2. nra.
Qed.

(** the same at the other end: [ts > len], points of the ray [t <= len] *)
Lemma segment_end_optimal_convex_hi (C : set3) (s sd ystar : V3R) (ts len : R) :
  convex C -> C ystar ->
  (forall u y, C y -> norm (vsub (vadd s (vscale ts sd)) ystar) <= norm (vsub (vadd s (vscale u sd)) y)) ->
  len < ts ->
  forall t y, t <= len -> C y ->
    exists y', C y' /\ norm (vsub (vadd s (vscale len sd)) y') <= norm (vsub (vadd s (vscale t sd)) y).
Proof.
  intros Hcv Hy Hopt Hts t y Ht Hyc.
  destruct (segment_end_optimal_convex C (vadd s (vscale len sd)) (vneg sd) ystar (len - ts) Hcv Hy) with (t := len - t) (y := y)
    as (y' & Hy' & Hle); auto; try lra.
  - intros u y0 Hy0.
    replace (vadd (vadd s (vscale len sd)) (vscale (len - ts) (vneg sd))) with (vadd s (vscale ts sd)) by veq.
    replace (vadd (vadd s (vscale len sd)) (vscale u (vneg sd))) with (vadd s (vscale (len - u) sd)) by veq.
    apply Hopt. exact Hy0.
  - exists y'. split; [exact Hy'|].
    replace (vadd (vadd s (vscale len sd)) (vscale (len - t) (vneg sd))) with (vadd s (vscale t sd)) in Hle by veq.
    exact Hle.
Qed.

(** triangles and rectangles are convex *)
Lemma triangle_convex (a b c : V3R) : convex (triangle_set a b c).
Proof.
  intros x y t (v1 & w1 & Hv1 & Hw1 & Hs1 & ->) (v2 & w2 & Hv2 & Hw2 & Hs2 & ->) Ht.
  exists ((1 - t) * v1 + t * v2), ((1 - t) * w1 + t * w2).
  assert (0 <= (1 - t) * v1) by (apply Rmult_le_pos; lra).
  assert (0 <= t * v2) by (apply Rmult_le_pos; lra).
  assert (0 <= (1 - t) * w1) by (apply Rmult_le_pos; lra).
  assert (0 <= t * w2) by (apply Rmult_le_pos; lra).
  assert (0 <= (1 - t) * (1 - v1 - w1)) by (apply Rmult_le_pos; lra).
  assert (0 <= t * (1 - v2 - w2)) by (apply Rmult_le_pos; lra).
  split; [lra|]. split; [lra|]. split; [lra|]. veq.
Qed.

Lemma rectangle_convex (c a0 a1 : V3R) (l0 l1 : R) : convex (rectangle_set c a0 a1 l0 l1).
Proof.
  intros x y t (k0 & k1 & Hk0 & Hk1 & ->) (m0 & m1 & Hm0 & Hm1 & ->) Ht.
  apply Rabs_le_between' in Hk0, Hk1, Hm0, Hm1.
  exists ((1 - t) * k0 + t * m0), ((1 - t) * k1 + t * m1).
  split; [apply Rabs_le; nra|]. split; [apply Rabs_le; nra|]. veq.
Qed.

(** the form used for arms 1/2 of line_segment_to_X: the distance [d_end] of the start point to [C]
    (as returned by point_to_X) is a lower bound for every pair (point of the ray, point of [C]) *)
Lemma segment_end_optimal (C : set3) (s sd ystar : V3R) (ts d_end : R) :
  convex C -> C ystar ->
  (forall u y, C y -> norm (vsub (vadd s (vscale ts sd)) ystar) <= norm (vsub (vadd s (vscale u sd)) y)) ->
  ts < 0 -> closest_on C s d_end ->
  forall t y, 0 <= t -> C y -> d_end <= norm (vsub (vadd s (vscale t sd)) y).
Proof.
  intros Hcv Hy Hopt Hts Hcl t y Ht Hyc.
  destruct (segment_end_optimal_convex C s sd ystar ts Hcv Hy Hopt Hts t y Ht Hyc) as (y' & Hy' & Hle).
  pose proof (Hcl y' Hy'). lra.
Qed.

Lemma segment_end_optimal_triangle (a b c s sd ystar : V3R) (ts d_end : R) :
  triangle_set a b c ystar ->
  (forall u y, triangle_set a b c y ->
     norm (vsub (vadd s (vscale ts sd)) ystar) <= norm (vsub (vadd s (vscale u sd)) y)) ->
  ts < 0 -> closest_on (triangle_set a b c) s d_end ->
  forall t y, 0 <= t -> triangle_set a b c y -> d_end <= norm (vsub (vadd s (vscale t sd)) y).
Proof. apply segment_end_optimal. apply triangle_convex. Qed.

Lemma segment_end_optimal_rectangle (c a0 a1 : V3R) (l0 l1 : R) (s sd ystar : V3R) (ts d_end : R) :
  rectangle_set c a0 a1 l0 l1 ystar ->
  (forall u y, rectangle_set c a0 a1 l0 l1 y ->
     norm (vsub (vadd s (vscale ts sd)) ystar) <= norm (vsub (vadd s (vscale u sd)) y)) ->
  ts < 0 -> closest_on (rectangle_set c a0 a1 l0 l1) s d_end ->
  forall t y, 0 <= t -> rectangle_set c a0 a1 l0 l1 y -> d_end <= norm (vsub (vadd s (vscale t sd)) y).
Proof. apply segment_end_optimal. apply rectangle_convex. Qed.

(** ** 2. line_to_triangle *)
(** *** leaving a triangle along a ray, in barycentric coordinates *)
Lemma seg_nonneg (g r tau tau' : R) : 0 <= g -> 0 <= g + tau * r -> 0 <= tau' <= tau -> 0 <= g + tau' * r.
Proof. intros. destruct (Rle_dec 0 r); nra. Qed.

Lemma exit_refine (g r tau : R) :
  0 <= g -> 0 <= tau -> exists tau', 0 <= tau' <= tau /\ 0 <= g + tau' * r /\ (tau' = tau \/ g + tau' * r = 0).
Proof.
  intros Hg Ht. destruct (Rle_dec 0 (g + tau * r)) as [H|H].
  - exists tau. repeat split; auto; lra.
  - assert (Hr : r < 0) by nra.
    assert (E : g + g / - r * r = 0) by (field; lra).
    assert (0 <= g / - r) by (apply Rmult_le_pos; [lra|left; apply Rinv_0_lt_compat; lra]).
    exists (g / - r). repeat split; auto; try lra.
    apply (Rmult_le_reg_r (- r)); [lra|]. unfold Rdiv. rewrite Rmult_assoc, Rinv_l by lra. nra.
Qed.

Lemma ray_exit_aux (g0 g1 g2 r0 r1 r2 : R) :
  0 <= g0 -> 0 <= g1 -> 0 <= g2 -> r0 < 0 ->
  exists tau, 0 <= tau /\ 0 <= g0 + tau * r0 /\ 0 <= g1 + tau * r1 /\ 0 <= g2 + tau * r2 /\
     (g0 + tau * r0 = 0 \/ g1 + tau * r1 = 0 \/ g2 + tau * r2 = 0).
Proof.
  intros H0 H1 H2 Hr.
  set (t0 := g0 / - r0).
  assert (Ht0 : 0 <= t0) by (apply Rmult_le_pos; [lra|left; apply Rinv_0_lt_compat; lra]).
  assert (E0 : g0 + t0 * r0 = 0) by (unfold t0; field; lra).
  clearbody t0.
  destruct (exit_refine g1 r1 t0) as (t1 & Ht1 & P1 & Z1); auto.
  destruct (exit_refine g2 r2 t1) as (t2 & Ht2 & P2 & Z2); auto; [lra|].
  exists t2. split; [lra|].
  split; [apply (seg_nonneg g0 r0 t0); lra|]. split; [apply (seg_nonneg g1 r1 t1); lra|]. split; [exact P2|].
  destruct Z2 as [->|Z2]; [|auto]. destruct Z1 as [->|Z1]; auto.
Qed.

Lemma ray_exit (g0 g1 g2 r0 r1 r2 : R) :
  0 <= g0 -> 0 <= g1 -> 0 <= g2 -> (r0 < 0 \/ r1 < 0 \/ r2 < 0) ->
  exists tau, 0 <= tau /\ 0 <= g0 + tau * r0 /\ 0 <= g1 + tau * r1 /\ 0 <= g2 + tau * r2 /\
     (g0 + tau * r0 = 0 \/ g1 + tau * r1 = 0 \/ g2 + tau * r2 = 0).
Proof.
  intros H0 H1 H2 [H|[H|H]].
  - apply ray_exit_aux; auto.
  - destruct (ray_exit_aux g1 g0 g2 r1 r0 r2) as (t & ? & ? & ? & ? & Z); auto. exists t. intuition.
  - destruct (ray_exit_aux g2 g0 g1 r2 r0 r1) as (t & ? & ? & ? & ? & Z); auto. exists t. intuition.
Qed.

(** a point of the triangle with a vanishing barycentric coordinate lies on one of the three edges
    that the code enumerates *)
Lemma tri_bary_edge (a b c : V3R) (s r : R) :
  0 <= s -> 0 <= r -> 0 <= 1 - s - r -> (s = 0 \/ r = 0 \/ 1 - s - r = 0) ->
  exists se, In se (tri_edges a b c) /\ segment_set (fst se) (snd se) (tri_at a b c s r).
Proof.
  intros Hs Hr Hsr [Z|[Z|Z]].
  - exists (c, a). split; [left; reflexivity|]. cbn [fst snd]. exists (1 - r). split; [lra|].
    subst s. unfold tri_at. veq.
  - exists (a, b). split; [right; left; reflexivity|]. cbn [fst snd]. exists s. split; [lra|].
    subst r. unfold tri_at. veq.
  - exists (b, c). split; [right; right; left; reflexivity|]. cbn [fst snd]. exists r. split; [lra|].
    replace s with (1 - r) by lra. unfold tri_at. veq.
Qed.

(** *** the edge loop computes a lower bound of every edge candidate *)
Definition edge_d (lp ld : V3R) (eps : R) (se : V3R * V3R) : R :=
  rd (line_to_line_segment lp ld (fst se) (snd se) eps).
Definition d4 (r : R * V3R * V3R * R) : R := fst (fst (fst r)).

Lemma edges_fold_le (lp ld : V3R) (eps : R) (l : list (V3R * V3R)) (best : R * V3R * V3R * R) :
  let res := fold_left (fun (best : R * V3R * V3R * R) (se : V3R * V3R) =>
        let '(bd, _, _, _) := best in
        let '(d, cpl, cps, t, _, _) := line_to_line_segment_full lp ld (fst se) (snd se) eps in
        if ltb (Ops:=ROps) d bd then (d, cpl, cps, t) else best) l best in
  d4 res <= d4 best /\ forall se, In se l -> d4 res <= edge_d lp ld eps se.
Proof.
  cbv zeta. revert best. induction l as [|se l IH]; intros best; cbn [fold_left].
  - split; [lra|]. intros se [].
  - match goal with |- context [fold_left ?f l ?b] => destruct (IH b) as [IH1 IH2]; set (res := fold_left f l b) in * end.
    clearbody res.
    assert (Hstep : d4 res <= d4 best /\ d4 res <= edge_d lp ld eps se).
    { revert IH1. unfold edge_d, line_to_line_segment. destruct best as [[[bd b1] b2] bt].
      destruct (line_to_line_segment_full lp ld (fst se) (snd se) eps) as [[[[[d cpl] cps] t] s] arm].
      unfold rd, d4. cbn [fst snd]. ops_R. rb_case; cbn [fst snd]; lra. }
    split; [tauto|]. intros se' [<-|Hin]; [tauto|auto].
Qed.

(** *** from the edges to the triangle *)
Definition edge_reduction (lp ld a b c : V3R) : Prop :=
  forall x y, line_set lp ld x -> triangle_set a b c y ->
    exists x' z se, line_set lp ld x' /\ In se (tri_edges a b c) /\ segment_set (fst se) (snd se) z /\
                    norm (vsub x' z) <= norm (vsub x y).

Lemma edge_reduce_optimal (lp ld a b c : V3R) (eps d : R) :
  (forall se, In se (tri_edges a b c) -> d <= edge_d lp ld eps se) ->
  (forall se, In se (tri_edges a b c) ->
     optimal (line_set lp ld) (segment_set (fst se) (snd se)) (edge_d lp ld eps se)) ->
  edge_reduction lp ld a b c ->
  optimal (line_set lp ld) (triangle_set a b c) d.
Proof.
  intros Hle Hopt Hred x y Hx Hy.
  destruct (Hred x y Hx Hy) as (x' & z & se & Hx' & Hin & Hz & Hn).
  pose proof (Hle se Hin). pose proof (Hopt se Hin x' z Hx' Hz). lra.
Qed.

(** non-parallel case: the line meets the plane of the triangle in a point with a negative
    barycentric coordinate.  Contract the pair (x, y) towards that point until y reaches an edge. *)
Lemma pierce_reduce (lp ld a b c : V3R) (b0 b1 t : R) :
  vadd lp (vscale t ld) = tri_at a b c b0 b1 ->
  (1 - b0 - b1 < 0 \/ b0 < 0 \/ b1 < 0) ->
  edge_reduction lp ld a b c.
Proof.
  intros HO Hneg x y (tx & ->) (s & r & Hs & Hr & Hsr & ->).
  assert (Hrate : b0 - s < 0 \/ b1 - r < 0 \/ (1 - b0 - b1) - (1 - s - r) < 0)
    by (destruct Hneg as [H|[H|H]]; [right; right|left|right; left]; lra).
  destruct (ray_exit s r (1 - s - r) (b0 - s) (b1 - r) ((1 - b0 - b1) - (1 - s - r)))
    as (tau & Ht & P0 & P1 & P2 & Z); try lra.
  assert (Ht1 : tau <= 1) by (destruct Hneg as [H|[H|H]]; nra).
  set (s' := s + tau * (b0 - s)) in *. set (r' := r + tau * (b1 - r)) in *.
  assert (E2 : (1 - s - r) + tau * (1 - b0 - b1 - (1 - s - r)) = 1 - s' - r') by (unfold s', r'; ring).
  rewrite E2 in *.
  destruct (tri_bary_edge a b c s' r') as (se & Hin & Hseg); auto.
  exists (vadd lp (vscale ((1 - tau) * tx + tau * t) ld)), (tri_at a b c s' r'), se.
  split; [apply line_mem|]. split; [exact Hin|]. split; [exact Hseg|].
  fold (tri_at a b c s r).
  replace (vsub (vadd lp (vscale ((1 - tau) * tx + tau * t) ld)) (tri_at a b c s' r'))
     with (vscale (1 - tau) (vsub (vadd lp (vscale tx ld)) (tri_at a b c s r))).
  - rewrite norm_scale, Rabs_pos_eq by lra.
    pose proof (norm_nonneg (vsub (vadd lp (vscale tx ld)) (tri_at a b c s r))). nra.
  - replace (tri_at a b c s' r')
      with (vadd (vscale (1 - tau) (tri_at a b c s r)) (vscale tau (tri_at a b c b0 b1)))
      by (unfold tri_at, s', r'; veq).
    rewrite <- HO. veq.
Qed.

(** parallel case: slide the pair (x, y) along the line direction until y reaches an edge *)
Lemma span_expand (e0 e1 ld : V3R) :
  vscale (dot (cross e0 e1) (cross e0 e1)) ld =
  vadd (vscale (dot (cross ld e1) (cross e0 e1)) e0)
       (vadd (vscale (dot (cross e0 ld) (cross e0 e1)) e1) (vscale (dot (cross e0 e1) ld) (cross e0 e1))).
Proof. veq. Qed.

Lemma parallel_reduce (lp ld a b c : V3R) :
  ld <> vzero ->
  cross (vsub b a) (vsub c a) <> vzero ->
  dot (cross (vsub b a) (vsub c a)) ld = 0 ->
  edge_reduction lp ld a b c.
Proof.
  intros Hld Hnd Hpar x y (tx & ->) (s & r & Hs & Hr & Hsr & ->).
  pose proof (cross_nonzero_pos _ Hnd) as Hnn.
  pose proof (span_expand (vsub b a) (vsub c a) ld) as Hex. rewrite Hpar in Hex.
  set (e0 := vsub b a) in *. set (e1 := vsub c a) in *.
  set (nn := dot (cross e0 e1) (cross e0 e1)) in *.
  set (al := dot (cross ld e1) (cross e0 e1) / nn).
  set (be := dot (cross e0 ld) (cross e0 e1) / nn).
  assert (Hexp : ld = vadd (vscale al e0) (vscale be e1)).
  { replace ld with (vscale (/ nn) (vscale nn ld)) at 1 by (clearbody nn; veq; lra).
    rewrite Hex. unfold al, be. clearbody nn. veq; lra. }
  assert (Hrate : al < 0 \/ be < 0 \/ - (al + be) < 0).
  { destruct (Rlt_dec al 0); [auto|]. destruct (Rlt_dec be 0); [auto|]. destruct (Rlt_dec (- (al + be)) 0); [auto|].
    exfalso. apply Hld. assert (al = 0) by lra. assert (be = 0) by lra. rewrite Hexp. clearbody al be. subst. veq. }
  clearbody al be.
  destruct (ray_exit s r (1 - s - r) al be (- (al + be))) as (tau & Ht & P0 & P1 & P2 & Z); try lra.
  set (s' := s + tau * al) in *. set (r' := r + tau * be) in *.
  assert (E2 : (1 - s - r) + tau * - (al + be) = 1 - s' - r') by (unfold s', r'; ring).
  rewrite E2 in *.
  destruct (tri_bary_edge a b c s' r') as (se & Hin & Hseg); auto.
  exists (vadd lp (vscale (tx + tau) ld)), (tri_at a b c s' r'), se.
  split; [apply line_mem|]. split; [exact Hin|]. split; [exact Hseg|].
  apply Req_le. f_equal.
  replace (tri_at a b c s' r') with (vadd (tri_at a b c s r) (vscale tau ld)).
  - subst e0 e1. unfold tri_at. veq.
  - rewrite Hexp at 1. subst e0 e1. unfold tri_at, s', r'. veq.
Qed.

(** *** the theorem *)
Lemma norm_vector_dot_zero (w ld : V3R) : dot (Support.norm_vector w) ld = 0 -> dot w ld = 0.
Proof.
  unfold Support.norm_vector. ops_R. rb_case; intros H; [exact H|].
  rewrite dot_vdivs_l in H by exact E. unfold Rdiv in H.
  apply Rmult_integral in H. destruct H as [H|H]; [exact H|].
  exfalso. revert H. apply Rinv_neq_0_compat. exact E.
Qed.

Lemma tri_edge_optimal (lp ld a b c : V3R) (eps : R) (se : V3R * V3R) :
  dot ld ld = 1 -> 0 < eps < 1 ->
  eps <= dot (vsub b a) (vsub b a) -> eps <= dot (vsub c b) (vsub c b) -> eps <= dot (vsub a c) (vsub a c) ->
  In se (tri_edges a b c) ->
  optimal (line_set lp ld) (segment_set (fst se) (snd se)) (edge_d lp ld eps se).
Proof.
  intros Hu [He0 He1] L1 L2 L3 Hin. unfold edge_d.
  destruct (line_to_line_segment lp ld (fst se) (snd se) eps) as [[d c1] c2] eqn:E.
  unfold rd. cbn [fst].
  apply (line_to_line_segment_optimal lp ld (fst se) (snd se) eps d c1 c2); auto.
  destruct Hin as [<- | [<- | [<- | []]]]; cbn [fst snd]; assumption.
Qed.

(** _line_to_triangle.  Hypotheses beyond the docstring (unit direction, non-degenerate triangle):
    - [0 < eps < 1] and no edge shorter than [sqrt eps]: the domain of [line_to_line_segment_optimal]
      (a shorter edge is treated as a point by the callee);
    - band exclusion on the model's own test quantity: the line is exactly parallel to the plane of the
      triangle or clearly not parallel.
    No [d < max_float] is needed: the edge loop computes a lower bound of all edge candidates. *)
Theorem line_to_triangle_full_optimal (lp ld a b c : V3R) (eps : R) d c1 c2 t arm :
  dot ld ld = 1 -> 0 < eps < 1 ->
  cross (vsub b a) (vsub c a) <> vzero ->
  eps <= dot (vsub b a) (vsub b a) -> eps <= dot (vsub c b) (vsub c b) -> eps <= dot (vsub a c) (vsub a c) ->
  (let nrm := Support.norm_vector (cross (vsub b a) (vsub c a)) in dot nrm ld = 0 \/ eps < Rabs (dot nrm ld)) ->
  line_to_triangle_full lp ld a b c eps = (d, c1, c2, t, arm) ->
  optimal (line_set lp ld) (triangle_set a b c) d.
Proof.
  intros Hu He Hnd L1 L2 L3 Hband. cbv zeta in Hband.
  pose proof (edges_fold_le lp ld eps (tri_edges a b c) (max_float, vzero, vzero, 0)) as Hfold. cbv zeta in Hfold.
  destruct Hfold as [_ Hfold].
  unfold line_to_triangle_full.
  set (fr := fold_left _ (tri_edges a b c) _) in *.
  assert (Her : edge_reduction lp ld a b c ->
                (let '(d0, cpl, cpt, t0) := fr in (d0, cpl, cpt, t0, 1%nat)) = (d, c1, c2, t, arm) ->
                optimal (line_set lp ld) (triangle_set a b c) d).
  { intros Hred. destruct fr as [[[d0 cpl] cpt] t0]. intros H. apply pair5_eq in H. destruct H as (<- & _).
    apply (edge_reduce_optimal lp ld a b c eps); [exact Hfold| |exact Hred].
    intros se Hin. apply (tri_edge_optimal lp ld a b c); auto. }
  clearbody fr. clear Hfold. cbv zeta. ops_R.
  rb_case.
  - destruct (plane_basis_from_normal ld) as [u v] eqn:Hb.
    pose proof (pierce_det ld (vsub b a) (vsub c a) u v Hu Hb) as Hdet.
    assert (Hnz : dot (vsub b a) u * dot (vsub c a) v - dot (vsub c a) u * dot (vsub b a) v <> 0).
    { rewrite Hdet. eapply norm_vector_dot_nz; [|exact E]. lra. }
    pose proof (pierce_point lp ld a (vsub b a) (vsub c a) u v Hu Hb Hnz) as Hpt. cbv zeta in Hpt.
    unfold neqb. ops_R. rewrite (proj2 (Reqb_false _ _) Hnz). cbn [negb].
    set (b0 := (dot (vsub c a) v * dot u (vsub lp a) - dot (vsub c a) u * dot v (vsub lp a)) / _) in *.
    set (b1 := (dot (vsub b a) u * dot v (vsub lp a) - dot (vsub b a) v * dot u (vsub lp a)) / _) in *.
    destruct (Rleb 0 (1 - b0 - b1) && Rleb 0 b0 && Rleb 0 b1) eqn:Et.
    + intros H. apply pair5_eq in H. destruct H as (<- & _).
      intros x y _ _. apply norm_nonneg.
    + apply Her. eapply pierce_reduce; [exact Hpt|].
      apply andb_false_iff in Et. destruct Et as [Et|Et]; [apply andb_false_iff in Et; destruct Et as [Et|Et]|];
        rb_hyp Et; lra.
  - apply Her. apply parallel_reduce.
    + apply unit_nonzero. exact Hu.
    + exact Hnd.
    + apply norm_vector_dot_zero. destruct Hband as [H|H]; [exact H|lra].
Qed.

Theorem line_to_triangle_optimal (lp ld a b c : V3R) (eps : R) d c1 c2 :
  dot ld ld = 1 -> 0 < eps < 1 ->
  cross (vsub b a) (vsub c a) <> vzero ->
  eps <= dot (vsub b a) (vsub b a) -> eps <= dot (vsub c b) (vsub c b) -> eps <= dot (vsub a c) (vsub a c) ->
  (let nrm := Support.norm_vector (cross (vsub b a) (vsub c a)) in dot nrm ld = 0 \/ eps < Rabs (dot nrm ld)) ->
  line_to_triangle lp ld a b c eps = (d, c1, c2) ->
  optimal (line_set lp ld) (triangle_set a b c) d.
Proof.
  intros Hu He Hnd L1 L2 L3 Hband. unfold line_to_triangle.
  destruct (line_to_triangle_full lp ld a b c eps) as [[[[d' c1'] c2'] t] arm] eqn:E.
  intros H. apply pair3_eq in H. destruct H as (<- & _ & _).
  eapply line_to_triangle_full_optimal; eauto.
Qed.

(** ** 3. line_segment_to_triangle: clamping the line result *)
(** the line parameter returned by the edge loop is 0 unless the distance dropped below max_float *)
Definition t4 (r : R * V3R * V3R * R) : R := snd r.

Lemma edges_fold_param (lp ld : V3R) (eps : R) (l : list (V3R * V3R)) :
  let res := fold_left (fun (best : R * V3R * V3R * R) (se : V3R * V3R) =>
        let '(bd, _, _, _) := best in
        let '(d, cpl, cps, t, _, _) := line_to_line_segment_full lp ld (fst se) (snd se) eps in
        if ltb (Ops:=ROps) d bd then (d, cpl, cps, t) else best) l (max_float, vzero, vzero, 0) in
  d4 res < max_float \/ t4 res = 0.
Proof.
  cbv zeta.
  match goal with |- d4 ?X < _ \/ _ => assert (H : d4 X < max_float \/ (d4 X = max_float /\ t4 X = 0)); [|tauto] end.
  apply (fold_left_inv (fun r => d4 r < max_float \/ (d4 r = max_float /\ t4 r = 0))).
  - right. split; reflexivity.
  - intros best se _ Hb. destruct best as [[[bd b1] b2] bt].
    destruct (line_to_line_segment_full lp ld (fst se) (snd se) eps) as [[[[[d cpl] cps] t] s] arm].
    unfold d4, t4 in *. cbn [fst snd] in *. ops_R. rb_case; [|exact Hb]. cbn [fst snd]. left. lra.
Qed.

Lemma line_to_triangle_full_param0 (lp ld a b c : V3R) (eps : R) d c1 c2 t arm :
  line_to_triangle_full lp ld a b c eps = (d, c1, c2, t, arm) -> d < max_float \/ t = 0.
Proof.
  pose proof (edges_fold_param lp ld eps (tri_edges a b c)) as Hfold. cbv zeta in Hfold.
  unfold line_to_triangle_full.
  set (fr := fold_left _ (tri_edges a b c) _) in *.
  assert (Her : (let '(d0, cpl, cpt, t0) := fr in (d0, cpl, cpt, t0, 1%nat)) = (d, c1, c2, t, arm) ->
                d < max_float \/ t = 0).
  { destruct fr as [[[d0 cpl] cpt] t0]. intros H. apply pair5_eq in H. destruct H as (<- & _ & _ & <- & _).
    exact Hfold. }
  clearbody fr. clear Hfold. cbv zeta. ops_R.
  rb_case; [|exact Her].
  destruct (plane_basis_from_normal ld) as [u v].
  match goal with |- context [if ?X then _ else _] => destruct X end; [|exact Her].
  intros H. apply pair5_eq in H. destruct H as (<- & _). left. pose proof max_float_gt_1. lra.
Qed.

(** generic clamping arguments for a convex set [C] *)
Lemma seg_sub_line (s e sd : V3R) (len : R) (x : V3R) :
  vsub e s = vscale len sd -> segment_set s e x -> exists u, 0 <= u <= 1 /\ x = vadd s (vscale (u * len) sd).
Proof. intros Hd (u & Hu & ->). exists u. split; [exact Hu|]. rewrite Hd. veq. Qed.

Lemma seg_arm_mid (C : set3) (s e sd : V3R) (len d : R) :
  vsub e s = vscale len sd -> optimal (line_set s sd) C d -> optimal (segment_set s e) C d.
Proof.
  intros Hd Hopt x y Hx Hy. destruct (seg_sub_line s e sd len x Hd Hx) as (u & _ & ->).
  apply Hopt; [apply line_mem|exact Hy].
Qed.

Lemma seg_arm_start (C : set3) (s e sd : V3R) (len t dl d' : R) (cps cpt : V3R) :
  convex C -> vsub e s = vscale len sd -> 0 <= len ->
  feasible (line_set s sd) C dl cps cpt -> cps = vadd s (vscale t sd) -> optimal (line_set s sd) C dl ->
  t < 0 -> closest_on C s d' -> optimal (segment_set s e) C d'.
Proof.
  intros Hcv Hd Hlen (_ & Hc & _ & Hdl) Hcps Hopt Ht Hcl x y Hx Hy.
  destruct (seg_sub_line s e sd len x Hd Hx) as (u & Hu & ->).
  destruct (segment_end_optimal_convex C s sd cpt t Hcv Hc) with (t := u * len) (y := y) as (y' & Hy' & Hle); auto.
  - intros u0 y0 Hy0. rewrite <- Hcps, <- Hdl. apply Hopt; [apply line_mem|exact Hy0].
  - apply Rmult_le_pos; lra.
  - pose proof (Hcl y' Hy'). lra.
Qed.

Lemma seg_arm_end (C : set3) (s e sd : V3R) (len t dl d' : R) (cps cpt : V3R) :
  convex C -> vsub e s = vscale len sd -> 0 <= len ->
  feasible (line_set s sd) C dl cps cpt -> cps = vadd s (vscale t sd) -> optimal (line_set s sd) C dl ->
  len < t -> closest_on C e d' -> optimal (segment_set s e) C d'.
Proof.
  intros Hcv Hd Hlen (_ & Hc & _ & Hdl) Hcps Hopt Ht Hcl x y Hx Hy.
  destruct (seg_sub_line s e sd len x Hd Hx) as (u & Hu & ->).
  destruct (segment_end_optimal_convex_hi C s sd cpt t len Hcv Hc) with (t := u * len) (y := y) as (y' & Hy' & Hle); auto.
  - intros u0 y0 Hy0. rewrite <- Hcps, <- Hdl. apply Hopt; [apply line_mem|exact Hy0].
  - nra.
  - replace (vadd s (vscale len sd)) with e in Hle by (rewrite <- Hd; veq).
    pose proof (Hcl y' Hy'). lra.
Qed.

(** line_segment_to_triangle.  The band exclusion is on the model's quantity for the direction that
    the model itself computes, [fst (convert_segment_to_line s e)] = (e - s) / |e - s|.
    No finiteness hypothesis: a line result that stayed at max_float has parameter 0 (arm 0). *)
Theorem line_segment_to_triangle_optimal (s e a b c : V3R) (eps : R) d c1 c2 :
  s <> e -> 0 < eps < 1 ->
  cross (vsub b a) (vsub c a) <> vzero ->
  eps <= dot (vsub b a) (vsub b a) -> eps <= dot (vsub c b) (vsub c b) -> eps <= dot (vsub a c) (vsub a c) ->
  (let sd := fst (convert_segment_to_line s e) in
   let nrm := Support.norm_vector (cross (vsub b a) (vsub c a)) in dot nrm sd = 0 \/ eps < Rabs (dot nrm sd)) ->
  line_segment_to_triangle s e a b c eps = (d, c1, c2) ->
  optimal (segment_set s e) (triangle_set a b c) d.
Proof.
  intros Hne He Hnd L1 L2 L3. unfold line_segment_to_triangle, line_segment_to_triangle_full.
  destruct (convert_segment_unit s e Hne) as (sd & len & -> & Hlen & Hsd & Hd). cbn [fst]. intros Hband.
  destruct (line_to_triangle_full s sd a b c eps) as [[[[dl cps] cpt] t] arm] eqn:E.
  pose proof (line_to_triangle_full_optimal _ _ _ _ _ _ _ _ _ _ _ Hsd He Hnd L1 L2 L3 Hband E) as Hopt.
  pose proof (line_to_triangle_full_param0 _ _ _ _ _ _ _ _ _ _ _ E) as Hpar.
  assert (He' : 0 <= eps <= 1) by lra.
  ops_R. rb_case; [|rb_case].
  - destruct (point_to_triangle s a b c) as [d'' cpt'] eqn:Ep. cbn [fst].
    intros H. apply pair3_eq in H. destruct H as (<- & _ & _).
    destruct Hpar as [Hf|Hf]; [|lra].
    destruct (line_to_triangle_full_ok _ _ _ _ _ _ _ _ _ _ _ Hsd He' E Hf) as [Hfe Hc].
    apply (seg_arm_start _ s e sd len t dl d'' cps cpt); auto; [apply triangle_convex|lra|].
    eapply point_to_triangle_optimal; eauto.
  - destruct (point_to_triangle e a b c) as [d'' cpt'] eqn:Ep. cbn [fst].
    intros H. apply pair3_eq in H. destruct H as (<- & _ & _).
    destruct Hpar as [Hf|Hf]; [|lra].
    destruct (line_to_triangle_full_ok _ _ _ _ _ _ _ _ _ _ _ Hsd He' E Hf) as [Hfe Hc].
    apply (seg_arm_end _ s e sd len t dl d'' cps cpt); auto; [apply triangle_convex|lra|].
    eapply point_to_triangle_optimal; eauto.
  - cbn [fst]. intros H. apply pair3_eq in H. destruct H as (<- & _ & _).
    apply (seg_arm_mid _ s e sd len); auto.
Qed.

(** ** 4. line_to_rectangle, line_segment_to_rectangle *)
(** the general form of [segment_end_optimal_convex]: no optimality of the pair at [ts] is assumed *)
Lemma segment_end_convex_max (C : set3) (s sd ystar : V3R) (ts : R) :
  convex C -> C ystar -> ts < 0 ->
  forall t y, 0 <= t -> C y ->
    exists y', C y' /\
      norm (vsub s y') <= Rmax (norm (vsub (vadd s (vscale ts sd)) ystar)) (norm (vsub (vadd s (vscale t sd)) y)).
Proof.
  intros Hcv Hy Hts t y Ht Hyc.
  set (l := t / (t - ts)).
  assert (Hl : 0 <= l <= 1).
  { unfold l. split; [apply Rmult_le_pos; [lra|left; apply Rinv_0_lt_compat; lra]|].
    apply (Rmult_le_reg_r (t - ts)); [lra|]. unfold Rdiv. rewrite Rmult_assoc, Rinv_l; lra. }
  assert (Hz : l * ts + (1 - l) * t = 0) by (unfold l; field; lra).
  exists (vadd (vscale (1 - (1 - l)) ystar) (vscale (1 - l) y)). split.
  - apply Hcv; auto. lra.
  - set (P1 := vsub (vadd s (vscale ts sd)) ystar). set (P2 := vsub (vadd s (vscale t sd)) y).
    assert (E : vsub s (vadd (vscale (1 - (1 - l)) ystar) (vscale (1 - l) y))
                = vadd (vscale l P1) (vscale (1 - l) P2)).
    { unfold P1, P2. clearbody l.
      replace s with (vadd s (vscale (l * ts + (1 - l) * t) sd)) at 1 by (rewrite Hz; veq).
      veq. }
    rewrite E. eapply Rle_trans; [apply norm_triangle|]. rewrite !norm_scale.
    rewrite !Rabs_pos_eq by lra.
    pose proof (Rmax_l (norm P1) (norm P2)). pose proof (Rmax_r (norm P1) (norm P2)).
    set (m := Rmax (norm P1) (norm P2)) in *. clearbody l m. nra.
Qed.

Lemma segment_end_convex_max_hi (C : set3) (s sd ystar : V3R) (ts len : R) :
  convex C -> C ystar -> len < ts ->
  forall t y, t <= len -> C y ->
    exists y', C y' /\
      norm (vsub (vadd s (vscale len sd)) y')
      <= Rmax (norm (vsub (vadd s (vscale ts sd)) ystar)) (norm (vsub (vadd s (vscale t sd)) y)).
Proof.
  intros Hcv Hy Hts t y Ht Hyc.
  destruct (segment_end_convex_max C (vadd s (vscale len sd)) (vneg sd) ystar (len - ts) Hcv Hy) with (t := len - t) (y := y)
    as (y' & Hy' & Hle); auto; try lra.
  exists y'. split; [exact Hy'|].
  replace (vadd (vadd s (vscale len sd)) (vscale (len - t) (vneg sd))) with (vadd s (vscale t sd)) in Hle by veq.
  replace (vadd (vadd s (vscale len sd)) (vscale (len - ts) (vneg sd))) with (vadd s (vscale ts sd)) in Hle by veq.
  exact Hle.
Qed.

(** four constraints *)
Lemma ray_exit4_aux (g0 g1 g2 g3 r0 r1 r2 r3 : R) :
  0 <= g0 -> 0 <= g1 -> 0 <= g2 -> 0 <= g3 -> r0 < 0 ->
  exists tau, 0 <= tau /\ 0 <= g0 + tau * r0 /\ 0 <= g1 + tau * r1 /\ 0 <= g2 + tau * r2 /\ 0 <= g3 + tau * r3 /\
     (g0 + tau * r0 = 0 \/ g1 + tau * r1 = 0 \/ g2 + tau * r2 = 0 \/ g3 + tau * r3 = 0).
Proof.
  intros H0 H1 H2 H3 Hr.
  set (t0 := g0 / - r0).
  assert (Ht0 : 0 <= t0) by (apply Rmult_le_pos; [lra|left; apply Rinv_0_lt_compat; lra]).
  assert (E0 : g0 + t0 * r0 = 0) by (unfold t0; field; lra).
  clearbody t0.
  destruct (exit_refine g1 r1 t0) as (t1 & Ht1 & P1 & Z1); auto.
  destruct (exit_refine g2 r2 t1) as (t2 & Ht2 & P2 & Z2); auto; [lra|].
  destruct (exit_refine g3 r3 t2) as (t3 & Ht3 & P3 & Z3); auto; [lra|].
  exists t3. split; [lra|].
  split; [apply (seg_nonneg g0 r0 t0); lra|]. split; [apply (seg_nonneg g1 r1 t1); lra|].
  split; [apply (seg_nonneg g2 r2 t2); lra|]. split; [exact P3|].
  destruct Z3 as [->|Z3]; [|auto]. destruct Z2 as [->|Z2]; [|auto]. destruct Z1 as [->|Z1]; auto.
Qed.

Lemma ray_exit4 (g0 g1 g2 g3 r0 r1 r2 r3 : R) :
  0 <= g0 -> 0 <= g1 -> 0 <= g2 -> 0 <= g3 -> (r0 < 0 \/ r1 < 0 \/ r2 < 0 \/ r3 < 0) ->
  exists tau, 0 <= tau /\ 0 <= g0 + tau * r0 /\ 0 <= g1 + tau * r1 /\ 0 <= g2 + tau * r2 /\ 0 <= g3 + tau * r3 /\
     (g0 + tau * r0 = 0 \/ g1 + tau * r1 = 0 \/ g2 + tau * r2 = 0 \/ g3 + tau * r3 = 0).
Proof.
  intros H0 H1 H2 H3 [H|[H|[H|H]]].
  - apply ray_exit4_aux; auto.
  - destruct (ray_exit4_aux g1 g0 g2 g3 r1 r0 r2 r3) as (t & ? & ? & ? & ? & ? & Z); auto. exists t. intuition.
  - destruct (ray_exit4_aux g2 g0 g1 g3 r2 r0 r1 r3) as (t & ? & ? & ? & ? & ? & Z); auto. exists t. intuition.
  - destruct (ray_exit4_aux g3 g0 g1 g2 r3 r0 r1 r2) as (t & ? & ? & ? & ? & ? & Z); auto. exists t. intuition.
Qed.

Definition rect_at (c a0 a1 : V3R) (k0 k1 : R) : V3R := vadd c (vadd (vscale k0 a0) (vscale k1 a1)).

(** a point of the rectangle on one of the four boundary lines lies on one of the four edges that the
    code enumerates (positive half lengths) *)
Lemma rect_bary_edge (c a0 a1 : V3R) (h0 h1 k0 k1 : R) :
  0 < h0 -> 0 < h1 ->
  0 <= h0 - k0 -> 0 <= h0 + k0 -> 0 <= h1 - k1 -> 0 <= h1 + k1 ->
  (h0 - k0 = 0 \/ h0 + k0 = 0 \/ h1 - k1 = 0 \/ h1 + k1 = 0) ->
  exists l se, In l (rectangle_edges c (vscale h0 a0) (vscale h1 a1)) /\ In se l /\
               segment_set (fst se) (snd se) (rect_at c a0 a1 k0 k1).
Proof.
  intros Hh0 Hh1 B0 B1 B2 B3 Z. unfold rectangle_edges, rectangle_segment. cbn [map].
  destruct Z as [Z|[Z|[Z|Z]]].
  - eexists; eexists. split; [left; reflexivity|]. split; [right; left; reflexivity|]. cbn [fst snd].
    exists ((k1 + h1) / (2 * h1)). split.
    + split; [apply Rmult_le_pos; [lra|left; apply Rinv_0_lt_compat; lra]|].
      apply (Rmult_le_reg_r (2 * h1)); [lra|]. unfold Rdiv. rewrite Rmult_assoc, Rinv_l; lra.
    + replace k0 with h0 by lra. unfold rect_at. veq; lra.
  - eexists; eexists. split; [left; reflexivity|]. split; [left; reflexivity|]. cbn [fst snd].
    exists ((k1 + h1) / (2 * h1)). split.
    + split; [apply Rmult_le_pos; [lra|left; apply Rinv_0_lt_compat; lra]|].
      apply (Rmult_le_reg_r (2 * h1)); [lra|]. unfold Rdiv. rewrite Rmult_assoc, Rinv_l; lra.
    + replace k0 with (- h0) by lra. unfold rect_at. veq; lra.
  - eexists; eexists. split; [right; left; reflexivity|]. split; [right; left; reflexivity|]. cbn [fst snd].
    exists ((k0 + h0) / (2 * h0)). split.
    + split; [apply Rmult_le_pos; [lra|left; apply Rinv_0_lt_compat; lra]|].
      apply (Rmult_le_reg_r (2 * h0)); [lra|]. unfold Rdiv. rewrite Rmult_assoc, Rinv_l; lra.
    + replace k1 with h1 by lra. unfold rect_at. veq; lra.
  - eexists; eexists. split; [right; left; reflexivity|]. split; [left; reflexivity|]. cbn [fst snd].
    exists ((k0 + h0) / (2 * h0)). split.
    + split; [apply Rmult_le_pos; [lra|left; apply Rinv_0_lt_compat; lra]|].
      apply (Rmult_le_reg_r (2 * h0)); [lra|]. unfold Rdiv. rewrite Rmult_assoc, Rinv_l; lra.
    + replace k1 with (- h1) by lra. unfold rect_at. veq; lra.
Qed.

Definition rect_edge_reduction (lp ld c a0 a1 : V3R) (h0 h1 : R) : Prop :=
  forall x k0 k1, line_set lp ld x -> Rabs k0 <= h0 -> Rabs k1 <= h1 ->
    exists x' z l se, line_set lp ld x' /\ In l (rectangle_edges c (vscale h0 a0) (vscale h1 a1)) /\ In se l /\
                      segment_set (fst se) (snd se) z /\
                      norm (vsub x' z) <= norm (vsub x (rect_at c a0 a1 k0 k1)).

Lemma rect_pierce_reduce (lp ld c a0 a1 : V3R) (h0 h1 s0 s1 t : R) :
  0 < h0 -> 0 < h1 ->
  vadd lp (vscale t ld) = rect_at c a0 a1 s0 s1 ->
  (h0 < Rabs s0 \/ h1 < Rabs s1) ->
  rect_edge_reduction lp ld c a0 a1 h0 h1.
Proof.
  intros Hh0 Hh1 HO Hneg x k0 k1 (tx & ->) K0 K1.
  apply Rabs_le_between' in K0, K1.
  assert (Hrate : (h0 - s0) - (h0 - k0) < 0 \/ (h0 + s0) - (h0 + k0) < 0 \/
                  (h1 - s1) - (h1 - k1) < 0 \/ (h1 + s1) - (h1 + k1) < 0).
  { destruct Hneg as [H|H]; revert H; unfold Rabs; destruct (Rcase_abs _); intros H; lra. }
  destruct (ray_exit4 (h0 - k0) (h0 + k0) (h1 - k1) (h1 + k1)
                      ((h0 - s0) - (h0 - k0)) ((h0 + s0) - (h0 + k0)) ((h1 - s1) - (h1 - k1)) ((h1 + s1) - (h1 + k1)))
    as (tau & Ht & P0 & P1 & P2 & P3 & Z); try lra.
  assert (Ht1 : tau <= 1).
  { destruct Hneg as [H|H]; revert H; unfold Rabs; destruct (Rcase_abs _); intros H; nra. }
  set (k0' := k0 + tau * (s0 - k0)) in *. set (k1' := k1 + tau * (s1 - k1)) in *.
  replace (h0 - k0 + tau * (h0 - s0 - (h0 - k0))) with (h0 - k0') in * by (unfold k0'; ring).
  replace (h0 + k0 + tau * (h0 + s0 - (h0 + k0))) with (h0 + k0') in * by (unfold k0'; ring).
  replace (h1 - k1 + tau * (h1 - s1 - (h1 - k1))) with (h1 - k1') in * by (unfold k1'; ring).
  replace (h1 + k1 + tau * (h1 + s1 - (h1 + k1))) with (h1 + k1') in * by (unfold k1'; ring).
  destruct (rect_bary_edge c a0 a1 h0 h1 k0' k1') as (l & se & Hl & Hin & Hseg); auto.
  exists (vadd lp (vscale ((1 - tau) * tx + tau * t) ld)), (rect_at c a0 a1 k0' k1'), l, se.
  split; [apply line_mem|]. split; [exact Hl|]. split; [exact Hin|]. split; [exact Hseg|].
  replace (vsub (vadd lp (vscale ((1 - tau) * tx + tau * t) ld)) (rect_at c a0 a1 k0' k1'))
     with (vscale (1 - tau) (vsub (vadd lp (vscale tx ld)) (rect_at c a0 a1 k0 k1))).
  - rewrite norm_scale, Rabs_pos_eq by lra.
    pose proof (norm_nonneg (vsub (vadd lp (vscale tx ld)) (rect_at c a0 a1 k0 k1))). nra.
  - replace (rect_at c a0 a1 k0' k1')
      with (vadd (vscale (1 - tau) (rect_at c a0 a1 k0 k1)) (vscale tau (rect_at c a0 a1 s0 s1)))
      by (unfold rect_at, k0', k1'; veq).
    rewrite <- HO. veq.
Qed.

Lemma rect_parallel_reduce (lp ld c a0 a1 : V3R) (h0 h1 : R) :
  0 < h0 -> 0 < h1 ->
  ld <> vzero -> cross a0 a1 <> vzero -> dot (cross a0 a1) ld = 0 ->
  rect_edge_reduction lp ld c a0 a1 h0 h1.
Proof.
  intros Hh0 Hh1 Hld Hnd Hpar x k0 k1 (tx & ->) K0 K1.
  apply Rabs_le_between' in K0, K1.
  pose proof (cross_nonzero_pos _ Hnd) as Hnn.
  pose proof (span_expand a0 a1 ld) as Hex. rewrite Hpar in Hex.
  set (nn := dot (cross a0 a1) (cross a0 a1)) in *.
  set (al := dot (cross ld a1) (cross a0 a1) / nn).
  set (be := dot (cross a0 ld) (cross a0 a1) / nn).
  assert (Hexp : ld = vadd (vscale al a0) (vscale be a1)).
  { replace ld with (vscale (/ nn) (vscale nn ld)) at 1 by (clearbody nn; veq; lra).
    rewrite Hex. unfold al, be. clearbody nn. veq; lra. }
  assert (Hrate : - al < 0 \/ al < 0 \/ - be < 0 \/ be < 0).
  { destruct (Rlt_dec (- al) 0); [auto|]. destruct (Rlt_dec al 0); [auto|].
    destruct (Rlt_dec (- be) 0); [auto|]. destruct (Rlt_dec be 0); [auto|].
    exfalso. apply Hld. assert (al = 0) by lra. assert (be = 0) by lra. rewrite Hexp. clearbody al be. subst. veq. }
  clearbody al be.
  destruct (ray_exit4 (h0 - k0) (h0 + k0) (h1 - k1) (h1 + k1) (- al) al (- be) be)
    as (tau & Ht & P0 & P1 & P2 & P3 & Z); try lra.
  set (k0' := k0 + tau * al) in *. set (k1' := k1 + tau * be) in *.
  replace (h0 - k0 + tau * - al) with (h0 - k0') in * by (unfold k0'; ring).
  replace (h0 + k0 + tau * al) with (h0 + k0') in * by (unfold k0'; ring).
  replace (h1 - k1 + tau * - be) with (h1 - k1') in * by (unfold k1'; ring).
  replace (h1 + k1 + tau * be) with (h1 + k1') in * by (unfold k1'; ring).
  destruct (rect_bary_edge c a0 a1 h0 h1 k0' k1') as (l & se & Hl & Hin & Hseg); auto.
  exists (vadd lp (vscale (tx + tau) ld)), (rect_at c a0 a1 k0' k1'), l, se.
  split; [apply line_mem|]. split; [exact Hl|]. split; [exact Hin|]. split; [exact Hseg|].
  apply Req_le. f_equal.
  replace (rect_at c a0 a1 k0' k1') with (vadd (rect_at c a0 a1 k0 k1) (vscale tau ld)).
  - unfold rect_at. veq.
  - rewrite Hexp at 1. unfold rect_at, k0', k1'. veq.
Qed.

(** *** the edge loops of _line_to_rectangle: `if best_dist < epsilon: break` leaves the inner loop, so
        the result is a lower bound of all four edge candidates only if it is not below [eps] *)
Lemma rect_inner_le (lp ld : V3R) (eps : R) (segs : list (V3R * V3R)) (best : R * V3R * V3R * R) :
  d4 (rect_inner lp ld eps segs best) <= d4 best /\
  (eps <= d4 (rect_inner lp ld eps segs best) ->
   forall se, In se segs -> d4 (rect_inner lp ld eps segs best) <= edge_d lp ld eps se).
Proof.
  revert best. induction segs as [|se rest IH]; intros best.
  - cbn [rect_inner]. split; [lra|]. intros _ se [].
  - change (rect_inner lp ld eps (se :: rest) best) with
      (let '(bd, _, _, _) := best in
       let '(d, cpl, cps, t, _, _) := line_to_line_segment_full lp ld (fst se) (snd se) eps in
       let best' := if ltb (Ops:=ROps) d bd then (d, cpl, cps, t) else best in
       let '(bd', _, _, _) := best' in
       if ltb (Ops:=ROps) bd' eps then best' else rect_inner lp ld eps rest best').
    destruct best as [[[bd b1] b2] bt].
    destruct (line_to_line_segment_full lp ld (fst se) (snd se) eps) as [[[[[d cpl] cps] t] s] arm] eqn:E.
    cbv zeta.
    assert (Hs : forall best' : R * V3R * V3R * R,
               best' = (if ltb (Ops:=ROps) d bd then (d, cpl, cps, t) else (bd, b1, b2, bt)) ->
               d4 best' <= bd /\ d4 best' <= d).
    { intros best' ->. ops_R. rb_case; unfold d4; cbn [fst]; lra. }
    specialize (Hs _ eq_refl).
    destruct (if ltb (Ops:=ROps) d bd then (d, cpl, cps, t) else (bd, b1, b2, bt)) as [[[bd' b1'] b2'] bt'] eqn:Eb.
    unfold d4 in Hs. cbn [fst] in Hs. ops_R. rb_case.
    + unfold d4. cbn [fst]. split; [lra|]. intros Hc. lra.
    + destruct (IH (bd', b1', b2', bt')) as [IH1 IH2]. unfold d4 in *. cbn [fst] in *.
      split; [lra|]. intros Hc se' [<-|Hin].
      * unfold edge_d, line_to_line_segment. rewrite E. unfold rd. cbn [fst]. lra.
      * apply IH2; assumption.
Qed.

Lemma rect_outer_le (lp ld : V3R) (eps : R) (groups : list (list (V3R * V3R))) (best : R * V3R * V3R * R) :
  let res := fold_left (fun b segs => rect_inner lp ld eps segs b) groups best in
  d4 res <= d4 best /\
  (eps <= d4 res -> forall l se, In l groups -> In se l -> d4 res <= edge_d lp ld eps se).
Proof.
  cbv zeta. revert best. induction groups as [|g rest IH]; intros best; cbn [fold_left].
  - split; [lra|]. intros _ l se [].
  - destruct (IH (rect_inner lp ld eps g best)) as [IH1 IH2].
    destruct (rect_inner_le lp ld eps g best) as [G1 G2].
    split; [lra|]. intros Hc l se [<-|Hl] Hin.
    + pose proof (G2 ltac:(lra) se Hin). lra.
    + eapply IH2; eauto.
Qed.

Lemma rect_inner_param (lp ld : V3R) (eps : R) (segs : list (V3R * V3R)) (best : R * V3R * V3R * R) :
  (d4 best < max_float \/ (d4 best = max_float /\ t4 best = 0)) ->
  d4 (rect_inner lp ld eps segs best) < max_float \/
  (d4 (rect_inner lp ld eps segs best) = max_float /\ t4 (rect_inner lp ld eps segs best) = 0).
Proof.
  revert best. induction segs as [|se rest IH]; intros best Hb; [exact Hb|].
  change (rect_inner lp ld eps (se :: rest) best) with
      (let '(bd, _, _, _) := best in
       let '(d, cpl, cps, t, _, _) := line_to_line_segment_full lp ld (fst se) (snd se) eps in
       let best' := if ltb (Ops:=ROps) d bd then (d, cpl, cps, t) else best in
       let '(bd', _, _, _) := best' in
       if ltb (Ops:=ROps) bd' eps then best' else rect_inner lp ld eps rest best').
  destruct best as [[[bd b1] b2] bt].
  destruct (line_to_line_segment_full lp ld (fst se) (snd se) eps) as [[[[[d cpl] cps] t] s] arm] eqn:E.
  cbv zeta.
  assert (Hs : forall best' : R * V3R * V3R * R,
             best' = (if ltb (Ops:=ROps) d bd then (d, cpl, cps, t) else (bd, b1, b2, bt)) ->
             d4 best' < max_float \/ (d4 best' = max_float /\ t4 best' = 0)).
  { intros best' ->. unfold d4, t4 in *. cbn [fst snd] in *. ops_R. rb_case; [|exact Hb]. cbn [fst snd]. left. lra. }
  specialize (Hs _ eq_refl).
  destruct (if ltb (Ops:=ROps) d bd then (d, cpl, cps, t) else (bd, b1, b2, bt)) as [[[bd' b1'] b2'] bt'].
  destruct (ltb (Ops:=ROps) bd' eps); [exact Hs|]. apply IH. exact Hs.
Qed.

(** why the pierce test of _line_intersects_rectangle fails *)
Lemma line_intersects_rectangle_none (lp ld c a0 a1 : V3R) (h0 h1 eps : R) :
  dot ld ld = 1 -> 0 <= eps ->
  line_intersects_rectangle lp ld c a0 a1 h0 h1 eps = None ->
  Rabs (dot (cross a0 a1) ld) <= eps \/
  exists s0 s1 t, vadd lp (vscale t ld) = rect_at c a0 a1 s0 s1 /\ (h0 < Rabs s0 \/ h1 < Rabs s1).
Proof.
  intros Hu He0. unfold line_intersects_rectangle. cbv zeta. ops_R.
  rb_case; [|intros _; left; exact E].
  destruct (plane_basis_from_normal ld) as [u v] eqn:Hb.
  pose proof (pierce_det ld a0 a1 u v Hu Hb) as Hdet.
  assert (Hnz : dot a0 u * dot a1 v - dot a1 u * dot a0 v <> 0).
  { rewrite Hdet. intros Z. rewrite Z, Rabs_R0 in E. lra. }
  pose proof (pierce_point lp ld c a0 a1 u v Hu Hb Hnz) as Hpt. cbv zeta in Hpt.
  set (s0 := (dot a1 v * dot u (vsub lp c) - dot a1 u * dot v (vsub lp c)) / _) in *.
  set (s1 := (dot a0 u * dot v (vsub lp c) - dot a0 v * dot u (vsub lp c)) / _) in *.
  destruct (Rleb (Rabs s0) h0 && Rleb (Rabs s1) h1) eqn:Et; [discriminate|].
  intros _. right. eexists s0, s1, _. split; [exact Hpt|].
  apply andb_false_iff in Et. destruct Et as [Et|Et]; rb_hyp Et; auto.
Qed.

Lemma rect_edge_optimal (lp ld c a0 a1 : V3R) (l0 l1 eps : R) (l : list (V3R * V3R)) (se : V3R * V3R) :
  dot ld ld = 1 -> 0 < eps < 1 ->
  dot a0 a0 = 1 -> dot a1 a1 = 1 ->
  eps <= l0 * l0 -> eps <= l1 * l1 ->
  In l (rectangle_edges c (vscale (/ 2 * l0) a0) (vscale (/ 2 * l1) a1)) -> In se l ->
  optimal (line_set lp ld) (segment_set (fst se) (snd se)) (edge_d lp ld eps se).
Proof.
  intros Hu [He0 He1] U0 U1 L0 L1 Hl Hin. unfold edge_d.
  destruct (line_to_line_segment lp ld (fst se) (snd se) eps) as [[d c1] c2] eqn:E.
  unfold rd. cbn [fst].
  apply (line_to_line_segment_optimal lp ld (fst se) (snd se) eps d c1 c2); auto.
  revert Hl Hin. unfold rectangle_edges, rectangle_segment. cbn [map].
  intros [<- | [<- | []]] [<- | [<- | []]]; cbn [fst snd].
  - replace (vsub _ _) with (vscale l1 a1) by veq. rewrite dot_scale_l, dot_scale_r, U1. lra.
  - replace (vsub _ _) with (vscale l1 a1) by veq. rewrite dot_scale_l, dot_scale_r, U1. lra.
  - replace (vsub _ _) with (vscale l0 a0) by veq. rewrite dot_scale_l, dot_scale_r, U0. lra.
  - replace (vsub _ _) with (vscale l0 a0) by veq. rewrite dot_scale_l, dot_scale_r, U0. lra.
Qed.

Lemma rect_reduce_optimal (lp ld c a0 a1 : V3R) (l0 l1 eps d : R) :
  (forall l se, In l (rectangle_edges c (vscale (/ 2 * l0) a0) (vscale (/ 2 * l1) a1)) -> In se l ->
     d <= edge_d lp ld eps se) ->
  (forall l se, In l (rectangle_edges c (vscale (/ 2 * l0) a0) (vscale (/ 2 * l1) a1)) -> In se l ->
     optimal (line_set lp ld) (segment_set (fst se) (snd se)) (edge_d lp ld eps se)) ->
  rect_edge_reduction lp ld c a0 a1 (/ 2 * l0) (/ 2 * l1) ->
  optimal (line_set lp ld) (rectangle_set c a0 a1 l0 l1) d.
Proof.
  intros Hle Hopt Hred x y Hx (k0 & k1 & K0 & K1 & ->).
  destruct (Hred x k0 k1 Hx) as (x' & z & l & se & Hx' & Hl & Hin & Hz & Hn); try lra.
  pose proof (Hle l se Hl Hin). pose proof (Hopt l se Hl Hin x' z Hx' Hz). unfold rect_at in Hn. lra.
Qed.

(** _line_to_rectangle.  Hypotheses beyond the docstring (unit direction, orthonormal axes):
    - [0 < eps < 1], side lengths at least [sqrt eps] (domain of [line_to_line_segment_optimal]);
    - band exclusion of the parallel test: the line is exactly parallel to the rectangle's plane or
      clearly not;
    - band exclusion of the loop's `if best_dist < epsilon: break`: the returned distance is 0 or at
      least [eps] (a result in (0, eps) may have skipped an edge that the line crosses). *)
Theorem line_to_rectangle_full_optimal (lp ld c a0 a1 : V3R) (l0 l1 eps : R) d c1 c2 t arm :
  dot ld ld = 1 -> 0 < eps < 1 ->
  dot a0 a0 = 1 -> dot a1 a1 = 1 -> dot a0 a1 = 0 ->
  0 <= l0 -> 0 <= l1 -> eps <= l0 * l0 -> eps <= l1 * l1 ->
  (dot (cross a0 a1) ld = 0 \/ eps < Rabs (dot (cross a0 a1) ld)) ->
  line_to_rectangle_full lp ld c a0 a1 l0 l1 eps = (d, c1, c2, t, arm) ->
  d = 0 \/ eps <= d ->
  optimal (line_set lp ld) (rectangle_set c a0 a1 l0 l1) d.
Proof.
  intros Hu He U0 U1 U01 H0 H1 L0 L1 Hband. unfold line_to_rectangle_full. rewrite half_eq, half_R.
  cbv zeta. ops_R.
  destruct (line_intersects_rectangle lp ld c a0 a1 (/ 2 * l0) (/ 2 * l1) eps) as [[[[d0 cpl] cpr] t0]|] eqn:EI.
  - intros H _. apply pair5_eq in H. destruct H as (<- & _).
    apply line_intersects_rectangle_ok in EI; [|exact Hu|lra]. destruct EI as (-> & _).
    intros x y _ _. apply norm_nonneg.
  - assert (Hh0 : 0 < / 2 * l0) by nra. assert (Hh1 : 0 < / 2 * l1) by nra.
    assert (Hnd : cross a0 a1 <> vzero).
    { apply unit_nonzero. rewrite dot_cross_cross, U0, U1, U01. ring. }
    assert (Hred : rect_edge_reduction lp ld c a0 a1 (/ 2 * l0) (/ 2 * l1)).
    { apply line_intersects_rectangle_none in EI; [|exact Hu|lra].
      destruct EI as [Hp|(s0 & s1 & tt & HO & Hneg)].
      - apply rect_parallel_reduce; auto; [apply unit_nonzero; exact Hu|].
        destruct Hband as [Hb|Hb]; [exact Hb|lra].
      - eapply rect_pierce_reduce; eauto. }
    match goal with |- context [fold_left ?f ?l ?i] => set (fr := fold_left f l i) end.
    pose proof (rect_outer_le lp ld eps (rectangle_edges c (vscale (/ 2 * l0) a0) (vscale (/ 2 * l1) a1))
                              (max_float, vzero, vzero, 0)) as Hfr.
    cbv zeta in Hfr.
    change (fold_left (fun b segs => rect_inner lp ld eps segs b)
                      (rectangle_edges c (vscale (/ 2 * l0) a0) (vscale (/ 2 * l1) a1)) (max_float, vzero, vzero, 0))
      with fr in Hfr.
    clearbody fr. destruct fr as [[[d0 cpl] cpt] t0]. destruct Hfr as [_ Hfr]. unfold d4 in Hfr. cbn [fst] in Hfr.
    intros H Hd. apply pair5_eq in H. destruct H as (<- & _).
    destruct Hd as [->|Hd]; [intros x y _ _; apply norm_nonneg|].
    apply (rect_reduce_optimal lp ld c a0 a1 l0 l1 eps); [apply Hfr; exact Hd| |exact Hred].
    intros l se Hl Hin. apply (rect_edge_optimal lp ld c a0 a1 l0 l1 eps l se); auto.
Qed.

Theorem line_to_rectangle_optimal (lp ld c a0 a1 : V3R) (l0 l1 eps : R) d c1 c2 :
  dot ld ld = 1 -> 0 < eps < 1 ->
  dot a0 a0 = 1 -> dot a1 a1 = 1 -> dot a0 a1 = 0 ->
  0 <= l0 -> 0 <= l1 -> eps <= l0 * l0 -> eps <= l1 * l1 ->
  (dot (cross a0 a1) ld = 0 \/ eps < Rabs (dot (cross a0 a1) ld)) ->
  line_to_rectangle lp ld c a0 a1 l0 l1 eps = (d, c1, c2) ->
  d = 0 \/ eps <= d ->
  optimal (line_set lp ld) (rectangle_set c a0 a1 l0 l1) d.
Proof.
  intros Hu He U0 U1 U01 H0 H1 L0 L1 Hband. unfold line_to_rectangle.
  destruct (line_to_rectangle_full lp ld c a0 a1 l0 l1 eps) as [[[[d' c1'] c2'] t] arm] eqn:E.
  intros H. apply pair3_eq in H. destruct H as (<- & _ & _).
  eapply line_to_rectangle_full_optimal; eauto.
Qed.

Lemma line_to_rectangle_full_param0 (lp ld c a0 a1 : V3R) (l0 l1 eps : R) d c1 c2 t arm :
  line_to_rectangle_full lp ld c a0 a1 l0 l1 eps = (d, c1, c2, t, arm) -> d < max_float \/ t = 0.
Proof.
  unfold line_to_rectangle_full. cbv zeta.
  destruct (line_intersects_rectangle lp ld c a0 a1 _ _ eps) as [[[[d0 cpl] cpr] t0]|] eqn:EI.
  - unfold line_intersects_rectangle in EI. cbv zeta in EI.
    destruct (ltb _ _) in EI; [|discriminate]. destruct (plane_basis_from_normal ld) as [u v].
    match type of EI with (if ?X then _ else _) = _ => destruct X end; [|discriminate].
    injection EI as <- _ _ _. intros H. apply pair5_eq in H. destruct H as (<- & _).
    left. pose proof max_float_gt_1. ops_R. lra.
  - match goal with |- context [fold_left ?f ?l ?i] => set (fr := fold_left f l i) end.
    assert (Hfr : d4 fr < max_float \/ (d4 fr = max_float /\ t4 fr = 0)).
    { unfold fr. apply (fold_left_inv (fun r => d4 r < max_float \/ (d4 r = max_float /\ t4 r = 0))).
      - right. split; reflexivity.
      - intros best segs _ Hb.
        change (d4 (rect_inner lp ld eps segs best) < max_float \/
                (d4 (rect_inner lp ld eps segs best) = max_float /\ t4 (rect_inner lp ld eps segs best) = 0)).
        apply rect_inner_param. exact Hb. }
    clearbody fr. destruct fr as [[[d0 cpl] cpt] t0]. unfold d4, t4 in Hfr. cbn [fst snd] in Hfr.
    intros H. apply pair5_eq in H. destruct H as (<- & _ & _ & <- & _). tauto.
Qed.

(** clamping when the line result may be inside the band: it is enough that the line result is
    optimal OR below the end point's distance *)
Lemma seg_arm_start_max (C : set3) (s e sd : V3R) (len t dl d' : R) (cps cpt : V3R) :
  convex C -> vsub e s = vscale len sd -> 0 <= len ->
  feasible (line_set s sd) C dl cps cpt -> cps = vadd s (vscale t sd) ->
  (optimal (line_set s sd) C dl \/ dl < d') ->
  t < 0 -> closest_on C s d' -> optimal (segment_set s e) C d'.
Proof.
  intros Hcv Hd Hlen (_ & Hc & _ & Hdl) Hcps Hopt Ht Hcl x y Hx Hy.
  destruct (seg_sub_line s e sd len x Hd Hx) as (u & Hu & ->).
  destruct (segment_end_convex_max C s sd cpt t Hcv Hc Ht (u * len) y) as (y' & Hy' & Hle); auto.
  { apply Rmult_le_pos; lra. }
  rewrite <- Hcps, <- Hdl in Hle. pose proof (Hcl y' Hy') as Hc'.
  destruct Hopt as [Hopt|Hlt].
  - pose proof (Hopt _ y (line_mem s sd (u * len)) Hy). rewrite Rmax_right in Hle; lra.
  - revert Hle. apply Rmax_case; intros; lra.
Qed.

Lemma seg_arm_end_max (C : set3) (s e sd : V3R) (len t dl d' : R) (cps cpt : V3R) :
  convex C -> vsub e s = vscale len sd -> 0 <= len ->
  feasible (line_set s sd) C dl cps cpt -> cps = vadd s (vscale t sd) ->
  (optimal (line_set s sd) C dl \/ dl < d') ->
  len < t -> closest_on C e d' -> optimal (segment_set s e) C d'.
Proof.
  intros Hcv Hd Hlen (_ & Hc & _ & Hdl) Hcps Hopt Ht Hcl x y Hx Hy.
  destruct (seg_sub_line s e sd len x Hd Hx) as (u & Hu & ->).
  destruct (segment_end_convex_max_hi C s sd cpt t len Hcv Hc Ht (u * len) y) as (y' & Hy' & Hle); auto.
  { nra. }
  replace (vadd s (vscale len sd)) with e in Hle by (rewrite <- Hd; veq).
  rewrite <- Hcps, <- Hdl in Hle. pose proof (Hcl y' Hy') as Hc'.
  destruct Hopt as [Hopt|Hlt].
  - pose proof (Hopt _ y (line_mem s sd (u * len)) Hy). rewrite Rmax_right in Hle; lra.
  - revert Hle. apply Rmax_case; intros; lra.
Qed.

(** line_segment_to_rectangle: as for the triangle; the `break` band is excluded on the RETURNED
    distance only (in the end-point arms the line result may be inside the band) *)
Theorem line_segment_to_rectangle_optimal (s e c a0 a1 : V3R) (l0 l1 eps : R) d c1 c2 :
  s <> e -> 0 < eps < 1 ->
  dot a0 a0 = 1 -> dot a1 a1 = 1 -> dot a0 a1 = 0 ->
  0 <= l0 -> 0 <= l1 -> eps <= l0 * l0 -> eps <= l1 * l1 ->
  (let sd := fst (convert_segment_to_line s e) in
   dot (cross a0 a1) sd = 0 \/ eps < Rabs (dot (cross a0 a1) sd)) ->
  line_segment_to_rectangle s e c a0 a1 l0 l1 eps = (d, c1, c2) ->
  d = 0 \/ eps <= d ->
  optimal (segment_set s e) (rectangle_set c a0 a1 l0 l1) d.
Proof.
  intros Hne He U0 U1 U01 H0 H1 L0 L1. unfold line_segment_to_rectangle, line_segment_to_rectangle_full.
  destruct (convert_segment_unit s e Hne) as (sd & len & -> & Hlen & Hsd & Hd). cbn [fst]. intros Hband.
  destruct (line_to_rectangle_full s sd c a0 a1 l0 l1 eps) as [[[[dl cps] cpt] t] arm] eqn:E.
  pose proof (line_to_rectangle_full_optimal _ _ _ _ _ _ _ _ _ _ _ _ _ Hsd He U0 U1 U01 H0 H1 L0 L1 Hband E) as Hopt.
  pose proof (line_to_rectangle_full_param0 _ _ _ _ _ _ _ _ _ _ _ _ _ E) as Hpar.
  assert (He' : 0 <= eps <= 1) by lra.
  ops_R. rb_case; [|rb_case].
  - destruct (point_to_rectangle s c a0 a1 l0 l1) as [d'' cpt'] eqn:Ep. cbn [fst].
    intros H Hdd. apply pair3_eq in H. destruct H as (<- & _ & _).
    destruct Hdd as [->|Hdd]; [intros x y _ _; apply norm_nonneg|].
    destruct Hpar as [Hf|Hf]; [|lra].
    destruct (line_to_rectangle_full_ok _ _ _ _ _ _ _ _ _ _ _ _ _ Hsd He' H0 H1 E Hf) as [Hfe Hc].
    apply (seg_arm_start_max _ s e sd len t dl d'' cps cpt); auto; [apply rectangle_convex|lra| |].
    + destruct (Rlt_dec dl d''); [right; assumption|left; apply Hopt; right; lra].
    + eapply point_to_rectangle_optimal; eauto.
  - destruct (point_to_rectangle e c a0 a1 l0 l1) as [d'' cpt'] eqn:Ep. cbn [fst].
    intros H Hdd. apply pair3_eq in H. destruct H as (<- & _ & _).
    destruct Hdd as [->|Hdd]; [intros x y _ _; apply norm_nonneg|].
    destruct Hpar as [Hf|Hf]; [|lra].
    destruct (line_to_rectangle_full_ok _ _ _ _ _ _ _ _ _ _ _ _ _ Hsd He' H0 H1 E Hf) as [Hfe Hc].
    apply (seg_arm_end_max _ s e sd len t dl d'' cps cpt); auto; [apply rectangle_convex|lra| |].
    + destruct (Rlt_dec dl d''); [right; assumption|left; apply Hopt; right; lra].
    + eapply point_to_rectangle_optimal; eauto.
  - cbn [fst]. intros H Hdd. apply pair3_eq in H. destruct H as (<- & _ & _).
    apply (seg_arm_mid _ s e sd len); auto.
Qed.

(** ** the hypotheses are satisfiable (witnesses of [Proofs/DistComb.v]: the vertical line through
      (1/4, 1/4) against the triangle (0,0,0) (1,0,0) (0,1,0) / the square [-1,1]^2, eps = 1e-6) *)
Lemma wit_nrm : Support.norm_vector (cross (vsub wit_b wit_a) (vsub wit_c wit_a)) = V 0 0 1.
Proof.
  replace (vsub wit_b wit_a) with (V 1 0 0 : V3R) by (unfold wit_a, wit_b; veq).
  replace (vsub wit_c wit_a) with (V 0 1 0 : V3R) by (unfold wit_a, wit_c; veq).
  replace (cross (V 1 0 0 : V3R) (V 0 1 0)) with (V 0 0 1 : V3R) by veq.
  unfold Support.norm_vector, norm, dot. cbn [vx vy vz]. ops_R.
  rewrite (sqrt_1' (0 * 0 + 0 * 0 + 1 * 1)) by ring.
  rewrite (proj2 (Reqb_false 1 0)) by lra. veq.
Qed.

Lemma wit_tri_band :
  let nrm := Support.norm_vector (cross (vsub wit_b wit_a) (vsub wit_c wit_a)) in
  dot nrm wit_ld = 0 \/ eps6 < Rabs (dot nrm wit_ld).
Proof.
  cbv zeta. rewrite wit_nrm. right. unfold wit_ld.
  replace (dot (V 0 0 1 : V3R) (V 0 0 1)) with 1 by (vunfold; ring).
  rewrite Rabs_R1. apply eps6_lt_1.
Qed.

Lemma wit_tri_edges :
  eps6 <= dot (vsub wit_b wit_a) (vsub wit_b wit_a) /\ eps6 <= dot (vsub wit_c wit_b) (vsub wit_c wit_b) /\
  eps6 <= dot (vsub wit_a wit_c) (vsub wit_a wit_c).
Proof. pose proof eps6_lt_1. unfold wit_a, wit_b, wit_c. vunfold. repeat split; lra. Qed.

Example line_to_triangle_optimal_nonvacuous :
  exists lp ld a b c eps d c1 c2,
    dot ld ld = 1 /\ 0 < eps < 1 /\ cross (vsub b a) (vsub c a) <> vzero /\
    eps <= dot (vsub b a) (vsub b a) /\ eps <= dot (vsub c b) (vsub c b) /\ eps <= dot (vsub a c) (vsub a c) /\
    (let nrm := Support.norm_vector (cross (vsub b a) (vsub c a)) in dot nrm ld = 0 \/ eps < Rabs (dot nrm ld)) /\
    line_to_triangle lp ld a b c eps = (d, c1, c2) /\
    optimal (line_set lp ld) (triangle_set a b c) d.
Proof.
  destruct (line_to_triangle_full_wit 1) as (c1 & c2 & H).
  exists (wit_lp 1), wit_ld, wit_a, wit_b, wit_c, eps6, 0, c1, c2.
  assert (Hu : dot wit_ld wit_ld = 1) by (unfold wit_ld; vunfold; ring).
  assert (HL : line_to_triangle (wit_lp 1) wit_ld wit_a wit_b wit_c eps6 = (0, c1, c2))
    by (unfold line_to_triangle; rewrite H; reflexivity).
  assert (H6 : 0 < eps6 (O:=ROps) < 1) by (split; [apply eps6_pos|apply eps6_lt_1]).
  destruct wit_tri_edges as (L1 & L2 & L3).
  split; [exact Hu|]. split; [exact H6|]. split; [exact wit_tri_nondeg|].
  split; [exact L1|]. split; [exact L2|]. split; [exact L3|]. split; [exact wit_tri_band|]. split; [exact HL|].
  exact (line_to_triangle_optimal _ _ _ _ _ _ _ _ _ Hu H6 wit_tri_nondeg L1 L2 L3 wit_tri_band HL).
Qed.

Example line_segment_to_triangle_optimal_nonvacuous :
  exists s e a b c eps d c1 c2,
    s <> e /\ 0 < eps < 1 /\ cross (vsub b a) (vsub c a) <> vzero /\
    eps <= dot (vsub b a) (vsub b a) /\ eps <= dot (vsub c b) (vsub c b) /\ eps <= dot (vsub a c) (vsub a c) /\
    (let sd := fst (convert_segment_to_line s e) in
     let nrm := Support.norm_vector (cross (vsub b a) (vsub c a)) in dot nrm sd = 0 \/ eps < Rabs (dot nrm sd)) /\
    line_segment_to_triangle s e a b c eps = (d, c1, c2) /\
    optimal (segment_set s e) (triangle_set a b c) d.
Proof.
  destruct line_segment_to_triangle_wit as (c1 & c2 & H).
  exists (wit_lp (-1)), (wit_lp 1), wit_a, wit_b, wit_c, eps6, 0, c1, c2.
  assert (H6 : 0 < eps6 (O:=ROps) < 1) by (split; [apply eps6_pos|apply eps6_lt_1]).
  destruct wit_tri_edges as (L1 & L2 & L3).
  assert (Hband : let sd := fst (convert_segment_to_line (wit_lp (-1)) (wit_lp 1)) in
                  let nrm := Support.norm_vector (cross (vsub wit_b wit_a) (vsub wit_c wit_a)) in
                  dot nrm sd = 0 \/ eps6 < Rabs (dot nrm sd)).
  { rewrite convert_segment_wit. cbn [fst]. exact wit_tri_band. }
  split; [exact wit_ne|]. split; [exact H6|]. split; [exact wit_tri_nondeg|].
  split; [exact L1|]. split; [exact L2|]. split; [exact L3|]. split; [exact Hband|]. split; [exact H|].
  exact (line_segment_to_triangle_optimal _ _ _ _ _ _ _ _ _ wit_ne H6 wit_tri_nondeg L1 L2 L3 Hband H).
Qed.

Lemma wit_rect_band : dot (cross wit_a0 wit_a1) wit_ld = 0 \/ eps6 < Rabs (dot (cross wit_a0 wit_a1) wit_ld).
Proof.
  right. replace (dot (cross wit_a0 wit_a1) wit_ld) with 1 by (unfold wit_a0, wit_a1, wit_ld; vunfold; ring).
  rewrite Rabs_R1. apply eps6_lt_1.
Qed.

Example line_to_rectangle_optimal_nonvacuous :
  exists lp ld c a0 a1 l0 l1 eps d c1 c2,
    dot ld ld = 1 /\ 0 < eps < 1 /\ dot a0 a0 = 1 /\ dot a1 a1 = 1 /\ dot a0 a1 = 0 /\
    0 <= l0 /\ 0 <= l1 /\ eps <= l0 * l0 /\ eps <= l1 * l1 /\
    (dot (cross a0 a1) ld = 0 \/ eps < Rabs (dot (cross a0 a1) ld)) /\
    line_to_rectangle lp ld c a0 a1 l0 l1 eps = (d, c1, c2) /\ (d = 0 \/ eps <= d) /\
    optimal (line_set lp ld) (rectangle_set c a0 a1 l0 l1) d.
Proof.
  destruct (line_to_rectangle_full_wit 1) as (c1 & c2 & H).
  exists (wit_lp 1), wit_ld, wit_rc, wit_a0, wit_a1, 2, 2, eps6, 0, c1, c2.
  assert (Hu : dot wit_ld wit_ld = 1) by (unfold wit_ld; vunfold; ring).
  assert (U0 : dot wit_a0 wit_a0 = 1) by (unfold wit_a0; vunfold; ring).
  assert (U1 : dot wit_a1 wit_a1 = 1) by (unfold wit_a1; vunfold; ring).
  assert (U01 : dot wit_a0 wit_a1 = 0) by (unfold wit_a0, wit_a1; vunfold; ring).
  assert (HL : line_to_rectangle (wit_lp 1) wit_ld wit_rc wit_a0 wit_a1 2 2 eps6 = (0, c1, c2))
    by (unfold line_to_rectangle; rewrite H; reflexivity).
  assert (H6 : 0 < eps6 (O:=ROps) < 1) by (split; [apply eps6_pos|apply eps6_lt_1]).
  assert (L : eps6 (O:=ROps) <= 2 * 2) by lra.
  assert (P2 : 0 <= 2) by lra.
  assert (Hd : 0 = 0 \/ eps6 (O:=ROps) <= 0) by (left; reflexivity).
  repeat (split; [assumption || exact wit_rect_band|]).
  exact (line_to_rectangle_optimal _ _ _ _ _ _ _ _ _ _ _ Hu H6 U0 U1 U01 P2 P2 L L wit_rect_band HL Hd).
Qed.

Example line_segment_to_rectangle_optimal_nonvacuous :
  exists s e c a0 a1 l0 l1 eps d c1 c2,
    s <> e /\ 0 < eps < 1 /\ dot a0 a0 = 1 /\ dot a1 a1 = 1 /\ dot a0 a1 = 0 /\
    0 <= l0 /\ 0 <= l1 /\ eps <= l0 * l0 /\ eps <= l1 * l1 /\
    (let sd := fst (convert_segment_to_line s e) in
     dot (cross a0 a1) sd = 0 \/ eps < Rabs (dot (cross a0 a1) sd)) /\
    line_segment_to_rectangle s e c a0 a1 l0 l1 eps = (d, c1, c2) /\ (d = 0 \/ eps <= d) /\
    optimal (segment_set s e) (rectangle_set c a0 a1 l0 l1) d.
Proof.
  destruct line_segment_to_rectangle_wit as (c1 & c2 & H).
  exists (wit_lp (-1)), (wit_lp 1), wit_rc, wit_a0, wit_a1, 2, 2, eps6, 0, c1, c2.
  assert (U0 : dot wit_a0 wit_a0 = 1) by (unfold wit_a0; vunfold; ring).
  assert (U1 : dot wit_a1 wit_a1 = 1) by (unfold wit_a1; vunfold; ring).
  assert (U01 : dot wit_a0 wit_a1 = 0) by (unfold wit_a0, wit_a1; vunfold; ring).
  assert (H6 : 0 < eps6 (O:=ROps) < 1) by (split; [apply eps6_pos|apply eps6_lt_1]).
  assert (L : eps6 (O:=ROps) <= 2 * 2) by lra.
  assert (P2 : 0 <= 2) by lra.
  assert (Hd : 0 = 0 \/ eps6 (O:=ROps) <= 0) by (left; reflexivity).
  assert (Hband : let sd := fst (convert_segment_to_line (wit_lp (-1)) (wit_lp 1)) in
                  dot (cross wit_a0 wit_a1) sd = 0 \/ eps6 < Rabs (dot (cross wit_a0 wit_a1) sd)).
  { rewrite convert_segment_wit. cbn [fst]. exact wit_rect_band. }
  pose proof wit_ne as Hne.
  repeat (split; [assumption|]).
  exact (line_segment_to_rectangle_optimal _ _ _ _ _ _ _ _ _ _ _ Hne H6 U0 U1 U01 P2 P2 L L Hband H Hd).
Qed.

(** ** the `break` band of _line_to_rectangle is real: refutation without [d = 0 \/ eps <= d] *)
(** the line through (1,0,0) with direction (-4/5, 3/5, 0) lies in the plane of the square [-1,1]^2 and
    crosses it (common point (1,0,0): true distance 0).  It misses the first edge x = -1 by 2/5 < eps = 1/2:
    the inner loop breaks, the edge x = +1 is skipped; in the second group the edge y = -1 is 4/5
    away and the loop breaks again (best = 2/5 < eps) before the edge y = +1.  Returned: 2/5. *)
Definition rf_lp : V3R := V 1 0 0.
Definition rf_ld : V3R := V (- (4 / 5)) (3 / 5) 0.
Definition rf_n : V3R := V (- (3 / 5)) (- (4 / 5)) 0.

Lemma rf_edges :
  rectangle_edges (V 0 0 0 : V3R) (vscale (/ 2 * 2) (V 1 0 0)) (vscale (/ 2 * 2) (V 0 1 0)) =
  [[(V (-1) (-1) 0, V (-1) 1 0); (V 1 (-1) 0, V 1 1 0)]; [(V (-1) (-1) 0, V 1 (-1) 0); (V (-1) 1 0, V 1 1 0)]].
Proof. unfold rectangle_edges, rectangle_segment. cbn [map]. repeat f_equal; vunfold; f_equal; field. Qed.

Lemma norm_lt_of_sq (a : V3R) (t : R) : 0 < t -> dot a a < t * t -> norm a < t.
Proof.
  intros Ht H. pose proof (norm_nonneg a). pose proof (norm_sq a).
  destruct (Rlt_dec (norm a) t); auto. nra.
Qed.

(** a candidate of the line against a segment on the far side of the line's normal *)
Lemma rf_candidate (s0 e0 : V3R) (beta : R) d c1 c2 t s arm :
  1 <= dot (vsub e0 s0) (vsub e0 s0) ->
  beta <= dot s0 rf_n -> beta <= dot e0 rf_n ->
  line_to_line_segment_full rf_lp rf_ld s0 e0 (1 / 2) = (d, c1, c2, t, s, arm) ->
  beta + 3 / 5 <= d /\ forall x y, line_set rf_lp rf_ld x -> segment_set s0 e0 y -> d <= norm (vsub x y).
Proof.
  intros Ha Hs He E.
  assert (Hu : dot rf_ld rf_ld = 1) by (unfold rf_ld; vunfold; field).
  split.
  - apply line_to_line_segment_full_feasible in E; [|right; lra].
    destruct E as ((tt & ->) & (u & Hu01 & ->) & _ & ->).
    assert (Hn : norm rf_n = 1).
    { rewrite (norm_abs_of_sq _ 1); [apply Rabs_R1|]. unfold rf_n. vunfold. field. }
    pose proof (separating_direction (line_set rf_lp rf_ld) (segment_set s0 e0) rf_n (- (3 / 5)) beta Hn) as Hsep.
    replace (beta + 3 / 5) with (beta - - (3 / 5)) by ring. apply Hsep.
    + intros a (ta & ->). rewrite dot_add_l, dot_scale_l. unfold rf_lp, rf_ld, rf_n. vunfold. apply Req_le. field.
    + intros b (ub & Hub & ->). rewrite dot_add_l, dot_scale_l, dot_sub_l. nra.
    + apply line_mem.
    + exists u. auto.
  - assert (EL : line_to_line_segment rf_lp rf_ld s0 e0 (1 / 2) = (d, c1, c2))
      by (unfold line_to_line_segment; rewrite E; reflexivity).
    apply (line_to_line_segment_optimal _ _ _ _ _ _ _ _ Hu) in EL; try lra. exact EL.
Qed.

Lemma rect_inner_cons (lp ld : V3R) (eps : R) (se : V3R * V3R) rest bd b1 b2 bt d cpl cps t s arm :
  line_to_line_segment_full lp ld (fst se) (snd se) eps = (d, cpl, cps, t, s, arm) ->
  rect_inner lp ld eps (se :: rest) (bd, b1, b2, bt) =
  (let best' := if ltb (Ops:=ROps) d bd then (d, cpl, cps, t) else (bd, b1, b2, bt) in
   if ltb (Ops:=ROps) (d4 best') eps then best' else rect_inner lp ld eps rest best').
Proof.
  intros E.
  change (rect_inner lp ld eps (se :: rest) (bd, b1, b2, bt)) with
      (let '(bd, _, _, _) := (bd, b1, b2, bt) in
       let '(d, cpl, cps, t, _, _) := line_to_line_segment_full lp ld (fst se) (snd se) eps in
       let best' := if ltb (Ops:=ROps) d bd then (d, cpl, cps, t) else (bd, b1, b2, bt) in
       let '(bd', _, _, _) := best' in
       if ltb (Ops:=ROps) bd' eps then best' else rect_inner lp ld eps rest best').
  rewrite E. cbv zeta. ops_R. destruct (Rltb d bd); reflexivity.
Qed.

Lemma rf_result :
  exists d c1 c2 t, line_to_rectangle_full rf_lp rf_ld (V 0 0 0) (V 1 0 0) (V 0 1 0) 2 2 (1 / 2) = (d, c1, c2, t, 1%nat) /\
                    2 / 5 <= d < 1 / 2 /\ 0 <= t <= 5.
Proof.
  unfold line_to_rectangle_full. rewrite half_eq, half_R. cbv zeta.
  assert (EN : line_intersects_rectangle rf_lp rf_ld (V 0 0 0) (V 1 0 0) (V 0 1 0) (mul (/ 2) 2) (mul (/ 2) 2) (1 / 2) = None).
  { unfold line_intersects_rectangle. cbv zeta.
    replace (dot (cross (V 1 0 0 : V3R) (V 0 1 0)) rf_ld) with 0 by (unfold rf_ld; vunfold; ring).
    ops_R. rewrite Rabs_R0. rewrite (proj2 (Rltb_false (1 / 2) 0)) by lra. reflexivity. }
  rewrite EN. ops_R. rewrite rf_edges.
  match goal with |- context [fold_left ?f ?l ?i] =>
    change (fold_left f l i) with (fold_left (fun b segs => rect_inner rf_lp rf_ld (1 / 2) segs b) l i) end.
  cbn [fold_left].
  destruct (line_to_line_segment_full rf_lp rf_ld (V (-1) (-1) 0) (V (-1) 1 0) (1 / 2)) as [[[[[d1 p1] q1] t1] s1] arm1] eqn:E1.
  destruct (line_to_line_segment_full rf_lp rf_ld (V (-1) (-1) 0) (V 1 (-1) 0) (1 / 2)) as [[[[[d3 p3] q3] t3] s3] arm3] eqn:E3.
  destruct (rf_candidate (V (-1) (-1) 0) (V (-1) 1 0) (- (1 / 5)) _ _ _ _ _ _ ltac:(vunfold; lra) ltac:(unfold rf_n; vunfold; lra) ltac:(unfold rf_n; vunfold; lra) E1) as [L1 O1].
  destruct (rf_candidate (V (-1) (-1) 0) (V 1 (-1) 0) (1 / 5) _ _ _ _ _ _ ltac:(vunfold; lra) ltac:(unfold rf_n; vunfold; lra) ltac:(unfold rf_n; vunfold; lra) E3) as [L3 _].
  assert (U1 : d1 < 1 / 2).
  { eapply Rle_lt_trans; [apply (O1 (vadd rf_lp (vscale 2 rf_ld)) (V (-1) 1 0)); [apply line_mem|exists 1; split; [lra|veq]]|].
    apply norm_lt_of_sq; [lra|]. unfold rf_lp, rf_ld. vunfold. lra. }
  pose proof max_float_gt_1 as HM.
  rewrite (rect_inner_cons _ _ _ (V (-1) (-1) 0, V (-1) 1 0) _ _ _ _ _ _ _ _ _ _ _ E1). cbv zeta. ops_R.
  rewrite (proj2 (Rltb_true d1 max_float)) by lra. unfold d4 at 1. cbn [fst].
  rewrite (proj2 (Rltb_true d1 (1 / 2))) by lra.
  rewrite (rect_inner_cons _ _ _ (V (-1) (-1) 0, V 1 (-1) 0) _ _ _ _ _ _ _ _ _ _ _ E3). cbv zeta. ops_R.
  rewrite (proj2 (Rltb_false d3 d1)) by lra. unfold d4. cbn [fst].
  rewrite (proj2 (Rltb_true d1 (1 / 2))) by lra.
  exists d1, p1, q1, t1. split; [reflexivity|]. split; [lra|].
  (* the returned parameter: |x(c1) - x(c2)| <= d1 < 1/2 with x(c2) = -1, x(c1) = 1 - 4 t / 5 *)
  assert (Hu : dot rf_ld rf_ld = 1) by (unfold rf_ld; vunfold; field).
  assert (Hge : 1 / 2 <= dot rf_ld rf_ld) by lra.
  pose proof (line_to_line_segment_full_param _ _ _ _ _ _ _ _ _ _ _ Hge E1) as Hp.
  apply line_to_line_segment_full_feasible in E1; [|right; lra].
  destruct E1 as (_ & (u & Hu01 & ->) & _ & Hd1). subst p1.
  pose proof (norm_sq (vsub (vadd rf_lp (vscale t1 rf_ld))
                            (vadd (V (-1) (-1) 0) (vscale u (vsub (V (-1) 1 0) (V (-1) (-1) 0)))))) as Hsq.
  rewrite <- Hd1 in Hsq. clear Hd1 O1 L3 E3.
  unfold rf_lp, rf_ld in Hsq. vunfold.
  assert (Hx : (1 + t1 * - (4 / 5) - (-1 + u * (-1 - -1))) * (1 + t1 * - (4 / 5) - (-1 + u * (-1 - -1))) <= d1 * d1).
  { rewrite Hsq. pose proof (sqr_nonneg (0 + t1 * (3 / 5) - (-1 + u * (1 - -1)))).
    pose proof (sqr_nonneg (0 + t1 * 0 - (0 + u * (0 - 0)))). lra. }
  clear Hsq. split; nra.
Qed.

Theorem line_to_rectangle_optimal_refuted :
  exists lp ld c a0 a1 l0 l1 eps d c1 c2,
    dot ld ld = 1 /\ 0 < eps < 1 /\ dot a0 a0 = 1 /\ dot a1 a1 = 1 /\ dot a0 a1 = 0 /\
    0 <= l0 /\ 0 <= l1 /\ eps <= l0 * l0 /\ eps <= l1 * l1 /\
    (dot (cross a0 a1) ld = 0 \/ eps < Rabs (dot (cross a0 a1) ld)) /\
    line_to_rectangle lp ld c a0 a1 l0 l1 eps = (d, c1, c2) /\
    ~ optimal (line_set lp ld) (rectangle_set c a0 a1 l0 l1) d.
Proof.
  destruct rf_result as (d & c1 & c2 & t & E & Hd & _).
  exists rf_lp, rf_ld, (V 0 0 0), (V 1 0 0), (V 0 1 0), 2, 2, (1 / 2), d, c1, c2.
  split; [unfold rf_ld; vunfold; field|]. split; [lra|].
  split; [vunfold; ring|]. split; [vunfold; ring|]. split; [vunfold; ring|].
  split; [lra|]. split; [lra|]. split; [lra|]. split; [lra|].
  split; [left; unfold rf_ld; vunfold; ring|].
  split; [unfold line_to_rectangle; rewrite E; reflexivity|].
  intros H. specialize (H rf_lp rf_lp (line_mem_start _ _)).
  assert (Hr : rectangle_set (V 0 0 0) (V 1 0 0) (V 0 1 0) 2 2 rf_lp).
  { exists 1, 0. split; [rewrite Rabs_R1; lra|]. split; [rewrite Rabs_R0; lra|]. unfold rf_lp. veq. }
  specialize (H Hr). rewrite norm_sub_self in H. lra.
Qed.

Lemma rf_convert : convert_segment_to_line rf_lp (V (-3) 3 0) = (rf_ld, 5).
Proof.
  unfold convert_segment_to_line.
  replace (vsub (V (-3) 3 0) rf_lp) with (V (-4) 3 0 : V3R) by (unfold rf_lp; veq).
  assert (Hn : norm (V (-4) 3 0 : V3R) = 5).
  { rewrite (norm_abs_of_sq _ 5); [apply Rabs_pos_eq; lra|]. vunfold. ring. }
  rewrite Hn. ops_R. rewrite (proj2 (Rltb_true 0 5)) by lra. f_equal. unfold rf_ld. vunfold. f_equal; field.
Qed.

Theorem line_segment_to_rectangle_optimal_refuted :
  exists s e c a0 a1 l0 l1 eps d c1 c2,
    s <> e /\ 0 < eps < 1 /\ dot a0 a0 = 1 /\ dot a1 a1 = 1 /\ dot a0 a1 = 0 /\
    0 <= l0 /\ 0 <= l1 /\ eps <= l0 * l0 /\ eps <= l1 * l1 /\
    (let sd := fst (convert_segment_to_line s e) in
     dot (cross a0 a1) sd = 0 \/ eps < Rabs (dot (cross a0 a1) sd)) /\
    line_segment_to_rectangle s e c a0 a1 l0 l1 eps = (d, c1, c2) /\
    ~ optimal (segment_set s e) (rectangle_set c a0 a1 l0 l1) d.
Proof.
  destruct rf_result as (d & c1 & c2 & t & E & Hd & Ht).
  exists rf_lp, (V (-3) 3 0), (V 0 0 0), (V 1 0 0), (V 0 1 0), 2, 2, (1 / 2), d, c1, c2.
  split; [unfold rf_lp; intros H; injection H as H _; lra|]. split; [lra|].
  split; [vunfold; ring|]. split; [vunfold; ring|]. split; [vunfold; ring|].
  split; [lra|]. split; [lra|]. split; [lra|]. split; [lra|].
  split; [rewrite rf_convert; cbn [fst]; left; unfold rf_ld; vunfold; ring|].
  split.
  - unfold line_segment_to_rectangle, line_segment_to_rectangle_full. rewrite rf_convert, E. ops_R.
    rewrite (proj2 (Rltb_false t 0)) by lra. rewrite (proj2 (Rltb_false 5 t)) by lra. reflexivity.
  - intros H. specialize (H rf_lp rf_lp (seg_start_in _ _)).
    assert (Hr : rectangle_set (V 0 0 0) (V 1 0 0) (V 0 1 0) 2 2 rf_lp).
    { exists 1, 0. split; [rewrite Rabs_R1; lra|]. split; [rewrite Rabs_R0; lra|]. unfold rf_lp. veq. }
    specialize (H Hr). rewrite norm_sub_self in H. lra.
Qed.

(** ** 5. pairs of planar convex polygons (triangle_to_triangle, triangle_to_rectangle,
      rectangle_to_rectangle): a pair of points can be moved, without changing its difference vector,
      until one of the two points lies on an edge of its polygon: slide both points along a direction
      common to the two planes. *)
(** *** leaving a polygon along a ray: any number of constraints *)
Definition cval (tau : R) (c : R * R) : R := fst c + tau * snd c.

Lemma refine_list (l : list (R * R)) (tau0 : R) :
  (forall c, In c l -> 0 <= fst c) -> 0 <= tau0 ->
  exists tau, 0 <= tau <= tau0 /\ (forall c, In c l -> 0 <= cval tau c) /\
              (tau = tau0 \/ exists c, In c l /\ cval tau c = 0).
Proof.
  intros Hg Ht. induction l as [|a l IH].
  - exists tau0. split; [lra|]. split; [intros c []|left; reflexivity].
  - destruct IH as (tau1 & Ht1 & P1 & Z1); [intros c Hc; apply Hg; right; exact Hc|].
    destruct (exit_refine (fst a) (snd a) tau1) as (tau2 & Ht2 & P2 & Z2); [apply Hg; left; reflexivity|lra|].
    exists tau2. split; [lra|]. split.
    + intros c [<-|Hc]; [exact P2|]. unfold cval. apply (seg_nonneg (fst c) (snd c) tau1); [apply Hg; right; exact Hc| |lra].
      apply P1. exact Hc.
    + destruct Z2 as [->|Z2].
      * destruct Z1 as [->|(c & Hc & Zc)]; [left; reflexivity|]. right. exists c. split; [right; exact Hc|exact Zc].
      * right. exists a. split; [left; reflexivity|exact Z2].
Qed.

Lemma ray_exit_list (l : list (R * R)) :
  (forall c, In c l -> 0 <= fst c) -> (exists c, In c l /\ snd c < 0) ->
  exists tau, 0 <= tau /\ (forall c, In c l -> 0 <= cval tau c) /\ exists c, In c l /\ cval tau c = 0.
Proof.
  intros Hg (c0 & Hc0 & Hr).
  set (t0 := fst c0 / - snd c0).
  assert (Ht0 : 0 <= t0) by (apply Rmult_le_pos; [apply Hg; exact Hc0|left; apply Rinv_0_lt_compat; lra]).
  assert (E0 : cval t0 c0 = 0) by (unfold cval, t0; field; lra).
  clearbody t0.
  destruct (refine_list l t0 Hg Ht0) as (tau & Ht & P & Z).
  exists tau. split; [lra|]. split; [exact P|].
  destruct Z as [->|Z]; [exists c0; auto|exact Z].
Qed.

(** *** planar polygons as lists of affine constraints [k + ps * s + pr * r >= 0] on the coordinates *)
Definition plane_at (o e0 e1 : V3R) (s r : R) : V3R := vadd o (vadd (vscale s e0) (vscale r e1)).
Definition con : Type := (R * R * R)%type.
Definition cev (c : con) (s r : R) : R := fst (fst c) + snd (fst c) * s + snd c * r.
Definition crate (c : con) (al be : R) : R := snd (fst c) * al + snd c * be.
Definition inside (cs : list con) (s r : R) : Prop := forall c, In c cs -> 0 <= cev c s r.
Definition on_boundary (cs : list con) (s r : R) : Prop := exists c, In c cs /\ cev c s r = 0.
Definition bounded_cs (cs : list con) : Prop :=
  forall al be, al <> 0 \/ be <> 0 -> exists c, In c cs /\ crate c al be < 0.

Definition tri_cs : list con := [(0, 1, 0); (0, 0, 1); (1, -1, -1)].
Definition rect_cs (h0 h1 : R) : list con := [(h0, -1, 0); (h0, 1, 0); (h1, 0, -1); (h1, 0, 1)].

Lemma tri_cs_bounded : bounded_cs tri_cs.
Proof.
  intros al be H. unfold tri_cs.
  destruct (Rlt_dec al 0); [exists (0, 1, 0); split; [simpl; auto|unfold crate; simpl; lra]|].
  destruct (Rlt_dec be 0); [exists (0, 0, 1); split; [simpl; auto|unfold crate; simpl; lra]|].
  exists (1, -1, -1). split; [simpl; auto|]. unfold crate; simpl. destruct H; lra.
Qed.
Lemma rect_cs_bounded (h0 h1 : R) : bounded_cs (rect_cs h0 h1).
Proof.
  intros al be H. unfold rect_cs.
  destruct (Rlt_dec al 0); [exists (h0, 1, 0); split; [simpl; auto|unfold crate; simpl; lra]|].
  destruct (Rlt_dec 0 al); [exists (h0, -1, 0); split; [simpl; auto|unfold crate; simpl; lra]|].
  destruct (Rlt_dec be 0); [exists (h1, 0, 1); split; [simpl; auto 6|unfold crate; simpl; lra]|].
  exists (h1, 0, -1). split; [simpl; auto 6|]. unfold crate; simpl. destruct H; lra.
Qed.

(** a direction orthogonal to the normal lies in the span of the two axes *)
Lemma in_span (e0 e1 v : V3R) :
  cross e0 e1 <> vzero -> dot (cross e0 e1) v = 0 -> exists al be, v = vadd (vscale al e0) (vscale be e1).
Proof.
  intros Hnd Hpar. pose proof (cross_nonzero_pos _ Hnd) as Hnn.
  pose proof (span_expand e0 e1 v) as Hex. rewrite Hpar in Hex.
  set (nn := dot (cross e0 e1) (cross e0 e1)) in *.
  exists (dot (cross v e1) (cross e0 e1) / nn), (dot (cross e0 v) (cross e0 e1) / nn).
  replace v with (vscale (/ nn) (vscale nn v)) at 1 by (clearbody nn; veq; lra).
  rewrite Hex. clearbody nn. veq; lra.
Qed.

(** two planes through the origin share a non-zero direction *)
Lemma common_direction (e10 e11 e20 e21 : V3R) :
  cross e10 e11 <> vzero -> cross e20 e21 <> vzero ->
  exists v, v <> vzero /\ dot (cross e10 e11) v = 0 /\ dot (cross e20 e21) v = 0.
Proof.
  intros H1 H2. set (n1 := cross e10 e11) in *. set (n2 := cross e20 e21) in *.
  destruct (Req_dec (dot (cross n1 n2) (cross n1 n2)) 0) as [Z|Z].
  - apply dot_self_zero in Z.
    exists e10. split; [|split].
    + intros E. apply H1. unfold n1. rewrite E. veq.
    + unfold n1. vsimp; ring.
    + pose proof (cross_nonzero_pos _ H1) as Hnn.
      assert (Hid : vscale (dot n1 n1) n2 = vadd (vscale (dot n1 n2) n1) (cross (cross n1 n2) n1)).
      { clearbody n1 n2. veq. }
      rewrite Z in Hid.
      assert (Hd : dot n1 n1 * dot n2 e10 = dot n1 n2 * dot n1 e10).
      { rewrite <- !dot_scale_l, Hid. rewrite dot_add_l, dot_scale_l.
        replace (dot (cross vzero n1) e10) with 0 by (clearbody n1; vsimp; ring). ring. }
      assert (Hz : dot n1 e10 = 0) by (unfold n1; vsimp; ring).
      rewrite Hz in Hd. clearbody n1 n2. nra.
  - exists (cross n1 n2). split; [|split].
    + intros E. apply Z. rewrite E. vsimp; ring.
    + clearbody n1 n2. vsimp; ring.
    + clearbody n1 n2. vsimp; ring.
Qed.

Lemma cev_shift (c : con) (s r al be tau : R) :
  cev c (s + tau * al) (r + tau * be) = cval tau (cev c s r, crate c al be).
Proof. unfold cev, crate, cval. cbn [fst snd]. ring. Qed.

Lemma slide_pair (cs1 cs2 : list con) (o1 e10 e11 o2 e20 e21 : V3R) (s1 r1 s2 r2 : R) :
  cross e10 e11 <> vzero -> cross e20 e21 <> vzero -> bounded_cs cs1 ->
  inside cs1 s1 r1 -> inside cs2 s2 r2 ->
  exists s1' r1' s2' r2',
    inside cs1 s1' r1' /\ inside cs2 s2' r2' /\ (on_boundary cs1 s1' r1' \/ on_boundary cs2 s2' r2') /\
    vsub (plane_at o1 e10 e11 s1' r1') (plane_at o2 e20 e21 s2' r2')
    = vsub (plane_at o1 e10 e11 s1 r1) (plane_at o2 e20 e21 s2 r2).
Proof.
  intros H1 H2 Hb I1 I2.
  destruct (common_direction e10 e11 e20 e21 H1 H2) as (v & Hv & Hv1 & Hv2).
  destruct (in_span e10 e11 v H1 Hv1) as (al1 & be1 & E1).
  destruct (in_span e20 e21 v H2 Hv2) as (al2 & be2 & E2).
  assert (Hnz : al1 <> 0 \/ be1 <> 0).
  { destruct (Req_dec al1 0) as [Za|Za]; [|left; exact Za]. destruct (Req_dec be1 0) as [Zb|Zb]; [|right; exact Zb].
    exfalso. apply Hv. rewrite E1, Za, Zb. veq. }
  destruct (Hb al1 be1 Hnz) as (c0 & Hc0 & Hneg).
  set (l := map (fun c => (cev c s1 r1, crate c al1 be1)) cs1 ++ map (fun c => (cev c s2 r2, crate c al2 be2)) cs2).
  destruct (ray_exit_list l) as (tau & Ht & P & (cz & Hcz & Zz)).
  { intros c Hc. apply in_app_or in Hc. destruct Hc as [Hc|Hc]; apply in_map_iff in Hc; destruct Hc as (c' & <- & Hc');
      cbn [fst]; [apply I1|apply I2]; exact Hc'. }
  { exists (cev c0 s1 r1, crate c0 al1 be1). split; [|exact Hneg].
    apply in_or_app. left. apply in_map_iff. exists c0. auto. }
  exists (s1 + tau * al1), (r1 + tau * be1), (s2 + tau * al2), (r2 + tau * be2).
  split; [|split; [|split]].
  - intros c Hc. rewrite cev_shift. apply P. apply in_or_app. left. apply in_map_iff. exists c. auto.
  - intros c Hc. rewrite cev_shift. apply P. apply in_or_app. right. apply in_map_iff. exists c. auto.
  - apply in_app_or in Hcz. destruct Hcz as [Hc|Hc]; apply in_map_iff in Hc; destruct Hc as (c' & <- & Hc').
    + left. exists c'. split; [exact Hc'|]. rewrite cev_shift. exact Zz.
    + right. exists c'. split; [exact Hc'|]. rewrite cev_shift. exact Zz.
  - replace (plane_at o1 e10 e11 (s1 + tau * al1) (r1 + tau * be1))
      with (vadd (plane_at o1 e10 e11 s1 r1) (vscale tau v)) by (rewrite E1; unfold plane_at; veq).
    replace (plane_at o2 e20 e21 (s2 + tau * al2) (r2 + tau * be2))
      with (vadd (plane_at o2 e20 e21 s2 r2) (vscale tau v)) by (rewrite E2; unfold plane_at; veq).
    veq.
Qed.

(** the generic reduction and what it gives for optimality *)
Definition pair_reduction (A B EA EB : set3) : Prop :=
  forall x y, A x -> B y -> exists x' y', A x' /\ B y' /\ (EA x' \/ EB y') /\ vsub x' y' = vsub x y.

Lemma pair_reduce_gen (A B EA EB : set3) (cs1 cs2 : list con) (o1 e10 e11 o2 e20 e21 : V3R) :
  cross e10 e11 <> vzero -> cross e20 e21 <> vzero -> bounded_cs cs1 ->
  (forall x, A x <-> exists s r, inside cs1 s r /\ x = plane_at o1 e10 e11 s r) ->
  (forall y, B y <-> exists s r, inside cs2 s r /\ y = plane_at o2 e20 e21 s r) ->
  (forall s r, inside cs1 s r -> on_boundary cs1 s r -> EA (plane_at o1 e10 e11 s r)) ->
  (forall s r, inside cs2 s r -> on_boundary cs2 s r -> EB (plane_at o2 e20 e21 s r)) ->
  pair_reduction A B EA EB.
Proof.
  intros H1 H2 Hb HA HB HEA HEB x y Hx Hy.
  apply HA in Hx. destruct Hx as (s1 & r1 & I1 & ->). apply HB in Hy. destruct Hy as (s2 & r2 & I2 & ->).
  destruct (slide_pair cs1 cs2 o1 e10 e11 o2 e20 e21 s1 r1 s2 r2 H1 H2 Hb I1 I2)
    as (s1' & r1' & s2' & r2' & I1' & I2' & Hbd & Heq).
  exists (plane_at o1 e10 e11 s1' r1'), (plane_at o2 e20 e21 s2' r2').
  split; [apply HA; eauto|]. split; [apply HB; eauto|]. split; [|exact Heq].
  destruct Hbd as [Hbd|Hbd]; [left; apply HEA|right; apply HEB]; assumption.
Qed.

Lemma pair_reduction_optimal (A B EA EB : set3) (d : R) :
  pair_reduction A B EA EB ->
  (forall x y, EA x -> B y -> d <= norm (vsub x y)) ->
  (forall x y, A x -> EB y -> d <= norm (vsub x y)) ->
  optimal A B d.
Proof.
  intros Hred H1 H2 x y Hx Hy. destruct (Hred x y Hx Hy) as (x' & y' & Hx' & Hy' & [He|He] & <-); auto.
Qed.

(** *** triangles and rectangles in this form *)
Definition on_tri_edge (a b c : V3R) : set3 :=
  fun x => exists se, In se (tri_edges a b c) /\ segment_set (fst se) (snd se) x.
Definition on_rect_edge (c a0 a1 : V3R) (h0 h1 : R) : set3 :=
  fun x => exists l se, In l (rectangle_edges c (vscale h0 a0) (vscale h1 a1)) /\ In se l /\
                        segment_set (fst se) (snd se) x.

Lemma triangle_set_cs (a b c x : V3R) :
  triangle_set a b c x <-> exists s r, inside tri_cs s r /\ x = plane_at a (vsub b a) (vsub c a) s r.
Proof.
  split.
  - intros (s & r & Hs & Hr & Hsr & ->). exists s, r. split; [|reflexivity].
    intros c0 [<-|[<-|[<-|[]]]]; unfold cev; cbn [fst snd]; lra.
  - intros (s & r & I & ->). exists s, r.
    pose proof (I (0, 1, 0) ltac:(simpl; auto)) as I0.
    pose proof (I (0, 0, 1) ltac:(simpl; auto)) as I1.
    pose proof (I (1, -1, -1) ltac:(simpl; auto)) as I2. unfold cev in *. cbn [fst snd] in *.
    repeat split; try lra.
Qed.

Lemma tri_boundary_edge (a b c : V3R) (s r : R) :
  inside tri_cs s r -> on_boundary tri_cs s r -> on_tri_edge a b c (plane_at a (vsub b a) (vsub c a) s r).
Proof.
  intros I (c0 & Hc0 & Z).
  pose proof (I (0, 1, 0) ltac:(simpl; auto)) as I0.
  pose proof (I (0, 0, 1) ltac:(simpl; auto)) as I1.
  pose proof (I (1, -1, -1) ltac:(simpl; auto)) as I2. unfold cev in *. cbn [fst snd] in *.
  apply (tri_bary_edge a b c s r); try lra.
  destruct Hc0 as [<-|[<-|[<-|[]]]]; cbn [fst snd] in Z; [left|right; left|right; right]; lra.
Qed.

Lemma rectangle_set_cs (c a0 a1 : V3R) (l0 l1 : R) (x : V3R) :
  rectangle_set c a0 a1 l0 l1 x <-> exists s r, inside (rect_cs (/ 2 * l0) (/ 2 * l1)) s r /\ x = plane_at c a0 a1 s r.
Proof.
  split.
  - intros (k0 & k1 & K0 & K1 & ->). apply Rabs_le_between' in K0, K1. exists k0, k1. split; [|reflexivity].
    intros c0 [<-|[<-|[<-|[<-|[]]]]]; unfold cev; cbn [fst snd]; lra.
  - intros (k0 & k1 & I & ->). exists k0, k1.
    pose proof (I (/ 2 * l0, -1, 0) ltac:(simpl; auto)) as I0.
    pose proof (I (/ 2 * l0, 1, 0) ltac:(simpl; auto)) as I1.
    pose proof (I (/ 2 * l1, 0, -1) ltac:(simpl; auto)) as I2.
    pose proof (I (/ 2 * l1, 0, 1) ltac:(simpl; auto 6)) as I3. unfold cev in *. cbn [fst snd] in *.
    split; [apply Rabs_le; lra|]. split; [apply Rabs_le; lra|reflexivity].
Qed.

Lemma rect_boundary_edge (c a0 a1 : V3R) (h0 h1 s r : R) :
  0 < h0 -> 0 < h1 ->
  inside (rect_cs h0 h1) s r -> on_boundary (rect_cs h0 h1) s r -> on_rect_edge c a0 a1 h0 h1 (plane_at c a0 a1 s r).
Proof.
  intros Hh0 Hh1 I (c0 & Hc0 & Z).
  pose proof (I (h0, -1, 0) ltac:(simpl; auto)) as I0.
  pose proof (I (h0, 1, 0) ltac:(simpl; auto)) as I1.
  pose proof (I (h1, 0, -1) ltac:(simpl; auto)) as I2.
  pose proof (I (h1, 0, 1) ltac:(simpl; auto 6)) as I3. unfold cev in *. cbn [fst snd] in *.
  apply (rect_bary_edge c a0 a1 h0 h1 s r); try lra.
  destruct Hc0 as [<-|[<-|[<-|[<-|[]]]]]; cbn [fst snd] in Z; [left|right; left|right; right; left|right; right; right]; lra.
Qed.

Lemma tri_tri_reduction (a1 b1 c1 a2 b2 c2 : V3R) :
  cross (vsub b1 a1) (vsub c1 a1) <> vzero -> cross (vsub b2 a2) (vsub c2 a2) <> vzero ->
  pair_reduction (triangle_set a1 b1 c1) (triangle_set a2 b2 c2) (on_tri_edge a1 b1 c1) (on_tri_edge a2 b2 c2).
Proof.
  intros H1 H2.
  apply (pair_reduce_gen _ _ _ _ tri_cs tri_cs a1 (vsub b1 a1) (vsub c1 a1) a2 (vsub b2 a2) (vsub c2 a2)); auto.
  - apply tri_cs_bounded.
  - intros x. apply triangle_set_cs.
  - intros x. apply triangle_set_cs.
  - intros s r. apply tri_boundary_edge.
  - intros s r. apply tri_boundary_edge.
Qed.

Lemma tri_rect_reduction (a b c rc a0 a1 : V3R) (l0 l1 : R) :
  cross (vsub b a) (vsub c a) <> vzero -> cross a0 a1 <> vzero -> 0 < l0 -> 0 < l1 ->
  pair_reduction (triangle_set a b c) (rectangle_set rc a0 a1 l0 l1)
                 (on_tri_edge a b c) (on_rect_edge rc a0 a1 (/ 2 * l0) (/ 2 * l1)).
Proof.
  intros H1 H2 L0 L1.
  apply (pair_reduce_gen _ _ _ _ tri_cs (rect_cs (/ 2 * l0) (/ 2 * l1)) a (vsub b a) (vsub c a) rc a0 a1); auto.
  - apply tri_cs_bounded.
  - intros x. apply triangle_set_cs.
  - intros x. apply rectangle_set_cs.
  - intros s r. apply tri_boundary_edge.
  - intros s r. apply rect_boundary_edge; lra.
Qed.

Lemma rect_rect_reduction (c1 a10 a11 : V3R) (l10 l11 : R) (c2 a20 a21 : V3R) (l20 l21 : R) :
  cross a10 a11 <> vzero -> cross a20 a21 <> vzero -> 0 < l10 -> 0 < l11 -> 0 < l20 -> 0 < l21 ->
  pair_reduction (rectangle_set c1 a10 a11 l10 l11) (rectangle_set c2 a20 a21 l20 l21)
                 (on_rect_edge c1 a10 a11 (/ 2 * l10) (/ 2 * l11)) (on_rect_edge c2 a20 a21 (/ 2 * l20) (/ 2 * l21)).
Proof.
  intros H1 H2 L0 L1 L2 L3.
  apply (pair_reduce_gen _ _ _ _ (rect_cs (/ 2 * l10) (/ 2 * l11)) (rect_cs (/ 2 * l20) (/ 2 * l21)) c1 a10 a11 c2 a20 a21); auto.
  - apply rect_cs_bounded.
  - intros x. apply rectangle_set_cs.
  - intros x. apply rectangle_set_cs.
  - intros s r. apply rect_boundary_edge; lra.
  - intros s r. apply rect_boundary_edge; lra.
Qed.

(** *** the loops compute lower bounds of their candidates *)
Lemma scan_min (brk : R3R -> R3R -> R3R -> bool) (K : R) (cands : list R3R) (best : R3R) :
  (forall c old new, brk c old new = true -> rd c <= K) ->
  K < rd (scan brk cands best) -> forall c, In c cands -> rd (scan brk cands best) <= rd c.
Proof.
  intros Hbrk. revert best. induction cands as [|c cs IH]; intros best HK x Hx; [destruct Hx|].
  cbn [scan] in *. ops_R.
  set (best' := if Rltb (rd c) (rd best) then c else best) in *.
  assert (Hb' : rd best' <= rd c /\ rd best' <= rd best).
  { unfold best'. destruct (Rltb (rd c) (rd best)) eqn:E; rb_hyp E; lra. }
  destruct (brk c best best') eqn:Eb.
  - apply Hbrk in Eb. lra.
  - destruct Hx as [<-|Hx].
    + pose proof (scan_le_best brk cs best'). lra.
    + apply IH; assumption.
Qed.

Lemma fold_scan_min {S : Type} (brk : R3R -> R3R -> R3R -> bool) (K : R) (f : S -> R3R) (ll : list (list S)) best :
  (forall c old new, brk c old new = true -> rd c <= K) ->
  K < rd (fold_left (fun b segs => scan brk (map f segs) b) ll best) ->
  forall l x, In l ll -> In x l -> rd (fold_left (fun b segs => scan brk (map f segs) b) ll best) <= rd (f x).
Proof.
  intros Hbrk. revert best. induction ll as [|l0 ll IH]; intros best HK l x Hl Hx; [destruct Hl|].
  cbn [fold_left] in *. destruct Hl as [<-|Hl].
  - pose proof (fold_scan_le_best brk f ll (scan brk (map f l0) best)) as H1.
    pose proof (scan_min brk K (map f l0) best Hbrk ltac:(lra) (f x) (in_map f l0 x Hx)). lra.
  - eapply IH; eauto.
Qed.

Lemma scan_ret_le (eps : R) (cands : list R3R) (best r : R3R) (fl : bool) :
  scan_ret eps cands best = (r, fl) ->
  (fl = true /\ rd r = 0) \/ (fl = false /\ rd r <= rd best /\ forall c, In c cands -> rd r <= rd c).
Proof.
  revert best. induction cands as [|c cs IH]; intros best; cbn [scan_ret].
  - intros H. apply pair_equal_spec in H. destruct H as [<- <-]. right. split; [reflexivity|]. split; [lra|]. intros c [].
  - ops_R. destruct (Rltb (rd c) (rd best)) eqn:E; rb_hyp E.
    + destruct (Rleb (rd c) eps) eqn:E2; rb_hyp E2.
      * intros H. apply pair_equal_spec in H. destruct H as [<- <-]. left. split; reflexivity.
      * intros H. apply IH in H. destruct H as [H|(Hf & Hb & Hc)]; [left; exact H|].
        right. split; [exact Hf|]. split; [lra|]. intros x [<-|Hx]; [exact Hb|auto].
    + intros H. apply IH in H. destruct H as [H|(Hf & Hb & Hc)]; [left; exact H|].
      right. split; [exact Hf|]. split; [exact Hb|]. intros x [<-|Hx]; [lra|auto].
Qed.

Lemma rd_rswap (r : R3R) : rd (rswap r) = rd r.
Proof. destruct r as [[d p1] p2]. reflexivity. Qed.

Lemma optimal_sym (A B : set3) (d : R) : optimal A B d -> optimal B A d.
Proof. intros H x y Hx Hy. rewrite norm_sub_comm. apply H; assumption. Qed.

Lemma optimal_zero (A B : set3) : optimal A B 0.
Proof. intros x y _ _. apply norm_nonneg. Qed.

(** *** the candidates *)
(** the band exclusion of _line_to_triangle / _line_intersects_rectangle for the direction that
    convert_segment_to_line computes for the edge [se] *)
Definition edge_band (nrm : V3R) (eps : R) (se : V3R * V3R) : Prop :=
  let sd := fst (convert_segment_to_line (fst se) (snd se)) in dot nrm sd = 0 \/ eps < Rabs (dot nrm sd).

Lemma lstt_opt (s e a b c : V3R) (eps : R) :
  s <> e -> 0 < eps < 1 -> cross (vsub b a) (vsub c a) <> vzero ->
  eps <= dot (vsub b a) (vsub b a) -> eps <= dot (vsub c b) (vsub c b) -> eps <= dot (vsub a c) (vsub a c) ->
  edge_band (Support.norm_vector (cross (vsub b a) (vsub c a))) eps (s, e) ->
  optimal (segment_set s e) (triangle_set a b c) (rd (line_segment_to_triangle s e a b c eps)).
Proof.
  intros Hne He Hnd L1 L2 L3 Hband.
  destruct (line_segment_to_triangle s e a b c eps) as [[d p1] p2] eqn:E. unfold rd. cbn [fst].
  exact (line_segment_to_triangle_optimal _ _ _ _ _ _ _ _ _ Hne He Hnd L1 L2 L3 Hband E).
Qed.

Lemma lstr_opt (s e c a0 a1 : V3R) (l0 l1 eps : R) :
  s <> e -> 0 < eps < 1 -> dot a0 a0 = 1 -> dot a1 a1 = 1 -> dot a0 a1 = 0 ->
  0 <= l0 -> 0 <= l1 -> eps <= l0 * l0 -> eps <= l1 * l1 ->
  edge_band (cross a0 a1) eps (s, e) ->
  rd (line_segment_to_rectangle s e c a0 a1 l0 l1 eps) = 0 \/ eps <= rd (line_segment_to_rectangle s e c a0 a1 l0 l1 eps) ->
  optimal (segment_set s e) (rectangle_set c a0 a1 l0 l1) (rd (line_segment_to_rectangle s e c a0 a1 l0 l1 eps)).
Proof.
  intros Hne He U0 U1 U01 H0 H1 L0 L1 Hband.
  destruct (line_segment_to_rectangle s e c a0 a1 l0 l1 eps) as [[d p1] p2] eqn:E. unfold rd. cbn [fst]. intros Hd.
  exact (line_segment_to_rectangle_optimal _ _ _ _ _ _ _ _ _ _ _ Hne He U0 U1 U01 H0 H1 L0 L1 Hband E Hd).
Qed.

Lemma norm_unit (a : V3R) : dot a a = 1 -> norm a = 1.
Proof. intros H. rewrite (norm_abs_of_sq a 1); [apply Rabs_R1|lra]. Qed.

(** the direction that convert_segment_to_line computes for a rectangle edge is the other axis *)
Lemma rect_edge_dir (c a0 a1 : V3R) (l0 l1 : R) (l : list (V3R * V3R)) (se : V3R * V3R) :
  0 < l0 -> 0 < l1 -> dot a0 a0 = 1 -> dot a1 a1 = 1 ->
  In l (rectangle_edges c (vscale (/ 2 * l0) a0) (vscale (/ 2 * l1) a1)) -> In se l ->
  fst (convert_segment_to_line (fst se) (snd se)) = a0 \/ fst (convert_segment_to_line (fst se) (snd se)) = a1.
Proof.
  intros H0 H1 U0 U1.
  assert (K : forall (m a : V3R) (len : R), 0 < len -> dot a a = 1 ->
            fst (convert_segment_to_line (vsub m (vscale (/ 2 * len) a)) (vadd m (vscale (/ 2 * len) a))) = a).
  { intros m a len Hl Ha. unfold convert_segment_to_line.
    replace (vsub (vadd m (vscale (/ 2 * len) a)) (vsub m (vscale (/ 2 * len) a))) with (vscale len a) by veq.
    rewrite norm_scale, (norm_unit a Ha), Rabs_pos_eq by lra. ops_R.
    rewrite (proj2 (Rltb_true 0 (len * 1))) by lra. cbn [fst]. clear - Hl. veq; lra. }
  unfold rectangle_edges, rectangle_segment. cbn [map].
  intros [<- | [<- | []]] [<- | [<- | []]]; cbn [fst snd]; [right|right|left|left]; apply K; assumption.
Qed.

Lemma edge_band_dir (nrm : V3R) (eps : R) (se : V3R * V3R) (a0 a1 : V3R) :
  fst (convert_segment_to_line (fst se) (snd se)) = a0 \/ fst (convert_segment_to_line (fst se) (snd se)) = a1 ->
  (dot nrm a0 = 0 \/ eps < Rabs (dot nrm a0)) -> (dot nrm a1 = 0 \/ eps < Rabs (dot nrm a1)) ->
  edge_band nrm eps se.
Proof. unfold edge_band. cbv zeta. intros [->| ->] B0 B1; assumption. Qed.

Lemma cross_unit (a0 a1 : V3R) : dot a0 a0 = 1 -> dot a1 a1 = 1 -> dot a0 a1 = 0 -> cross a0 a1 <> vzero.
Proof. intros U0 U1 U01. apply unit_nonzero. rewrite dot_cross_cross, U0, U1, U01. ring. Qed.

(** *** triangle_to_triangle: the early exit returns 0 (trivially a lower bound); otherwise the result
        is the minimum of the six (edge, triangle) candidates *)
Theorem triangle_to_triangle_optimal (a1 b1 c1 a2 b2 c2 : V3R) (eps : R) d p1 p2 :
  cross (vsub b1 a1) (vsub c1 a1) <> vzero -> cross (vsub b2 a2) (vsub c2 a2) <> vzero -> 0 < eps < 1 ->
  eps <= dot (vsub b1 a1) (vsub b1 a1) -> eps <= dot (vsub c1 b1) (vsub c1 b1) -> eps <= dot (vsub a1 c1) (vsub a1 c1) ->
  eps <= dot (vsub b2 a2) (vsub b2 a2) -> eps <= dot (vsub c2 b2) (vsub c2 b2) -> eps <= dot (vsub a2 c2) (vsub a2 c2) ->
  (forall se, In se (tri_edges a1 b1 c1) -> edge_band (Support.norm_vector (cross (vsub b2 a2) (vsub c2 a2))) eps se) ->
  (forall se, In se (tri_edges a2 b2 c2) -> edge_band (Support.norm_vector (cross (vsub b1 a1) (vsub c1 a1))) eps se) ->
  triangle_to_triangle a1 b1 c1 a2 b2 c2 eps = (d, p1, p2) ->
  optimal (triangle_set a1 b1 c1) (triangle_set a2 b2 c2) d.
Proof.
  intros Hn1 Hn2 He K1 K2 K3 M1 M2 M3 B1 B2. unfold triangle_to_triangle.
  destruct (scan_ret eps _ init_best) as [best ret] eqn:E1. apply scan_ret_le in E1.
  destruct ret.
  - intros ->. destruct E1 as [[_ Z]|[Hf _]]; [|discriminate]. unfold rd in Z. cbn [fst] in Z. subst d. apply optimal_zero.
  - destruct (scan_ret eps _ best) as [best2 ret2] eqn:E2. cbn [fst]. intros ->. apply scan_ret_le in E2.
    change (rd (d, p1, p2)) with d in E2.
    destruct E2 as [[_ Z]|(_ & Hb & Hc2)]; [subst d; apply optimal_zero|].
    destruct E1 as [[Hf _]|(_ & _ & Hc1)]; [discriminate|].
    apply (pair_reduction_optimal _ _ (on_tri_edge a1 b1 c1) (on_tri_edge a2 b2 c2)); [apply tri_tri_reduction; assumption| |].
    + intros x y (se & Hin & Hx) Hy.
      pose proof (Hc1 _ (in_map (fun se => line_segment_to_triangle (fst se) (snd se) a2 b2 c2 eps) _ se Hin)) as Hle.
      cbv beta in Hle.
      assert (Hne : fst se <> snd se) by (eapply tri_edges_nondeg; [|exact Hin]; assumption).
      pose proof (lstt_opt (fst se) (snd se) a2 b2 c2 eps Hne He Hn2 M1 M2 M3) as Hopt.
      specialize (Hopt ltac:(destruct se; apply B1; exact Hin) x y Hx Hy). lra.
    + intros x y Hx (se & Hin & Hy).
      pose proof (Hc2 _ (in_map (fun se => rswap (line_segment_to_triangle (fst se) (snd se) a1 b1 c1 eps)) _ se Hin)) as Hle.
      cbv beta in Hle. rewrite rd_rswap in Hle.
      assert (Hne : fst se <> snd se) by (eapply tri_edges_nondeg; [|exact Hin]; assumption).
      pose proof (lstt_opt (fst se) (snd se) a1 b1 c1 eps Hne He Hn1 K1 K2 K3) as Hopt.
      specialize (Hopt ltac:(destruct se; apply B2; exact Hin) y x Hy Hx). rewrite norm_sub_comm. lra.
Qed.

(** a family of (rectangle edge, B) candidates bounds every (point on a rectangle edge, point of B) pair *)
Lemma rect_edge_family (c a0 a1 : V3R) (l0 l1 : R) (B : set3) (g : V3R * V3R -> R) (d : R) :
  (forall l se, In l (rectangle_edges c (vscale (/ 2 * l0) a0) (vscale (/ 2 * l1) a1)) -> In se l ->
     d <= g se /\ optimal (segment_set (fst se) (snd se)) B (g se)) ->
  forall x y, on_rect_edge c a0 a1 (/ 2 * l0) (/ 2 * l1) x -> B y -> d <= norm (vsub x y).
Proof.
  intros H x y (l & se & Hl & Hin & Hx) Hy. destruct (H l se Hl Hin) as [Hle Hopt].
  pose proof (Hopt x y Hx Hy). lra.
Qed.

Lemma tri_edge_family (a b c : V3R) (B : set3) (g : V3R * V3R -> R) (d : R) :
  (forall se, In se (tri_edges a b c) -> d <= g se /\ optimal (segment_set (fst se) (snd se)) B (g se)) ->
  forall x y, on_tri_edge a b c x -> B y -> d <= norm (vsub x y).
Proof.
  intros H x y (se & Hin & Hx) Hy. destruct (H se Hin) as [Hle Hopt].
  pose proof (Hopt x y Hx Hy). lra.
Qed.

(** *** triangle_to_rectangle (callees with eps = 1e-6, no early exit): minimum of the seven candidates.
        The `break` band of _line_to_rectangle is excluded on the returned distance: if it is at least
        1e-6, so is every candidate *)
Theorem triangle_to_rectangle_optimal (a b c rc a0 a1 : V3R) (l0 l1 : R) d p1 p2 :
  cross (vsub b a) (vsub c a) <> vzero ->
  eps6 <= dot (vsub b a) (vsub b a) -> eps6 <= dot (vsub c b) (vsub c b) -> eps6 <= dot (vsub a c) (vsub a c) ->
  dot a0 a0 = 1 -> dot a1 a1 = 1 -> dot a0 a1 = 0 ->
  0 <= l0 -> 0 <= l1 -> eps6 <= l0 * l0 -> eps6 <= l1 * l1 ->
  (forall se, In se (tri_edges a b c) -> edge_band (cross a0 a1) eps6 se) ->
  (let nrm := Support.norm_vector (cross (vsub b a) (vsub c a)) in
   (dot nrm a0 = 0 \/ eps6 < Rabs (dot nrm a0)) /\ (dot nrm a1 = 0 \/ eps6 < Rabs (dot nrm a1))) ->
  triangle_to_rectangle a b c rc a0 a1 l0 l1 = (d, p1, p2) ->
  d = 0 \/ eps6 <= d ->
  optimal (triangle_set a b c) (rectangle_set rc a0 a1 l0 l1) d.
Proof.
  intros Hnd K1 K2 K3 U0 U1 U01 H0 H1 L0 L1 B1 [B20 B21].
  pose proof eps6_pos as H6p. pose proof eps6_lt_1 as H6l.
  assert (P0 : 0 < l0) by nra. assert (P1 : 0 < l1) by nra.
  unfold triangle_to_rectangle. rewrite half_eq, half_R. cbv zeta. ops_R.
  intros E [->|Hd]; [apply optimal_zero|].
  match type of E with scan _ ?c2 (scan _ ?c1 _) = _ => set (cands1 := c1) in *; set (cands2 := c2) in * end.
  assert (Hnb : forall c old new : R3R, no_break c old new = true -> rd c <= d - 1) by (intros; discriminate).
  assert (Hd2 : forall x, In x cands2 -> d <= rd x).
  { intros x Hx. pose proof (scan_min no_break (d - 1) cands2 (scan no_break cands1 init_best) Hnb) as H.
    rewrite E in H. change (rd (d, p1, p2)) with d in H. apply H; [lra|exact Hx]. }
  assert (Hd1 : forall x, In x cands1 -> d <= rd x).
  { intros x Hx. pose proof (scan_le_best no_break cands2 (scan no_break cands1 init_best)) as Hle.
    rewrite E in Hle. change (rd (d, p1, p2)) with d in Hle.
    assert (Hlt : d - 1 < rd (scan no_break cands1 init_best)) by lra.
    pose proof (scan_min no_break (d - 1) cands1 init_best Hnb Hlt x Hx). lra. }
  apply (pair_reduction_optimal _ _ (on_tri_edge a b c) (on_rect_edge rc a0 a1 (/ 2 * l0) (/ 2 * l1))).
  - apply tri_rect_reduction; auto. apply cross_unit; assumption.
  - apply (tri_edge_family a b c _ (fun se => rd (line_segment_to_rectangle (fst se) (snd se) rc a0 a1 l0 l1 eps6))).
    intros se Hin.
    assert (Hle : d <= rd (line_segment_to_rectangle (fst se) (snd se) rc a0 a1 l0 l1 eps6)).
    { apply Hd1. unfold cands1. apply (in_map (fun se => line_segment_to_rectangle (fst se) (snd se) rc a0 a1 l0 l1 eps6)). exact Hin. }
    split; [exact Hle|].
    apply lstr_opt; auto; try lra.
    + eapply tri_edges_nondeg; [|exact Hin]; assumption.
    + destruct se; apply B1; exact Hin.
  - intros x y Hx Hy. rewrite norm_sub_comm. revert y x Hy Hx.
    apply (rect_edge_family rc a0 a1 l0 l1 _ (fun se => rd (line_segment_to_triangle (fst se) (snd se) a b c eps6))).
    intros l se Hl Hin.
    assert (Hle : d <= rd (line_segment_to_triangle (fst se) (snd se) a b c eps6)).
    { rewrite <- rd_rswap. apply Hd2. unfold cands2.
      apply (in_map (fun se => rswap (line_segment_to_triangle (fst se) (snd se) a b c eps6))).
      apply in_concat. exists l. split; assumption. }
    split; [exact Hle|].
    apply lstt_opt; auto; try lra.
    + apply (rect_edges_nondeg rc a0 a1 l0 l1 l se); auto; try (apply unit_nonzero; assumption).
      rewrite half_R. exact Hl.
    + apply (edge_band_dir _ _ (fst se, snd se) a0 a1); auto. cbn [fst snd].
      apply (rect_edge_dir rc a0 a1 l0 l1 l se); auto.
Qed.

(** *** rectangle_to_rectangle: `if dist <= epsilon: break` leaves the inner loop, so the result is the
        minimum of the eight candidates only if it is above [eps]; the callees run with 1e-6 *)
Theorem rectangle_to_rectangle_optimal (c1 a10 a11 : V3R) (l10 l11 : R) (c2 a20 a21 : V3R) (l20 l21 eps : R) d p1 p2 :
  dot a10 a10 = 1 -> dot a11 a11 = 1 -> dot a10 a11 = 0 ->
  dot a20 a20 = 1 -> dot a21 a21 = 1 -> dot a20 a21 = 0 ->
  0 <= l10 -> 0 <= l11 -> 0 <= l20 -> 0 <= l21 ->
  eps6 <= l10 * l10 -> eps6 <= l11 * l11 -> eps6 <= l20 * l20 -> eps6 <= l21 * l21 ->
  (let n2 := cross a20 a21 in
   (dot n2 a10 = 0 \/ eps6 < Rabs (dot n2 a10)) /\ (dot n2 a11 = 0 \/ eps6 < Rabs (dot n2 a11))) ->
  (let n1 := cross a10 a11 in
   (dot n1 a20 = 0 \/ eps6 < Rabs (dot n1 a20)) /\ (dot n1 a21 = 0 \/ eps6 < Rabs (dot n1 a21))) ->
  rectangle_to_rectangle c1 a10 a11 l10 l11 c2 a20 a21 l20 l21 eps = (d, p1, p2) ->
  d = 0 \/ (eps < d /\ eps6 <= d) ->
  optimal (rectangle_set c1 a10 a11 l10 l11) (rectangle_set c2 a20 a21 l20 l21) d.
Proof.
  intros U10 U11 U1 U20 U21 U2 H10 H11 H20 H21 L10 L11 L20 L21 [B10 B11] [B20 B21].
  pose proof eps6_pos as H6p. pose proof eps6_lt_1 as H6l.
  assert (P10 : 0 < l10) by nra. assert (P11 : 0 < l11) by nra.
  assert (P20 : 0 < l20) by nra. assert (P21 : 0 < l21) by nra.
  unfold rectangle_to_rectangle. rewrite half_eq, half_R. cbv zeta. ops_R.
  intros E [->|[Hd Hd6]]; [apply optimal_zero|].
  match type of E with
  | fold_left (fun best segs => scan ?brk (map ?f2 segs) best) ?ll2
      (fold_left (fun best' segs' => scan _ (map ?f1 segs') best') ?ll1 _) = _ =>
    set (pass1 := fold_left (fun best segs => scan brk (map f1 segs) best) ll1 init_best) in *;
    pose proof (fold_scan_min brk eps f2 ll2 pass1) as M2;
    pose proof (fold_scan_le_best brk f2 ll2 pass1) as Le2;
    pose proof (fold_scan_min brk eps f1 ll1 init_best) as M1
  end.
  assert (Hbrk : forall c old new : R3R, Rleb (rd c) eps = true -> rd c <= eps) by (intros c _ _ Hc; rb_hyp Hc; exact Hc).
  specialize (M2 Hbrk). specialize (M1 Hbrk). fold pass1 in M1.
  rewrite E in M2, Le2. change (rd (d, p1, p2)) with d in M2, Le2.
  specialize (M2 Hd). assert (Hlt : eps < rd pass1) by lra. specialize (M1 Hlt). cbv beta in M1, M2.
  apply (pair_reduction_optimal _ _ (on_rect_edge c1 a10 a11 (/ 2 * l10) (/ 2 * l11))
                                    (on_rect_edge c2 a20 a21 (/ 2 * l20) (/ 2 * l21))).
  - apply rect_rect_reduction; auto; apply cross_unit; assumption.
  - apply (rect_edge_family c1 a10 a11 l10 l11 _
             (fun se => rd (line_segment_to_rectangle (fst se) (snd se) c2 a20 a21 l20 l21 eps6))).
    intros l se Hl Hin.
    assert (Hle : d <= rd (line_segment_to_rectangle (fst se) (snd se) c2 a20 a21 l20 l21 eps6)).
    { pose proof (M1 l se Hl Hin). lra. }
    split; [exact Hle|].
    apply lstr_opt; auto; try lra.
    + apply (rect_edges_nondeg c1 a10 a11 l10 l11 l se); auto; try (apply unit_nonzero; assumption).
      rewrite half_R. exact Hl.
    + apply (edge_band_dir _ _ (fst se, snd se) a10 a11); auto. cbn [fst snd].
      apply (rect_edge_dir c1 a10 a11 l10 l11 l se); auto.
  - intros x y Hx Hy. rewrite norm_sub_comm. revert y x Hy Hx.
    apply (rect_edge_family c2 a20 a21 l20 l21 _
             (fun se => rd (line_segment_to_rectangle (fst se) (snd se) c1 a10 a11 l10 l11 eps6))).
    intros l se Hl Hin.
    assert (Hle : d <= rd (line_segment_to_rectangle (fst se) (snd se) c1 a10 a11 l10 l11 eps6)).
    { rewrite <- rd_rswap. apply (M2 l se Hl Hin). }
    split; [exact Hle|].
    apply lstr_opt; auto; try lra.
    + apply (rect_edges_nondeg c2 a20 a21 l20 l21 l se); auto; try (apply unit_nonzero; assumption).
      rewrite half_R. exact Hl.
    + apply (edge_band_dir _ _ (fst se, snd se) a20 a21); auto. cbn [fst snd].
      apply (rect_edge_dir c2 a20 a21 l20 l21 l se); auto.
Qed.

(** *** the hypotheses of the three polygon theorems are satisfiable *)
(** the band test for a direction known only up to its (irrational) length *)
Lemma band_of_bound (w a : V3R) (n eps B : R) :
  0 < n -> n <= B -> 0 <= eps ->
  dot w a = 0 \/ eps * B < Rabs (dot w a) ->
  dot (vdivs w n) a = 0 \/ eps < Rabs (dot (vdivs w n) a).
Proof.
  intros Hn HB He [Z|H]; rewrite dot_vdivs_l by lra.
  - left. rewrite Z. unfold Rdiv. ring.
  - right. unfold Rdiv. rewrite Rabs_mult, (Rabs_pos_eq (/ n)) by (left; apply Rinv_0_lt_compat; exact Hn).
    apply (Rmult_lt_reg_r n); [exact Hn|]. rewrite Rmult_assoc, Rinv_l by lra. nra.
Qed.

Lemma norm_bound (a : V3R) (B : R) : a <> vzero -> 0 <= B -> dot a a <= B * B -> 0 < norm a <= B.
Proof.
  intros Ha HB H. split; [|apply norm_le_sq; assumption].
  pose proof (norm_nonneg a). destruct (Req_dec (norm a) 0) as [Z|Z]; [|lra].
  exfalso. apply Ha. apply norm_zero_iff. exact Z.
Qed.

Lemma edge_band_intro (nrm s e : V3R) (eps B : R) :
  s <> e -> 0 <= eps -> 0 <= B -> dot (vsub e s) (vsub e s) <= B * B ->
  dot nrm (vsub e s) = 0 \/ eps * B < Rabs (dot nrm (vsub e s)) ->
  edge_band nrm eps (s, e).
Proof.
  intros Hne He HB Hd H. unfold edge_band. cbn [fst snd]. cbv zeta. unfold convert_segment_to_line.
  assert (Hnz : vsub e s <> vzero) by (intros Z; apply Hne; symmetry; apply vsub_eq_zero; exact Z).
  destruct (norm_bound _ B Hnz HB Hd) as [Hp Hle]. ops_R.
  rewrite (proj2 (Rltb_true 0 (norm (vsub e s)))) by exact Hp. cbn [fst].
  rewrite !(dot_comm nrm). apply (band_of_bound _ _ _ _ B); auto. rewrite !(dot_comm _ nrm). exact H.
Qed.

Lemma norm_vector_band_intro (w a : V3R) (eps B : R) :
  w <> vzero -> 0 <= eps -> 0 <= B -> dot w w <= B * B ->
  dot w a = 0 \/ eps * B < Rabs (dot w a) ->
  dot (Support.norm_vector w) a = 0 \/ eps < Rabs (dot (Support.norm_vector w) a).
Proof.
  intros Hw He HB Hd H. destruct (norm_bound w B Hw HB Hd) as [Hp Hle].
  unfold Support.norm_vector. ops_R. rewrite (proj2 (Reqb_false (norm w) 0)) by lra.
  apply (band_of_bound _ _ _ _ B); auto.
Qed.

Lemma eps6_small : eps6 (O:=ROps) < 1 / 100.
Proof. unfold eps6. cbn [cst div ROps]. unfold Q2R. simpl. lra. Qed.

Definition wt_a1 : V3R := V (1 / 4) (1 / 4) 1.
Definition wt_b1 : V3R := V (1 / 4) (1 / 4) (-1).
Definition wt_c1 : V3R := V (5 / 4) (1 / 4) 1.

Ltac vne := let E := fresh in intros E; injection E; intros; lra.

Example triangle_to_triangle_optimal_nonvacuous :
  exists a1 b1 c1 a2 b2 c2 eps d p1 p2,
    cross (vsub b1 a1) (vsub c1 a1) <> vzero /\ cross (vsub b2 a2) (vsub c2 a2) <> vzero /\ 0 < eps < 1 /\
    eps <= dot (vsub b1 a1) (vsub b1 a1) /\ eps <= dot (vsub c1 b1) (vsub c1 b1) /\ eps <= dot (vsub a1 c1) (vsub a1 c1) /\
    eps <= dot (vsub b2 a2) (vsub b2 a2) /\ eps <= dot (vsub c2 b2) (vsub c2 b2) /\ eps <= dot (vsub a2 c2) (vsub a2 c2) /\
    (forall se, In se (tri_edges a1 b1 c1) -> edge_band (Support.norm_vector (cross (vsub b2 a2) (vsub c2 a2))) eps se) /\
    (forall se, In se (tri_edges a2 b2 c2) -> edge_band (Support.norm_vector (cross (vsub b1 a1) (vsub c1 a1))) eps se) /\
    triangle_to_triangle a1 b1 c1 a2 b2 c2 eps = (d, p1, p2) /\
    optimal (triangle_set a1 b1 c1) (triangle_set a2 b2 c2) d.
Proof.
  destruct (triangle_to_triangle wt_a1 wt_b1 wt_c1 wit_a wit_b wit_c eps6) as [[d p1] p2] eqn:E.
  exists wt_a1, wt_b1, wt_c1, wit_a, wit_b, wit_c, eps6, d, p1, p2.
  pose proof eps6_pos as H6p. pose proof eps6_lt_1 as H6l. pose proof eps6_small as H6s.
  assert (Hn1 : cross (vsub wt_b1 wt_a1) (vsub wt_c1 wt_a1) <> vzero).
  { unfold wt_a1, wt_b1, wt_c1. vunfold. intros Z. injection Z as _ Z _. lra. }
  assert (H6 : 0 < eps6 (O:=ROps) < 1) by lra.
  assert (K1 : eps6 <= dot (vsub wt_b1 wt_a1) (vsub wt_b1 wt_a1)) by (unfold wt_a1, wt_b1; vunfold; lra).
  assert (K2 : eps6 <= dot (vsub wt_c1 wt_b1) (vsub wt_c1 wt_b1)) by (unfold wt_c1, wt_b1; vunfold; lra).
  assert (K3 : eps6 <= dot (vsub wt_a1 wt_c1) (vsub wt_a1 wt_c1)) by (unfold wt_a1, wt_c1; vunfold; lra).
  destruct wit_tri_edges as (M1 & M2 & M3).
  assert (B1 : forall se, In se (tri_edges wt_a1 wt_b1 wt_c1) ->
               edge_band (Support.norm_vector (cross (vsub wit_b wit_a) (vsub wit_c wit_a))) eps6 se).
  { rewrite wit_nrm. intros se [<-|[<-|[<-|[]]]].
    - apply (edge_band_intro _ _ _ _ 1); [unfold wt_a1, wt_c1; vne|lra|lra|unfold wt_a1, wt_c1; vunfold; lra|].
      left. unfold wt_a1, wt_c1. vunfold. ring.
    - apply (edge_band_intro _ _ _ _ 2); [unfold wt_a1, wt_b1; vne|lra|lra|unfold wt_a1, wt_b1; vunfold; lra|].
      right. replace (dot (V 0 0 1) (vsub wt_b1 wt_a1)) with (-2) by (unfold wt_a1, wt_b1; vunfold; ring).
      rewrite Rabs_left; lra.
    - apply (edge_band_intro _ _ _ _ 3); [unfold wt_c1, wt_b1; vne|lra|lra|unfold wt_c1, wt_b1; vunfold; lra|].
      right. replace (dot (V 0 0 1) (vsub wt_c1 wt_b1)) with 2 by (unfold wt_c1, wt_b1; vunfold; ring).
      rewrite Rabs_pos_eq; lra. }
  assert (Hw : cross (vsub wt_b1 wt_a1) (vsub wt_c1 wt_a1) = V 0 (-2) 0) by (unfold wt_a1, wt_b1, wt_c1; veq).
  assert (Hnrm : Support.norm_vector (cross (vsub wt_b1 wt_a1) (vsub wt_c1 wt_a1)) = V 0 (-1) 0).
  { rewrite Hw. unfold Support.norm_vector.
    rewrite (norm_abs_of_sq (V 0 (-2) 0) 2) by (vunfold; ring). rewrite Rabs_pos_eq by lra. ops_R.
    rewrite (proj2 (Reqb_false 2 0)) by lra. vunfold. f_equal; field. }
  assert (B2 : forall se, In se (tri_edges wit_a wit_b wit_c) ->
               edge_band (Support.norm_vector (cross (vsub wt_b1 wt_a1) (vsub wt_c1 wt_a1))) eps6 se).
  { rewrite Hnrm. intros se [<-|[<-|[<-|[]]]].
    - apply (edge_band_intro _ _ _ _ 1); [unfold wit_a, wit_c; vne|lra|lra|unfold wit_a, wit_c; vunfold; lra|].
      right. replace (dot (V 0 (-1) 0) (vsub wit_a wit_c)) with 1 by (unfold wit_a, wit_c; vunfold; ring).
      rewrite Rabs_R1. lra.
    - apply (edge_band_intro _ _ _ _ 1); [unfold wit_a, wit_b; vne|lra|lra|unfold wit_a, wit_b; vunfold; lra|].
      left. unfold wit_a, wit_b. vunfold. ring.
    - apply (edge_band_intro _ _ _ _ 2); [unfold wit_c, wit_b; vne|lra|lra|unfold wit_c, wit_b; vunfold; lra|].
      right. replace (dot (V 0 (-1) 0) (vsub wit_c wit_b)) with (-1) by (unfold wit_c, wit_b; vunfold; ring).
      rewrite Rabs_left; lra. }
  pose proof wit_tri_nondeg as Hn2.
  repeat (split; [assumption|]).
  exact (triangle_to_triangle_optimal _ _ _ _ _ _ _ _ _ _ Hn1 Hn2 H6 K1 K2 K3 M1 M2 M3 B1 B2 E).
Qed.

(** the witnesses of [Proofs/DistComb.v]: the first candidate is 0, so the result is 0 *)
Example triangle_to_rectangle_optimal_nonvacuous :
  exists a b c rc a0 a1 l0 l1 d p1 p2,
    cross (vsub b a) (vsub c a) <> vzero /\
    eps6 <= dot (vsub b a) (vsub b a) /\ eps6 <= dot (vsub c b) (vsub c b) /\ eps6 <= dot (vsub a c) (vsub a c) /\
    dot a0 a0 = 1 /\ dot a1 a1 = 1 /\ dot a0 a1 = 0 /\
    0 <= l0 /\ 0 <= l1 /\ eps6 <= l0 * l0 /\ eps6 <= l1 * l1 /\
    (forall se, In se (tri_edges a b c) -> edge_band (cross a0 a1) eps6 se) /\
    (let nrm := Support.norm_vector (cross (vsub b a) (vsub c a)) in
     (dot nrm a0 = 0 \/ eps6 < Rabs (dot nrm a0)) /\ (dot nrm a1 = 0 \/ eps6 < Rabs (dot nrm a1))) /\
    triangle_to_rectangle a b c rc a0 a1 l0 l1 = (d, p1, p2) /\ (d = 0 \/ eps6 <= d) /\
    optimal (triangle_set a b c) (rectangle_set rc a0 a1 l0 l1) d.
Proof.
  destruct (triangle_to_rectangle (wit_lp 1) wit_b1 (wit_lp (-1)) wit_rc wit_a0 wit_a1 2 2) as [[d p1] p2] eqn:HT.
  assert (Hd : d <= 0).
  { change d with (rd (d, p1, p2)). rewrite <- HT. unfold triangle_to_rectangle, tri_edges. cbn [map fst snd].
    eapply Rle_trans; [apply scan_le_best|]. eapply Rle_trans; [apply scan_le_first|].
    destruct line_segment_to_rectangle_wit as (q1 & q2 & ->). unfold rd. cbn [fst]. lra. }
  assert (Hnd : cross (vsub wit_b1 (wit_lp 1)) (vsub (wit_lp (-1)) (wit_lp 1)) <> vzero).
  { unfold wit_b1, wit_lp. vunfold. intros E. injection E as E _ _. lra. }
  pose proof max_float_gt_1 as HM. pose proof wit_a0_nz as A0. pose proof wit_a1_nz as A1.
  pose proof eps6_pos as H6p. pose proof eps6_lt_1 as H6l. pose proof eps6_small as H6s.
  assert (H2 : 0 < 2) by lra.
  assert (Hd0 : d = 0).
  { destruct (triangle_to_rectangle_feasible _ _ _ _ _ _ _ _ _ _ _ Hnd A0 A1 H2 H2 HT ltac:(lra)) as (_ & _ & Hp & _). lra. }
  exists (wit_lp 1), wit_b1, (wit_lp (-1)), wit_rc, wit_a0, wit_a1, 2, 2, d, p1, p2.
  assert (K1 : eps6 <= dot (vsub wit_b1 (wit_lp 1)) (vsub wit_b1 (wit_lp 1))) by (unfold wit_b1, wit_lp; vunfold; lra).
  assert (K2 : eps6 <= dot (vsub (wit_lp (-1)) wit_b1) (vsub (wit_lp (-1)) wit_b1)) by (unfold wit_b1, wit_lp; vunfold; lra).
  assert (K3 : eps6 <= dot (vsub (wit_lp 1) (wit_lp (-1))) (vsub (wit_lp 1) (wit_lp (-1)))) by (unfold wit_lp; vunfold; lra).
  assert (U0 : dot wit_a0 wit_a0 = 1) by (unfold wit_a0; vunfold; ring).
  assert (U1 : dot wit_a1 wit_a1 = 1) by (unfold wit_a1; vunfold; ring).
  assert (U01 : dot wit_a0 wit_a1 = 0) by (unfold wit_a0, wit_a1; vunfold; ring).
  assert (P2 : 0 <= 2) by lra. assert (L : eps6 (O:=ROps) <= 2 * 2) by lra.
  assert (B1 : forall se, In se (tri_edges (wit_lp 1) wit_b1 (wit_lp (-1))) -> edge_band (cross wit_a0 wit_a1) eps6 se).
  { replace (cross wit_a0 wit_a1) with (V 0 0 1 : V3R) by (unfold wit_a0, wit_a1; veq).
    intros se [<-|[<-|[<-|[]]]].
    - apply (edge_band_intro _ _ _ _ 2); [unfold wit_lp; vne|lra|lra|unfold wit_lp; vunfold; lra|].
      right. replace (dot (V 0 0 1) (vsub (wit_lp 1) (wit_lp (-1)))) with 2 by (unfold wit_lp; vunfold; ring).
      rewrite Rabs_pos_eq; lra.
    - apply (edge_band_intro _ _ _ _ 5); [unfold wit_lp, wit_b1; vne|lra|lra|unfold wit_lp, wit_b1; vunfold; lra|].
      right. replace (dot (V 0 0 1) (vsub wit_b1 (wit_lp 1))) with (-1) by (unfold wit_lp, wit_b1; vunfold; ring).
      rewrite Rabs_left; lra.
    - apply (edge_band_intro _ _ _ _ 5); [unfold wit_lp, wit_b1; vne|lra|lra|unfold wit_lp, wit_b1; vunfold; lra|].
      right. replace (dot (V 0 0 1) (vsub (wit_lp (-1)) wit_b1)) with (-1) by (unfold wit_lp, wit_b1; vunfold; ring).
      rewrite Rabs_left; lra. }
  assert (B2 : let nrm := Support.norm_vector (cross (vsub wit_b1 (wit_lp 1)) (vsub (wit_lp (-1)) (wit_lp 1))) in
               (dot nrm wit_a0 = 0 \/ eps6 < Rabs (dot nrm wit_a0)) /\ (dot nrm wit_a1 = 0 \/ eps6 < Rabs (dot nrm wit_a1))).
  { cbv zeta.
    assert (Hw : cross (vsub wit_b1 (wit_lp 1)) (vsub (wit_lp (-1)) (wit_lp 1)) = V (1 / 2) (19 / 2) 0)
      by (unfold wit_b1, wit_lp; vunfold; f_equal; field).
    rewrite Hw in *.
    split; apply (norm_vector_band_intro _ _ _ 10); try lra; try exact Hnd; try (vunfold; lra); right.
    - replace (dot (V (1 / 2) (19 / 2) 0) wit_a0) with (1 / 2) by (unfold wit_a0; vunfold; field).
      rewrite Rabs_pos_eq; lra.
    - replace (dot (V (1 / 2) (19 / 2) 0) wit_a1) with (19 / 2) by (unfold wit_a1; vunfold; field).
      rewrite Rabs_pos_eq; lra. }
  assert (Hdd : d = 0 \/ eps6 (O:=ROps) <= d) by (left; exact Hd0).
  repeat (split; [assumption|]).
  exact (triangle_to_rectangle_optimal _ _ _ _ _ _ _ _ _ _ _ Hnd K1 K2 K3 U0 U1 U01 P2 P2 L L B1 B2 HT Hdd).
Qed.

Example rectangle_to_rectangle_optimal_nonvacuous :
  exists c1 a10 a11 l10 l11 c2 a20 a21 l20 l21 eps d p1 p2,
    dot a10 a10 = 1 /\ dot a11 a11 = 1 /\ dot a10 a11 = 0 /\
    dot a20 a20 = 1 /\ dot a21 a21 = 1 /\ dot a20 a21 = 0 /\
    0 <= l10 /\ 0 <= l11 /\ 0 <= l20 /\ 0 <= l21 /\
    eps6 <= l10 * l10 /\ eps6 <= l11 * l11 /\ eps6 <= l20 * l20 /\ eps6 <= l21 * l21 /\
    (let n2 := cross a20 a21 in
     (dot n2 a10 = 0 \/ eps6 < Rabs (dot n2 a10)) /\ (dot n2 a11 = 0 \/ eps6 < Rabs (dot n2 a11))) /\
    (let n1 := cross a10 a11 in
     (dot n1 a20 = 0 \/ eps6 < Rabs (dot n1 a20)) /\ (dot n1 a21 = 0 \/ eps6 < Rabs (dot n1 a21))) /\
    rectangle_to_rectangle c1 a10 a11 l10 l11 c2 a20 a21 l20 l21 eps = (d, p1, p2) /\
    (d = 0 \/ (eps < d /\ eps6 <= d)) /\
    optimal (rectangle_set c1 a10 a11 l10 l11) (rectangle_set c2 a20 a21 l20 l21) d.
Proof.
  pose proof (rectangle_to_rectangle_wit_le eps6) as Hd.
  destruct (rectangle_to_rectangle wit_c1 wit_a0 wit_ld 2 2 wit_rc wit_a0 wit_a1 2 2 eps6) as [[d p1] p2] eqn:HT.
  unfold rd in Hd. cbn [fst] in Hd.
  pose proof max_float_gt_1 as HM. pose proof wit_a0_nz as A0. pose proof wit_a1_nz as A1. pose proof wit_ld_nz as A2.
  pose proof eps6_pos as H6p. pose proof eps6_lt_1 as H6l. pose proof eps6_small as H6s.
  assert (H2 : 0 < 2) by lra.
  assert (Hd0 : d = 0).
  { destruct (rectangle_to_rectangle_feasible _ _ _ _ _ _ _ _ _ _ _ _ _ _ A0 A2 H2 H2 A0 A1 H2 H2 HT ltac:(lra)) as (_ & _ & Hp & _). lra. }
  exists wit_c1, wit_a0, wit_ld, 2, 2, wit_rc, wit_a0, wit_a1, 2, 2, eps6, d, p1, p2.
  assert (U0 : dot wit_a0 wit_a0 = 1) by (unfold wit_a0; vunfold; ring).
  assert (U1 : dot wit_a1 wit_a1 = 1) by (unfold wit_a1; vunfold; ring).
  assert (U2 : dot wit_ld wit_ld = 1) by (unfold wit_ld; vunfold; ring).
  assert (U01 : dot wit_a0 wit_a1 = 0) by (unfold wit_a0, wit_a1; vunfold; ring).
  assert (U02 : dot wit_a0 wit_ld = 0) by (unfold wit_a0, wit_ld; vunfold; ring).
  assert (P2 : 0 <= 2) by lra. assert (L : eps6 (O:=ROps) <= 2 * 2) by lra.
  assert (B1 : let n2 := cross wit_a0 wit_a1 in
               (dot n2 wit_a0 = 0 \/ eps6 < Rabs (dot n2 wit_a0)) /\ (dot n2 wit_ld = 0 \/ eps6 < Rabs (dot n2 wit_ld))).
  { cbv zeta. split; [left; unfold wit_a0, wit_a1; vunfold; ring|exact wit_rect_band]. }
  assert (B2 : let n1 := cross wit_a0 wit_ld in
               (dot n1 wit_a0 = 0 \/ eps6 < Rabs (dot n1 wit_a0)) /\ (dot n1 wit_a1 = 0 \/ eps6 < Rabs (dot n1 wit_a1))).
  { cbv zeta. split; [left; unfold wit_a0, wit_ld; vunfold; ring|right].
    replace (dot (cross wit_a0 wit_ld) wit_a1) with (-1) by (unfold wit_a0, wit_a1, wit_ld; vunfold; ring).
    rewrite Rabs_left; lra. }
  assert (Hdd : d = 0 \/ (eps6 (O:=ROps) < d /\ eps6 (O:=ROps) <= d)) by (left; exact Hd0).
  split; [exact U0|]. split; [exact U2|]. split; [exact U02|]. split; [exact U0|]. split; [exact U1|]. split; [exact U01|].
  repeat (split; [assumption|]).
  exact (rectangle_to_rectangle_optimal _ _ _ _ _ _ _ _ _ _ _ _ _ _ U0 U2 U02 U0 U1 U01 P2 P2 P2 P2 L L L L B1 B2 HT Hdd).
Qed.
