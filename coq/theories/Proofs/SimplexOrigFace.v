From Coq Require Import List NArith QArith Reals Lra Psatz Bool Lia.
From D3 Require Import Base.Ops Base.Vec Base.RVec Spec.Convex Spec.ConvexHull Model.SimplexOrig
  Proofs.SimplexTriangle Proofs.SimplexOrig Proofs.SimplexOrigCand.
Import ListNotations.
Local Open Scope R_scope.

(** * The original solver's backup procedure on THREE points returns a minimum-norm point of the
      triangle -- ALL real inputs (affinely independent, collinear, duplicates).

    The code's cofactors are exactly the quantities of the triangle proof of the Jolt solver
    (d[1,2] = d1, d[2,4] = d2, d[2,6] = vc, d[1,6] = vb, d[0,6] = va, d[2,5], d[1,5] = the two
    BC parameters), so [tri_all_pos0] (Proofs/SimplexTriangle.v) says that either the face
    candidate is eligible or one of the six vertex/edge regions contains the origin's
    projection; in each case a candidate the procedure tries satisfies the variational
    inequality, and the procedure ends no worse than every candidate it tries. *)


(** a candidate that satisfies the variational inequality bounds every hull point from below *)
Lemma kkt_lower (a b c p : V3R) :
  conv_hull [a; b; c] p -> dot p p <= dot p a -> dot p p <= dot p b -> dot p p <= dot p c ->
  forall x, conv_hull [a; b; c] x -> dot p p <= dot x x.
Proof.
  intros Hp Ha Hb Hc x Hx.
  assert (Hm : is_min_norm [a; b; c] p).
  { apply is_min_norm_of_kkt; auto. intros y [<-|[<-|[<-|[]]]]; auto. }
  destruct Hm as [_ Hm]. specialize (Hm x Hx).
  pose proof (norm_sq p). pose proof (norm_sq x). pose proof (norm_nonneg p). pose proof (norm_nonneg x). nra.
Qed.

Theorem backup_face_optimal (a b c : V3R) :
  let r := @backup_procedure_face R ROps [a; b; c] in
  is_min_norm [a; b; c] (s_v (b_sol r)).
Proof.
  intros r.
  set (g11 := dot (vsub b a) (vsub b a)). set (g12 := dot (vsub b a) (vsub c a)).
  set (g22 := dot (vsub c a) (vsub c a)).
  assert (HD : 0 <= g11 * g22 - g12 * g12).
  { pose proof (cauchy_schwarz_sq (vsub b a) (vsub c a)) as H. fold g11 g12 g22 in H. lra. }
  assert (Hg11n : 0 <= g11) by apply dot_self_nonneg.
  assert (Hg22n : 0 <= g22) by apply dot_self_nonneg.
  (* the result is well formed *)
  assert (Hbp : @backup_procedure R ROps [a; b; c] = Some r) by reflexivity.
  destruct (backup_in_hull _ _ Hbp) as [_ Hin].
  destruct (backup_valid _ _ Hbp) as (_ & _ & _ & _ & _ & _ & Hd2).
  (* it suffices to bound the returned squared distance by every hull point *)
  cut (forall x, conv_hull [a; b; c] x -> s_d2 (b_sol r) <= dot x x).
  { intros Hle. split; auto. intros x Hx. apply norm_le_of_sq. rewrite <- Hd2. auto. }
  (* table entries and the code's quantities *)
  set (t00 := dot a a). set (t10 := dot b a). set (t11 := dot b b).
  set (t20 := dot c a). set (t21 := dot c b). set (t22 := dot c c).
  set (d1 := t00 - t10). set (d2 := t00 - t20).
  assert (G11 : g11 = t11 - 2 * t10 + t00) by (unfold g11, t11, t10, t00; vsimp; ring).
  assert (G12 : g12 = t21 - t10 - t20 + t00) by (unfold g12, t21, t10, t20, t00; vsimp; ring).
  assert (G22 : g22 = t22 - 2 * t20 + t00) by (unfold g22, t22, t20, t00; vsimp; ring).
  assert (Gbc : g11 - 2 * g12 + g22 = dot (vsub c b) (vsub c b)) by (unfold g11, g12, g22; vsimp; ring).
  assert (Hgbcn : 0 <= g11 - 2 * g12 + g22) by (rewrite Gbc; apply dot_self_nonneg).
  assert (Eab : dot a b = t10) by (unfold t10; apply dot_comm).
  assert (Eac : dot a c = t20) by (unfold t20; apply dot_comm).
  assert (Ebc : dot b c = t21) by (unfold t21; apply dot_comm).
  (* unfold the procedure *)
  unfold r, backup_procedure_face. cbv zeta. unfold t, pt. cbn [nth]. cbn [leb zero sub add mul opp ROps].
  fold t00 t10 t11 t20 t21 t22.
  set (d12 := t00 - t10). set (d02 := t11 - t10). set (d24 := t00 - t20).
  set (d26 := d02 * d24 + d12 * (t10 - t21)).
  set (d04 := t22 - t20). set (d16 := d04 * d12 + d24 * (t20 - t21)).
  set (d15 := t22 - t21). set (d25 := t11 - t21).
  set (d06 := d15 * d02 + d25 * - (t20 - t21)).
  assert (E26 : d26 = avc d1 d2 g11 g12) by (unfold d26, d02, d24, d12, avc, d1, d2; rewrite G11, G12; ring).
  assert (E16 : d16 = avb d1 d2 g12 g22) by (unfold d16, d04, d12, d24, avb, d1, d2; rewrite G12, G22; ring).
  assert (E06 : d06 = ava d1 d2 g11 g12 g22) by (unfold d06, d15, d02, d25, ava, avb, avc, aD, d1, d2; rewrite G11, G12, G22; ring).
  set (dv := @dv0 R ROps [a; b; c]).
  set (st0 := (1%nat, from_vertex [a; b; c] 0 t00, [0%nat], [93%N]) : @bstate R).
  set (e1 := negb (Rleb d02 0 || Rleb d12 0)). set (c1 := fun _ : unit => from_line_segment [a; b; c] 0 1 d02 d12).
  set (st1 := try_cand dv 1 e1 c1 [0; 1]%nat st0).
  set (e2 := negb (Rleb d04 0 || Rleb d24 0)). set (c2 := fun _ : unit => from_line_segment [a; b; c] 0 2 d04 d24).
  set (st2 := try_cand dv 2 e2 c2 [0; 2]%nat st1).
  set (e3 := negb (Rleb d06 0 || Rleb d16 0 || Rleb d26 0)). set (c3 := fun _ : unit => from_face [a; b; c] 0 1 2 d06 d16 d26).
  set (st3 := try_cand dv 3 e3 c3 [0; 1; 2]%nat st2).
  set (st4 := try_vertex [a; b; c] dv 8 1 t11 st3).
  set (st5 := try_vertex [a; b; c] dv 9 2 t22 st4).
  set (e6 := negb (Rleb d15 0 || Rleb d25 0)). set (c6 := fun _ : unit => from_line_segment [a; b; c] 2 1 d25 d15).
  set (st6 := try_cand dv 11 e6 c6 [2; 1]%nat st5).
  (* monotone chain *)
  destruct (try_cand_mono dv 1 e1 c1 [0; 1]%nat st0) as [M1 C1]. fold st1 in M1, C1.
  destruct (try_cand_mono dv 2 e2 c2 [0; 2]%nat st1) as [M2 C2]. fold st2 in M2, C2.
  destruct (try_cand_mono dv 3 e3 c3 [0; 1; 2]%nat st2) as [M3 C3]. fold st3 in M3, C3.
  destruct (try_vertex_mono [a; b; c] dv 8 1 t11 st3) as [M4 C4]. fold st4 in M4, C4.
  destruct (try_vertex_mono [a; b; c] dv 9 2 t22 st4) as [M5 C5]. fold st5 in M5, C5.
  destruct (try_cand_mono dv 11 e6 c6 [2; 1]%nat st5) as [M6 C6]. fold st6 in M6, C6.
  assert (S0 : st_d2 st0 = t00) by reflexivity.
  assert (Hfin : s_d2 (b_sol (finish st6)) = st_d2 st6) by (destruct st6 as [[[n s] o] tr]; reflexivity).
  rewrite Hfin.
  (* hull membership of the vertices *)
  assert (Ha : conv_hull [a; b; c] a) by (apply conv_hull_In; simpl; auto).
  assert (Hb : conv_hull [a; b; c] b) by (apply conv_hull_In; simpl; auto).
  assert (Hc : conv_hull [a; b; c] c) by (apply conv_hull_In; simpl; auto).
  (* candidates *)
  assert (KA : d1 <= 0 -> d2 <= 0 -> forall x, conv_hull [a; b; c] x -> st_d2 st6 <= dot x x).
  { intros h1 h2 x Hx. pose proof (kkt_lower a b c a Ha) as K. fold t00 in K. rewrite Eab, Eac in K.
    specialize (K ltac:(lra) ltac:(unfold d1 in h1; lra) ltac:(unfold d2 in h2; lra) x Hx). lra. }
  assert (KB : 0 <= d1 - g11 -> d2 - g12 <= d1 - g11 -> forall x, conv_hull [a; b; c] x -> st_d2 st6 <= dot x x).
  { intros h1 h2 x Hx. pose proof (kkt_lower a b c b Hb) as K. fold t11 t10 in K. rewrite Ebc in K.
    specialize (K ltac:(unfold d1 in h1; rewrite G11 in h1; lra) ltac:(lra)
                  ltac:(unfold d1, d2 in h2; rewrite G11, G12 in h2; lra) x Hx). lra. }
  assert (KC : 0 <= d2 - g22 -> d1 - g12 <= d2 - g22 -> forall x, conv_hull [a; b; c] x -> st_d2 st6 <= dot x x).
  { intros h1 h2 x Hx. pose proof (kkt_lower a b c c Hc) as K. fold t22 t20 t21 in K.
    specialize (K ltac:(unfold d2 in h1; rewrite G22 in h1; lra)
                  ltac:(unfold d1, d2 in h2; rewrite G12, G22 in h2; lra) ltac:(lra) x Hx). lra. }
  (* segment 01 *)
  assert (KAB : 0 < g11 -> avc d1 d2 g11 g12 <= 0 -> 0 < d1 -> d1 - g11 < 0 -> forall x, conv_hull [a; b; c] x -> st_d2 st6 <= dot x x).
  { intros Hg11 hv h1 h3 x Hx.
    assert (He : e1 = true).
    { unfold e1. apply negb_true_iff, orb_false_iff. split; apply Rleb_false; unfold d02, d12; unfold d1 in *; rewrite G11 in h3; lra. }
    specialize (C1 He). unfold c1, from_line_segment in C1. cbn [s_d2 add sub mul div one ROps] in C1.
    unfold pt in C1. cbn [nth] in C1.
    assert (Hs : d02 + d12 = g11) by (unfold d02, d12; rewrite G11; ring).
    rewrite Hs in C1.
    set (b0 := d02 / g11) in *. set (v := vadd (vscale b0 a) (vscale (1 - b0) b)) in *.
    assert (Hb0 : 0 <= b0 <= 1).
    { unfold b0. split; [apply Rmult_le_pos; [unfold d02, d1 in *; rewrite G11 in h3; lra|left; apply Rinv_0_lt_compat; lra]|].
      apply (Rmult_le_reg_r g11); [lra|]. unfold Rdiv. rewrite Rmult_assoc, Rinv_l by lra. unfold d02, d1 in *. rewrite G11 in *. lra. }
    assert (Hva : dot v a = b0 * t00 + (1 - b0) * t10) by (unfold v; rewrite dot_add_l, !dot_scale_l; reflexivity).
    assert (Hvb : dot v b = b0 * t10 + (1 - b0) * t11) by (unfold v; rewrite dot_add_l, !dot_scale_l, Eab; reflexivity).
    assert (Hvc : dot v c = b0 * t20 + (1 - b0) * t21) by (unfold v; rewrite dot_add_l, !dot_scale_l, Eac, Ebc; reflexivity).
    assert (Hab : dot v a = dot v b).
    { rewrite Hva, Hvb. unfold b0, d02. rewrite G11. field. rewrite <- G11. lra. }
    assert (Hvv : dot v v = dot v a).
    { unfold v at 2. rewrite dot_add_r, !dot_scale_r, <- Hab. ring. }
    assert (Hcc : dot v c - dot v a = - avc d1 d2 g11 g12 / g11).
    { rewrite Hvc, Hva. unfold b0, d02, avc, d1, d2. rewrite G12, G11. field. rewrite <- G11. lra. }
    assert (0 <= - avc d1 d2 g11 g12 / g11) by (apply Rmult_le_pos; [lra|left; apply Rinv_0_lt_compat; lra]).
    pose proof (kkt_lower a b c v) as K.
    assert (Hvin : conv_hull [a; b; c] v).
    { unfold v. replace (vadd (vscale b0 a) (vscale (1 - b0) b)) with
        (vadd (vadd (vscale b0 a) (vscale (1 - b0) b)) (vscale 0 c)) by (vsimp; f_equal; ring).
      apply conv_hull_3; lra. }
    specialize (K Hvin ltac:(lra) ltac:(lra) ltac:(lra) x Hx). lra. }
  (* segment 02 *)
  assert (KAC : 0 < g22 -> avb d1 d2 g12 g22 <= 0 -> 0 < d2 -> d2 - g22 < 0 -> forall x, conv_hull [a; b; c] x -> st_d2 st6 <= dot x x).
  { intros Hg22 hv h1 h3 x Hx.
    assert (He : e2 = true).
    { unfold e2. apply negb_true_iff, orb_false_iff. split; apply Rleb_false; unfold d04, d24; unfold d2 in *; rewrite G22 in h3; lra. }
    specialize (C2 He). unfold c2, from_line_segment in C2. cbn [s_d2 add sub mul div one ROps] in C2.
    unfold pt in C2. cbn [nth] in C2.
    assert (Hs : d04 + d24 = g22) by (unfold d04, d24; rewrite G22; ring).
    rewrite Hs in C2.
    set (b0 := d04 / g22) in *. set (v := vadd (vscale b0 a) (vscale (1 - b0) c)) in *.
    assert (Hb0 : 0 <= b0 <= 1).
    { unfold b0. split; [apply Rmult_le_pos; [unfold d04, d2 in *; rewrite G22 in h3; lra|left; apply Rinv_0_lt_compat; lra]|].
      apply (Rmult_le_reg_r g22); [lra|]. unfold Rdiv. rewrite Rmult_assoc, Rinv_l by lra. unfold d04, d2 in *. rewrite G22 in *. lra. }
    assert (Hva : dot v a = b0 * t00 + (1 - b0) * t20) by (unfold v; rewrite dot_add_l, !dot_scale_l; reflexivity).
    assert (Hvb : dot v b = b0 * t10 + (1 - b0) * t21) by (unfold v; rewrite dot_add_l, !dot_scale_l, Eab; reflexivity).
    assert (Hvc : dot v c = b0 * t20 + (1 - b0) * t22) by (unfold v; rewrite dot_add_l, !dot_scale_l, Eac; reflexivity).
    assert (Hac : dot v a = dot v c).
    { rewrite Hva, Hvc. unfold b0, d04. rewrite G22. field. rewrite <- G22. lra. }
    assert (Hvv : dot v v = dot v a).
    { unfold v at 2. rewrite dot_add_r, !dot_scale_r, <- Hac. ring. }
    assert (Hbb : dot v b - dot v a = - avb d1 d2 g12 g22 / g22).
    { rewrite Hvb, Hva. unfold b0, d04, avb, d1, d2. rewrite G12, G22. field. rewrite <- G22. lra. }
    assert (0 <= - avb d1 d2 g12 g22 / g22) by (apply Rmult_le_pos; [lra|left; apply Rinv_0_lt_compat; lra]).
    pose proof (kkt_lower a b c v) as K.
    assert (Hvin : conv_hull [a; b; c] v).
    { unfold v. replace (vadd (vscale b0 a) (vscale (1 - b0) c)) with
        (vadd (vadd (vscale b0 a) (vscale 0 b)) (vscale (1 - b0) c)) by (vsimp; f_equal; ring).
      apply conv_hull_3; lra. }
    specialize (K Hvin ltac:(lra) ltac:(lra) ltac:(lra) x Hx). lra. }
  (* segment 12 (stored as points 2, 1) *)
  set (d43 := d2 - g12 - (d1 - g11)). set (d56 := d1 - g12 - (d2 - g22)).
  assert (E25 : d25 = d43) by (unfold d25, d43, d1, d2; rewrite G11, G12; ring).
  assert (E15 : d15 = d56) by (unfold d15, d56, d1, d2; rewrite G12, G22; ring).
  assert (Hsum : d43 + d56 = g11 - 2 * g12 + g22) by (unfold d43, d56; ring).
  assert (KBC : ava d1 d2 g11 g12 g22 <= 0 -> 0 < d43 -> 0 < d56 -> forall x, conv_hull [a; b; c] x -> st_d2 st6 <= dot x x).
  { intros hv h1 h3 x Hx.
    assert (He : e6 = true).
    { unfold e6. apply negb_true_iff, orb_false_iff. rewrite E15, E25. split; apply Rleb_false; lra. }
    specialize (C6 He). unfold c6, from_line_segment in C6. cbn [s_d2 add sub mul div one ROps] in C6.
    unfold pt in C6. cbn [nth] in C6. rewrite E25, E15 in C6.
    set (gb := d43 + d56) in *.
    assert (Hgb : 0 < gb) by (unfold gb; lra).
    set (b0 := d43 / gb) in *. set (v := vadd (vscale b0 c) (vscale (1 - b0) b)) in *.
    assert (Hb0 : 0 <= b0 <= 1).
    { unfold b0. split; [apply Rmult_le_pos; [lra|left; apply Rinv_0_lt_compat; lra]|].
      apply (Rmult_le_reg_r gb); [lra|]. unfold Rdiv. rewrite Rmult_assoc, Rinv_l by lra. unfold gb. lra. }
    assert (Hva : dot v a = b0 * t20 + (1 - b0) * t10) by (unfold v; rewrite dot_add_l, !dot_scale_l; reflexivity).
    assert (Hvb : dot v b = b0 * t21 + (1 - b0) * t11) by (unfold v; rewrite dot_add_l, !dot_scale_l; reflexivity).
    assert (Hvc : dot v c = b0 * t22 + (1 - b0) * t21) by (unfold v; rewrite dot_add_l, !dot_scale_l, Ebc; reflexivity).
    assert (Hgbv : gb = t11 - 2 * t21 + t22) by (rewrite Hsum, G11, G12, G22; ring).
    assert (Hbc' : dot v b = dot v c).
    { rewrite Hvb, Hvc. unfold b0. rewrite <- E25. unfold d25. rewrite Hgbv. field. rewrite <- Hgbv. lra. }
    assert (Hvv : dot v v = dot v b).
    { unfold v at 2. rewrite dot_add_r, !dot_scale_r, <- Hbc'. ring. }
    assert (Haa : dot v a - dot v b = - ava d1 d2 g11 g12 g22 / gb).
    { rewrite Hva, Hvb. unfold b0. rewrite <- E25. unfold d25, ava, avb, avc, aD, d1, d2.
      rewrite G11, G12, G22. rewrite Hgbv. field. rewrite <- Hgbv. lra. }
    assert (0 <= - ava d1 d2 g11 g12 g22 / gb) by (apply Rmult_le_pos; [lra|left; apply Rinv_0_lt_compat; lra]).
    pose proof (kkt_lower a b c v) as K.
    assert (Hvin : conv_hull [a; b; c] v).
    { unfold v. replace (vadd (vscale b0 c) (vscale (1 - b0) b)) with
        (vadd (vadd (vscale 0 a) (vscale (1 - b0) b)) (vscale b0 c)) by (vsimp; f_equal; ring).
      apply conv_hull_3; lra. }
    specialize (K Hvin ltac:(lra) ltac:(lra) ltac:(lra) x Hx). lra. }
  (* face *)
  assert (KF : 0 < ava d1 d2 g11 g12 g22 -> 0 < avb d1 d2 g12 g22 -> 0 < avc d1 d2 g11 g12 ->
               forall x, conv_hull [a; b; c] x -> st_d2 st6 <= dot x x).
  { intros ha hb hc x Hx.
    assert (HDp : 0 < g11 * g22 - g12 * g12) by (unfold ava, aD in ha; lra).
    assert (He : e3 = true).
    { unfold e3. apply negb_true_iff. rewrite !orb_false_iff, E06, E16, E26. repeat split; apply Rleb_false; lra. }
    specialize (C3 He). unfold c3, from_face in C3. cbn [s_d2 add sub mul div one ROps] in C3.
    unfold pt in C3. cbn [nth] in C3. rewrite E06, E16, E26 in C3.
    set (va := ava d1 d2 g11 g12 g22) in *. set (vb := avb d1 d2 g12 g22) in *. set (vc := avc d1 d2 g11 g12) in *.
    assert (Hs : va + vb + vc = g11 * g22 - g12 * g12) by (unfold va, ava, aD; fold vb vc; ring).
    set (D := g11 * g22 - g12 * g12) in *. rewrite Hs in C3.
    set (b0 := va / D) in *. set (b1 := vb / D) in *. set (b2 := 1 - (b0 + b1)) in *.
    assert (Hb2 : b2 = vc / D) by (unfold b2, b0, b1; field_simplify_eq; [lra|lra]).
    assert (Hi : 0 < / D) by (apply Rinv_0_lt_compat; lra).
    assert (P0 : 0 <= b0) by (apply Rmult_le_pos; lra).
    assert (P1 : 0 <= b1) by (apply Rmult_le_pos; lra).
    assert (P2 : 0 <= b2) by (rewrite Hb2; apply Rmult_le_pos; lra).
    set (v := vadd (vadd (vscale b0 a) (vscale b1 b)) (vscale b2 c)) in *.
    assert (Hva : dot v a = b0 * t00 + b1 * t10 + b2 * t20) by (unfold v; rewrite !dot_add_l, !dot_scale_l; reflexivity).
    assert (Hvb : dot v b = b0 * t10 + b1 * t11 + b2 * t21) by (unfold v; rewrite !dot_add_l, !dot_scale_l, Eab; reflexivity).
    assert (Hvc : dot v c = b0 * t20 + b1 * t21 + b2 * t22) by (unfold v; rewrite !dot_add_l, !dot_scale_l, Eac, Ebc; reflexivity).
    assert (Hab : dot v a = dot v b).
    { rewrite Hva, Hvb, Hb2. unfold b0, b1, va, vb, vc, ava, avb, avc, aD, D, d1, d2. rewrite G11, G12, G22. field.
      unfold D in HDp. rewrite G11, G12, G22 in HDp. lra. }
    assert (Hac : dot v a = dot v c).
    { rewrite Hva, Hvc, Hb2. unfold b0, b1, va, vb, vc, ava, avb, avc, aD, D, d1, d2. rewrite G11, G12, G22. field.
      unfold D in HDp. rewrite G11, G12, G22 in HDp. lra. }
    assert (Hvv : dot v v = dot v a).
    { unfold v at 2. rewrite !dot_add_r, !dot_scale_r, <- Hab, <- Hac. unfold b2. ring. }
    pose proof (kkt_lower a b c v) as K.
    assert (Hvin : conv_hull [a; b; c] v) by (unfold v; apply conv_hull_3; auto; unfold b2; lra).
    specialize (K Hvin ltac:(lra) ltac:(lra) ltac:(lra) x Hx). lra. }
  (* case analysis *)
  assert (Eva : ava d1 d2 g11 g12 g22 = (d1 - g11) * (d2 - g22) - (d1 - g12) * (d2 - g12))
    by (unfold ava, avb, avc, aD; ring).
  destruct (Req_dec g11 0) as [Z11|N11].
  { (* a = b *)
    assert (Hba : vsub b a = vzero) by (apply dot_self_zero; exact Z11).
    assert (E10 : t10 = t00).
    { unfold t10, t00. replace b with (vadd a (vsub b a)) by (vsimp; f_equal; ring). rewrite Hba. vsimp. ring. }
    assert (E12 : g12 = 0) by (unfold g12; rewrite Hba; vsimp; ring).
    assert (Ed1 : d1 = 0) by (unfold d1; lra).
    destruct (Rle_dec d2 0) as [q|q]; [apply KA; lra|].
    destruct (Rle_dec 0 (d2 - g22)) as [q6|q6]; [apply KC; lra|].
    apply KAC; try lra. unfold avb. rewrite Ed1, E12. lra. }
  destruct (Req_dec g22 0) as [Z22|N22].
  { (* a = c *)
    assert (Hca : vsub c a = vzero) by (apply dot_self_zero; exact Z22).
    assert (E20 : t20 = t00).
    { unfold t20, t00. replace c with (vadd a (vsub c a)) by (vsimp; f_equal; ring). rewrite Hca. vsimp. ring. }
    assert (E12 : g12 = 0) by (unfold g12; rewrite Hca; vsimp; ring).
    assert (Ed2 : d2 = 0) by (unfold d2; lra).
    destruct (Rle_dec d1 0) as [q|q]; [apply KA; lra|].
    destruct (Rle_dec 0 (d1 - g11)) as [q3|q3]; [apply KB; lra|].
    apply KAB; try lra. unfold avc. rewrite Ed2, E12. lra. }
  destruct (Req_dec (g11 - 2 * g12 + g22) 0) as [Zbc|Nbc].
  { (* b = c *)
    assert (Hcb : vsub c b = vzero) by (apply dot_self_zero; rewrite <- Gbc; exact Zbc).
    assert (Ecb : c = b) by (replace c with (vadd b (vsub c b)) by (vsimp; f_equal; ring); rewrite Hcb; vsimp; f_equal; ring).
    assert (E20 : t20 = t10) by (unfold t20, t10; rewrite Ecb; reflexivity).
    assert (Eg : g12 = g11 /\ g22 = g11) by (unfold g12, g22, g11; rewrite Ecb; split; reflexivity).
    destruct Eg as [Eg12 Eg22].
    assert (Ed : d2 = d1) by (unfold d2, d1; lra).
    destruct (Rle_dec d1 0) as [q|q]; [apply KA; lra|].
    destruct (Rle_dec 0 (d1 - g11)) as [q3|q3]; [apply KB; lra|].
    apply KAB; try lra. unfold avc. rewrite Ed, Eg12. lra. }
  assert (Hg11 : 0 < g11) by lra. assert (Hg22 : 0 < g22) by lra. assert (Hgbc : 0 < g11 - 2 * g12 + g22) by lra.
  assert (HDa : 0 <= aD g11 g12 g22) by (unfold aD; lra).
  assert (Harm : (0 < ava d1 d2 g11 g12 g22 /\ 0 < avb d1 d2 g12 g22 /\ 0 < avc d1 d2 g11 g12) \/
                 armA d1 d2 \/ armB d1 d2 g11 g12 \/ armAB d1 d2 g11 g12 \/ armC d1 d2 g12 g22 \/
                 armAC d1 d2 g12 g22 \/ armBC d1 d2 g11 g12 g22).
  { destruct (arm_dec (armA d1 d2)) as [h|hA]; [unfold armA; repeat apply dec_and; apply Rle_dec|auto|].
    destruct (arm_dec (armB d1 d2 g11 g12)) as [h|hB]; [unfold armB; repeat apply dec_and; apply Rle_dec|auto|].
    destruct (arm_dec (armAB d1 d2 g11 g12)) as [h|hAB]; [unfold armAB; repeat apply dec_and; apply Rle_dec|auto 6|].
    destruct (arm_dec (armC d1 d2 g12 g22)) as [h|hC]; [unfold armC; repeat apply dec_and; apply Rle_dec|auto 6|].
    destruct (arm_dec (armAC d1 d2 g12 g22)) as [h|hAC]; [unfold armAC; repeat apply dec_and; apply Rle_dec|auto 8|].
    destruct (arm_dec (armBC d1 d2 g11 g12 g22)) as [h|hBC]; [unfold armBC; repeat apply dec_and; apply Rle_dec|auto 8|].
    left. apply tri_all_pos0; auto. unfold no_arm. auto 8. }
  destruct Harm as [(Pa & Pb & Pc)|[[h1 h2]|[[h1 h2]|[(hv & h1 & h3)|[[h1 h2]|[(hv & h1 & h3)|(hv & h1 & h3)]]]]]].
  - apply KF; auto.
  - apply KA; auto.
  - apply KB; auto.
  - (* AB *)
    destruct (Req_dec d1 0) as [z|nz].
    { apply KA; [lra|]. unfold avc in hv. rewrite z in hv. nra. }
    destruct (Req_dec (d1 - g11) 0) as [z3|nz3].
    { apply KB; [lra|]. unfold avc in hv. assert (E : d1 = g11) by lra. rewrite E in hv. rewrite E. nra. }
    apply KAB; auto; lra.
  - apply KC; auto.
  - (* AC *)
    destruct (Req_dec d2 0) as [z|nz].
    { apply KA; [|lra]. unfold avb in hv. rewrite z in hv. nra. }
    destruct (Req_dec (d2 - g22) 0) as [z3|nz3].
    { apply KC; [lra|]. unfold avb in hv. assert (E : d2 = g22) by lra. rewrite E in hv. rewrite E. nra. }
    apply KAC; auto; lra.
  - (* BC *)
    fold d43 d56 in h1, h3.
    destruct (Req_dec d43 0) as [z|nz].
    { assert (Hd56 : 0 < d56) by lra.
      apply KB.
      - rewrite Eva in hv. assert (E : d2 - g12 = d1 - g11) by (unfold d43 in z; lra).
        rewrite E in hv. unfold d56 in Hd56. nra.
      - unfold d43 in z. lra. }
    destruct (Req_dec d56 0) as [z3|nz3].
    { assert (Hd43 : 0 < d43) by lra.
      apply KC.
      - rewrite Eva in hv. assert (E : d1 - g12 = d2 - g22) by (unfold d56 in z3; lra).
        rewrite E in hv. unfold d43 in Hd43. nra.
      - unfold d56 in z3. lra. }
    apply KBC; auto; lra.
Qed.
