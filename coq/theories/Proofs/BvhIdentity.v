(** * C06, part 8: WHICH object a query hands out (replacement / removal of colliders).

    [add_collider] under a frame name that is already registered REPLACES the dict entry
    (same number of colliders, same position in the dict) and leaves the old object behind as
    payload of a tree leaf until the next [update_collider_poses]; taking a collider out of
    the public dict ([Remove]) leaves its leaf behind in the same way.  After the next
    [update_collider_poses] every query returns, under a frame name, the object that is
    registered under that name NOW: never a replaced or removed one. *)
From Coq Require Import List Arith Bool Lia.
From D3 Require Import Model.AabbTree Model.Bvh Proofs.BvhDict Proofs.BvhProofs.
Import ListNotations.

Section DictMore.
  Variables K V : Type.
  Variable keqb : K -> K -> bool.
  Hypothesis keqb_spec : forall a b, keqb a b = true <-> a = b.

  Lemma dict_set_length_mem (d : list (K * V)) k v :
    In k (map fst d) -> length (dict_set keqb d k v) = length d.
  Proof.
    induction d as [|[k0 v0] d IH]; simpl; [tauto|].
    destruct (keqb k0 k) eqn:E; simpl; auto.
    intros [H|H].
    - subst. rewrite (keqb_refl _ keqb keqb_spec) in E. discriminate.
    - rewrite IH; auto.
  Qed.

  Lemma dict_set_length_fresh (d : list (K * V)) k v :
    ~ In k (map fst d) -> length (dict_set keqb d k v) = S (length d).
  Proof.
    intros H. rewrite (dict_set_fresh _ _ keqb keqb_spec) by auto. rewrite app_length. simpl. lia.
  Qed.

  Lemma dict_get_pop_eq (d : list (K * V)) k :
    NoDup (map fst d) -> dict_get keqb (dict_pop keqb d k) k = None.
  Proof.
    intros Hn. apply (dict_get_None _ _ keqb keqb_spec).
    induction d as [|[k0 v0] d IH]; simpl; auto.
    inversion Hn; subst. destruct (keqb k0 k) eqn:E; simpl.
    - apply keqb_spec in E. subst. auto.
    - apply (keqb_false _ keqb keqb_spec) in E. intros [H|H]; auto. apply IH; auto.
  Qed.

  Lemma dict_get_pop_neq (d : list (K * V)) k k' :
    k <> k' -> dict_get keqb (dict_pop keqb d k) k' = dict_get keqb d k'.
  Proof.
    intros Hne. induction d as [|[k0 v0] d IH]; simpl; auto.
    destruct (keqb k0 k) eqn:E; simpl.
    - apply keqb_spec in E. subst. rewrite (keqb_neq _ keqb keqb_spec); auto.
    - destruct (keqb k0 k'); auto.
  Qed.

  Lemma dict_pop_length_mem (d : list (K * V)) k :
    In k (map fst d) -> S (length (dict_pop keqb d k)) = length d.
  Proof.
    induction d as [|[k0 v0] d IH]; simpl; [tauto|].
    destruct (keqb k0 k) eqn:E; simpl; auto.
    intros [H|H].
    - subst. rewrite (keqb_refl _ keqb keqb_spec) in E. discriminate.
    - rewrite IH; auto.
  Qed.
End DictMore.

Section BvhIdentity.
  Variable C : Type.
  Variable le : C -> C -> bool.
  Variables cmin cmax : C -> C -> C.
  Variable czero : C.
  Variable go_left : box C -> box C -> box C -> bool.
  Variable cost_ok : box C -> box C -> box C -> box C -> bool.
  Hypothesis le_trans : forall a b c, le a b = true -> le b c = true -> le a c = true.
  Hypothesis cmin_l : forall a b, le (cmin a b) a = true.
  Hypothesis cmin_r : forall a b, le (cmin a b) b = true.
  Hypothesis cmax_l : forall a b, le a (cmax a b) = true.
  Hypothesis cmax_r : forall a b, le b (cmax a b) = true.
  Variable frame : Type.
  Variable feqb : frame -> frame -> bool.
  Hypothesis feqb_spec : forall a b, feqb a b = true <-> a = b.
  Variables coll pose : Type.
  Variable upd : coll -> pose -> coll.
  Variable aabb_of : coll -> box C.

  Notation state := (state C frame coll pose).
  Notation Inv := (Inv C cmin cmax frame coll pose aabb_of).
  Notation cs_ st := (colliders C frame coll pose st).
  Notation heap_ st := (heap C frame coll pose st).
  Notation add_collider := (add_collider C cmin cmax czero go_left cost_ok frame feqb coll pose aabb_of).
  Notation remove_collider := (remove_collider C frame feqb coll pose).
  Notation aabb_overlapping_colliders := (aabb_overlapping_colliders C le frame feqb coll pose).
  Notation run_ops := (run_ops C cmin cmax czero go_left cost_ok frame feqb coll pose upd aabb_of).

  (** whatever a query returns under the name f is the object registered under f *)
  Theorem query_returns_registered st q wl r :
    Inv st -> aabb_overlapping_colliders st q wl = XOk r ->
    forall f o, In (f, o) r -> dict_get feqb (cs_ st) f = Some o.
  Proof.
    intros HI Hq f o Hin.
    destruct (overlapping_colliders_exact C le cmin cmax go_left cost_ok le_trans cmin_l cmin_r
                cmax_l cmax_r frame feqb feqb_spec coll pose aabb_of st q wl HI) as (r' & Hr' & _ & Hiff).
    rewrite Hq in Hr'. inversion Hr'; subst r'.
    apply Hiff in Hin. destruct Hin as (Hcs & _).
    destruct HI as (asg & _ & _ & Hk).
    apply (dict_get_NoDup _ _ feqb feqb_spec); auto.
  Qed.

  (** add_collider registers the new object under the name; under a name that is in use the
      number of colliders does not change (replacement), every other name keeps its object *)
  Theorem add_collider_registers st f o st' :
    add_collider st f o = XOk st' ->
    dict_get feqb (cs_ st') f = Some o /\
    (forall g, g <> f -> dict_get feqb (cs_ st') g = dict_get feqb (cs_ st) g) /\
    (In f (map fst (cs_ st)) -> length (cs_ st') = length (cs_ st)) /\
    (~ In f (map fst (cs_ st)) -> length (cs_ st') = S (length (cs_ st))).
  Proof.
    unfold Bvh.add_collider. destruct (hget coll (heap_ st) o); simpl; [|discriminate].
    destruct (insert_aabb _ _ _ _ _ _ _ _ _ _); simpl; [|discriminate].
    intros E; inversion E; subst; simpl. repeat split.
    - apply (dict_get_set_eq _ _ feqb feqb_spec).
    - intros g Hg. apply (dict_get_set_neq _ _ feqb feqb_spec); auto.
    - apply (dict_set_length_mem _ _ feqb feqb_spec).
    - apply (dict_set_length_fresh _ _ feqb feqb_spec).
  Qed.

  (** taking a collider out: the name is free again, every other name keeps its object *)
  Theorem remove_collider_unregisters st f st' :
    NoDup (map fst (cs_ st)) ->
    remove_collider st f = XOk st' ->
    dict_get feqb (cs_ st') f = None /\
    (forall g, g <> f -> dict_get feqb (cs_ st') g = dict_get feqb (cs_ st) g) /\
    S (length (cs_ st')) = length (cs_ st) /\ heap_ st' = heap_ st.
  Proof.
    intros Hk. unfold Bvh.remove_collider.
    destruct (dict_mem feqb (cs_ st) f) eqn:Em; [|discriminate].
    intros E; inversion E; subst; simpl. repeat split.
    - apply (dict_get_pop_eq _ _ feqb feqb_spec); auto.
    - intros g Hg. apply (dict_get_pop_neq _ _ feqb feqb_spec); auto.
    - apply (dict_pop_length_mem _ _ feqb feqb_spec). apply (dict_mem_iff _ _ feqb feqb_spec); auto.
  Qed.

  Variable good : coll -> Prop.
  Variable at_pose : coll -> pose -> Prop.
  Hypothesis upd_good : forall c p, good c -> good (upd c p).
  Hypothesis upd_at : forall c p, good c -> at_pose (upd c p) p.

  (** after ANY history (add_collider under new or used names, removals, transform-manager
      and whitelist changes, updates) that ends with update_collider_poses, a query returns
      under each name the object registered under it now, with its current aabb overlapping *)
  Theorem history_query_identity st0 h st q wl r :
    NoDup (map fst (cs_ st0)) -> Forall good (heap_ st0) ->
    run_ops st0 (h ++ [UpdatePoses frame pose]) = XOk st ->
    NoDup (map snd (cs_ st)) ->
    aabb_overlapping_colliders st q wl = XOk r ->
    forall f o, In (f, o) r ->
      dict_get feqb (cs_ st) f = Some o /\
      exists c, nth_error (heap_ st) o = Some c /\ overlap C le (aabb_of c) q = true.
  Proof.
    intros Hk Hg Hrun Hid Hq f o Hin.
    destruct (history_poses_current C le cmin cmax czero go_left cost_ok frame feqb feqb_spec
                coll pose upd aabb_of good at_pose upd_good upd_at st0 h st Hk Hg Hrun Hid) as (HI & _).
    split; [eapply query_returns_registered; eauto|].
    destruct (overlapping_colliders_exact C le cmin cmax go_left cost_ok le_trans cmin_l cmin_r
                cmax_l cmax_r frame feqb feqb_spec coll pose aabb_of st q wl HI) as (r' & Hr' & _ & Hiff).
    rewrite Hq in Hr'. inversion Hr'; subst r'.
    apply Hiff in Hin. tauto.
  Qed.
End BvhIdentity.
