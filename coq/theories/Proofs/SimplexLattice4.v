(** * Both simplex solvers are exact on all 531441 tetrahedra with coordinates in {-1, 0, 1}
      (assembled from the 18 group files Proofs/SimplexLat4J*.v / SimplexLat4O*.v). *)
From Coq Require Import List QArith Lia.
From D3 Require Import Base.Vec Proofs.SimplexLattice Proofs.SimplexLat4J0 Proofs.SimplexLat4J1 Proofs.SimplexLat4J2 Proofs.SimplexLat4J3 Proofs.SimplexLat4J4 Proofs.SimplexLat4J5 Proofs.SimplexLat4J6 Proofs.SimplexLat4J7 Proofs.SimplexLat4J8 Proofs.SimplexLat4O0 Proofs.SimplexLat4O1 Proofs.SimplexLat4O2 Proofs.SimplexLat4O3 Proofs.SimplexLat4O4 Proofs.SimplexLat4O5 Proofs.SimplexLat4O6 Proofs.SimplexLat4O7 Proofs.SimplexLat4O8.
Import ListNotations.

Lemma lt9 i : (i < 9)%nat -> i = 0%nat \/ i = 1%nat \/ i = 2%nat \/ i = 3%nat \/ i = 4%nat \/ i = 5%nat \/ i = 6%nat \/ i = 7%nat \/ i = 8%nat.
Proof. lia. Qed.

Theorem jolt_lattice4_exact Y : In Y (configs 4) -> jolt_exact Y.
Proof.
  intros H. apply jolt_ok_sound. revert Y H. apply slice4_all.
  intros i Hi. destruct (lt9 i Hi) as [->|[->|[->|[->|[->|[->|[->|[->| ->]]]]]]]].
  - exact jolt4_group0. - exact jolt4_group1. - exact jolt4_group2. - exact jolt4_group3. - exact jolt4_group4.
  - exact jolt4_group5. - exact jolt4_group6. - exact jolt4_group7. - exact jolt4_group8.
Qed.

Theorem orig_lattice4_exact Y : In Y (configs 4) -> orig_exact Y.
Proof.
  intros H. apply orig_ok_sound. revert Y H. apply slice4_all.
  intros i Hi. destruct (lt9 i Hi) as [->|[->|[->|[->|[->|[->|[->|[->| ->]]]]]]]].
  - exact orig4_group0. - exact orig4_group1. - exact orig4_group2. - exact orig4_group3. - exact orig4_group4.
  - exact orig4_group5. - exact orig4_group6. - exact orig4_group7. - exact orig4_group8.
Qed.
