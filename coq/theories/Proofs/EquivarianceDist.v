(** * C12, part 3: the distance leaves of Model/DistPrim.v under a rigid motion, a uniform
      scaling and argument swap.

    Statement shape:  f (g p) (g q) (Rg d) ... = (dist, g cp1, g cp2)  where
    (dist, cp1, cp2) = f p q d ...: an EQUALITY of the model's outputs (same arm taken, same
    clamping), for every orthonormal Rg.  Functions that use a cross product, the coordinate
    origin or a fixed world direction are equivariant only under the stated restriction:
      plane_to_plane      distance always; its points for proper rotations about the origin
                          (the returned point is the foot of the perpendicular from the
                          ORIGIN onto the intersection line: translation moves it along the line)
      point_to_circle     general arm only (on the axis the code picks a world direction)
    Proof method: every leaf is built from differences of points, dot products, norms and
    affine combinations; the rewriting database [equiv] pushes the motion outwards through
    these, after which both sides are syntactically the same computation. *)
From Coq Require Import Reals Lra Psatz List Bool.
From D3 Require Import Base.Ops Base.Vec Base.RVec Base.RVec2 Spec.Convex Model.DistPrim
     Proofs.Equivariance.
From D3 Require Base.RVec3.
Import ListNotations.
Local Open Scope R_scope.

(** ** rewriting lemmas (outside any section) *)
Lemma rigid_add' (m : M3 R) (t c v : V3R) : vadd (rigid m t c) (mulMV m v) = rigid m t (vadd c v).
Proof. unfold rigid. vsimp; f_equal; ring. Qed.
Lemma rigid_subv (m : M3 R) (t c v : V3R) : vsub (rigid m t c) (mulMV m v) = rigid m t (vsub c v).
Proof. unfold rigid. vsimp; f_equal; ring. Qed.
Lemma vdivs_rot (m : M3 R) (d : V3R) (n : R) : vdivs (mulMV m d) n = mulMV m (vdivs d n).
Proof. vsimp; f_equal; unfold Rdiv; ring. Qed.
Lemma vscale_rot (m : M3 R) (s : R) (a : V3R) : vscale s (mulMV m a) = mulMV m (vscale s a).
Proof. symmetry. apply mulMV_scale. Qed.
Lemma vsub_rot (m : M3 R) (a b : V3R) : vsub (mulMV m a) (mulMV m b) = mulMV m (vsub a b).
Proof. symmetry. apply mulMV_sub. Qed.
Lemma vadd_rot (m : M3 R) (a b : V3R) : vadd (mulMV m a) (mulMV m b) = mulMV m (vadd a b).
Proof. symmetry. apply mulMV_add. Qed.

Lemma col2_mulMM' (a b : M3 R) : col (mulMM a b) 2 = mulMV a (col b 2).
Proof. unfold mulMM. vsimp. cbn. f_equal; ring. Qed.

Section Rigid.
  Variables (Rg : M3 R) (t : V3R).
  Hypothesis HR : is_rotation Rg.
  Let g := rigid Rg t.

  Lemma g_sub (a b : V3R) : vsub (g a) (g b) = mulMV Rg (vsub a b).
  Proof. apply rigid_sub. Qed.
  Lemma rot_dot (a b : V3R) : dot (mulMV Rg a) (mulMV Rg b) = dot a b.
  Proof. apply is_rotation_dot; auto. Qed.
  Lemma rot_norm (a : V3R) : norm (mulMV Rg a) = norm a.
  Proof. apply is_rotation_norm; auto. Qed.
  Lemma g_add (c v : V3R) : vadd (g c) (mulMV Rg v) = g (vadd c v).
  Proof. apply rigid_add'. Qed.
  Lemma g_subv (c v : V3R) : vsub (g c) (mulMV Rg v) = g (vsub c v).
  Proof. apply rigid_subv. Qed.

  Ltac equiv :=
    repeat (rewrite ?g_sub, ?rot_dot, ?rot_norm, ?vscale_rot, ?vsub_rot, ?vadd_rot, ?vdivs_rot, ?g_add, ?g_subv).

  Definition map2 (r : R * V3R) : R * V3R := (fst r, g (snd r)).
  Definition map3 (r : R * V3R * V3R) : R * V3R * V3R := (fst (fst r), g (snd (fst r)), g (snd r)).

  (** ** _line.py *)
  Theorem point_to_line_rigid (p lp ld : V3R) :
    point_to_line (g p) (g lp) (mulMV Rg ld) = map2 (point_to_line p lp ld).
  Proof. unfold point_to_line, point_to_line_full, map2. cbn [fst snd]. equiv. reflexivity. Qed.

  Theorem point_to_line_segment_rigid (p s e : V3R) :
    point_to_line_segment (g p) (g s) (g e) = map2 (point_to_line_segment p s e).
  Proof. unfold point_to_line_segment, map2. cbn [fst snd]. equiv. reflexivity. Qed.

  Theorem line_to_line_rigid (lp1 ld1 lp2 ld2 : V3R) (eps : R) :
    line_to_line (g lp1) (mulMV Rg ld1) (g lp2) (mulMV Rg ld2) eps = map3 (line_to_line lp1 ld1 lp2 ld2 eps).
  Proof.
    unfold line_to_line, line_to_line_full, map3. equiv.
    destruct (_ <=? _)%o; cbn [fst snd]; equiv; reflexivity.
  Qed.

  Theorem line_to_line_segment_rigid (lp ld s0 e0 : V3R) (eps : R) :
    line_to_line_segment (g lp) (mulMV Rg ld) (g s0) (g e0) eps = map3 (line_to_line_segment lp ld s0 e0 eps).
  Proof.
    unfold line_to_line_segment, line_to_line_segment_full, map3. equiv.
    destruct (_ && _); cbn [fst snd]; equiv; [reflexivity|].
    destruct (_ <? _)%o; cbn [fst snd]; equiv; [reflexivity|].
    destruct (_ <=? _)%o; cbn [fst snd]; equiv; [reflexivity|].
    destruct (neqb _ _); cbn [fst snd]; equiv; reflexivity.
  Qed.

  Theorem line_segment_to_line_segment_rigid (s1 e1 s2 e2 : V3R) (eps : R) :
    line_segment_to_line_segment (g s1) (g e1) (g s2) (g e2) eps
    = map3 (line_segment_to_line_segment s1 e1 s2 e2 eps).
  Proof.
    unfold line_segment_to_line_segment, line_segment_to_line_segment_full, map3. equiv.
    destruct (_ && _); cbn [fst snd]; equiv; [reflexivity|].
    destruct (_ <? _)%o; cbn [fst snd]; equiv; [reflexivity|].
    destruct (_ <=? _)%o; cbn [fst snd]; equiv; [reflexivity|].
    destruct (neqb _ _); cbn [fst snd]; equiv.
    - destruct (_ <? _)%o; cbn [fst snd]; equiv; [reflexivity|].
      destruct (_ <? _)%o; cbn [fst snd]; equiv; reflexivity.
    - destruct (_ <? _)%o; cbn [fst snd]; equiv; [reflexivity|].
      destruct (_ <? _)%o; cbn [fst snd]; equiv; reflexivity.
  Qed.

  (** ** _plane.py *)
  Theorem point_to_plane_rigid (p pp pn : V3R) :
    point_to_plane (g p) (g pp) (mulMV Rg pn) = map2 (point_to_plane p pp pn).
  Proof. unfold point_to_plane, map2. cbn [fst snd]. equiv. reflexivity. Qed.

  (** the Hesse offset d = pp.n is NOT invariant (it refers to the origin), but the line
      parameter computed from it is: (pp.n - n.lp) = n.(pp - lp) *)
  Lemma line_to_plane_param_rigid (lp ld pp pn : V3R) (eps : R) :
    line_to_plane_param (g lp) (mulMV Rg ld) (g pp) (mulMV Rg pn) eps = line_to_plane_param lp ld pp pn eps.
  Proof.
    unfold line_to_plane_param, hesse_d. equiv.
    destruct (_ <? _)%o; auto. f_equal. f_equal.
    replace ((dot (g pp) (mulMV Rg pn) - dot (mulMV Rg pn) (g lp))%o) with (dot (vsub (g pp) (g lp)) (mulMV Rg pn))
      by (rewrite dot_sub_l, (dot_comm (mulMV Rg pn)); reflexivity).
    equiv. rewrite dot_sub_l, (dot_comm pn lp). reflexivity.
  Qed.

  Theorem line_to_plane_rigid (lp ld pp pn : V3R) (eps : R) :
    line_to_plane (g lp) (mulMV Rg ld) (g pp) (mulMV Rg pn) eps = map3 (line_to_plane lp ld pp pn eps).
  Proof.
    unfold line_to_plane. rewrite line_to_plane_param_rigid.
    destruct (line_to_plane_param lp ld pp pn eps) as [inter tt].
    destruct inter; unfold map3; cbn [fst snd].
    - equiv. reflexivity.
    - rewrite point_to_plane_rigid. unfold map2. destruct (point_to_plane lp pp pn). reflexivity.
  Qed.

  Lemma convert_segment_to_line_rigid (s e : V3R) :
    convert_segment_to_line (g s) (g e) = (mulMV Rg (fst (convert_segment_to_line s e)), snd (convert_segment_to_line s e)).
  Proof. unfold convert_segment_to_line. equiv. destruct (_ <? _)%o; cbn [fst snd]; equiv; reflexivity. Qed.

  Theorem line_segment_to_plane_rigid (s e pp pn : V3R) (eps : R) :
    line_segment_to_plane (g s) (g e) (g pp) (mulMV Rg pn) eps = map3 (line_segment_to_plane s e pp pn eps).
  Proof.
    unfold line_segment_to_plane, line_segment_to_plane_full. rewrite convert_segment_to_line_rigid.
    destruct (convert_segment_to_line s e) as [sd len]. cbn [fst snd].
    rewrite line_to_plane_param_rigid. destruct (line_to_plane_param s sd pp pn eps) as [inter tt].
    unfold map3.
    destruct inter.
    - destruct (_ && _); cbn [fst snd]; equiv; [reflexivity|].
      destruct (_ <? _)%o; rewrite point_to_plane_rigid; unfold map2;
        destruct (point_to_plane _ pp pn); reflexivity.
    - rewrite point_to_plane_rigid; unfold map2; destruct (point_to_plane _ pp pn); reflexivity.
  Qed.

  (** ** _triangle.py: all seven arms *)
  Theorem point_to_triangle_rigid (p a b c : V3R) :
    point_to_triangle (g p) (g a) (g b) (g c) = map2 (point_to_triangle p a b c).
  Proof.
    unfold point_to_triangle, point_to_triangle_full, map2. equiv.
    repeat (match goal with |- context [if ?c then _ else _] => destruct c end; cbn [fst snd]; equiv; try reflexivity).
  Qed.

  (** ** _rectangle.py, _disk.py, _circle.py (general arm) *)
  Theorem point_to_rectangle_rigid (p c a0 a1 : V3R) (l0 l1 : R) :
    point_to_rectangle (g p) (g c) (mulMV Rg a0) (mulMV Rg a1) l0 l1 = map2 (point_to_rectangle p c a0 a1 l0 l1).
  Proof. unfold point_to_rectangle, map2. cbn [fst snd]. equiv. reflexivity. Qed.

  Theorem point_to_disk_rigid (p c : V3R) (r : R) (n : V3R) :
    point_to_disk (g p) (g c) r (mulMV Rg n) = map2 (point_to_disk p c r n).
  Proof. unfold point_to_disk, map2. cbn [fst snd]. equiv. reflexivity. Qed.

  Theorem point_to_circle_rigid (p c : V3R) (r : R) (n : V3R) (eps : R) :
    let dip := vsub (vsub p c) (vscale (dot (vsub p c) n) n) in
    eps <= dot dip dip ->
    point_to_circle (g p) (g c) r (mulMV Rg n) eps = map2 (point_to_circle p c r n eps).
  Proof.
    intros dip H. unfold point_to_circle, point_to_circle_full, map2. equiv. fold dip.
    cbn [leb ROps]. unfold Rleb. destruct (Rle_dec eps (dot dip dip)); [|contradiction].
    cbn [fst snd]. equiv. reflexivity.
  Qed.
  (** on the axis (second arm) the code picks [perpendicular_to_vector n], a WORLD-frame choice, and measures the distance
      to that point: neither the point nor (for sqr_len in (0, eps)) the distance is equivariant there; C11 judges that arm. *)

  (** ** pose-based leaves: point_to_box, point_to_cylinder *)
  Definition moveP (T : Pose R) : Pose R := compose (P Rg t) T.

  Theorem point_to_box_rigid (p : V3R) (T : Pose R) (sz : V3R) :
    point_to_box (g p) (moveP T) sz = map2 (point_to_box p T sz).
  Proof.
    unfold point_to_box, map2. cbn [fst snd].
    rewrite !D3.Base.RVec3.inverse_transform_point_code_eq.
    unfold moveP, g. rewrite local_point_invariant by auto.
    change (trans (compose (P Rg t) T)) with (rigid Rg t (trans T)).
    change (rot (compose (P Rg t) T)) with (mulMM Rg (rot T)).
    rewrite mulMV_mulMM. fold g. equiv. reflexivity.
  Qed.

  Theorem point_to_cylinder_rigid (p : V3R) (T : Pose R) (r l : R) :
    point_to_cylinder (g p) (moveP T) r l = map2 (point_to_cylinder p T r l).
  Proof.
    unfold point_to_cylinder, map2. cbn [fst snd]. unfold moveP.
    change (trans (compose (P Rg t) T)) with (g (trans T)).
    change (rot (compose (P Rg t) T)) with (mulMM Rg (rot T)).
    rewrite col2_mulMM'. equiv. reflexivity.
  Qed.

  (** ** plane_to_plane: the distance is invariant under every rigid motion *)
  Lemma cross_norm_rot (a b : V3R) : norm (cross (mulMV Rg a) (mulMV Rg b)) = norm (cross a b).
  Proof.
    unfold norm. f_equal.
    pose proof (lagrange (mulMV Rg a) (mulMV Rg b)) as L1. pose proof (lagrange a b) as L2.
    rewrite !rot_dot in L1. lra.
  Qed.

  Theorem plane_to_plane_dist_rigid (p1 n1 p2 n2 : V3R) (eps : R) :
    fst (fst (plane_to_plane (g p1) (mulMV Rg n1) (g p2) (mulMV Rg n2) eps)) = fst (fst (plane_to_plane p1 n1 p2 n2 eps)).
  Proof.
    unfold plane_to_plane. rewrite cross_norm_rot.
    destruct (_ <? _)%o; cbn [fst snd]; auto.
    rewrite point_to_plane_rigid. unfold map2. destruct (point_to_plane p1 p2 n2). reflexivity.
  Qed.
End Rigid.

(** ** argument swap *)
(** line_to_line, general (non-parallel) arm: exact swap of the outputs *)
Theorem line_to_line_swap (lp1 ld1 lp2 ld2 : V3R) (eps : R) :
  eps <= Rabs (1 - (- dot ld1 ld2) * (- dot ld1 ld2)) ->
  line_to_line lp2 ld2 lp1 ld1 eps
  = (let '(d, c1, c2) := line_to_line lp1 ld1 lp2 ld2 eps in (d, c2, c1)).
Proof.
  intros H. unfold line_to_line, line_to_line_full.
  rewrite (dot_comm ld2 ld1).
  cbn [leb abs one sub mul opp ROps]. unfold Rleb.
  destruct (Rle_dec eps (Rabs (1 - - dot ld1 ld2 * - dot ld1 ld2))); [|contradiction].
  f_equal; [f_equal|].
  - f_equal. f_equal. cbn [add sub mul div opp two one ROps].
    replace (dot ld2 (vsub lp2 lp1)) with (- dot ld2 (vsub lp1 lp2)) by (vsimp; ring).
    replace (dot ld1 (vsub lp2 lp1)) with (- dot ld1 (vsub lp1 lp2)) by (vsimp; ring).
    replace (dot (vsub lp2 lp1) (vsub lp2 lp1)) with (dot (vsub lp1 lp2) (vsub lp1 lp2)) by (vsimp; ring).
    unfold Rdiv. ring.
  - cbn [add sub mul div opp ROps]. f_equal. f_equal.
    replace (dot ld2 (vsub lp2 lp1)) with (- dot ld2 (vsub lp1 lp2)) by (vsimp; ring).
    replace (dot ld1 (vsub lp2 lp1)) with (- dot ld1 (vsub lp1 lp2)) by (vsimp; ring).
    unfold Rdiv. ring.
  - cbn [add sub mul div opp ROps]. f_equal. f_equal.
    replace (dot ld2 (vsub lp2 lp1)) with (- dot ld2 (vsub lp1 lp2)) by (vsimp; ring).
    replace (dot ld1 (vsub lp2 lp1)) with (- dot ld1 (vsub lp1 lp2)) by (vsimp; ring).
    unfold Rdiv. ring.
Qed.

(** plane_to_plane, parallel arm with equal unit normals: same distance both ways *)
Theorem plane_to_plane_swap_parallel (p1 p2 n : V3R) (eps : R) :
  0 <= eps ->
  fst (fst (plane_to_plane p2 n p1 n eps)) = fst (fst (plane_to_plane p1 n p2 n eps)).
Proof.
  intros He. unfold plane_to_plane.
  assert (Z : norm (cross n n) = 0).
  { apply norm_zero_iff. vsimp. f_equal; ring. }
  rewrite Z. cbn [ltb ROps]. unfold Rltb. destruct (Rlt_dec eps 0); [lra|].
  unfold point_to_plane. cbn [fst snd abs ROps].
  replace (dot n (vsub p2 p1)) with (- dot n (vsub p1 p2)) by (vsimp; ring).
  apply Rabs_Ropp.
Qed.

(** ** uniform scaling about the origin (s > 0): distances scale, points scale *)
Section Scale.
  Variable s : R.
  Hypothesis Hs : 0 < s.
  Definition smap2 (r : R * V3R) : R * V3R := (s * fst r, vscale s (snd r)).

  Lemma vsub_scale (a b : V3R) : vsub (vscale s a) (vscale s b) = vscale s (vsub a b).
  Proof. clear Hs. vsimp; f_equal; ring. Qed.
  Lemma norm_scale_pos (a : V3R) : norm (vscale s a) = s * norm a.
  Proof. rewrite norm_scale, Rabs_right by lra. reflexivity. Qed.

  Theorem point_to_line_scale (p lp ld : V3R) :
    point_to_line (vscale s p) (vscale s lp) ld = smap2 (point_to_line p lp ld).
  Proof.
    unfold point_to_line, point_to_line_full, smap2. cbn [fst snd]. rewrite vsub_scale.
    f_equal.
    - rewrite <- norm_scale_pos. f_equal. clear Hs. vsimp; f_equal; ring.
    - clear Hs. vsimp; f_equal; ring.
  Qed.

  Theorem point_to_plane_scale (p pp pn : V3R) :
    point_to_plane (vscale s p) (vscale s pp) pn = smap2 (point_to_plane p pp pn).
  Proof.
    unfold point_to_plane, smap2. cbn [fst snd]. rewrite vsub_scale, dot_scale_r.
    f_equal.
    - cbn [abs mul ROps]. rewrite Rabs_mult, (Rabs_right s) by lra. reflexivity.
    - clear Hs. vsimp; f_equal; ring.
  Qed.

  Theorem point_to_line_segment_scale (p a e : V3R) :
    dot (vsub e a) (vsub e a) <> 0 ->
    point_to_line_segment (vscale s p) (vscale s a) (vscale s e) = smap2 (point_to_line_segment p a e).
  Proof.
    intros Hd. unfold point_to_line_segment, smap2. cbn [fst snd]. rewrite !vsub_scale.
    rewrite !dot_scale_l, !dot_scale_r.
    assert (E : @div R ROps (s * (s * dot (vsub p a) (vsub e a))) (s * (s * dot (vsub e a) (vsub e a)))
                = @div R ROps (dot (vsub p a) (vsub e a)) (dot (vsub e a) (vsub e a))).
    { cbn [div ROps]. field. split; [exact Hd|apply Rgt_not_eq; lra]. }
    rewrite E.
    set (tt := fmin (fmax _ _) _).
    replace (vadd (vscale s a) (vscale tt (vscale s (vsub e a)))) with (vscale s (vadd a (vscale tt (vsub e a))))
      by (clear; vsimp; f_equal; ring).
    rewrite vsub_scale, norm_scale_pos. reflexivity.
  Qed.
End Scale.

(** ** non-vacuity: a concrete instance with a non-trivial rotation *)
Example dist_equivariance_nonvacuous :
  is_rotation rotz90 /\
  point_to_line_segment (rigid rotz90 (V 1 2 3) (V 0 2 0)) (rigid rotz90 (V 1 2 3) (V (-1) 0 0)) (rigid rotz90 (V 1 2 3) (V 1 0 0))
  = map2 rotz90 (V 1 2 3) (point_to_line_segment (V 0 2 0) (V (-1) 0 0) (V 1 0 0)).
Proof. split; [apply rotz90_rotation|]. apply point_to_line_segment_rigid. apply rotz90_rotation. Qed.
