(** * Proofs about the model of the Jolt GJK loops (Model/JoltLoop.v), over the reals,
      for ARBITRARY point sets A, B that are given only through support points. *)
From Coq Require Import Reals Lra Psatz List NArith Bool QArith Qreals.
From D3 Require Import Base.Ops Base.Vec Base.RVec Spec.Convex Model.Simplex Model.JoltLoop.
Import ListNotations.
Local Open Scope R_scope.

Section Sets.
  Variables A B : set3.

  (** rows i of Y, P, Q are related: P[i] in A, Q[i] in B, Y[i] = P[i] - Q[i] *)
  Inductive rows : list V3R -> list V3R -> list V3R -> Prop :=
  | rows_nil : rows [] [] []
  | rows_cons y p q Y P Q : A p -> B q -> y = vsub p q -> rows Y P Q -> rows (y :: Y) (p :: P) (q :: Q).

  Lemma rows_app Y P Q p q : rows Y P Q -> A p -> B q -> rows (Y ++ [vsub p q]) (P ++ [p]) (Q ++ [q]).
  Proof.
    induction 1; intros Ha Hb; simpl.
    - constructor; auto. constructor.
    - constructor; auto.
  Qed.

  Lemma rows_select Y P Q sx : rows Y P Q -> forall i,
    rows (update_simplex_y_from i Y sx) (update_simplex_y_from i P sx) (update_simplex_y_from i Q sx).
  Proof.
    induction 1; intros i; simpl.
    - constructor.
    - destruct (N.eqb _ 0); [apply IHrows|constructor; auto].
  Qed.

  Lemma rows_length Y P Q : rows Y P Q -> length P = length Y /\ length Q = length Y.
  Proof. induction 1; simpl; [auto|]. destruct IHrows. split; congruence. Qed.

  Definition srows (s : @dstate R) : Prop := rows (Ys s) (Ps s) (Qs s).

  (** the squared length carried along is that of the search direction *)
  Definition dinv (s : @dstate R) : Prop :=
    v_len_sq s = dot (search_direction s) (search_direction s).

  Lemma gcp_ok_len (Y : list V3R) n prev v l sx :
    get_closest_point_to_origin Y n prev = GcpOk v l sx -> l = dot v v.
  Proof.
    unfold get_closest_point_to_origin.
    match goal with |- context [match ?r with None => GcpErr | Some _ => _ end] => destruct r as [[vv ss]|] end;
      [|discriminate].
    destruct (ltb _ _); intros H; inversion H; reflexivity.
  Qed.

  Lemma dinv0 : dinv (@dstate0 R ROps).
  Proof. unfold dinv, dstate0. cbn [v_len_sq search_direction]. vunfold. ring. Qed.
  Lemma srows0 : srows (@dstate0 R ROps).
  Proof. constructor. Qed.

  (** ** one iteration preserves both invariants *)
  Theorem distance_step_invariant tol maxd p q s g s' :
    srows s -> A p -> B q ->
    distance_step tol maxd p q s = SDone g s' ->
    srows s' /\ (dinv s -> g = Unknown -> dinv s').
  Proof.
    intros Hr Ha Hb. unfold distance_step.
    destruct (andb _ _).
    { intros H; inversion H; subst. split; auto. }
    pose proof (rows_app _ _ _ p q Hr Ha Hb) as Hr1.
    destruct (get_closest_point_to_origin _ _ _) as [| |v l sx] eqn:Eg; [discriminate| |].
    - (* no improvement: last point undone *)
      destruct (N.eqb _ 15).
      { intros H; inversion H; subst. split; [exact Hr|discriminate]. }
      cbn [update_simplex_ypq].
      pose proof (rows_select _ _ _ (all_bits (length (Ys s))) Hr 0%nat) as Hs.
      destruct (leb _ _). { intros H; inversion H; subst. split; [exact Hs|discriminate]. }
      destruct (max_y_length_squared _); [|discriminate].
      destruct (leb _ _). { intros H; inversion H; subst. split; [exact Hs|discriminate]. }
      destruct (negb _); [discriminate|].
      destruct (leb _ _); intros H; inversion H; subst; (split; [exact Hs|]).
      + discriminate.
      + intros Hd _. unfold dinv in *. cbn [v_len_sq search_direction]. rewrite Hd. vsimp. ring.
    - apply gcp_ok_len in Eg. subst l.
      destruct (N.eqb _ 15).
      { intros H; inversion H; subst. split; [exact Hr1|discriminate]. }
      cbn [update_simplex_ypq].
      pose proof (rows_select _ _ _ sx Hr1 0%nat) as Hs.
      destruct (leb _ _). { intros H; inversion H; subst. split; [exact Hs|discriminate]. }
      destruct (max_y_length_squared _); [|discriminate].
      destruct (leb _ _). { intros H; inversion H; subst. split; [exact Hs|discriminate]. }
      destruct (negb _); [discriminate|].
      destruct (leb _ _); intros H; inversion H; subst; (split; [exact Hs|]).
      + discriminate.
      + intros _ _. unfold dinv. cbn [v_len_sq search_direction]. vsimp. ring.
  Qed.

  (** ** support points bound every difference vector along the search direction *)
  Lemma support_pair_bound d p q a b :
    is_support A d p -> is_support B (vneg d) q -> A a -> B b ->
    dot d (vsub a b) <= dot d (vsub p q).
  Proof.
    intros (_ & HA) (_ & HB) Ha Hb. specialize (HA a Ha). specialize (HB b Hb).
    rewrite !dot_sub_r. rewrite (dot_comm d a), (dot_comm d p), (dot_comm d b), (dot_comm d q).
    assert (dot b (vneg d) = - dot b d) by (vsimp; ring).
    assert (dot q (vneg d) = - dot q d) by (vsimp; ring). lra.
  Qed.

  (** ** the early "Clipped" exit is sound: the squared distance really exceeds
         max_distance_squared (for every pair of points) *)
  Theorem clipped_sound tol maxd p q s s' :
    dinv s -> 0 <= maxd ->
    is_support A (search_direction s) p -> is_support B (vneg (search_direction s)) q ->
    distance_step tol maxd p q s = SDone Clipped s' ->
    forall a b, A a -> B b -> maxd < dot (vsub a b) (vsub a b).
  Proof.
    intros Hd Hm HA HB. unfold distance_step.
    destruct (andb _ _) eqn:Ec.
    - intros _ a b Ha Hb.
      apply andb_true_iff in Ec as (E1 & E2).
      cbn [ltb ROps zero] in E1, E2. apply Rltb_true in E1, E2.
      cbn [mul ROps] in E2. rewrite Hd in E2.
      pose proof (support_pair_bound _ p q a b HA HB Ha Hb) as Hs.
      set (d := search_direction s) in *. set (w := vsub p q) in *. set (x := vsub a b) in *.
      pose proof (cauchy_schwarz_sq d x) as Hcs.
      pose proof (dot_self_nonneg d) as Hdd. pose proof (dot_self_nonneg x) as Hxx.
      clearbody d w x.
      assert (dot d w * dot d w <= dot d x * dot d x) by nra.
      assert (Hp : 0 < dot d d) by nra.
      nra.
    - (* no other path returns Clipped *)
      destruct (get_closest_point_to_origin _ _ _) as [| |v l sx]; [discriminate| |];
        destruct (N.eqb _ 15); try discriminate; cbn [update_simplex_ypq];
        destruct (leb _ _); try discriminate;
        destruct (max_y_length_squared _); try discriminate;
        destruct (leb _ _); try discriminate;
        destruct (negb _); try discriminate;
        destruct (leb _ _); discriminate.
  Qed.

  (** ** the separating-axis exit of the boolean test is sound: whenever
         [search_direction . (p - q) < -EPSILON] for support points p, q, every difference
         vector has a negative component along the direction, so the sets are disjoint, and
         at least EPSILON / |direction| apart *)
  Theorem separating_axis_exit_sound tol p q s :
    is_support A (idir s) p -> is_support B (vneg (idir s)) q ->
    dot (idir s) (vsub p q) < - Q2R (1 # 4503599627370496) ->
    intersection_step tol p q s = IDone NoIntersection s /\
    ~ intersect A B /\
    forall a b, A a -> B b -> Q2R (1 # 4503599627370496) <= norm (idir s) * norm (vsub a b).
  Proof.
    intros HA HB Hlt. split; [|split].
    - unfold intersection_step.
      assert (E : ltb (dot (idir s) (vsub p q)) (opp (@EPSILON R ROps)) = true).
      { cbn [ltb opp ROps]. apply Rltb_true. unfold EPSILON. cbn [cst ROps]. exact Hlt. }
      rewrite E. reflexivity.
    - intros (x & Ha & Hb).
      pose proof (support_pair_bound _ p q x x HA HB Ha Hb) as Hs.
      replace (vsub x x) with (@vzero R _) in Hs by (vsimp; f_equal; ring).
      assert (dot (idir s) (@vzero R _) = 0) by (vsimp; ring).
      assert (0 < Q2R (1 # 4503599627370496)) by (unfold Q2R; cbn; lra). lra.
    - intros a b Ha Hb.
      pose proof (support_pair_bound _ p q a b HA HB Ha Hb) as Hs.
      pose proof (cauchy_schwarz_abs (idir s) (vsub a b)) as Hcs.
      assert (Rabs (dot (idir s) (vsub a b)) = - dot (idir s) (vsub a b)).
      { apply Rabs_left.
        assert (0 < Q2R (1 # 4503599627370496)) by (unfold Q2R; cbn; lra). lra. }
      lra.
  Qed.

  (** ** the lower bound GJK never tests on its relative-progress exit (the "duality gap"):
         with v = -search_direction the current closest point of the simplex and w = p - q the
         support point just obtained, every pair of points is at least (v.w)/|v| apart.  The
         distance the loop reports on that exit is |v|, so its excess over the true distance is
         at most |v| - (v.w)/|v| -- a quantity of the final state, not bounded by the code. *)
  Theorem support_lower_bound d p q a b :
    is_support A d p -> is_support B (vneg d) q -> A a -> B b ->
    - dot d (vsub p q) <= norm d * norm (vsub a b).
  Proof.
    intros HA HB Ha Hb.
    pose proof (support_pair_bound d p q a b HA HB Ha Hb) as Hs.
    pose proof (cauchy_schwarz_abs d (vsub a b)) as Hcs.
    pose proof (Rle_abs (- dot d (vsub a b))) as Hab. rewrite Rabs_Ropp in Hab. lra.
  Qed.

  (** the driver hands every step support points of the two sets, so all rows stay related and
      the carried squared length stays that of the direction, along every execution *)
  Theorem distance_loop_invariant (sA sB : V3R -> V3R) tol maxd san :
    (forall d, A (sA d)) -> (forall d, B (sB d)) ->
    forall fuel s it dist a b s' it',
      srows s -> distance_loop fuel tol maxd san sA sB s it = DOk dist a b s' it' -> srows s'.
  Proof.
    intros HsA HsB. induction fuel as [|fuel IH]; intros s it dist a b s' it' Hr; [discriminate|].
    cbn [distance_loop].
    destruct (distance_step _ _ _ _ _) as [| |g s1] eqn:Es; try discriminate.
    pose proof (distance_step_invariant _ _ _ _ _ _ _ Hr (HsA _) (HsB _) Es) as (Hr1 & _).
    destruct g; try discriminate.
    - unfold finish_distance.
      destruct (calculate_closest_points _ _ _) as [[a0 b0]|]; [|discriminate].
      destruct (negb _); [discriminate|]. destruct (ltb _ _); intros H; inversion H; subst; auto.
    - unfold finish_distance.
      destruct (calculate_closest_points _ _ _) as [[a0 b0]|]; [|discriminate].
      destruct (negb _); [discriminate|]. destruct (ltb _ _); intros H; inversion H; subst; auto.
    - apply IH. exact Hr1.
  Qed.
End Sets.

(** ** closest points: whatever the weights, the difference of the two returned points is the
       same combination of the rows of Y (so |a - b| is the length of that combination) *)
Lemma closest_points_difference A B Y P Q a b :
  rows A B Y P Q -> calculate_closest_points Y P Q = Some (a, b) ->
  exists ws, length ws = length Y /\ a = comb ws P /\ b = comb ws Q /\ vsub a b = comb ws Y.
Proof.
  intros Hr. unfold calculate_closest_points.
  destruct Hr as [|y0 p0 q0 Y P Q _ _ E0 Hr]; [discriminate|].
  destruct Hr as [|y1 p1 q1 Y P Q _ _ E1 Hr].
  { intros H; inversion H; subst. exists [1]. repeat split; cbn [comb]; vsimp; f_equal; ring. }
  destruct Hr as [|y2 p2 q2 Y P Q _ _ E2 Hr].
  { destruct (get_barycentric_coordinates_line y0 y1) as [u v].
    intros H; inversion H; subst. exists [u; v]. unfold lin2. repeat split; cbn [comb]; vsimp; f_equal; ring. }
  destruct Hr as [|y3 p3 q3 Y P Q _ _ E3 Hr].
  { destruct (get_barycentric_coordinates_plane y0 y1 y2) as [[u v] w].
    intros H; inversion H; subst. exists [u; v; w]. unfold lin2. repeat split; cbn [comb]; vsimp; f_equal; ring. }
  destruct Hr as [|y4 p4 q4 Y P Q _ _ E4 Hr].
  { destruct (get_barycentric_coordinates_tetrahedron y0 y1 y2 y3) as [[[u v] w] x].
    intros H; inversion H; subst. exists [u; v; w; x]. unfold lin2. repeat split; cbn [comb]; vsimp; f_equal; ring. }
  discriminate.
Qed.
