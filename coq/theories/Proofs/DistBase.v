(** * Scalar and vector facts shared by the proofs about [Model/DistPrim.v] over [ROps]. *)
From Coq Require Import Reals Lra Psatz List Bool.
From D3 Require Import Base.Ops Base.Vec Base.RVec Base.RVec2 Spec.Convex Spec.Prims Model.DistPrim.
Local Open Scope R_scope.

(** ** booleans of [ROps] *)
Ltac rb_hyp H :=
  first [ apply Rleb_true in H | apply Rleb_false in H | apply Rltb_true in H | apply Rltb_false in H
        | apply Reqb_true in H | apply Reqb_false in H ].
(** destruct the first real comparison found in the goal *)
Ltac rb_case :=
  let E := fresh "E" in
  match goal with
  | |- context [Rleb ?a ?b] => destruct (Rleb a b) eqn:E; rb_hyp E
  | |- context [Rltb ?a ?b] => destruct (Rltb a b) eqn:E; rb_hyp E
  | |- context [Reqb ?a ?b] => destruct (Reqb a b) eqn:E; rb_hyp E
  end.
Ltac ops_R := cbn [zero one add sub mul div opp sqrt abs leb ltb eqb ROps] in *.

Lemma fmin_R a b : fmin (O:=ROps) a b = Rmin a b.
Proof. unfold fmin, Rmin. ops_R. rb_case; destruct (Rle_dec a b); lra. Qed.
Lemma fmax_R a b : fmax (O:=ROps) a b = Rmax a b.
Proof. unfold fmax, Rmax. ops_R. rb_case; destruct (Rle_dec a b); lra. Qed.

(** the three ways a clip can end *)
Lemma clip_spec (x lo hi : R) :
  lo <= hi ->
  lo <= clip (O:=ROps) x lo hi <= hi /\
  (clip (O:=ROps) x lo hi = x \/ (clip (O:=ROps) x lo hi = lo /\ x <= lo) \/ (clip (O:=ROps) x lo hi = hi /\ hi <= x)).
Proof.
  intros H. unfold clip, fmin, fmax. ops_R.
  destruct (Rltb x lo) eqn:E1; rb_hyp E1.
  - destruct (Rltb hi lo) eqn:E2; rb_hyp E2; [lra|]. split; [lra|]. right; left; lra.
  - destruct (Rltb hi x) eqn:E2; rb_hyp E2.
    + split; [lra|]. right; right; lra.
    + split; [lra|]. left; reflexivity.
Qed.

Definition clamp01 (x : R) : R := fmin (O:=ROps) (fmax (O:=ROps) x 0) 1.
Lemma clamp01_spec x :
  0 <= clamp01 x <= 1 /\
  (clamp01 x = x \/ (clamp01 x = 0 /\ x <= 0) \/ (clamp01 x = 1 /\ 1 <= x)).
Proof. apply (clip_spec x 0 1). lra. Qed.

Lemma half_R : half (O:=ROps) = / 2.
Proof. unfold half. cbn [cst ROps]. unfold Q2R. simpl. lra. Qed.

(** ** vector algebra at the level of [dot] *)
Lemma vsub_vadd_vscale (p s d : V3R) (t : R) :
  vsub p (vadd s (vscale t d)) = vsub (vsub p s) (vscale t d).
Proof. veq. Qed.
Lemma dot_sub_scale_sq (w d : V3R) (u : R) :
  dot (vsub w (vscale u d)) (vsub w (vscale u d)) = dot w w - 2 * u * dot w d + u * u * dot d d.
Proof. vsimp; ring. Qed.
Lemma norm_sub_self (a : V3R) : norm (vsub a a) = 0.
Proof. apply norm_zero_iff. veq. Qed.
Lemma vsub_eq_zero (a b : V3R) : vsub a b = vzero -> a = b.
Proof. destruct a, b. unfold vsub, vzero. ops_R. simpl. intros H. injection H as H1 H2 H3. f_equal; lra. Qed.
Lemma norm_abs_of_sq (a : V3R) (t : R) : dot a a = t * t -> norm a = Rabs t.
Proof. intros H. unfold norm. ops_R. rewrite H. apply sqrt_sq_abs. Qed.

(** [optimal] for a point against a set: the form every point_to_X theorem has *)
Definition closest_on (S : set3) (p : V3R) (d : R) : Prop := forall x, S x -> d <= norm (vsub p x).
Lemma closest_on_optimal (S : set3) p d : closest_on S p d <-> optimal (point_set p) S d.
Proof.
  unfold closest_on, optimal, dist_ge, point_set. split.
  - intros H a b -> Hb. auto.
  - intros H x Hx. apply H; auto.
Qed.

(** a returned point that is a member, with d computed as the norm of the difference *)
Lemma feasible_point (S : set3) (p c : V3R) : S c -> feasible (point_set p) S (norm (vsub p c)) p c.
Proof. intros H. split; [reflexivity|]. split; [exact H|]. split; [apply norm_nonneg|reflexivity]. Qed.

(** variational inequality => closest point (no convexity needed for this direction) *)
Lemma variational_closest (S : set3) (p c : V3R) :
  (forall x, S x -> dot (vsub p c) (vsub x c) <= 0) -> closest_on S p (norm (vsub p c)).
Proof.
  intros H x Hx. specialize (H x Hx). apply norm_le_of_sq.
  replace (vsub p x) with (vsub (vsub p c) (vsub x c)) by veq.
  set (u := vsub p c) in *. set (v := vsub x c) in *.
  replace (dot (vsub u v) (vsub u v)) with (dot u u - 2 * dot u v + dot v v) by (vsimp; ring).
  pose proof (dot_self_nonneg v). lra.
Qed.

(** equality of model outputs without unfolding everything: use
    [apply pair_equal_spec in H; destruct H as [H1 H2]] rather than [injection]
    ([injection] normalises the vector terms down to coordinates). *)
Lemma pair3_eq {A B C : Type} (a a' : A) (b b' : B) (c c' : C) :
  (a, b, c) = (a', b', c') -> a = a' /\ b = b' /\ c = c'.
Proof. intros H. inversion H. auto. Qed.
