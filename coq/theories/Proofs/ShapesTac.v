(** * Shared tactics and small lemmas for the C03 / C04 / C13 proofs: evaluating the
      generic model at the real-number instance. *)
From Coq Require Import Reals Lra Psatz QArith Qreals List.
From D3 Require Import Base.Ops Base.Vec Base.RVec Base.RVec2 Spec.Convex Spec.Shapes Model.Support.
Local Close Scope Q_scope.
Local Open Scope R_scope.

(** the literals of the source at the real instance *)
Lemma half_R : @half R ROps = / 2.
Proof. unfold half. cbn [cst ROps]. unfold Q2R. cbn. lra. Qed.
Lemma mhalf_R : @mhalf R ROps = - / 2.
Proof. unfold mhalf. cbn [cst ROps]. unfold Q2R. cbn. lra. Qed.
Lemma EPSILON10_R_pos : 0 < @EPSILON10 R ROps.
Proof. unfold EPSILON10. cbn [cst ROps]. unfold Q2R. cbn. lra. Qed.
Lemma EPSILON_R_pos : 0 < @EPSILON R ROps.
Proof. unfold EPSILON. cbn [cst ROps]. unfold Q2R. cbn. lra. Qed.

(** boolean tests of [ROps] to propositions: destruct one test, keeping the fact *)
Ltac rops := cbn [zero one add sub mul div opp sqrt abs leb ltb eqb ROps] in *.
Ltac case_eqb a b H :=
  let E := fresh "E" in
  destruct (Reqb a b) eqn:E; [apply Reqb_true in E | apply Reqb_false in E]; rename E into H.
Ltac case_ltb a b H :=
  let E := fresh "E" in
  destruct (Rltb a b) eqn:E; [apply Rltb_true in E | apply Rltb_false in E]; rename E into H.
Ltac case_leb a b H :=
  let E := fresh "E" in
  destruct (Rleb a b) eqn:E; [apply Rleb_true in E | apply Rleb_false in E]; rename E into H.
