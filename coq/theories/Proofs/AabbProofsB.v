(** * C04, part B: cylinder, disk, cone, ellipse boxes are exact; the ellipsoid box is
      exact for signed permutation matrices, never too large, and too small for a general
      rotation (finding F9); RigidBody.aabb() bounds the stored vertices (body frame) and is
      wrong in the world frame; broad-phase completeness corollary. *)
From Coq Require Import Reals Lra Lia Psatz Nsatz List.
From D3 Require Import Base.Ops Base.Vec Base.RVec Base.RVec2 Spec.Convex Spec.Shapes
  Model.Support Model.Aabb Proofs.ShapesTac Proofs.SupportA Proofs.SupportB Proofs.AabbProofs.
Import ListNotations.
Local Open Scope R_scope.

(** ** planar disk of radius r: extent along (a, b) is r * sqrt(a^2 + b^2), attained *)
Lemma disk2_extent (a b r : R) : 0 <= r ->
  (forall x y, x * x + y * y <= r * r -> a * x + b * y <= r * R_sqrt.sqrt (a * a + b * b)) /\
  (exists x y, x * x + y * y <= r * r /\ a * x + b * y = r * R_sqrt.sqrt (a * a + b * b)).
Proof.
  intros Hr. split.
  - intros x y H. pose proof (cs2_radius x y a b r Hr H). lra.
  - assert (Hq : 0 <= a * a + b * b) by nra.
    pose proof (sqrt_pos (a * a + b * b)) as Hs0. pose proof (sqrt_sqrt _ Hq) as Hss.
    set (s := R_sqrt.sqrt (a * a + b * b)) in *. clearbody s.
    destruct (Req_dec s 0) as [E|E].
    + exists 0, 0. split; [nra|]. rewrite E. ring.
    + exists (r * a / s), (r * b / s). split.
      * replace (r * a / s * (r * a / s) + r * b / s * (r * b / s)) with (r * r * ((a * a + b * b) / (s * s))) by (field; auto).
        rewrite <- Hss. replace (s * s / (s * s)) with 1 by (field; auto). lra.
      * replace (a * (r * a / s) + b * (r * b / s)) with (r * ((a * a + b * b) / s)) by (field; auto).
        rewrite <- Hss. field; auto.
Qed.

(** _circle_extent(axis)[i] = sqrt of the sum of the squares of the OTHER two components of the
    axis (column 2 of the pose); for a rotation this is sqrt(x_i^2 + y_i^2) of row i, because the
    column and the row are both unit vectors (/repo 53f58ad; the earlier sqrt(max(0, 1 - a_i^2))
    is the same real number but cancels in binary64 for an almost aligned axis: finding F27) *)
Lemma circle_extent_rotation (m : M3 R) i : is_rotation m -> (i < 3)%nat ->
  nthv (circle_extent (col m 2)) i
  = R_sqrt.sqrt (vx (row m i) * vx (row m i) + vy (row m i) * vy (row m i)).
Proof.
  intros HR Hi. pose proof (rotation_col_unit m 2 HR) as Hc.
  destruct (rotation_row_unit m HR) as (R0 & R1 & R2).
  destruct m as [[m00 m01 m02] [m10 m11 m12] [m20 m21 m22]].
  unfold circle_extent, vsqrt, vmap, vmul, col, nthv in *. vunfold. cbn [vx vy vz r0 r1 r2] in *. rops.
  destruct i as [|[|[|i]]]; [| | |lia]; cbn [row r0 r1 r2 vx vy vz]; f_equal; lra.
Qed.

Lemma Rabs_mul_sign (c z : R) : 0 <= z -> exists s, (s = z \/ s = - z) /\ c * s = Rabs c * z.
Proof.
  intros Hz. unfold Rabs. destruct (Rcase_abs c).
  - exists (- z). split; [auto|ring].
  - exists z. split; [auto|ring].
Qed.

(** ** cylinder *)
Lemma cylinder_K_sym r l k : cylinder_K r l k -> cylinder_K r l (vneg k).
Proof.
  intros [A B]. destruct k as [x y z]. unfold cylinder_K, vneg in *. cbn [vx vy vz] in *. rops.
  split; [nra|]. rewrite Rabs_Ropp. auto.
Qed.

(** the support value of the canonical cylinder along ANY direction d *)
Lemma cylinder_K_extent (d : V3R) (r l : R) : 0 <= r -> 0 <= l ->
  let e := / 2 * l * Rabs (vz d) + r * R_sqrt.sqrt (vx d * vx d + vy d * vy d) in
  (forall k, cylinder_K r l k -> dot d k <= e) /\ (exists k, cylinder_K r l k /\ dot d k = e).
Proof.
  intros Hr Hl. destruct d as [a b c]. cbn [vx vy vz]. cbv zeta.
  destruct (disk2_extent a b r Hr) as [Hub (x0 & y0 & Hin & Heq)].
  split.
  - intros [x y z] [Hxy Hz]. cbn [vx vy vz] in *. vunfold. cbn [vx vy vz].
    specialize (Hub x y Hxy). pose proof (mul_le_abs c z) as Hm. pose proof (Rabs_pos c). nra.
  - destruct (Rabs_mul_sign c (/ 2 * l)) as (s & Hs & Es); [lra|].
    exists (V x0 y0 s). split.
    + unfold cylinder_K. cbn [vx vy vz]. split; auto.
      destruct Hs as [-> | ->]; [rewrite Rabs_pos_eq by lra|rewrite Rabs_Ropp, Rabs_pos_eq by lra]; lra.
    + vunfold. cbn [vx vy vz]. lra.
Qed.

Theorem cylinder_aabb_exact : forall T r l, is_rotation (rot T) -> 0 <= r -> 0 <= l ->
  aabb_exact (cylinder_set T r l) (fst (cylinder_aabb T r l)) (snd (cylinder_aabb T r l)).
Proof.
  intros T r l HR Hr Hl. unfold cylinder_aabb, cylinder_set. cbn [fst snd].
  apply image_aabb_sym; [apply cylinder_K_sym|].
  intros i Hi.
  replace (nthv (vadd (vscale (half * l) (vabs (col (rot T) 2))) (vscale r (circle_extent (col (rot T) 2)))) i)
    with (/ 2 * l * Rabs (vz (row (rot T) i))
          + r * R_sqrt.sqrt (vx (row (rot T) i) * vx (row (rot T) i) + vy (row (rot T) i) * vy (row (rot T) i))).
  - apply cylinder_K_extent; auto.
  - rewrite <- circle_extent_rotation by auto. rewrite half_R. rewrite <- nthv_col2.
    generalize (circle_extent (col (rot T) 2)) (col (rot T) 2). intros e a.
    destruct e, a. destruct i as [|[|i]]; reflexivity.
Qed.

(** ** disk *)
Lemma aabb_exact_ext (A B : set3) lo hi : (forall p, A p <-> B p) -> aabb_exact A lo hi -> aabb_exact B lo hi.
Proof.
  intros H [He Ht]. split.
  - intros x Hx. apply He. apply H; auto.
  - intros k Hk. destruct (Ht k Hk) as [(xh & Hxh & Eh) (xl & Hxl & El)].
    split; [exists xh|exists xl]; split; auto; apply H; auto.
Qed.

Lemma disk_K_sym r k : disk_K r k -> disk_K r (vneg k).
Proof.
  intros [A B]. destruct k as [x y z]. unfold disk_K, vneg in *. cbn [vx vy vz] in *. rops.
  split; [lra|nra].
Qed.

Lemma disk_K_extent (d : V3R) (r : R) : 0 <= r ->
  let e := r * R_sqrt.sqrt (vx d * vx d + vy d * vy d) in
  (forall k, disk_K r k -> dot d k <= e) /\ (exists k, disk_K r k /\ dot d k = e).
Proof.
  intros Hr. destruct d as [a b c]. cbn [vx vy]. cbv zeta.
  destruct (disk2_extent a b r Hr) as [Hub (x0 & y0 & Hin & Heq)].
  split.
  - intros [x y z] [Hz Hxy]. cbn [vx vy vz] in *. subst z. vunfold. cbn [vx vy vz].
    specialize (Hub x y Hxy). lra.
  - exists (V x0 y0 0). split.
    + unfold disk_K. cbn [vx vy vz]. split; auto.
    + vunfold. cbn [vx vy vz]. lra.
Qed.

Theorem disk_aabb_exact : forall c r n, 0 <= r -> dot n n = 1 ->
  aabb_exact (disk_set c r n) (fst (disk_aabb c r n)) (snd (disk_aabb c r n)).
Proof.
  intros c r n Hr Hn.
  pose proof (plane_basis_rotation n Hn) as Hrot.
  destruct (plane_basis_from_normal n) as [x y]. cbn [fst snd] in Hrot.
  apply (aabb_exact_ext (image (P (of_cols x y n) c) (disk_K r))).
  { intros p. symmetry. apply disk_set_image; auto. }
  unfold disk_aabb. cbn [fst snd].
  change c with (trans (P (of_cols x y n) c)) at 2 3.
  apply image_aabb_sym; [apply disk_K_sym|].
  intros i Hi. cbn [rot].
  replace (nthv (vscale r (circle_extent n)) i)
    with (r * R_sqrt.sqrt (vx (row (of_cols x y n) i) * vx (row (of_cols x y n) i)
                           + vy (row (of_cols x y n) i) * vy (row (of_cols x y n) i))).
  - apply disk_K_extent; auto.
  - rewrite <- (circle_extent_rotation (of_cols x y n)) by auto.
    replace (col (of_cols x y n) 2) with n by (destruct x, y, n; reflexivity).
    generalize (circle_extent n). intros e. destruct e. destruct i as [|[|i]]; reflexivity.
Qed.

(** ** ellipse (the two axes are arbitrary vectors) *)
Lemma ellipse_K_sym r0 r1 k : ellipse_K r0 r1 k -> ellipse_K r0 r1 (vneg k).
Proof.
  intros [A B]. destruct k as [x y z]. unfold ellipse_K, vneg in *. cbn [vx vy vz] in *. rops.
  split; [lra|].
  replace (- x / r0 * (- x / r0) + - y / r1 * (- y / r1)) with (x / r0 * (x / r0) + y / r1 * (y / r1)) by (unfold Rdiv; ring).
  auto.
Qed.

Lemma ellipse_K_extent (d : V3R) (r0 r1 : R) : 0 < r0 -> 0 < r1 ->
  let e := R_sqrt.sqrt (r0 * vx d * (r0 * vx d) + r1 * vy d * (r1 * vy d)) in
  (forall k, ellipse_K r0 r1 k -> dot d k <= e) /\ (exists k, ellipse_K r0 r1 k /\ dot d k = e).
Proof.
  intros H0 H1. destruct d as [a b c]. cbn [vx vy]. cbv zeta.
  set (w0 := r0 * a). set (w1 := r1 * b).
  assert (Hq : 0 <= w0 * w0 + w1 * w1) by nra.
  pose proof (sqrt_pos (w0 * w0 + w1 * w1)) as Hs0. pose proof (sqrt_sqrt _ Hq) as Hss.
  pose proof (fun x y => cs2_radius x y w0 w1 1 ltac:(lra)) as CS.
  set (N := R_sqrt.sqrt (w0 * w0 + w1 * w1)) in *. clearbody N.
  split.
  - intros [x y z] [Hz Hxy]. cbn [vx vy vz] in *. subst z. vunfold. cbn [vx vy vz].
    specialize (CS (x / r0) (y / r1)). 
    assert (Hle : x / r0 * w0 + y / r1 * w1 <= 1 * N) by (apply CS; lra).
    replace (a * x + b * y + c * 0) with (x / r0 * w0 + y / r1 * w1) by (subst w0 w1; field; lra). lra.
  - destruct (Req_dec N 0) as [E|E].
    + exists (V 0 0 0). split.
      * unfold ellipse_K. cbn [vx vy vz]. split; auto. unfold Rdiv. ring_simplify. lra.
      * vunfold. cbn [vx vy vz]. rewrite E. ring.
    + exists (V (r0 * w0 / N) (r1 * w1 / N) 0). split.
      * unfold ellipse_K. cbn [vx vy vz]. split; auto.
        replace (r0 * w0 / N / r0 * (r0 * w0 / N / r0) + r1 * w1 / N / r1 * (r1 * w1 / N / r1))
          with ((w0 * w0 + w1 * w1) / (N * N)) by (field; repeat split; lra).
        rewrite <- Hss. replace (N * N / (N * N)) with 1 by (field; auto). lra.
      * vunfold. cbn [vx vy vz].
        replace (a * (r0 * w0 / N) + b * (r1 * w1 / N) + c * 0) with ((w0 * w0 + w1 * w1) / N) by (subst w0 w1; field; auto).
        rewrite <- Hss. field; auto.
Qed.

Theorem ellipse_aabb_exact : forall c a0 a1 r0 r1, 0 < r0 -> 0 < r1 ->
  aabb_exact (ellipse_set c a0 a1 r0 r1) (fst (ellipse_aabb c a0 a1 r0 r1)) (snd (ellipse_aabb c a0 a1 r0 r1)).
Proof.
  intros c a0 a1 r0 r1 H0 H1. unfold ellipse_aabb, ellipse_set. cbn [fst snd].
  change c with (trans (P (of_cols a0 a1 (cross a0 a1)) c)) at 2 3.
  apply image_aabb_sym; [apply ellipse_K_sym|].
  intros i Hi. cbn [rot].
  set (x := cross a0 a1). clearbody x.
  replace (nthv (vsqrt (vadd (vmul (vscale r0 a0) (vscale r0 a0)) (vmul (vscale r1 a1) (vscale r1 a1)))) i)
    with (R_sqrt.sqrt (r0 * vx (row (of_cols a0 a1 x) i) * (r0 * vx (row (of_cols a0 a1 x) i))
                       + r1 * vy (row (of_cols a0 a1 x) i) * (r1 * vy (row (of_cols a0 a1 x) i)))).
  - apply ellipse_K_extent; auto.
  - destruct a0, a1, x. destruct i as [|[|i]]; reflexivity.
Qed.

(** ** cone (not centrally symmetric: base rim against apex on every axis) *)
Lemma fmin_shift (t x y : R) : fmin (t + x) (t + y) = t + fmin x y.
Proof. unfold fmin. rops. case_ltb (t + y) (t + x) A; case_ltb y x B; lra. Qed.
Lemma fmax_shift (t x y : R) : fmax (t + x) (t + y) = t + fmax x y.
Proof. unfold fmax. rops. case_ltb (t + x) (t + y) A; case_ltb x y B; lra. Qed.

Lemma cone_K_range (d : V3R) (r h : R) : 0 <= r -> 0 < h ->
  let s := R_sqrt.sqrt (vx d * vx d + vy d * vy d) in
  (forall k, cone_K r h k -> fmin (- (r * s)) (h * vz d) <= dot d k <= fmax (r * s) (h * vz d)) /\
  (exists k, cone_K r h k /\ dot d k = fmax (r * s) (h * vz d)) /\
  (exists k, cone_K r h k /\ dot d k = fmin (- (r * s)) (h * vz d)).
Proof.
  intros Hr Hh. destruct d as [a b c]. cbn [vx vy vz]. cbv zeta.
  assert (Es : R_sqrt.sqrt (- a * - a + - b * - b) = R_sqrt.sqrt (a * a + b * b)) by (f_equal; ring).
  pose proof (sqrt_pos (a * a + b * b)) as Hs0.
  assert (Hapex : cone_K r h (V 0 0 h)).
  { unfold cone_K. cbn [vx vy vz]. split; [lra|]. pose proof (sqr_nonneg (r * (1 - h / h))). lra. }
  assert (Hbase : forall x y, x * x + y * y <= r * r -> cone_K r h (V x y 0)).
  { intros x y H. unfold cone_K. cbn [vx vy vz]. split; [lra|]. unfold Rdiv. rewrite Rmult_0_l, Rminus_0_r, Rmult_1_r. auto. }
  split; [|split].
  - intros k Hk.
    destruct (SupportB.cone_bound r h a b c k Hr Hh Hk) as (l1 & Hl1 & U).
    destruct (SupportB.cone_bound r h (- a) (- b) (- c) k Hr Hh Hk) as (l2 & Hl2 & L).
    rewrite Es in L.
    replace (dot k (V (- a) (- b) (- c))) with (- dot (V a b c) k) in L by (destruct k; vunfold; ring).
    rewrite (dot_comm k) in U.
    set (s := R_sqrt.sqrt (a * a + b * b)) in *. clearbody s.
    pose proof (fmin_le_l (- (r * s)) (h * c)). pose proof (fmin_le_r (- (r * s)) (h * c)).
    pose proof (fmax_ge_l (r * s) (h * c)). pose proof (fmax_ge_r (r * s) (h * c)).
    split; nra.
  - destruct (disk2_extent a b r Hr) as [_ (x0 & y0 & Hin & Heq)].
    destruct (fmax_cases (r * R_sqrt.sqrt (a * a + b * b)) (h * c)) as [E|E]; rewrite E.
    + exists (V x0 y0 0). split; [apply Hbase; auto|]. vunfold. cbn [vx vy vz]. lra.
    + exists (V 0 0 h). split; auto. vunfold. cbn [vx vy vz]. ring.
  - destruct (disk2_extent (- a) (- b) r Hr) as [_ (x0 & y0 & Hin & Heq)]. rewrite Es in Heq.
    destruct (fmin_cases (- (r * R_sqrt.sqrt (a * a + b * b))) (h * c)) as [E|E]; rewrite E.
    + exists (V x0 y0 0). split; [apply Hbase; auto|]. vunfold. cbn [vx vy vz]. lra.
    + exists (V 0 0 h). split; auto. vunfold. cbn [vx vy vz]. ring.
Qed.

Theorem cone_aabb_exact : forall T r h, is_rotation (rot T) -> 0 <= r -> 0 < h ->
  aabb_exact (cone_set T r h) (fst (cone_aabb T r h)) (snd (cone_aabb T r h)).
Proof.
  intros T r h HR Hr Hh. unfold cone_set.
  assert (Hb : forall i, (i < 3)%nat ->
    nthv (fst (cone_aabb T r h)) i
    = nthv (trans T) i + fmin (- (r * R_sqrt.sqrt (vx (row (rot T) i) * vx (row (rot T) i) + vy (row (rot T) i) * vy (row (rot T) i))))
                              (h * vz (row (rot T) i)) /\
    nthv (snd (cone_aabb T r h)) i
    = nthv (trans T) i + fmax (r * R_sqrt.sqrt (vx (row (rot T) i) * vx (row (rot T) i) + vy (row (rot T) i) * vy (row (rot T) i)))
                              (h * vz (row (rot T) i))).
  { intros i Hi. rewrite <- !circle_extent_rotation by auto.
    rewrite <- fmin_shift, <- fmax_shift. unfold cone_aabb. cbn [fst snd].
    rewrite nthv_vmin, nthv_vmax, !nthv_vadd, !nthv_vsub, <- nthv_col2.
    generalize (circle_extent (col (rot T) 2)) (col (rot T) 2) (trans T). intros e a t.
    destruct e as [e0 e1 e2], a as [a0 a1 a2], t as [t0 t1 t2].
    destruct i as [|[|[|i]]]; [| | |lia]; vunfold; cbn [nthv vx vy vz]; split; f_equal; ring. }
  split.
  - intros x (k & Hk & ->) i Hi. destruct (Hb i Hi) as [-> ->].
    rewrite nthv_transform.
    destruct (cone_K_range (row (rot T) i) r h Hr Hh) as [Hrange _].
    specialize (Hrange k Hk). lra.
  - intros i Hi. destruct (Hb i Hi) as [-> ->].
    destruct (cone_K_range (row (rot T) i) r h Hr Hh) as [_ [(kh & Hkh & Eh) (kl & Hkl & El)]].
    split; [exists (transform_point T kh)|exists (transform_point T kl)];
      (split; [eexists; eauto|rewrite nthv_transform; lra]).
Qed.

(** ** ellipsoid: what the code computes for a rotation.  The column norms are the radii,
       so [extents] is [R * radii] again and extent_k = max_i sum_j R_ij R_kj radii_j. *)
Definition ell_ext (Rm : M3 R) (a : V3R) (k : nat) : R :=
  max3 (dot (r0 Rm) (vmul (row Rm k) a)) (dot (r1 Rm) (vmul (row Rm k) a)) (dot (r2 Rm) (vmul (row Rm k) a)).

Lemma sqrt_sq_scaled (a x y z : R) : 0 < a -> x * x + y * y + z * z = 1 ->
  R_sqrt.sqrt (x * a * (x * a) + y * a * (y * a) + z * a * (z * a)) = a.
Proof.
  intros Ha H. replace (x * a * (x * a) + y * a * (y * a) + z * a * (z * a)) with (a * a) by nra.
  apply sqrt_square. lra.
Qed.

Lemma ellipsoid_aabb_rotation (T : Pose R) (a : V3R) :
  is_rotation (rot T) -> 0 < vx a -> 0 < vy a -> 0 < vz a ->
  ellipsoid_aabb T a =
  (vsub (trans T) (V (ell_ext (rot T) a 0) (ell_ext (rot T) a 1) (ell_ext (rot T) a 2)),
   vadd (trans T) (V (ell_ext (rot T) a 0) (ell_ext (rot T) a 1) (ell_ext (rot T) a 2))).
Proof.
  intros HR Ha0 Ha1 Ha2. apply is_rotation_cols in HR. destruct HR as (C0 & C1 & C2 & _).
  destruct T as [[[m00 m01 m02] [m10 m11 m12] [m20 m21 m22]] t]. destruct a as [a0 a1 a2].
  unfold cols_orthonormal, col, nthv, dot in C0, C1, C2. cbn [vx vy vz r0 r1 r2 rot] in *. rops.
  unfold ellipsoid_aabb, ell_ext. cbn [rot trans r0 r1 r2 row].
  unfold norm, col, vmul, nthv, dot. cbn [vx vy vz r0 r1 r2]. rops.
  rewrite (sqrt_sq_scaled a0 m00 m10 m20) by lra.
  rewrite (sqrt_sq_scaled a1 m01 m11 m21) by lra.
  rewrite (sqrt_sq_scaled a2 m02 m12 m22) by lra.
  replace (m00 * a0 / a0) with m00 by (field; lra). replace (m01 * a1 / a1) with m01 by (field; lra).
  replace (m02 * a2 / a2) with m02 by (field; lra). replace (m10 * a0 / a0) with m10 by (field; lra).
  replace (m11 * a1 / a1) with m11 by (field; lra). replace (m12 * a2 / a2) with m12 by (field; lra).
  replace (m20 * a0 / a0) with m20 by (field; lra). replace (m21 * a1 / a1) with m21 by (field; lra).
  replace (m22 * a2 / a2) with m22 by (field; lra).
  reflexivity.
Qed.

(** the TRUE box of an ellipsoid under any pose: extent_k = sqrt(sum_j (radii_j R_kj)^2) *)
Lemma ellipsoid_K_sym a k : ellipsoid_K a k -> ellipsoid_K a (vneg k).
Proof.
  unfold ellipsoid_K. destruct k as [x y z]. unfold vneg. cbn [vx vy vz]. rops. intros H.
  replace (- x / vx a * (- x / vx a) + - y / vy a * (- y / vy a) + - z / vz a * (- z / vz a))
    with (x / vx a * (x / vx a) + y / vy a * (y / vy a) + z / vz a * (z / vz a)) by (unfold Rdiv; ring).
  exact H.
Qed.

Definition ell_true (d a : V3R) : R := norm (vmul a d).

Lemma ellipsoid_K_extent (d a : V3R) : 0 < vx a -> 0 < vy a -> 0 < vz a ->
  (forall k, ellipsoid_K a k -> dot d k <= ell_true d a) /\ (exists k, ellipsoid_K a k /\ dot d k = ell_true d a).
Proof.
  intros H0 H1 H2. unfold ell_true.
  set (w := vmul a d).
  pose proof (norm_nonneg w) as Hp. pose proof (norm_sq w) as Hsq.
  split.
  - intros k Hk. unfold ellipsoid_K in Hk.
    set (y := V (vx k / vx a) (vy k / vy a) (vz k / vz a)).
    assert (Hy : dot y y <= 1 * 1) by (subst y; vunfold; cbn [vx vy vz]; lra).
    pose proof (cs3_radius y w 1 ltac:(lra) Hy) as Hc.
    replace (dot d k) with (dot y w); [lra|].
    subst y w. destruct k as [k0 k1 k2], d as [d0 d1 d2], a as [a0 a1 a2]. vunfold. cbn [vx vy vz] in *. field. repeat split; lra.
  - destruct (Req_dec (norm w) 0) as [E|E].
    + exists vzero. split.
      * unfold ellipsoid_K, vzero. rops. cbn [vx vy vz]. unfold Rdiv. ring_simplify. lra.
      * rewrite E. destruct d as [d0 d1 d2]. vunfold. cbn [vx vy vz]. ring.
    + set (N := norm w) in *.
      exists (vdivs (vmul a w) N). split.
      * unfold ellipsoid_K.
        replace (vx (vdivs (vmul a w) N) / vx a * (vx (vdivs (vmul a w) N) / vx a) +
                 vy (vdivs (vmul a w) N) / vy a * (vy (vdivs (vmul a w) N) / vy a) +
                 vz (vdivs (vmul a w) N) / vz a * (vz (vdivs (vmul a w) N) / vz a))
          with (dot w w / (N * N)).
        -- rewrite <- Hsq. replace (N * N / (N * N)) with 1 by (field; auto). lra.
        -- clearbody w N. destruct w as [w0 w1 w2], a as [a0 a1 a2]. vunfold. cbn [vx vy vz] in *. field. repeat split; lra.
      * replace (dot d (vdivs (vmul a w) N)) with (dot w w / N).
        -- rewrite <- Hsq. field; auto.
        -- subst w. clearbody N. destruct d as [d0 d1 d2], a as [a0 a1 a2]. vunfold. cbn [vx vy vz] in *. field; auto.
Qed.

Theorem ellipsoid_true_aabb (T : Pose R) (a : V3R) : 0 < vx a -> 0 < vy a -> 0 < vz a ->
  let e := V (ell_true (row (rot T) 0) a) (ell_true (row (rot T) 1) a) (ell_true (row (rot T) 2) a) in
  aabb_exact (ellipsoid_set T a) (vsub (trans T) e) (vadd (trans T) e).
Proof.
  intros H0 H1 H2 e. unfold ellipsoid_set. apply image_aabb_sym; [apply ellipsoid_K_sym|].
  intros i Hi.
  replace (nthv e i) with (ell_true (row (rot T) i) a) by (destruct i as [|[|[|i]]]; try reflexivity; lia).
  apply ellipsoid_K_extent; auto.
Qed.

(** finding F9: for a general rotation the code's box does NOT enclose the ellipsoid.
    Witness: rotation by atan(4/3) about z (entries 3/5, 4/5: exact), radii (1, 2, 1):
    returned half extent on x is 41/25 = 1.64, the point below has x = 1.706. *)
Definition T345 : Pose R := P (M (V (3 / 5) (- (4 / 5)) 0) (V (4 / 5) (3 / 5) 0) (V 0 0 1)) (V 0 0 0).

Lemma T345_rotation : is_rotation (rot T345).
Proof. apply is_rotation_cols. unfold cols_orthonormal, T345. vunfold. cbn. repeat split; field. Qed.

Ltac eval_fmax :=
  unfold max3, fmax; rops;
  repeat match goal with |- context [Rltb ?a ?b] => let H := fresh "H" in case_ltb a b H end.

Theorem ellipsoid_aabb_refuted :
  exists (T : Pose R) (a x : V3R), is_rotation (rot T) /\ 0 < vx a /\ 0 < vy a /\ 0 < vz a /\
    ellipsoid_set T a x /\ vx (snd (ellipsoid_aabb T a)) < vx x.
Proof.
  exists T345, (V 1 2 1), (transform_point T345 (V (35 / 100) (- (187 / 100)) 0)).
  split; [exact T345_rotation|]. cbn [vx vy vz]. repeat split; try lra.
  - exists (V (35 / 100) (- (187 / 100)) 0). split; [|reflexivity].
    unfold ellipsoid_K. cbn [vx vy vz]. lra.
  - rewrite ellipsoid_aabb_rotation by (try exact T345_rotation; cbn [vx vy vz]; lra).
    cbn [snd]. unfold ell_ext, T345. vunfold. cbn [row r0 r1 r2 rot trans vx vy vz vmul]. rops.
    eval_fmax; lra.
Qed.

(** ... and it is never too LARGE: for every rotation the returned half extent is at most
    the true one (so the box is inside the true box; it encloses only when they agree) *)
Theorem ellipsoid_aabb_never_larger (T : Pose R) (a : V3R) (k : nat) :
  is_rotation (rot T) -> 0 < vx a -> 0 < vy a -> 0 < vz a ->
  ell_ext (rot T) a k <= ell_true (row (rot T) k) a.
Proof.
  intros HR H0 H1 H2.
  assert (Hrow : forall i, dot (row (rot T) i) (vmul (row (rot T) k) a) <= ell_true (row (rot T) k) a).
  { intros i. unfold ell_true.
    pose proof (cauchy_schwarz (row (rot T) i) (vmul a (row (rot T) k))) as Hc.
    rewrite (norm_unit _ (row_unit (rot T) i HR)) in Hc.
    replace (vmul (row (rot T) k) a) with (vmul a (row (rot T) k)); [lra|].
    destruct a as [a0 a1 a2], (row (rot T) k) as [q0 q1 q2]. vunfold. f_equal; ring. }
  unfold ell_ext. pose proof (Hrow 0%nat) as A. pose proof (Hrow 1%nat) as B. pose proof (Hrow 2%nat) as C.
  cbn [row] in A, B, C. revert A B C.
  generalize (dot (r0 (rot T)) (vmul (row (rot T) k) a)) (dot (r1 (rot T)) (vmul (row (rot T) k) a))
             (dot (r2 (rot T)) (vmul (row (rot T) k) a)) (ell_true (row (rot T) k) a).
  intros x y z e A B C. eval_fmax; lra.
Qed.

(** signed permutation matrices (all 48, incl. reflections): row i = s_i * e_(p_i) *)
Definition sgn1 (s : R) : Prop := s = 1 \/ s = -1.
Definition perm3 (p0 p1 p2 : nat) : Prop :=
  (p0, p1, p2) = (0, 1, 2)%nat \/ (p0, p1, p2) = (0, 2, 1)%nat \/ (p0, p1, p2) = (1, 0, 2)%nat \/
  (p0, p1, p2) = (1, 2, 0)%nat \/ (p0, p1, p2) = (2, 0, 1)%nat \/ (p0, p1, p2) = (2, 1, 0)%nat.
Definition signed_perm (m : M3 R) : Prop :=
  exists p0 p1 p2 s0 s1 s2, perm3 p0 p1 p2 /\ sgn1 s0 /\ sgn1 s1 /\ sgn1 s2 /\
    m = M (vscale s0 (eR p0)) (vscale s1 (eR p1)) (vscale s2 (eR p2)).

Lemma signed_perm_rotation m : signed_perm m -> is_rotation m.
Proof.
  intros (p0 & p1 & p2 & s0 & s1 & s2 & Hp & H0 & H1 & H2 & ->).
  apply is_rotation_cols. unfold cols_orthonormal.
  assert (Q0 : s0 * s0 = 1) by (destruct H0; subst; ring).
  assert (Q1 : s1 * s1 = 1) by (destruct H1; subst; ring).
  assert (Q2 : s2 * s2 = 1) by (destruct H2; subst; ring).
  unfold perm3 in Hp. decompose [or] Hp; match goal with H : (_, _, _) = _ |- _ => injection H as -> -> -> end;
    cbn [eR]; vunfold; cbn; repeat split; nra.
Qed.

Lemma sqrt_one_sq (a s : R) : 0 < a -> s * s = 1 -> R_sqrt.sqrt (a * s * (a * s)) = a.
Proof. intros Ha Hs. replace (a * s * (a * s)) with (a * a) by nra. apply sqrt_square. lra. Qed.

Lemma max3_pick (x y z r : R) :
  (x = r /\ y <= r /\ z <= r) \/ (y = r /\ x <= r /\ z <= r) \/ (z = r /\ x <= r /\ y <= r) ->
  max3 x y z = r.
Proof.
  intros H. unfold max3.
  pose proof (fmax_ge_l x y). pose proof (fmax_ge_r x y).
  pose proof (fmax_ge_l (fmax x y) z). pose proof (fmax_ge_r (fmax x y) z).
  destruct (fmax_cases x y) as [E|E]; destruct (fmax_cases (fmax x y) z) as [E'|E']; rewrite E' in *; try rewrite E in *; lra.
Qed.

Lemma ell_ext_signed_perm m (a : V3R) k : signed_perm m -> 0 < vx a -> 0 < vy a -> 0 < vz a -> (k < 3)%nat ->
  ell_ext m a k = ell_true (row m k) a.
Proof.
  intros (p0 & p1 & p2 & s0 & s1 & s2 & Hp & H0 & H1 & H2 & ->) A0 A1 A2 Hk.
  destruct a as [a0 a1 a2]. cbn [vx vy vz] in *.
  assert (Q0 : s0 * s0 = 1) by (destruct H0; subst; ring).
  assert (Q1 : s1 * s1 = 1) by (destruct H1; subst; ring).
  assert (Q2 : s2 * s2 = 1) by (destruct H2; subst; ring).
  unfold ell_ext, ell_true, norm.
  unfold perm3 in Hp. decompose [or] Hp; match goal with H : (_, _, _) = _ |- _ => injection H as -> -> -> end;
    destruct k as [|[|[|k]]]; try lia; cbn [row r0 r1 r2 eR]; vunfold; cbn [vx vy vz]; rops;
    match goal with |- _ = R_sqrt.sqrt ?x =>
      first [ replace x with (a0 * s0 * (a0 * s0)) by ring; rewrite (sqrt_one_sq a0 s0) by assumption
            | replace x with (a0 * s1 * (a0 * s1)) by ring; rewrite (sqrt_one_sq a0 s1) by assumption
            | replace x with (a0 * s2 * (a0 * s2)) by ring; rewrite (sqrt_one_sq a0 s2) by assumption
            | replace x with (a1 * s0 * (a1 * s0)) by ring; rewrite (sqrt_one_sq a1 s0) by assumption
            | replace x with (a1 * s1 * (a1 * s1)) by ring; rewrite (sqrt_one_sq a1 s1) by assumption
            | replace x with (a1 * s2 * (a1 * s2)) by ring; rewrite (sqrt_one_sq a1 s2) by assumption
            | replace x with (a2 * s0 * (a2 * s0)) by ring; rewrite (sqrt_one_sq a2 s0) by assumption
            | replace x with (a2 * s1 * (a2 * s1)) by ring; rewrite (sqrt_one_sq a2 s1) by assumption
            | replace x with (a2 * s2 * (a2 * s2)) by ring; rewrite (sqrt_one_sq a2 s2) by assumption ]
    end;
    apply max3_pick;
    first [ left; repeat split; nra | right; left; repeat split; nra | right; right; repeat split; nra ].
Qed.

(** for axis-aligned poses (all the pinned test's first assertions exercise) the code's
    ellipsoid box is exact *)
Theorem ellipsoid_aabb_axis_aligned : forall T a, signed_perm (rot T) -> 0 < vx a -> 0 < vy a -> 0 < vz a ->
  aabb_exact (ellipsoid_set T a) (fst (ellipsoid_aabb T a)) (snd (ellipsoid_aabb T a)).
Proof.
  intros T a Hs A0 A1 A2.
  rewrite ellipsoid_aabb_rotation by (auto using signed_perm_rotation). cbn [fst snd].
  rewrite !(ell_ext_signed_perm (rot T) a) by (auto; lia).
  apply ellipsoid_true_aabb; auto.
Qed.

(** ** RigidBody.aabb(): merge of the per-tetrahedron boxes of the STORED vertices *)
Definition box_spec (pts : list V3R) (b : V3R * V3R) : Prop :=
  forall k, (forall q, In q pts -> nthv (fst b) k <= nthv q k <= nthv (snd b) k) /\
            (exists q, In q pts /\ nthv q k = nthv (snd b) k) /\ (exists q, In q pts /\ nthv q k = nthv (fst b) k).

Lemma aabb_exact_of_spec (S : set3) (vs : list V3R) lo hi :
  box_spec vs (lo, hi) -> (forall v, In v vs -> S v) -> (forall x, S x -> conv_hull vs x) -> aabb_exact S lo hi.
Proof.
  intros Hs Hin Hsub. unfold box_spec in Hs. cbn [fst snd] in Hs. split.
  - intros x Hx k Hk. apply Hsub in Hx. destruct (Hs k) as [A _].
    rewrite <- !(dot_eR_r x), (dot_comm x). split.
    + apply (hull_linear_lower vs (eR k) (nthv lo k)); auto.
      intros p Hp. rewrite dot_comm, dot_eR_r. apply A; auto.
    + apply (hull_linear_bound vs (eR k) (nthv hi k)); auto.
      intros p Hp. rewrite dot_comm, dot_eR_r. apply A; auto.
  - intros k Hk. destruct (Hs k) as [_ [(qb & Hqb & Eb) (qa & Hqa & Ea)]].
    split; [exists qb|exists qa]; auto.
Qed.

Lemma box_spec_of_list (ps : list V3R) b : axis_aligned_bounding_box ps = Some b -> box_spec ps b.
Proof. destruct b as [lo hi]. intros E k. apply (aabb_list_spec ps lo hi E k). Qed.

Lemma merge_spec (A B : list V3R) a b : box_spec A a -> box_spec B b -> box_spec (A ++ B) (merge_box a b).
Proof.
  intros HA HB k. destruct (HA k) as [A1 [(qa & Iqa & Eqa) (qa' & Iqa' & Eqa')]].
  destruct (HB k) as [B1 [(qb & Iqb & Eqb) (qb' & Iqb' & Eqb')]].
  unfold merge_box. cbn [fst snd]. rewrite nthv_vmin, nthv_vmax.
  pose proof (fmin_le_l (nthv (fst a) k) (nthv (fst b) k)). pose proof (fmin_le_r (nthv (fst a) k) (nthv (fst b) k)).
  pose proof (fmax_ge_l (nthv (snd a) k) (nthv (snd b) k)). pose proof (fmax_ge_r (nthv (snd a) k) (nthv (snd b) k)).
  split; [|split].
  - intros q Hq. apply in_app_or in Hq. destruct Hq as [Hq|Hq]; [specialize (A1 q Hq)|specialize (B1 q Hq)]; lra.
  - destruct (fmax_cases (nthv (snd a) k) (nthv (snd b) k)) as [E|E]; rewrite E;
      [exists qa|exists qb]; split; auto; apply in_or_app; auto.
  - destruct (fmin_cases (nthv (fst a) k) (nthv (fst b) k)) as [E|E]; rewrite E;
      [exists qa'|exists qb']; split; auto; apply in_or_app; auto.
Qed.

(** the stored vertices referenced by the tetrahedra, in order *)
Fixpoint used_points (vs : list V3R) (ts : list (nat * nat * nat * nat)) : option (list V3R) :=
  match ts with
  | [] => Some []
  | t :: ts' => match tetra_points vs t, used_points vs ts' with
                | Some ps, Some qs => Some (ps ++ qs)
                | _, _ => None
                end
  end.

Lemma fold_merge_spec : forall bs (ptss : list (list V3R)), Forall2 box_spec ptss bs ->
  forall A a, box_spec A a -> box_spec (A ++ concat ptss) (fold_left merge_box bs a).
Proof.
  intros bs ptss H. induction H as [|ps b ptss bs Hb _ IH]; intros A a HA; cbn [fold_left concat].
  - rewrite app_nil_r. auto.
  - rewrite app_assoc. apply IH. apply merge_spec; auto.
Qed.

Lemma tetra_aabbs_spec (vs : list V3R) : forall ts bs, tetra_aabbs vs ts = Some bs ->
  exists ptss, Forall2 box_spec ptss bs /\ used_points vs ts = Some (concat ptss) /\
               length ptss = length ts /\ Forall (fun ps => ps <> []) ptss.
Proof.
  induction ts as [|t ts IH]; intros bs H; cbn [tetra_aabbs used_points] in *.
  - injection H as <-. exists []. repeat split; constructor.
  - destruct (tetra_points vs t) as [ps|] eqn:Ep; [|discriminate].
    destruct (tetra_aabbs vs ts) as [bs'|] eqn:Eb; [|discriminate].
    destruct (axis_aligned_bounding_box ps) as [b|] eqn:Ea; [|discriminate].
    injection H as <-. destruct (IH bs' eq_refl) as (ptss & HF & HU & HL & HN).
    exists (ps :: ptss). rewrite HU. cbn [concat length]. repeat split; auto.
    + constructor; auto. apply box_spec_of_list; auto.
    + constructor; auto. intros ->. discriminate.
Qed.

Theorem rigid_body_aabb_body_frame : forall (T : Pose R) vs ts lo hi,
  rigid_body_aabb T vs ts = Some (lo, hi) ->
  exists pts, used_points vs ts = Some pts /\ pts <> [] /\ aabb_exact (conv_hull pts) lo hi.
Proof.
  intros T vs ts lo hi H. unfold rigid_body_aabb in H.
  destruct (tetra_aabbs vs ts) as [[|b bs]|] eqn:E; try discriminate.
  injection H as H.
  destruct (tetra_aabbs_spec vs ts _ E) as (ptss & HF & HU & _ & HN).
  inversion HF as [|ps b' ptss' bs' Hb HF' E1 E2]; subst.
  exists (concat (ps :: ptss')). split; auto. split.
  - cbn [concat]. inversion HN; subst. destruct ps; [congruence|discriminate].
  - apply (aabb_exact_of_spec _ (concat (ps :: ptss'))).
    + rewrite <- H. cbn [concat]. apply fold_merge_spec; auto.
    + apply conv_hull_in.
    + auto.
Qed.

(** the pose of the body is not used at all *)
Theorem rigid_body_aabb_ignores_pose : forall (T T' : Pose R) vs ts, rigid_body_aabb T vs ts = rigid_body_aabb T' vs ts.
Proof. reflexivity. Qed.

(** ... hence in the WORLD frame (where the hydroelastic broad phase uses it) the box is
    wrong as soon as body2origin is not the identity.  Witness: the unit corner tetrahedron
    translated by (10, 0, 0): its world vertex (10,0,0) is outside the returned box. *)
Theorem rigid_body_aabb_world_refuted :
  exists (T : Pose R) vs ts lo hi pts x,
    is_rotation (rot T) /\ rigid_body_aabb T vs ts = Some (lo, hi) /\ used_points vs ts = Some pts /\
    hull_set T pts x /\ nthv hi 0 < nthv x 0.
Proof.
  set (vs := [V 0 0 0; V 1 0 0; V 0 1 0; V 0 0 1] : list V3R).
  set (ts := [(0, 1, 2, 3)]%nat).
  set (T := P ident (V 10 0 0) : Pose R).
  destruct (rigid_body_aabb T vs ts) as [[lo hi]|] eqn:E; [|cbv in E; discriminate].
  destruct (rigid_body_aabb_body_frame T vs ts lo hi E) as (pts & HU & _ & [_ Ht]).
  exists T, vs, ts, lo, hi, pts, (V 10 0 0). split; [apply rotation_ident|]. split; auto. split; auto.
  cbn in HU. injection HU as <-. split.
  - replace (V 10 0 0) with (vadd (trans T) (mulMV (rot T) (V 0 0 0))) by (subst T; vsimp; f_equal; ring).
    apply (hull_set_vertex T _ 0%nat). reflexivity.
  - destruct (Ht 0%nat ltac:(lia)) as [(q & Hq & Eq) _]. rewrite <- Eq.
    cbn [nthv vx].
    assert (Hb : forall p, conv_hull [V 0 0 0; V 1 0 0; V 0 1 0; V 0 0 1] p -> vx p <= 1).
    { intros p Hp.
      replace (vx p) with (dot (V 1 0 0) p) by (destruct p as [p0 p1 p2]; vunfold; cbn [vx vy vz]; ring).
      apply (hull_linear_bound [V 0 0 0; V 1 0 0; V 0 1 0; V 0 0 1] (V 1 0 0) 1); auto.
      intros p' Hp'. cbn [In] in Hp'. decompose [or] Hp'; subst; try contradiction; vunfold; cbn [vx vy vz]; lra. }
    specialize (Hb q Hq). lra.
Qed.

(** ** broad-phase completeness: boxes of two sets that meet overlap *)
Theorem shapes_meet_aabb_overlap (A B : set3) lo1 hi1 lo2 hi2 :
  aabb_exact A lo1 hi1 -> aabb_exact B lo2 hi2 -> intersect A B -> aabb_overlap lo1 hi1 lo2 hi2.
Proof. intros [HA _] [HB _]. apply intersect_aabb_overlap; auto. Qed.

(** ** concrete poses for the non-vacuity examples of Props/C04.v *)
Definition T345z : Pose R := P (M (V (3 / 5) (- (4 / 5)) 0) (V (4 / 5) (3 / 5) 0) (V 0 0 1)) (V 1 2 3).
Definition T345x : Pose R := P (M (V 1 0 0) (V 0 (3 / 5) (- (4 / 5))) (V 0 (4 / 5) (3 / 5))) (V 1 2 3).
Lemma T345z_rotation : is_rotation (rot T345z).
Proof. apply is_rotation_cols. unfold cols_orthonormal, T345z. vunfold. cbn. repeat split; field. Qed.
Lemma T345x_rotation : is_rotation (rot T345x).
Proof. apply is_rotation_cols. unfold cols_orthonormal, T345x. vunfold. cbn. repeat split; field. Qed.

