(** * Theorems about [Model/Mpr.v] over the reals (C08). *)
From Coq Require Import Reals Lra Psatz List Bool QArith Qreals.
From D3 Require Import Base.Ops Base.Vec Base.RVec Base.RVec2 Spec.Convex Model.DistPrim Proofs.DistBase Model.Mpr.
Local Open Scope R_scope.

(** ** norm_vector: unit or zero *)
Lemma norm_vector_unit_or_zero (x : V3R) :
  (x <> vzero /\ norm (norm_vector x) = 1) \/ (x = vzero /\ norm_vector x = vzero).
Proof.
  unfold norm_vector. ops_R.
  destruct (Reqb (norm x) 0) eqn:E; rb_hyp E.
  - right. apply norm_zero_iff in E. split; auto.
  - left. split.
    + intros H. apply E. apply norm_zero_iff. exact H.
    + pose proof (norm_nonneg x) as Hn.
      replace (vdivs x (norm x)) with (vscale (/ norm x) x).
      * rewrite norm_scale. rewrite Rabs_right.
        -- field. exact E.
        -- apply Rle_ge. left. apply Rinv_0_lt_compat. lra.
      * destruct x as [a b c]. unfold vdivs, vscale. ops_R. cbn [vx vy vz]. f_equal; field; exact E.
Qed.

(** ** the distance returned by point_to_triangle is a norm *)
Lemma point_to_triangle_dist_nonneg (p a b c : V3R) d cp :
  point_to_triangle p a b c = (d, cp) -> 0 <= d /\ d = norm (vsub p cp).
Proof.
  unfold point_to_triangle, point_to_triangle_full. cbv zeta. ops_R.
  repeat (match goal with
          | |- context [if ?b then _ else _] => destruct b
          end);
    intros H; apply pair_equal_spec in H; destruct H as [<- <-]; split; try reflexivity; apply norm_nonneg.
Qed.

Definition meps_R : R := / 4503599627370496.
Lemma meps_is : meps (O:=ROps) = meps_R.
Proof. unfold meps, meps_R. cbn [cst ROps]. unfold Q2R. simpl. lra. Qed.

(** ** C08: depth >= 0 on every arm *)
Theorem mpr_depth_nonneg (arm : pen_arm) (v v1 v2 : quad) depth dir pos :
  penetration_result (O:=ROps) arm v v1 v2 = (depth, dir, pos) -> 0 <= depth.
Proof.
  destruct arm; cbn [penetration_result].
  - unfold find_penetration_touch. intros H. apply pair_equal_spec in H as (H & _). apply pair_equal_spec in H as (<- & _). ops_R. lra.
  - unfold find_penetration_segment. intros H. apply pair_equal_spec in H as (H & _). apply pair_equal_spec in H as (<- & _). apply norm_nonneg.
  - unfold find_penetration_info_result, penetration_info.
    destruct (point_to_triangle vzero (q1 v) (q2 v) (q3 v)) as [d cp] eqn:E.
    intros H. apply pair_equal_spec in H as (H & _). apply pair_equal_spec in H as (<- & _).
    apply point_to_triangle_dist_nonneg in E. tauto.
Qed.

(** ** C08: the direction is a unit vector, or it is the zero vector and then the depth is below
    machine epsilon (exactly 0 on the touch and segment arms and when the closest point of the portal
    triangle is the origin; the code also zeroes the direction for 0 < depth < eps, which is the
    only way "zero direction" and "depth = 0" can differ) *)
Theorem mpr_dir_unit_or_zero (arm : pen_arm) (v v1 v2 : quad) depth dir pos :
  penetration_result (O:=ROps) arm v v1 v2 = (depth, dir, pos) ->
  norm dir = 1 \/ (dir = vzero /\ 0 <= depth < meps_R).
Proof.
  assert (Hm : 0 < meps_R) by (unfold meps_R; lra).
  destruct arm; cbn [penetration_result].
  - unfold find_penetration_touch. intros H. apply pair_equal_spec in H as (H & _). apply pair_equal_spec in H as (<- & <-).
    right. split; [reflexivity|]. ops_R. lra.
  - unfold find_penetration_segment. intros H. apply pair_equal_spec in H as (H & _). apply pair_equal_spec in H as (<- & <-).
    destruct (norm_vector_unit_or_zero (q1 v)) as [(_ & Hu)|(Hz & Hv)]; [left; exact Hu|].
    right. split; auto. rewrite Hz.
    assert (norm (@vzero R _) = 0) by (apply norm_zero_iff; reflexivity). lra.
  - unfold find_penetration_info_result, penetration_info.
    destruct (point_to_triangle vzero (q1 v) (q2 v) (q3 v)) as [d cp] eqn:E.
    apply point_to_triangle_dist_nonneg in E. destruct E as (Hd & Hn).
    intros H. apply pair_equal_spec in H as (H & _). apply pair_equal_spec in H as (<- & <-).
    ops_R. rewrite meps_is.
    destruct (Rltb (Rabs d) meps_R) eqn:Eb; rb_hyp Eb.
    + right. rewrite Rabs_right in Eb by lra. split; [|lra].
      destruct (norm_vector_unit_or_zero (@vzero R _)) as [(Hc & _)|(_ & Hz)]; [exfalso; apply Hc; reflexivity|exact Hz].
    + destruct (norm_vector_unit_or_zero cp) as [(_ & Hu)|(Hz & Hv)]; [left; exact Hu|].
      right. split; auto. subst cp.
      replace (vsub vzero vzero) with (@vzero R _) in Hn by (vsimp; f_equal; ring).
      assert (norm (@vzero R _) = 0) by (apply norm_zero_iff; reflexivity). lra.
Qed.

(** ** C08: the contact position is the midpoint of a point of A and a point of B whose difference
    is the same weighted combination of the portal vertices -- PARTIAL: this needs the weights to be
    non-negative (true when the origin lies in the portal tetrahedron; the code does not check it),
    and the contact position itself lies in A and in B only up to half the length of that combination,
    which is what the portal tolerance absorbs. *)
Lemma convex4 (S : set3) (w0 w1 w2 w3 : R) (p : quad) :
  convex S -> S (q0 p) -> S (q1 p) -> S (q2 p) -> S (q3 p) ->
  0 <= w0 -> 0 <= w1 -> 0 <= w2 -> 0 <= w3 -> w0 + w1 + w2 + w3 = 1 ->
  S (wsum4 (O:=ROps) w0 w1 w2 w3 p).
Proof.
  intros HC H0 H1 H2 H3 W0 W1 W2 W3 Hs. unfold wsum4. ops_R.
  (* fold the combination pairwise *)
  assert (Hpair : forall x y a b, S x -> S y -> 0 <= a -> 0 <= b -> 0 < a + b ->
            S (vadd (vscale (a / (a + b)) x) (vscale (b / (a + b)) y))).
  { intros x y a b Hx Hy Ha Hb Hab.
    replace (a / (a + b)) with (1 - b / (a + b)) by (field; lra).
    apply HC; auto. split.
    - apply Rmult_le_pos; [lra|]. left. apply Rinv_0_lt_compat; lra.
    - apply (Rmult_le_reg_r (a + b)); [lra|]. unfold Rdiv. rewrite Rmult_assoc, Rinv_l by lra. lra. }
  destruct (Req_dec (w0 + w1) 0) as [Z01|N01].
  - assert (w0 = 0) by lra. assert (w1 = 0) by lra. subst w0 w1.
    destruct (Req_dec w2 0) as [Z2|N2].
    + subst w2. assert (w3 = 1) by lra. subst w3.
      replace (vadd (vadd (vadd (vscale 0 (q0 p)) (vscale 0 (q1 p))) (vscale 0 (q2 p))) (vscale 1 (q3 p))) with (q3 p); auto.
      destruct p as [[a1 a2 a3] [b1 b2 b3] [c1 c2 c3] [d1 d2 d3]]; cbn [q0 q1 q2 q3] in *; vunfold; cbn [vx vy vz]; f_equal; ring.
    + pose proof (Hpair (q2 p) (q3 p) w2 w3 H2 H3 W2 W3 ltac:(lra)) as HP.
      replace (w2 + w3) with 1 in HP by lra.
      replace (vadd (vadd (vadd (vscale 0 (q0 p)) (vscale 0 (q1 p))) (vscale w2 (q2 p))) (vscale w3 (q3 p)))
        with (vadd (vscale (w2 / 1) (q2 p)) (vscale (w3 / 1) (q3 p))); auto.
      destruct p as [[a1 a2 a3] [b1 b2 b3] [c1 c2 c3] [d1 d2 d3]]; cbn [q0 q1 q2 q3] in *; vunfold; cbn [vx vy vz]; f_equal; field.
  - pose proof (Hpair (q0 p) (q1 p) w0 w1 H0 H1 W0 W1 ltac:(lra)) as H01.
    set (x01 := vadd (vscale (w0 / (w0 + w1)) (q0 p)) (vscale (w1 / (w0 + w1)) (q1 p))) in *.
    destruct (Req_dec (w2 + w3) 0) as [Z23|N23].
    + assert (w2 = 0) by lra. assert (w3 = 0) by lra. subst w2 w3.
      replace (vadd (vadd (vadd (vscale w0 (q0 p)) (vscale w1 (q1 p))) (vscale 0 (q2 p))) (vscale 0 (q3 p))) with x01; auto.
      unfold x01. replace (w0 + w1) with 1 by lra.
      destruct p as [[a1 a2 a3] [b1 b2 b3] [c1 c2 c3] [d1 d2 d3]]; cbn [q0 q1 q2 q3] in *; vunfold; cbn [vx vy vz]; f_equal; field.
    + pose proof (Hpair (q2 p) (q3 p) w2 w3 H2 H3 W2 W3 ltac:(lra)) as H23.
      set (x23 := vadd (vscale (w2 / (w2 + w3)) (q2 p)) (vscale (w3 / (w2 + w3)) (q3 p))) in *.
      pose proof (Hpair x01 x23 (w0 + w1) (w2 + w3) H01 H23 ltac:(lra) ltac:(lra) ltac:(lra)) as HA.
      replace (w0 + w1 + (w2 + w3)) with 1 in HA by lra.
      replace (vadd (vadd (vadd (vscale w0 (q0 p)) (vscale w1 (q1 p))) (vscale w2 (q2 p))) (vscale w3 (q3 p)))
        with (vadd (vscale ((w0 + w1) / 1) x01) (vscale ((w2 + w3) / 1) x23)); auto.
      unfold x01, x23. destruct p as [[a1 a2 a3] [b1 b2 b3] [c1 c2 c3] [d1 d2 d3]]; cbn [q0 q1 q2 q3] in *; vunfold; cbn [vx vy vz]; f_equal; field; lra.
Qed.

Theorem mpr_contact_in_both_partial (A B : set3) (v v1 v2 : quad) (sd : V3R) w0 w1 w2 w3 k :
  convex A -> convex B ->
  A (q0 v1) -> A (q1 v1) -> A (q2 v1) -> A (q3 v1) ->
  B (q0 v2) -> B (q1 v2) -> B (q2 v2) -> B (q3 v2) ->
  q0 v = vsub (q0 v1) (q0 v2) -> q1 v = vsub (q1 v1) (q1 v2) ->
  q2 v = vsub (q2 v1) (q2 v2) -> q3 v = vsub (q3 v1) (q3 v2) ->
  contact_weights (O:=ROps) v sd = (w0, w1, w2, w3, k) ->
  0 <= w0 -> 0 <= w1 -> 0 <= w2 -> 0 <= w3 -> w0 + w1 + w2 + w3 = 1 ->
  exists pa pb, A pa /\ B pb /\
    vsub pa pb = wsum4 (O:=ROps) w0 w1 w2 w3 v /\
    contact_position (O:=ROps) v v1 v2 sd = vscale (/ 2) (vadd pa pb) /\
    norm (vsub (contact_position (O:=ROps) v v1 v2 sd) pa) = / 2 * norm (wsum4 (O:=ROps) w0 w1 w2 w3 v) /\
    norm (vsub (contact_position (O:=ROps) v v1 v2 sd) pb) = / 2 * norm (wsum4 (O:=ROps) w0 w1 w2 w3 v).
Proof.
  intros CA CB A0 A1 A2 A3 B0 B1 B2 B3 E0 E1 E2 E3 HW W0 W1 W2 W3 Hs.
  exists (wsum4 (O:=ROps) w0 w1 w2 w3 v1), (wsum4 (O:=ROps) w0 w1 w2 w3 v2).
  split; [apply convex4; auto|]. split; [apply convex4; auto|].
  assert (Hd : vsub (wsum4 (O:=ROps) w0 w1 w2 w3 v1) (wsum4 (O:=ROps) w0 w1 w2 w3 v2) = wsum4 (O:=ROps) w0 w1 w2 w3 v).
  { unfold wsum4. rewrite E0, E1, E2, E3. ops_R.
    destruct v1 as [[a1 a2 a3] [b1 b2 b3] [c1 c2 c3] [d1 d2 d3]], v2 as [[e1 e2 e3] [f1 f2 f3] [g1 g2 g3] [h1 h2 h3]].
    cbn [q0 q1 q2 q3]. vunfold. cbn [vx vy vz]. f_equal; ring. }
  assert (Hc : contact_position (O:=ROps) v v1 v2 sd =
               vscale (/ 2) (vadd (wsum4 (O:=ROps) w0 w1 w2 w3 v1) (wsum4 (O:=ROps) w0 w1 w2 w3 v2))).
  { unfold contact_position. rewrite HW. cbn [cst ROps]. replace (Q2R (1 # 2)) with (/ 2) by (unfold Q2R; simpl; lra). reflexivity. }
  split; [exact Hd|]. split; [exact Hc|].
  set (pa := wsum4 (O:=ROps) w0 w1 w2 w3 v1) in *. set (pb := wsum4 (O:=ROps) w0 w1 w2 w3 v2) in *.
  rewrite Hc, <- Hd. split.
  - replace (vsub (vscale (/ 2) (vadd pa pb)) pa) with (vscale (- / 2) (vsub pa pb)).
    + rewrite norm_scale. rewrite Rabs_left by lra. lra.
    + destruct pa as [x1 x2 x3], pb as [y1 y2 y3]. vunfold. cbn [vx vy vz]. f_equal; field.
  - replace (vsub (vscale (/ 2) (vadd pa pb)) pb) with (vscale (/ 2) (vsub pa pb)).
    + rewrite norm_scale. rewrite Rabs_right by lra. lra.
    + destruct pa as [x1 x2 x3], pb as [y1 y2 y3]. vunfold. cbn [vx vy vz]. f_equal; field.
Qed.

(** the regular weights sum to one whenever the code divides by a non-zero sum *)
Lemma contact_weights_sum (v : quad) (sd : V3R) w0 w1 w2 w3 :
  contact_weights (O:=ROps) v sd = (w0, w1, w2, w3, 0%nat) -> w0 + w1 + w2 + w3 = 1.
Proof.
  unfold contact_weights. cbv zeta. ops_R. rewrite meps_is.
  set (b0 := dot (cross (q1 v) (q2 v)) (q3 v)). set (b1 := dot (cross (q3 v) (q2 v)) (q0 v)).
  set (b2 := dot (cross (q0 v) (q1 v)) (q3 v)). set (b3 := dot (cross (q2 v) (q1 v)) (q0 v)).
  destruct (Rltb (b0 + b1 + b2 + b3) meps_R) eqn:E; rb_hyp E; intros H; inversion H; subst.
  assert (0 < meps_R) by (unfold meps_R; lra). field. lra.
Qed.
