(** * C06, part 6: the cost assertion of [insert_leaf] cannot fire.

    C05 proves that the only error an insertion can produce is [EAssert].  Here: if the
    cost assertion holds whenever the tree box is the merge of the two child boxes and the
    new leaf box is "ok" (a hypothesis on [cost_ok], discharged below for the real volume
    heuristic on valid boxes), an insertion produces NO error at all.  The proofs walk
    through [insert_leaf] / [insert_loop] / [insert_batch] with the invariants and the
    intermediate lemmas of the C05 development ([descend_spec]'s structure, [fix_up_spec],
    [insert_leaf_spec], [RepS]/[BoxOK]/contexts). *)
From Coq Require Import List Arith Bool Lia Permutation.
From D3 Require Import Model.AabbTree Model.Bvh Proofs.AabbTreeQuery Proofs.AabbTreeInsert Proofs.AabbTreeProofs
                       Proofs.BvhDict Proofs.BvhProofs.
Import ListNotations.

Section NoAssert.
  Variable C : Type.
  Variable le : C -> C -> bool.
  Variables cmin cmax : C -> C -> C.
  Variable czero : C.
  Variable go_left : box C -> box C -> box C -> bool.
  Variable cost_ok : box C -> box C -> box C -> box C -> bool.
  Variable D : Type.
  Notation box := (box C).
  Notation merge := (merge C cmin cmax).
  Notation BoxOK := (BoxOK C cmin cmax).
  Notation BoxC := (BoxC C cmin cmax).
  Notation BoxCw := (BoxCw C cmin cmax).
  Notation descend := (descend C go_left cost_ok).
  Notation insert_leaf := (insert_leaf C cmin cmax go_left cost_ok).
  Notation insert_loop := (insert_loop C cmin cmax go_left cost_ok).
  Notation insert_batch := (insert_batch C cmin cmax czero go_left cost_ok D).
  Notation ORep := (ORep C cmin cmax).
  Notation WF := (WF C cmin cmax D).

  Notation fix_up_spec := (AabbTreeInsert.fix_up_spec C cmin cmax go_left cost_ok).
  Notation BoxOK_plug := (AabbTreeInsert.BoxOK_plug C cmin cmax).
  Notation BoxC_weaken := (AabbTreeInsert.BoxC_weaken C cmin cmax).

  Variable okbox : box -> Prop.
  Hypothesis cost_total : forall lb bl br, okbox lb -> cost_ok lb (merge bl br) bl br = true.

  (** ** the descent loop reaches a leaf *)
  Lemma descend_ok ns ab lb : okbox lb ->
    forall t p fuel,
      RepS ns p t -> BoxOK ab t -> size t <= fuel ->
      exists c s, descend fuel ns ab lb (idx t) = Ok s /\ t = plug c (L s).
  Proof.
    intros Hlb. induction t as [i|i l IHl r IHr]; intros p fuel HR HB Hs.
    - destruct fuel as [|f]; [simpl in Hs; lia|].
      simpl in HR. destruct HR as (n & Hn & _ & Ht).
      exists [], i. simpl. unfold get. rewrite Hn. cbn [bind]. rewrite Ht. simpl. auto.
    - destruct fuel as [|f]; [simpl in Hs; lia|].
      simpl in HR. destruct HR as (n & Hn & _ & Hl & Hr & Ht & HRl & HRr).
      simpl in HB. destruct HB as (HBl & HBr & bl & br & Hbl & Hbr & Hbi).
      simpl in Hs.
      assert (EQ : descend (S f) ns ab lb i =
                   if cost_ok lb (merge bl br) bl br
                   then (if go_left lb bl br then descend f ns ab lb (idx l)
                         else descend f ns ab lb (idx r))
                   else Err EAssert).
      { cbn [AabbTree.descend]. unfold get at 1. rewrite Hn. cbn [bind]. rewrite Ht. cbn [is_branch].
        rewrite Hl, Hr. cbn [geto]. unfold get. rewrite Hbl, Hbr, Hbi. cbn [bind].
        destruct (cost_ok lb (merge bl br) bl br); auto.
        destruct (go_left lb bl br); auto. }
      cbn [idx]. rewrite EQ. clear EQ. rewrite (cost_total lb bl br Hlb).
      destruct (go_left lb bl br).
      + destruct (IHl (Some i) f HRl HBl) as (c & s & E & ->); [lia|].
        exists (c ++ [FL i r]), s. split; [exact E|]. rewrite plug_app. reflexivity.
      + destruct (IHr (Some i) f HRr HBr) as (c & s & E & ->); [lia|].
        exists (c ++ [FR i l]), s. split; [exact E|]. rewrite plug_app. reflexivity.
  Qed.

  (** ** [insert_leaf] on a non-empty tree returns normally
      (the walk through the function is that of [insert_leaf_spec]) *)
  Lemma insert_leaf_ok ns ab t j fl nj lb :
    RepS ns None t -> BoxOK ab t -> NoDup (ixs t) ->
    ~ In j (ixs t) -> ~ In fl (ixs t) -> j <> fl ->
    nth_error ns j = Some nj -> fl < length ns -> length ab = length ns ->
    nth_error ab j = Some lb -> okbox lb ->
    exists r, insert_leaf (Some (idx t)) j ns ab fl = Ok r.
  Proof.
    intros HR HB HN Hj Hfl Hjfl Hnj Hfllt Hlen Hlb Hok.
    unfold AabbTree.insert_leaf.
    rewrite (modify_eq _ _ _ _ Hnj). cbn [bind].
    set (ns1 := set_nth ns j (set_typ nj TLeaf)).
    assert (Hjlt : j < length ns) by (apply nth_error_Some; congruence).
    assert (L1 : length ns1 = length ns) by apply length_set_nth.
    assert (N1 : forall i, i <> j -> nth_error ns1 i = nth_error ns i)
      by (intros; apply nth_error_set_nth_neq; auto).
    assert (N1j : nth_error ns1 j = Some (set_typ nj TLeaf))
      by (apply nth_error_set_nth_eq; auto).
    assert (HR1 : RepS ns1 None t).
    { apply (RepS_frame ns); auto. intros i Hi. apply N1. intros ->. auto. }
    unfold get at 1. rewrite Hlb. cbn [bind].
    destruct (descend_ok ns1 ab lb Hok t None (S (length ns1)) HR1 HB) as (c & s & E & Ht).
    { pose proof (size_le_length _ _ _ HR1 HN). lia. }
    rewrite E. cbn [bind]. subst t.
    assert (HP : Permutation (ixs (plug c (L s))) (s :: cixs c)) by apply ixs_plug.
    assert (HNs : NoDup (s :: cixs c)) by (eapply Permutation_NoDup; eauto).
    assert (Hjs : ~ In j (s :: cixs c)) by (intros H; apply Hj; eapply Permutation_in; [symmetry; eauto|auto]).
    assert (Hfls : ~ In fl (s :: cixs c)) by (intros H; apply Hfl; eapply Permutation_in; [symmetry; eauto|auto]).
    apply RepS_plug in HR1 as (HC1 & HS1). simpl in HS1. destruct HS1 as (sn & Hsn & Hsp & Hst).
    apply BoxOK_plug in HB as (HBC & (bs & Hbs)). simpl idx in HBC.
    unfold get at 1. rewrite Hsn. cbn [bind].
    assert (Hsj : s <> j) by (intros ->; apply Hjs; simpl; auto).
    assert (Hsfl : s <> fl) by (intros ->; apply Hfls; simpl; auto).
    rewrite upd_eq by lia. cbn [bind].
    set (ns2 := set_nth ns1 fl (Node (par sn) (Some s) (Some j) TBranch)).
    unfold get at 1. rewrite Hbs. cbn [bind].
    rewrite upd_eq by lia. cbn [bind].
    set (ab1 := set_nth ab fl (merge lb bs)).
    assert (N2j : nth_error ns2 j = Some (set_typ nj TLeaf)).
    { unfold ns2. rewrite nth_error_set_nth_neq; auto. }
    rewrite (modify_eq _ _ _ _ N2j). cbn [bind].
    set (ns3 := set_nth ns2 j (set_par (set_typ nj TLeaf) (Some fl))).
    assert (N3s : nth_error ns3 s = Some sn).
    { unfold ns3, ns2. rewrite !nth_error_set_nth_neq; auto. }
    rewrite (modify_eq _ _ _ _ N3s). cbn [bind].
    set (ns4 := set_nth ns3 s (set_par sn (Some fl))).
    assert (L4 : length ns4 = length ns).
    { unfold ns4, ns3, ns2. rewrite !length_set_nth. auto. }
    assert (N4 : forall i, i <> j -> i <> fl -> i <> s -> nth_error ns4 i = nth_error ns i).
    { intros i H1 H2 H3. unfold ns4, ns3, ns2. rewrite !nth_error_set_nth_neq; auto. }
    assert (N4fl : nth_error ns4 fl = Some (Node (par sn) (Some s) (Some j) TBranch)).
    { unfold ns4, ns3. rewrite nth_error_set_nth_neq by auto.
      rewrite nth_error_set_nth_neq by auto.
      apply nth_error_set_nth_eq. lia. }
    assert (N4j : nth_error ns4 j = Some (set_par (set_typ nj TLeaf) (Some fl))).
    { unfold ns4, ns3. rewrite nth_error_set_nth_neq; auto.
      apply nth_error_set_nth_eq. unfold ns2. rewrite length_set_nth. lia. }
    assert (N4s : nth_error ns4 s = Some (set_par sn (Some fl))).
    { unfold ns4. apply nth_error_set_nth_eq. unfold ns3, ns2. rewrite !length_set_nth.
      rewrite L1. apply nth_error_Some. rewrite <- N1; auto. congruence. }
    assert (A1 : forall i, i <> fl -> nth_error ab1 i = nth_error ab i)
      by (intros; apply nth_error_set_nth_neq; auto).
    assert (A1fl : nth_error ab1 fl = Some (merge lb bs))
      by (apply nth_error_set_nth_eq; lia).
    assert (LA1 : length ab1 = length ab) by apply length_set_nth.
    (* what remains is the same in both cases once the final node array is known *)
    assert (Fin : forall ns5 rt,
      length ns5 = length ns ->
      nth_error ns5 fl = Some (Node (cpar c None) (Some s) (Some j) TBranch) ->
      nth_error ns5 j = Some (set_par (set_typ nj TLeaf) (Some fl)) ->
      nth_error ns5 s = Some (set_par sn (Some fl)) ->
      RepC ns5 None c fl ->
      (forall i, ~ In i (j :: fl :: s :: cixs c) -> nth_error ns5 i = nth_error ns i) ->
      rt = Some (idx (plug c (B fl (L s) (L j)))) ->
      exists r0,
        (ln <- get ns5 j ;;
         ab0 <- fix_up C cmin cmax (S (length ns5)) ns5 ab1 (par ln) ;;
         Ok (rt, ns5, ab0, S fl)) = Ok r0).
    { intros ns5 rt L5 N5fl N5j N5s HC5 N5 Hrt.
      unfold get at 1. rewrite N5j. cbn [bind]. cbn [set_par par].
      set (cf := FL fl (L j) :: c).
      assert (HRcf : RepC ns5 None cf s).
      { simpl. split; [|split; auto].
        - eexists; split; [exact N5fl|]. simpl. auto.
        - eexists; split; [exact N5j|]. simpl. auto. }
      assert (HNcf : NoDup (s :: cixs cf)).
      { simpl. inversion HNs as [|? ? Hn0 HNc]; subst.
        constructor; [|constructor; [|constructor; auto]].
        - simpl. intros [H|[H|H]]; [congruence|congruence|auto].
        - simpl. intros [H|H]; [congruence|]. apply Hfls; simpl; auto.
        - intros H. apply Hjs; simpl; auto. }
      assert (HBw : BoxCw ab1 cf).
      { constructor.
        - simpl. split; [exists lb; rewrite A1; auto|lia].
        - apply BoxC_weaken in HBC. unfold BoxCw in *. rewrite Forall_forall in *.
          intros g Hg. destruct (HBC g Hg) as (G1 & G2). split; [|lia].
          apply (BoxOK_frame _ _ _ ab); auto. intros i Hi. apply A1. intros ->.
          apply Hfls. simpl. right. clear - Hg Hi.
          induction c as [|g' c IHc]; simpl in *; [tauto|].
          destruct Hg as [->|Hg]; [right; apply in_app_iff; auto|].
          right. apply in_app_iff. right. apply IHc; auto. }
      destruct (fix_up_spec ns5 cf s ab1 (S (length ns5)) HRcf) as (ab' & Hfix & HBC' & Lab' & Fab'); auto.
      { simpl. apply le_n_S.
        assert (HNc : NoDup (cixs c)) by (inversion HNs; auto).
        simpl in HRcf. destruct HRcf as (_ & _ & HRc).
        apply (length_ctx_le _ _ _ HRc HNc). }
      { exists bs. rewrite A1; auto. }
      simpl cpar in Hfix. rewrite Hfix. cbn [bind]. eexists; reflexivity. }
    destruct c as [|f c'].
    - (* the sibling was the root *)
      simpl cpar in Hsp. rewrite Hsp. cbn [bind].
      apply Fin; auto.
      + rewrite <- Hsp. exact N4fl.
      + intros i Hi. apply N4; intros ->; apply Hi; simpl; auto.
    - (* the sibling had a parent p *)
      destruct f as [p r|p l].
      + (* f = FL p r *)
        simpl cpar in Hsp. rewrite Hsp. cbn [bind].
        simpl in HC1. destruct HC1 as ((pn & Hpn & Hppar & Hpl & Hpr & Hptyp) & HRsib & HRc').
        destruct (proj1 (NoDup_cons_iff _ _) HNs) as (Hn0 & HNc).
        simpl in HNc. destruct (proj1 (NoDup_cons_iff _ _) HNc) as (Hnf & HNc2).
        assert (P1 : p <> j) by (intros ->; apply Hjs; simpl; auto).
        assert (P2 : p <> fl) by (intros ->; apply Hfls; simpl; auto).
        assert (P3 : p <> s) by (intros ->; apply Hn0; simpl; auto).
        assert (Hother : forall i, In i (ixs r ++ cixs c') -> i <> p /\ i <> j /\ i <> fl /\ i <> s).
        { intros i Hi. repeat split; intros ->.
          - apply Hnf; auto.
          - apply Hjs; simpl; auto.
          - apply Hfls; simpl; auto.
          - apply Hn0; simpl; auto. }
        assert (N4p : nth_error ns4 p = Some pn).
        { rewrite N4; auto. rewrite <- N1; auto. }
        unfold get at 1. rewrite N4p. cbn [bind].
        assert (Hplt : p < length ns4) by (apply nth_error_Some; congruence).
        rewrite Hpl. simpl onat_eqb. rewrite Nat.eqb_refl.
        rewrite upd_eq by auto. cbn [bind].
        set (ns5 := set_nth ns4 p (set_lft pn (Some fl))).
        assert (N5 : forall i, i <> p -> nth_error ns5 i = nth_error ns4 i)
          by (intros; apply nth_error_set_nth_neq; auto).
        apply Fin.
        * unfold ns5. rewrite length_set_nth. auto.
        * rewrite N5 by auto. simpl cpar. rewrite <- Hsp. exact N4fl.
        * rewrite N5 by auto. exact N4j.
        * rewrite N5 by auto. exact N4s.
        * simpl. split; [|split].
          -- exists (set_lft pn (Some fl)). split; [apply nth_error_set_nth_eq; auto|].
             simpl. auto.
          -- apply (RepS_frame ns1); auto. intros i Hi.
             destruct (Hother i) as (O1 & O2 & O3 & O4); [apply in_app_iff; auto|].
             rewrite N5, N4, N1; auto.
          -- apply (RepC_frame ns1); auto. intros i Hi.
             destruct (Hother i) as (O1 & O2 & O3 & O4); [apply in_app_iff; auto|].
             rewrite N5, N4, N1; auto.
        * intros i Hi. rewrite N5, N4; auto; intros ->; apply Hi; simpl; auto.
        * apply f_equal. apply idx_plug_ne. congruence.
      + (* f = FR p l *)
        simpl cpar in Hsp. rewrite Hsp. cbn [bind].
        simpl in HC1. destruct HC1 as ((pn & Hpn & Hppar & Hpl & Hpr & Hptyp) & HRsib & HRc').
        destruct (proj1 (NoDup_cons_iff _ _) HNs) as (Hn0 & HNc).
        simpl in HNc. destruct (proj1 (NoDup_cons_iff _ _) HNc) as (Hnf & HNc2).
        assert (P1 : p <> j) by (intros ->; apply Hjs; simpl; auto).
        assert (P2 : p <> fl) by (intros ->; apply Hfls; simpl; auto).
        assert (P3 : p <> s) by (intros ->; apply Hn0; simpl; auto).
        assert (Hother : forall i, In i (ixs l ++ cixs c') -> i <> p /\ i <> j /\ i <> fl /\ i <> s).
        { intros i Hi. repeat split; intros ->.
          - apply Hnf; auto.
          - apply Hjs; simpl; auto.
          - apply Hfls; simpl; auto.
          - apply Hn0; simpl; auto. }
        assert (N4p : nth_error ns4 p = Some pn).
        { rewrite N4; auto. rewrite <- N1; auto. }
        unfold get at 1. rewrite N4p. cbn [bind].
        assert (Hplt : p < length ns4) by (apply nth_error_Some; congruence).
        assert (Hlne : onat_eqb (lft pn) (Some s) = false).
        { rewrite Hpl. simpl. apply Nat.eqb_neq. intros Heq.
          apply Hn0. simpl. right. apply in_app_iff. left. rewrite <- Heq. apply idx_in_ixs. }
        rewrite Hlne.
        rewrite upd_eq by auto. cbn [bind].
        set (ns5 := set_nth ns4 p (set_rgt pn (Some fl))).
        assert (N5 : forall i, i <> p -> nth_error ns5 i = nth_error ns4 i)
          by (intros; apply nth_error_set_nth_neq; auto).
        apply Fin.
        * unfold ns5. rewrite length_set_nth. auto.
        * rewrite N5 by auto. simpl cpar. rewrite <- Hsp. exact N4fl.
        * rewrite N5 by auto. exact N4j.
        * rewrite N5 by auto. exact N4s.
        * simpl. split; [|split].
          -- exists (set_rgt pn (Some fl)). split; [apply nth_error_set_nth_eq; auto|].
             simpl. auto.
          -- apply (RepS_frame ns1); auto. intros i Hi.
             destruct (Hother i) as (O1 & O2 & O3 & O4); [apply in_app_iff; auto|].
             rewrite N5, N4, N1; auto.
          -- apply (RepC_frame ns1); auto. intros i Hi.
             destruct (Hother i) as (O1 & O2 & O3 & O4); [apply in_app_iff; auto|].
             rewrite N5, N4, N1; auto.
        * intros i Hi. rewrite N5, N4; auto; intros ->; apply Hi; simpl; auto.
        * apply f_equal. apply idx_plug_ne. congruence.
  Qed.
  (** ** the loop over [insert_order] returns normally *)
  Lemma insert_loop_ok :
    forall pend rt ns ab fl ot,
      ORep ns ab ot rt -> length ab = length ns ->
      Permutation (oixs ot ++ pend) (seq 0 fl) ->
      fl + length pend <= length ns ->
      (forall j, In j pend -> exists nj, nth_error ns j = Some nj /\ par nj = None) ->
      (forall j, In j pend -> exists lb, nth_error ab j = Some lb /\ okbox lb) ->
      exists r, insert_loop pend rt ns ab fl = Ok r.
  Proof.
    induction pend as [|j pend IH]; intros rt ns ab fl ot HO Hlen HP Hfl Hrows Hboxes.
    - simpl. eauto.
    - cbn [AabbTree.insert_loop].
      assert (HND : NoDup (oixs ot ++ j :: pend)).
      { eapply Permutation_NoDup; [symmetry; exact HP|]. apply seq_NoDup. }
      assert (Hlt : forall i, In i (oixs ot ++ j :: pend) -> i < fl).
      { intros i Hi. eapply Permutation_in in Hi; [|exact HP]. apply in_seq in Hi. lia. }
      apply NoDup_app_inv in HND as (HNt & HNp & Hdis).
      destruct (Hrows j) as (nj & Hnj & Hparj); [simpl; auto|].
      destruct (Hboxes j) as (lb & Hlb & Hoklb); [simpl; auto|].
      assert (Hjlt : j < length ns) by (apply nth_error_Some; congruence).
      assert (Hjfl : j < fl) by (apply Hlt, in_app_iff; simpl; auto).
      destruct ot as [t|]; simpl in HO.
      + destruct HO as (-> & HR & HB).
        assert (Hj : ~ In j (ixs t)) by (intros H; apply (Hdis j); simpl; auto).
        assert (Hflt : ~ In fl (ixs t)).
        { intros H. assert (fl < fl); [|lia]. apply Hlt, in_app_iff; auto. }
        pose proof (insert_leaf_spec C cmin cmax go_left cost_ok ns ab t j fl nj lb HR HB HNt Hj Hflt) as Hspec.
        simpl in Hfl.
        specialize (Hspec ltac:(lia) Hnj ltac:(lia) Hlen Hlb).
        destruct (insert_leaf_ok ns ab t j fl nj lb HR HB HNt Hj Hflt ltac:(lia) Hnj ltac:(lia) Hlen Hlb Hoklb)
          as (r1 & Hr1).
        rewrite Hr1 in Hspec. rewrite Hr1. destruct r1 as [[[rt1 ns1] ab1] fl1].
        destruct Hspec as (t1 & -> & -> & HR1 & HB1 & Pix & Plv & Pbr & L1 & LA1 & N1 & A1).
        cbn [bind].
        apply (IH (Some (idx t1)) ns1 ab1 (S fl) (Some t1)).
        * simpl. auto.
        * lia.
        * cbn [oixs]. rewrite Pix. rewrite seq_S. cbn [plus].
          transitivity (fl :: (ixs t ++ j :: pend)).
          -- cbn [app]. rewrite perm_swap. constructor.
             first [apply Permutation_middle | apply Permutation_sym, Permutation_middle].
          -- rewrite <- HP. cbn [oixs]. apply Permutation_cons_append.
        * simpl. lia.
        * intros i Hi. rewrite N1. { apply Hrows; simpl; auto. }
          simpl. intros [E|[E|H]]; [subst i|subst i|].
          -- inversion HNp; auto.
          -- assert (fl < fl); [|lia]. apply Hlt, in_app_iff; simpl; auto.
          -- apply (Hdis i); simpl; auto.
        * intros i Hi. rewrite A1. { apply Hboxes; simpl; auto. }
          simpl. intros [E|H]; [subst i|].
          -- assert (fl < fl); [|lia]. apply Hlt, in_app_iff; simpl; auto.
          -- apply (Hdis i); [apply branches_in_ixs; auto|simpl; auto].
      + (* empty tree: the first leaf becomes the root *)
        subst rt. unfold AabbTree.insert_leaf.
        unfold modify, get. rewrite Hnj. cbn [bind].
        unfold upd. destruct (Nat.ltb_spec j (length ns)); [|lia]. cbn [bind].
        set (ns1 := set_nth ns j (set_typ nj TLeaf)).
        assert (N1 : forall i, i <> j -> nth_error ns1 i = nth_error ns i)
          by (intros; apply nth_error_set_nth_neq; auto).
        assert (L1 : length ns1 = length ns) by apply length_set_nth.
        apply (IH (Some j) ns1 ab fl (Some (L j))).
        * simpl. repeat split; auto.
          -- exists (set_typ nj TLeaf). split; [apply nth_error_set_nth_eq; auto|]. simpl; auto.
          -- exists lb; auto.
        * lia.
        * simpl. simpl in HP. auto.
        * simpl in Hfl. lia.
        * intros i Hi. rewrite N1. { apply Hrows; simpl; auto. }
          intros ->. inversion HNp; auto.
        * intros i Hi. apply Hboxes; simpl; auto.
  Qed.

  (** ** a batch returns normally *)
  Lemma insert_batch_ok (t : tree C D) asg bs d order :
    WF t asg -> Permutation order (seq (filled _ _ t) (length bs)) ->
    (match d with Some dl => length dl = length bs | None => True end) ->
    (forall b, In b bs -> okbox b) ->
    exists t', insert_batch t bs d order = Ok t'.
  Proof.
    intros (ot & HO & Ln & La & Le & Pix & Plv & Hlook) Hord Hd Hbs.
    unfold AabbTree.insert_batch.
    destruct (Nat.eqb_spec (length bs) 0) as [E0|E0]; [eauto|].
    assert (Edata : negb (match d with Some d0 => length d0 =? length bs | None => true end) = false).
    { destruct d; simpl; auto. rewrite Hd. rewrite Nat.eqb_refl. reflexivity. }
    rewrite Edata.
    set (n := length bs) in *. set (F := filled _ _ t) in *.
    rewrite Ln. replace (F + n - F) with n by lia.
    set (ns := nodes _ _ t ++ repeat node_none (2 * n)).
    assert (Lns : length ns = F + 2 * n).
    { unfold ns. rewrite app_length, repeat_length. lia. }
    set (ab0 := aabbs _ _ t ++ bs).
    assert (Lab0 : length ab0 = F + n) by (unfold ab0; rewrite app_length; lia).
    set (ab := ab0 ++ repeat (box_zero C czero) (length ns - length ab0)).
    assert (Lab : length ab = length ns).
    { unfold ab. rewrite app_length, repeat_length. lia. }
    assert (Hin_lt : forall i, In i (oixs ot) -> i < F).
    { intros i Hi. eapply Permutation_in in Hi; [|exact Pix]. apply in_seq in Hi. lia. }
    assert (HO' : ORep ns ab ot (root _ _ t)).
    { destruct ot as [t0|]; simpl in *; auto.
      destruct HO as (Hr & HR & HB). repeat split; auto.
      - apply (RepS_frame (nodes _ _ t)); auto. intros i Hi. unfold ns. apply nth_error_app1.
        specialize (Hin_lt i Hi). lia.
      - apply (BoxOK_frame _ _ _ (aabbs _ _ t)); auto. intros i Hi. unfold ab, ab0.
        specialize (Hin_lt i Hi).
        rewrite nth_error_app1 by (rewrite app_length; lia). apply nth_error_app1. lia. }
    assert (Hlo : length order = n).
    { rewrite (Permutation_length Hord). apply seq_length. }
    destruct (insert_loop_ok order (root _ _ t) ns ab (F + n) ot HO' Lab) as (r & Hr).
    - rewrite Hord, Pix, <- seq_app. reflexivity.
    - lia.
    - intros j Hj. eapply Permutation_in in Hj; [|exact Hord]. apply in_seq in Hj.
      exists node_none. split; auto. unfold ns. rewrite nth_error_app2 by lia.
      apply nth_error_repeat. lia.
    - intros j Hj. eapply Permutation_in in Hj; [|exact Hord]. apply in_seq in Hj.
      destruct (nth_error bs (j - F)) as [b|] eqn:Eb.
      + exists b. split; [|apply Hbs; eapply nth_error_In; eauto].
        unfold ab, ab0. rewrite nth_error_app1 by (rewrite app_length; lia).
        rewrite nth_error_app2 by lia. rewrite La. exact Eb.
      + apply nth_error_None in Eb. fold n in Eb. lia.
    - rewrite Hr. destruct r as [[[rt' ns'] ab'] fl']. cbn [bind]. eauto.
  Qed.

End NoAssert.

(** ** the BVH layer: update_collider_poses / add_collider can only raise KeyError (frame
    unknown to the transform manager) or fail on an unknown object id *)
Section BvhNoAssert.
  Variable C : Type.
  Variable le : C -> C -> bool.
  Variables cmin cmax : C -> C -> C.
  Variable czero : C.
  Variable go_left : box C -> box C -> box C -> bool.
  Variable cost_ok : box C -> box C -> box C -> box C -> bool.
  Variable frame : Type.
  Variable feqb : frame -> frame -> bool.
  Variables coll pose : Type.
  Variable upd : coll -> pose -> coll.
  Variable aabb_of : coll -> box C.
  Variable okbox : box C -> Prop.
  Hypothesis cost_total : forall lb bl br, okbox lb -> cost_ok lb (merge C cmin cmax bl br) bl br = true.
  Hypothesis aabb_ok : forall c, okbox (aabb_of c).

  Notation datum := (datum frame).
  Notation WF := (WF C cmin cmax datum).
  Notation insert_aabb := (insert_aabb C cmin cmax czero go_left cost_ok frame).
  Notation upd_loop := (upd_loop C cmin cmax czero go_left cost_ok frame coll pose upd aabb_of).

  Lemma insert_aabb_ok t asg bx d : WF t asg -> okbox bx -> exists t', insert_aabb t bx d = XOk t'.
  Proof.
    intros HW Hb. unfold Bvh.insert_aabb.
    assert (Hbs : forall b, In b [bx] -> okbox b) by (intros b [<-|[]]; auto).
    destruct (insert_batch_ok C cmin cmax czero go_left cost_ok datum okbox cost_total
                t asg [bx] (Some [Some d]) (order_none (filled _ _ t) 1) HW (Permutation_refl _)
                eq_refl Hbs) as (t' & Ht').
    rewrite Ht'. simpl. eauto.
  Qed.

  Lemma upd_loop_errors tm : forall cs hp t asg e,
    WF t asg -> upd_loop tm cs hp t = XErr e -> e = XKey \/ e = XIndex.
  Proof.
    induction cs as [|[f o] cs IH]; intros hp t asg e HW; simpl; [discriminate|].
    destruct (tm f) as [p|]; [|intros E; inversion E; auto].
    unfold hget. destruct (nth_error hp o) as [c|]; simpl; [|intros E; inversion E; auto].
    destruct (insert_aabb_ok t asg (aabb_of (upd c p)) (f, o) HW (aabb_ok _)) as (t' & Ht').
    pose proof (insert_aabb_spec C le cmin cmax czero go_left cost_ok frame t asg
                  (aabb_of (upd c p)) (f, o) HW) as Hs.
    rewrite Ht' in Hs. rewrite Ht'. simpl. eapply IH; eauto.
  Qed.

  Theorem update_poses_raises_only st e :
    update_collider_poses C cmin cmax czero go_left cost_ok frame coll pose upd aabb_of st = XErr e ->
    e = XKey \/ e = XIndex.
  Proof.
    unfold Bvh.update_collider_poses.
    destruct (upd_loop _ _ _ _) as [[hp t]|e'] eqn:E; simpl; [discriminate|].
    intros E'; inversion E'; subst.
    eapply upd_loop_errors; [|exact E].
    apply (WF_empty C le cmin cmax czero go_left cost_ok datum).
  Qed.

  (** ... and it does return when every registered frame is known to the transform manager
      and every registered object exists *)
  Lemma upd_loop_succeeds tm : forall cs hp t asg,
    WF t asg -> (forall f o, In (f, o) cs -> (exists p, tm f = Some p) /\ o < length hp) ->
    exists r, upd_loop tm cs hp t = XOk r.
  Proof.
    induction cs as [|[f o] cs IH]; intros hp t asg HW Hcs; [simpl; eauto|].
    destruct (Hcs f o (or_introl eq_refl)) as ((p & Hp) & Ho).
    destruct (nth_error hp o) as [c|] eqn:Ec; [|apply nth_error_None in Ec; lia].
    destruct (insert_aabb_ok t asg (aabb_of (upd c p)) (@pair frame oid f o) HW (aabb_ok _)) as (t' & Ht').
    pose proof (insert_aabb_spec C le cmin cmax czero go_left cost_ok frame t asg
                  (aabb_of (upd c p)) (@pair frame oid f o) HW) as Hs.
    rewrite Ht' in Hs.
    assert (E : upd_loop tm ((f, o) :: cs) hp t = upd_loop tm cs (set_nth hp o (upd c p)) t').
    { cbn [Bvh.upd_loop]. rewrite Hp. unfold hget. rewrite Ec. cbn [xbind]. rewrite Ht'. reflexivity. }
    rewrite E. eapply IH; eauto.
    intros f' o' Hin. destruct (Hcs f' o' (or_intror Hin)) as (H1 & H2). split; auto.
    rewrite length_set_nth. auto.
  Qed.

  Theorem update_poses_succeeds st :
    (forall f o, In (f, o) (colliders _ _ _ _ st) ->
       (exists p, tmap _ _ _ _ st f = Some p) /\ o < length (heap _ _ _ _ st)) ->
    exists st', update_collider_poses C cmin cmax czero go_left cost_ok frame coll pose upd aabb_of st = XOk st'.
  Proof.
    intros H. unfold Bvh.update_collider_poses.
    destruct (upd_loop_succeeds (tmap _ _ _ _ st) (colliders _ _ _ _ st) (heap _ _ _ _ st)
                (empty_tree C datum) [] (WF_empty C le cmin cmax czero go_left cost_ok datum) H)
      as ([hp t] & Hr).
    rewrite Hr. simpl. eauto.
  Qed.

  Theorem add_collider_raises_only st f o e :
    Inv C cmin cmax frame coll pose aabb_of st ->
    add_collider C cmin cmax czero go_left cost_ok frame feqb coll pose aabb_of st f o = XErr e ->
    e = XIndex.
  Proof.
    intros (asg & HW & _). unfold Bvh.add_collider, hget.
    destruct (nth_error (heap _ _ _ _ st) o) as [c|]; simpl; [|intros E; inversion E; auto].
    destruct (insert_aabb_ok _ asg (aabb_of c) (f, o) HW (aabb_ok _)) as (t' & Ht').
    rewrite Ht'. simpl. discriminate.
  Qed.
End BvhNoAssert.
