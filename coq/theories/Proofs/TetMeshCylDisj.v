(** * make_tetrahedral_cylinder: no two elements overlap (C17), any number of rim vertices.

    Within a sector: the sector is the image, under the linear map that sends the unit vectors
    e1, e2 to the two rim points (determinant = their cross product > 0), of a canonical sector
    whose elements are separated pairwise by the symbolic checker (coefficients in the positive
    parameters of the class).  Across sectors: a plane through the axis, under the hypothesis
    that the angular sectors do not overlap ([sectors_apart]: for every two sectors one of the
    four bounding half-planes separates them). *)
From Coq Require Import List ZArith QArith Reals Lra Lia Bool Psatz.
From D3 Require Import Base.Ops Base.Vec Base.RVec Model.TetSym Gen.TetTables Model.TetMesh Checker.TetMesh
                       Proofs.TetMeshPoly Proofs.TetMeshBase Proofs.TetMeshSym Proofs.TetMeshBox Proofs.TetMeshCyl.
Import ListNotations.
Import TetTables.
Local Open Scope R_scope.

(** ** images of tetrahedra under an injective linear map of the (x, y) plane *)
Section Image.
  Variables (xi yi xj yj : R).
  Hypothesis Hk : xi * yj - yi * xj <> 0.

  Definition amap (q : V3 R) : V3 R := V (vx q * xi + vy q * xj) (vx q * yi + vy q * yj) (vz q).

  Lemma amap_comb4 w0 w1 w2 w3 a b c d :
    amap (comb4 w0 w1 w2 w3 a b c d) = comb4 w0 w1 w2 w3 (amap a) (amap b) (amap c) (amap d).
  Proof. unfold amap, comb4; cbn [vx vy vz]. apply f_equal3; ring. Qed.

  Lemma amap_inj q1 q2 : amap q1 = amap q2 -> q1 = q2.
  Proof.
    destruct q1 as [x1 y1 z1], q2 as [x2 y2 z2]. unfold amap; cbn [vx vy vz]. intros E. injection E as E1 E2 E3.
    assert (Dx : (x1 - x2) * (xi * yj - yi * xj) = 0).
    { replace ((x1 - x2) * (xi * yj - yi * xj))
        with (yj * ((x1 * xi + y1 * xj) - (x2 * xi + y2 * xj)) - xj * ((x1 * yi + y1 * yj) - (x2 * yi + y2 * yj))) by ring.
      rewrite E1, E2. ring. }
    assert (Dy : (y1 - y2) * (xi * yj - yi * xj) = 0).
    { replace ((y1 - y2) * (xi * yj - yi * xj))
        with (xi * ((x1 * yi + y1 * yj) - (x2 * yi + y2 * yj)) - yi * ((x1 * xi + y1 * xj) - (x2 * xi + y2 * xj))) by ring.
      rewrite E1, E2. ring. }
    apply Rmult_integral in Dx as [Dx|Dx]; [|contradiction].
    apply Rmult_integral in Dy as [Dy|Dy]; [|contradiction].
    apply f_equal3; lra.
  Qed.

  Lemma interior_image a b c d p :
    tet_interior (amap a) (amap b) (amap c) (amap d) p -> exists q, p = amap q /\ tet_interior a b c d q.
  Proof.
    intros [w0 [w1 [w2 [w3 (W0 & W1 & W2 & W3 & Ws & Hp)]]]].
    exists (comb4 w0 w1 w2 w3 a b c d). split; [rewrite amap_comb4; assumption|].
    exists w0, w1, w2, w3. repeat split; assumption.
  Qed.

  Lemma disjoint_image a1 b1 c1 d1 a2 b2 c2 d2 :
    (forall q, ~ (tet_interior a1 b1 c1 d1 q /\ tet_interior a2 b2 c2 d2 q)) ->
    forall p, ~ (tet_interior (amap a1) (amap b1) (amap c1) (amap d1) p /\
                 tet_interior (amap a2) (amap b2) (amap c2) (amap d2) p).
  Proof.
    intros H p [H1 H2]. apply interior_image in H1 as [q1 [E1 I1]]. apply interior_image in H2 as [q2 [E2 I2]].
    assert (q1 = q2) by (apply amap_inj; congruence). subst q2. apply (H q1). split; assumption.
  Qed.
End Image.

(** ** pairwise formulation *)
Definition tets_apart (vs : list (V3 R)) (t t' : tet) : Prop :=
  forall p, ~ (mesh_interior vs t p /\ mesh_interior vs t' p).

Lemma ordpairs_disjoint vs ts : ForallOrdPairs (tets_apart vs) ts -> interiors_disjoint vs ts.
Proof.
  intros H. unfold interiors_disjoint. induction H as [|t r Ht Hr IH]; intros i j ti tj Hij Hi Hj.
  - destruct i; discriminate.
  - destruct j as [|j]; [lia|]. cbn in Hj. destruct i as [|i].
    + cbn in Hi. inversion Hi; subst. rewrite Forall_forall in Ht. apply Ht. eapply nth_error_In; eassumption.
    + cbn in Hi. apply (IH i j); [lia|assumption|assumption].
Qed.

Lemma ordpairs_app {A} (R : A -> A -> Prop) l1 l2 :
  ForallOrdPairs R l1 -> ForallOrdPairs R l2 -> (forall x y, In x l1 -> In y l2 -> R x y) ->
  ForallOrdPairs R (l1 ++ l2).
Proof.
  intros H1 H2 H12. induction H1 as [|x l Hx Hl IH]; cbn; [assumption|].
  constructor.
  - apply Forall_app. split; [assumption|]. apply Forall_forall. intros y Hy. apply H12; [left; reflexivity|assumption].
  - apply IH. intros a b Ha Hb. apply H12; [right; assumption|assumption].
Qed.

Lemma disjoint_ordpairs vs ts : interiors_disjoint vs ts -> ForallOrdPairs (tets_apart vs) ts.
Proof.
  unfold interiors_disjoint. induction ts as [|t r IH]; intros H; constructor.
  - apply Forall_forall. intros t' Ht'. apply In_nth_error in Ht' as [j Hj].
    unfold tets_apart. apply (H 0%nat (S j) t t'); [lia|reflexivity|exact Hj].
  - apply IH. intros i j ti tj Hij Hi Hj. apply (H (S i) (S j)); [lia|assumption|assumption].
Qed.

(** ** transfer of pairwise separation from a local (canonical) mesh *)
Definition tet_img (vs : list (V3 R)) (A : V3 R -> V3 R) (loc : list (V3 R)) (t tl : tet) : Prop :=
  exists a b c d, tet_points loc tl = Some (a, b, c, d) /\ tet_points vs t = Some (A a, A b, A c, A d).

Lemma transfer_apart vs A loc ts tsl :
  (forall a1 b1 c1 d1 a2 b2 c2 d2,
      (forall q, ~ (tet_interior a1 b1 c1 d1 q /\ tet_interior a2 b2 c2 d2 q)) ->
      forall p, ~ (tet_interior (A a1) (A b1) (A c1) (A d1) p /\ tet_interior (A a2) (A b2) (A c2) (A d2) p)) ->
  Forall2 (tet_img vs A loc) ts tsl ->
  ForallOrdPairs (tets_apart loc) tsl -> ForallOrdPairs (tets_apart vs) ts.
Proof.
  intros HA HF. induction HF as [|t tl r rl Himg HF IH]; intros HP; [constructor|].
  inversion HP as [|? ? Hhead Htail]; subst. constructor; [|apply IH; assumption].
  clear IH Htail HP. induction HF as [|t' tl' r' rl' Himg' HF' IH']; [constructor|].
  inversion Hhead as [|? ? Hh Ht]; subst. constructor; [|apply IH'; assumption].
  destruct Himg as (a1 & b1 & c1 & d1 & L1 & R1), Himg' as (a2 & b2 & c2 & d2 & L2 & R2).
  intros p [(x1 & y1 & z1 & w1 & E1 & I1) (x2 & y2 & z2 & w2 & E2 & I2)].
  rewrite R1 in E1. rewrite R2 in E2. inversion E1; inversion E2; subst.
  apply (HA a1 b1 c1 d1 a2 b2 c2 d2) with (p := p); [|split; assumption].
  intros q [Q1 Q2]. apply (Hh q). split; [exists a1, b1, c1, d1|exists a2, b2, c2, d2]; split; assumption.
Qed.

(** ** the canonical sectors *)
Definition celem_tets_with (id : catom -> Z) (e : celem) : list tet :=
  match e with
  | CE_tet a b c d => [(id a, id b, id c, id d)]
  | CE_prism a b c d e f => split_prism [id a; id b; id c; id d; id e; id f]
  | CE_pyramid a b c d e => split_pyramid [id a; id b; id c; id d; id e]
  end.
Lemma celem_tets_with_eq n i j e : celem_tets n i j e = celem_tets_with (catom_id n i j) e.
Proof. reflexivity. Qed.

Definition idl (a : catom) : Z :=
  match a with
  | CA_bottom_center => 0 | CA_top_center => 1 | CA_bottom_i => 2 | CA_top_i => 3 | CA_bottom_j => 4 | CA_top_j => 5
  | CA_center | CA_medial | CA_medial0 => 6 | CA_medial1 => 7 | CA_medial_i => 8 | CA_medial_j => 9
  end%Z.

Definition p0 : poly := [].
Definition p1 : poly := pconst 1.
(** long: variables r (radius) and o (offset of the medial points); tz = r + o *)
Definition loc_long : list spoint :=
  let tz := padd (pvar 0) (pvar 1) in let o := pvar 1 in
  [V p0 p0 (popp tz); V p0 p0 tz; V p1 p0 (popp tz); V p1 p0 tz; V p0 p1 (popp tz); V p0 p1 tz;
   V p0 p0 (popp o); V p0 p0 o; V p0 p0 p0; V p0 p0 p0].
(** medium: variable tz *)
Definition loc_medium : list spoint :=
  let tz := pvar 0 in
  [V p0 p0 (popp tz); V p0 p0 tz; V p1 p0 (popp tz); V p1 p0 tz; V p0 p1 (popp tz); V p0 p1 tz;
   V p0 p0 p0; V p0 p0 p0; V p0 p0 p0; V p0 p0 p0].
(** short: variables tz, s, s' with s + s' = 1 (the rim points are at distance s + s') *)
Definition loc_short : list spoint :=
  let tz := pvar 0 in let s := pvar 1 in let u := padd (pvar 1) (pvar 2) in
  [V p0 p0 (popp tz); V p0 p0 tz; V u p0 (popp tz); V u p0 tz; V p0 u (popp tz); V p0 u tz;
   V p0 p0 p0; V p0 p0 p0; V s p0 p0; V p0 s p0].

Definition loc_tets (table : list celem) : list tet := flat_map (celem_tets_with idl) table.

(** local elements pairwise separated, all local vertices in the quadrant x, y >= 0 *)
Definition loc_ok (svs : list spoint) (table : list celem) : bool :=
  chk_disjoint svs (loc_tets table) && forallb (fun v => pnonneg (vx v) && pnonneg (vy v)) svs.

Lemma loc_long_ok : loc_ok loc_long cyl_long = true.
Proof. vm_cast_no_check (eq_refl true). Qed.
Lemma loc_medium_ok : loc_ok loc_medium cyl_medium = true.
Proof. vm_cast_no_check (eq_refl true). Qed.
Lemma loc_short_ok : loc_ok loc_short cyl_short = true.
Proof. vm_cast_no_check (eq_refl true). Qed.

(** ** each real sector is the image of the canonical one *)
Ltac img_tet :=
  eexists; eexists; eexists; eexists; split;
  [ reflexivity
  | unfold tet_points;
    repeat match goal with
           | H : vget ?vs ?a = Some _ |- context [vget ?vs ?a] => rewrite H
           end;
    unfold amap, eval_pt; cbn [vx vy vz];
    repeat (apply f_equal2 || apply f_equal3 || apply f_equal); vm_compute; ring ].

Section SectorImage.
  Variables (radius tz : R) (rim : list (R * R)).
  Hypothesis Hr : 0 < radius.
  Hypothesis Hz : 0 < tz.
  Let n := Z.of_nat (length rim).
  Variables (i j : Z) (xi yi xj yj : R).
  Hypothesis Hi : rim_at rim i = Some (xi, yi).
  Hypothesis Hj : rim_at rim j = Some (xj, yj).

  Lemma img_long (o : R) :
    tz = radius + o ->
    let vs := cyl_outer_verts (O := ROps) tz rim ++ [V 0 0 (- o); V 0 0 o] in
    Forall2 (tet_img vs (amap xi yi xj yj) (map (eval_pt [radius; o]) loc_long))
            (flat_map (celem_tets n i j) cyl_long) (loc_tets cyl_long).
  Proof.
    intros Eo vs.
    destruct (lay_rim tz rim [V 0 0 (- o); V 0 0 o] i xi yi Hi) as [Hbi Hti].
    destruct (lay_rim tz rim [V 0 0 (- o); V 0 0 o] j xj yj Hj) as [Hbj Htj].
    pose proof (lay_bc tz rim [V 0 0 (- o); V 0 0 o]) as Hbc.
    pose proof (lay_tc tz rim [V 0 0 (- o); V 0 0 o]) as Htc.
    pose proof (lay_extra tz rim [V 0 0 (- o); V 0 0 o] 0 _ eq_refl) as Hm0.
    pose proof (lay_extra tz rim [V 0 0 (- o); V 0 0 o] 1 _ eq_refl) as Hm1.
    fold vs in Hbi, Hti, Hbj, Htj, Hbc, Htc, Hm0, Hm1. fold n in Hm0, Hm1.
    replace (2 + 2 * n + Z.of_nat 0)%Z with (2 + 2 * n)%Z in Hm0 by lia.
    change (Z.of_nat 1) with 1%Z in Hm1.
    cbv [loc_tets cyl_long flat_map celem_tets celem_tets_with catom_id idl split_prism split prism_rule sr_first sr_seq
         sr_fix1 sr_fix2 sr_distinct_filter split_loop nth app].
    subst tz.
    repeat (constructor; [img_tet|]). constructor.
  Qed.

  Lemma img_medium :
    let vs := cyl_outer_verts (O := ROps) tz rim ++ [V 0 0 0] in
    Forall2 (tet_img vs (amap xi yi xj yj) (map (eval_pt [tz]) loc_medium))
            (flat_map (celem_tets n i j) cyl_medium) (loc_tets cyl_medium).
  Proof.
    intros vs.
    destruct (lay_rim tz rim [V 0 0 0] i xi yi Hi) as [Hbi Hti].
    destruct (lay_rim tz rim [V 0 0 0] j xj yj Hj) as [Hbj Htj].
    pose proof (lay_bc tz rim [V 0 0 0]) as Hbc.
    pose proof (lay_tc tz rim [V 0 0 0]) as Htc.
    pose proof (lay_extra tz rim [V 0 0 0] 0 _ eq_refl) as Hm0.
    fold vs in Hbi, Hti, Hbj, Htj, Hbc, Htc, Hm0. fold n in Hm0.
    replace (2 + 2 * n + Z.of_nat 0)%Z with (2 + 2 * n)%Z in Hm0 by lia.
    cbv [loc_tets cyl_medium flat_map celem_tets celem_tets_with catom_id idl split_pyramid split pyramid_rule sr_first sr_seq
         sr_fix1 sr_fix2 sr_distinct_filter split_loop nth app].
    repeat (constructor; [img_tet|]). constructor.
  Qed.

  Lemma img_short (s : R) :
    let vs := cyl_outer_verts (O := ROps) tz rim ++ [V 0 0 0] ++ map (fun '(x, y) => V (x * s) (y * s) 0) rim in
    Forall2 (tet_img vs (amap xi yi xj yj) (map (eval_pt [tz; s; 1 - s]) loc_short))
            (flat_map (celem_tets n i j) cyl_short) (loc_tets cyl_short).
  Proof.
    intros vs. set (extra := [V 0 0 0] ++ map (fun '(x, y) => V (x * s) (y * s) 0) rim) in *.
    destruct (lay_rim tz rim extra i xi yi Hi) as [Hbi Hti].
    destruct (lay_rim tz rim extra j xj yj Hj) as [Hbj Htj].
    pose proof (lay_bc tz rim extra) as Hbc.
    pose proof (lay_tc tz rim extra) as Htc.
    pose proof (lay_extra tz rim extra 0 _ eq_refl) as Hm0.
    pose proof (rim_at_bound rim i _ Hi) as Bi. pose proof (rim_at_bound rim j _ Hj) as Bj.
    assert (Hmi : vget vs (2 + 2 * n + 1 + i) = Some (V (xi * s) (yi * s) 0)).
    { replace (2 + 2 * n + 1 + i)%Z with (2 + 2 * n + Z.of_nat (S (Z.to_nat i)))%Z by (unfold n; lia).
      apply lay_extra. unfold extra. cbn [app nth_error]. rewrite nth_error_map.
      unfold rim_at in Hi. destruct (i <? 0)%Z; [discriminate|]. now rewrite Hi. }
    assert (Hmj : vget vs (2 + 2 * n + 1 + j) = Some (V (xj * s) (yj * s) 0)).
    { replace (2 + 2 * n + 1 + j)%Z with (2 + 2 * n + Z.of_nat (S (Z.to_nat j)))%Z by (unfold n; lia).
      apply lay_extra. unfold extra. cbn [app nth_error]. rewrite nth_error_map.
      unfold rim_at in Hj. destruct (j <? 0)%Z; [discriminate|]. now rewrite Hj. }
    fold vs in Hbi, Hti, Hbj, Htj, Hbc, Htc, Hm0. fold n in Hm0.
    replace (2 + 2 * n + Z.of_nat 0)%Z with (2 + 2 * n)%Z in Hm0 by lia.
    cbv [loc_tets cyl_short flat_map celem_tets celem_tets_with catom_id idl split_prism split prism_rule sr_first sr_seq
         sr_fix1 sr_fix2 sr_distinct_filter split_loop nth app].
    repeat (constructor; [img_tet|]). constructor.
  Qed.
End SectorImage.

(** ** separation without a strict vertex, for a non-degenerate tetrahedron *)
Lemma coplanar_vol6_zero nrm q (a b c d : V3 R) :
  nrm <> V 0 0 0 ->
  plane_fn nrm q a = 0 -> plane_fn nrm q b = 0 -> plane_fn nrm q c = 0 -> plane_fn nrm q d = 0 ->
  vol6 (O := ROps) a b c d = 0.
Proof.
  intros Hn Ha Hb Hc Hd.
  destruct nrm as [n1 n2 n3], q as [q1 q2 q3], a as [a1 a2 a3], b as [b1 b2 b3], c as [c1 c2 c3], d as [d1 d2 d3].
  unfold plane_fn, dot, vsub in *. unfold vol6, dot, cross, vsub. cbn [vx vy vz add sub mul ROps] in *.
  set (D := ((b2 - a2) * (c3 - a3) - (b3 - a3) * (c2 - a2)) * (d1 - a1) +
            ((b3 - a3) * (c1 - a1) - (b1 - a1) * (c3 - a3)) * (d2 - a2) +
            ((b1 - a1) * (c2 - a2) - (b2 - a2) * (c1 - a1)) * (d3 - a3)).
  set (ub := n1 * (b1 - a1) + n2 * (b2 - a2) + n3 * (b3 - a3)).
  set (uc := n1 * (c1 - a1) + n2 * (c2 - a2) + n3 * (c3 - a3)).
  set (ud := n1 * (d1 - a1) + n2 * (d2 - a2) + n3 * (d3 - a3)).
  assert (Eb : ub = 0) by (unfold ub; lra). assert (Ec : uc = 0) by (unfold uc; lra). assert (Ed : ud = 0) by (unfold ud; lra).
  assert (I1 : D * n1 = ub * ((c2 - a2) * (d3 - a3) - (c3 - a3) * (d2 - a2))
                       + uc * ((d2 - a2) * (b3 - a3) - (d3 - a3) * (b2 - a2))
                       + ud * ((b2 - a2) * (c3 - a3) - (b3 - a3) * (c2 - a2))) by (unfold D, ub, uc, ud; ring).
  assert (I2 : D * n2 = ub * ((c3 - a3) * (d1 - a1) - (c1 - a1) * (d3 - a3))
                       + uc * ((d3 - a3) * (b1 - a1) - (d1 - a1) * (b3 - a3))
                       + ud * ((b3 - a3) * (c1 - a1) - (b1 - a1) * (c3 - a3))) by (unfold D, ub, uc, ud; ring).
  assert (I3 : D * n3 = ub * ((c1 - a1) * (d2 - a2) - (c2 - a2) * (d1 - a1))
                       + uc * ((d1 - a1) * (b2 - a2) - (d2 - a2) * (b1 - a1))
                       + ud * ((b1 - a1) * (c2 - a2) - (b2 - a2) * (c1 - a1))) by (unfold D, ub, uc, ud; ring).
  rewrite Eb, Ec, Ed in I1, I2, I3.
  destruct (Req_dec D 0) as [E|E]; [exact E|exfalso].
  apply Hn. apply f_equal3.
  - assert (X : D * n1 = 0) by lra. apply Rmult_integral in X as [X|X]; [contradiction|exact X].
  - assert (X : D * n2 = 0) by lra. apply Rmult_integral in X as [X|X]; [contradiction|exact X].
  - assert (X : D * n3 = 0) by lra. apply Rmult_integral in X as [X|X]; [contradiction|exact X].
Qed.

Lemma separated_nonstrict nrm q a1 b1 c1 d1 a2 b2 c2 d2 :
  nrm <> V 0 0 0 -> vol6 (O := ROps) a1 b1 c1 d1 <> 0 ->
  plane_fn nrm q a1 <= 0 -> plane_fn nrm q b1 <= 0 -> plane_fn nrm q c1 <= 0 -> plane_fn nrm q d1 <= 0 ->
  0 <= plane_fn nrm q a2 -> 0 <= plane_fn nrm q b2 -> 0 <= plane_fn nrm q c2 -> 0 <= plane_fn nrm q d2 ->
  forall p, ~ (tet_interior a1 b1 c1 d1 p /\ tet_interior a2 b2 c2 d2 p).
Proof.
  intros Hn Hv A1 B1 C1 D1 A2 B2 C2 D2 p [[w0 [w1 [w2 [w3 (W0 & W1 & W2 & W3 & Ws & Hp)]]]]
                                            [u0 [u1 [u2 [u3 (U0 & U1 & U2 & U3 & Us & Hq)]]]]].
  pose proof (plane_fn_comb nrm q w0 w1 w2 w3 a1 b1 c1 d1 Ws) as E1.
  pose proof (plane_fn_comb nrm q u0 u1 u2 u3 a2 b2 c2 d2 Us) as E2.
  rewrite <- Hp in E1. rewrite <- Hq in E2.
  apply Hv. apply (coplanar_vol6_zero nrm q); try assumption.
  all: set (fa := plane_fn nrm q a1) in *; set (fb := plane_fn nrm q b1) in *; set (fc := plane_fn nrm q c1) in *;
    set (fd := plane_fn nrm q d1) in *; set (ga := plane_fn nrm q a2) in *; set (gb := plane_fn nrm q b2) in *;
    set (gc := plane_fn nrm q c2) in *; set (gd := plane_fn nrm q d2) in *; set (fp := plane_fn nrm q p) in *;
    clearbody fa fb fc fd ga gb gc gd fp;
    assert (0 <= u0 * ga) by (apply Rmult_le_pos; lra); assert (0 <= u1 * gb) by (apply Rmult_le_pos; lra);
    assert (0 <= u2 * gc) by (apply Rmult_le_pos; lra); assert (0 <= u3 * gd) by (apply Rmult_le_pos; lra);
    assert (w0 * fa <= 0) by nra; assert (w1 * fb <= 0) by nra; assert (w2 * fc <= 0) by nra; assert (w3 * fd <= 0) by nra;
    nra.
Qed.

(** ** cones over a sector, separation of different sectors *)
Definition in_cone (pi pj : R * R) (p : V3 R) : Prop :=
  exists al be, 0 <= al /\ 0 <= be /\ vx p = al * fst pi + be * fst pj /\ vy p = al * snd pi + be * snd pj.

(** a direction whose line through the axis has sector (pi, pj) on one side and (pk, pl) on the other *)
Definition sep_dir (pi pj pk pl : R * R) : Prop :=
  exists ux uy, (ux <> 0 \/ uy <> 0) /\
                cross2 (ux, uy) pi <= 0 /\ cross2 (ux, uy) pj <= 0 /\ 0 <= cross2 (ux, uy) pk /\ 0 <= cross2 (ux, uy) pl.

Definition block_info (vs : list (V3 R)) (pi pj : R * R) (ts : list tet) : Prop :=
  Forall (fun t => exists a b c d, tet_points vs t = Some (a, b, c, d) /\
                                   in_cone pi pj a /\ in_cone pi pj b /\ in_cone pi pj c /\ in_cone pi pj d /\
                                   vol6 (O := ROps) a b c d <> 0) ts.

Lemma cone_side ux uy pi pj p :
  in_cone pi pj p -> plane_fn (V (- uy) ux 0) (V 0 0 0) p = cross2 (ux, uy) (vx p, vy p) /\
  (cross2 (ux, uy) pi <= 0 -> cross2 (ux, uy) pj <= 0 -> plane_fn (V (- uy) ux 0) (V 0 0 0) p <= 0) /\
  (0 <= cross2 (ux, uy) pi -> 0 <= cross2 (ux, uy) pj -> 0 <= plane_fn (V (- uy) ux 0) (V 0 0 0) p).
Proof.
  intros (al & be & Ha & Hb & Ex & Ey). destruct pi as [xi yi], pj as [xj yj], p as [px py pz].
  unfold plane_fn, dot, vsub, cross2 in *. cbn [vx vy vz fst snd add sub mul ROps] in *. subst px py.
  split; [ring|]. split; intros H1 H2.
  - replace (- uy * (al * xi + be * xj - 0) + ux * (al * yi + be * yj - 0) + 0 * (pz - 0))
      with (al * (ux * yi - uy * xi) + be * (ux * yj - uy * xj)) by ring. nra.
  - replace (- uy * (al * xi + be * xj - 0) + ux * (al * yi + be * yj - 0) + 0 * (pz - 0))
      with (al * (ux * yi - uy * xi) + be * (ux * yj - uy * xj)) by ring. nra.
Qed.

Lemma blocks_apart vs pi pj pk pl ts ts' :
  block_info vs pi pj ts -> block_info vs pk pl ts' -> sep_dir pi pj pk pl ->
  forall t t', In t ts -> In t' ts' -> tets_apart vs t t'.
Proof.
  intros B1 B2 (ux & uy & Hu & S1 & S2 & S3 & S4) t t' Ht Ht'.
  unfold block_info in *. rewrite Forall_forall in B1, B2.
  destruct (B1 t Ht) as (a1 & b1 & c1 & d1 & E1 & Ca1 & Cb1 & Cc1 & Cd1 & V1).
  destruct (B2 t' Ht') as (a2 & b2 & c2 & d2 & E2 & Ca2 & Cb2 & Cc2 & Cd2 & _).
  intros p [(x1 & y1 & z1 & w1 & F1 & I1) (x2 & y2 & z2 & w2 & F2 & I2)].
  rewrite E1 in F1. rewrite E2 in F2. inversion F1; inversion F2; subst.
  apply (separated_nonstrict (V (- uy) ux 0) (V 0 0 0) x1 y1 z1 w1 x2 y2 z2 w2) with (p := p); try assumption.
  - intros E. inversion E. destruct Hu; lra.
  - apply (cone_side ux uy pi pj x1 Ca1); assumption.
  - apply (cone_side ux uy pi pj y1 Cb1); assumption.
  - apply (cone_side ux uy pi pj z1 Cc1); assumption.
  - apply (cone_side ux uy pi pj w1 Cd1); assumption.
  - apply (cone_side ux uy pk pl x2 Ca2); assumption.
  - apply (cone_side ux uy pk pl y2 Cb2); assumption.
  - apply (cone_side ux uy pk pl z2 Cc2); assumption.
  - apply (cone_side ux uy pk pl w2 Cd2); assumption.
  - split; assumption.
Qed.

Lemma tet_points_in (l : list (V3 R)) t a b c d :
  tet_points l t = Some (a, b, c, d) -> In a l /\ In b l /\ In c l /\ In d l.
Proof.
  destruct t as [[[ia ib] ic] id]. unfold tet_points.
  destruct (vget l ia) eqn:Ea; [|discriminate]. destruct (vget l ib) eqn:Eb; [|discriminate].
  destruct (vget l ic) eqn:Ec; [|discriminate]. destruct (vget l id) eqn:Ed; [|discriminate].
  intros H; inversion H; subst. repeat split; eapply vget_in; eassumption.
Qed.

Lemma block_from_image vs xi yi xj yj loc ts tsl :
  Forall2 (tet_img vs (amap xi yi xj yj) loc) ts tsl ->
  (forall v, In v loc -> 0 <= vx v /\ 0 <= vy v) ->
  tets_oriented 1 vs ts ->
  block_info vs (xi, yi) (xj, yj) ts.
Proof.
  intros HF Hq Ho. unfold block_info, tets_oriented in *.
  induction HF as [|t tl r rl (a & b & c & d & L & Rr) HF IH]; [constructor|].
  inversion Ho as [|? ? [v [Hv Hp]] Ho']; subst. constructor; [|apply IH; assumption].
  destruct (tet_points_in _ _ _ _ _ _ L) as (Ia & Ib & Ic & Id).
  exists (amap xi yi xj yj a), (amap xi yi xj yj b), (amap xi yi xj yj c), (amap xi yi xj yj d).
  split; [exact Rr|].
  assert (Cn : forall q, In q loc -> in_cone (xi, yi) (xj, yj) (amap xi yi xj yj q)).
  { intros q Hin. destruct (Hq q Hin). exists (vx q), (vy q). unfold amap; cbn [vx vy fst snd]. repeat split; assumption || ring. }
  repeat split; try (apply Cn; assumption).
  unfold tet_vol6 in Hv. rewrite Rr in Hv.
  assert (Ev : v = vol6 (O := ROps) (amap xi yi xj yj a) (amap xi yi xj yj b) (amap xi yi xj yj c) (amap xi yi xj yj d))
    by congruence.
  rewrite <- Ev. lra.
Qed.

Lemma quadrant_sound env svs :
  env_pos env -> forallb (fun v => pnonneg (vx v) && pnonneg (vy v)) svs = true ->
  forall v, In v (map (eval_pt env) svs) -> 0 <= vx v /\ 0 <= vy v.
Proof.
  intros He H v Hv. apply in_map_iff in Hv as [s [<- Hs]]. rewrite forallb_forall in H.
  specialize (H s Hs). apply andb_true_iff in H as [H1 H2]. unfold eval_pt; cbn [vx vy].
  split; apply pnonneg_sound; assumption.
Qed.

(** one sector from its canonical image: elements pairwise apart, inside the cone, non-degenerate *)
Lemma sector_from_image vs xi yi xj yj env svs table ts :
  xi * yj - yi * xj <> 0 -> env_pos env -> loc_ok svs table = true ->
  Forall2 (tet_img vs (amap xi yi xj yj) (map (eval_pt env) svs)) ts (loc_tets table) ->
  tets_oriented 1 vs ts ->
  ForallOrdPairs (tets_apart vs) ts /\ block_info vs (xi, yi) (xj, yj) ts.
Proof.
  intros Hk He Hok HF Ho. unfold loc_ok in Hok. apply andb_true_iff in Hok as [H1 H2]. split.
  - apply (transfer_apart vs (amap xi yi xj yj) (map (eval_pt env) svs) ts (loc_tets table)); [|assumption|].
    + intros. apply disjoint_image; assumption.
    + apply disjoint_ordpairs. apply chk_disjoint_sound; assumption.
  - eapply block_from_image; [eassumption| |assumption]. apply quadrant_sound; assumption.
Qed.

(** ** all sectors *)
Definition sectors_apart (rim : list (R * R)) (prs : list (Z * Z)) : Prop :=
  ForallOrdPairs (fun ij kl => forall pi pj pk pl,
                      rim_at rim (fst ij) = Some pi -> rim_at rim (snd ij) = Some pj ->
                      rim_at rim (fst kl) = Some pk -> rim_at rim (snd kl) = Some pl -> sep_dir pi pj pk pl) prs.

Section AllSectors.
  Variables (rim : list (R * R)) (vs : list (V3 R)) (sector : Z * Z -> list tet).
  Hypothesis Hblock : forall i j xi yi xj yj,
      rim_at rim i = Some (xi, yi) -> rim_at rim j = Some (xj, yj) -> 0 < cross2 (xi, yi) (xj, yj) ->
      ForallOrdPairs (tets_apart vs) (sector (i, j)) /\ block_info vs (xi, yi) (xj, yj) (sector (i, j)).

  Lemma all_sectors_apart prs :
    ccw_pairs rim prs -> sectors_apart rim prs -> ForallOrdPairs (tets_apart vs) (flat_map sector prs).
  Proof.
    induction prs as [|[i j] r IH]; intros Hc Hs; [constructor|].
    inversion Hc as [|? ? [[xi yi] [[xj yj] (Hi & Hj & Hk)]] Hc']; subst. cbn [fst snd] in Hi, Hj.
    inversion Hs as [|? ? Hhead Htail]; subst.
    destruct (Hblock i j xi yi xj yj Hi Hj Hk) as [B1 B2].
    cbn [flat_map]. apply ordpairs_app; [assumption|apply IH; assumption|].
    intros t t' Ht Ht'. apply in_flat_map in Ht' as [[k l] [Hkl Ht']].
    rewrite Forall_forall in Hhead. specialize (Hhead (k, l) Hkl).
    unfold ccw_pairs in Hc'. rewrite Forall_forall in Hc'.
    destruct (Hc' (k, l) Hkl) as [[xk yk] [[xl yl] (Hk' & Hl' & Hkk)]]. cbn [fst snd] in Hk', Hl'.
    destruct (Hblock k l xk yk xl yl Hk' Hl' Hkk) as [_ B2'].
    apply (blocks_apart vs (xi, yi) (xj, yj) (xk, yk) (xl, yl) (sector (i, j)) (sector (k, l))); try assumption.
    apply Hhead; assumption.
  Qed.
End AllSectors.

(** ** the theorem *)
Theorem cyl_mesh_rim_disjoint radius len rim :
  0 < radius -> 0 < len ->
  ccw_pairs rim (sector_pairs (length rim)) -> sectors_apart rim (sector_pairs (length rim)) ->
  let m := cyl_mesh_rim (O := ROps) radius len rim in
  interiors_disjoint (mverts m) (mtets m).
Proof.
  intros Hr Hl Hccw Hap m. apply ordpairs_disjoint.
  destruct (cyl_classify_cases radius len) as [Ht Hc]. cbv zeta in Hc.
  set (tz := len / 2) in *.
  assert (Hz : 0 < tz) by (unfold tz; lra).
  unfold m, cyl_mesh_rim, cyl_elements. rewrite half_R. cbn [mul sub div zero opp ROps].
  replace (/ 2 * len) with tz by (unfold tz; lra).
  assert (Kne : forall xi yi xj yj, 0 < cross2 (xi, yi) (xj, yj) -> xi * yj - yi * xj <> 0)
    by (intros xi yi xj yj H; unfold cross2 in H; cbn in H; lra).
  destruct (cyl_classify radius len); unfold mverts, mtets; cbn [fst snd].
  - (* long *)
    erewrite flat_map_ext with (g := fun ij => flat_map (celem_tets (Z.of_nat (length rim)) (fst ij) (snd ij)) cyl_long)
      by (intros [i j]; reflexivity).
    apply (all_sectors_apart rim _ (fun ij => flat_map (celem_tets (Z.of_nat (length rim)) (fst ij) (snd ij)) cyl_long));
      try assumption.
    intros i j xi yi xj yj Hi Hj Hk. cbn [fst snd].
      apply (sector_from_image _ xi yi xj yj [radius; tz - radius] loc_long cyl_long).
    + apply Kne; assumption.
    + repeat constructor; lra.
    + exact loc_long_ok.
    + apply (img_long radius tz rim Hz i j xi yi xj yj Hi Hj (tz - radius)). lra.
    + apply (proj1 (sector_long radius tz rim Hr Hz i j xi yi xj yj Hi Hj Hk (tz - radius) ltac:(lra) ltac:(lra))).
  - (* medium *)
    erewrite flat_map_ext with (g := fun ij => flat_map (celem_tets (Z.of_nat (length rim)) (fst ij) (snd ij)) cyl_medium)
      by (intros [i j]; reflexivity).
    apply (all_sectors_apart rim _ (fun ij => flat_map (celem_tets (Z.of_nat (length rim)) (fst ij) (snd ij)) cyl_medium));
      try assumption.
    intros i j xi yi xj yj Hi Hj Hk. cbn [fst snd].
      apply (sector_from_image _ xi yi xj yj [tz] loc_medium cyl_medium).
    + apply Kne; assumption.
    + repeat constructor; lra.
    + exact loc_medium_ok.
    + apply (img_medium tz rim i j xi yi xj yj Hi Hj).
    + apply (proj1 (sector_medium tz rim Hz i j xi yi xj yj Hi Hj Hk)).
  - (* short *)
    assert (Hs : 0 < (radius - tz) / radius < 1).
    { split; [apply Rdiv_lt_0_compat; lra|]. apply (Rmult_lt_reg_r radius); [assumption|].
      unfold Rdiv. rewrite Rmult_assoc, Rinv_l by lra. lra. }
    erewrite flat_map_ext with (g := fun ij => flat_map (celem_tets (Z.of_nat (length rim)) (fst ij) (snd ij)) cyl_short)
      by (intros [i j]; reflexivity).
    apply (all_sectors_apart rim _ (fun ij => flat_map (celem_tets (Z.of_nat (length rim)) (fst ij) (snd ij)) cyl_short));
      try assumption.
    intros i j xi yi xj yj Hi Hj Hk. cbn [fst snd].
      apply (sector_from_image _ xi yi xj yj [tz; (radius - tz) / radius; 1 - (radius - tz) / radius] loc_short cyl_short).
    + apply Kne; assumption.
    + repeat constructor; lra.
    + exact loc_short_ok.
    + apply (img_short tz rim i j xi yi xj yj Hi Hj).
    + apply (proj1 (sector_short tz rim Hz i j xi yi xj yj Hi Hj Hk _ Hs)).
Qed.
