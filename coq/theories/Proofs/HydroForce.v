(** * compute_contact_force of Model/Hydro.v over the reals (C15):
    the force is parallel to the plane normal, and the integrated pressure is non-negative
    whenever the polygon vertices lie in tetrahedron 1 and potentials / modulus are non-negative. *)
From Coq Require Import Reals Lra List Bool Arith Lia.
From D3 Require Import Base.Ops Base.Vec Base.RVec Base.RVec2 Model.AabbTree Model.Hydro Proofs.HydroPlane.
Import ListNotations.
Local Open Scope R_scope.

(** ** force parallel to the normal *)
Theorem force_parallel_normal (t : @tetra R) (e plane : V4R) (poly : list V3R) (E : R) :
  let '(_, f, _) := compute_contact_force t e plane poly E in
  cross f (xyz plane) = vzero.
Proof.
  unfold compute_contact_force. destruct poly as [|v0 rest].
  - unfold cross, vzero. cbn [vx vy vz sub mul zero ROps]. f_equal; ring.
  - destruct (fan_loop t e E v0 (firstn 7 rest) (zero, zero, vzero)) as [[tf ta] tc].
    destruct plane as [a b c d]. unfold cross, vscale, xyz, vzero. cbn [c0 c1 c2 vx vy vz sub mul zero ROps].
    f_equal; ring.
Qed.

(** the force is [total_force * normal]: its component along the normal has the sign of the
    integrated pressure *)
Lemma force_along_normal (t : @tetra R) (e plane : V4R) (v0 : V3R) (rest : list V3R) (E : R) :
  let '(tf, _, _) := fan_loop t e E v0 (firstn 7 rest) (zero, zero, vzero) in
  let '(_, f, _) := compute_contact_force t e plane (v0 :: rest) E in
  dot f (xyz plane) = tf * dot (xyz plane) (xyz plane).
Proof.
  unfold compute_contact_force.
  destruct (fan_loop t e E v0 (firstn 7 rest) (zero, zero, vzero)) as [[tf ta] tc].
  destruct plane as [a b c d]. unfold dot, vscale, xyz. cbn [c0 c1 c2 vx vy vz add mul ROps]. ring.
Qed.

(** ** barycentric coordinates (Cramer) are affine: the centroid's are the mean *)
Definition nondegenerate (t : @tetra R) : Prop :=
  let '(a, b, c, e) := t in det3 (vsub b a) (vsub c a) (vsub e a) <> 0.

Lemma bary_centroid (t : @tetra R) (p q r : V3R) : nondegenerate t ->
  let m := vdivs (vadd (vadd p q) r) three in
  c0 (bary_coords t m) = (c0 (bary_coords t p) + c0 (bary_coords t q) + c0 (bary_coords t r)) / 3 /\
  c1 (bary_coords t m) = (c1 (bary_coords t p) + c1 (bary_coords t q) + c1 (bary_coords t r)) / 3 /\
  c2 (bary_coords t m) = (c2 (bary_coords t p) + c2 (bary_coords t q) + c2 (bary_coords t r)) / 3 /\
  c3 (bary_coords t m) = (c3 (bary_coords t p) + c3 (bary_coords t q) + c3 (bary_coords t r)) / 3.
Proof.
  destruct t as [[[a b] c] e]. unfold nondegenerate. intros Hdet. cbv zeta.
  unfold bary_coords. cbn [c0 c1 c2 c3].
  set (det := det3 (vsub b a) (vsub c a) (vsub e a)) in *.
  assert (H3 : (three : R) = 3) by (unfold three; cbn [cst ROps]; unfold Q2R; simpl; field).
  (* each Cramer numerator is affine in the point *)
  assert (L1 : forall u v w : V3R, det3 (vsub (vdivs (vadd (vadd p q) r) three) a) v w
               = (det3 (vsub p a) v w + det3 (vsub q a) v w + det3 (vsub r a) v w) / 3).
  { intros u v w. rewrite H3. destruct p as [p1 p2 p3], q as [q1 q2 q3], r as [r1 r2 r3], a as [a1 a2 a3], v as [v1 v2 v3], w as [w1 w2 w3]. unfold det3, dot, cross, vsub, vadd, vdivs.
    cbn [vx vy vz add sub mul div ROps]. field. }
  assert (L2 : forall u w : V3R, det3 u (vsub (vdivs (vadd (vadd p q) r) three) a) w
               = (det3 u (vsub p a) w + det3 u (vsub q a) w + det3 u (vsub r a) w) / 3).
  { intros u w. rewrite H3. destruct p as [p1 p2 p3], q as [q1 q2 q3], r as [r1 r2 r3], a as [a1 a2 a3], u as [u1 u2 u3], w as [w1 w2 w3]. unfold det3, dot, cross, vsub, vadd, vdivs.
    cbn [vx vy vz add sub mul div ROps]. field. }
  assert (L3 : forall u v : V3R, det3 u v (vsub (vdivs (vadd (vadd p q) r) three) a)
               = (det3 u v (vsub p a) + det3 u v (vsub q a) + det3 u v (vsub r a)) / 3).
  { intros u v. rewrite H3. destruct p as [p1 p2 p3], q as [q1 q2 q3], r as [r1 r2 r3], a as [a1 a2 a3], u as [u1 u2 u3], v as [v1 v2 v3]. unfold det3, dot, cross, vsub, vadd, vdivs.
    cbn [vx vy vz add sub mul div ROps]. field. }
  rewrite (L1 a), L2, L3. cbn [one sub div ROps].
  set (P1 := det3 (vsub p a) (vsub c a) (vsub e a)). set (Q1 := det3 (vsub q a) (vsub c a) (vsub e a)).
  set (R1 := det3 (vsub r a) (vsub c a) (vsub e a)).
  set (P2 := det3 (vsub b a) (vsub p a) (vsub e a)). set (Q2 := det3 (vsub b a) (vsub q a) (vsub e a)).
  set (R2 := det3 (vsub b a) (vsub r a) (vsub e a)).
  set (P3 := det3 (vsub b a) (vsub c a) (vsub p a)). set (Q3 := det3 (vsub b a) (vsub c a) (vsub q a)).
  set (R3 := det3 (vsub b a) (vsub c a) (vsub r a)).
  repeat split; field; exact Hdet.
Qed.

(** a point is inside the tetrahedron iff its four (Cramer) barycentric coordinates are >= 0 *)
Definition inside (t : @tetra R) (p : V3R) : Prop :=
  0 <= c0 (bary_coords t p) /\ 0 <= c1 (bary_coords t p) /\ 0 <= c2 (bary_coords t p) /\ 0 <= c3 (bary_coords t p).
Definition nonneg4 (e : V4R) : Prop := 0 <= c0 e /\ 0 <= c1 e /\ 0 <= c2 e /\ 0 <= c3 e.

Lemma fan_term_nonneg (t : @tetra R) (e : V4R) (E : R) (v0 a b : V3R) :
  nondegenerate t -> nonneg4 e -> 0 <= E -> inside t v0 -> inside t a -> inside t b ->
  let '(pa, ar, _) := fan_term t e E v0 a b in 0 <= pa /\ 0 <= ar.
Proof.
  intros Hnd (E0 & E1 & E2 & E3) HE (A0 & A1 & A2 & A3) (B0 & B1 & B2 & B3) (C0 & C1 & C2 & C3).
  unfold fan_term.
  destruct (bary_centroid t v0 a b Hnd) as (M0 & M1 & M2 & M3). cbv zeta in M0, M1, M2, M3.
  set (res := bary_coords t (vdivs (vadd (vadd v0 a) b) three)) in *.
  assert (Har : 0 <= half * norm (cross (vsub a v0) (vsub b v0))).
  { pose proof (norm_nonneg (cross (vsub a v0) (vsub b v0))).
    assert ((half : R) = / 2) by (unfold half; cbn [cst ROps]; unfold Q2R; simpl; field).
    cbn [mul ROps]. rewrite H0. nra. }
  split; [|exact Har].
  destruct e as [e0 e1 e2 e3]. unfold v4scale. cbn [c0 c1 c2 c3 add mul ROps] in *.
  assert (0 <= c0 res) by (rewrite M0; lra). assert (0 <= c1 res) by (rewrite M1; lra).
  assert (0 <= c2 res) by (rewrite M2; lra). assert (0 <= c3 res) by (rewrite M3; lra).
  apply Rmult_le_pos; [|exact Har].
  repeat apply Rplus_le_le_0_compat; apply Rmult_le_pos; auto; apply Rmult_le_pos; auto.
Qed.

Lemma fan_loop_nonneg (t : @tetra R) (e : V4R) (E : R) (v0 : V3R) :
  nondegenerate t -> nonneg4 e -> 0 <= E -> inside t v0 ->
  forall (vs : list V3R) (tf ta : R) (tc : V3R),
    Forall (inside t) vs -> 0 <= tf -> 0 <= ta ->
    let '(tf', ta', _) := fan_loop t e E v0 vs (tf, ta, tc) in 0 <= tf' /\ 0 <= ta'.
Proof.
  intros Hnd He HE H0. induction vs as [|a vs IH]; intros tf ta tc Hvs Htf Hta; cbn [fan_loop]; [split; assumption|].
  destruct vs as [|b vs']; [split; assumption|].
  inversion Hvs as [|? ? Ha Hvs']; subst. inversion Hvs' as [|? ? Hb _]; subst.
  pose proof (fan_term_nonneg t e E v0 a b Hnd He HE H0 Ha Hb) as Hft.
  destruct (fan_term t e E v0 a b) as [[f ar] c]. destruct Hft as [Hf Har].
  apply IH; auto; cbn [add ROps]; lra.
Qed.

Lemma Forall_firstn {A} (P : A -> Prop) (n : nat) (l : list A) : Forall P l -> Forall P (firstn n l).
Proof.
  revert l. induction n as [|n IH]; intros [|x l] H; cbn [firstn]; auto.
  inversion H; subst. constructor; auto.
Qed.

(** pressure >= 0: if every polygon vertex lies in tetrahedron 1 and potentials and Young's
    modulus are non-negative, the force points along +normal and the area is >= 0 *)
Theorem pressure_nonneg (t : @tetra R) (e plane : V4R) (poly : list V3R) (E : R) :
  nondegenerate t -> nonneg4 e -> 0 <= E -> Forall (inside t) poly ->
  let '(_, f, area) := compute_contact_force t e plane poly E in
  0 <= dot f (xyz plane) /\ 0 <= area.
Proof.
  intros Hnd He HE Hin. destruct poly as [|v0 rest].
  - unfold compute_contact_force. unfold dot, vzero. cbn [vx vy vz add mul zero ROps]. split; lra.
  - inversion Hin as [|? ? H0 Hrest]; subst.
    pose proof (force_along_normal t e plane v0 rest E) as Hal.
    pose proof (fan_loop_nonneg t e E v0 Hnd He HE H0 (firstn 7 rest) zero zero vzero
                  (Forall_firstn _ _ _ Hrest)) as Hfl.
    unfold compute_contact_force in *.
    destruct (fan_loop t e E v0 (firstn 7 rest) (zero, zero, vzero)) as [[tf ta] tc].
    cbn [zero ROps] in Hfl. destruct Hfl as [Htf Hta]; try lra.
    split; [|exact Hta]. rewrite Hal. apply Rmult_le_pos; [exact Htf|apply dot_self_nonneg].
Qed.

(** ** quantitative version: vertices inside up to eps (what the halfplane layer guarantees) *)
Definition inside_eps (eps : R) (t : @tetra R) (p : V3R) : Prop :=
  - eps <= c0 (bary_coords t p) /\ - eps <= c1 (bary_coords t p) /\ - eps <= c2 (bary_coords t p) /\ - eps <= c3 (bary_coords t p).

Lemma fan_term_lower (eps : R) (t : @tetra R) (e : V4R) (E : R) (v0 a b : V3R) :
  nondegenerate t -> nonneg4 e -> 0 <= E -> 0 <= eps ->
  inside_eps eps t v0 -> inside_eps eps t a -> inside_eps eps t b ->
  let '(pa, ar, _) := fan_term t e E v0 a b in
  - (eps * E * (c0 e + c1 e + c2 e + c3 e)) * ar <= pa /\ 0 <= ar.
Proof.
  intros Hnd (E0 & E1 & E2 & E3) HE Heps (A0 & A1 & A2 & A3) (B0 & B1 & B2 & B3) (C0 & C1 & C2 & C3).
  unfold fan_term.
  destruct (bary_centroid t v0 a b Hnd) as (M0 & M1 & M2 & M3). cbv zeta in M0, M1, M2, M3.
  set (res := bary_coords t (vdivs (vadd (vadd v0 a) b) three)) in *.
  set (ar := half * norm (cross (vsub a v0) (vsub b v0))).
  assert (Har : 0 <= ar).
  { unfold ar. pose proof (norm_nonneg (cross (vsub a v0) (vsub b v0))).
    assert ((half : R) = / 2) by (unfold half; cbn [cst ROps]; unfold Q2R; simpl; field).
    cbn [mul ROps]. rewrite H0. nra. }
  split; [|exact Har].
  destruct e as [e0 e1 e2 e3]. unfold v4scale. cbn [c0 c1 c2 c3 add mul ROps] in *.
  assert (L0 : - eps <= c0 res) by (rewrite M0; lra). assert (L1 : - eps <= c1 res) by (rewrite M1; lra).
  assert (L2 : - eps <= c2 res) by (rewrite M2; lra). assert (L3 : - eps <= c3 res) by (rewrite M3; lra).
  assert (Hp : - (eps * E * (e0 + e1 + e2 + e3)) <= c0 res * (e0 * E) + c1 res * (e1 * E) + c2 res * (e2 * E) + c3 res * (e3 * E)).
  { assert (P0 : - eps * (e0 * E) <= c0 res * (e0 * E)) by (apply Rmult_le_compat_r; [apply Rmult_le_pos; assumption|lra]).
    assert (P1 : - eps * (e1 * E) <= c1 res * (e1 * E)) by (apply Rmult_le_compat_r; [apply Rmult_le_pos; assumption|lra]).
    assert (P2 : - eps * (e2 * E) <= c2 res * (e2 * E)) by (apply Rmult_le_compat_r; [apply Rmult_le_pos; assumption|lra]).
    assert (P3 : - eps * (e3 * E) <= c3 res * (e3 * E)) by (apply Rmult_le_compat_r; [apply Rmult_le_pos; assumption|lra]).
    lra. }
  apply Rmult_le_compat_r; [exact Har|exact Hp].
Qed.

Lemma fan_loop_lower (eps : R) (t : @tetra R) (e : V4R) (E : R) (v0 : V3R) :
  nondegenerate t -> nonneg4 e -> 0 <= E -> 0 <= eps -> inside_eps eps t v0 ->
  forall (vs : list V3R) (tf ta : R) (tc : V3R),
    Forall (inside_eps eps t) vs -> 0 <= ta -> - (eps * E * (c0 e + c1 e + c2 e + c3 e)) * ta <= tf ->
    let '(tf', ta', _) := fan_loop t e E v0 vs (tf, ta, tc) in
    - (eps * E * (c0 e + c1 e + c2 e + c3 e)) * ta' <= tf' /\ 0 <= ta'.
Proof.
  intros Hnd He HE Heps H0. induction vs as [|a vs IH]; intros tf ta tc Hvs Hta Htf; cbn [fan_loop]; [split; assumption|].
  destruct vs as [|b vs']; [split; assumption|].
  inversion Hvs as [|? ? Ha Hvs']; subst. inversion Hvs' as [|? ? Hb _]; subst.
  pose proof (fan_term_lower eps t e E v0 a b Hnd He HE Heps H0 Ha Hb) as Hft.
  destruct (fan_term t e E v0 a b) as [[f ar] c]. destruct Hft as [Hf Har].
  apply IH; auto; cbn [add ROps]; [lra|].
  set (K := eps * E * (c0 e + c1 e + c2 e + c3 e)) in *. nra.
Qed.

(** pressure >= -eps E (sum of the potentials): the integrated pressure (force along the normal, for a unit
    normal) is bounded below by -eps E sum(e) times the polygon area; eps = 0 is [pressure_nonneg] *)
Theorem pressure_lower_bound (eps : R) (t : @tetra R) (e plane : V4R) (poly : list V3R) (E : R) :
  nondegenerate t -> nonneg4 e -> 0 <= E -> 0 <= eps -> Forall (inside_eps eps t) poly ->
  dot (xyz plane) (xyz plane) = 1 ->
  let '(_, f, area) := compute_contact_force t e plane poly E in
  - (eps * E * (c0 e + c1 e + c2 e + c3 e)) * area <= dot f (xyz plane) /\ 0 <= area.
Proof.
  intros Hnd He HE Heps Hin Hn. destruct poly as [|v0 rest].
  - unfold compute_contact_force. unfold dot, vzero. cbn [vx vy vz add mul zero ROps]. split; lra.
  - inversion Hin as [|? ? H0 Hrest]; subst.
    pose proof (force_along_normal t e plane v0 rest E) as Hal.
    pose proof (fan_loop_lower eps t e E v0 Hnd He HE Heps H0 (firstn 7 rest) zero zero vzero
                  (Forall_firstn _ _ _ Hrest)) as Hfl.
    unfold compute_contact_force in *.
    destruct (fan_loop t e E v0 (firstn 7 rest) (zero, zero, vzero)) as [[tf ta] tc].
    cbn [zero ROps] in Hfl. destruct Hfl as [Htf Hta]; try lra.
    split; [|exact Hta]. rewrite Hal, Hn. lra.
Qed.
