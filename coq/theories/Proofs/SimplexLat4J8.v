(** Jolt solver, all 3 * 27^3 lattice tetrahedra whose first point is in group 8 (see Proofs/SimplexLattice.v) *)
From Coq Require Import List QArith.
From D3 Require Import Proofs.SimplexLattice.
Lemma jolt4_group8 : forallb (slice4 (jolt_ok max_float_q)) (pts_group 8) = true.
Proof. vm_cast_no_check (@eq_refl bool true). Qed.
