(** * C05, part 1: representation of a binary tree in the index arrays, and
      exactness of the two query loops on any represented tree. *)
From Coq Require Import List Arith Bool Lia Permutation.
From D3 Require Import Model.AabbTree.
Import ListNotations.

(** ** list update *)
Lemma length_set_nth {A} (l : list A) i x : length (set_nth l i x) = length l.
Proof. revert i; induction l as [|h t IH]; intros [|i]; simpl; auto. Qed.

Lemma nth_error_set_nth_eq {A} (l : list A) i x :
  i < length l -> nth_error (set_nth l i x) i = Some x.
Proof.
  revert i; induction l as [|h t IH]; intros [|i] H; simpl in *; try lia; auto.
  apply IH; lia.
Qed.

Lemma nth_error_set_nth_neq {A} (l : list A) i j x :
  i <> j -> nth_error (set_nth l i x) j = nth_error l j.
Proof.
  revert i j; induction l as [|h t IH]; intros [|i] [|j] H; simpl; auto; try lia.
Qed.

Lemma get_Ok {A} (l : list A) i x : get l i = Ok x <-> nth_error l i = Some x.
Proof. unfold get; destruct (nth_error l i); split; intros H; inversion H; auto. Qed.

Lemma upd_Ok {A} (l : list A) i x l' :
  upd l i x = Ok l' <-> (i < length l /\ l' = set_nth l i x).
Proof.
  unfold upd. destruct (Nat.ltb_spec i (length l)); split; intros H'.
  - inversion H'; auto.
  - destruct H' as [_ ->]; auto.
  - discriminate.
  - lia.
Qed.

(** ** binary trees over row indices *)
Inductive bt := L (i : nat) | B (i : nat) (l r : bt).
Definition idx (t : bt) := match t with L i => i | B i _ _ => i end.
Fixpoint ixs (t : bt) : list nat :=
  match t with L i => [i] | B i l r => i :: ixs l ++ ixs r end.
Fixpoint leaves (t : bt) : list nat :=
  match t with L i => [i] | B _ l r => leaves l ++ leaves r end.
Fixpoint branches (t : bt) : list nat :=
  match t with L _ => [] | B i l r => i :: branches l ++ branches r end.
Fixpoint size (t : bt) : nat :=
  match t with L _ => 1 | B _ l r => S (size l + size r) end.

Lemma size_ixs t : size t = length (ixs t).
Proof. induction t; simpl; auto. rewrite app_length; lia. Qed.
Lemma idx_in_ixs t : In (idx t) (ixs t).
Proof. destruct t; simpl; auto. Qed.
Lemma leaves_in_ixs t i : In i (leaves t) -> In i (ixs t).
Proof.
  induction t; simpl; auto. rewrite in_app_iff. intros [H|H]; right; apply in_app_iff; auto.
Qed.
Lemma branches_in_ixs t i : In i (branches t) -> In i (ixs t).
Proof.
  induction t; simpl; auto. rewrite !in_app_iff. intros [H|[H|H]]; auto.
Qed.
Lemma ixs_leaves_branches t i : In i (ixs t) <-> In i (leaves t) \/ In i (branches t).
Proof.
  induction t; simpl.
  - tauto.
  - rewrite !in_app_iff, IHt1, IHt2. tauto.
Qed.
Lemma ixs_perm t : Permutation (ixs t) (branches t ++ leaves t).
Proof.
  induction t; simpl; auto.
  constructor. rewrite IHt1, IHt2.
  rewrite <- !app_assoc. apply Permutation_app_head.
  rewrite !app_assoc. apply Permutation_app_tail. apply Permutation_app_comm.
Qed.
Lemma NoDup_app_inv {A} (l1 l2 : list A) :
  NoDup (l1 ++ l2) -> NoDup l1 /\ NoDup l2 /\ (forall x, In x l1 -> In x l2 -> False).
Proof.
  induction l1 as [|a l1 IH]; simpl; intros H.
  - repeat split; auto. constructor.
  - inversion H as [|? ? Hn Hd]; subst. destruct (IH Hd) as (H1 & H2 & H3).
    repeat split; auto.
    + constructor; auto. intros Hin; apply Hn, in_app_iff; auto.
    + intros x [->|Hx] Hx2; [apply Hn, in_app_iff; auto | eauto].
Qed.
Lemma NoDup_app_intro {A} (l1 l2 : list A) :
  NoDup l1 -> NoDup l2 -> (forall x, In x l1 -> In x l2 -> False) -> NoDup (l1 ++ l2).
Proof.
  induction l1 as [|a l1 IH]; simpl; intros H1 H2 H3; auto.
  inversion H1; subst. constructor.
  - rewrite in_app_iff; intros [H|H]; eauto.
  - apply IH; eauto.
Qed.
Lemma NoDup_leaves t : NoDup (ixs t) -> NoDup (leaves t).
Proof.
  intros H. pose proof (ixs_perm t) as P.
  eapply Permutation_NoDup in H; [|exact P]. apply NoDup_app_inv in H. tauto.
Qed.

Section Query.
  Variable C : Type.
  Variable le : C -> C -> bool.
  Variables cmin cmax : C -> C -> C.
  Notation box := (box C).
  Notation merge := (merge C cmin cmax).
  Notation overlap := (overlap C le).

  (** structure: links and types of the rows of [t] are those of a tree whose
      root has parent [p] *)
  Fixpoint RepS (ns : list node) (p : option nat) (t : bt) : Prop :=
    match t with
    | L i => exists n, nth_error ns i = Some n /\ par n = p /\ typ n = TLeaf
    | B i l r =>
      exists n, nth_error ns i = Some n /\ par n = p /\ lft n = Some (idx l) /\
                rgt n = Some (idx r) /\ typ n = TBranch /\
                RepS ns (Some i) l /\ RepS ns (Some i) r
    end.

  (** boxes: every row of [t] has a box, a branch's box is the merge of its
      children's boxes *)
  Fixpoint BoxOK (ab : list box) (t : bt) : Prop :=
    match t with
    | L i => exists b, nth_error ab i = Some b
    | B i l r =>
      BoxOK ab l /\ BoxOK ab r /\
      exists bl br, nth_error ab (idx l) = Some bl /\ nth_error ab (idx r) = Some br /\
                    nth_error ab i = Some (merge bl br)
    end.

  Lemma RepS_frame ns ns' p t :
    (forall i, In i (ixs t) -> nth_error ns' i = nth_error ns i) ->
    RepS ns p t -> RepS ns' p t.
  Proof.
    revert p; induction t as [i|i l IHl r IHr]; intros p Hf; simpl.
    - intros (n & H1 & H2). exists n. rewrite Hf; simpl; auto.
    - intros (n & H1 & H2 & H3 & H4 & H5 & H6 & H7). exists n.
      rewrite Hf by (simpl; auto). repeat split; auto.
      + apply IHl; auto. intros j Hj; apply Hf; simpl; right; apply in_app_iff; auto.
      + apply IHr; auto. intros j Hj; apply Hf; simpl; right; apply in_app_iff; auto.
  Qed.

  Lemma BoxOK_frame ab ab' t :
    (forall i, In i (ixs t) -> nth_error ab' i = nth_error ab i) ->
    BoxOK ab t -> BoxOK ab' t.
  Proof.
    induction t as [i|i l IHl r IHr]; intros Hf; simpl.
    - intros (b & H). exists b. rewrite Hf; simpl; auto.
    - intros (H1 & H2 & bl & br & H3 & H4 & H5).
      assert (Hl : forall j, In j (ixs l) -> In j (ixs (B i l r))) by (intros; simpl; right; apply in_app_iff; auto).
      assert (Hr : forall j, In j (ixs r) -> In j (ixs (B i l r))) by (intros; simpl; right; apply in_app_iff; auto).
      repeat split; auto. exists bl, br.
      rewrite (Hf (idx l)) by (apply Hl, idx_in_ixs).
      rewrite (Hf (idx r)) by (apply Hr, idx_in_ixs).
      rewrite (Hf i) by (simpl; auto). auto.
  Qed.

  Lemma BoxOK_root ab t : BoxOK ab t -> exists b, nth_error ab (idx t) = Some b.
  Proof. destruct t; simpl; auto. intros (_ & _ & bl & br & _ & _ & H); eauto. Qed.

  Lemma BoxOK_all ab t i : BoxOK ab t -> In i (ixs t) -> exists b, nth_error ab i = Some b.
  Proof.
    induction t as [j|j l IHl r IHr]; simpl.
    - intros H [->|[]]; auto.
    - intros (H1 & H2 & bl & br & _ & _ & H) [->|Hi]; eauto.
      apply in_app_iff in Hi as [Hi|Hi]; auto.
  Qed.

  Lemma RepS_root ns p t : RepS ns p t -> exists n, nth_error ns (idx t) = Some n /\ par n = p.
  Proof.
    destruct t; simpl.
    - intros (n & ? & ? & ?); eauto.
    - intros (n & ? & ? & _); eauto.
  Qed.

  Lemma RepS_lt ns p t i : RepS ns p t -> In i (ixs t) -> i < length ns.
  Proof.
    revert p; induction t as [j|j l IHl r IHr]; intros p; simpl.
    - intros (n & H & _) [->|[]]. apply nth_error_Some; congruence.
    - intros (n & H & _ & _ & _ & _ & Hl & Hr) [->|Hi].
      + apply nth_error_Some; congruence.
      + apply in_app_iff in Hi as [Hi|Hi]; eauto.
  Qed.

  (** ** order hypotheses (a total preorder is not needed: transitivity and the
        bounds of min/max suffice) *)
  Hypothesis le_trans : forall a b c, le a b = true -> le b c = true -> le a c = true.
  Hypothesis cmin_l : forall a b, le (cmin a b) a = true.
  Hypothesis cmin_r : forall a b, le (cmin a b) b = true.
  Hypothesis cmax_l : forall a b, le a (cmax a b) = true.
  Hypothesis cmax_r : forall a b, le b (cmax a b) = true.

  Lemma overlap_merge_l a b q : overlap a q = true -> overlap (merge a b) q = true.
  Proof.
    unfold AabbTree.overlap, AabbTree.merge; simpl. rewrite !andb_true_iff.
    intros (((((H1 & H2) & H3) & H4) & H5) & H6). repeat split; eauto.
  Qed.
  Lemma overlap_merge_r a b q : overlap b q = true -> overlap (merge a b) q = true.
  Proof.
    unfold AabbTree.overlap, AabbTree.merge; simpl. rewrite !andb_true_iff.
    intros (((((H1 & H2) & H3) & H4) & H5) & H6). repeat split; eauto.
  Qed.
  Lemma overlap_sym a b : overlap a b = overlap b a.
  Proof.
    unfold AabbTree.overlap.
    destruct (le (bx0 C a) (bx1 C b)), (le (bx0 C b) (bx1 C a)), (le (by0 C a) (by1 C b)),
      (le (by0 C b) (by1 C a)), (le (bz0 C a) (bz1 C b)), (le (bz0 C b) (bz1 C a)); reflexivity.
  Qed.

  (** a leaf box that overlaps [q] makes every ancestor box overlap [q] *)
  Lemma overlap_up ab t i b q :
    BoxOK ab t -> In i (leaves t) -> nth_error ab i = Some b -> overlap b q = true ->
    exists bt, nth_error ab (idx t) = Some bt /\ overlap bt q = true.
  Proof.
    induction t as [j|j l IHl r IHr]; simpl.
    - intros _ [->|[]] H1 H2; eauto.
    - intros (Hl & Hr & bl & br & H1 & H2 & H3) Hi Hb Ho.
      exists (merge bl br); split; auto.
      apply in_app_iff in Hi as [Hi|Hi].
      + destruct (IHl Hl Hi Hb Ho) as (b' & Hb' & Ho'). rewrite H1 in Hb'; inversion Hb'; subst.
        apply overlap_merge_l; auto.
      + destruct (IHr Hr Hi Hb Ho) as (b' & Hb' & Ho'). rewrite H2 in Hb'; inversion Hb'; subst.
        apply overlap_merge_r; auto.
  Qed.

  (** ** what the stack loop computes (order included) *)
  Fixpoint qspec (q : box) (ab : list box) (t : bt) : list nat :=
    match nth_error ab (idx t) with
    | Some b =>
      if overlap b q then
        match t with L i => [i] | B _ l r => qspec q ab r ++ qspec q ab l end
      else []
    | None => []
    end.

  Lemma qspec_leaves q ab t i : In i (qspec q ab t) -> In i (leaves t).
  Proof.
    induction t as [j|j l IHl r IHr]; simpl.
    - destruct (nth_error ab j) as [b|]; [destruct (overlap b q)|]; simpl; tauto.
    - destruct (nth_error ab j) as [b|]; [destruct (overlap b q)|]; simpl; try tauto.
      rewrite !in_app_iff; tauto.
  Qed.

  Lemma qspec_sound q ab t i :
    In i (qspec q ab t) -> In i (leaves t) /\ exists b, nth_error ab i = Some b /\ overlap b q = true.
  Proof.
    induction t as [j|j l IHl r IHr]; simpl.
    - destruct (nth_error ab j) as [b|] eqn:E; [destruct (overlap b q) eqn:O|]; simpl; try tauto.
      intros [->|[]]; eauto.
    - destruct (nth_error ab j) as [b|] eqn:E; [destruct (overlap b q) eqn:O|]; simpl; try tauto.
      rewrite !in_app_iff. intros [H|H]; [apply IHr in H|apply IHl in H]; tauto.
  Qed.

  Lemma qspec_complete q ab t i b :
    BoxOK ab t -> In i (leaves t) -> nth_error ab i = Some b -> overlap b q = true ->
    In i (qspec q ab t).
  Proof.
    induction t as [j|j l IHl r IHr]; intros HB Hi Hb Ho.
    - simpl in *. destruct Hi as [->|[]]. rewrite Hb, Ho; simpl; auto.
    - destruct (overlap_up ab _ i b q HB Hi Hb Ho) as (b' & Hb' & Ho').
      simpl in Hb'. simpl. rewrite Hb', Ho'.
      simpl in HB. destruct HB as (Hl & Hr & _).
      simpl in Hi. apply in_app_iff in Hi as [Hi|Hi]; apply in_app_iff; eauto.
  Qed.

  Lemma qspec_NoDup q ab t : NoDup (leaves t) -> NoDup (qspec q ab t).
  Proof.
    induction t as [j|j l IHl r IHr]; simpl; intros H.
    - destruct (nth_error ab j) as [b|]; [destruct (overlap b q)|]; auto using NoDup_nil.
    - destruct (nth_error ab j) as [b|]; [destruct (overlap b q)|]; auto using NoDup_nil.
      apply NoDup_app_inv in H as (H1 & H2 & H3).
      apply NoDup_app_intro; auto.
      intros x Hr Hl. apply qspec_leaves in Hr, Hl. eauto.
  Qed.

  (** ** the stack loop of [query_overlap] *)
  Definition sizes (ts : list bt) := list_sum (map size ts).
  Definition Rep1 ns ab t := exists p, RepS ns p t /\ BoxOK ab t.

  Lemma qloop_full fuel q ns ab :
    forall ts acc,
      Forall (Rep1 ns ab) ts -> sizes ts <= fuel ->
      qloop C le fuel q ns ab false (map (fun t => Some (idx t)) ts) acc
      = Ok (acc ++ flat_map (qspec q ab) ts).
  Proof.
    induction fuel as [|f IH]; intros ts acc HF Hs.
    - destruct ts as [|t ts]; simpl; [rewrite app_nil_r; auto|].
      unfold sizes in Hs; simpl in Hs. destruct t; simpl in Hs; lia.
    - destruct ts as [|t ts]; simpl; [rewrite app_nil_r; auto|].
      inversion HF as [|? ? (p & HR & HB) HF']; subst.
      destruct (BoxOK_root _ _ HB) as (b & Hb).
      unfold get; rewrite Hb; simpl.
      unfold sizes in Hs; simpl in Hs.
      destruct (overlap b q) eqn:O.
      + destruct t as [i|i l r]; simpl in HR.
        * destruct HR as (n & Hn & _ & Ht). simpl idx. rewrite Hn; simpl. rewrite Ht; simpl.
          rewrite (IH ts (acc ++ [i])); auto; [|simpl in Hs; unfold sizes; lia].
          simpl in Hb. simpl. rewrite Hb, O. simpl. rewrite <- app_assoc; auto.
        * destruct HR as (n & Hn & _ & Hl & Hr & Ht & HRl & HRr). simpl idx. rewrite Hn; simpl.
          rewrite Ht; simpl. rewrite Hl, Hr.
          destruct HB as (HBl & HBr & HB).
          change (Some (idx r) :: Some (idx l) :: map (fun t => Some (idx t)) ts)
            with (map (fun t => Some (idx t)) (r :: l :: ts)).
          rewrite IH.
          -- simpl. simpl in Hb. rewrite Hb, O. rewrite <- !app_assoc. auto.
          -- constructor; [exists (Some i); auto|]. constructor; [exists (Some i); auto|]. auto.
          -- unfold sizes; simpl. simpl in Hs. lia.
      + rewrite IH; auto; [|unfold sizes; destruct t; simpl in Hs; lia].
        simpl. assert (E : qspec q ab t = []).
        { destruct t; simpl in *; rewrite Hb, O; auto. }
        rewrite E; auto.
  Qed.

  Lemma qloop_break fuel q ns ab :
    forall ts acc,
      Forall (Rep1 ns ab) ts -> sizes ts <= fuel ->
      qloop C le fuel q ns ab true (map (fun t => Some (idx t)) ts) acc
      = Ok (acc ++ firstn 1 (flat_map (qspec q ab) ts)).
  Proof.
    induction fuel as [|f IH]; intros ts acc HF Hs.
    - destruct ts as [|t ts]; simpl; [rewrite app_nil_r; auto|].
      unfold sizes in Hs; simpl in Hs. destruct t; simpl in Hs; lia.
    - destruct ts as [|t ts]; simpl; [rewrite app_nil_r; auto|].
      inversion HF as [|? ? (p & HR & HB) HF']; subst.
      destruct (BoxOK_root _ _ HB) as (b & Hb).
      unfold get; rewrite Hb; simpl.
      unfold sizes in Hs; simpl in Hs.
      destruct (overlap b q) eqn:O.
      + destruct t as [i|i l r]; simpl in HR.
        * destruct HR as (n & Hn & _ & Ht). simpl idx. rewrite Hn; simpl. rewrite Ht; simpl.
          simpl in Hb. rewrite Hb, O. simpl. auto.
        * destruct HR as (n & Hn & _ & Hl & Hr & Ht & HRl & HRr). simpl idx. rewrite Hn; simpl.
          rewrite Ht; simpl. rewrite Hl, Hr.
          destruct HB as (HBl & HBr & HB).
          change (Some (idx r) :: Some (idx l) :: map (fun t => Some (idx t)) ts)
            with (map (fun t => Some (idx t)) (r :: l :: ts)).
          rewrite IH.
          -- simpl. simpl in Hb. rewrite Hb, O. rewrite <- !app_assoc. auto.
          -- constructor; [exists (Some i); auto|]. constructor; [exists (Some i); auto|]. auto.
          -- unfold sizes; simpl. simpl in Hs. lia.
      + rewrite IH; auto; [|unfold sizes; destruct t; simpl in Hs; lia].
        assert (E : qspec q ab t = []).
        { destruct t; simpl in *; rewrite Hb, O; auto. }
        rewrite E; auto.
  Qed.

  Lemma size_le_length ns p t : RepS ns p t -> NoDup (ixs t) -> size t <= length ns.
  Proof.
    intros HR HN. rewrite size_ixs.
    rewrite <- (seq_length (length ns) 0).
    apply NoDup_incl_length; auto.
    intros i Hi. apply in_seq. pose proof (RepS_lt _ _ _ _ HR Hi). lia.
  Qed.

  Lemma query_overlap_spec q ns ab p t brk :
    RepS ns p t -> BoxOK ab t -> NoDup (ixs t) ->
    query_overlap C le q (Some (idx t)) ns ab brk
    = Ok (if brk then firstn 1 (qspec q ab t) else qspec q ab t).
  Proof.
    intros HR HB HN. unfold query_overlap, query_fuel.
    pose proof (size_le_length _ _ _ HR HN).
    change [Some (idx t)] with (map (fun t => Some (idx t)) [t]).
    destruct brk.
    - rewrite qloop_break; simpl; try rewrite app_nil_r; auto.
      + constructor; auto. exists p; auto.
      + unfold sizes; simpl; lia.
    - rewrite qloop_full; simpl; try rewrite app_nil_r; auto.
      + constructor; auto. exists p; auto.
      + unfold sizes; simpl; lia.
  Qed.

  (** ** tree against tree *)
  Fixpoint tspec (ab1 : list box) (t1 : bt) (ab2 : list box) (t2 : bt) : list (nat * nat) :=
    match nth_error ab2 (idx t2) with
    | Some b =>
      match t2 with
      | L j => map (fun i => (i, j)) (qspec b ab1 t1)
      | B _ l r =>
        if 1 <=? length (firstn 1 (qspec b ab1 t1))
        then tspec ab1 t1 ab2 r ++ tspec ab1 t1 ab2 l else []
      end
    | None => []
    end.

  Local Arguments Nat.leb : simpl never.
  Local Arguments firstn : simpl never.

  Lemma tloop_spec fuel ns1 ab1 p1 t1 ns2 ab2 :
    RepS ns1 p1 t1 -> BoxOK ab1 t1 -> NoDup (ixs t1) ->
    forall ts acc,
      Forall (Rep1 ns2 ab2) ts -> sizes ts <= fuel ->
      tloop C le fuel (Some (idx t1)) ns1 ab1 ns2 ab2 (map (fun t => Some (idx t)) ts) acc
      = Ok (acc ++ flat_map (tspec ab1 t1 ab2) ts).
  Proof.
    intros HR1 HB1 HN1.
    induction fuel as [|f IH]; intros ts acc HF Hs.
    - destruct ts as [|t ts]; simpl; [rewrite app_nil_r; auto|].
      unfold sizes in Hs; simpl in Hs. destruct t; simpl in Hs; lia.
    - destruct ts as [|t ts]; simpl; [rewrite app_nil_r; auto|].
      inversion HF as [|? ? (p & HR & HB) HF']; subst.
      destruct (BoxOK_root _ _ HB) as (b & Hb).
      unfold get; rewrite Hb; simpl.
      unfold sizes in Hs; simpl in Hs.
      destruct t as [j|j l r]; simpl in HR.
      + destruct HR as (n & Hn & _ & Ht). simpl idx. rewrite Hn; simpl. rewrite Ht; simpl.
        rewrite (query_overlap_spec b ns1 ab1 p1 t1 false); auto. simpl.
        rewrite IH; auto; [|unfold sizes; simpl in Hs; lia].
        simpl in Hb. rewrite Hb. rewrite <- app_assoc. auto.
      + destruct HR as (n & Hn & _ & Hl & Hr & Ht & HRl & HRr). simpl idx. rewrite Hn; simpl.
        rewrite Ht; simpl.
        rewrite (query_overlap_spec b ns1 ab1 p1 t1 true); auto. simpl.
        rewrite Hl, Hr. simpl in Hb. rewrite Hb.
        destruct HB as (HBl & HBr & HB).
        destruct (1 <=? length (firstn 1 (qspec b ab1 t1))) eqn:E.
        * change (Some (idx r) :: Some (idx l) :: map (fun t => Some (idx t)) ts)
            with (map (fun t => Some (idx t)) (r :: l :: ts)).
          rewrite IH.
          -- simpl. rewrite <- !app_assoc. auto.
          -- constructor; [exists (Some j); auto|]. constructor; [exists (Some j); auto|]. auto.
          -- unfold sizes; simpl. simpl in Hs. lia.
        * rewrite IH; auto. unfold sizes; simpl in Hs; lia.
  Qed.

  Lemma tspec_sound ab1 t1 ab2 t2 i j :
    In (i, j) (tspec ab1 t1 ab2 t2) ->
    In i (leaves t1) /\ In j (leaves t2) /\
    exists b1 b2, nth_error ab1 i = Some b1 /\ nth_error ab2 j = Some b2 /\ overlap b1 b2 = true.
  Proof.
    induction t2 as [k|k l IHl r IHr]; simpl.
    - destruct (nth_error ab2 k) as [b|] eqn:E; simpl; try tauto.
      rewrite in_map_iff. intros (i' & Heq & Hi). inversion Heq; subst.
      apply qspec_sound in Hi as (H1 & b1 & H2 & H3). repeat split; auto. exists b1, b; auto.
    - destruct (nth_error ab2 k) as [b|] eqn:E; simpl; try tauto.
      destruct (1 <=? _); simpl; try tauto.
      rewrite !in_app_iff. intros [H|H]; [apply IHr in H|apply IHl in H]; tauto.
  Qed.

  Lemma tspec_complete ab1 t1 ab2 t2 i j b1 b2 :
    BoxOK ab1 t1 -> BoxOK ab2 t2 -> In i (leaves t1) -> In j (leaves t2) ->
    nth_error ab1 i = Some b1 -> nth_error ab2 j = Some b2 -> overlap b1 b2 = true ->
    In (i, j) (tspec ab1 t1 ab2 t2).
  Proof.
    intros HB1. induction t2 as [k|k l IHl r IHr]; intros HB2 Hi Hj H1 H2 Ho.
    - simpl in *. destruct Hj as [->|[]]. rewrite H2.
      apply (in_map (fun i0 => (i0, j))).
      eapply qspec_complete; eauto.
    - assert (Ho' : overlap b2 b1 = true) by (rewrite overlap_sym; auto).
      destruct (overlap_up ab2 _ j b2 b1 HB2 Hj H2 Ho') as (bk & Hbk & Hok).
      simpl in Hbk. simpl. rewrite Hbk.
      assert (Hin : In i (qspec bk ab1 t1)).
      { eapply qspec_complete; eauto. rewrite overlap_sym; auto. }
      destruct (qspec bk ab1 t1) as [|x xs]; [inversion Hin|]. simpl.
      simpl in HB2. destruct HB2 as (HBl & HBr & _).
      simpl in Hj. apply in_app_iff in Hj as [Hj|Hj]; apply in_app_iff; eauto.
  Qed.

  Lemma tspec_NoDup ab1 t1 ab2 t2 :
    NoDup (leaves t1) -> NoDup (leaves t2) -> NoDup (tspec ab1 t1 ab2 t2).
  Proof.
    intros H1. induction t2 as [k|k l IHl r IHr]; simpl; intros H2.
    - destruct (nth_error ab2 k) as [b|]; [|constructor].
      apply FinFun.Injective_map_NoDup; [|apply qspec_NoDup; auto].
      intros x y Hxy; inversion Hxy; auto.
    - destruct (nth_error ab2 k) as [b|]; [|constructor].
      destruct (1 <=? _); [|constructor].
      apply NoDup_app_inv in H2 as (Hl & Hr & Hd).
      apply NoDup_app_intro; auto.
      intros [i j] Hr' Hl'. apply tspec_sound in Hr' as (_ & Hr' & _).
      apply tspec_sound in Hl' as (_ & Hl' & _). eauto.
  Qed.
End Query.
