(** * Order independence of the contact polygon's vertex set (C15), over the reals.

    The 3-D points [project_point x y pp q] for the vertices q of the halfplane arrangement are
    characterised without reference to the 2-D basis ([arrangement_vertex_iff]): v is such a
    point iff it lies on the plane, on two valid faces whose lines are not (nearly) parallel,
    and violates no valid face by more than EPSILON.  Validity of a face and the
    non-parallel test only depend on the face normals and on +-n.  Hence exchanging the two
    tetrahedra (n -> -n, d -> -d, rows X2 ++ X1, basis of -n) gives the same set of 3-D vertices
    ([arrangement_vertices_order_independent]); [contact_plane_swap] shows that the swapped call
    indeed works with the negated plane. *)
From Coq Require Import Reals Lra List Bool Arith Lia.
From D3 Require Import Base.Ops Base.Vec Base.RVec Base.RVec2 Model.AabbTree Model.Hydro
     Proofs.HydroPlane Proofs.HydroHalfplanes Proofs.HydroParallel.
Import ListNotations.
Local Open Scope R_scope.

(** ** an orthonormal right-handed frame (x, y, n) *)
Record frame (x y n : V3R) : Prop := {
  fr_xx : dot x x = 1; fr_yy : dot y y = 1; fr_nn : dot n n = 1;
  fr_xy : dot x y = 0; fr_nx : dot n x = 0; fr_ny : dot n y = 0;
  fr_c : cross x y = n }.

Lemma frame_of_basis (n : V3R) : dot n n = 1 ->
  let '(x, y) := plane_basis_from_normal n in frame x y n.
Proof.
  intros Hn.
  assert (Hnz : n <> vzero).
  { intros ->. unfold dot, vzero in Hn. cbn [vx vy vz add mul zero ROps] in Hn. lra. }
  pose proof (plane_basis_orth n Hnz) as Ho. pose proof (plane_basis_orthonormal n Hn) as H1.
  destruct (plane_basis_from_normal n) as [x y]. destruct Ho as (A & B & C). destruct H1 as (D & E & G).
  constructor; auto.
Qed.

Section Frame.
  Variables x y n : V3R.
  Hypothesis Fr : frame x y n.

  (** completeness of the frame *)
  Lemma frame_decompose (w : V3R) :
    w = vadd (vadd (vscale (dot w x) x) (vscale (dot w y) y)) (vscale (dot w n) n).
  Proof.
    destruct Fr as [Hxx Hyy Hnn Hxy Hnx Hny Hc].
    set (u := vsub w (vadd (vscale (dot w x) x) (vscale (dot w y) y))).
    assert (Hux : dot u x = 0).
    { unfold u. rewrite dot_sub_l, dot_add_l, !dot_scale_l, Hxx. rewrite (dot_comm y x), Hxy. ring. }
    assert (Huy : dot u y = 0).
    { unfold u. rewrite dot_sub_l, dot_add_l, !dot_scale_l, Hyy, Hxy. ring. }
    pose proof (parallel_to_normal n x y u Hnn Hc Hux Huy) as Hu.
    assert (Hnu : dot n u = dot w n).
    { unfold u. rewrite dot_sub_r, dot_add_r, !dot_scale_r, Hnx, Hny, (dot_comm n w). ring. }
    rewrite Hnu in Hu.
    assert (w = vadd (vadd (vscale (dot w x) x) (vscale (dot w y) y)) u).
    { unfold u. destruct w as [w1 w2 w3], (vadd (vscale (dot (V w1 w2 w3) x) x) (vscale (dot (V w1 w2 w3) y) y)) as [a1 a2 a3].
      unfold vadd, vsub. cbn [vx vy vz add sub ROps]. f_equal; ring. }
    rewrite Hu in H. exact H.
  Qed.

  Lemma frame_parseval (f : V3R) : dot f x * dot f x + dot f y * dot f y = dot f f - dot f n * dot f n.
  Proof.
    destruct Fr as [Hxx Hyy Hnn Hxy Hnx Hny Hc].
    pose proof (frame_decompose f) as Hf.
    assert (dot f f = dot f x * dot f x + dot f y * dot f y + dot f n * dot f n).
    { rewrite Hf at 1. rewrite !dot_add_l, !dot_scale_l. rewrite (dot_comm x f), (dot_comm y f), (dot_comm n f). ring. }
    lra.
  Qed.

  (** Binet-Cauchy: the 2-D cross product of the projected normals *)
  Lemma frame_cross2 (f g : V3R) : dot f x * dot g y - dot f y * dot g x = dot (cross f g) n.
  Proof.
    destruct Fr as [_ _ _ _ _ _ Hc]. rewrite <- Hc.
    destruct f as [f1 f2 f3], g as [g1 g2 g3], x as [x1 x2 x3], y as [y1 y2 y3].
    unfold dot, cross. cbn [vx vy vz add sub mul ROps]. ring.
  Qed.

  Variable d : R.
  Let pp : V3R := vmap (fun c => (c * d)%o) n.

  Lemma pp_x : dot pp x = 0.
  Proof.
    destruct Fr as [_ _ _ _ Hnx _ _]. unfold pp. destruct n as [n1 n2 n3], x as [x1 x2 x3].
    unfold vmap, dot in *. cbn [vx vy vz add mul ROps] in *.
    transitivity (d * (n1 * x1 + n2 * x2 + n3 * x3)); [ring|rewrite Hnx; ring].
  Qed.
  Lemma pp_y : dot pp y = 0.
  Proof.
    destruct Fr as [_ _ _ _ _ Hny _]. unfold pp. destruct n as [n1 n2 n3], y as [y1 y2 y3].
    unfold vmap, dot in *. cbn [vx vy vz add mul ROps] in *.
    transitivity (d * (n1 * y1 + n2 * y2 + n3 * y3)); [ring|rewrite Hny; ring].
  Qed.
  Lemma pp_n : dot pp n = d.
  Proof.
    destruct Fr as [_ _ Hnn _ _ _ _]. unfold pp. destruct n as [n1 n2 n3].
    unfold vmap, dot in *. cbn [vx vy vz add mul ROps] in *.
    transitivity (d * (n1 * n1 + n2 * n2 + n3 * n3)); [ring|rewrite Hnn; ring].
  Qed.

  Definition coords (v : V3R) : V2R := mkV2 (dot (vsub v pp) x) (dot (vsub v pp) y).

  Lemma project_as_sum (q : V2R) :
    project_point x y pp q = vadd (vadd (vscale (px q) x) (vscale (py q) y)) pp.
  Proof.
    destruct q as [u w], x as [x1 x2 x3], y as [y1 y2 y3], pp as [p1 p2 p3].
    unfold project_point, vadd, vscale. cbn [px py vx vy vz add mul ROps]. reflexivity.
  Qed.

  Lemma coords_project (q : V2R) : coords (project_point x y pp q) = q.
  Proof.
    destruct Fr as [Hxx Hyy _ Hxy _ _ _]. unfold coords. rewrite project_as_sum.
    destruct q as [u w]. cbn [px py]. f_equal.
    - rewrite dot_sub_l, !dot_add_l, !dot_scale_l, Hxx, (dot_comm y x), Hxy. ring.
    - rewrite dot_sub_l, !dot_add_l, !dot_scale_l, Hyy, Hxy. ring.
  Qed.

  Lemma project_coords (v : V3R) : dot n v = d -> project_point x y pp (coords v) = v.
  Proof.
    intros Hv. rewrite project_as_sum. unfold coords. cbn [px py].
    pose proof (frame_decompose (vsub v pp)) as Hd.
    assert (Hz : dot (vsub v pp) n = 0).
    { rewrite dot_sub_l, pp_n, (dot_comm v n), Hv. ring. }
    rewrite Hz in Hd.
    destruct v as [v1 v2 v3], pp as [p1 p2 p3].
    set (a := dot (vsub (V v1 v2 v3) (V p1 p2 p3)) x) in *. set (b := dot (vsub (V v1 v2 v3) (V p1 p2 p3)) y) in *.
    destruct x as [x1 x2 x3], y as [y1 y2 y3], n as [n1 n2 n3].
    unfold vadd, vscale, vsub in *. cbn [vx vy vz add sub mul ROps] in *.
    injection Hd as H1 H2 H3. f_equal; lra.
  Qed.
End Frame.

(** ** basis-free description of the arrangement vertices *)
Definition face_valid (n : V3R) (Xi : V4R) : Prop :=
  EPSILON < sqrt (dot (xyz Xi) (xyz Xi) - dot (xyz Xi) n * dot (xyz Xi) n).

Definition vertex3 (rows : list V4R) (n : V3R) (d : R) (v : V3R) : Prop :=
  dot n v = d /\
  exists Xi Xj, In Xi rows /\ In Xj rows /\ face_valid n Xi /\ face_valid n Xj /\
    EPSILON <= Rabs (dot (cross (xyz Xi) (xyz Xj)) n) /\ aff Xi v = 0 /\ aff Xj v = 0 /\
    forall Xk, In Xk rows -> face_valid n Xk -> - EPSILON <= aff Xk v.

Lemma lines_unique (h1 h2 : HP R) (q q' : V2R) :
  cross2d (hdir h1) (hdir h2) <> 0 ->
  cross2d (hdir h1) (v2sub q (hp h1)) = 0 -> cross2d (hdir h2) (v2sub q (hp h2)) = 0 ->
  cross2d (hdir h1) (v2sub q' (hp h1)) = 0 -> cross2d (hdir h2) (v2sub q' (hp h2)) = 0 -> q = q'.
Proof.
  destruct h1 as [[a1 a2] [u1 u2]], h2 as [[b1 b2] [w1 w2]], q as [qx qy], q' as [rx ry].
  unfold cross2d, v2sub. cbn [hp hdir px py sub mul ROps]. intros Hden A B C D.
  set (dx := qx - rx). set (dy := qy - ry).
  assert (E1 : u1 * dy - u2 * dx = 0) by (unfold dx, dy; lra).
  assert (E2 : w1 * dy - w2 * dx = 0) by (unfold dx, dy; lra).
  assert (Hx : (u1 * w2 - u2 * w1) * dx = 0).
  { replace ((u1 * w2 - u2 * w1) * dx) with (u1 * (w1 * dy - w2 * dx) * (-1) + w1 * (u1 * dy - u2 * dx)) by ring.
    rewrite E1, E2. ring. }
  assert (Hy : (u1 * w2 - u2 * w1) * dy = 0).
  { replace ((u1 * w2 - u2 * w1) * dy) with (u2 * (w1 * dy - w2 * dx) * (-1) + w2 * (u1 * dy - u2 * dx)) by ring.
    rewrite E1, E2. ring. }
  apply Rmult_integral in Hx as [Hx|Hx]; [contradiction|].
  apply Rmult_integral in Hy as [Hy|Hy]; [contradiction|].
  unfold dx, dy in *. f_equal; lra.
Qed.

Section Characterisation.
  Variables x y n : V3R.
  Hypothesis Fr : frame x y n.
  Variable d : R.
  Let pp : V3R := vmap (fun c => (c * d)%o) n.
  Variable rows : list V4R.

  (** a row of make_halfplanes exists iff the face is valid in the basis-free sense *)
  Lemma hp_row_valid (Xi : V4R) : (exists h, hp_row x y pp Xi = Some h) <-> face_valid n Xi.
  Proof.
    unfold hp_row, face_valid, norm2d. cbn [px py]. cbn [sqrt add mul ROps].
    rewrite (frame_parseval x y n Fr (xyz Xi)).
    destruct (EPSILON <? _)%o eqn:E.
    - apply Rltb_true in E. split; [intros _; exact E|intros _; eexists; reflexivity].
    - apply Rltb_false in E. split; [intros [h H]; discriminate|intros H; lra].
  Qed.

  Lemma hdir_cross (Xi Xj : V4R) (hi hj : HP R) :
    hp_row x y pp Xi = Some hi -> hp_row x y pp Xj = Some hj ->
    cross2d (hdir hi) (hdir hj) = dot (cross (xyz Xi) (xyz Xj)) n.
  Proof.
    unfold hp_row. destruct (EPSILON <? _)%o; [|discriminate]. destruct (EPSILON <? _)%o; [|discriminate].
    intros H1 H2. injection H1 as <-. injection H2 as <-.
    rewrite <- (frame_cross2 x y n Fr). unfold cross2d, xyz, dot. cbn [hdir px py vx vy vz add sub mul opp ROps]. ring.
  Qed.

  Lemma intersect_some (hi hj : HP R) (q : V2R) :
    EPSILON <= Rabs (cross2d (hdir hi) (hdir hj)) ->
    cross2d (hdir hi) (v2sub q (hp hi)) = 0 -> cross2d (hdir hj) (v2sub q (hp hj)) = 0 ->
    intersect_two_halfplanes hi hj = Some q.
  Proof.
    intros Hden Hi Hj.
    destruct (intersect_two_halfplanes hi hj) as [q0|] eqn:E.
    - f_equal. pose proof (vertex_on_lines hi hj q0 E) as [A B].
      pose proof EPSILON_pos.
      assert (cross2d (hdir hi) (hdir hj) <> 0).
      { intros Z. rewrite Z, Rabs_R0 in Hden. lra. }
      symmetry. apply (lines_unique hi hj q q0); auto.
    - exfalso. unfold intersect_two_halfplanes in E.
      destruct (abs _ <? EPSILON)%o eqn:Hd; [|discriminate].
      apply Rltb_true in Hd. cbn [abs ROps] in Hd. lra.
  Qed.

  Theorem arrangement_vertex_iff (v : V3R) :
    (exists q, is_vertex (valid_rows x y pp rows) q /\ v = project_point x y pp q) <-> vertex3 rows n d v.
  Proof.
    pose proof EPSILON_pos as He.
    split.
    - intros (q & (i & j & hi & hj & Hij & Hi & Hj & Hp & Hall) & ->).
      destruct (valid_rows_nth x y pp rows i hi Hi) as (Xi & HXi & Hri).
      destruct (valid_rows_nth x y pp rows j hj Hj) as (Xj & HXj & Hrj).
      pose proof (vertex_on_lines hi hj q Hp) as [Oi Oj].
      split.
      { pose proof (project_on_plane n d q (fr_nn _ _ _ Fr)) as HP.
        (* the frame here is arbitrary, not necessarily plane_basis_from_normal: direct computation *)
        clear HP. unfold pp. rewrite project_as_sum, !dot_add_r, !dot_scale_r.
        rewrite (fr_nx _ _ _ Fr), (fr_ny _ _ _ Fr), (dot_comm n (vmap _ n)), (pp_n x y n Fr d). all: try ring; try exact Fr. }
      exists Xi, Xj. repeat split; auto.
      + apply hp_row_valid. eauto.
      + apply hp_row_valid. eauto.
      + rewrite <- (hdir_cross Xi Xj hi hj Hri Hrj).
        unfold intersect_two_halfplanes in Hp. destruct (abs _ <? EPSILON)%o eqn:Hd; [discriminate|].
        apply Rltb_false in Hd. exact Hd.
      + rewrite <- Oi. symmetry. apply (halfplane_is_face x y pp Xi hi q Hri).
      + rewrite <- Oj. symmetry. apply (halfplane_is_face x y pp Xj hj q Hrj).
      + intros Xk HXk Hvk. apply hp_row_valid in Hvk as (hk & Hrk).
        destruct (valid_rows_in x y pp rows Xk hk HXk Hrk) as (k & Hk).
        change (- EPSILON <= bary_row Xk (project_point x y pp q)).
        rewrite <- (halfplane_is_face x y pp Xk hk q Hrk).
        destruct (Nat.eq_dec k i) as [->|Hki]; [rewrite Hi in Hk; injection Hk as <-; lra|].
        destruct (Nat.eq_dec k j) as [->|Hkj]; [rewrite Hj in Hk; injection Hk as <-; lra|].
        specialize (Hall k hk Hk Hki Hkj). unfold point_outside_of_halfplane in Hall.
        apply Rltb_false in Hall. cbn [opp ROps] in Hall. exact Hall.
    - intros (Hv & Xi & Xj & HXi & HXj & Vi & Vj & Hden & Ai & Aj & Hall).
      apply hp_row_valid in Vi as (hi & Hri). apply hp_row_valid in Vj as (hj & Hrj).
      destruct (valid_rows_in x y pp rows Xi hi HXi Hri) as (a & Ha).
      destruct (valid_rows_in x y pp rows Xj hj HXj Hrj) as (b & Hb).
      set (q := coords x y n d v).
      assert (Hlift : project_point x y pp q = v) by (apply (project_coords x y n Fr d v Hv)).
      exists q. split; [|symmetry; exact Hlift].
      rewrite <- (hdir_cross Xi Xj hi hj Hri Hrj) in Hden.
      assert (Oi : cross2d (hdir hi) (v2sub q (hp hi)) = 0).
      { rewrite (halfplane_is_face x y pp Xi hi q Hri), Hlift. exact Ai. }
      assert (Oj : cross2d (hdir hj) (v2sub q (hp hj)) = 0).
      { rewrite (halfplane_is_face x y pp Xj hj q Hrj), Hlift. exact Aj. }
      assert (Hab : a <> b).
      { intros ->. rewrite Ha in Hb. injection Hb as <-.
        assert (cross2d (hdir hi) (hdir hi) = 0) by (unfold cross2d; cbn [sub mul ROps]; ring).
        rewrite H, Rabs_R0 in Hden. lra. }
      assert (Hothers : forall k hk, nth_error (valid_rows x y pp rows) k = Some hk -> point_outside_of_halfplane hk q = false).
      { intros k hk Hk. destruct (valid_rows_nth x y pp rows k hk Hk) as (Xk & HXk & Hrk).
        unfold point_outside_of_halfplane. apply Rltb_false. cbn [opp ROps].
        rewrite (halfplane_is_face x y pp Xk hk q Hrk), Hlift. apply Hall; [exact HXk|].
        apply hp_row_valid. eauto. }
      destruct (Nat.lt_total a b) as [Hlt|[Heq|Hgt]]; [|contradiction|].
      + exists a, b, hi, hj. repeat split; auto.
        * apply intersect_some; auto.
        * intros k hk Hk _ _. eapply Hothers; eauto.
      + exists b, a, hj, hi. repeat split; auto.
        * apply intersect_some; auto.
          replace (cross2d (hdir hj) (hdir hi)) with (- cross2d (hdir hi) (hdir hj)) by (unfold cross2d; cbn [sub mul ROps]; ring).
          rewrite Rabs_Ropp. exact Hden.
        * intros k hk Hk _ _. eapply Hothers; eauto.
  Qed.
End Characterisation.

(** ** exchanging the two tetrahedra *)
Lemma face_valid_neg (n : V3R) (Xi : V4R) : face_valid (vneg n) Xi <-> face_valid n Xi.
Proof.
  unfold face_valid. replace (dot (xyz Xi) (vneg n) * dot (xyz Xi) (vneg n)) with (dot (xyz Xi) n * dot (xyz Xi) n); [tauto|].
  destruct (xyz Xi) as [a b c], n as [n1 n2 n3]. unfold dot, vneg. cbn [vx vy vz add mul opp ROps]. ring.
Qed.

Lemma vertex3_swap (r1 r2 : list V4R) (n : V3R) (d : R) (v : V3R) :
  vertex3 (r2 ++ r1) (vneg n) (- d) v <-> vertex3 (r1 ++ r2) n d v.
Proof.
  assert (Hin : forall X, In X (r2 ++ r1) <-> In X (r1 ++ r2)).
  { intros X. rewrite !in_app_iff. tauto. }
  assert (Habs : forall a b : V3R, Rabs (dot (cross a b) (vneg n)) = Rabs (dot (cross a b) n)).
  { intros a b. replace (dot (cross a b) (vneg n)) with (- dot (cross a b) n); [apply Rabs_Ropp|].
    destruct (cross a b) as [c1 c2 c3], n as [n1 n2 n3]. unfold dot, vneg. cbn [vx vy vz add mul opp ROps]. ring. }
  assert (Hdot : dot (vneg n) v = - d <-> dot n v = d).
  { rewrite dot_neg_l. split; lra. }
  unfold vertex3. rewrite Hdot. split; intros (Hv & Xi & Xj & H1 & H2 & V1 & V2 & Hden & A1 & A2 & Hall); split; auto;
    exists Xi, Xj.
  - rewrite Habs in Hden. apply Hin in H1. apply Hin in H2. apply (proj1 (face_valid_neg n Xi)) in V1. apply (proj1 (face_valid_neg n Xj)) in V2.
    split; [exact H1|]. split; [exact H2|]. split; [exact V1|]. split; [exact V2|]. split; [exact Hden|].
    split; [exact A1|]. split; [exact A2|].
    intros Xk Hk Vk. apply Hall; [apply Hin; exact Hk|apply (proj2 (face_valid_neg n Xk)); exact Vk].
  - apply Hin in H1. apply Hin in H2.
    split; [exact H1|]. split; [exact H2|]. split; [apply (proj2 (face_valid_neg n Xi)); exact V1|]. split; [apply (proj2 (face_valid_neg n Xj)); exact V2|].
    split; [rewrite Habs; exact Hden|]. split; [exact A1|]. split; [exact A2|].
    intros Xk Hk Vk. apply Hall; [apply Hin; exact Hk|apply (proj1 (face_valid_neg n Xk)); exact Vk].
Qed.

Lemma dot_vneg_self (n : V3R) : dot (vneg n) (vneg n) = dot n n.
Proof. destruct n as [a b c]. unfold dot, vneg. cbn [vx vy vz add mul opp ROps]. ring. Qed.

(** The set of 3-D vertices of the halfplane arrangement does not depend on the order of the
    two tetrahedra: (X1, X2, n, d) and (X2, X1, -n, -d) - each with the basis the code computes
    from its own normal - give the same points. *)
Theorem arrangement_vertices_order_independent (X1 X2 : @M4 R) (n : V3R) (d : R) (v : V3R) :
  dot n n = 1 ->
  let '(x, y) := plane_basis_from_normal n in
  let '(x', y') := plane_basis_from_normal (vneg n) in
  let pp := vmap (fun c => (c * d)%o) n in
  let pp' := vmap (fun c => (c * - d)%o) (vneg n) in
  (exists q, is_vertex (valid_rows x y pp (m4rows X1 ++ m4rows X2)) q /\ v = project_point x y pp q) <->
  (exists q, is_vertex (valid_rows x' y' pp' (m4rows X2 ++ m4rows X1)) q /\ v = project_point x' y' pp' q).
Proof.
  intros Hn.
  pose proof (frame_of_basis n Hn) as F1.
  assert (Hn' : dot (vneg n) (vneg n) = 1) by (rewrite dot_vneg_self; exact Hn).
  pose proof (frame_of_basis (vneg n) Hn') as F2.
  destruct (plane_basis_from_normal n) as [x y]. destruct (plane_basis_from_normal (vneg n)) as [x' y'].
  cbv zeta.
  rewrite (arrangement_vertex_iff x y n F1 d (m4rows X1 ++ m4rows X2) v).
  rewrite (arrangement_vertex_iff x' y' (vneg n) F2 (- d) (m4rows X2 ++ m4rows X1) v).
  symmetry. apply vertex3_swap.
Qed.

(** the swapped call computes exactly the negated plane *)
Theorem contact_plane_swap (X1 X2 : @M4 R) (e1 e2 : V4R) (E1 E2 : R) (pl : V4R) :
  contact_plane X1 X2 e1 e2 E1 E2 = (pl, false) ->
  contact_plane X2 X1 e2 e1 E2 E1 = (mkV4 (- c0 pl) (- c1 pl) (- c2 pl) (- c3 pl), false).
Proof.
  unfold contact_plane.
  remember (vecmat4 (v4scale e1 E1) X1) as a eqn:Ea. remember (vecmat4 (v4scale e2 E2) X2) as b eqn:Eb.
  assert (Hnorm : norm (xyz (v4sub b a)) = norm (xyz (v4sub a b))).
  { unfold norm. f_equal. destruct a as [a0 a1 a2 a3], b as [b0 b1 b2 b3].
    unfold v4sub, xyz, dot. cbn [c0 c1 c2 c3 vx vy vz add sub mul ROps]. ring. }
  rewrite Hnorm. set (nrm := norm (xyz (v4sub a b))).
  destruct (nrm =? zero)%o eqn:Hz; [discriminate|].
  intros H. injection H as <-. apply Reqb_false in Hz. cbn [zero ROps] in Hz.
  f_equal. destruct a as [a0 a1 a2 a3], b as [b0 b1 b2 b3].
  unfold v4divs, v4sub. cbn [c0 c1 c2 c3 sub mul div opp one ROps]. f_equal; field; exact Hz.
Qed.
