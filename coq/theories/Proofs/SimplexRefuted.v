(** * The absolute thresholds make both solvers wrong on small, perfectly conditioned
      tetrahedra that contain the origin -- in EXACT arithmetic (so this is the algorithm,
      not rounding).  Witnesses: the regular tetrahedron [s * (+-1, +-1, +-1)] centred at the
      origin (minimum norm 0) with [s = 1/1000] for the original solver's backup procedure
      (its degree-6 cofactors, about [s^6], are compared with EPSILON = 10 eps) and
      [s = 1/1000000] for the Jolt solver (the degree-3 plane tests, about [s^3], use a band of
      +-eps).  Both return the centroid of a face.  (Known findings C18-ORIG-EPS-ABS,
      C18-JOLT-EPS-ABS.) *)
From Coq Require Import List NArith ZArith QArith Qreals Reals Lra Bool.
From D3 Require Import Base.Ops Base.Vec Base.RVec Spec.Convex Spec.ConvexHull
  Model.Simplex Model.SimplexOrig Model.SimplexRun Checker.Kkt.
Import ListNotations.

Definition tetra (s : Q) : list (V3 Q) :=
  [V s s s; V s (- s) (- s); V (- s) s (- s); V (- s) (- s) s]%Q.

Local Open Scope R_scope.

Lemma tetra_contains_origin (s : Q) : conv_hull (map Q2V (tetra s)) vzero.
Proof.
  unfold tetra. cbn [map].
  replace vzero with
    (vadd (vadd (vadd (vscale (1/4) (Q2V (V s s s))) (vscale (1/4) (Q2V (V s (Qopp s) (Qopp s)))))
                (vscale (1/4) (Q2V (V (Qopp s) s (Qopp s))))) (vscale (1/4) (Q2V (V (Qopp s) (Qopp s) s)))).
  - apply conv_hull_4; lra.
  - unfold Q2V. cbn [vx vy vz]. rewrite !Q2R_opp. vunfold. cbn [vx vy vz]. f_equal; lra.
Qed.

Lemma not_min_norm_of_nonzero (s : Q) (p : V3 Q) :
  (Q2R (vx p) <> 0) -> ~ is_min_norm (map Q2V (tetra s)) (Q2V p).
Proof.
  intros Hp [_ Hmin]. specialize (Hmin vzero (tetra_contains_origin s)).
  assert (H0 : norm (vzero : V3R) = 0).
  { apply norm_zero_iff. reflexivity. }
  rewrite H0 in Hmin. pose proof (norm_nonneg (Q2V p)).
  assert (Hn : norm (Q2V p) = 0) by lra. apply norm_zero_iff in Hn.
  apply Hp. unfold Q2V in Hn. injection Hn. auto.
Qed.

(** the original solver's backup procedure, in exact rational arithmetic, on the tetrahedron
    of half-width 1/1000 returns the centroid (1/3000, 1/3000, -1/3000) of the face 0-1-2 *)
Theorem orig_backup_refuted :
  exists Y p w ord,
    orig_q Y = Some (p, w, ord) /\ conv_hull (map Q2V Y) vzero /\ ~ is_min_norm (map Q2V Y) (Q2V p).
Proof.
  exists (tetra (1 # 1000)).
  destruct (orig_q (tetra (1 # 1000))) as [[[p w] ord]|] eqn:E; [|vm_compute in E; discriminate].
  exists p, w, ord. split; auto. split; [apply tetra_contains_origin|].
  apply not_min_norm_of_nonzero.
  vm_compute in E. injection E as <- _ _. cbn [vx]. unfold Q2R. cbn [Qnum Qden]. lra.
Qed.

(** the Jolt solver, in exact rational arithmetic, on the tetrahedron of half-width 1e-6
    returns the centroid of a face with all-but-one bits set *)
Theorem jolt_refuted :
  exists Y p s,
    jolt_q 4 Y = Some (p, s) /\ conv_hull (map Q2V Y) vzero /\ ~ is_min_norm (map Q2V Y) (Q2V p).
Proof.
  exists (tetra (1 # 1000000)).
  destruct (jolt_q 4 (tetra (1 # 1000000))) as [[p s]|] eqn:E; [|vm_compute in E; discriminate].
  exists p, s. split; auto. split; [apply tetra_contains_origin|].
  apply not_min_norm_of_nonzero.
  vm_compute in E. injection E as <- _. cbn [vx]. unfold Q2R. cbn [Qnum Qden]. lra.
Qed.
