(** * C12, part 1: rigid motions, uniform scalings, argument swap at the level of the
      specification (Spec/Convex.v) and the pose algebra of distance3d/utils.py.

    A rigid motion is [g x = Rg x + t] with [is_rotation Rg] (Rg^T Rg = I; Base/RVec.v).
    Nothing here needs det Rg = +1: reflections preserve distances as well.  The
    determinant enters only where the code uses cross products (EquivarianceDist.v).

    Main results
      - [rigid_norm], [image_dist_ge], [image_dist_le], [image_intersect]: the three notions
        every narrow-phase property is stated with are invariant under a common rigid motion;
        [dist_ge_sym], [dist_le_sym], [intersect_sym]: and symmetric; [scale_dist_ge] ...:
        and scale with a uniform scaling.
      - [is_dist] (the distance as the pair of its two defining inequalities, no [inf]
        operator), [is_dist_unique], [dist_invariant], [dist_symmetric], [dist_scale].
      - [c12_inherited]: ANY function that is validated to return the distance within tau on
        a scene and on its moved / swapped / scaled copy returns values that differ by at most
        2 tau (resp. tau + s tau).  This is the formal reason the iterative solvers (validated
        per input by C01, C07-C09) inherit C12.
      - pose algebra: [invert_transform], [inverse_transform_point_code] (the code's order of
        operations), round-trip laws, composition.
    AABBs are deliberately NOT invariant: [aabb_not_invariant]. *)
From Coq Require Import Reals Lra Psatz List.
From D3 Require Import Base.Ops Base.Vec Base.RVec Base.RVec2 Spec.Convex.
Import ListNotations.
Local Open Scope R_scope.

(** ** rigid motions *)
Definition rigid (Rg : M3 R) (t : V3R) (x : V3R) : V3R := vadd (mulMV Rg x) t.

Lemma rigid_transform_point (Rg : M3 R) (t x : V3R) : rigid Rg t x = transform_point (P Rg t) x.
Proof. reflexivity. Qed.

Lemma mulMV_sub (m : M3 R) (a b : V3R) : mulMV m (vsub a b) = vsub (mulMV m a) (mulMV m b).
Proof. vsimp; f_equal; ring. Qed.
Lemma mulMV_add (m : M3 R) (a b : V3R) : mulMV m (vadd a b) = vadd (mulMV m a) (mulMV m b).
Proof. vsimp; f_equal; ring. Qed.
Lemma mulMV_scale (m : M3 R) (s : R) (a : V3R) : mulMV m (vscale s a) = vscale s (mulMV m a).
Proof. vsimp; f_equal; ring. Qed.
Lemma mulMV_neg (m : M3 R) (a : V3R) : mulMV m (vneg a) = vneg (mulMV m a).
Proof. vsimp; f_equal; ring. Qed.

Lemma rigid_sub (Rg : M3 R) (t a b : V3R) : vsub (rigid Rg t a) (rigid Rg t b) = mulMV Rg (vsub a b).
Proof. unfold rigid. vsimp; f_equal; ring. Qed.

(** distances between points are preserved *)
Theorem rigid_norm (Rg : M3 R) (t a b : V3R) :
  is_rotation Rg -> norm (vsub (rigid Rg t a) (rigid Rg t b)) = norm (vsub a b).
Proof. intros H. rewrite rigid_sub. apply is_rotation_norm; auto. Qed.

(** dot products of differences and of directions are preserved *)
Lemma rigid_dot_dir (Rg : M3 R) (t a b d : V3R) :
  is_rotation Rg -> dot (vsub (rigid Rg t a) (rigid Rg t b)) (mulMV Rg d) = dot (vsub a b) d.
Proof. intros H. rewrite rigid_sub. apply is_rotation_dot; auto. Qed.

Definition rigid_inv (Rg : M3 R) (t : V3R) (y : V3R) : V3R := mulTV Rg (vsub y t).
Lemma rigid_inv_l (Rg : M3 R) (t x : V3R) : is_rotation Rg -> rigid_inv Rg t (rigid Rg t x) = x.
Proof. intros H. apply (inverse_transform_transform (P Rg t) x H). Qed.
Lemma rigid_inv_r (Rg : M3 R) (t y : V3R) : is_rotation Rg -> rigid Rg t (rigid_inv Rg t y) = y.
Proof. intros H. apply (transform_inverse_transform (P Rg t) y H). Qed.

(** ** images of sets *)
Definition image (f : V3R -> V3R) (S : set3) : set3 := fun y => exists x, S x /\ y = f x.

Lemma image_in (f : V3R -> V3R) (S : set3) x : S x -> image f S (f x).
Proof. intros H. exists x. auto. Qed.

Section Rigid.
  Variables (Rg : M3 R) (t : V3R).
  Hypothesis HR : is_rotation Rg.
  Let g := rigid Rg t.

  Theorem image_dist_ge (A B : set3) (d : R) : dist_ge (image g A) (image g B) d <-> dist_ge A B d.
  Proof.
    split.
    - intros H a b Ha Hb. rewrite <- (rigid_norm Rg t a b HR). apply H; apply image_in; auto.
    - intros H a' b' (a & Ha & ->) (b & Hb & ->). unfold g. rewrite rigid_norm by auto. apply H; auto.
  Qed.

  Theorem image_dist_le (A B : set3) (d : R) : dist_le (image g A) (image g B) d <-> dist_le A B d.
  Proof.
    split.
    - intros (a' & b' & (a & Ha & ->) & (b & Hb & ->) & H). exists a, b. repeat split; auto.
      unfold g in H. rewrite rigid_norm in H by auto. exact H.
    - intros (a & b & Ha & Hb & H). exists (g a), (g b). repeat split; try (apply image_in; auto).
      unfold g. rewrite rigid_norm by auto. exact H.
  Qed.

  Theorem image_intersect (A B : set3) : intersect (image g A) (image g B) <-> intersect A B.
  Proof.
    split.
    - intros (y & (a & Ha & Ea) & (b & Hb & Eb)).
      assert (a = b).
      { rewrite <- (rigid_inv_l Rg t a HR), <- (rigid_inv_l Rg t b HR). fold g. rewrite <- Ea, <- Eb. reflexivity. }
      subst b. exists a; auto.
    - intros (x & Ha & Hb). exists (g x). split; apply image_in; auto.
  Qed.

  (** support points move with the set when the direction is rotated along *)
  Theorem image_is_support (S : set3) (d s : V3R) :
    is_support S d s <-> is_support (image g S) (mulMV Rg d) (g s).
  Proof.
    assert (E : forall x, dot (g x) (mulMV Rg d) = dot x d + dot t (mulMV Rg d)).
    { intros x. unfold g, rigid. rewrite dot_add_l, is_rotation_dot by auto. reflexivity. }
    split.
    - intros (Hs & Hm). split; [apply image_in; auto|].
      intros y (x & Hx & ->). rewrite !E. specialize (Hm x Hx). lra.
    - intros ((x0 & Hx0 & E0) & Hm).
      assert (s = x0).
      { rewrite <- (rigid_inv_l Rg t s HR), <- (rigid_inv_l Rg t x0 HR). fold g. rewrite E0. reflexivity. }
      subst x0. split; auto. intros x Hx. specialize (Hm (g x) (image_in g S x Hx)). rewrite !E in Hm. lra.
  Qed.
End Rigid.

(** ** argument swap *)
Theorem dist_ge_sym (A B : set3) (d : R) : dist_ge A B d <-> dist_ge B A d.
Proof. split; intros H a b Ha Hb; rewrite norm_sub_comm; apply H; auto. Qed.
Theorem dist_le_sym (A B : set3) (d : R) : dist_le A B d <-> dist_le B A d.
Proof. split; intros (a & b & Ha & Hb & H); exists b, a; repeat split; auto; rewrite norm_sub_comm; auto. Qed.
Theorem intersect_sym (A B : set3) : intersect A B <-> intersect B A.
Proof. split; intros (x & Ha & Hb); exists x; auto. Qed.

(** ** uniform scaling about the origin *)
Lemma scale_norm (s : R) (a b : V3R) : norm (vsub (vscale s a) (vscale s b)) = Rabs s * norm (vsub a b).
Proof. rewrite <- norm_scale. f_equal. vsimp; f_equal; ring. Qed.

Theorem scale_dist_ge (s : R) (A B : set3) (d : R) :
  0 < s -> (dist_ge (image (vscale s) A) (image (vscale s) B) (s * d) <-> dist_ge A B d).
Proof.
  intros Hs. split.
  - intros H a b Ha Hb. specialize (H _ _ (image_in (vscale s) A a Ha) (image_in (vscale s) B b Hb)).
    rewrite scale_norm, Rabs_right in H by lra. nra.
  - intros H a' b' (a & Ha & ->) (b & Hb & ->). rewrite scale_norm, Rabs_right by lra.
    specialize (H a b Ha Hb). nra.
Qed.

Theorem scale_dist_le (s : R) (A B : set3) (d : R) :
  0 < s -> (dist_le (image (vscale s) A) (image (vscale s) B) (s * d) <-> dist_le A B d).
Proof.
  intros Hs. split.
  - intros (a' & b' & (a & Ha & ->) & (b & Hb & ->) & H). exists a, b. repeat split; auto.
    rewrite scale_norm, Rabs_right in H by lra. nra.
  - intros (a & b & Ha & Hb & H). exists (vscale s a), (vscale s b). repeat split; try (apply image_in; auto).
    rewrite scale_norm, Rabs_right by lra. nra.
Qed.

Theorem scale_intersect (s : R) (A B : set3) :
  s <> 0 -> (intersect (image (vscale s) A) (image (vscale s) B) <-> intersect A B).
Proof.
  intros Hs. split.
  - intros (y & (a & Ha & Ea) & (b & Hb & Eb)).
    assert (a = b).
    { rewrite Ea in Eb. destruct a as [a0 a1 a2], b as [b0 b1 b2]. vunfold. injection Eb as E0 E1 E2.
      f_equal; nra. }
    subst b. exists a; auto.
  - intros (x & Ha & Hb). exists (vscale s x). split; apply image_in; auto.
Qed.

(** ** the distance of two sets, by its two defining inequalities *)
Definition is_dist (A B : set3) (d : R) : Prop :=
  dist_ge A B d /\ forall e, 0 < e -> dist_le A B (d + e).

Theorem is_dist_unique (A B : set3) (d d' : R) : is_dist A B d -> is_dist A B d' -> d = d'.
Proof.
  assert (W : forall d d', is_dist A B d -> is_dist A B d' -> d <= d').
  { intros x y (Hge & _) (_ & Hle).
    destruct (Rle_dec x y) as [|Hn]; auto. apply Rnot_le_lt in Hn.
    destruct (Hle ((x - y) / 2)) as (a & b & Ha & Hb & H); [lra|].
    specialize (Hge a b Ha Hb). lra. }
  intros H1 H2. apply Rle_antisym; auto.
Qed.

(** C12 for the specified quantity: invariant under one rigid motion applied to both sets *)
Theorem dist_invariant (Rg : M3 R) (t : V3R) (A B : set3) (d : R) :
  is_rotation Rg -> (is_dist (image (rigid Rg t) A) (image (rigid Rg t) B) d <-> is_dist A B d).
Proof.
  intros HR. unfold is_dist. rewrite image_dist_ge by auto.
  split; intros (H1 & H2); split; auto; intros e He; specialize (H2 e He);
    [rewrite <- (image_dist_le Rg t HR)|rewrite (image_dist_le Rg t HR)]; auto.
Qed.

Theorem dist_symmetric (A B : set3) (d : R) : is_dist A B d <-> is_dist B A d.
Proof.
  unfold is_dist. rewrite dist_ge_sym.
  split; intros (H1 & H2); split; auto; intros e He; apply dist_le_sym; auto.
Qed.

Theorem dist_scale (s : R) (A B : set3) (d : R) :
  0 < s -> (is_dist (image (vscale s) A) (image (vscale s) B) (s * d) <-> is_dist A B d).
Proof.
  intros Hs. unfold is_dist. rewrite scale_dist_ge by auto.
  split; intros (H1 & H2); split; auto; intros e He.
  - apply (scale_dist_le s A B (d + e) Hs). replace (s * (d + e)) with (s * d + s * e) by ring. apply H2. nra.
  - assert (He' : 0 < e / s) by (apply Rdiv_lt_0_compat; lra).
    specialize (H2 (e / s) He'). apply (scale_dist_le s A B _ Hs) in H2.
    replace (s * (d + e / s)) with (s * d + e) in H2 by (field; lra). exact H2.
Qed.

(** ** why validated solvers inherit C12
    [f] is any function of two scenes (think: gjk_distance_jolt on the colliders describing
    the sets).  If its value is within [tau] of the distance on the scene and within [tau'] on
    the transformed scene, the two values differ by at most [tau + tau'] -- whatever [f] is. *)
Theorem c12_inherited_rigid (f : set3 -> set3 -> R) (Rg : M3 R) (t : V3R) (A B : set3) (d tau tau' : R) :
  is_rotation Rg -> is_dist A B d ->
  Rabs (f A B - d) <= tau ->
  (forall d', is_dist (image (rigid Rg t) A) (image (rigid Rg t) B) d' ->
              Rabs (f (image (rigid Rg t) A) (image (rigid Rg t) B) - d') <= tau') ->
  Rabs (f (image (rigid Rg t) A) (image (rigid Rg t) B) - f A B) <= tau + tau'.
Proof.
  intros HR Hd H1 H2. specialize (H2 d (proj2 (dist_invariant Rg t A B d HR) Hd)).
  revert H1 H2. unfold Rabs. repeat destruct Rcase_abs; lra.
Qed.

Theorem c12_inherited_swap (f : set3 -> set3 -> R) (A B : set3) (d tau tau' : R) :
  is_dist A B d ->
  Rabs (f A B - d) <= tau ->
  (forall d', is_dist B A d' -> Rabs (f B A - d') <= tau') ->
  Rabs (f B A - f A B) <= tau + tau'.
Proof.
  intros Hd H1 H2. specialize (H2 d (proj1 (dist_symmetric A B d) Hd)).
  revert H1 H2. unfold Rabs. repeat destruct Rcase_abs; lra.
Qed.

Theorem c12_inherited_scale (f : set3 -> set3 -> R) (s : R) (A B : set3) (d tau tau' : R) :
  0 < s -> is_dist A B d ->
  Rabs (f A B - d) <= tau ->
  (forall d', is_dist (image (vscale s) A) (image (vscale s) B) d' ->
              Rabs (f (image (vscale s) A) (image (vscale s) B) - d') <= tau') ->
  Rabs (f (image (vscale s) A) (image (vscale s) B) - s * f A B) <= s * tau + tau'.
Proof.
  intros Hs Hd H1 H2. specialize (H2 (s * d) (proj2 (dist_scale s A B d Hs) Hd)).
  assert (Rabs (s * f A B - s * d) <= s * tau).
  { replace (s * f A B - s * d) with (s * (f A B - d)) by ring. rewrite Rabs_mult, (Rabs_right s) by lra.
    apply Rmult_le_compat_l; lra. }
  revert H H2. unfold Rabs. repeat destruct Rcase_abs; lra.
Qed.

(** boolean queries: a test that is correct on both scenes answers the same *)
Theorem c12_inherited_bool (f : set3 -> set3 -> bool) (Rg : M3 R) (t : V3R) (A B : set3) :
  is_rotation Rg ->
  (f A B = true <-> intersect A B) ->
  (f (image (rigid Rg t) A) (image (rigid Rg t) B) = true <-> intersect (image (rigid Rg t) A) (image (rigid Rg t) B)) ->
  f (image (rigid Rg t) A) (image (rigid Rg t) B) = f A B.
Proof.
  intros HR H1 H2. rewrite (image_intersect Rg t HR) in H2.
  destruct (f A B), (f _ _); auto.
  - apply (proj2 H2). apply (proj1 H1). reflexivity.
  - symmetry. apply (proj2 H1). apply (proj1 H2). reflexivity.
Qed.

(** ** pose algebra of distance3d/utils.py *)
(** invert_transform:  B2A[:3,:3] = R^T ; B2A[:3,3] = - R^T t *)
Definition invert_transform (T : Pose R) : Pose R :=
  P (transpose (rot T)) (vneg (mulTV (rot T) (trans T))).
(** inverse_transform_point, in the order of operations of the code:
      RT = A2B[:3,:3].T ; np.dot(RT, p) - np.dot(RT, A2B[:3,3])
    (Base/Vec.v models it as RT (p - t); equal over the reals) *)
Definition inverse_transform_point_code (T : Pose R) (p : V3R) : V3R :=
  vsub (mulTV (rot T) p) (mulTV (rot T) (trans T)).
(** concatenation A2B then B2C (4x4 product B2C . A2B restricted to the pose part) *)
Definition mulMM (a b : M3 R) : M3 R :=
  M (V (dot (r0 a) (col b 0)) (dot (r0 a) (col b 1)) (dot (r0 a) (col b 2)))
    (V (dot (r1 a) (col b 0)) (dot (r1 a) (col b 1)) (dot (r1 a) (col b 2)))
    (V (dot (r2 a) (col b 0)) (dot (r2 a) (col b 1)) (dot (r2 a) (col b 2))).
Definition compose (T2 T1 : Pose R) : Pose R :=
  P (mulMM (rot T2) (rot T1)) (vadd (mulMV (rot T2) (trans T1)) (trans T2)).

Lemma inverse_transform_point_code_eq (T : Pose R) (p : V3R) :
  inverse_transform_point_code T p = inverse_transform_point T p.
Proof. unfold inverse_transform_point_code, inverse_transform_point. vsimp; f_equal; ring. Qed.

Lemma invert_transform_point (T : Pose R) (p : V3R) :
  transform_point (invert_transform T) p = inverse_transform_point T p.
Proof. unfold invert_transform, transform_point, inverse_transform_point. vsimp; f_equal; ring. Qed.

Theorem invert_transform_left (T : Pose R) (p : V3R) :
  is_rotation (rot T) -> transform_point (invert_transform T) (transform_point T p) = p.
Proof. intros H. rewrite invert_transform_point. apply inverse_transform_transform; auto. Qed.
Theorem invert_transform_right (T : Pose R) (p : V3R) :
  is_rotation (rot T) -> transform_point T (transform_point (invert_transform T) p) = p.
Proof. intros H. rewrite invert_transform_point. apply transform_inverse_transform; auto. Qed.

Lemma transpose_involutive (m : M3 R) : transpose (transpose m) = m.
Proof. vsimp. reflexivity. Qed.

Theorem invert_transform_involutive (T : Pose R) :
  is_rotation (rot T) -> invert_transform (invert_transform T) = T.
Proof.
  intros H. destruct T as [m t]. unfold invert_transform. cbn [rot trans].
  rewrite transpose_involutive. f_equal.
  pose proof (rotation_inverse_r m H t) as E.
  unfold mulTV in *. rewrite transpose_involutive, mulMV_neg, E.
  vsimp; f_equal; ring.
Qed.

Theorem invert_transform_rotation (T : Pose R) : is_rotation (rot T) -> is_rotation (rot (invert_transform T)).
Proof. intros H. cbn. apply rotation_transpose; auto. Qed.

Lemma compose_point (T2 T1 : Pose R) (p : V3R) :
  transform_point (compose T2 T1) p = transform_point T2 (transform_point T1 p).
Proof. unfold compose, transform_point, mulMM. vsimp; f_equal; ring. Qed.

Lemma mulTV_mulMM (a b : M3 R) (v : V3R) : mulTV (mulMM a b) v = mulTV b (mulTV a v).
Proof. unfold mulMM. vsimp; f_equal; ring. Qed.
Lemma mulMV_mulMM (a b : M3 R) (v : V3R) : mulMV (mulMM a b) v = mulMV a (mulMV b v).
Proof. unfold mulMM. vsimp; f_equal; ring. Qed.

Theorem compose_rotation (a b : M3 R) : is_rotation a -> is_rotation b -> is_rotation (mulMM a b).
Proof. intros Ha Hb v. rewrite mulTV_mulMM, mulMV_mulMM, Ha, Hb. reflexivity. Qed.

(** the local direction used by every pose-based support function is unchanged when pose and
    direction are moved together:  (Rg R)^T (Rg d) = R^T d *)
Theorem local_direction_invariant (Rg m : M3 R) (d : V3R) :
  is_rotation Rg -> mulTV (mulMM Rg m) (mulMV Rg d) = mulTV m d.
Proof. intros H. rewrite mulTV_mulMM, H. reflexivity. Qed.

(** the same for points: the local coordinates of a moved point in the moved frame *)
Theorem local_point_invariant (Rg : M3 R) (t : V3R) (T : Pose R) (p : V3R) :
  is_rotation Rg ->
  inverse_transform_point (compose (P Rg t) T) (rigid Rg t p) = inverse_transform_point T p.
Proof.
  intros H. unfold inverse_transform_point, compose, rigid. cbn [rot trans].
  rewrite mulTV_mulMM.
  replace (vsub (vadd (mulMV Rg p) t) (vadd (mulMV Rg (trans T)) t)) with (mulMV Rg (vsub p (trans T)))
    by (vsimp; f_equal; ring).
  rewrite H. reflexivity.
Qed.

(** ** AABBs are not invariant (deliberately): the box of a rotated set is not the rotated box *)
Definition rotz90 : M3 R := M (V 0 (-1) 0) (V 1 0 0) (V 0 0 1).
Lemma rotz90_rotation : is_rotation rotz90.
Proof. intros v. unfold rotz90. vsimp. f_equal; ring. Qed.

(** the segment from the origin to (2,1,0): its AABB upper corner is (2,1,0); after a quarter
    turn about z the set reaches x = -1 .. 0, y = 0 .. 2, so the moved upper corner (-1,2,0) is
    not obtained by moving the old corners' extents: hi_x of the image is 0, not -1. *)
Theorem aabb_not_invariant :
  exists (S : set3) (hi : V3R),
    (forall x, S x -> vx x <= vx hi) /\ S hi /\
    ~ (forall y, image (rigid rotz90 vzero) S y -> vx y <= vx (rigid rotz90 vzero hi)).
Proof.
  exists (fun x => x = V 0 0 0 \/ x = V 2 1 0), (V 2 1 0).
  split; [|split].
  - intros x [->| ->]; cbn; lra.
  - right; reflexivity.
  - intros H. specialize (H (rigid rotz90 vzero (V 0 0 0))).
    assert (Hin : image (rigid rotz90 vzero) (fun x => x = V 0 0 0 \/ x = V 2 1 0) (rigid rotz90 vzero (V 0 0 0))).
    { apply image_in. left; reflexivity. }
    specialize (H Hin). unfold rigid, rotz90 in H. vunfold. cbn in H. lra.
Qed.

(** ** non-vacuity *)
Example dist_invariant_nonvacuous :
  is_dist (fun x => x = V 0 0 0) (fun x => x = V 3 4 0) 5 /\ is_rotation rotz90.
Proof.
  split; [|apply rotz90_rotation].
  assert (N : norm (vsub (V 0 0 0) (V 3 4 0)) = 5).
  { unfold norm. vunfold. cbn [sqrt ROps].
    replace ((0 - 3) * (0 - 3) + (0 - 4) * (0 - 4) + (0 - 0) * (0 - 0)) with (5 * 5) by ring.
    apply sqrt_square. lra. }
  split.
  - intros a b -> ->. rewrite N. lra.
  - intros e He. exists (V 0 0 0), (V 3 4 0). repeat split; auto. rewrite N. lra.
Qed.
