(** * C05, part 3: batches, histories and the end-to-end theorems. *)
From Coq Require Import List Arith Bool Lia Permutation.
From D3 Require Import Model.AabbTree Proofs.AabbTreeQuery Proofs.AabbTreeInsert.
Import ListNotations.

Lemma nth_error_firstn {A} (l : list A) k i : i < k -> nth_error (firstn k l) i = nth_error l i.
Proof.
  revert k i; induction l as [|a l IH]; intros [|k] [|i] H; simpl; auto; try lia.
  apply IH; lia.
Qed.

Lemma nth_error_repeat {A} (x : A) n i : i < n -> nth_error (repeat x n) i = Some x.
Proof. revert i; induction n; intros [|i] H; simpl; auto; try lia. apply IHn; lia. Qed.

Definition oixs (ot : option bt) := match ot with None => [] | Some t => ixs t end.
Definition oleaves (ot : option bt) := match ot with None => [] | Some t => leaves t end.

Section Batch.
  Variable C : Type.
  Variable le : C -> C -> bool.
  Variables cmin cmax : C -> C -> C.
  Variable czero : C.
  Variable go_left : box C -> box C -> box C -> bool.
  Variable cost_ok : box C -> box C -> box C -> box C -> bool.
  Variable D : Type.
  Notation box := (box C).
  Notation BoxOK := (BoxOK C cmin cmax).
  Notation tree := (tree C D).
  Notation insert_leaf := (insert_leaf C cmin cmax go_left cost_ok).
  Notation insert_loop := (insert_loop C cmin cmax go_left cost_ok).
  Notation insert_batch := (insert_batch C cmin cmax czero go_left cost_ok D).

  Definition ORep (ns : list node) (ab : list box) (ot : option bt) (rt : option nat) : Prop :=
    match ot with
    | None => rt = None
    | Some t => rt = Some (idx t) /\ RepS ns None t /\ BoxOK ab t
    end.

  (** ** the loop over [insert_order] *)
  Definition loop_post (ns : list node) (ab : list box) (ot : option bt) (pend : list nat)
             (r : res (option nat * list node * list box * nat)) : Prop :=
    match r with
    | Err e => e = EAssert
    | Ok (rt', ns', ab', fl') =>
      exists ot',
      ORep ns' ab' ot' rt' /\ length ns' = length ns /\ length ab' = length ab /\
      Permutation (oixs ot') (seq 0 fl') /\
      Permutation (oleaves ot') (rev pend ++ oleaves ot) /\
      (forall i, In i (pend ++ oleaves ot) -> nth_error ab' i = nth_error ab i) /\
      fl' <= length ns /\ (ot' = None -> ot = None /\ pend = [])
    end.

  Lemma insert_loop_spec :
    forall pend rt ns ab fl ot,
      ORep ns ab ot rt -> length ab = length ns ->
      Permutation (oixs ot ++ pend) (seq 0 fl) ->
      fl + length pend <= length ns ->
      (forall j, In j pend -> exists nj, nth_error ns j = Some nj /\ par nj = None) ->
      loop_post ns ab ot pend (insert_loop pend rt ns ab fl).
  Proof.
    induction pend as [|j pend IH]; intros rt ns ab fl ot HO Hlen HP Hfl Hrows.
    - simpl. exists ot. rewrite app_nil_r in HP. repeat split; auto; try lia.
    - cbn [AabbTree.insert_loop].
      assert (HND : NoDup (oixs ot ++ j :: pend)).
      { eapply Permutation_NoDup; [symmetry; exact HP|]. apply seq_NoDup. }
      assert (Hlt : forall i, In i (oixs ot ++ j :: pend) -> i < fl).
      { intros i Hi. eapply Permutation_in in Hi; [|exact HP]. apply in_seq in Hi. lia. }
      apply NoDup_app_inv in HND as (HNt & HNp & Hdis).
      destruct (Hrows j) as (nj & Hnj & Hparj); [simpl; auto|].
      assert (Hjlt : j < length ns) by (apply nth_error_Some; congruence).
      assert (Hjfl : j < fl) by (apply Hlt, in_app_iff; simpl; auto).
      destruct (nth_error ab j) as [lb|] eqn:Hlb;
        [|apply nth_error_None in Hlb; lia].
      destruct ot as [t|]; simpl in HO.
      + destruct HO as (-> & HR & HB).
        assert (Hj : ~ In j (ixs t)) by (intros H; apply (Hdis j); simpl; auto).
        assert (Hflt : ~ In fl (ixs t)).
        { intros H. assert (fl < fl); [|lia]. apply Hlt, in_app_iff; auto. }
        pose proof (insert_leaf_spec C cmin cmax go_left cost_ok ns ab t j fl nj lb HR HB HNt Hj Hflt) as Hspec.
        simpl in Hfl.
        specialize (Hspec ltac:(lia) Hnj ltac:(lia) Hlen Hlb).
        destruct (insert_leaf (Some (idx t)) j ns ab fl) as [[[[rt1 ns1] ab1] fl1]|e]; [|exact Hspec].
        destruct Hspec as (t1 & -> & -> & HR1 & HB1 & Pix & Plv & Pbr & L1 & LA1 & N1 & A1).
        cbn [bind].
        assert (Hpost : loop_post ns1 ab1 (Some t1) pend (insert_loop pend (Some (idx t1)) ns1 ab1 (S fl))).
        { apply IH.
          - simpl. auto.
          - lia.
          - cbn [oixs]. rewrite Pix. rewrite seq_S. cbn [plus].
            transitivity (fl :: (ixs t ++ j :: pend)).
            + cbn [app]. rewrite perm_swap. constructor.
              first [apply Permutation_middle | apply Permutation_sym, Permutation_middle].
            + rewrite <- HP. cbn [oixs]. apply Permutation_cons_append.
          - simpl. lia.
          - intros i Hi. rewrite N1. { apply Hrows; simpl; auto. }
            simpl. intros [E|[E|H]]; [subst i|subst i|].
            + inversion HNp; auto.
            + assert (fl < fl); [|lia]. apply Hlt, in_app_iff; simpl; auto.
            + apply (Hdis i); simpl; auto. }
        destruct (insert_loop pend (Some (idx t1)) ns1 ab1 (S fl)) as [[[[rt2 ns2] ab2] fl2]|e]; [|exact Hpost].
        destruct Hpost as (ot2 & HO2 & L2 & LA2 & P2 & PL2 & A2 & F2 & E2).
        exists ot2. split; [auto|]. split; [lia|]. split; [lia|]. split; [auto|]. split; [|split; [|split]].
        * rewrite PL2. simpl. rewrite Plv. rewrite <- app_assoc. simpl.
          apply Permutation_app_head. reflexivity.
        * intros i Hi. rewrite A2.
          -- apply A1. simpl. intros [E|H]; [subst i|].
             ++ assert (fl < fl); [|lia]. apply Hlt. apply in_app_iff.
                simpl in Hi. destruct Hi as [E|Hi]; [rewrite <- E; simpl; auto|].
                apply in_app_iff in Hi as [Hi|Hi]; [simpl; auto|].
                left. apply leaves_in_ixs; auto.
             ++ assert (Hib : In i (ixs t)) by (apply branches_in_ixs; auto).
                simpl in Hi. destruct Hi as [E|Hi]; [subst i; auto|].
                apply in_app_iff in Hi as [Hi|Hi]; [apply (Hdis i); simpl; auto|].
                pose proof (ixs_perm t) as Pt. eapply Permutation_NoDup in Pt; [|exact HNt].
                apply NoDup_app_inv in Pt as (_ & _ & Pd). apply (Pd i); auto.
          -- apply in_app_iff. simpl in Hi. destruct Hi as [E|Hi]; [subst i|].
             ++ right. simpl. eapply Permutation_in; [symmetry; exact Plv|]. simpl; auto.
             ++ apply in_app_iff in Hi as [Hi|Hi]; auto. right. simpl.
                eapply Permutation_in; [symmetry; exact Plv|]. simpl; auto.
        * lia.
        * intros ->. destruct (E2 eq_refl) as (E & _). discriminate.
      + (* empty tree: the first leaf becomes the root, no row is consumed *)
        subst rt. unfold AabbTree.insert_leaf.
        unfold modify, get. rewrite Hnj. cbn [bind].
        unfold upd. destruct (Nat.ltb_spec j (length ns)); [|lia]. cbn [bind].
        set (ns1 := set_nth ns j (set_typ nj TLeaf)).
        assert (N1 : forall i, i <> j -> nth_error ns1 i = nth_error ns i)
          by (intros; apply nth_error_set_nth_neq; auto).
        assert (L1 : length ns1 = length ns) by apply length_set_nth.
        assert (Hpost : loop_post ns1 ab (Some (L j)) pend (insert_loop pend (Some j) ns1 ab fl)).
        { apply IH.
          - simpl. repeat split; auto.
            + exists (set_typ nj TLeaf). split; [apply nth_error_set_nth_eq; auto|]. simpl; auto.
            + exists lb; auto.
          - lia.
          - simpl. simpl in HP. auto.
          - simpl in Hfl. lia.
          - intros i Hi. rewrite N1. { apply Hrows; simpl; auto. }
            intros ->. inversion HNp; auto. }
        destruct (insert_loop pend (Some j) ns1 ab fl) as [[[[rt2 ns2] ab2] fl2]|e]; [|exact Hpost].
        destruct Hpost as (ot2 & HO2 & L2 & LA2 & P2 & PL2 & A2 & F2 & E2).
        exists ot2. split; [auto|]. split; [lia|]. split; [lia|]. split; [auto|]. split; [|split; [|split]].
        * rewrite PL2. simpl. rewrite <- app_assoc. reflexivity.
        * intros i Hi. apply A2. simpl in Hi. rewrite app_nil_r in Hi.
          apply in_app_iff. simpl. destruct Hi as [->|Hi]; auto.
        * lia.
        * intros ->. destruct (E2 eq_refl) as (E & _). discriminate.
  Qed.

  (** ** the Python object and what has been inserted so far *)
  Definition entry := (nat * box * option D)%type.
  Definition eidx (e : entry) : nat := fst (fst e).

  Definition WF (t : tree) (asg : list entry) : Prop :=
    exists ot,
      ORep (nodes _ _ t) (aabbs _ _ t) ot (root _ _ t) /\
      length (nodes _ _ t) = filled _ _ t /\ length (aabbs _ _ t) = filled _ _ t /\
      length (ext _ _ t) = filled _ _ t /\
      Permutation (oixs ot) (seq 0 (filled _ _ t)) /\
      Permutation (oleaves ot) (map eidx asg) /\
      (forall i b d, In (i, b, d) asg ->
                     nth_error (aabbs _ _ t) i = Some b /\ nth_error (ext _ _ t) i = Some d).

  Lemma WF_empty : WF (empty_tree C D) [].
  Proof. exists None. simpl. repeat split; auto; try tauto. Qed.

  (** rows a batch assigns to its boxes: [filled .. filled + n) in argument order *)
  Fixpoint assign (k : nat) (bs : list box) (d : option (list (option D))) : list entry :=
    match bs with
    | [] => []
    | b :: bs' =>
      match d with
      | None => (k, b, None) :: assign (S k) bs' None
      | Some [] => (k, b, None) :: assign (S k) bs' (Some [])
      | Some (x :: d') => (k, b, x) :: assign (S k) bs' (Some d')
      end
    end.

  Lemma assign_idx k bs d : map eidx (assign k bs d) = seq k (length bs).
  Proof.
    revert k d; induction bs as [|b bs IH]; intros k d; simpl; auto.
    destruct d as [[|x d]|]; simpl; rewrite IH; auto.
  Qed.

  Lemma assign_lookup k bs d i b x :
    In (i, b, x) (assign k bs d) ->
    (match d with Some dl => length dl = length bs | None => True end) ->
    k <= i < k + length bs /\ nth_error bs (i - k) = Some b /\
    match d with Some dl => nth_error dl (i - k) = Some x | None => x = None end.
  Proof.
    revert k d; induction bs as [|b0 bs IH]; intros k d; simpl; [tauto|].
    destruct d as [[|x0 d]|]; simpl; intros [H|H] Hl; try discriminate.
    - inversion H; subst. rewrite Nat.sub_diag. simpl. repeat split; auto; lia.
    - apply IH in H; [|simpl; lia]. destruct H as (H1 & H2 & H3).
      replace (i - k) with (S (i - S k)) by lia. simpl. repeat split; auto; lia.
    - inversion H; subst. rewrite Nat.sub_diag. simpl. repeat split; auto; lia.
    - apply IH in H; [|simpl; auto]. destruct H as (H1 & H2 & H3).
      replace (i - k) with (S (i - S k)) by lia. simpl. repeat split; auto; lia.
  Qed.

  Definition batch_post (t : tree) (asg : list entry) (bs : list box)
             (d : option (list (option D))) (r : res tree) : Prop :=
    match r with
    | Err e => e = EAssert
    | Ok t' => WF t' (asg ++ assign (filled _ _ t) bs d)
    end.

  Lemma insert_batch_spec t asg bs d order :
    WF t asg -> Permutation order (seq (filled _ _ t) (length bs)) ->
    batch_post t asg bs d (insert_batch t bs d order).
  Proof.
    intros (ot & HO & Ln & La & Le & Pix & Plv & Hlook) Hord.
    unfold AabbTree.insert_batch.
    destruct (Nat.eqb_spec (length bs) 0) as [E0|E0].
    { simpl. destruct bs; [|discriminate]. simpl. rewrite app_nil_r.
      exact (ex_intro _ ot (conj HO (conj Ln (conj La (conj Le (conj Pix (conj Plv Hlook))))))). }
    destruct (negb _) eqn:Edata; [reflexivity|].
    apply negb_false_iff in Edata.
    assert (Hd : match d with Some dl => length dl = length bs | None => True end).
    { destruct d; auto. apply Nat.eqb_eq; auto. }
    set (n := length bs) in *. set (F := filled _ _ t) in *.
    rewrite Ln. replace (F + n - F) with n by lia.
    set (ns := nodes _ _ t ++ repeat node_none (2 * n)).
    assert (Lns : length ns = F + 2 * n).
    { unfold ns. rewrite app_length, repeat_length. lia. }
    set (ab0 := aabbs _ _ t ++ bs).
    assert (Lab0 : length ab0 = F + n) by (unfold ab0; rewrite app_length; lia).
    set (ab := ab0 ++ repeat (box_zero C czero) (length ns - length ab0)).
    assert (Lab : length ab = length ns).
    { unfold ab. rewrite app_length, repeat_length. lia. }
    set (ex0 := match d with Some d0 => ext _ _ t ++ d0 | None => ext _ _ t end).
    assert (Lex0 : length ex0 <= F + n).
    { unfold ex0. destruct d; [rewrite app_length|]; lia. }
    set (ex := ex0 ++ repeat None (length ns - length ex0)).
    assert (Lex : length ex = length ns).
    { unfold ex. rewrite app_length, repeat_length. lia. }
    assert (Nold : forall i, i < F -> nth_error ns i = nth_error (nodes _ _ t) i).
    { intros i Hi. unfold ns. apply nth_error_app1. lia. }
    assert (Aold : forall i, i < F -> nth_error ab i = nth_error (aabbs _ _ t) i).
    { intros i Hi. unfold ab, ab0. rewrite nth_error_app1 by (rewrite app_length; lia).
      apply nth_error_app1. lia. }
    assert (Hin_lt : forall i, In i (oixs ot) -> i < F).
    { intros i Hi. eapply Permutation_in in Hi; [|exact Pix]. apply in_seq in Hi. lia. }
    assert (HO' : ORep ns ab ot (root _ _ t)).
    { destruct ot as [t0|]; simpl in *; auto.
      destruct HO as (Hr & HR & HB). repeat split; auto.
      - apply (RepS_frame (nodes _ _ t)); auto.
      - apply (BoxOK_frame _ _ _ (aabbs _ _ t)); auto. }
    pose proof (insert_loop_spec order (root _ _ t) ns ab (F + n) ot HO' Lab) as Hloop.
    assert (Hlo : length order = n).
    { rewrite (Permutation_length Hord). apply seq_length. }
    specialize (Hloop ltac:(rewrite Hord, Pix, <- seq_app; reflexivity) ltac:(lia)).
    assert (Hrows : forall j, In j order -> exists nj, nth_error ns j = Some nj /\ par nj = None).
    { intros j Hj. eapply Permutation_in in Hj; [|exact Hord]. apply in_seq in Hj.
      exists node_none. split; auto. unfold ns. rewrite nth_error_app2 by lia.
      apply nth_error_repeat. lia. }
    specialize (Hloop Hrows).
    destruct (insert_loop order (root _ _ t) ns ab (F + n)) as [[[[rt' ns'] ab'] fl']|e]; [|exact Hloop].
    destruct Hloop as (ot' & HO2 & L2 & LA2 & P2 & PL2 & A2 & F2 & E2).
    cbn [bind batch_post].
    assert (Hin_lt' : forall i, In i (oixs ot') -> i < fl').
    { intros i Hi. eapply Permutation_in in Hi; [|exact P2]. apply in_seq in Hi. lia. }
    assert (Hleaf_lt : forall i, In i (oleaves ot') -> i < fl').
    { intros i Hi. apply Hin_lt'. destruct ot'; simpl in *; [apply leaves_in_ixs; auto|tauto]. }
    exists ot'. simpl.
    split; [|split; [|split; [|split; [|split; [|split]]]]].
    - destruct ot' as [t1|]; simpl in *; auto.
      destruct HO2 as (Hr & HR & HB). repeat split; auto.
      + apply (RepS_frame ns'); auto. intros i Hi. apply nth_error_firstn; auto.
      + apply (BoxOK_frame _ _ _ ab'); auto. intros i Hi. apply nth_error_firstn; auto.
    - rewrite firstn_length. lia.
    - rewrite firstn_length. lia.
    - rewrite firstn_length. lia.
    - auto.
    - rewrite PL2, map_app, assign_idx, Plv.
      rewrite Permutation_app_comm. apply Permutation_app_head.
      rewrite <- Permutation_rev. exact Hord.
    - intros i b x Hin.
      assert (Hleaf : In i (oleaves ot')).
      { eapply Permutation_in; [symmetry; exact PL2|]. apply in_app_iff.
        apply in_app_iff in Hin as [Hin|Hin].
        - right. eapply Permutation_in; [symmetry; exact Plv|].
          apply in_map_iff. exists (i, b, x); auto.
        - left. apply in_rev. rewrite rev_involutive.
          eapply Permutation_in; [symmetry; exact Hord|].
          unfold n. rewrite <- (assign_idx F bs d). apply in_map_iff. exists (i, b, x); auto. }
      pose proof (Hleaf_lt i Hleaf) as Hi.
      rewrite !nth_error_firstn by auto.
      assert (Hab' : nth_error ab' i = nth_error ab i).
      { apply A2. apply in_app_iff.
        eapply Permutation_in in Hleaf; [|exact PL2]. apply in_app_iff in Hleaf as [H|H]; auto.
        left. apply in_rev in H. auto. }
      rewrite Hab'.
      apply in_app_iff in Hin as [Hin|Hin].
      + destruct (Hlook i b x Hin) as (H1 & H2).
        assert (HiF : i < F).
        { apply Hin_lt. assert (In i (oleaves ot)).
          { eapply Permutation_in; [symmetry; exact Plv|]. apply in_map_iff. exists (i, b, x); auto. }
          destruct ot; simpl in *; [apply leaves_in_ixs; auto|tauto]. }
        rewrite Aold by auto. split; auto.
        unfold ex. rewrite nth_error_app1.
        * unfold ex0. destruct d; auto. rewrite nth_error_app1 by lia. auto.
        * unfold ex0. destruct d; [rewrite app_length|]; lia.
      + apply assign_lookup in Hin; auto. destruct Hin as (H1 & H2 & H3). fold F in H1, H2, H3.
        split.
        * unfold ab, ab0. rewrite nth_error_app1 by (rewrite app_length; lia).
          rewrite nth_error_app2 by lia. rewrite La. auto.
        * unfold ex, ex0. destruct d as [dl|].
          -- rewrite nth_error_app1 by (rewrite app_length; lia).
             rewrite nth_error_app2 by lia. rewrite Le. auto.
          -- subst x. rewrite nth_error_app2 by lia. apply nth_error_repeat. lia.
  Qed.
End Batch.

(** ** histories and the end-to-end statements *)
Lemma filter_map_comm {A B} (f : A -> B) (p : B -> bool) (l : list A) :
  filter p (map f l) = map f (filter (fun x => p (f x)) l).
Proof. induction l as [|a l IH]; simpl; auto. destruct (p (f a)); simpl; rewrite IH; auto. Qed.

Lemma NoDup_map_filter {A B} (f : A -> B) (p : A -> bool) (l : list A) :
  NoDup (map f l) -> NoDup (map f (filter p l)).
Proof.
  induction l as [|a l IH]; simpl; auto. intros H. inversion H as [|? ? Hn Hd]; subst.
  destruct (p a); simpl; auto. constructor; auto.
  intros Hin. apply Hn. apply in_map_iff in Hin as (x & Hx & Hf). apply filter_In in Hf as (Hf & _).
  apply in_map_iff. eauto.
Qed.

Section History.
  Variable C : Type.
  Variable le : C -> C -> bool.
  Variables cmin cmax : C -> C -> C.
  Variable czero : C.
  Variable go_left : box C -> box C -> box C -> bool.
  Variable cost_ok : box C -> box C -> box C -> box C -> bool.
  Variable D : Type.
  Notation box := (box C).
  Notation tree := (tree C D).
  Notation batch := (batch C D).
  Notation entry := (entry C D).
  Notation overlap := (overlap C le).
  Notation insert_batch := (insert_batch C cmin cmax czero go_left cost_ok D).
  Notation run := (run C cmin cmax czero go_left cost_ok D).
  Notation WF := (WF C cmin cmax D).
  Notation assign := (assign C D).
  Notation eidx := (eidx C D).

  Hypothesis le_trans : forall a b c, le a b = true -> le b c = true -> le a c = true.
  Hypothesis cmin_l : forall a b, le (cmin a b) a = true.
  Hypothesis cmin_r : forall a b, le (cmin a b) b = true.
  Hypothesis cmax_l : forall a b, le a (cmax a b) = true.
  Hypothesis cmax_r : forall a b, le b (cmax a b) = true.

  Definition ebox (e : entry) : box := snd (fst e).
  Definition payload (e : entry) : box * option D := (snd (fst e), snd e).

  Fixpoint run_asg (t : tree) (asg : list entry) (h : list batch) : res (tree * list entry) :=
    match h with
    | [] => Ok (t, asg)
    | (bs, d, o) :: h' =>
      t' <- insert_batch t bs d o ;;
      run_asg t' (asg ++ assign (filled _ _ t) bs d) h'
    end.

  (** every batch's insertion order is a permutation of the rows it adds *)
  Fixpoint orders_ok (t : tree) (h : list batch) : Prop :=
    match h with
    | [] => True
    | (bs, d, o) :: h' =>
      Permutation o (seq (filled _ _ t) (length bs)) /\
      match insert_batch t bs d o with Ok t' => orders_ok t' h' | Err _ => True end
    end.

  Lemma run_asg_spec h : forall t asg,
    WF t asg -> orders_ok t h ->
    match run_asg t asg h with Err e => e = EAssert | Ok (t', asg') => WF t' asg' end.
  Proof.
    induction h as [|[[bs d] o] h IH]; intros t asg HW HO; simpl; auto.
    destruct HO as (HP & HO).
    pose proof (insert_batch_spec C le cmin cmax czero go_left cost_ok D t asg bs d o HW HP) as Hb.
    destruct (insert_batch t bs d o) as [t'|e]; simpl in *; auto.
    apply IH; auto.
  Qed.

  Lemma run_run_asg h : forall t asg,
    run t h = match run_asg t asg h with Ok (t', _) => Ok t' | Err e => Err e end.
  Proof.
    induction h as [|[[bs d] o] h IH]; intros t asg; simpl; auto.
    destruct (insert_batch t bs d o) as [t'|e]; simpl; auto.
  Qed.

  (** the (box, datum) pairs handed to the tree, in call order *)
  Definition inserted (h : list batch) : list (box * option D) :=
    flat_map (fun b : batch => map payload (assign 0 (fst (fst b)) (snd (fst b)))) h.

  Lemma assign_payload bs : forall k k' d, map payload (assign k bs d) = map payload (assign k' bs d).
  Proof.
    induction bs as [|b bs IH]; intros k k' d; simpl; auto.
    destruct d as [[|x d]|]; simpl; f_equal; auto.
  Qed.

  Lemma run_asg_inserted h : forall t asg t' asg',
    run_asg t asg h = Ok (t', asg') -> map payload asg' = map payload asg ++ inserted h.
  Proof.
    induction h as [|[[bs d] o] h IH]; intros t asg t' asg'; simpl.
    - intros H; inversion H; subst. rewrite app_nil_r; auto.
    - destruct (insert_batch t bs d o) as [t1|e]; simpl; [|discriminate].
      intros H. apply IH in H. rewrite H, map_app, <- app_assoc.
      rewrite (assign_payload bs (filled _ _ t) 0). reflexivity.
  Qed.

  Lemma WF_NoDup t asg : WF t asg -> NoDup (map eidx asg).
  Proof.
    intros (ot & _ & _ & _ & _ & Pix & Plv & _).
    eapply Permutation_NoDup; [exact Plv|].
    assert (NoDup (oixs ot)) by (eapply Permutation_NoDup; [symmetry; exact Pix|apply seq_NoDup]).
    destruct ot; simpl in *; [apply NoDup_leaves; auto|constructor].
  Qed.

  (** *** box query *)
  Lemma overlaps_aabb_WF t asg q :
    WF t asg ->
    exists l, overlaps_aabb C le D t q = Ok l /\ NoDup l /\
              Permutation l (map eidx (filter (fun e => overlap (ebox e) q) asg)).
  Proof.
    intros HW. pose proof (WF_NoDup _ _ HW) as HND.
    destruct HW as (ot & HO & Ln & La & Le & Pix & Plv & Hlook).
    unfold overlaps_aabb. destruct ot as [t0|]; simpl in HO.
    - destruct HO as (Hr & HR & HB). rewrite Hr.
      assert (HN : NoDup (ixs t0)) by (eapply Permutation_NoDup; [symmetry; exact Pix|apply seq_NoDup]).
      rewrite (query_overlap_spec C le cmin cmax q _ _ None t0 false HR HB HN).
      eexists; split; [reflexivity|].
      assert (HNq : NoDup (qspec C le q (aabbs _ _ t) t0)) by (apply qspec_NoDup, NoDup_leaves; auto).
      split; auto.
      apply NoDup_Permutation; auto.
      { apply NoDup_map_filter; auto. }
      intros i; split.
      + intros Hi. apply qspec_sound in Hi as (Hl & b & Hb & Ho).
        eapply Permutation_in in Hl; [|exact Plv]. apply in_map_iff in Hl as (e & He & Hin).
        apply in_map_iff. exists e. split; auto. apply filter_In. split; auto.
        destruct e as [[i' b'] d']. unfold AabbTreeProofs.eidx in He. simpl in He. subst i'.
        destruct (Hlook _ _ _ Hin) as (H1 & _). unfold ebox; simpl. congruence.
      + intros Hi. apply in_map_iff in Hi as (e & He & Hf). apply filter_In in Hf as (Hin & Ho).
        destruct e as [[i' b'] d']. unfold AabbTreeProofs.eidx in He. simpl in He. subst i'.
        destruct (Hlook _ _ _ Hin) as (H1 & _). unfold ebox in Ho; simpl in Ho.
        eapply (qspec_complete C le cmin cmax); eauto.
        eapply Permutation_in; [symmetry; exact Plv|]. apply in_map_iff. exists (i, b', d'); auto.
    - rewrite HO. exists []. split; auto. split; [constructor|].
      simpl in Plv. apply Permutation_nil in Plv. destruct asg; [simpl; auto|discriminate].
  Qed.

  (** *** tree against tree *)
  Lemma overlaps_aabb_tree_WF t1 asg1 t2 asg2 :
    WF t1 asg1 -> WF t2 asg2 ->
    exists l, overlaps_aabb_tree C le D t1 t2 = Ok l /\ NoDup l /\
              forall i j, In (i, j) l <->
                          exists e1 e2, In e1 asg1 /\ In e2 asg2 /\ eidx e1 = i /\ eidx e2 = j /\
                                        overlap (ebox e1) (ebox e2) = true.
  Proof.
    intros (ot1 & HO1 & Ln1 & La1 & Le1 & Pix1 & Plv1 & Hlook1)
           (ot2 & HO2 & Ln2 & La2 & Le2 & Pix2 & Plv2 & Hlook2).
    unfold overlaps_aabb_tree.
    destruct ot1 as [a|]; simpl in HO1.
    2:{ rewrite HO1. exists []. split; auto. split; [constructor|].
        intros i j; split; [simpl; tauto|]. intros (e1 & e2 & H1 & _).
        simpl in Plv1. apply Permutation_nil in Plv1. destruct asg1; [inversion H1|discriminate]. }
    destruct HO1 as (Hr1 & HR1 & HB1). rewrite Hr1.
    destruct ot2 as [b|]; simpl in HO2.
    2:{ rewrite HO2. exists []. split; auto. split; [constructor|].
        intros i j; split; [simpl; tauto|]. intros (e1 & e2 & _ & H2 & _).
        simpl in Plv2. apply Permutation_nil in Plv2. destruct asg2; [inversion H2|discriminate]. }
    destruct HO2 as (Hr2 & HR2 & HB2). rewrite Hr2.
    assert (HN1 : NoDup (ixs a)) by (eapply Permutation_NoDup; [symmetry; exact Pix1|apply seq_NoDup]).
    assert (HN2 : NoDup (ixs b)) by (eapply Permutation_NoDup; [symmetry; exact Pix2|apply seq_NoDup]).
    unfold query_tree. rewrite Hr1, Hr2.
    change [Some (idx b)] with (map (fun t => Some (idx t)) [b]).
    rewrite (tloop_spec C le cmin cmax _ _ _ None a _ _ HR1 HB1 HN1).
    2:{ constructor; auto. exists None; auto. }
    2:{ unfold query_fuel, sizes; simpl. pose proof (size_le_length _ _ _ HR2 HN2). lia. }
    simpl. rewrite app_nil_r. eexists; split; [reflexivity|].
    split; [apply tspec_NoDup; apply NoDup_leaves; auto|].
    intros i j; split.
    - intros H. apply tspec_sound in H as (Hi & Hj & b1 & b2 & H1 & H2 & Ho).
      eapply Permutation_in in Hi; [|exact Plv1]. apply in_map_iff in Hi as (e1 & He1 & Hin1).
      eapply Permutation_in in Hj; [|exact Plv2]. apply in_map_iff in Hj as (e2 & He2 & Hin2).
      exists e1, e2. repeat split; auto.
      destruct e1 as [[i1 bb1] d1], e2 as [[i2 bb2] d2].
      unfold AabbTreeProofs.eidx in *; simpl in *. subst.
      destruct (Hlook1 _ _ _ Hin1) as (Q1 & _). destruct (Hlook2 _ _ _ Hin2) as (Q2 & _).
      unfold ebox; simpl. congruence.
    - intros (e1 & e2 & Hin1 & Hin2 & He1 & He2 & Ho).
      destruct e1 as [[i1 bb1] d1], e2 as [[i2 bb2] d2].
      unfold AabbTreeProofs.eidx in *; simpl in *. subst.
      destruct (Hlook1 _ _ _ Hin1) as (Q1 & _). destruct (Hlook2 _ _ _ Hin2) as (Q2 & _).
      unfold ebox in Ho; simpl in Ho.
      eapply (tspec_complete C le cmin cmax); eauto.
      + eapply Permutation_in; [symmetry; exact Plv1|]. apply in_map_iff. exists (i, bb1, d1); auto.
      + eapply Permutation_in; [symmetry; exact Plv2|]. apply in_map_iff. exists (j, bb2, d2); auto.
  Qed.

  (** *** end-to-end: any history from the empty tree *)
  Theorem history_wf h t :
    orders_ok (empty_tree C D) h -> run (empty_tree C D) h = Ok t ->
    exists asg, WF t asg /\ map payload asg = inserted h.
  Proof.
    intros HO Hrun. rewrite (run_run_asg h _ []) in Hrun.
    pose proof (run_asg_spec h _ [] (WF_empty C le cmin cmax czero go_left cost_ok D) HO) as Hs.
    destruct (run_asg (empty_tree C D) [] h) as [[t' asg]|e] eqn:E; [|discriminate].
    inversion Hrun; subst. exists asg. split; auto.
    apply run_asg_inserted in E. simpl in E. auto.
  Qed.

  Theorem history_no_index_error h e :
    orders_ok (empty_tree C D) h -> run (empty_tree C D) h = Err e -> e = EAssert.
  Proof.
    intros HO Hrun. rewrite (run_run_asg h _ []) in Hrun.
    pose proof (run_asg_spec h _ [] (WF_empty C le cmin cmax czero go_left cost_ok D) HO) as Hs.
    destruct (run_asg (empty_tree C D) [] h) as [[t' asg]|e']; [discriminate|].
    inversion Hrun; subst; auto.
  Qed.

  (** the multiset of (box, datum) pairs reported = the multiset of inserted pairs
      whose box overlaps the query box (closed intervals) *)
  Theorem history_query_exact h t q :
    orders_ok (empty_tree C D) h -> run (empty_tree C D) h = Ok t ->
    exists l, overlaps_aabb C le D t q = Ok l /\ NoDup l /\
      Permutation
        (map (fun i => (nth_error (aabbs _ _ t) i, nth_error (ext _ _ t) i)) l)
        (map (fun p => (Some (fst p), Some (snd p)))
             (filter (fun p => overlap (fst p) q) (inserted h))).
  Proof.
    intros HO Hrun. destruct (history_wf h t HO Hrun) as (asg & HW & Hins).
    destruct (overlaps_aabb_WF t asg q HW) as (l & Hl & HN & HP).
    exists l. split; auto. split; auto.
    rewrite <- Hins, filter_map_comm, map_map.
    rewrite (Permutation_map _ HP), map_map.
    destruct HW as (ot & _ & _ & _ & _ & _ & _ & Hlook).
    apply Permutation_refl'. apply map_ext_in.
    intros [[i b] d] Hin. apply filter_In in Hin as (Hin & _).
    destruct (Hlook _ _ _ Hin) as (H1 & H2). unfold AabbTreeProofs.eidx, payload; simpl.
    rewrite H1, H2. reflexivity.
  Qed.

  Theorem history_tree_query_exact h1 t1 h2 t2 :
    orders_ok (empty_tree C D) h1 -> run (empty_tree C D) h1 = Ok t1 ->
    orders_ok (empty_tree C D) h2 -> run (empty_tree C D) h2 = Ok t2 ->
    exists asg1 asg2 l,
      map payload asg1 = inserted h1 /\ map payload asg2 = inserted h2 /\
      NoDup (map eidx asg1) /\ NoDup (map eidx asg2) /\
      (forall i b d, In (i, b, d) asg1 ->
         nth_error (aabbs _ _ t1) i = Some b /\ nth_error (ext _ _ t1) i = Some d) /\
      (forall i b d, In (i, b, d) asg2 ->
         nth_error (aabbs _ _ t2) i = Some b /\ nth_error (ext _ _ t2) i = Some d) /\
      overlaps_aabb_tree C le D t1 t2 = Ok l /\ NoDup l /\
      forall i j, In (i, j) l <->
                  exists e1 e2, In e1 asg1 /\ In e2 asg2 /\ eidx e1 = i /\ eidx e2 = j /\
                                overlap (ebox e1) (ebox e2) = true.
  Proof.
    intros HO1 Hr1 HO2 Hr2.
    destruct (history_wf h1 t1 HO1 Hr1) as (asg1 & HW1 & Hi1).
    destruct (history_wf h2 t2 HO2 Hr2) as (asg2 & HW2 & Hi2).
    destruct (overlaps_aabb_tree_WF t1 asg1 t2 asg2 HW1 HW2) as (l & Hl & HN & Hiff).
    exists asg1, asg2, l. split; auto. split; auto.
    split; [eapply WF_NoDup; eauto|]. split; [eapply WF_NoDup; eauto|].
    destruct HW1 as (? & _ & _ & _ & _ & _ & _ & Hlook1).
    destruct HW2 as (? & _ & _ & _ & _ & _ & _ & Hlook2).
    split; [exact Hlook1|]. split; [exact Hlook2|]. split; [exact Hl|]. split; [exact HN|]. exact Hiff.
  Qed.
End History.
