(** * The midpoint cache of make_triangular_icosphere (C17): Cantor pairing is injective on
    unordered pairs of non-negative ids, so two different edges never share a cache key;
    association-list facts for the cache; one call of [add_mid_point] preserves the cache
    invariant [J]. *)
From Coq Require Import List ZArith Lia Bool.
From D3 Require Import Model.TetSym Gen.TetTables Model.TetMesh.
Import ListNotations.
Local Open Scope Z_scope.

Definition edge : Type := (Z * Z)%type.
Definition okey (a b : Z) : edge := (Z.min a b, Z.max a b).
Definition ekey (e : edge) : Z := cantor_key (fst e) (snd e).

Definition tri_num (s : Z) : Z := s * (s + 1) / 2.

Lemma tri_num_succ s : tri_num (s + 1) = tri_num s + s + 1.
Proof.
  unfold tri_num. replace ((s + 1) * (s + 1 + 1)) with (s * (s + 1) + (s + 1) * 2) by ring.
  rewrite Z.div_add by lia. ring.
Qed.
Lemma tri_num_mono s s' : 0 <= s <= s' -> tri_num s <= tri_num s'.
Proof. intros. unfold tri_num. apply Z.div_le_mono; nia. Qed.

(** the cache key determines the unordered pair *)
Theorem cantor_key_inj a b c d :
  0 <= a -> 0 <= b -> 0 <= c -> 0 <= d ->
  cantor_key a b = cantor_key c d -> okey a b = okey c d.
Proof.
  intros Ha Hb Hc Hd H. unfold cantor_key in H. fold (tri_num (a + b)) in H. fold (tri_num (c + d)) in H.
  assert (Hs : a + b = c + d).
  { destruct (Z.lt_trichotomy (a + b) (c + d)) as [L|[E|L]]; [exfalso|exact E|exfalso].
    - pose proof (tri_num_mono (a + b + 1) (c + d) ltac:(lia)) as M. rewrite tri_num_succ in M. lia.
    - pose proof (tri_num_mono (c + d + 1) (a + b) ltac:(lia)) as M. rewrite tri_num_succ in M. lia. }
  rewrite Hs in H. unfold okey. f_equal; lia.
Qed.

Lemma cantor_okey a b : cantor_key a b = ekey (okey a b).
Proof.
  unfold ekey, okey, cantor_key. cbn [fst snd].
  replace (Z.min a b + Z.max a b) with (a + b) by lia.
  replace (Z.min (Z.min a b) (Z.max a b)) with (Z.min a b) by lia. reflexivity.
Qed.

Lemma okey_cases a b c d : okey a b = okey c d -> (a = c /\ b = d) \/ (a = d /\ b = c).
Proof. unfold okey. intros H. inversion H. lia. Qed.
Lemma okey_sym a b : okey a b = okey b a.
Proof. unfold okey. f_equal; lia. Qed.

Lemma ekey_inj e e' :
  0 <= fst e < snd e -> 0 <= fst e' < snd e' -> ekey e = ekey e' -> e = e'.
Proof.
  destruct e as [x y], e' as [x' y']. cbn [fst snd]. unfold ekey; cbn [fst snd]. intros H1 H2 H.
  apply cantor_key_inj in H; try lia. unfold okey in H. inversion H. f_equal; lia.
Qed.

(** ** association lists *)
Lemma cache_get_in c k i : NoDup (map fst c) -> (cache_get k c = Some i <-> In (k, i) c).
Proof.
  induction c as [|[k' i'] r IH]; cbn; intros N.
  - split; [discriminate|tauto].
  - inversion N as [|? ? N1 N2]; subst. destruct (k' =? k) eqn:E.
    + apply Z.eqb_eq in E; subst k'. split.
      * intros H; inversion H; subst. left; reflexivity.
      * intros [H|H]; [inversion H; reflexivity|]. exfalso. apply N1. apply in_map_iff. exists (k, i). split; auto.
    + apply Z.eqb_neq in E. rewrite (IH N2). split; [tauto|]. intros [H|H]; [inversion H; lia|assumption].
Qed.

Lemma cache_get_none c k : cache_get k c = None <-> ~ In k (map fst c).
Proof.
  induction c as [|[k' i'] r IH]; cbn.
  - tauto.
  - destruct (k' =? k) eqn:E.
    + apply Z.eqb_eq in E. split; [discriminate|]. intros H. exfalso. apply H. left; assumption.
    + apply Z.eqb_neq in E. rewrite IH. tauto.
Qed.

Lemma cache_del_in c k k' i' :
  NoDup (map fst c) -> (In (k', i') (cache_del k c) <-> In (k', i') c /\ k' <> k).
Proof.
  induction c as [|[k0 i0] r IH]; cbn; intros N.
  - tauto.
  - inversion N as [|? ? N1 N2]; subst. destruct (k0 =? k) eqn:E.
    + apply Z.eqb_eq in E; subst k0. split.
      * intros H. split; [right; assumption|]. intros ->. apply N1. apply in_map_iff. exists (k, i'). split; auto.
      * intros [[H|H] Hn]; [inversion H; lia|assumption].
    + apply Z.eqb_neq in E. cbn. rewrite (IH N2). split.
      * intros [H|[H Hn]]; [inversion H; subst; split; [left; reflexivity|lia]|split; [right; assumption|assumption]].
      * intros [[H|H] Hn]; [left; assumption|right; split; assumption].
Qed.

Lemma cache_del_keys c k : NoDup (map fst c) -> NoDup (map fst (cache_del k c)).
Proof.
  induction c as [|[k0 i0] r IH]; cbn; intros N; [constructor|].
  inversion N as [|? ? N1 N2]; subst. destruct (k0 =? k); [assumption|]. cbn. constructor; [|auto].
  intros H. apply in_map_iff in H as [[k1 i1] [E H]]. cbn in E; subst k1.
  apply (cache_del_in r k k0 i1 N2) in H as [H _]. apply N1. apply in_map_iff. exists (k0, i1). split; auto.
Qed.

Lemma cache_del_length c k :
  In k (map fst c) -> (length (cache_del k c) + 1 = length c)%nat.
Proof.
  induction c as [|[k0 i0] r IH]; cbn; [tauto|]. destruct (k0 =? k) eqn:E; [lia|].
  apply Z.eqb_neq in E. intros [H|H]; [lia|]. cbn. rewrite <- (IH H). lia.
Qed.

(** ** the cache invariant *)
Definition seen_t : Type := list (edge * Z).

(** exactly one orientation of the (normalised) edge has been processed *)
Definition open_in (D : list edge) (e : edge) : Prop :=
  (In (fst e, snd e) D /\ ~ In (snd e, fst e) D) \/ (~ In (fst e, snd e) D /\ In (snd e, fst e) D).

Record J (n0 : Z) (D : list edge) (seen : seen_t) (st : ico_state) : Prop := {
  J_keys : NoDup (map fst seen);
  J_ids : NoDup (map snd seen);
  J_rng : forall e i, In (e, i) seen -> n0 <= i < ic_next st;
  J_norm : forall e i, In (e, i) seen -> 0 <= fst e < snd e;
  J_dom : forall e, In e (map fst seen) <-> exists a b, In (a, b) D /\ okey a b = e;
  J_ckeys : NoDup (map fst (ic_cache st));
  J_cache : forall k i, In (k, i) (ic_cache st) <-> exists e, k = ekey e /\ In (e, i) seen /\ open_in D e;
  J_cnt : (length D + length (ic_cache st) = 2 * length seen)%nat;
  J_next : ic_next st = n0 + Z.of_nat (length seen) }.

Lemma J_init n0 created : J n0 [] [] (IcoState [] n0 created).
Proof.
  constructor; cbn; try constructor; try tauto; try lia.
  - intros [a [b [H _]]]. exact H.
  - intros [e [_ [H _]]]. exact H.
Qed.

Lemma okey_norm a b : a <> b -> 0 <= a -> 0 <= b -> 0 <= fst (okey a b) < snd (okey a b).
Proof. unfold okey; cbn. lia. Qed.

Lemma okey_of_norm e : fst e < snd e -> okey (fst e) (snd e) = e /\ okey (snd e) (fst e) = e.
Proof. destruct e as [x y]; unfold okey; cbn. intros. split; f_equal; lia. Qed.

Lemma open_in_app D a b e :
  fst e < snd e -> e <> okey a b -> (open_in (D ++ [(a, b)]) e <-> open_in D e).
Proof.
  intros Hn Hne. destruct (okey_of_norm e Hn) as [K1 K2].
  assert (N1 : (fst e, snd e) <> (a, b)) by (intros E; inversion E; subst; apply Hne; symmetry; exact K1).
  assert (N2 : (snd e, fst e) <> (a, b)) by (intros E; inversion E; subst; apply Hne; symmetry; exact K2).
  unfold open_in. rewrite !in_app_iff. cbn. intuition congruence.
Qed.

Lemma seen_fun (seen : seen_t) e i i' :
  NoDup (map fst seen) -> In (e, i) seen -> In (e, i') seen -> i = i'.
Proof.
  induction seen as [|[e0 i0] r IH]; cbn; intros N H H'; [tauto|].
  inversion N as [|? ? N1 N2]; subst.
  destruct H as [H|H], H' as [H'|H'].
  - congruence.
  - inversion H; subst. exfalso. apply N1. apply in_map_iff. exists (e, i'). split; auto.
  - inversion H'; subst. exfalso. apply N1. apply in_map_iff. exists (e, i). split; auto.
  - eauto.
Qed.

Lemma NoDup_snoc {A} (l : list A) x : NoDup l -> ~ In x l -> NoDup (l ++ [x]).
Proof.
  induction l as [|y l IH]; cbn; intros N H; [repeat constructor; tauto|].
  inversion N as [|? ? N1 N2]; subst. constructor.
  - rewrite in_app_iff. cbn. intros [H1|[H1|[]]]; [tauto|subst; tauto].
  - apply IH; tauto.
Qed.

Lemma open_in_okey D a b :
  a <> b -> (open_in D (okey a b) <-> (In (a, b) D /\ ~ In (b, a) D) \/ (~ In (a, b) D /\ In (b, a) D)).
Proof.
  intros Hab. unfold open_in, okey; cbn [fst snd].
  destruct (Z.min_spec a b) as [[? E1]|[? E1]], (Z.max_spec a b) as [[? E2]|[? E2]];
    rewrite E1, E2; try lia; tauto.
Qed.

(** one call of add_mid_point on a directed edge not processed before *)
Lemma add_mid_point_step n0 D seen st a b :
  J n0 D seen st -> ~ In (a, b) D -> a <> b -> 0 <= a -> 0 <= b ->
  exists seen',
    J n0 (D ++ [(a, b)]) seen' (snd (add_mid_point a b st)) /\
    (forall x, In x seen -> In x seen') /\
    In (okey a b, fst (add_mid_point a b st)) seen'.
Proof.
  intros HJ Hnew Hab Ha Hb. destruct HJ as [Jk Ji Jr Jn Jd Jck Jc Jcnt Jnx].
  unfold add_mid_point. rewrite cantor_okey.
  pose proof (okey_norm a b Hab Ha Hb) as En.
  pose proof (open_in_okey D a b Hab) as OD.
  pose proof (open_in_okey (D ++ [(a, b)]) a b Hab) as OD'.
  remember (okey a b) as e eqn:Ee.
  destruct (cache_get (ekey e) (ic_cache st)) as [i|] eqn:G; cbn [fst snd].
  - (* hit: the reverse edge was processed before *)
    apply (cache_get_in _ _ _ Jck) in G. pose proof G as G0.
    apply Jc in G as [e' [Ek [Hs Ho]]].
    assert (Ee' : e = e') by (apply ekey_inj; [assumption | eapply Jn; eassumption | assumption]). subst e'.
    exists seen. split; [|split; [auto|assumption]].
    assert (Hrev : In (b, a) D) by (apply OD in Ho; tauto).
    assert (Hclosed : ~ open_in (D ++ [(a, b)]) e).
    { rewrite OD'. rewrite !in_app_iff. cbn. tauto. }
    constructor; cbn [ic_cache ic_next]; try assumption.
    + intros e0. rewrite Jd. split; intros [x [y [H1 H2]]].
      * exists x, y. split; [apply in_app_iff; left; assumption|assumption].
      * apply in_app_iff in H1 as [H1|[H1|[]]]; [exists x, y; split; assumption|].
        inversion H1; subst x y. exists b, a. split; [assumption|]. rewrite <- H2. apply okey_sym.
    + apply cache_del_keys. assumption.
    + intros k i'. rewrite (cache_del_in _ _ _ _ Jck), Jc. split.
      * intros [[e0 [E0 [S0 O0]]] Hk]. exists e0. split; [assumption|split; [assumption|]].
        apply open_in_app; [eapply Jn; eassumption | rewrite <- Ee; intros ->; apply Hk; assumption | assumption].
      * intros [e0 [E0 [S0 O0]]].
        assert (Hne : e0 <> e) by (intros ->; apply Hclosed; assumption).
        split.
        -- exists e0. split; [assumption|split; [assumption|]].
           apply (open_in_app D a b); [eapply Jn; eassumption|rewrite <- Ee; assumption|assumption].
        -- subst k. intros E. apply Hne. apply ekey_inj; [eapply Jn; eassumption|assumption|assumption].
    + rewrite app_length. cbn [length].
      assert (L : In (ekey e) (map fst (ic_cache st))) by (apply in_map_iff; exists (ekey e, i); split; auto).
      pose proof (cache_del_length _ _ L). lia.
  - (* miss: first orientation of this edge *)
    apply cache_get_none in G.
    assert (Hfresh : ~ In e (map fst seen)).
    { intros H. pose proof H as H0. apply Jd in H as [x [y [H1 H2]]]. rewrite Ee in H2.
      apply okey_cases in H2 as [[-> ->]|[-> ->]]; [apply Hnew; assumption|].
      apply in_map_iff in H0 as [[e0 i0] [E0 S0]]. cbn in E0; subst e0.
      apply G. apply in_map_iff. exists (ekey e, i0). split; [reflexivity|].
      apply Jc. exists e. split; [reflexivity|split; [assumption|]]. apply OD. tauto. }
    assert (Hnorev : ~ In (b, a) D).
    { intros H. apply Hfresh. apply Jd. exists b, a. split; [assumption|rewrite Ee; apply okey_sym]. }
    assert (Hopen : open_in (D ++ [(a, b)]) e).
    { apply OD'. rewrite !in_app_iff. cbn. left. split; [right; left; reflexivity|].
      intros [H|[H|[]]]; [tauto|]. inversion H; lia. }
    exists (seen ++ [(e, ic_next st)]). split; [|split].
    + constructor; cbn [ic_cache ic_next].
      * rewrite map_app. cbn. apply NoDup_snoc; assumption.
      * rewrite map_app. cbn. apply NoDup_snoc; [assumption|].
        intros Hx. apply in_map_iff in Hx as [[e0 i0] [E0 S0]]. cbn in E0. subst i0.
        specialize (Jr _ _ S0). lia.
      * intros e0 i0 H. apply in_app_iff in H as [H|[H|[]]].
        -- specialize (Jr _ _ H). lia.
        -- inversion H; subst. rewrite Jnx. lia.
      * intros e0 i0 H. apply in_app_iff in H as [H|[H|[]]]; [eapply Jn; eassumption|].
        inversion H; subst. assumption.
      * intros e0. rewrite map_app, in_app_iff, Jd. cbn. split.
        -- intros [[x [y [H1 H2]]]|[<-|[]]].
           ++ exists x, y. split; [apply in_app_iff; left; assumption|assumption].
           ++ exists a, b. split; [apply in_app_iff; right; left; reflexivity|symmetry; assumption].
        -- intros [x [y [H1 H2]]]. apply in_app_iff in H1 as [H1|[H1|[]]].
           ++ left. exists x, y. split; assumption.
           ++ inversion H1; subst x y. right. left. rewrite <- H2. assumption.
      * constructor; [|assumption]. exact G.
      * intros k i0. cbn [In]. rewrite Jc. split.
        -- intros [H|[e0 [E0 [S0 O0]]]].
           ++ inversion H; subst k i0. exists e. split; [reflexivity|split; [apply in_app_iff; right; left; reflexivity|assumption]].
           ++ exists e0. split; [assumption|split; [apply in_app_iff; left; assumption|]].
              apply open_in_app; [eapply Jn; eassumption| |assumption].
              rewrite <- Ee. intros ->. apply Hfresh. apply in_map_iff. exists (e, i0). split; auto.
        -- intros [e0 [E0 [S0 O0]]]. apply in_app_iff in S0 as [S0|[S0|[]]].
           ++ right. exists e0. split; [assumption|split; [assumption|]].
              apply (open_in_app D a b); [eapply Jn; eassumption| |assumption].
              rewrite <- Ee. intros ->. apply Hfresh. apply in_map_iff. exists (e, i0). split; auto.
           ++ inversion S0; subst e0 i0. left. subst k. reflexivity.
      * rewrite !app_length. cbn [length]. lia.
      * rewrite app_length. cbn [length]. rewrite Jnx. lia.
    + intros x Hx. apply in_app_iff. left; assumption.
    + apply in_app_iff. right. left. reflexivity.
Qed.
