(** * C12, part 2: equivariance of the MODELLED closed-form layer (Model/Support.v,
      Model/Contain.v) under a rigid motion g = (Rg, t), [is_rotation Rg].

    Moving a pose-based shape means composing its pose with g:
    [move T = compose (P Rg t) T]  (rotation Rg.R, translation Rg.c + t);  centres and
    vertices are moved by [rigid Rg t], axes and normals by [mulMV Rg].

    Statement shape:  support (g.S) (Rg d) = g (support S d)   as an EQUALITY of the model's
    outputs -- stronger than "is again a support point": it says the code's tie-breaking is
    expressed in the local frame.  Where the model breaks ties in WORLD coordinates the
    equality fails and the theorem is stated with the side condition that excludes the tie
    (sphere: d <> 0; a [_refuted] lemma shows the side condition is needed). *)
From Coq Require Import Reals Lra Psatz List.
From D3 Require Import Base.Ops Base.Vec Base.RVec Base.RVec2 Spec.Convex Model.Support Model.Contain
     Proofs.ShapesTac Proofs.Equivariance.
Import ListNotations.
Local Open Scope R_scope.

(** algebra used below, stated outside the section (the tactic [vsimp] destructs vectors and
    must not meet section variables) *)
Lemma vdivs_mulMV (m : M3 R) (d : V3R) (n : R) : vdivs (mulMV m d) n = mulMV m (vdivs d n).
Proof. vsimp; f_equal; unfold Rdiv; ring. Qed.
Lemma rigid_add (m : M3 R) (t c v : V3R) : vadd (rigid m t c) (mulMV m v) = rigid m t (vadd c v).
Proof. unfold rigid. vsimp; f_equal; ring. Qed.
Lemma rigid_sub_vec (m : M3 R) (t c v : V3R) : vsub (rigid m t c) (mulMV m v) = rigid m t (vsub c v).
Proof. unfold rigid. vsimp; f_equal; ring. Qed.
Lemma col2_mulMM (a b : M3 R) : col (mulMM a b) 2 = mulMV a (col b 2).
Proof. unfold mulMM. vsimp. cbn. f_equal; ring. Qed.
Lemma mulTV_add (m : M3 R) (a b : V3R) : mulTV m (vadd a b) = vadd (mulTV m a) (mulTV m b).
Proof. vsimp; f_equal; ring. Qed.
Lemma to_local_shift (a b w : V3R) : vadd (vneg (vadd a w)) (vadd b w) = vadd (vneg a) b.
Proof. vsimp; f_equal; ring. Qed.
Lemma sumsq_is_dot (v : V3R) : sumsq v = dot v v.
Proof. destruct v. unfold sumsq. vunfold. ring. Qed.

Section Move.
  Variables (Rg : M3 R) (t : V3R).
  Hypothesis HR : is_rotation Rg.
  Let g := rigid Rg t.
  Definition move (T : Pose R) : Pose R := compose (P Rg t) T.

  Lemma move_rot (T : Pose R) : rot (move T) = mulMM Rg (rot T).
  Proof. reflexivity. Qed.
  Lemma move_local_dir (T : Pose R) (d : V3R) : mulTV (rot (move T)) (mulMV Rg d) = mulTV (rot T) d.
  Proof. rewrite move_rot. apply local_direction_invariant; auto. Qed.
  Lemma move_point (T : Pose R) (p : V3R) : transform_point (move T) p = g (transform_point T p).
  Proof. unfold move. rewrite compose_point. reflexivity. Qed.
  Lemma move_trans (T : Pose R) : trans (move T) = g (trans T).
  Proof. reflexivity. Qed.
  Lemma move_local_point (T : Pose R) (p : V3R) :
    inverse_transform_point (move T) (g p) = inverse_transform_point T p.
  Proof. apply local_point_invariant; auto. Qed.

  (** ** pose-based support functions: exact equivariance, no side condition *)
  Theorem support_cylinder_equivariant (d : V3R) (T : Pose R) (r l : R) :
    support_cylinder (mulMV Rg d) (move T) r l = g (support_cylinder d T r l).
  Proof. unfold support_cylinder. rewrite move_local_dir, move_point. reflexivity. Qed.

  Theorem support_capsule_equivariant (d : V3R) (T : Pose R) (r h : R) :
    support_capsule (mulMV Rg d) (move T) r h = g (support_capsule d T r h).
  Proof. unfold support_capsule. rewrite move_local_dir, move_point. reflexivity. Qed.

  Theorem support_ellipsoid_equivariant (d : V3R) (T : Pose R) (radii : V3R) :
    support_ellipsoid (mulMV Rg d) (move T) radii = g (support_ellipsoid d T radii).
  Proof. unfold support_ellipsoid. rewrite move_local_dir, move_point. reflexivity. Qed.

  Theorem support_box_equivariant (d : V3R) (T : Pose R) (h : V3R) :
    support_box (mulMV Rg d) (move T) h = g (support_box d T h).
  Proof. unfold support_box. rewrite move_local_dir, move_point. reflexivity. Qed.

  Theorem support_cone_equivariant (d : V3R) (T : Pose R) (r h : R) :
    support_cone (mulMV Rg d) (move T) r h = g (support_cone d T r h).
  Proof. unfold support_cone. rewrite move_local_dir, move_point. reflexivity. Qed.

  (** ** sphere: equivariant away from the zero direction; at d = 0 the code returns
      centre + (0,0,r), a world-frame choice *)
  Lemma norm_vector_rot (d : V3R) : norm_vector (mulMV Rg d) = mulMV Rg (norm_vector d).
  Proof.
    unfold norm_vector. rewrite is_rotation_norm by auto. rops.
    destruct (Reqb (norm d) 0); auto. apply vdivs_mulMV.
  Qed.

  Theorem support_sphere_equivariant (d c : V3R) (r : R) :
    d <> vzero -> support_sphere (mulMV Rg d) (g c) r = g (support_sphere d c r).
  Proof.
    intros Hd. unfold support_sphere. rewrite is_rotation_norm by auto. rops.
    case_eqb (norm d) 0 E.
    - exfalso. apply Hd. apply norm_zero_iff; auto.
    - unfold g. rewrite vdivs_mulMV, <- mulMV_scale, rigid_add. reflexivity.
  Qed.

  (** ** ellipse (axes are rows a0, a1, moved by Rg) *)
  Theorem support_ellipse_equivariant (d c a0 a1 : V3R) (r0 r1 : R) :
    support_ellipse (mulMV Rg d) (g c) (mulMV Rg a0) (mulMV Rg a1) r0 r1 = g (support_ellipse d c a0 a1 r0 r1).
  Proof.
    unfold support_ellipse. rewrite !is_rotation_dot by auto.
    destruct (norm_vector2 _ _) as [u v].
    unfold g. rewrite <- !mulMV_scale, <- mulMV_add, rigid_add. reflexivity.
  Qed.

  (** ** Margin: inner support point moved, direction rotated *)
  Theorem support_margin_equivariant (inner d : V3R) (m : R) :
    support_margin (g inner) (mulMV Rg d) m = g (support_margin inner d m).
  Proof.
    unfold support_margin. rewrite norm_vector_rot. unfold g.
    rewrite <- mulMV_scale, rigid_add. reflexivity.
  Qed.

  (** ** vertex hulls: argmax of v.d is unchanged because every projection shifts by the
      same constant t.(Rg d) *)
  Lemma argmax_from_shift (k : R) : forall (l : list R) bi b i,
    argmax_from bi (b + k) i (map (fun x => x + k) l) = argmax_from bi b i l.
  Proof.
    induction l as [|x l IH]; intros bi b i; cbn [map argmax_from]; auto.
    rops. unfold Rltb.
    destruct (Rlt_dec (b + k) (x + k)), (Rlt_dec b x); try lra; apply IH.
  Qed.
  Lemma argmax_shift (k : R) (l : list R) : argmax (map (fun x => x + k) l) = argmax l.
  Proof. destruct l as [|x l]; cbn [map argmax]; auto. f_equal. apply argmax_from_shift. Qed.

  Theorem support_hull_equivariant (d : V3R) (vs : list V3R) :
    support_hull (mulMV Rg d) (map g vs) = option_map g (support_hull d vs).
  Proof.
    unfold support_hull. rewrite map_map.
    assert (E : map (fun x => dot (g x) (mulMV Rg d)) vs
                = map (fun x => x + dot t (mulMV Rg d)) (map (fun v => dot v d) vs)).
    { rewrite map_map. apply map_ext. intros v. unfold g, rigid.
      rewrite dot_add_l, is_rotation_dot by auto. reflexivity. }
    rewrite E, argmax_shift.
    destruct (argmax (map (fun v => dot v d) vs)) as [i|]; auto.
    rewrite nth_error_map. destruct (nth_error vs i); reflexivity.
  Qed.

  (** Box collider = hull of the 8 corners computed from the pose: the corners of the moved
      pose are the moved corners *)
  Lemma convert_box_move (T : Pose R) (size : V3R) :
    convert_box_to_vertices (move T) size = map g (convert_box_to_vertices T size).
  Proof.
    unfold convert_box_to_vertices. rewrite map_map. apply map_ext. intros c.
    change (vadd (trans (move T)) (mulMV (rot (move T)) (vmul c size)))
      with (vadd (g (trans T)) (mulMV (mulMM Rg (rot T)) (vmul c size))).
    rewrite mulMV_mulMM. unfold g. apply rigid_add.
  Qed.
  Theorem support_box_collider_equivariant (d : V3R) (T : Pose R) (size : V3R) :
    support_box_collider (mulMV Rg d) (move T) size = option_map g (support_box_collider d T size).
  Proof. unfold support_box_collider. rewrite convert_box_move. apply support_hull_equivariant. Qed.

  (** ** mesh with hill climbing: the climb runs in the mesh frame on the local direction, so
      the visited indices (incl. the cached start vertex) are identical and the point moves *)
  Theorem mesh_query_equivariant (fuel : nat) (T : Pose R) (vs : list V3R) conn shortcuts (first_idx : nat) (d : V3R) :
    mesh_query fuel (move T) vs conn shortcuts first_idx (mulMV Rg d)
    = option_map (fun ip => (fst ip, g (snd ip))) (mesh_query fuel T vs conn shortcuts first_idx d).
  Proof.
    unfold mesh_query. rewrite move_local_dir.
    destruct (hill_climb fuel (mulTV (rot T) d) first_idx vs conn shortcuts); auto.
    destruct (nth_error vs i); auto. cbn [option_map fst snd]. do 2 f_equal.
    rewrite move_trans, move_rot, mulMV_mulMM. unfold g. apply rigid_add.
  Qed.

  (** ** centres and first vertices *)
  Theorem center_box_equivariant (T : Pose R) : center_box (move T) = g (center_box T).
  Proof. reflexivity. Qed.
  Lemma col2_move (T : Pose R) : col (rot (move T)) 2 = mulMV Rg (col (rot T) 2).
  Proof. rewrite move_rot. apply col2_mulMM. Qed.
  Theorem center_cone_equivariant (T : Pose R) (h : R) : center_cone (move T) h = g (center_cone T h).
  Proof.
    unfold center_cone. rewrite col2_move, move_trans. unfold g. rewrite <- mulMV_scale, rigid_add. reflexivity.
  Qed.
  Theorem first_vertex_capsule_equivariant (T : Pose R) (r h : R) :
    first_vertex_capsule (move T) r h = g (first_vertex_capsule T r h).
  Proof.
    unfold first_vertex_capsule. rewrite col2_move, move_trans. unfold g. rewrite <- mulMV_scale, rigid_sub_vec.
    reflexivity.
  Qed.
  (** ** containment predicates (Model/Contain.v) *)
  Lemma sumsq_rot (v : V3R) : sumsq (mulMV Rg v) = sumsq v.
  Proof. rewrite !sumsq_is_dot. apply is_rotation_dot; auto. Qed.

  (** the local coordinates of the moved point in the moved frame are the old ones *)
  Theorem to_local_move (T : Pose R) (p : V3R) : to_local (move T) (g p) = to_local T p.
  Proof.
    unfold to_local. rewrite move_trans, move_rot, !mulTV_mulMM. unfold g, rigid.
    rewrite !mulTV_add, !HR. apply to_local_shift.
  Qed.

  Theorem point_in_sphere_invariant (p c : V3R) (r : R) :
    point_in_sphere (g p) (g c) r = point_in_sphere p c r.
  Proof. unfold point_in_sphere, g. rewrite rigid_sub, sumsq_rot. reflexivity. Qed.

  Theorem point_in_box_invariant (p : V3R) (T : Pose R) (size : V3R) :
    point_in_box (g p) (move T) size = point_in_box p T size.
  Proof. unfold point_in_box. rewrite to_local_move. reflexivity. Qed.

  Theorem point_in_ellipsoid_invariant (p : V3R) (T : Pose R) (radii : V3R) :
    point_in_ellipsoid (g p) (move T) radii = point_in_ellipsoid p T radii.
  Proof. unfold point_in_ellipsoid. rewrite to_local_move. reflexivity. Qed.

  Theorem point_in_convex_mesh_invariant (p : V3R) (T : Pose R) vs ts :
    point_in_convex_mesh (g p) (move T) vs ts = point_in_convex_mesh p T vs ts.
  Proof. unfold point_in_convex_mesh. rewrite to_local_move. reflexivity. Qed.

  Theorem point_in_disk_invariant (p c : V3R) (r : R) (n : V3R) :
    point_in_disk (g p) (g c) r (mulMV Rg n) = point_in_disk p c r n.
  Proof.
    unfold point_in_disk, g. rewrite rigid_sub, is_rotation_dot by auto.
    rewrite <- mulMV_scale, <- mulMV_sub, sumsq_rot. reflexivity.
  Qed.

  Theorem point_in_cylinder_invariant (p : V3R) (T : Pose R) (r l : R) :
    point_in_cylinder (g p) (move T) r l = point_in_cylinder p T r l.
  Proof.
    unfold point_in_cylinder. rewrite col2_move, move_trans. unfold g. rewrite rigid_sub, is_rotation_dot by auto.
    rewrite <- mulMV_scale, <- mulMV_sub, sumsq_rot. reflexivity.
  Qed.

  Theorem point_in_cone_invariant (p : V3R) (T : Pose R) (r h : R) :
    point_in_cone (g p) (move T) r h = point_in_cone p T r h.
  Proof.
    unfold point_in_cone. rewrite col2_move, move_trans.
    replace (vadd (g (trans T)) (vscale (half * h)%o (mulMV Rg (col (rot T) 2))))
      with (g (vadd (trans T) (vscale (half * h)%o (col (rot T) 2))))
      by (unfold g; rewrite <- mulMV_scale, rigid_add; reflexivity).
    unfold g. rewrite rigid_sub, is_rotation_dot by auto.
    rewrite <- mulMV_scale, <- mulMV_sub, sumsq_rot. reflexivity.
  Qed.

  Theorem point_in_capsule_invariant (p : V3R) (T : Pose R) (r h : R) :
    point_in_capsule (g p) (move T) r h = point_in_capsule p T r h.
  Proof.
    unfold point_in_capsule. rewrite col2_move, move_trans.
    set (ax := col (rot T) 2). set (c := trans T). set (k := (half * h)%o).
    replace (vsub (g c) (vscale k (mulMV Rg ax))) with (g (vsub c (vscale k ax)))
      by (unfold g; rewrite <- mulMV_scale, rigid_sub_vec; reflexivity).
    replace (vadd (g c) (vscale k (mulMV Rg ax))) with (g (vadd c (vscale k ax)))
      by (unfold g; rewrite <- mulMV_scale, rigid_add; reflexivity).
    unfold g. rewrite !rigid_sub, !is_rotation_dot by auto.
    set (s0 := vsub c (vscale k ax)). set (sd := vsub (vadd c (vscale k ax)) s0).
    set (tt := fmin (fmax (dot (vsub p s0) sd / dot sd sd)%o zero) one).
    replace (vadd (rigid Rg t s0) (vscale tt (mulMV Rg sd))) with (rigid Rg t (vadd s0 (vscale tt sd)))
      by (rewrite <- mulMV_scale, rigid_add; reflexivity).
    rewrite rigid_sub, sumsq_rot. reflexivity.
  Qed.
End Move.

(** the side condition of [support_sphere_equivariant] is needed: at d = 0 the code answers
    centre + (0,0,r) in WORLD coordinates *)
Definition rotx90 : M3 R := M (V 1 0 0) (V 0 0 (-1)) (V 0 1 0).
Lemma rotx90_rotation : is_rotation rotx90.
Proof. intros v. unfold rotx90. vsimp. f_equal; ring. Qed.
Theorem support_sphere_zero_direction_refuted :
  exists (Rg : M3 R) (c : V3R) (r : R),
    is_rotation Rg /\ support_sphere (mulMV Rg vzero) (rigid Rg vzero c) r <> rigid Rg vzero (support_sphere vzero c r).
Proof.
  exists rotx90, vzero, 1. split; [apply rotx90_rotation|].
  unfold support_sphere.
  replace (mulMV rotx90 vzero) with (@vzero R _) by (unfold rotx90; vsimp; f_equal; ring).
  assert (N : norm (@vzero R _) = 0) by (apply norm_zero_iff; reflexivity).
  rewrite N. rops. unfold Reqb. destruct (Req_EM_T 0 0) as [_|n]; [|exfalso; apply n; reflexivity].
  unfold rigid, rotx90. vunfold. cbn. intros H. injection H as H0 H1 H2. lra.
Qed.

Example support_equivariant_nonvacuous :
  is_rotation rotx90 /\ support_box (mulMV rotx90 (V 1 2 3)) (move rotx90 (V 5 6 7) (P ident (V 1 1 1))) (V 1 2 3)
  = rigid rotx90 (V 5 6 7) (support_box (V 1 2 3) (P ident (V 1 1 1)) (V 1 2 3)).
Proof. split; [apply rotx90_rotation|]. apply support_box_equivariant. apply rotx90_rotation. Qed.

(** ** disk: the code builds a basis of the plane with [plane_basis_from_normal], whose choice
    depends on the WORLD coordinates of the normal (|n0| >= |n1| ?), yet the support point does
    not depend on the basis: closed form  c + r w/|w|,  w = d - (d.n) n. *)
From D3 Require Import Spec.Shapes Proofs.SupportB.

Lemma of_cols_T_normal (x y n : V3R) :
  is_rotation (of_cols x y n) -> mulTV (of_cols x y n) n = V 0 0 1.
Proof.
  intros H. apply is_rotation_cols in H. destruct H as (_ & _ & C & _ & E & G).
  unfold of_cols in *. vsimp. cbn in *. f_equal; lra.
Qed.

Lemma mulTV_sub (m : M3 R) (a b : V3R) : mulTV m (vsub a b) = vsub (mulTV m a) (mulTV m b).
Proof. vsimp; f_equal; ring. Qed.
Lemma mulTV_scale (m : M3 R) (s : R) (a : V3R) : mulTV m (vscale s a) = vscale s (mulTV m a).
Proof. vsimp; f_equal; ring. Qed.
Lemma mulTV_z (x y n d : V3R) : vz (mulTV (of_cols x y n) d) = dot d n.
Proof. unfold of_cols. vsimp. cbn. ring. Qed.

Lemma drop_z (x y n d : V3R) :
  V (vx (mulTV (of_cols x y n) d)) (vy (mulTV (of_cols x y n) d)) 0
  = vsub (mulTV (of_cols x y n) d) (vscale (dot d n) (V 0 0 1)).
Proof. unfold of_cols. vsimp. cbn. f_equal; ring. Qed.

Theorem support_disk_closed_form (d c : V3R) (r : R) (n : V3R) :
  dot n n = 1 ->
  support_disk d c r n =
  (let w := vsub d (vscale (dot d n) n) in
   if Reqb (norm w) 0 then c else vadd c (vscale (r / norm w) w)).
Proof.
  intros Hn. unfold support_disk.
  pose proof (plane_basis_rotation n Hn) as Hrot.
  destruct (plane_basis_from_normal n) as [x y]. cbn [fst snd] in Hrot.
  change (column_stack x y n) with (of_cols x y n).
  set (w := vsub d (vscale (dot d n) n)). cbv zeta.
  assert (Ew : V (vx (mulTV (of_cols x y n) d)) (vy (mulTV (of_cols x y n) d)) 0 = mulTV (of_cols x y n) w).
  { unfold w. rewrite mulTV_sub, mulTV_scale, of_cols_T_normal by auto. apply drop_z. }
  set (M := of_cols x y n) in *.
  change zero with 0. rewrite Ew.
  assert (En : norm (mulTV M w) = norm w).
  { unfold norm. f_equal. apply rotation_mulTV_dot; auto. }
  rewrite En. rops. destruct (Reqb (norm w) 0); auto.
  f_equal. rewrite mulMV_scale. f_equal. apply rotation_inverse_r; auto.
Qed.

Theorem support_disk_equivariant (Rg : M3 R) (t : V3R) (d c : V3R) (r : R) (n : V3R) :
  is_rotation Rg -> dot n n = 1 ->
  support_disk (mulMV Rg d) (rigid Rg t c) r (mulMV Rg n) = rigid Rg t (support_disk d c r n).
Proof.
  intros HR Hn.
  rewrite (support_disk_closed_form d c r n Hn).
  rewrite support_disk_closed_form by (rewrite is_rotation_dot; auto).
  cbv zeta. rewrite is_rotation_dot by auto.
  rewrite <- mulMV_scale, <- mulMV_sub, is_rotation_norm by auto.
  destruct (Reqb _ 0); auto.
  rewrite <- mulMV_scale. apply rigid_add.
Qed.
