(** * Multivariate polynomials with integer coefficients, evaluated over the reals (C17).

    Used to run the table-driven parts of Model/TetMesh.v *symbolically* in the sizes of
    the shape: [poly] is made an instance of [Ops] (ring operations only; the others are
    dummies and every use of the symbolic run is re-validated against the real run), so
    [vol6 (O := POps)] of symbolic vertices is the polynomial 6 * signed volume.  Sign
    tests are by coefficients: a polynomial all of whose coefficients are >= 0 (one of
    them > 0) is >= 0 (> 0) wherever all variables are > 0. *)
From Coq Require Import List ZArith QArith Reals Lra Lia Bool.
From D3 Require Import Base.Ops Base.Vec.
Import ListNotations.

Definition mono : Type := list nat.            (* exponent vector *)
Definition poly : Type := list (mono * Z).     (* sum of c * x^m; keys not necessarily distinct *)

Fixpoint meqb (a b : mono) : bool :=
  match a, b with
  | [], [] => true
  | x :: a', y :: b' => Nat.eqb x y && meqb a' b'
  | _, _ => false
  end.

Fixpoint mmul (a b : mono) : mono :=
  match a, b with
  | [], _ => b
  | _, [] => a
  | x :: a', y :: b' => (x + y)%nat :: mmul a' b'
  end.

Fixpoint padd_term (m : mono) (c : Z) (p : poly) : poly :=
  match p with
  | [] => [(m, c)]
  | (m', c') :: r => if meqb m m' then (m', (c + c')%Z) :: r else (m', c') :: padd_term m c r
  end.
Definition padd (p q : poly) : poly := fold_right (fun mc acc => padd_term (fst mc) (snd mc) acc) q p.
Definition popp (p : poly) : poly := map (fun mc => (fst mc, (- snd mc)%Z)) p.
Definition psub (p q : poly) : poly := padd p (popp q).
Definition pscale (m : mono) (c : Z) (q : poly) : poly := map (fun mc => (mmul m (fst mc), (c * snd mc)%Z)) q.
Definition pmul (p q : poly) : poly := fold_right (fun mc acc => padd (pscale (fst mc) (snd mc) q) acc) [] p.
Definition pconst (z : Z) : poly := [([], z)].
Definition pvar (i : nat) : poly := [(repeat 0%nat i ++ [1%nat], 1%Z)].

(** sign tests on the coefficients *)
Definition pnonneg (p : poly) : bool := forallb (fun mc => (0 <=? snd mc)%Z) p.
Definition ppos (p : poly) : bool := pnonneg p && existsb (fun mc => (0 <? snd mc)%Z) p.
Definition pzero (p : poly) : bool := forallb (fun mc => (snd mc =? 0)%Z) p.
Definition pnonpos (p : poly) : bool := pnonneg (popp p).
Definition pneg (p : poly) : bool := ppos (popp p).
Definition peqb (p q : poly) : bool := pzero (psub p q).

#[global] Instance POps : Ops poly := {|
  zero := []; one := pconst 1;
  add := padd; sub := psub; mul := pmul;
  div := fun _ _ => [];                     (* not a ring operation: dummy *)
  opp := popp; sqrt := fun p => p; abs := fun p => p;
  leb := fun _ _ => false; ltb := fun _ _ => false; eqb := fun _ _ => false;
  cst := fun q => if (Zpos (Qden q) =? 1)%Z then pconst (Qnum q) else [] |}.

(** ** evaluation *)
Local Open Scope R_scope.

Fixpoint meval (env : list R) (m : mono) {struct m} : R :=
  match m, env with
  | [], _ => 1
  | _ :: _, [] => 1
  | e :: m', x :: env' => x ^ e * meval env' m'
  end.
Fixpoint peval (env : list R) (p : poly) : R :=
  match p with
  | [] => 0
  | (m, c) :: r => IZR c * meval env m + peval env r
  end.

Lemma meqb_eq a b : meqb a b = true -> a = b.
Proof.
  revert b; induction a as [|x a IH]; destruct b as [|y b]; cbn; try discriminate; auto.
  intros H. apply andb_true_iff in H as [H1 H2]. apply Nat.eqb_eq in H1. f_equal; auto.
Qed.

Lemma meval_mmul env a b : meval env (mmul a b) = meval env a * meval env b.
Proof.
  revert env b; induction a as [|x a IH]; intros env b.
  - cbn. destruct b; lra.
  - destruct b as [|y b].
    + cbn [mmul]. destruct env; cbn; lra.
    + cbn [mmul]. destruct env as [|v env]; cbn [meval]; [lra|].
      rewrite IH, pow_add. ring.
Qed.

Lemma peval_padd_term env m c p : peval env (padd_term m c p) = IZR c * meval env m + peval env p.
Proof.
  induction p as [|[m' c'] r IH]; cbn.
  - ring.
  - destruct (meqb m m') eqn:E.
    + apply meqb_eq in E; subst. cbn. rewrite plus_IZR. ring.
    + cbn. rewrite IH. ring.
Qed.

Lemma peval_padd env p q : peval env (padd p q) = peval env p + peval env q.
Proof.
  induction p as [|[m c] r IH]; cbn.
  - ring.
  - rewrite peval_padd_term. cbn [fst snd]. fold (padd r q). rewrite IH. ring.
Qed.

Lemma peval_popp env p : peval env (popp p) = - peval env p.
Proof.
  induction p as [|[m c] r IH]; cbn.
  - ring.
  - fold (popp r). rewrite IH, opp_IZR. ring.
Qed.

Lemma peval_psub env p q : peval env (psub p q) = peval env p - peval env q.
Proof. unfold psub. rewrite peval_padd, peval_popp. ring. Qed.

Lemma peval_pscale env m c q : peval env (pscale m c q) = IZR c * meval env m * peval env q.
Proof.
  induction q as [|[m' c'] r IH]; cbn.
  - ring.
  - fold (pscale m c r). rewrite IH, mult_IZR, meval_mmul. ring.
Qed.

Lemma peval_pmul env p q : peval env (pmul p q) = peval env p * peval env q.
Proof.
  induction p as [|[m c] r IH]; cbn.
  - ring.
  - fold (pmul r q). rewrite peval_padd, peval_pscale, IH. cbn [fst snd]. ring.
Qed.

Lemma peval_pconst env z : peval env (pconst z) = IZR z.
Proof. cbn. ring. Qed.

Lemma meval_var env i : meval env (repeat 0%nat i ++ [1%nat]) = nth i env 1.
Proof.
  revert env; induction i as [|i IH]; intros env.
  - destruct env; cbn; lra.
  - destruct env as [|x env]; cbn [repeat app meval nth]; [lra|]. rewrite IH. cbn. ring.
Qed.
Lemma peval_pvar env i : peval env (pvar i) = nth i env 1.
Proof. unfold pvar. cbn [peval]. rewrite meval_var. ring. Qed.

(** the [Ops] operations of [POps] are ring homomorphisms into [ROps] *)
Lemma peval_add env (p q : poly) : peval env (add p q) = add (peval env p) (peval env q).
Proof. apply peval_padd. Qed.
Lemma peval_sub env (p q : poly) : peval env (sub p q) = sub (peval env p) (peval env q).
Proof. apply peval_psub. Qed.
Lemma peval_mul env (p q : poly) : peval env (mul p q) = mul (peval env p) (peval env q).
Proof. apply peval_pmul. Qed.
Lemma peval_opp env (p : poly) : peval env (opp p) = opp (peval env p).
Proof. apply peval_popp. Qed.

(** ** soundness of the sign tests *)
Definition env_pos (env : list R) : Prop := Forall (fun x => 0 < x) env.

Lemma meval_pos env m : env_pos env -> 0 < meval env m.
Proof.
  revert env; induction m as [|e m IH]; intros env H; cbn; [lra|].
  destruct env as [|x env]; [lra|]. inversion H; subst.
  apply Rmult_lt_0_compat; [apply pow_lt; assumption | apply IH; assumption].
Qed.

Lemma pnonneg_sound env p : env_pos env -> pnonneg p = true -> 0 <= peval env p.
Proof.
  intros He. induction p as [|[m c] r IH]; cbn; [lra|].
  intros H. apply andb_true_iff in H as [H1 H2]. apply Z.leb_le in H1. apply IZR_le in H1.
  pose proof (meval_pos env m He). specialize (IH H2).
  assert (0 <= IZR c * meval env m) by (apply Rmult_le_pos; lra). lra.
Qed.

Lemma ppos_sound env p : env_pos env -> ppos p = true -> 0 < peval env p.
Proof.
  intros He H. unfold ppos in H. apply andb_true_iff in H as [Hn Hx].
  induction p as [|[m c] r IH]; cbn in *; [discriminate|].
  apply andb_true_iff in Hn as [H1 H2]. apply Z.leb_le in H1. apply IZR_le in H1.
  pose proof (meval_pos env m He) as Hm.
  pose proof (pnonneg_sound env r He H2) as Hr.
  apply orb_true_iff in Hx as [Hx|Hx].
  - apply Z.ltb_lt in Hx. apply IZR_lt in Hx.
    assert (0 < IZR c * meval env m) by (apply Rmult_lt_0_compat; lra). lra.
  - specialize (IH H2 Hx). assert (0 <= IZR c * meval env m) by (apply Rmult_le_pos; lra). lra.
Qed.

Lemma pzero_sound env p : pzero p = true -> peval env p = 0.
Proof.
  induction p as [|[m c] r IH]; cbn; [reflexivity|].
  intros H. apply andb_true_iff in H as [H1 H2]. apply Z.eqb_eq in H1. cbn in H1. subst c.
  rewrite (IH H2). ring.
Qed.

Lemma pnonpos_sound env p : env_pos env -> pnonpos p = true -> peval env p <= 0.
Proof. intros He H. apply (pnonneg_sound env _ He) in H. rewrite peval_popp in H. lra. Qed.
Lemma pneg_sound env p : env_pos env -> pneg p = true -> peval env p < 0.
Proof. intros He H. apply (ppos_sound env _ He) in H. rewrite peval_popp in H. lra. Qed.
Lemma peqb_sound env p q : peqb p q = true -> peval env p = peval env q.
Proof. intros H. apply (pzero_sound env) in H. rewrite peval_psub in H. lra. Qed.

(** symbolic points *)
Definition eval_pt (env : list R) (p : V3 poly) : V3 R :=
  V (peval env (vx p)) (peval env (vy p)) (peval env (vz p)).
