(** * rectangle_to_box over the reals: optimality (C11) of the model of [Model/DistPrimComb.v].

    arm 0 (a rectangle vertex within [eps] of the box) returns a distance <= eps: outside the band
    it is 0, which is trivially a lower bound.
    arm 1 (all four vertices farther than [eps] from the box, in particular outside it) returns the
    minimum over the six faces of rectangle_to_rectangle (the `break` is never taken when the result
    is above [eps]).  Geometry: for x in the rectangle and y in the box there is a pair (x', y') with
    x' in the rectangle, y' on a FACE of the box and |x' - y'| <= |x - y|:
      - x outside the box: the segment from y to x leaves the box through a face at y' ([box_exit]);
      - x inside the box: the segment from x to a vertex (outside) leaves the box at a point of the
        rectangle (convex) that lies on a face: distance 0. *)
From Coq Require Import Reals Lra Psatz List Bool.
From D3 Require Import Base.Ops Base.Vec Base.RVec Base.RVec2 Base.RVec3 Spec.Convex Spec.Prims Model.Support Model.DistPrim Model.DistPrimComb
  Proofs.DistBase Proofs.DistPoint Proofs.DistRect Proofs.DistTriangle Proofs.DistLine Proofs.DistPlane Proofs.DistComb Proofs.DistCombOpt.
Import ListNotations. Local Open Scope R_scope.

(** ** 1. the box in its own frame *)
(** coordinate [i] of [x] in the frame of the pose *)
Definition bcoord (T : Pose R) (i : nat) (x : V3R) : R := dot (col (rot T) i) (vsub x (trans T)).
Definition inbox (T : Pose R) (sz : V3R) (x : V3R) : Prop :=
  Rabs (bcoord T 0 x) <= vx sz / 2 /\ Rabs (bcoord T 1 x) <= vy sz / 2 /\ Rabs (bcoord T 2 x) <= vz sz / 2.

Lemma bcoord_expand (T : Pose R) (x : V3R) :
  is_rotation (rot T) ->
  x = vadd (trans T) (vadd (vscale (bcoord T 0 x) (col (rot T) 0))
                           (vadd (vscale (bcoord T 1 x) (col (rot T) 1)) (vscale (bcoord T 2 x) (col (rot T) 2)))).
Proof.
  intros HR. pose proof (rotation_inverse_r (rot T) HR (vsub x (trans T))) as E.
  rewrite mulMV_cols in E.
  change (mulTV (rot T) (vsub x (trans T))) with (V (bcoord T 0 x) (bcoord T 1 x) (bcoord T 2 x)) in E.
  cbn [vx vy vz] in E. rewrite E. veq.
Qed.

Lemma bcoord_of_coords (T : Pose R) (k0 k1 k2 : R) :
  is_rotation (rot T) ->
  let x := vadd (trans T) (vadd (vscale k0 (col (rot T) 0)) (vadd (vscale k1 (col (rot T) 1)) (vscale k2 (col (rot T) 2)))) in
  bcoord T 0 x = k0 /\ bcoord T 1 x = k1 /\ bcoord T 2 x = k2.
Proof.
  intros HR x. apply is_rotation_cols in HR. destruct HR as (U0 & U1 & U2 & U01 & U02 & U12).
  unfold bcoord, x.
  replace (vsub (vadd (trans T) (vadd (vscale k0 (col (rot T) 0)) (vadd (vscale k1 (col (rot T) 1)) (vscale k2 (col (rot T) 2))))) (trans T))
    with (vadd (vscale k0 (col (rot T) 0)) (vadd (vscale k1 (col (rot T) 1)) (vscale k2 (col (rot T) 2)))) by veq.
  rewrite !dot_add_r, !dot_scale_r, U0, U1, U2, (dot_comm (col (rot T) 1) (col (rot T) 0)),
    (dot_comm (col (rot T) 2) (col (rot T) 0)), (dot_comm (col (rot T) 2) (col (rot T) 1)), U01, U02, U12.
  repeat split; ring.
Qed.

Lemma box_of_inbox (T : Pose R) (sz x : V3R) : is_rotation (rot T) -> (box_of T sz x <-> inbox T sz x).
Proof.
  intros HR. unfold box_of, box_set, pose_x, pose_y, pose_z, inbox. split.
  - intros (k0 & k1 & k2 & K0 & K1 & K2 & ->).
    destruct (bcoord_of_coords T k0 k1 k2 HR) as (-> & -> & ->). auto.
  - intros (K0 & K1 & K2). exists (bcoord T 0 x), (bcoord T 1 x), (bcoord T 2 x).
    split; [exact K0|]. split; [exact K1|]. split; [exact K2|]. apply bcoord_expand. exact HR.
Qed.

Lemma inbox_dec (T : Pose R) (sz x : V3R) : inbox T sz x \/ ~ inbox T sz x.
Proof.
  unfold inbox.
  destruct (Rle_dec (Rabs (bcoord T 0 x)) (vx sz / 2)); [|right; tauto].
  destruct (Rle_dec (Rabs (bcoord T 1 x)) (vy sz / 2)); [|right; tauto].
  destruct (Rle_dec (Rabs (bcoord T 2 x)) (vz sz / 2)); [left; tauto|right; tauto].
Qed.

(** the point at parameter [tau] of the segment from [p] to [q] *)
Definition seg_at (p q : V3R) (tau : R) : V3R := vadd p (vscale tau (vsub q p)).

Lemma bcoord_seg (T : Pose R) (i : nat) (p q : V3R) (tau : R) :
  bcoord T i (seg_at p q tau) = bcoord T i p + tau * (bcoord T i q - bcoord T i p).
Proof.
  unfold bcoord, seg_at.
  replace (vsub (vadd p (vscale tau (vsub q p))) (trans T))
    with (vadd (vsub p (trans T)) (vscale tau (vsub (vsub q (trans T)) (vsub p (trans T))))) by veq.
  rewrite dot_add_r, dot_scale_r, !dot_sub_r. ring.
Qed.

(** [x] lies on the face [(i, positive)] of the box, in box coordinates *)
Definition on_face_coord (T : Pose R) (sz : V3R) (i : nat) (positive : bool) (x : V3R) : Prop :=
  inbox T sz x /\ bcoord T i x = (if positive then 1 else - 1) * (nthv sz i / 2).

(** *** boundary crossing: a segment from a point of the box to a point outside it meets a face *)
Lemma box_exit_coord (T : Pose R) (sz p q : V3R) :
  inbox T sz p -> ~ inbox T sz q ->
  exists tau i positive, 0 <= tau < 1 /\ (i < 3)%nat /\ on_face_coord T sz i positive (seg_at p q tau).
Proof.
  intros (P0 & P1 & P2) Hq. apply Rabs_le_between' in P0, P1, P2.
  set (l := [(vx sz / 2 - bcoord T 0 p, - (bcoord T 0 q - bcoord T 0 p));
             (vx sz / 2 + bcoord T 0 p, bcoord T 0 q - bcoord T 0 p);
             (vy sz / 2 - bcoord T 1 p, - (bcoord T 1 q - bcoord T 1 p));
             (vy sz / 2 + bcoord T 1 p, bcoord T 1 q - bcoord T 1 p);
             (vz sz / 2 - bcoord T 2 p, - (bcoord T 2 q - bcoord T 2 p));
             (vz sz / 2 + bcoord T 2 p, bcoord T 2 q - bcoord T 2 p)]).
  destruct (refine_list l 1) as (tau & Ht & Pin & Z); [|lra|].
  { intros c [<-|[<-|[<-|[<-|[<-|[<-|[]]]]]]]; cbn [fst]; lra. }
  pose proof (Pin _ (or_introl eq_refl)) as I0.
  pose proof (Pin _ (or_intror (or_introl eq_refl))) as I1.
  pose proof (Pin _ (or_intror (or_intror (or_introl eq_refl)))) as I2.
  pose proof (Pin _ (or_intror (or_intror (or_intror (or_introl eq_refl))))) as I3.
  pose proof (Pin _ (or_intror (or_intror (or_intror (or_intror (or_introl eq_refl)))))) as I4.
  pose proof (Pin _ (or_intror (or_intror (or_intror (or_intror (or_intror (or_introl eq_refl))))))) as I5.
  unfold cval in I0, I1, I2, I3, I4, I5. cbn [fst snd] in I0, I1, I2, I3, I4, I5.
  assert (Hin : inbox T sz (seg_at p q tau)).
  { unfold inbox. rewrite !bcoord_seg. repeat split; apply Rabs_le; lra. }
  destruct Z as [->|(c & Hc & Zc)].
  - exfalso. apply Hq. unfold inbox in *. rewrite !bcoord_seg in Hin.
    replace (bcoord T 0 q) with (bcoord T 0 p + 1 * (bcoord T 0 q - bcoord T 0 p)) by ring.
    replace (bcoord T 1 q) with (bcoord T 1 p + 1 * (bcoord T 1 q - bcoord T 1 p)) by ring.
    replace (bcoord T 2 q) with (bcoord T 2 p + 1 * (bcoord T 2 q - bcoord T 2 p)) by ring.
    exact Hin.
  - assert (Hlt : tau < 1).
    { destruct (Req_dec tau 1) as [E|E]; [|lra]. exfalso. subst tau. apply Hq. unfold inbox in *.
      rewrite !bcoord_seg in Hin.
      replace (bcoord T 0 q) with (bcoord T 0 p + 1 * (bcoord T 0 q - bcoord T 0 p)) by ring.
      replace (bcoord T 1 q) with (bcoord T 1 p + 1 * (bcoord T 1 q - bcoord T 1 p)) by ring.
      replace (bcoord T 2 q) with (bcoord T 2 p + 1 * (bcoord T 2 q - bcoord T 2 p)) by ring.
      exact Hin. }
    exists tau.
    destruct Hc as [<-|[<-|[<-|[<-|[<-|[<-|[]]]]]]]; unfold cval in Zc; cbn [fst snd] in Zc.
    + exists 0%nat, true. split; [lra|]. split; [auto|]. split; [exact Hin|]. rewrite bcoord_seg. cbn [nthv]. lra.
    + exists 0%nat, false. split; [lra|]. split; [auto|]. split; [exact Hin|]. rewrite bcoord_seg. cbn [nthv]. lra.
    + exists 1%nat, true. split; [lra|]. split; [auto|]. split; [exact Hin|]. rewrite bcoord_seg. cbn [nthv]. lra.
    + exists 1%nat, false. split; [lra|]. split; [auto|]. split; [exact Hin|]. rewrite bcoord_seg. cbn [nthv]. lra.
    + exists 2%nat, true. split; [lra|]. split; [auto|]. split; [exact Hin|]. rewrite bcoord_seg. cbn [nthv]. lra.
    + exists 2%nat, false. split; [lra|]. split; [auto|]. split; [exact Hin|]. rewrite bcoord_seg. cbn [nthv]. lra.
Qed.

(** ** 2. the faces of convert_box_to_face are the coordinate faces *)
Lemma on_face_rect (T : Pose R) (sz : V3R) (i : nat) (positive : bool) fc f0 f1 fl0 fl1 (x : V3R) :
  is_rotation (rot T) -> (i < 3)%nat ->
  box_face T sz i positive = (fc, f0, f1, fl0, fl1) ->
  on_face_coord T sz i positive x -> rectangle_set fc f0 f1 fl0 fl1 x.
Proof.
  intros HR Hi. unfold box_face. rewrite half_eq, half_R. ops_R.
  destruct i as [|[|[|i]]]; [| | |exfalso; lia];
    intros H; apply pair5_eq in H; destruct H as (<- & <- & <- & <- & <-);
    intros ((K0 & K1 & K2) & Hk); cbn [nthv] in *.
  - exists (bcoord T 1 x), (bcoord T 2 x). split; [exact K1|]. split; [exact K2|].
    etransitivity; [apply (bcoord_expand T x HR)|]. rewrite Hk.
    generalize (bcoord T 1 x) (bcoord T 2 x). intros k1 k2. destruct positive; veq.
  - exists (bcoord T 0 x), (bcoord T 2 x). split; [exact K0|]. split; [exact K2|].
    etransitivity; [apply (bcoord_expand T x HR)|]. rewrite Hk.
    generalize (bcoord T 0 x) (bcoord T 2 x). intros k1 k2. destruct positive; veq.
  - exists (bcoord T 0 x), (bcoord T 1 x). split; [exact K0|]. split; [exact K1|].
    etransitivity; [apply (bcoord_expand T x HR)|]. rewrite Hk.
    generalize (bcoord T 0 x) (bcoord T 1 x). intros k1 k2. destruct positive; veq.
Qed.

(** the face axes are two pose columns and the face lengths two of the sizes *)
Lemma box_face_props (T : Pose R) (sz : V3R) (i : nat) (positive : bool) fc f0 f1 fl0 fl1 (P : R -> Prop) :
  is_rotation (rot T) -> P (vx sz) -> P (vy sz) -> P (vz sz) ->
  box_face T sz i positive = (fc, f0, f1, fl0, fl1) ->
  dot f0 f0 = 1 /\ dot f1 f1 = 1 /\ dot f0 f1 = 0 /\ P fl0 /\ P fl1.
Proof.
  intros HR Px Py Pz. apply is_rotation_cols in HR. destruct HR as (U0 & U1 & U2 & U01 & U02 & U12).
  unfold box_face.
  destruct i as [|[|i]]; intros H; apply pair5_eq in H; destruct H as (_ & <- & <- & <- & <-); auto 8.
Qed.

(** *** (1) boundary crossing, in terms of the sets: a segment from a point of the box to a point
        outside it contains a point of the box that lies on one of the six faces *)
Definition box_face_set (T : Pose R) (sz : V3R) (i : nat) (positive : bool) : set3 :=
  let '(fc, f0, f1, fl0, fl1) := box_face T sz i positive in rectangle_set fc f0 f1 fl0 fl1.

Lemma on_face_set (T : Pose R) (sz : V3R) (i : nat) (positive : bool) (x : V3R) :
  is_rotation (rot T) -> (i < 3)%nat -> on_face_coord T sz i positive x -> box_face_set T sz i positive x.
Proof.
  intros HR Hi Hx. unfold box_face_set.
  destruct (box_face T sz i positive) as [[[[fc f0] f1] fl0] fl1] eqn:EF.
  exact (on_face_rect T sz i positive _ _ _ _ _ x HR Hi EF Hx).
Qed.

Lemma box_exit (T : Pose R) (sz p q : V3R) :
  is_rotation (rot T) -> box_of T sz p -> ~ box_of T sz q ->
  exists tau i positive, 0 <= tau < 1 /\ (i < 3)%nat /\
    box_of T sz (seg_at p q tau) /\ box_face_set T sz i positive (seg_at p q tau).
Proof.
  intros HR Hp Hq. apply (box_of_inbox T sz p HR) in Hp.
  assert (Hq' : ~ inbox T sz q) by (intros H; apply Hq; apply box_of_inbox; assumption).
  destruct (box_exit_coord T sz p q Hp Hq') as (tau & i & positive & Ht & Hi & Hf).
  exists tau, i, positive. split; [exact Ht|]. split; [exact Hi|]. split.
  - apply box_of_inbox; [exact HR|exact (proj1 Hf)].
  - apply on_face_set; assumption.
Qed.

(** *** (2) a point outside the box is at least as close to some face as to any point of the box *)
Lemma seg_at_closer (x y : V3R) (tau : R) : 0 <= tau < 1 -> norm (vsub x (seg_at y x tau)) <= norm (vsub x y).
Proof.
  intros Ht. replace (vsub x (seg_at y x tau)) with (vscale (1 - tau) (vsub x y)) by (unfold seg_at; veq).
  rewrite norm_scale, Rabs_pos_eq by lra. pose proof (norm_nonneg (vsub x y)). nra.
Qed.

Lemma outside_point_face_closer (T : Pose R) (sz x y : V3R) :
  is_rotation (rot T) -> ~ box_of T sz x -> box_of T sz y ->
  exists i positive y', (i < 3)%nat /\ box_face_set T sz i positive y' /\ norm (vsub x y') <= norm (vsub x y).
Proof.
  intros HR Hx Hy. destruct (box_exit T sz y x HR Hy Hx) as (tau & i & positive & Ht & Hi & _ & Hf).
  exists i, positive, (seg_at y x tau). split; [exact Hi|]. split; [exact Hf|]. apply seg_at_closer. exact Ht.
Qed.

(** *** (3) a convex set with a point outside the box: every (point of the set, point of the box) pair is
        dominated by a (point of the set, point of a face) pair *)
Lemma face_pair_closer (A : set3) (T : Pose R) (sz v x y : V3R) :
  is_rotation (rot T) -> convex A -> A v -> ~ box_of T sz v -> A x -> box_of T sz y ->
  exists i positive x' y', (i < 3)%nat /\ A x' /\ box_face_set T sz i positive y' /\
                           norm (vsub x' y') <= norm (vsub x y).
Proof.
  intros HR HA Hv Hvo Hx Hy.
  destruct (inbox_dec T sz x) as [Hin|Hout].
  - apply (box_of_inbox T sz x HR) in Hin.
    destruct (box_exit T sz x v HR Hin Hvo) as (tau & i & positive & Ht & Hi & _ & Hf).
    exists i, positive, (seg_at x v tau), (seg_at x v tau). split; [exact Hi|]. split; [|split; [exact Hf|]].
    + replace (seg_at x v tau) with (vadd (vscale (1 - tau) x) (vscale tau v)) by (unfold seg_at; veq).
      apply HA; auto. lra.
    + rewrite norm_sub_self. apply norm_nonneg.
  - assert (Hxo : ~ box_of T sz x) by (intros H; apply Hout; apply box_of_inbox; assumption).
    destruct (outside_point_face_closer T sz x y HR Hxo Hy) as (i & positive & y' & Hi & Hf & Hle).
    exists i, positive, x, y'. auto.
Qed.

(** ** 3. the loops *)
(** [scan] with a break test on the NEW best: above the break level the result is below every candidate *)
Lemma scan_min_new (brk : R3R -> R3R -> R3R -> bool) (K : R) (cands : list R3R) (best : R3R) :
  (forall c old new, brk c old new = true -> rd new <= K) ->
  K < rd (scan brk cands best) -> forall c, In c cands -> rd (scan brk cands best) <= rd c.
Proof.
  intros Hbrk. revert best. induction cands as [|c cs IH]; intros best HK x Hx; [destruct Hx|].
  cbn [scan] in *. ops_R.
  set (best' := if Rltb (rd c) (rd best) then c else best) in *.
  assert (Hb' : rd best' <= rd c /\ rd best' <= rd best).
  { unfold best'. destruct (Rltb (rd c) (rd best)) eqn:E; rb_hyp E; lra. }
  destruct (brk c best best') eqn:Eb.
  - apply Hbrk in Eb. lra.
  - destruct Hx as [<-|Hx].
    + pose proof (scan_le_best brk cs best'). lra.
    + apply IH; assumption.
Qed.

Lemma box_inside_none (T : Pose R) (sz : V3R) (eps : R) (vs : list V3R) :
  box_inside T sz eps vs = None -> forall v, In v vs -> eps < fst (point_to_box v T sz).
Proof.
  induction vs as [|v rest IH]; [intros _ v []|].
  change (box_inside T sz eps (v :: rest)) with
    (let '(d, cpb) := point_to_box v T sz in
     if leb (Ops:=ROps) d eps then Some (d, v, cpb) else box_inside T sz eps rest).
  destruct (point_to_box v T sz) as [d cpb] eqn:E. ops_R. rb_case; [discriminate|].
  intros H x [<-|Hx]; [rewrite E; cbn [fst]; lra|auto].
Qed.

(** a point whose point_to_box distance is positive is outside the box *)
Lemma point_to_box_outside (T : Pose R) (sz v : V3R) :
  is_rotation (rot T) -> 0 <= vx sz -> 0 <= vy sz -> 0 <= vz sz ->
  0 < fst (point_to_box v T sz) -> ~ box_of T sz v.
Proof.
  intros HR Sx Sy Sz Hd Hin. destruct (point_to_box v T sz) as [d cp] eqn:E. cbn [fst] in Hd.
  pose proof (point_to_box_optimal v T sz d cp HR Sx Sy Sz E v Hin) as H. rewrite norm_sub_self in H. lra.
Qed.

(** ** 4. rectangle_to_box *)
(** the band exclusions of [rectangle_to_rectangle_optimal] for the face [(i, positive)]:
    the parallel tests of _line_intersects_rectangle for the rectangle axes against the face normal
    and for the face axes against the rectangle normal *)
Definition face_band (a0 a1 : V3R) (T : Pose R) (sz : V3R) (i : nat) (positive : bool) : Prop :=
  let '(fc, f0, f1, fl0, fl1) := box_face T sz i positive in
  (let n2 := cross f0 f1 in
   (dot n2 a0 = 0 \/ eps6 < Rabs (dot n2 a0)) /\ (dot n2 a1 = 0 \/ eps6 < Rabs (dot n2 a1))) /\
  (let n1 := cross a0 a1 in
   (dot n1 f0 = 0 \/ eps6 < Rabs (dot n1 f0)) /\ (dot n1 f1 = 0 \/ eps6 < Rabs (dot n1 f1))).

(** [0 <= eps] is needed: with a negative [eps] a rectangle lying entirely inside the box passes the
    vertex loop and the face scan returns a positive distance. *)
Theorem rectangle_to_box_optimal (rc a0 a1 : V3R) (l0 l1 : R) (T : Pose R) (sz : V3R) (eps : R) d p1 p2 :
  dot a0 a0 = 1 -> dot a1 a1 = 1 -> dot a0 a1 = 0 ->
  0 <= l0 -> 0 <= l1 -> eps6 <= l0 * l0 -> eps6 <= l1 * l1 ->
  is_rotation (rot T) -> 0 <= vx sz -> 0 <= vy sz -> 0 <= vz sz ->
  eps6 <= vx sz * vx sz -> eps6 <= vy sz * vy sz -> eps6 <= vz sz * vz sz ->
  0 <= eps ->
  (forall i positive, face_band a0 a1 T sz i positive) ->
  rectangle_to_box rc a0 a1 l0 l1 T sz eps = (d, p1, p2) ->
  d = 0 \/ (eps < d /\ eps6 <= d) ->
  optimal (rectangle_set rc a0 a1 l0 l1) (box_of T sz) d.
Proof.
  intros U0 U1 U01 H0 H1 L0 L1 HR Sx Sy Sz Lx Ly Lz He HB E [->|[Hd Hd6]]; [apply optimal_zero|].
  unfold rectangle_to_box, rectangle_to_box_full in E.
  match type of E with context [match ?X with Some _ => _ | None => _ end] =>
    change X with (box_inside T sz eps (rectangle_vertices rc a0 a1 l0 l1)) in E end.
  destruct (box_inside T sz eps (rectangle_vertices rc a0 a1 l0 l1)) as [r|] eqn:EI.
  - cbn [fst] in E. apply box_inside_le in EI. rewrite E in EI. change (rd (d, p1, p2)) with d in EI. lra.
  - cbn [fst] in E. cbv zeta in E.
    match type of E with scan ?b ?cP (scan _ ?cN _) = _ =>
      set (brk := b) in *; set (candsP := cP) in *; set (candsN := cN) in * end.
    assert (Hbrk : forall c old new : R3R, brk c old new = true -> rd new <= eps).
    { intros c old new Hc. unfold brk in Hc. apply andb_true_iff in Hc. destruct Hc as [_ Hc]. ops_R. rb_hyp Hc. exact Hc. }
    assert (HP : forall c, In c candsP -> d <= rd c).
    { intros c Hc. pose proof (scan_min_new brk eps candsP (scan brk candsN init_best) Hbrk) as M.
      rewrite E in M. change (rd (d, p1, p2)) with d in M. apply M; assumption. }
    assert (HN : forall c, In c candsN -> d <= rd c).
    { intros c Hc. pose proof (scan_le_best brk candsP (scan brk candsN init_best)) as Le.
      rewrite E in Le. change (rd (d, p1, p2)) with d in Le.
      assert (Hlt : eps < rd (scan brk candsN init_best)) by lra.
      pose proof (scan_min_new brk eps candsN init_best Hbrk Hlt c Hc). lra. }
    (* every face: the returned distance is a lower bound for (rectangle, face) *)
    assert (Hface : forall i positive, (i < 3)%nat ->
              optimal (rectangle_set rc a0 a1 l0 l1) (box_face_set T sz i positive) d).
    { intros i positive Hi.
      assert (Hle : d <= rd (let '(fc, f0, f1, fl0, fl1) := box_face T sz i positive in
                             rectangle_to_rectangle rc a0 a1 l0 l1 fc f0 f1 fl0 fl1 eps)).
      { assert (Hin : In i [0%nat; 1%nat; 2%nat]).
        { destruct i as [|[|[|i]]]; [simpl; auto|simpl; auto|simpl; auto|].
          exfalso. lia. }
        destruct positive; [apply HP|apply HN]; unfold candsP, candsN;
          apply (in_map (fun i => let '(fc, f0, f1, fl0, fl1) := box_face T sz i _ in
                                  rectangle_to_rectangle rc a0 a1 l0 l1 fc f0 f1 fl0 fl1 eps)); exact Hin. }
      pose proof (HB i positive) as B. unfold face_band in B. unfold box_face_set.
      destruct (box_face T sz i positive) as [[[[fc f0] f1] fl0] fl1] eqn:EF.
      destruct (rectangle_to_rectangle rc a0 a1 l0 l1 fc f0 f1 fl0 fl1 eps) as [[d' q1] q2] eqn:ER.
      change (rd (d', q1, q2)) with d' in Hle. destruct B as [B1 B2].
      destruct (box_face_props T sz i positive _ _ _ _ _ (fun s => 0 <= s /\ eps6 <= s * s) HR
                  (conj Sx Lx) (conj Sy Ly) (conj Sz Lz) EF) as (V0 & V1 & V01 & [F0 M0] & [F1 M1]).
      assert (Hopt : optimal (rectangle_set rc a0 a1 l0 l1) (rectangle_set fc f0 f1 fl0 fl1) d').
      { apply (rectangle_to_rectangle_optimal rc a0 a1 l0 l1 fc f0 f1 fl0 fl1 eps d' q1 q2); auto.
        right. split; lra. }
      intros x y Hx Hy. pose proof (Hopt x y Hx Hy). lra. }
    (* a vertex outside the box *)
    assert (Hv : exists v, rectangle_set rc a0 a1 l0 l1 v /\ ~ box_of T sz v).
    { assert (Hex : exists v, In v (rectangle_vertices rc a0 a1 l0 l1))
        by (unfold rectangle_vertices; cbn [map]; eexists; left; reflexivity).
      destruct Hex as (v & Hin). exists v. split; [apply rect_vertex_in; assumption|].
      apply point_to_box_outside; auto. pose proof (box_inside_none T sz eps _ EI v Hin). lra. }
    destruct Hv as (v & Hvr & Hvo).
    intros x y Hx Hy.
    destruct (face_pair_closer (rectangle_set rc a0 a1 l0 l1) T sz v x y HR (rectangle_convex _ _ _ _ _) Hvr Hvo Hx Hy)
      as (i & positive & x' & y' & Hi & Hx' & Hy' & Hle).
    pose proof (Hface i positive Hi x' y' Hx' Hy'). lra.
Qed.

(** ** non-vacuity: the unit square at height 10 above the cube [-1,1]^2 x [0,2] of [Proofs/DistComb.v];
      every hypothesis holds, with the returned distance in the upper part of the result band
      ([eps < d], the case in which the theorem says something) *)
Definition wb_rc : V3R := V 0 0 10.

Lemma wb_face_band (i : nat) (positive : bool) : face_band wit_a0 wit_a1 wit_T wit_sz i positive.
Proof.
  pose proof eps6_lt_1 as H6.
  assert (K1 : eps6 (O:=ROps) < Rabs 1) by (rewrite Rabs_R1; exact H6).
  assert (Km : eps6 (O:=ROps) < Rabs (-1)) by (rewrite Rabs_left by lra; lra).
  unfold face_band, box_face, wit_T, wit_sz, wit_a0, wit_a1.
  destruct i as [|[|i]]; cbv beta iota zeta.
  - repeat split; left; vunfold; ring.
  - split; split.
    + right. replace (dot _ _) with (-1) by (vunfold; ring). exact Km.
    + left. vunfold; ring.
    + right. replace (dot _ _) with 1 by (vunfold; ring). exact K1.
    + left. vunfold; ring.
  - split; split.
    + left. vunfold; ring.
    + right. replace (dot _ _) with 1 by (vunfold; ring). exact K1.
    + right. replace (dot _ _) with 1 by (vunfold; ring). exact K1.
    + left. vunfold; ring.
Qed.

Example rectangle_to_box_optimal_nonvacuous :
  exists rc a0 a1 l0 l1 T sz eps d p1 p2,
    dot a0 a0 = 1 /\ dot a1 a1 = 1 /\ dot a0 a1 = 0 /\
    0 <= l0 /\ 0 <= l1 /\ eps6 <= l0 * l0 /\ eps6 <= l1 * l1 /\
    is_rotation (rot T) /\ 0 <= vx sz /\ 0 <= vy sz /\ 0 <= vz sz /\
    eps6 <= vx sz * vx sz /\ eps6 <= vy sz * vy sz /\ eps6 <= vz sz * vz sz /\
    0 <= eps /\
    (forall i positive, face_band a0 a1 T sz i positive) /\
    rectangle_to_box rc a0 a1 l0 l1 T sz eps = (d, p1, p2) /\
    (eps < d /\ eps6 <= d) /\
    optimal (rectangle_set rc a0 a1 l0 l1) (box_of T sz) d.
Proof.
  destruct (rectangle_to_box wb_rc wit_a0 wit_a1 2 2 wit_T wit_sz eps6) as [[d p1] p2] eqn:HT.
  pose proof max_float_gt_1 as HM. pose proof eps6_pos as H6p. pose proof eps6_lt_1 as H6l.
  pose proof wit_a0_nz as A0. pose proof wit_a1_nz as A1. pose proof wit_T_rotation as HR.
  assert (H2 : 0 < 2) by lra.
  assert (Sx : 0 < vx wit_sz) by (cbn; lra). assert (Sy : 0 < vy wit_sz) by (cbn; lra). assert (Sz : 0 < vz wit_sz) by (cbn; lra).
  assert (Hd : 1 < d).
  { destruct (Rlt_dec d max_float) as [Hlt|Hge]; [|lra].
    destruct (rectangle_to_box_feasible _ _ _ _ _ _ _ _ _ _ _ A0 A1 H2 H2 HR Sx Sy Sz HT Hlt) as (Hp1 & Hp2 & _ & Hdn).
    rewrite Hdn. apply Rlt_le_trans with 8; [lra|]. apply sq_le_norm; [lra|].
    destruct Hp1 as (k0 & k1 & _ & _ & ->). destruct Hp2 as (m0 & m1 & m2 & M0 & _ & _ & ->).
    apply Rabs_le_between' in M0. unfold wit_sz in M0. cbn [vx] in M0.
    unfold pose_x, pose_y, pose_z, wit_T, wb_rc, wit_a0, wit_a1. vunfold.
    assert (64 <= (9 - m0) * (9 - m0)) by nra.
    pose proof (sqr_nonneg (k0 * 1 + k1 * 0 - (m0 * 0 + (m1 * 1 + m2 * 0)))).
    pose proof (sqr_nonneg (k0 * 0 + k1 * 1 - (m0 * 0 + (m1 * 0 + m2 * 1)))).
    nra. }
  exists wb_rc, wit_a0, wit_a1, 2, 2, wit_T, wit_sz, eps6, d, p1, p2.
  assert (U0 : dot wit_a0 wit_a0 = 1) by (unfold wit_a0; vunfold; ring).
  assert (U1 : dot wit_a1 wit_a1 = 1) by (unfold wit_a1; vunfold; ring).
  assert (U01 : dot wit_a0 wit_a1 = 0) by (unfold wit_a0, wit_a1; vunfold; ring).
  assert (P2 : 0 <= 2) by lra. assert (L : eps6 (O:=ROps) <= 2 * 2) by lra.
  assert (Sx' : 0 <= vx wit_sz) by lra. assert (Sy' : 0 <= vy wit_sz) by lra. assert (Sz' : 0 <= vz wit_sz) by lra.
  assert (Lx : eps6 <= vx wit_sz * vx wit_sz) by (cbn [vx wit_sz]; lra).
  assert (Ly : eps6 <= vy wit_sz * vy wit_sz) by (cbn [vy wit_sz]; lra).
  assert (Lz : eps6 <= vz wit_sz * vz wit_sz) by (cbn [vz wit_sz]; lra).
  assert (He : 0 <= eps6 (O:=ROps)) by lra.
  assert (Hb : eps6 (O:=ROps) < d /\ eps6 (O:=ROps) <= d) by lra.
  repeat (split; [assumption|]).
  split; [exact wb_face_band|]. split; [exact HT|]. split; [exact Hb|].
  exact (rectangle_to_box_optimal _ _ _ _ _ _ _ _ _ _ _ U0 U1 U01 P2 P2 L L HR Sx' Sy' Sz' Lx Ly Lz He wb_face_band HT (or_intror Hb)).
Qed.
