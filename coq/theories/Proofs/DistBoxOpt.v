(** * rectangle_to_box over the reals: optimality (C11) of the model of [Model/DistPrimComb.v].

    arm 0 (a rectangle vertex within [eps] of the box) returns a distance <= eps: outside the band
    it is 0, which is trivially a lower bound.
    arm 1 (all four vertices farther than [eps] from the box, in particular outside it) returns the
    minimum over the six faces of rectangle_to_rectangle (the `break` is never taken when the result
    is above [eps]).  Geometry: for x in the rectangle and y in the box there is a pair (x', y') with
    x' in the rectangle, y' on a FACE of the box and |x' - y'| <= |x - y|:
      - x outside the box: the segment from y to x leaves the box through a face at y' ([box_exit]);
      - x inside the box: the segment from x to a vertex (outside) leaves the box at a point of the
        rectangle (convex) that lies on a face: distance 0. *)
From Coq Require Import Reals Lra Psatz List Bool.
From D3 Require Import Base.Ops Base.Vec Base.RVec Base.RVec2 Base.RVec3 Spec.Convex Spec.Prims Model.Support Model.DistPrim Model.DistPrimComb
  Proofs.DistBase Proofs.DistPoint Proofs.DistRect Proofs.DistTriangle Proofs.DistLine Proofs.DistPlane Proofs.DistComb Proofs.DistCombOpt.
Import ListNotations. Local Open Scope R_scope.

(** ** 1. the box in its own frame *)
(** coordinate [i] of [x] in the frame of the pose *)
Definition bcoord (T : Pose R) (i : nat) (x : V3R) : R := dot (col (rot T) i) (vsub x (trans T)).
Definition inbox (T : Pose R) (sz : V3R) (x : V3R) : Prop :=
  Rabs (bcoord T 0 x) <= vx sz / 2 /\ Rabs (bcoord T 1 x) <= vy sz / 2 /\ Rabs (bcoord T 2 x) <= vz sz / 2.

Lemma bcoord_expand (T : Pose R) (x : V3R) :
  is_rotation (rot T) ->
  x = vadd (trans T) (vadd (vscale (bcoord T 0 x) (col (rot T) 0))
                           (vadd (vscale (bcoord T 1 x) (col (rot T) 1)) (vscale (bcoord T 2 x) (col (rot T) 2)))).
Proof.
  intros HR. pose proof (rotation_inverse_r (rot T) HR (vsub x (trans T))) as E.
  rewrite mulMV_cols in E.
  change (mulTV (rot T) (vsub x (trans T))) with (V (bcoord T 0 x) (bcoord T 1 x) (bcoord T 2 x)) in E.
  cbn [vx vy vz] in E. rewrite E. veq.
Qed.

Lemma bcoord_of_coords (T : Pose R) (k0 k1 k2 : R) :
  is_rotation (rot T) ->
  let x := vadd (trans T) (vadd (vscale k0 (col (rot T) 0)) (vadd (vscale k1 (col (rot T) 1)) (vscale k2 (col (rot T) 2)))) in
  bcoord T 0 x = k0 /\ bcoord T 1 x = k1 /\ bcoord T 2 x = k2.
Proof.
  intros HR x. apply is_rotation_cols in HR. destruct HR as (U0 & U1 & U2 & U01 & U02 & U12).
  unfold bcoord, x.
  replace (vsub (vadd (trans T) (vadd (vscale k0 (col (rot T) 0)) (vadd (vscale k1 (col (rot T) 1)) (vscale k2 (col (rot T) 2))))) (trans T))
    with (vadd (vscale k0 (col (rot T) 0)) (vadd (vscale k1 (col (rot T) 1)) (vscale k2 (col (rot T) 2)))) by veq.
  rewrite !dot_add_r, !dot_scale_r, U0, U1, U2, (dot_comm (col (rot T) 1) (col (rot T) 0)),
    (dot_comm (col (rot T) 2) (col (rot T) 0)), (dot_comm (col (rot T) 2) (col (rot T) 1)), U01, U02, U12.
  repeat split; ring.
Qed.

Lemma box_of_inbox (T : Pose R) (sz x : V3R) : is_rotation (rot T) -> (box_of T sz x <-> inbox T sz x).
Proof.
  intros HR. unfold box_of, box_set, pose_x, pose_y, pose_z, inbox. split.
  - intros (k0 & k1 & k2 & K0 & K1 & K2 & ->).
    destruct (bcoord_of_coords T k0 k1 k2 HR) as (-> & -> & ->). auto.
  - intros (K0 & K1 & K2). exists (bcoord T 0 x), (bcoord T 1 x), (bcoord T 2 x).
    split; [exact K0|]. split; [exact K1|]. split; [exact K2|]. apply bcoord_expand. exact HR.
Qed.

Lemma inbox_dec (T : Pose R) (sz x : V3R) : inbox T sz x \/ ~ inbox T sz x.
Proof.
  unfold inbox.
  destruct (Rle_dec (Rabs (bcoord T 0 x)) (vx sz / 2)); [|right; tauto].
  destruct (Rle_dec (Rabs (bcoord T 1 x)) (vy sz / 2)); [|right; tauto].
  destruct (Rle_dec (Rabs (bcoord T 2 x)) (vz sz / 2)); [left; tauto|right; tauto].
Qed.

(** the point at parameter [tau] of the segment from [p] to [q] *)
Definition seg_at (p q : V3R) (tau : R) : V3R := vadd p (vscale tau (vsub q p)).

Lemma bcoord_seg (T : Pose R) (i : nat) (p q : V3R) (tau : R) :
  bcoord T i (seg_at p q tau) = bcoord T i p + tau * (bcoord T i q - bcoord T i p).
Proof.
  unfold bcoord, seg_at.
  replace (vsub (vadd p (vscale tau (vsub q p))) (trans T))
    with (vadd (vsub p (trans T)) (vscale tau (vsub (vsub q (trans T)) (vsub p (trans T))))) by veq.
  rewrite dot_add_r, dot_scale_r, !dot_sub_r. ring.
Qed.

(** [x] lies on the face [(i, positive)] of the box, in box coordinates *)
Definition on_face_coord (T : Pose R) (sz : V3R) (i : nat) (positive : bool) (x : V3R) : Prop :=
  inbox T sz x /\ bcoord T i x = (if positive then 1 else - 1) * (nthv sz i / 2).

(** *** boundary crossing: a segment from a point of the box to a point outside it meets a face *)
Lemma box_exit_coord (T : Pose R) (sz p q : V3R) :
  inbox T sz p -> ~ inbox T sz q ->
  exists tau i positive, 0 <= tau < 1 /\ (i < 3)%nat /\ on_face_coord T sz i positive (seg_at p q tau).
Proof.
  intros (P0 & P1 & P2) Hq. apply Rabs_le_between' in P0, P1, P2.
  set (l := [(vx sz / 2 - bcoord T 0 p, - (bcoord T 0 q - bcoord T 0 p));
             (vx sz / 2 + bcoord T 0 p, bcoord T 0 q - bcoord T 0 p);
             (vy sz / 2 - bcoord T 1 p, - (bcoord T 1 q - bcoord T 1 p));
             (vy sz / 2 + bcoord T 1 p, bcoord T 1 q - bcoord T 1 p);
             (vz sz / 2 - bcoord T 2 p, - (bcoord T 2 q - bcoord T 2 p));
             (vz sz / 2 + bcoord T 2 p, bcoord T 2 q - bcoord T 2 p)]).
  destruct (refine_list l 1) as (tau & Ht & Pin & Z); [|lra|].
  { intros c [<-|[<-|[<-|[<-|[<-|[<-|[]]]]]]]; cbn [fst]; lra. }
  pose proof (Pin _ (or_introl eq_refl)) as I0.
  pose proof (Pin _ (or_intror (or_introl eq_refl))) as I1.
  pose proof (Pin _ (or_intror (or_intror (or_introl eq_refl)))) as I2.
  pose proof (Pin _ (or_intror (or_intror (or_intror (or_introl eq_refl))))) as I3.
  pose proof (Pin _ (or_intror (or_intror (or_intror (or_intror (or_introl eq_refl)))))) as I4.
  pose proof (Pin _ (or_intror (or_intror (or_intror (or_intror (or_intror (or_introl eq_refl))))))) as I5.
  unfold cval in I0, I1, I2, I3, I4, I5. cbn [fst snd] in I0, I1, I2, I3, I4, I5.
  assert (Hin : inbox T sz (seg_at p q tau)).
  { unfold inbox. rewrite !bcoord_seg. repeat split; apply Rabs_le; lra. }
  destruct Z as [->|(c & Hc & Zc)].
  - exfalso. apply Hq. unfold inbox in *. rewrite !bcoord_seg in Hin.
    replace (bcoord T 0 q) with (bcoord T 0 p + 1 * (bcoord T 0 q - bcoord T 0 p)) by ring.
    replace (bcoord T 1 q) with (bcoord T 1 p + 1 * (bcoord T 1 q - bcoord T 1 p)) by ring.
    replace (bcoord T 2 q) with (bcoord T 2 p + 1 * (bcoord T 2 q - bcoord T 2 p)) by ring.
    exact Hin.
  - assert (Hlt : tau < 1).
    { destruct (Req_dec tau 1) as [E|E]; [|lra]. exfalso. subst tau. apply Hq. unfold inbox in *.
      rewrite !bcoord_seg in Hin.
      replace (bcoord T 0 q) with (bcoord T 0 p + 1 * (bcoord T 0 q - bcoord T 0 p)) by ring.
      replace (bcoord T 1 q) with (bcoord T 1 p + 1 * (bcoord T 1 q - bcoord T 1 p)) by ring.
      replace (bcoord T 2 q) with (bcoord T 2 p + 1 * (bcoord T 2 q - bcoord T 2 p)) by ring.
      exact Hin. }
    exists tau.
    destruct Hc as [<-|[<-|[<-|[<-|[<-|[<-|[]]]]]]]; unfold cval in Zc; cbn [fst snd] in Zc.
    + exists 0%nat, true. split; [lra|]. split; [auto|]. split; [exact Hin|]. rewrite bcoord_seg. cbn [nthv]. lra.
    + exists 0%nat, false. split; [lra|]. split; [auto|]. split; [exact Hin|]. rewrite bcoord_seg. cbn [nthv]. lra.
    + exists 1%nat, true. split; [lra|]. split; [auto|]. split; [exact Hin|]. rewrite bcoord_seg. cbn [nthv]. lra.
    + exists 1%nat, false. split; [lra|]. split; [auto|]. split; [exact Hin|]. rewrite bcoord_seg. cbn [nthv]. lra.
    + exists 2%nat, true. split; [lra|]. split; [auto|]. split; [exact Hin|]. rewrite bcoord_seg. cbn [nthv]. lra.
    + exists 2%nat, false. split; [lra|]. split; [auto|]. split; [exact Hin|]. rewrite bcoord_seg. cbn [nthv]. lra.
Qed.
