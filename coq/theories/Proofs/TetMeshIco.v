(** * make_triangular_icosphere (C17): the triangle list is a closed, consistently oriented
    surface for EVERY subdivision order, the midpoint cache is empty after every pass (its
    delete-on-second-use policy is sound exactly because every edge is used twice), and the
    number of vertices is 10 * 4^order + 2 (the size of the preallocated array).
    Base case: a finite check of the icosahedron table re-extracted from the source. *)
From Coq Require Import List ZArith Lia Bool.
From D3 Require Import Model.TetSym Gen.TetTables Model.TetMesh Proofs.TetMeshIcoKey Proofs.TetMeshIcoPure.
Import ListNotations.
Import TetTables.
Local Open Scope Z_scope.

(** ** the midpoint numbering read off the ghost list [seen] *)
Definition edge_eqb (e e' : edge) : bool := (fst e =? fst e') && (snd e =? snd e').
Lemma edge_eqb_eq e e' : edge_eqb e e' = true <-> e = e'.
Proof.
  destruct e, e'. unfold edge_eqb; cbn. rewrite andb_true_iff, !Z.eqb_eq. split; [intros []; congruence|].
  intros E; inversion E; auto.
Qed.

Fixpoint assoc (e : edge) (seen : seen_t) : option Z :=
  match seen with
  | [] => None
  | (e', i) :: r => if edge_eqb e' e then Some i else assoc e r
  end.
Definition mu (seen : seen_t) (x y : Z) : Z :=
  match assoc (okey x y) seen with Some i => i | None => -1 end.

Lemma assoc_in seen e i : NoDup (map fst seen) -> In (e, i) seen -> assoc e seen = Some i.
Proof.
  induction seen as [|[e' i'] r IH]; cbn; intros N H; [tauto|].
  inversion N as [|? ? N1 N2]; subst. destruct (edge_eqb e' e) eqn:E.
  - apply edge_eqb_eq in E; subst e'. destruct H as [H|H]; [congruence|].
    exfalso. apply N1. apply in_map_iff. exists (e, i). split; auto.
  - destruct H as [H|H]; [|auto]. inversion H; subst. 
    assert (edge_eqb e e = true) by (apply edge_eqb_eq; reflexivity). congruence.
Qed.

Lemma mu_in seen x y i : NoDup (map fst seen) -> In (okey x y, i) seen -> mu seen x y = i.
Proof. intros N H. unfold mu. now rewrite (assoc_in _ _ _ N H). Qed.

Lemma mu_sym seen x y : mu seen x y = mu seen y x.
Proof. unfold mu. now rewrite (okey_sym x y). Qed.

Lemma ids_inj (seen : seen_t) e e' i :
  NoDup (map snd seen) -> In (e, i) seen -> In (e', i) seen -> e = e'.
Proof.
  induction seen as [|[e0 i0] r IH]; cbn; intros N H H'; [tauto|].
  inversion N as [|? ? N1 N2]; subst.
  destruct H as [H|H], H' as [H'|H'].
  - congruence.
  - inversion H; subst. exfalso. apply N1. apply in_map_iff. exists (e', i). split; auto.
  - inversion H'; subst. exfalso. apply N1. apply in_map_iff. exists (e, i). split; auto.
  - eauto.
Qed.

(** ** the loop body *)
Lemma sub_tri_eq v1 v2 v3 st :
  sub_tri (v1, v2, v3) st =
  let r1 := add_mid_point v1 v2 st in
  let r2 := add_mid_point v2 v3 (snd r1) in
  let r3 := add_mid_point v3 v1 (snd r2) in
  ([(v1, fst r1, fst r3); (v2, fst r2, fst r1); (v3, fst r3, fst r2); (fst r1, fst r2, fst r3)], snd r3).
Proof.
  unfold sub_tri, ico_mid_calls, ico_children. cbn [fold_left fst snd nth].
  destruct (add_mid_point v1 v2 st) as [a s1]. cbn [fst snd app].
  destruct (add_mid_point v2 v3 s1) as [b s2]. cbn [fst snd app].
  destruct (add_mid_point v3 v1 s2) as [c s3]. cbn [fst snd app map nth]. reflexivity.
Qed.

Definition step (acc : list tri * ico_state) (t : tri) : list tri * ico_state :=
  let '(ch, s') := sub_tri t (snd acc) in (fst acc ++ ch, s').

Lemma subdivide_fold ts st : subdivide ts st = fold_left step ts ([], st).
Proof. reflexivity. Qed.

Lemma dedges_of_app P R : dedges_of (P ++ R) = dedges_of P ++ dedges_of R.
Proof. unfold dedges_of. apply flat_map_app. Qed.

Lemma flat_map_ext_in' {A B} (f g : A -> list B) l :
  (forall x, In x l -> f x = g x) -> flat_map f l = flat_map g l.
Proof.
  induction l as [|a l IH]; cbn; intros H; [reflexivity|].
  rewrite (H a (or_introl eq_refl)), IH; [reflexivity|]. intros x Hx. apply H. right; assumption.
Qed.

Lemma children_ext m m' v1 v2 v3 :
  m v1 v2 = m' v1 v2 -> m v2 v3 = m' v2 v3 -> m v3 v1 = m' v3 v1 ->
  children m (v1, v2, v3) = children m' (v1, v2, v3).
Proof. intros A B C. unfold children. now rewrite A, B, C. Qed.

(** agreement of the numbering on processed edges when [seen] grows *)
Lemma mu_grow n0 D seen st seen' x y :
  J n0 D seen st -> NoDup (map fst seen') -> (forall z, In z seen -> In z seen') ->
  In (x, y) D -> mu seen' x y = mu seen x y.
Proof.
  intros HJ N' Hsub Hin.
  assert (Hd : In (okey x y) (map fst seen)) by (apply (J_dom _ _ _ _ HJ); exists x, y; auto).
  apply in_map_iff in Hd as [[e i] [E Hs]]. cbn in E; subst e.
  rewrite (mu_in seen x y i (J_keys _ _ _ _ HJ) Hs). apply mu_in; auto.
Qed.

Lemma subdivide_spec n0 : forall R P seen st out,
  J n0 (dedges_of P) seen st -> out = flat_map (children (mu seen)) P ->
  NoDup (dedges_of (P ++ R)) ->
  (forall p q r, In (p, q, r) (RT R) -> p <> q /\ 0 <= p) ->
  exists seen', J n0 (dedges_of (P ++ R)) seen' (snd (fold_left step R (out, st))) /\
                fst (fold_left step R (out, st)) = flat_map (children (mu seen')) (P ++ R).
Proof.
  induction R as [|[[v1 v2] v3] R IH]; intros P seen st out HJ Hout HN HR.
  - exists seen. rewrite app_nil_r. cbn. split; assumption.
  - cbn [fold_left].
    assert (Hs : step (out, st) (v1, v2, v3) =
                 (let r1 := add_mid_point v1 v2 st in
                  let r2 := add_mid_point v2 v3 (snd r1) in
                  let r3 := add_mid_point v3 v1 (snd r2) in
                  (out ++ [(v1, fst r1, fst r3); (v2, fst r2, fst r1); (v3, fst r3, fst r2); (fst r1, fst r2, fst r3)],
                   snd r3))).
    { unfold step. cbn [fst snd]. rewrite sub_tri_eq. reflexivity. }
    rewrite Hs. clear Hs. cbv zeta.
    set (D := dedges_of P) in *.
    pose proof HN as HN0.
    rewrite dedges_of_app in HN. fold D in HN.
    change (dedges_of ((v1, v2, v3) :: R)) with ((v1, v2) :: (v2, v3) :: (v3, v1) :: dedges_of R) in HN.
    assert (F1 : In (v1, v2, v3) (RT ((v1, v2, v3) :: R))) by (cbn; auto).
    assert (F2 : In (v2, v3, v1) (RT ((v1, v2, v3) :: R))) by (cbn; auto).
    assert (F3 : In (v3, v1, v2) (RT ((v1, v2, v3) :: R))) by (cbn; auto).
    destruct (HR _ _ _ F1) as [A1 B1], (HR _ _ _ F2) as [A2 B2], (HR _ _ _ F3) as [A3 B3].
    (* first midpoint *)
    assert (N1 : ~ In (v1, v2) D).
    { pose proof (NoDup_remove_2 _ _ _ HN) as X. rewrite in_app_iff in X. tauto. }
    destruct (add_mid_point_step n0 D seen st v1 v2 HJ N1 A1 B1 B2) as [seen1 [J1 [S1 M1]]].
    set (r1 := add_mid_point v1 v2 st) in *.
    (* second *)
    assert (N2 : ~ In (v2, v3) (D ++ [(v1, v2)])).
    { replace (D ++ (v1, v2) :: (v2, v3) :: (v3, v1) :: dedges_of R)
        with ((D ++ [(v1, v2)]) ++ (v2, v3) :: (v3, v1) :: dedges_of R) in HN by (rewrite <- app_assoc; reflexivity).
      pose proof (NoDup_remove_2 _ _ _ HN) as X. rewrite in_app_iff in X. tauto. }
    destruct (add_mid_point_step n0 _ seen1 (snd r1) v2 v3 J1 N2 A2 B2 B3) as [seen2 [J2 [S2 M2]]].
    set (r2 := add_mid_point v2 v3 (snd r1)) in *.
    (* third *)
    assert (N3 : ~ In (v3, v1) ((D ++ [(v1, v2)]) ++ [(v2, v3)])).
    { replace (D ++ (v1, v2) :: (v2, v3) :: (v3, v1) :: dedges_of R)
        with (((D ++ [(v1, v2)]) ++ [(v2, v3)]) ++ (v3, v1) :: dedges_of R) in HN
        by (rewrite <- !app_assoc; reflexivity).
      pose proof (NoDup_remove_2 _ _ _ HN) as X. rewrite in_app_iff in X. tauto. }
    destruct (add_mid_point_step n0 _ seen2 (snd r2) v3 v1 J2 N3 A3 B3 B1) as [seen3 [J3 [S3 M3]]].
    set (r3 := add_mid_point v3 v1 (snd r2)) in *.
    assert (HD3 : ((D ++ [(v1, v2)]) ++ [(v2, v3)]) ++ [(v3, v1)] = dedges_of (P ++ [(v1, v2, v3)])).
    { rewrite dedges_of_app. fold D. cbn. rewrite <- !app_assoc. reflexivity. }
    rewrite HD3 in J3.
    pose proof (J_keys _ _ _ _ J3) as K3.
    (* the children computed by the code are the children w.r.t. the final numbering *)
    assert (Hch : out ++ [(v1, fst r1, fst r3); (v2, fst r2, fst r1); (v3, fst r3, fst r2); (fst r1, fst r2, fst r3)]
                  = flat_map (children (mu seen3)) (P ++ [(v1, v2, v3)])).
    { rewrite flat_map_app. f_equal.
      - rewrite Hout. apply flat_map_ext_in'. intros [[a b] c] Ht.
        assert (Ein : forall x y, In (x, y) (dedges (a, b, c)) -> In (x, y) D).
        { intros x y Hxy. unfold D, dedges_of. apply in_flat_map. exists (a, b, c). split; assumption. }
        apply children_ext; symmetry;
          apply (mu_grow n0 D seen st seen3); auto; try (apply Ein; cbn; auto).
      - cbn [flat_map app children].
        rewrite (mu_in seen3 v1 v2 (fst r1)), (mu_in seen3 v2 v3 (fst r2)), (mu_in seen3 v3 v1 (fst r3)); auto. }
    rewrite Hch.
    destruct (IH (P ++ [(v1, v2, v3)]) seen3 (snd r3) _ J3 eq_refl) as [seen' [J' E']].
    + rewrite <- app_assoc. cbn [app]. assumption.
    + intros p q r H. apply (HR p q r). cbn [RT flat_map]. apply in_app_iff. right. assumption.
    + exists seen'. rewrite <- app_assoc in J', E'. cbn [app] in J', E'. split; assumption.
Qed.

(** ** one subdivision pass on a good surface *)
Lemma RT_length ts : length (RT ts) = (3 * length ts)%nat.
Proof. unfold RT. apply flat_map_length_const. intros [[a b] c]. reflexivity. Qed.
Lemma dedges_of_length ts : length (dedges_of ts) = (3 * length ts)%nat.
Proof. rewrite dedges_RT, map_length. apply RT_length. Qed.

Theorem subdivide_pass n ts created :
  good n ts ->
  let res := subdivide ts (IcoState [] n created) in
  good (ic_next (snd res)) (fst res) /\
  ic_cache (snd res) = [] /\
  2 * (ic_next (snd res) - n) = 3 * Z.of_nat (length ts) /\
  length (fst res) = (4 * length ts)%nat.
Proof.
  intros G res. unfold res. clear res. rewrite subdivide_fold.
  set (res := fold_left step ts ([], IcoState [] n created)).
  destruct (subdivide_spec n ts [] [] (IcoState [] n created) [] (J_init n created) eq_refl) as [seen [HJ E]].
  - cbn [app]. destruct G as [N _]. exact N.
  - intros p q r H. destruct G as [_ [_ [D _]]]. destruct (D p q r H). split; [assumption|lia].
  - cbn [app] in HJ, E. fold res in HJ, E.
    set (D := dedges_of ts) in *.
    pose proof (J_keys _ _ _ _ HJ) as Kk.
    assert (Hdom : forall x y, In (x, y) D -> exists i, In (okey x y, i) seen).
    { intros x y H. assert (Hd : In (okey x y) (map fst seen)) by (apply (J_dom _ _ _ _ HJ); exists x, y; auto).
      apply in_map_iff in Hd as [[e i] [E0 Hs]]. cbn in E0; subst e. exists i. assumption. }
    (* the cache is empty: every edge has been used in both directions *)
    assert (Hc : ic_cache (snd res) = []).
    { destruct (ic_cache (snd res)) as [|[k i] c] eqn:Ec; [reflexivity|exfalso].
      assert (Hin : In (k, i) (ic_cache (snd res))) by (rewrite Ec; left; reflexivity).
      apply (J_cache _ _ _ _ HJ) in Hin as [e [_ [Hs Ho]]].
      assert (Hd : In e (map fst seen)) by (apply in_map_iff; exists (e, i); split; auto).
      apply (J_dom _ _ _ _ HJ) in Hd as [a [b [Hab <-]]].
      destruct G as [_ [Rv [Dd _]]].
      assert (Hne : a <> b).
      { pose proof Hab as Hab'. unfold D in Hab'. rewrite dedges_RT in Hab'.
        apply in_map_iff in Hab' as [[[x y] z] [E0 Hx]].
        cbn in E0. inversion E0; subst. exact (proj1 (Dd _ _ _ Hx)). }
      apply (proj1 (open_in_okey D a b Hne)) in Ho. pose proof (Rv a b Hab) as Hba. fold D in Hba. tauto. }
    split; [|split; [exact Hc|split]].
    + rewrite E. apply (subdivide_good n (ic_next (snd res)) ts (mu seen) G).
      * intros x y. apply mu_sym.
      * intros x y H. destruct (Hdom x y H) as [i Hi]. rewrite (mu_in seen x y i Kk Hi).
        apply (J_rng _ _ _ _ HJ) in Hi. assumption.
      * intros x y x' y' H H' Em. destruct (Hdom x y H) as [i Hi], (Hdom x' y' H') as [i' Hi'].
        rewrite (mu_in seen x y i Kk Hi), (mu_in seen x' y' i' Kk Hi') in Em. subst i'.
        apply okey_cases. apply (ids_inj seen _ _ i (J_ids _ _ _ _ HJ)); assumption.
    + pose proof (J_cnt _ _ _ _ HJ) as Cn. pose proof (J_next _ _ _ _ HJ) as Nx.
      rewrite Hc in Cn. cbn [length] in Cn. unfold D in Cn. rewrite dedges_of_length in Cn. lia.
    + rewrite E. rewrite (flat_map_length_const _ 4%nat); [reflexivity|]. intros [[a b] c]. reflexivity.
Qed.

(** ** the base table: executable test of [good] *)
Definition tri_eqb (t t' : tri) : bool :=
  let '(a, b, c) := t in let '(a', b', c') := t' in (a =? a') && (b =? b') && (c =? c').
Lemma tri_eqb_eq t t' : tri_eqb t t' = true <-> t = t'.
Proof.
  destruct t as [[a b] c], t' as [[a' b'] c']. cbn. rewrite !andb_true_iff, !Z.eqb_eq.
  split; [intros [[] ]; congruence|]. intros E; inversion E; auto.
Qed.

Fixpoint nodupb {A} (eqb : A -> A -> bool) (l : list A) : bool :=
  match l with
  | [] => true
  | x :: r => negb (existsb (eqb x) r) && nodupb eqb r
  end.
Lemma nodupb_sound {A} (eqb : A -> A -> bool) (l : list A) :
  (forall x y, eqb x y = true <-> x = y) -> nodupb eqb l = true -> NoDup l.
Proof.
  intros He. induction l as [|x r IH]; cbn; intros H; [constructor|].
  apply andb_true_iff in H as [H1 H2]. constructor; [|auto].
  intros Hin. apply negb_true_iff in H1. assert (existsb (eqb x) r = true); [|congruence].
  apply existsb_exists. exists x. split; [assumption|]. apply He. reflexivity.
Qed.

Definition goodb (n : Z) (ts : list tri) : bool :=
  nodupb edge_eqb (dedges_of ts) &&
  forallb (fun e => existsb (edge_eqb (snd e, fst e)) (dedges_of ts)) (dedges_of ts) &&
  forallb (fun t => let '(p, q, _) := t in negb (p =? q) && (0 <=? p) && (p <? n)) (RT ts) &&
  forallb (fun t => let '(p, q, r) := t in negb (existsb (tri_eqb (q, p, r)) (RT ts))) (RT ts).

Lemma goodb_sound n ts : goodb n ts = true -> good n ts.
Proof.
  unfold goodb, good. intros H. repeat (apply andb_true_iff in H as [H ?]). repeat split.
  - apply (nodupb_sound edge_eqb); [apply edge_eqb_eq|assumption].
  - intros a b Hab. rewrite forallb_forall in H2. specialize (H2 _ Hab). cbn in H2.
    apply existsb_exists in H2 as [e [He E]]. apply edge_eqb_eq in E. subst e. assumption.
  - rewrite forallb_forall in H1. specialize (H1 _ H3). cbn in H1.
    repeat (apply andb_true_iff in H1 as [H1 ?]). apply negb_true_iff, Z.eqb_neq in H1. assumption.
  - rewrite forallb_forall in H1. specialize (H1 _ H3). cbn in H1.
    repeat (apply andb_true_iff in H1 as [H1 ?]). apply Z.leb_le in H5. assumption.
  - rewrite forallb_forall in H1. specialize (H1 _ H3). cbn in H1.
    repeat (apply andb_true_iff in H1 as [H1 ?]). apply Z.ltb_lt in H4. assumption.
  - intros p q r Hp Hq. rewrite forallb_forall in H0. specialize (H0 _ Hp). cbn in H0.
    apply negb_true_iff in H0. assert (X : existsb (tri_eqb (q, p, r)) (RT ts) = true); [|congruence].
    apply existsb_exists. exists (q, p, r). split; [assumption|]. apply tri_eqb_eq. reflexivity.
Qed.

(** the icosahedron table of the source is a good surface on the vertex ids 0..11 *)
Lemma ico_base_good : good ico_first_new ico_tris.
Proof. apply goodb_sound. vm_compute. reflexivity. Qed.

(** ** every order *)
Lemma ico_iter_good : forall order n ts created,
  good n ts ->
  let res := ico_iter order ts (IcoState [] n created) in
  good (ic_next (snd res)) (fst res) /\ ic_cache (snd res) = [] /\
  2 * (ic_next (snd res) - 2) - Z.of_nat (length (fst res)) = (2 * (n - 2) - Z.of_nat (length ts)) /\
  length (fst res) = (4 ^ order * length ts)%nat.
Proof.
  induction order as [|o IH]; intros n ts created G.
  - cbn [ico_iter fst snd ic_next ic_cache]. split; [assumption|split; [reflexivity|split; [reflexivity|]]].
    cbn. lia.
  - cbn [ico_iter]. pose proof (subdivide_pass n ts created G) as P. cbv zeta in P.
    destruct (subdivide ts (IcoState [] n created)) as [ts' st'] eqn:Es. cbn [fst snd] in P.
    destruct P as (G' & Hc & Hn & Hl). destruct st' as [cache' next' created']. cbn [ic_cache ic_next] in *. subst cache'.
    specialize (IH next' ts' created' G'). cbv zeta in IH. destruct IH as (A & B & C & D).
    split; [assumption|split; [assumption|split]].
    + rewrite C. lia.
    + rewrite D, Hl. rewrite Nat.pow_succ_r'. lia.
Qed.

Theorem ico_topology_closed order :
  let ts := fst (ico_topology order) in
  let st := snd (ico_topology order) in
  (* every directed edge exactly once *)
  NoDup (dedges_of ts) /\
  (* and its reverse too: closed, consistently oriented *)
  (forall a b, In (a, b) (dedges_of ts) -> In (b, a) (dedges_of ts)) /\
  (* triangles are non-degenerate and refer to vertices created so far *)
  (forall a b c, In (a, b, c) ts -> a <> b /\ b <> c /\ c <> a /\
                                    0 <= a < ic_next st /\ 0 <= b < ic_next st /\ 0 <= c < ic_next st) /\
  (* the cache is empty again; counts *)
  ic_cache st = [] /\
  ic_next st = 10 * 4 ^ Z.of_nat order + 2 /\
  length ts = (20 * 4 ^ order)%nat.
Proof.
  intros ts st. unfold ico_topology in *.
  pose proof (ico_iter_good order ico_first_new ico_tris [] ico_base_good) as H. cbv zeta in H.
  fold ts st in H. destruct H as (G & Hc & Hn & Hl).
  change (@length tri ico_tris) with 20%nat in Hl, Hn. change ico_first_new with 12 in Hn.
  assert (Hlen : length ts = (20 * 4 ^ order)%nat) by lia.
  split; [exact (proj1 G)|]. split; [exact (proj1 (proj2 G))|]. split; [|split; [exact Hc|split; [|exact Hlen]]].
  - intros a b c Hin.
    assert (HR : In (a, b, c) (RT ts)) by (unfold RT; apply in_flat_map; exists (a, b, c); split; [assumption|cbn; auto]).
    destruct (RT_facts _ _ G a b c HR) as (A1 & A2 & A3 & B1 & B2 & B3 & _). repeat split; assumption || lia.
  - rewrite Hlen in Hn. rewrite Nat2Z.inj_mul, Nat2Z.inj_pow in Hn.
    change (Z.of_nat 20) with 20 in Hn. change (Z.of_nat 4) with 4 in Hn.
    set (w := 4 ^ Z.of_nat order) in *. lia.
Qed.
