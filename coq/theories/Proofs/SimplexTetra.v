(** * Jolt simplex solver, four points: [closest_point_tetrahedron] (Model/Simplex.v over [ROps]).

    For ALL real inputs:
    - [tetra_structure]: the result is the origin with all four bits iff no face is examined,
      otherwise it is the result of [closest_point_triangle] on an examined face (bit set
      translated) with the smallest squared norm among the examined faces;
    - [jolt_tetra_inside]: non-degenerate tetrahedron, origin strictly inside beyond the +-EPSILON
      band of every plane test: the origin is returned, with all four bits -- exact;
    - [jolt_tetra_outside]: non-degenerate tetrahedron with non-degenerate faces, origin strictly
      outside (some barycentric coordinate of the origin negative), squared vertex norms below
      MAX_FLOAT: the result is the exact minimum-norm point and the bit set names a subset
      whose hull contains it.  (Ray argument: the segment from any hull point to the origin leaves
      the tetrahedron through a face whose plane has the origin outside; that face is examined.)
    Not covered (PARTIAL): origin inside but within the band (false there: C18_jolt_refuted),
    degenerate tetrahedra (mixed signs) and degenerate faces -- covered on the lattice by
    Proofs/SimplexLattice4.v. *)
From Coq Require Import List NArith QArith Qreals Reals Lra Psatz Bool Lia.
From D3 Require Import Base.Ops Base.Vec Base.RVec Spec.Convex Spec.ConvexHull Model.Simplex
  Proofs.SimplexLine Proofs.SimplexTriangle.
Import ListNotations.
Local Open Scope R_scope.

Definition maxf : R := @MAX_FLOAT R ROps.

(** the four faces in the order and orientation of the source, and the translation of their bit sets *)
Definition remap1 (s : N) : N := (N.land s 1 + N.shiftl (N.land s 6) 1)%N.
Definition remap2 (s : N) : N := (N.land s 1 + N.shiftl (N.land s 2) 2 + N.shiftr (N.land s 4) 1)%N.
Definition remap3 (s : N) : N := (N.shiftl (N.land s 1) 1 + N.shiftl (N.land s 2) 2 + N.land s 4)%N.

Definition tcand (a b c d : V3R) (i : nat) : V3R * N :=
  match i with
  | 0%nat => @closest_point_triangle R ROps a b c
  | 1%nat => let q := @closest_point_triangle R ROps a c d in (fst q, remap1 (snd q))
  | 2%nat => let q := @closest_point_triangle R ROps a d b in (fst q, remap2 (snd q))
  | _ => let q := @closest_point_triangle R ROps b d c in (fst q, remap3 (snd q))
  end.
Definition texamined (a b c d : V3R) (i : nat) : bool :=
  let '(o0, o1, o2, o3) := @origin_outside_of_tetrahedron_planes R ROps a b c d in
  match i with 0%nat => o0 | 1%nat => o1 | 2%nat => o2 | _ => o3 end.

Ltac fin i :=
  exists i; split; [lia|]; split; [reflexivity|]; split; [reflexivity|];
  let j := fresh "j" in let Hj := fresh "Hj" in let Hex := fresh "Hex" in
  intros j Hj Hex; destruct j as [|[|[|[|j]]]]; cbn [fst snd] in *;
  try discriminate; try (exfalso; clear -Hj; lia); lra.

Lemma tetra_structure (a b c d : V3R) :
  let r := @closest_point_tetrahedron R ROps a b c d in
  (forall i, (i < 4)%nat -> dot (fst (tcand a b c d i)) (fst (tcand a b c d i)) < maxf) ->
  ((forall i, (i < 4)%nat -> texamined a b c d i = false) /\ r = (vzero, 15%N)) \/
  (exists i, (i < 4)%nat /\ texamined a b c d i = true /\ r = tcand a b c d i /\
             forall j, (j < 4)%nat -> texamined a b c d j = true ->
                       dot (fst r) (fst r) <= dot (fst (tcand a b c d j)) (fst (tcand a b c d j))).
Proof.
  intros r Hm.
  pose proof (Hm 0%nat ltac:(auto)) as M0. pose proof (Hm 1%nat ltac:(auto)) as M1.
  pose proof (Hm 2%nat ltac:(auto)) as M2. pose proof (Hm 3%nat ltac:(auto)) as M3.
  clear Hm. unfold r. clear r.
  unfold texamined, tcand in *.
  unfold closest_point_tetrahedron, closest_point_tetrahedron_t, closest_point_tetrahedron_t_with.
  unfold origin_outside_of_tetrahedron_planes in *.
  destruct (origin_outside_of_tetrahedron_planes_t a b c d) as [[[[p0 p1] p2] p3] tp].
  unfold closest_point_triangle in *.
  destruct (closest_point_triangle_t a b c) as [[v0 s0] t0].
  destruct (closest_point_triangle_t a c d) as [[v1 s1] t1].
  destruct (closest_point_triangle_t a d b) as [[v2 s2] t2].
  destruct (closest_point_triangle_t b d c) as [[v3 s3] t3].
  cbn [fst snd] in *. cbn [ltb ROps]. fold maxf.
  assert (Hall : forall P : nat -> Prop, P 0%nat -> P 1%nat -> P 2%nat -> P 3%nat -> forall j, (j < 4)%nat -> P j).
  { intros P H0 H1 H2 H3 j Hj. destruct j as [|[|[|[|j]]]]; auto. exfalso. clear -Hj. lia. }
  destruct p0, p1, p2, p3; cbn [fst snd];
    repeat match goal with
           | |- context [Rltb ?x ?y] =>
             let E := fresh "E" in destruct (Rltb x y) eqn:E; [apply Rltb_true in E | apply Rltb_false in E]
           end; cbn [fst snd];
    try (left; split; [apply Hall; reflexivity|reflexivity]);
    try (exfalso; lra).
  all: right.
  all: first [ fin 0%nat | fin 1%nat | fin 2%nat | fin 3%nat ].
Qed.


(** ** the ray from a hull point towards the origin leaves the tetrahedron through a face whose
       opposite barycentric coordinate of the origin is negative *)
Definition tstar (w m : R) : R := if Rlt_dec m 0 then w / (w - m) else 1.

Lemma tstar_range w m : 0 <= w -> 0 <= tstar w m <= 1.
Proof.
  intros Hw. unfold tstar. destruct (Rlt_dec m 0) as [Hm|Hm]; [|lra].
  assert (Hd : 0 < w - m) by lra.
  split.
  - apply Rmult_le_pos; [lra|left; apply Rinv_0_lt_compat; lra].
  - apply (Rmult_le_reg_r (w - m)); [lra|]. unfold Rdiv. rewrite Rmult_assoc, Rinv_l; lra.
Qed.

Lemma tstar_lt1 w m : 0 <= w -> m < 0 -> tstar w m < 1.
Proof.
  intros Hw Hm. unfold tstar. destruct (Rlt_dec m 0) as [_|]; [|lra].
  apply (Rmult_lt_reg_r (w - m)); [lra|]. unfold Rdiv. rewrite Rmult_assoc, Rinv_l; lra.
Qed.

(** below its own bound, coordinate stays non-negative *)
Lemma coord_nonneg w m t : 0 <= w -> 0 <= t <= tstar w m -> t <= 1 -> 0 <= (1 - t) * w + t * m.
Proof.
  intros Hw [Ht0 Ht] Ht1. unfold tstar in Ht. destruct (Rlt_dec m 0) as [Hm|Hm].
  - assert (Hd : 0 < w - m) by lra.
    assert (t * (w - m) <= w).
    { apply (Rmult_le_compat_r (w - m)) in Ht; [|lra]. unfold Rdiv in Ht. rewrite Rmult_assoc, Rinv_l in Ht; lra. }
    lra.
  - assert (0 <= (1 - t) * w) by (apply Rmult_le_pos; lra).
    assert (0 <= t * m) by (apply Rmult_le_pos; lra). lra.
Qed.
Lemma coord_zero w m : 0 <= w -> m < 0 -> (1 - tstar w m) * w + tstar w m * m = 0.
Proof.
  intros Hw Hm. unfold tstar. destruct (Rlt_dec m 0) as [_|]; [|lra]. field. lra.
Qed.

Lemma rmin_or x y : Rmin x y = x \/ Rmin x y = y.
Proof. unfold Rmin; destruct (Rle_dec x y); auto. Qed.

Lemma hull4_weights (a b c d x : V3R) :
  conv_hull [a; b; c; d] x ->
  exists w0 w1 w2 w3, 0 <= w0 /\ 0 <= w1 /\ 0 <= w2 /\ 0 <= w3 /\ w0 + w1 + w2 + w3 = 1 /\
    x = vadd (vadd (vadd (vscale w0 a) (vscale w1 b)) (vscale w2 c)) (vscale w3 d).
Proof.
  intros (ws & Hl & Hw & Hs & ->).
  destruct ws as [|w0 [|w1 [|w2 [|w3 [|? ?]]]]]; simpl in Hl; try discriminate.
  inversion Hw as [|? ? H0 Hw1]; subst. inversion Hw1 as [|? ? H1 Hw2]; subst.
  inversion Hw2 as [|? ? H2 Hw3]; subst. inversion Hw3 as [|? ? H3 _]; subst.
  exists w0, w1, w2, w3. simpl in Hs. repeat split; auto; try lra.
  simpl. vsimp. f_equal; ring.
Qed.

Lemma ray_hits_face (a b c d : V3R) (m0 m1 m2 m3 : R) :
  m0 + m1 + m2 + m3 = 1 ->
  vadd (vadd (vadd (vscale m0 a) (vscale m1 b)) (vscale m2 c)) (vscale m3 d) = vzero ->
  (m0 < 0 \/ m1 < 0 \/ m2 < 0 \/ m3 < 0) ->
  forall x, conv_hull [a; b; c; d] x ->
  exists y, norm y <= norm x /\
    ((m0 < 0 /\ conv_hull [b; c; d] y) \/ (m1 < 0 /\ conv_hull [a; c; d] y) \/
     (m2 < 0 /\ conv_hull [a; b; d] y) \/ (m3 < 0 /\ conv_hull [a; b; c] y)).
Proof.
  intros Hsum Hzero Hneg x Hx.
  destruct (hull4_weights _ _ _ _ _ Hx) as (w0 & w1 & w2 & w3 & H0 & H1 & H2 & H3 & Hw & ->).
  set (t0 := tstar w0 m0). set (t1 := tstar w1 m1). set (t2 := tstar w2 m2). set (t3 := tstar w3 m3).
  set (t := Rmin (Rmin t0 t1) (Rmin t2 t3)).
  pose proof (tstar_range w0 m0 H0) as R0. pose proof (tstar_range w1 m1 H1) as R1.
  pose proof (tstar_range w2 m2 H2) as R2. pose proof (tstar_range w3 m3 H3) as R3.
  fold t0 in R0. fold t1 in R1. fold t2 in R2. fold t3 in R3.
  assert (Ht0 : t <= t0) by (unfold t; eapply Rle_trans; [apply Rmin_l|apply Rmin_l]).
  assert (Ht1 : t <= t1) by (unfold t; eapply Rle_trans; [apply Rmin_l|apply Rmin_r]).
  assert (Ht2 : t <= t2) by (unfold t; eapply Rle_trans; [apply Rmin_r|apply Rmin_l]).
  assert (Ht3 : t <= t3) by (unfold t; eapply Rle_trans; [apply Rmin_r|apply Rmin_r]).
  assert (Htpos : 0 <= t).
  { unfold t. apply Rmin_glb; apply Rmin_glb; lra. }
  assert (Htlt : t < 1).
  { destruct Hneg as [Hn|[Hn|[Hn|Hn]]].
    - pose proof (tstar_lt1 w0 m0 H0 Hn). fold t0 in H. lra.
    - pose proof (tstar_lt1 w1 m1 H1 Hn). fold t1 in H. lra.
    - pose proof (tstar_lt1 w2 m2 H2 Hn). fold t2 in H. lra.
    - pose proof (tstar_lt1 w3 m3 H3 Hn). fold t3 in H. lra. }
  set (c0 := (1 - t) * w0 + t * m0). set (c1 := (1 - t) * w1 + t * m1).
  set (c2 := (1 - t) * w2 + t * m2). set (c3 := (1 - t) * w3 + t * m3).
  assert (C0 : 0 <= c0) by (apply coord_nonneg; auto; lra).
  assert (C1 : 0 <= c1) by (apply coord_nonneg; auto; lra).
  assert (C2 : 0 <= c2) by (apply coord_nonneg; auto; lra).
  assert (C3 : 0 <= c3) by (apply coord_nonneg; auto; lra).
  assert (Csum : c0 + c1 + c2 + c3 = 1) by (unfold c0, c1, c2, c3; nra).
  set (x := vadd (vadd (vadd (vscale w0 a) (vscale w1 b)) (vscale w2 c)) (vscale w3 d)).
  set (y := vscale (1 - t) x).
  assert (Hy : y = vadd (vadd (vadd (vscale c0 a) (vscale c1 b)) (vscale c2 c)) (vscale c3 d)).
  { assert (E : y = vadd (vscale (1 - t) x) (vscale t vzero)) by (unfold y; generalize x; intros z; vsimp; f_equal; ring).
    rewrite E, <- Hzero. unfold x, c0, c1, c2, c3. vsimp. f_equal; ring. }
  exists y. split.
  { unfold y. rewrite norm_scale, Rabs_right by lra. pose proof (norm_nonneg x). nra. }
  (* which bound is attained *)
  assert (Hmin : t = t0 \/ t = t1 \/ t = t2 \/ t = t3).
  { unfold t. destruct (rmin_or (Rmin t0 t1) (Rmin t2 t3)) as [E|E]; rewrite E.
    - destruct (rmin_or t0 t1) as [E'|E']; rewrite E'; auto.
    - destruct (rmin_or t2 t3) as [E'|E']; rewrite E'; auto. }
  assert (Hcase : (m0 < 0 /\ c0 = 0) \/ (m1 < 0 /\ c1 = 0) \/ (m2 < 0 /\ c2 = 0) \/ (m3 < 0 /\ c3 = 0)).
  { destruct Hmin as [E|[E|[E|E]]].
    - left. assert (Hm : m0 < 0).
      { destruct (Rlt_dec m0 0); auto. exfalso. unfold t0, tstar in E. destruct (Rlt_dec m0 0); [contradiction|]. lra. }
      split; auto. unfold c0. rewrite E. apply coord_zero; auto.
    - right; left. assert (Hm : m1 < 0).
      { destruct (Rlt_dec m1 0); auto. exfalso. unfold t1, tstar in E. destruct (Rlt_dec m1 0); [contradiction|]. lra. }
      split; auto. unfold c1. rewrite E. apply coord_zero; auto.
    - right; right; left. assert (Hm : m2 < 0).
      { destruct (Rlt_dec m2 0); auto. exfalso. unfold t2, tstar in E. destruct (Rlt_dec m2 0); [contradiction|]. lra. }
      split; auto. unfold c2. rewrite E. apply coord_zero; auto.
    - right; right; right. assert (Hm : m3 < 0).
      { destruct (Rlt_dec m3 0); auto. exfalso. unfold t3, tstar in E. destruct (Rlt_dec m3 0); [contradiction|]. lra. }
      split; auto. unfold c3. rewrite E. apply coord_zero; auto. }
  destruct Hcase as [[Hm Hc]|[[Hm Hc]|[[Hm Hc]|[Hm Hc]]]].
  - left. split; auto. rewrite Hy, Hc.
    replace (vadd (vadd (vadd (vscale 0 a) (vscale c1 b)) (vscale c2 c)) (vscale c3 d))
      with (vadd (vadd (vscale c1 b) (vscale c2 c)) (vscale c3 d)) by (vsimp; f_equal; ring).
    apply conv_hull_3; auto; lra.
  - right; left. split; auto. rewrite Hy, Hc.
    replace (vadd (vadd (vadd (vscale c0 a) (vscale 0 b)) (vscale c2 c)) (vscale c3 d))
      with (vadd (vadd (vscale c0 a) (vscale c2 c)) (vscale c3 d)) by (vsimp; f_equal; ring).
    apply conv_hull_3; auto; lra.
  - right; right; left. split; auto. rewrite Hy, Hc.
    replace (vadd (vadd (vadd (vscale c0 a) (vscale c1 b)) (vscale 0 c)) (vscale c3 d))
      with (vadd (vadd (vscale c0 a) (vscale c1 b)) (vscale c3 d)) by (vsimp; f_equal; ring).
    apply conv_hull_3; auto; lra.
  - right; right; right. split; auto. rewrite Hy, Hc.
    replace (vadd (vadd (vadd (vscale c0 a) (vscale c1 b)) (vscale c2 c)) (vscale 0 d))
      with (vadd (vadd (vscale c0 a) (vscale c1 b)) (vscale c2 c)) by (vsimp; f_equal; ring).
    apply conv_hull_3; auto; lra.
Qed.


(** ** the plane tests in terms of the barycentric coordinates of the origin *)
Definition V6 (a b c d : V3R) : R := dot (vsub d a) (cross (vsub b a) (vsub c a)).
Definition sp0 (a b c d : V3R) : R := dot a (cross (vsub b a) (vsub c a)).
Definition sp1 (a b c d : V3R) : R := dot a (cross (vsub c a) (vsub d a)).
Definition sp2 (a b c d : V3R) : R := dot a (cross (vsub d a) (vsub b a)).
Definition sp3 (a b c d : V3R) : R := dot b (cross (vsub d b) (vsub c b)).

Lemma signd1_eq a b c d : dot (vsub b a) (cross (vsub c a) (vsub d a)) = V6 a b c d.
Proof. unfold V6. vsimp. ring. Qed.
Lemma signd2_eq a b c d : dot (vsub c a) (cross (vsub d a) (vsub b a)) = V6 a b c d.
Proof. unfold V6. vsimp. ring. Qed.
Lemma signd3_eq a b c d : - dot (vsub b a) (cross (vsub d b) (vsub c b)) = V6 a b c d.
Proof. unfold V6. vsimp. ring. Qed.
Lemma sp_sum a b c d : sp0 a b c d + sp1 a b c d + sp2 a b c d + sp3 a b c d = - V6 a b c d.
Proof. unfold sp0, sp1, sp2, sp3, V6. vsimp. ring. Qed.
Lemma sp_origin a b c d :
  vadd (vadd (vadd (vscale (sp3 a b c d) a) (vscale (sp1 a b c d) b)) (vscale (sp2 a b c d) c))
       (vscale (sp0 a b c d) d) = vzero.
Proof. unfold sp0, sp1, sp2, sp3. vsimp. f_equal; ring. Qed.

Lemma oop_pos a b c d : 0 < V6 a b c d ->
  @origin_outside_of_tetrahedron_planes R ROps a b c d =
  (Rleb (- eps) (sp0 a b c d), Rleb (- eps) (sp1 a b c d), Rleb (- eps) (sp2 a b c d), Rleb (- eps) (sp3 a b c d)).
Proof.
  intros HV. unfold origin_outside_of_tetrahedron_planes, origin_outside_of_tetrahedron_planes_t.
  cbn [ltb leb ROps zero opp]. rewrite (signd1_eq a b c d), (signd2_eq a b c d), (signd3_eq a b c d).
  change (dot (vsub d a) (cross (vsub b a) (vsub c a))) with (V6 a b c d).
  replace (Rltb 0 (V6 a b c d)) with true by (symmetry; apply Rltb_true; exact HV).
  cbn [andb fst]. reflexivity.
Qed.
Lemma oop_neg a b c d : V6 a b c d < 0 ->
  @origin_outside_of_tetrahedron_planes R ROps a b c d =
  (Rleb (sp0 a b c d) eps, Rleb (sp1 a b c d) eps, Rleb (sp2 a b c d) eps, Rleb (sp3 a b c d) eps).
Proof.
  intros HV. unfold origin_outside_of_tetrahedron_planes, origin_outside_of_tetrahedron_planes_t.
  cbn [ltb leb ROps zero opp]. rewrite (signd1_eq a b c d), (signd2_eq a b c d), (signd3_eq a b c d).
  change (dot (vsub d a) (cross (vsub b a) (vsub c a))) with (V6 a b c d).
  replace (Rltb 0 (V6 a b c d)) with false by (symmetry; apply Rltb_false; lra).
  replace (Rltb (V6 a b c d) 0) with true by (symmetry; apply Rltb_true; exact HV).
  cbn [andb fst]. reflexivity.
Qed.

(** barycentric coordinates of the origin: (A, B, C, D) = -(sp3, sp1, sp2, sp0) / V6 *)
Lemma origin_in_hull a b c d :
  let v := V6 a b c d in
  v <> 0 -> 0 <= - sp3 a b c d / v -> 0 <= - sp1 a b c d / v -> 0 <= - sp2 a b c d / v -> 0 <= - sp0 a b c d / v ->
  conv_hull [a; b; c; d] vzero.
Proof.
  intros v Hv H3 H1 H2 H0.
  replace (vzero : V3R) with
    (vadd (vadd (vadd (vscale (- sp3 a b c d / v) a) (vscale (- sp1 a b c d / v) b)) (vscale (- sp2 a b c d / v) c))
          (vscale (- sp0 a b c d / v) d)).
  - apply conv_hull_4; auto. pose proof (sp_sum a b c d) as Hs. fold v in Hs.
    replace (- sp3 a b c d / v + - sp1 a b c d / v + - sp2 a b c d / v + - sp0 a b c d / v)
      with (- (sp0 a b c d + sp1 a b c d + sp2 a b c d + sp3 a b c d) / v) by (field; auto).
    rewrite Hs. field. auto.
  - pose proof (sp_origin a b c d) as Ho.
    replace (vadd (vadd (vadd (vscale (- sp3 a b c d / v) a) (vscale (- sp1 a b c d / v) b)) (vscale (- sp2 a b c d / v) c))
                  (vscale (- sp0 a b c d / v) d))
      with (vscale (- / v) (vadd (vadd (vadd (vscale (sp3 a b c d) a) (vscale (sp1 a b c d) b)) (vscale (sp2 a b c d) c))
                                 (vscale (sp0 a b c d) d))).
    + rewrite Ho. vsimp. f_equal; ring.
    + generalize (sp0 a b c d) (sp1 a b c d) (sp2 a b c d) (sp3 a b c d). intros s0 s1 s2 s3.
      vsimp. f_equal; field; auto.
Qed.


(** ** strictly inside (beyond the band): the origin is returned with all four bits *)
Theorem jolt_tetra_inside (a b c d : V3R) :
  (0 < V6 a b c d /\ sp0 a b c d < - eps /\ sp1 a b c d < - eps /\ sp2 a b c d < - eps /\ sp3 a b c d < - eps) \/
  (V6 a b c d < 0 /\ eps < sp0 a b c d /\ eps < sp1 a b c d /\ eps < sp2 a b c d /\ eps < sp3 a b c d) ->
  @closest_point_tetrahedron R ROps a b c d = (vzero, 15%N) /\
  conv_hull (update_simplex_y [a; b; c; d] 4 15) vzero /\ is_min_norm [a; b; c; d] vzero.
Proof.
  intros H. pose proof eps_pos as He.
  assert (Hoop : @origin_outside_of_tetrahedron_planes R ROps a b c d = (false, false, false, false)).
  { destruct H as [(HV & H0 & H1 & H2 & H3)|(HV & H0 & H1 & H2 & H3)].
    - rewrite oop_pos by auto. repeat f_equal; apply Rleb_false; lra.
    - rewrite oop_neg by auto. repeat f_equal; apply Rleb_false; lra. }
  assert (Hin : conv_hull [a; b; c; d] vzero).
  { destruct H as [(HV & H0 & H1 & H2 & H3)|(HV & H0 & H1 & H2 & H3)].
    - apply origin_in_hull; try lra;
        (apply Rmult_le_pos; [lra|left; apply Rinv_0_lt_compat; lra]).
    - assert (Hi : / V6 a b c d < 0) by (apply Rinv_lt_0_compat; lra).
      apply origin_in_hull; try lra; unfold Rdiv; nra. }
  split; [|split; [cbn; exact Hin|]].
  - unfold closest_point_tetrahedron, closest_point_tetrahedron_t, closest_point_tetrahedron_t_with.
    unfold origin_outside_of_tetrahedron_planes in Hoop.
    destruct (origin_outside_of_tetrahedron_planes_t a b c d) as [[[[p0 p1] p2] p3] tp].
    cbn [fst] in Hoop. injection Hoop as -> -> -> ->. reflexivity.
  - split; auto. intros x _.
    assert (E : norm (vzero : V3R) = 0) by (apply norm_zero_iff; reflexivity).
    rewrite E. apply norm_nonneg.
Qed.

(** ** bit sets of the faces, translated *)
Lemma face0_subset (a b c d p : V3R) s : tri_set_ok s ->
  conv_hull (update_simplex_y [a; b; c] 3 s) p -> conv_hull (update_simplex_y [a; b; c; d] 4 s) p.
Proof. intros [->|[->|[->|[->|[->|[->| ->]]]]]] H; exact H. Qed.
Lemma face1_subset (a b c d p : V3R) s : tri_set_ok s ->
  conv_hull (update_simplex_y [a; c; d] 3 s) p -> conv_hull (update_simplex_y [a; b; c; d] 4 (remap1 s)) p.
Proof. intros [->|[->|[->|[->|[->|[->| ->]]]]]] H; exact H. Qed.
Lemma face2_subset (a b c d p : V3R) s : tri_set_ok s ->
  conv_hull (update_simplex_y [a; d; b] 3 s) p -> conv_hull (update_simplex_y [a; b; c; d] 4 (remap2 s)) p.
Proof.
  intros [->|[->|[->|[->|[->|[->| ->]]]]]]; cbn; apply conv_hull_incl; intros v Hv; simpl in *; tauto.
Qed.
Lemma face3_subset (a b c d p : V3R) s : tri_set_ok s ->
  conv_hull (update_simplex_y [b; d; c] 3 s) p -> conv_hull (update_simplex_y [a; b; c; d] 4 (remap3 s)) p.
Proof.
  intros [->|[->|[->|[->|[->|[->| ->]]]]]]; cbn; apply conv_hull_incl; intros v Hv; simpl in *; tauto.
Qed.

Lemma maxf_pos : 0 < maxf.
Proof.
  unfold maxf, MAX_FLOAT. cbn [cst mul ROps].
  apply Rmult_lt_0_compat; [unfold Q2R; cbn [Qnum Qden]; lra|].
  generalize 971%nat. intros n. induction n; cbn [fpow one mul ROps]; [lra|].
  apply Rmult_lt_0_compat; [cbn [cst ROps]; unfold Q2R; cbn [Qnum Qden]; lra|exact IHn].
Qed.

Lemma maxf_big : 9007199254740991 <= maxf.
Proof.
  unfold maxf, MAX_FLOAT. cbn [cst mul ROps].
  assert (E : Q2R (9007199254740991 # 1) = 9007199254740991) by (unfold Q2R; cbn [Qnum Qden]; lra).
  assert (E2 : Q2R (2 # 1) = 2) by (unfold Q2R; cbn [Qnum Qden]; lra).
  rewrite E, E2.
  assert (H2 : forall n, 1 <= @fpow R ROps 2 n).
  { induction n; cbn [fpow one mul ROps]; [lra|]. nra. }
  specialize (H2 971%nat). nra.
Qed.

(** ** strictly outside a non-degenerate tetrahedron with non-degenerate faces: exact *)
Theorem jolt_tetra_outside (a b c d : V3R) :
  let nsq (u v w : V3R) := dot (cross (vsub v u) (vsub w u)) (cross (vsub v u) (vsub w u)) in
  eps * eps <= nsq a b c -> eps * eps <= nsq a c d -> eps * eps <= nsq a d b -> eps * eps <= nsq b d c ->
  dot a a < maxf -> dot b b < maxf -> dot c c < maxf -> dot d d < maxf ->
  (0 < V6 a b c d /\ (0 < sp0 a b c d \/ 0 < sp1 a b c d \/ 0 < sp2 a b c d \/ 0 < sp3 a b c d)) \/
  (V6 a b c d < 0 /\ (sp0 a b c d < 0 \/ sp1 a b c d < 0 \/ sp2 a b c d < 0 \/ sp3 a b c d < 0)) ->
  let r := @closest_point_tetrahedron R ROps a b c d in
  conv_hull (update_simplex_y [a; b; c; d] 4 (snd r)) (fst r) /\ is_min_norm [a; b; c; d] (fst r).
Proof.
  intros nsq N0 N1 N2 N3 Ma Mb Mc Md Hout r. pose proof eps_pos as He.
  destruct (jolt_triangle_correct a b c N0) as (S0 & U0 & [I0 L0]).
  destruct (jolt_triangle_correct a c d N1) as (S1 & U1 & [I1 L1]).
  destruct (jolt_triangle_correct a d b N2) as (S2 & U2 & [I2 L2]).
  destruct (jolt_triangle_correct b d c N3) as (S3 & U3 & [I3 L3]).
  set (q0 := @closest_point_triangle R ROps a b c) in *.
  set (q1 := @closest_point_triangle R ROps a c d) in *.
  set (q2 := @closest_point_triangle R ROps a d b) in *.
  set (q3 := @closest_point_triangle R ROps b d c) in *.
  assert (Hle : forall (p y : V3R), norm p <= norm y -> dot y y < maxf -> dot p p < maxf).
  { intros p y Hn Hy. pose proof (norm_sq p). pose proof (norm_sq y).
    pose proof (norm_nonneg p). pose proof (norm_nonneg y). nra. }
  assert (Ain0 : conv_hull [a; b; c] a) by (apply conv_hull_In; simpl; auto).
  assert (Ain1 : conv_hull [a; c; d] a) by (apply conv_hull_In; simpl; auto).
  assert (Ain2 : conv_hull [a; d; b] a) by (apply conv_hull_In; simpl; auto).
  assert (Bin3 : conv_hull [b; d; c] b) by (apply conv_hull_In; simpl; auto).
  assert (Hm : forall i, (i < 4)%nat -> dot (fst (tcand a b c d i)) (fst (tcand a b c d i)) < maxf).
  { intros i Hi. destruct i as [|[|[|[|i]]]]; cbn [tcand fst]; try (exfalso; clear -Hi; lia).
    - eapply Hle; [apply (L0 a Ain0)|auto].
    - eapply Hle; [apply (L1 a Ain1)|auto].
    - eapply Hle; [apply (L2 a Ain2)|auto].
    - eapply Hle; [apply (L3 b Bin3)|auto]. }
  (* hulls of the faces inside the hull of the tetrahedron *)
  assert (F0 : forall x, conv_hull [a; b; c] x -> conv_hull [a; b; c; d] x)
    by (apply conv_hull_incl; intros v Hv; simpl in *; tauto).
  assert (F1 : forall x, conv_hull [a; c; d] x -> conv_hull [a; b; c; d] x)
    by (apply conv_hull_incl; intros v Hv; simpl in *; tauto).
  assert (F2 : forall x, conv_hull [a; d; b] x -> conv_hull [a; b; c; d] x)
    by (apply conv_hull_incl; intros v Hv; simpl in *; tauto).
  assert (F3 : forall x, conv_hull [b; d; c] x -> conv_hull [a; b; c; d] x)
    by (apply conv_hull_incl; intros v Hv; simpl in *; tauto).
  assert (P2 : forall x, conv_hull [a; b; d] x -> conv_hull [a; d; b] x)
    by (apply conv_hull_incl; intros v Hv; simpl in *; tauto).
  assert (P3 : forall x, conv_hull [b; c; d] x -> conv_hull [b; d; c] x)
    by (apply conv_hull_incl; intros v Hv; simpl in *; tauto).
  (* barycentric coordinates of the origin *)
  set (v := V6 a b c d) in *.
  assert (Hv : v <> 0) by (destruct Hout as [[H _]|[H _]]; lra).
  set (m0 := - sp3 a b c d / v). set (m1 := - sp1 a b c d / v).
  set (m2 := - sp2 a b c d / v). set (m3 := - sp0 a b c d / v).
  assert (Msum : m0 + m1 + m2 + m3 = 1).
  { unfold m0, m1, m2, m3. pose proof (sp_sum a b c d) as Hs. fold v in Hs.
    replace (- sp3 a b c d / v + - sp1 a b c d / v + - sp2 a b c d / v + - sp0 a b c d / v)
      with (- (sp0 a b c d + sp1 a b c d + sp2 a b c d + sp3 a b c d) / v) by (field; auto).
    rewrite Hs. field. auto. }
  assert (Mzero : vadd (vadd (vadd (vscale m0 a) (vscale m1 b)) (vscale m2 c)) (vscale m3 d) = vzero).
  { pose proof (sp_origin a b c d) as Ho. unfold m0, m1, m2, m3.
    replace (vadd (vadd (vadd (vscale (- sp3 a b c d / v) a) (vscale (- sp1 a b c d / v) b)) (vscale (- sp2 a b c d / v) c))
                  (vscale (- sp0 a b c d / v) d))
      with (vscale (- / v) (vadd (vadd (vadd (vscale (sp3 a b c d) a) (vscale (sp1 a b c d) b)) (vscale (sp2 a b c d) c))
                                 (vscale (sp0 a b c d) d))).
    - rewrite Ho. vsimp. f_equal; ring.
    - generalize (sp0 a b c d) (sp1 a b c d) (sp2 a b c d) (sp3 a b c d). intros s0 s1 s2 s3.
      vsimp. f_equal; field; auto. }
  (* sign of a coordinate <-> the plane test *)
  assert (Hsign : forall s, (- s / v < 0) <-> ((0 < v /\ 0 < s) \/ (v < 0 /\ s < 0))).
  { intros s. split.
    - intros H. destruct (Rlt_dec 0 v) as [Hp|Hp].
      + left. split; auto. assert (Hi : 0 < / v) by (apply Rinv_0_lt_compat; auto). unfold Rdiv in H. nra.
      + right. assert (Hn : v < 0) by lra. split; auto.
        assert (Hi : / v < 0) by (apply Rinv_lt_0_compat; auto). unfold Rdiv in H. nra.
    - intros [[Hp Hs]|[Hn Hs]].
      + assert (Hi : 0 < / v) by (apply Rinv_0_lt_compat; auto). unfold Rdiv. nra.
      + assert (Hi : / v < 0) by (apply Rinv_lt_0_compat; auto). unfold Rdiv. nra. }
  assert (Mneg : m0 < 0 \/ m1 < 0 \/ m2 < 0 \/ m3 < 0).
  { unfold m0, m1, m2, m3. destruct Hout as [[HV [H|[H|[H|H]]]]|[HV [H|[H|[H|H]]]]];
      [right; right; right|right; left|right; right; left|left|right; right; right|right; left|right; right; left|left];
      apply Hsign; auto. }
  (* a negative coordinate means the face is examined *)
  assert (Hex : forall s, - s / v < 0 ->
            (0 < v -> Rleb (- eps) s = true) /\ (v < 0 -> Rleb s eps = true)).
  { intros s H. apply Hsign in H. split; intros Hs; apply Rleb_true; lra. }
  assert (Ex : (m3 < 0 -> texamined a b c d 0 = true) /\ (m1 < 0 -> texamined a b c d 1 = true) /\
               (m2 < 0 -> texamined a b c d 2 = true) /\ (m0 < 0 -> texamined a b c d 3 = true)).
  { unfold texamined. destruct (Rlt_dec 0 v) as [Hp|Hp].
    - fold v in Hp. rewrite (oop_pos a b c d Hp).
      repeat split; intros H; apply Hex in H; destruct H as [H _]; auto.
    - assert (Hn : v < 0) by lra. rewrite (oop_neg a b c d Hn).
      repeat split; intros H; apply Hex in H; destruct H as [_ H]; auto. }
  destruct Ex as (Ex0 & Ex1 & Ex2 & Ex3).
  (* the structure of the result *)
  destruct (tetra_structure a b c d Hm) as [[Hnone _]|(i & Hi & Hexi & Hr & Hbest)].
  { exfalso. destruct Mneg as [H|[H|[H|H]]].
    - rewrite (Hnone 3%nat) in Ex3 by lia. specialize (Ex3 H). discriminate.
    - rewrite (Hnone 1%nat) in Ex1 by lia. specialize (Ex1 H). discriminate.
    - rewrite (Hnone 2%nat) in Ex2 by lia. specialize (Ex2 H). discriminate.
    - rewrite (Hnone 0%nat) in Ex0 by lia. specialize (Ex0 H). discriminate. }
  fold r in Hr, Hbest.
  assert (Hsub : conv_hull (update_simplex_y [a; b; c; d] 4 (snd r)) (fst r) /\ conv_hull [a; b; c; d] (fst r)).
  { rewrite Hr. destruct i as [|[|[|[|i]]]]; cbn [tcand fst snd]; try (exfalso; clear -Hi; lia).
    - split; [apply face0_subset; auto|apply F0; auto].
    - split; [apply face1_subset; auto|apply F1; auto].
    - split; [apply face2_subset; auto|apply F2; auto].
    - split; [apply face3_subset; auto|apply F3; auto]. }
  destruct Hsub as [Hsub Hin]. split; auto. split; auto.
  intros x Hx.
  destruct (ray_hits_face a b c d m0 m1 m2 m3 Msum Mzero Mneg x Hx) as (y & Hyx & Hy).
  assert (Hpy : norm (fst r) <= norm y).
  { destruct Hy as [[Hm0 Hy]|[[Hm1 Hy]|[[Hm2 Hy]|[Hm3 Hy]]]].
    - specialize (Hbest 3%nat ltac:(lia) (Ex3 Hm0)). cbn [tcand fst] in Hbest.
      apply norm_le_of_sq in Hbest. specialize (L3 y (P3 y Hy)). fold q3 in Hbest. lra.
    - specialize (Hbest 1%nat ltac:(lia) (Ex1 Hm1)). cbn [tcand fst] in Hbest.
      apply norm_le_of_sq in Hbest. specialize (L1 y Hy). fold q1 in Hbest. lra.
    - specialize (Hbest 2%nat ltac:(lia) (Ex2 Hm2)). cbn [tcand fst] in Hbest.
      apply norm_le_of_sq in Hbest. specialize (L2 y (P2 y Hy)). fold q2 in Hbest. lra.
    - specialize (Hbest 0%nat ltac:(lia) (Ex0 Hm3)). cbn [tcand fst] in Hbest.
      apply norm_le_of_sq in Hbest. specialize (L0 y Hy). fold q0 in Hbest. lra. }
  lra.
Qed.
