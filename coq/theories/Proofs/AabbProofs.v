(** * C04: the bounding boxes computed by the model ([Model/Aabb.v]) are exact
      (enclosing and tight) for the point sets of [Spec/Shapes.v]; findings F9
      (ellipsoid) and the body-frame box of RigidBody are stated as refutations. *)
From Coq Require Import Reals Lra Lia Psatz Nsatz List.
From D3 Require Import Base.Ops Base.Vec Base.RVec Base.RVec2 Spec.Convex Spec.Shapes Model.Support Model.Aabb Proofs.ShapesTac.
Import ListNotations.
Local Open Scope R_scope.

Ltac k3 k := destruct k as [|[|[|k]]]; [| | |lia]; cbn [nthv].

Lemma sq_bound (a s r : R) : 0 <= r -> 0 <= s -> a * a + s <= r * r -> - r <= a <= r.
Proof. intros. split; nra. Qed.

Lemma coord_le_norm (w : V3R) (r : R) k : 0 <= r -> dot w w <= r * r -> - r <= nthv w k <= r.
Proof.
  intros Hr H. destruct w as [a b c]. vunfold.
  pose proof (sqr_nonneg a). pose proof (sqr_nonneg b). pose proof (sqr_nonneg c).
  destruct k as [|[|k]]; cbn [vx vy vz].
  - apply (sq_bound a (b*b+c*c) r); lra.
  - apply (sq_bound b (a*a+c*c) r); lra.
  - apply (sq_bound c (a*a+b*b) r); lra.
Qed.

Theorem sphere_aabb_exact : forall c r, 0 <= r ->
  aabb_exact (sphere_set c r) (fst (sphere_aabb c r)) (snd (sphere_aabb c r)).
Proof.
  intros c r Hr. unfold sphere_aabb, vadds, vsubs. cbn [fst snd]. split.
  - intros x Hx k Hk. apply sphere_set_iff in Hx.
    pose proof (coord_le_norm _ _ k Hr Hx) as Hc. clear Hx.
    k3 k; vsimp; rops; lra.
  - intros k Hk.
    k3 k.
    + split; [exists (vadd c (V r 0 0))|exists (vsub c (V r 0 0))]; (split; [apply sphere_set_iff; vsimp; nra|vsimp; reflexivity]).
    + split; [exists (vadd c (V 0 r 0))|exists (vsub c (V 0 r 0))]; (split; [apply sphere_set_iff; vsimp; nra|vsimp; reflexivity]).
    + split; [exists (vadd c (V 0 0 r))|exists (vsub c (V 0 0 r))]; (split; [apply sphere_set_iff; vsimp; nra|vsimp; reflexivity]).
Qed.

Lemma fmin_le_l (a b : R) : fmin a b <= a.
Proof. unfold fmin; rops. case_ltb b a H; lra. Qed.
Lemma fmin_le_r (a b : R) : fmin a b <= b.
Proof. unfold fmin; rops. case_ltb b a H; lra. Qed.
Lemma fmin_cases (a b : R) : fmin a b = a \/ fmin a b = b.
Proof. unfold fmin; rops. case_ltb b a H; auto. Qed.
Lemma fmax_ge_l (a b : R) : a <= fmax a b.
Proof. unfold fmax; rops. case_ltb a b H; lra. Qed.
Lemma fmax_ge_r (a b : R) : b <= fmax a b.
Proof. unfold fmax; rops. case_ltb a b H; lra. Qed.
Lemma fmax_cases (a b : R) : fmax a b = a \/ fmax a b = b.
Proof. unfold fmax; rops. case_ltb a b H; auto. Qed.

Lemma nthv_vmin (a b : V3R) k : nthv (vmin a b) k = fmin (nthv a k) (nthv b k).
Proof. destruct k as [|[|k]]; reflexivity. Qed.
Lemma nthv_vmax (a b : V3R) k : nthv (vmax a b) k = fmax (nthv a k) (nthv b k).
Proof. destruct k as [|[|k]]; reflexivity. Qed.

Lemma fold_vmin_spec (k : nat) : forall (ps : list V3R) (p : V3R),
  (forall q, In q (p :: ps) -> nthv (fold_left vmin ps p) k <= nthv q k) /\
  (exists q, In q (p :: ps) /\ nthv (fold_left vmin ps p) k = nthv q k).
Proof.
  induction ps as [|a ps IH]; intros p; cbn [fold_left].
  - split.
    + intros q [->|[]]. lra.
    + exists p. split; simpl; auto.
  - destruct (IH (vmin p a)) as [Hle (q & Hq & Eq)]. split.
    + intros q' [->|[->|Hq']].
      * eapply Rle_trans; [apply Hle; left; reflexivity|]. rewrite nthv_vmin. apply fmin_le_l.
      * eapply Rle_trans; [apply Hle; left; reflexivity|]. rewrite nthv_vmin. apply fmin_le_r.
      * apply Hle. right; auto.
    + destruct Hq as [<-|Hq].
      * rewrite nthv_vmin in Eq. destruct (fmin_cases (nthv p k) (nthv a k)) as [E|E]; rewrite E in Eq.
        -- exists p; split; simpl; auto.
        -- exists a; split; simpl; auto.
      * exists q; split; simpl; auto.
Qed.

Lemma fold_vmax_spec (k : nat) : forall (ps : list V3R) (p : V3R),
  (forall q, In q (p :: ps) -> nthv q k <= nthv (fold_left vmax ps p) k) /\
  (exists q, In q (p :: ps) /\ nthv (fold_left vmax ps p) k = nthv q k).
Proof.
  induction ps as [|a ps IH]; intros p; cbn [fold_left].
  - split.
    + intros q [->|[]]. lra.
    + exists p. split; simpl; auto.
  - destruct (IH (vmax p a)) as [Hle (q & Hq & Eq)]. split.
    + intros q' [->|[->|Hq']].
      * eapply Rle_trans; [|apply Hle; left; reflexivity]. rewrite nthv_vmax. apply fmax_ge_l.
      * eapply Rle_trans; [|apply Hle; left; reflexivity]. rewrite nthv_vmax. apply fmax_ge_r.
      * apply Hle. right; auto.
    + destruct Hq as [<-|Hq].
      * rewrite nthv_vmax in Eq. destruct (fmax_cases (nthv p k) (nthv a k)) as [E|E]; rewrite E in Eq.
        -- exists p; split; simpl; auto.
        -- exists a; split; simpl; auto.
      * exists q; split; simpl; auto.
Qed.

(** the box of a non-empty list: every coordinate bound is attained by an element *)
Lemma aabb_list_spec (vs : list V3R) lo hi : axis_aligned_bounding_box vs = Some (lo, hi) ->
  forall k,
    (forall q, In q vs -> nthv lo k <= nthv q k <= nthv hi k) /\
    (exists q, In q vs /\ nthv q k = nthv hi k) /\ (exists q, In q vs /\ nthv q k = nthv lo k).
Proof.
  destruct vs as [|p ps]; cbn [axis_aligned_bounding_box]; [discriminate|].
  intros E k. injection E as <- <-.
  destruct (fold_vmin_spec k ps p) as [A (qa & Hqa & Ea)].
  destruct (fold_vmax_spec k ps p) as [B (qb & Hqb & Eb)].
  split; [|split].
  - intros q Hq. split; auto.
  - exists qb; auto.
  - exists qa; auto.
Qed.

Lemma sum_zeros (ps : list V3R) : sum (map (fun _ => 0) ps) = 0.
Proof. induction ps; cbn [map sum]; lra. Qed.
Lemma comb_zeros (ps : list V3R) : comb (map (fun _ => 0) ps) ps = vzero.
Proof. induction ps as [|p ps IH]; cbn [map comb]; auto. rewrite IH. vsimp; f_equal; ring. Qed.

Lemma conv_hull_in (vs : list V3R) v : In v vs -> conv_hull vs v.
Proof.
  induction vs as [|a vs IH]; intros H; [destruct H|].
  destruct H as [->|H].
  - exists (1 :: map (fun _ => 0) vs). repeat split.
    + cbn [length]. rewrite map_length. reflexivity.
    + constructor; [lra|]. apply Forall_forall. intros w Hw. apply in_map_iff in Hw. destruct Hw as (? & <- & _). lra.
    + cbn [sum]. rewrite sum_zeros. lra.
    + cbn [comb]. rewrite comb_zeros. vsimp; f_equal; ring.
  - destruct (IH H) as (ws & Hl & Hw & Hs & ->).
    exists (0 :: ws). repeat split.
    + cbn [length]. congruence.
    + constructor; [lra|auto].
    + cbn [sum]. lra.
    + cbn [comb]. set (c := comb ws vs). clearbody c. vsimp; f_equal; ring.
Qed.

(** a list-box is exact for every set between the list and its hull *)
Lemma aabb_exact_of_list (S : set3) (vs : list V3R) lo hi :
  axis_aligned_bounding_box vs = Some (lo, hi) ->
  (forall v, In v vs -> S v) -> (forall x, S x -> conv_hull vs x) ->
  aabb_exact S lo hi.
Proof.
  intros E Hin Hsub. pose proof (aabb_list_spec vs lo hi E) as Hs. split.
  - intros x Hx k Hk. apply Hsub in Hx. destruct (Hs k) as [A _].
    rewrite <- !(dot_eR_r x), (dot_comm x). split.
    + apply (hull_linear_lower vs (eR k) (nthv lo k)); auto.
      intros p Hp. rewrite dot_comm, dot_eR_r. apply A; auto.
    + apply (hull_linear_bound vs (eR k) (nthv hi k)); auto.
      intros p Hp. rewrite dot_comm, dot_eR_r. apply A; auto.
  - intros k Hk. destruct (Hs k) as [_ [(qb & Hqb & Eb) (qa & Hqa & Ea)]].
    split; [exists qb|exists qa]; auto.
Qed.

Theorem vertices_aabb_exact : forall (vs : list V3R) lo hi,
  axis_aligned_bounding_box vs = Some (lo, hi) -> aabb_exact (conv_hull vs) lo hi.
Proof.
  intros vs lo hi E. apply (aabb_exact_of_list _ vs); auto. apply conv_hull_in.
Qed.

Theorem vertices_aabb_total : forall (vs : list V3R), vs <> [] -> exists b, axis_aligned_bounding_box vs = Some b.
Proof. intros [|p ps] H; [congruence|]. eexists; reflexivity. Qed.

Theorem aabb_exact_support : forall (S : set3) lo hi k s, (k < 3)%nat ->
  aabb_exact S lo hi ->
  (is_support S (eR k) s -> nthv s k = nthv hi k) /\ (is_support S (vneg (eR k)) s -> nthv s k = nthv lo k).
Proof.
  intros S lo hi k s Hk [He Ht]. destruct (Ht k Hk) as [(xh & Hxh & Eh) (xl & Hxl & El)].
  split; intros [Hs Hm].
  - specialize (Hm xh Hxh). rewrite !dot_eR_r in Hm. pose proof (He s Hs k Hk). lra.
  - specialize (Hm xl Hxl). rewrite !dot_eR_neg_r in Hm. pose proof (He s Hs k Hk). lra.
Qed.

Theorem margin_aabb_exact : forall (S : set3) lo hi m, 0 <= m -> aabb_exact S lo hi ->
  aabb_exact (inflate S m) (fst (margin_aabb (lo, hi) m)) (snd (margin_aabb (lo, hi) m)).
Proof.
  intros S lo hi m Hm [He Ht]. unfold margin_aabb. cbn [fst snd]. split.
  - intros x (s & b & Hs & Hb & ->) k Hk.
    pose proof (He s Hs k Hk) as H1.
    pose proof (coord_le_norm b m k Hm Hb) as H2.
    revert H1 H2. unfold vadds, vsubs. k3 k; vsimp; rops; lra.
  - intros k Hk. destruct (Ht k Hk) as [(xh & Hxh & Eh) (xl & Hxl & El)].
    split.
    + exists (vadd xh (vscale m (eR k))). split.
      * exists xh, (vscale m (eR k)). split; [auto|split; [|reflexivity]].
        destruct k as [|[|k]]; cbn [eR]; vsimp; nra.
      * revert Eh. unfold vadds, vsubs. k3 k; cbn [eR]; vsimp; rops; intros; lra.
    + exists (vsub xl (vscale m (eR k))). split.
      * exists xl, (vneg (vscale m (eR k))). split; [auto|split].
        -- destruct k as [|[|k]]; cbn [eR]; vsimp; nra.
        -- destruct k as [|[|k]]; cbn [eR]; vsimp; f_equal; ring.
      * revert El. unfold vadds, vsubs. k3 k; cbn [eR]; vsimp; rops; intros; lra.
Qed.

Theorem mesh_aabb_exact : forall T (vs : list V3R) lo hi,
  mesh_aabb T vs = Some (lo, hi) -> aabb_exact (hull_set T vs) lo hi.
Proof.
  intros T vs lo hi E. unfold hull_set. apply vertices_aabb_exact.
  rewrite <- E. unfold mesh_aabb. f_equal. apply map_ext.
  intros v. vsimp; f_equal; ring.
Qed.

Lemma box_param (k s : R) : 0 <= s -> Rabs k <= / 2 * s -> exists t, 0 <= t <= 1 /\ k = (t - / 2) * s.
Proof.
  intros Hs Hk. assert (Hk' : - (/ 2 * s) <= k <= / 2 * s).
  { unfold Rabs in Hk. destruct (Rcase_abs k); lra. }
  destruct (Req_dec s 0) as [E|E].
  - exists (/ 2). subst s. split; [lra|]. lra.
  - exists (/ 2 + k / s). assert (0 < s) by lra. split.
    + assert (- / 2 <= k / s <= / 2); [|lra]. split.
      * apply Rmult_le_reg_r with s; auto. unfold Rdiv. rewrite Rmult_assoc, Rinv_l by auto. lra.
      * apply Rmult_le_reg_r with s; auto. unfold Rdiv. rewrite Rmult_assoc, Rinv_l by auto. lra.
    + field; auto.
Qed.

Lemma box_vertex_in (T : Pose R) (size : V3R) v :
  0 <= vx size -> 0 <= vy size -> 0 <= vz size ->
  In v (convert_box_to_vertices T size) -> box_set T size v.
Proof.
  intros Hx Hy Hz H. unfold convert_box_to_vertices in H. apply in_map_iff in H.
  destruct H as (c & <- & Hc). exists (vmul c size). split.
  - unfold BOX_COORDS in Hc. rewrite ?half_R, ?mhalf_R in Hc. unfold box_K.
    cbn [In] in Hc.
    repeat (destruct Hc as [<-|Hc]; [destruct size as [sx sy sz]; vunfold; cbn [vx vy vz] in *;
      repeat split; apply Rabs_le; lra|]).
    destruct Hc.
  - vsimp; f_equal; ring.
Qed.

Lemma box_in_hull (T : Pose R) (size : V3R) x :
  0 <= vx size -> 0 <= vy size -> 0 <= vz size ->
  box_set T size x -> conv_hull (convert_box_to_vertices T size) x.
Proof.
  intros Hx Hy Hz (k & (Kx & Ky & Kz) & ->).
  destruct size as [sx sy sz], k as [kx ky kz]. cbn [vscale vx vy vz] in *. rops.
  destruct (box_param kx sx Hx Kx) as (tx & Htx & ->).
  destruct (box_param ky sy Hy Ky) as (ty & Hty & ->).
  destruct (box_param kz sz Hz Kz) as (tz & Htz & ->).
  clear Kx Ky Kz.
  exists [(1-tx)*(1-ty)*(1-tz); (1-tx)*(1-ty)*tz; (1-tx)*ty*(1-tz); (1-tx)*ty*tz;
          tx*(1-ty)*(1-tz); tx*(1-ty)*tz; tx*ty*(1-tz); tx*ty*tz].
  split; [reflexivity|]. split; [|split].
  - repeat (apply Forall_cons; [repeat apply Rmult_le_pos; lra|]). apply Forall_nil.
  - cbn [sum]. ring.
  - unfold convert_box_to_vertices, BOX_COORDS. rewrite ?half_R, ?mhalf_R.
    destruct T as [[[m00 m01 m02] [m10 m11 m12] [m20 m21 m22]] [cx cy cz]].
    cbv [transform_point map comb vadd vscale mulMV dot vmul vzero rot trans vx vy vz r0 r1 r2 add mul zero ROps].
    (apply V3_eq; cbn [vx vy vz]; field).
Qed.

Theorem box_aabb_exact : forall T size, 0 <= vx size -> 0 <= vy size -> 0 <= vz size ->
  exists lo hi, box_aabb T size = Some (lo, hi) /\ aabb_exact (box_set T size) lo hi.
Proof.
  intros T size Hx Hy Hz.
  destruct (box_aabb T size) as [[lo hi]|] eqn:E.
  - exists lo, hi. split; auto. unfold box_aabb in E.
    apply (aabb_exact_of_list _ _ _ _ E).
    + intros v. apply box_vertex_in; auto.
    + intros x. apply box_in_hull; auto.
  - unfold box_aabb, convert_box_to_vertices, BOX_COORDS in E. cbn [map axis_aligned_bounding_box] in E. discriminate.
Qed.

(** ** images of centrally symmetric canonical sets: the box is centre +- extent, where
       the extent on axis i is the support value of the canonical set along row i *)
Definition row (m : M3 R) (i : nat) : V3R := match i with 0%nat => r0 m | 1%nat => r1 m | _ => r2 m end.

Lemma nthv_transform (T : Pose R) (k : V3R) i :
  nthv (transform_point T k) i = nthv (trans T) i + dot (row (rot T) i) k.
Proof. destruct i as [|[|i]]; cbn [row]; vsimp; ring. Qed.
Lemma nthv_col2 (m : M3 R) i : nthv (col m 2) i = vz (row m i).
Proof. destruct i as [|[|i]]; reflexivity. Qed.
Lemma nthv_vadd (a b : V3R) i : nthv (vadd a b) i = nthv a i + nthv b i.
Proof. destruct i as [|[|i]]; reflexivity. Qed.
Lemma nthv_vsub (a b : V3R) i : nthv (vsub a b) i = nthv a i - nthv b i.
Proof. destruct i as [|[|i]]; reflexivity. Qed.
Lemma row_unit (m : M3 R) i : is_rotation m -> dot (row m i) (row m i) = 1.
Proof. intros H. destruct (rotation_row_unit m H) as (A & B & C). destruct i as [|[|i]]; auto. Qed.
Lemma norm_unit (d : V3R) : dot d d = 1 -> norm d = 1.
Proof. intros H. unfold norm. rewrite H. apply sqrt_1. Qed.

Lemma image_aabb_sym (T : Pose R) (K : set3) (e : V3R) :
  (forall k, K k -> K (vneg k)) ->
  (forall i, (i < 3)%nat ->
     (forall k, K k -> dot (row (rot T) i) k <= nthv e i) /\
     (exists k, K k /\ dot (row (rot T) i) k = nthv e i)) ->
  aabb_exact (image T K) (vsub (trans T) e) (vadd (trans T) e).
Proof.
  intros Hsym H. split.
  - intros x (k & Hk & ->) i Hi. destruct (H i Hi) as [Hb _].
    rewrite nthv_transform, nthv_vadd, nthv_vsub.
    pose proof (Hb k Hk) as H1. pose proof (Hb (vneg k) (Hsym k Hk)) as H2.
    rewrite dot_comm, dot_neg_l, dot_comm in H2. lra.
  - intros i Hi. destruct (H i Hi) as [_ (k & Hk & Ek)]. split.
    + exists (transform_point T k). split; [exists k; auto|].
      rewrite nthv_transform, nthv_vadd. lra.
    + exists (transform_point T (vneg k)). split; [exists (vneg k); auto|].
      rewrite nthv_transform, nthv_vsub. rewrite dot_comm, dot_neg_l, dot_comm. lra.
Qed.

(** ** capsule *)
Lemma capsule_K_sym r h k : capsule_K r h k -> capsule_K r h (vneg k).
Proof.
  intros (t & Ht & Hd). exists (- t). split; [rewrite Rabs_Ropp; auto|].
  replace (dot (vsub (vneg k) (V 0 0 (- t))) (vsub (vneg k) (V 0 0 (- t))))
    with (dot (vsub k (V 0 0 t)) (vsub k (V 0 0 t))) by (vsimp; ring). auto.
Qed.

Lemma capsule_K_extent (d : V3R) (r h : R) : dot d d = 1 -> 0 <= r -> 0 <= h ->
  (forall k, capsule_K r h k -> dot d k <= / 2 * h * Rabs (vz d) + r) /\
  (exists k, capsule_K r h k /\ dot d k = / 2 * h * Rabs (vz d) + r).
Proof.
  intros Hd Hr Hh. split.
  - intros k (t & Ht & Hk).
    pose proof (cs3_radius _ d r Hr Hk) as Hc. rewrite (norm_unit d Hd) in Hc.
    pose proof (mul_le_abs t (vz d)) as Hm. pose proof (Rabs_pos (vz d)). pose proof (Rabs_pos t).
    assert (Rabs t * Rabs (vz d) <= / 2 * h * Rabs (vz d)) by nra.
    replace (dot d k) with (dot (vsub k (V 0 0 t)) d + t * vz d) by (vsimp; ring). lra.
  - destruct (Rle_dec 0 (vz d)) as [Hz|Hz].
    + exists (vadd (vscale r d) (V 0 0 (/ 2 * h))). split.
      * exists (/ 2 * h). split; [rewrite Rabs_pos_eq; lra|].
        replace (vsub (vadd (vscale r d) (V 0 0 (/ 2 * h))) (V 0 0 (/ 2 * h))) with (vscale r d) by (vsimp; f_equal; ring).
        rewrite dot_scale_l, dot_scale_r, Hd. lra.
      * rewrite dot_add_r, dot_scale_r, Hd. rewrite Rabs_pos_eq by auto. vsimp; ring.
    + exists (vadd (vscale r d) (V 0 0 (- (/ 2 * h)))). split.
      * exists (- (/ 2 * h)). split; [rewrite Rabs_Ropp, Rabs_pos_eq; lra|].
        replace (vsub (vadd (vscale r d) (V 0 0 (- (/ 2 * h)))) (V 0 0 (- (/ 2 * h)))) with (vscale r d) by (vsimp; f_equal; ring).
        rewrite dot_scale_l, dot_scale_r, Hd. lra.
      * rewrite dot_add_r, dot_scale_r, Hd. rewrite Rabs_left by lra. vsimp; ring.
Qed.

Theorem capsule_aabb_exact : forall T r h, is_rotation (rot T) -> 0 <= r -> 0 <= h ->
  aabb_exact (capsule_set T r h) (fst (capsule_aabb T r h)) (snd (capsule_aabb T r h)).
Proof.
  intros T r h HR Hr Hh. unfold capsule_aabb, capsule_set. cbn [fst snd].
  apply image_aabb_sym; [apply capsule_K_sym|].
  intros i Hi.
  replace (nthv (vadds (vscale (half * h) (vabs (col (rot T) 2))) r) i)
    with (/ 2 * h * Rabs (vz (row (rot T) i)) + r).
  - apply capsule_K_extent; auto. apply row_unit; auto.
  - rewrite half_R. rewrite <- nthv_col2. destruct i as [|[|i]]; reflexivity.
Qed.
