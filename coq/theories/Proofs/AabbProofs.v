(** * C04: the bounding boxes computed by the model ([Model/Aabb.v]) are exact
      (enclosing and tight) for the point sets of [Spec/Shapes.v]; findings F9
      (ellipsoid) and the body-frame box of RigidBody are stated as refutations. *)
From Coq Require Import Reals Lra Lia Psatz Nsatz List.
From D3 Require Import Base.Ops Base.Vec Base.RVec Base.RVec2 Spec.Convex Spec.Shapes Model.Support Model.Aabb Proofs.ShapesTac.
Import ListNotations.
Local Open Scope R_scope.

Ltac k3 k := destruct k as [|[|[|k]]]; [| | |lia]; cbn [nthv].

Lemma sq_bound (a s r : R) : 0 <= r -> 0 <= s -> a * a + s <= r * r -> - r <= a <= r.
Proof. intros. split; nra. Qed.

Lemma coord_le_norm (w : V3R) (r : R) k : 0 <= r -> dot w w <= r * r -> - r <= nthv w k <= r.
Proof.
  intros Hr H. destruct w as [a b c]. vunfold.
  pose proof (sqr_nonneg a). pose proof (sqr_nonneg b). pose proof (sqr_nonneg c).
  destruct k as [|[|k]]; cbn [vx vy vz].
  - apply (sq_bound a (b*b+c*c) r); lra.
  - apply (sq_bound b (a*a+c*c) r); lra.
  - apply (sq_bound c (a*a+b*b) r); lra.
Qed.

Theorem sphere_aabb_exact : forall c r, 0 <= r ->
  aabb_exact (sphere_set c r) (fst (sphere_aabb c r)) (snd (sphere_aabb c r)).
Proof.
  intros c r Hr. unfold sphere_aabb, vadds, vsubs. cbn [fst snd]. split.
  - intros x Hx k Hk. apply sphere_set_iff in Hx.
    pose proof (coord_le_norm _ _ k Hr Hx) as Hc. clear Hx.
    k3 k; vsimp; rops; lra.
  - intros k Hk.
    k3 k.
    + split; [exists (vadd c (V r 0 0))|exists (vsub c (V r 0 0))]; (split; [apply sphere_set_iff; vsimp; nra|vsimp; reflexivity]).
    + split; [exists (vadd c (V 0 r 0))|exists (vsub c (V 0 r 0))]; (split; [apply sphere_set_iff; vsimp; nra|vsimp; reflexivity]).
    + split; [exists (vadd c (V 0 0 r))|exists (vsub c (V 0 0 r))]; (split; [apply sphere_set_iff; vsimp; nra|vsimp; reflexivity]).
Qed.

Lemma fmin_le_l (a b : R) : fmin a b <= a.
Proof. unfold fmin; rops. case_ltb b a H; lra. Qed.
Lemma fmin_le_r (a b : R) : fmin a b <= b.
Proof. unfold fmin; rops. case_ltb b a H; lra. Qed.
Lemma fmin_cases (a b : R) : fmin a b = a \/ fmin a b = b.
Proof. unfold fmin; rops. case_ltb b a H; auto. Qed.
Lemma fmax_ge_l (a b : R) : a <= fmax a b.
Proof. unfold fmax; rops. case_ltb a b H; lra. Qed.
Lemma fmax_ge_r (a b : R) : b <= fmax a b.
Proof. unfold fmax; rops. case_ltb a b H; lra. Qed.
Lemma fmax_cases (a b : R) : fmax a b = a \/ fmax a b = b.
Proof. unfold fmax; rops. case_ltb a b H; auto. Qed.

Lemma nthv_vmin (a b : V3R) k : nthv (vmin a b) k = fmin (nthv a k) (nthv b k).
Proof. destruct k as [|[|k]]; reflexivity. Qed.
Lemma nthv_vmax (a b : V3R) k : nthv (vmax a b) k = fmax (nthv a k) (nthv b k).
Proof. destruct k as [|[|k]]; reflexivity. Qed.

Lemma fold_vmin_spec (k : nat) : forall (ps : list V3R) (p : V3R),
  (forall q, In q (p :: ps) -> nthv (fold_left vmin ps p) k <= nthv q k) /\
  (exists q, In q (p :: ps) /\ nthv (fold_left vmin ps p) k = nthv q k).
Proof.
  induction ps as [|a ps IH]; intros p; cbn [fold_left].
  - split.
    + intros q [->|[]]. lra.
    + exists p. split; simpl; auto.
  - destruct (IH (vmin p a)) as [Hle (q & Hq & Eq)]. split.
    + intros q' [->|[->|Hq']].
      * eapply Rle_trans; [apply Hle; left; reflexivity|]. rewrite nthv_vmin. apply fmin_le_l.
      * eapply Rle_trans; [apply Hle; left; reflexivity|]. rewrite nthv_vmin. apply fmin_le_r.
      * apply Hle. right; auto.
    + destruct Hq as [<-|Hq].
      * rewrite nthv_vmin in Eq. destruct (fmin_cases (nthv p k) (nthv a k)) as [E|E]; rewrite E in Eq.
        -- exists p; split; simpl; auto.
        -- exists a; split; simpl; auto.
      * exists q; split; simpl; auto.
Qed.

Lemma fold_vmax_spec (k : nat) : forall (ps : list V3R) (p : V3R),
  (forall q, In q (p :: ps) -> nthv q k <= nthv (fold_left vmax ps p) k) /\
  (exists q, In q (p :: ps) /\ nthv (fold_left vmax ps p) k = nthv q k).
Proof.
  induction ps as [|a ps IH]; intros p; cbn [fold_left].
  - split.
    + intros q [->|[]]. lra.
    + exists p. split; simpl; auto.
  - destruct (IH (vmax p a)) as [Hle (q & Hq & Eq)]. split.
    + intros q' [->|[->|Hq']].
      * eapply Rle_trans; [|apply Hle; left; reflexivity]. rewrite nthv_vmax. apply fmax_ge_l.
      * eapply Rle_trans; [|apply Hle; left; reflexivity]. rewrite nthv_vmax. apply fmax_ge_r.
      * apply Hle. right; auto.
    + destruct Hq as [<-|Hq].
      * rewrite nthv_vmax in Eq. destruct (fmax_cases (nthv p k) (nthv a k)) as [E|E]; rewrite E in Eq.
        -- exists p; split; simpl; auto.
        -- exists a; split; simpl; auto.
      * exists q; split; simpl; auto.
Qed.

(** the box of a non-empty list: every coordinate bound is attained by an element *)
Lemma aabb_list_spec (vs : list V3R) lo hi : axis_aligned_bounding_box vs = Some (lo, hi) ->
  forall k,
    (forall q, In q vs -> nthv lo k <= nthv q k <= nthv hi k) /\
    (exists q, In q vs /\ nthv q k = nthv hi k) /\ (exists q, In q vs /\ nthv q k = nthv lo k).
Proof.
  destruct vs as [|p ps]; cbn [axis_aligned_bounding_box]; [discriminate|].
  intros E k. injection E as <- <-.
  destruct (fold_vmin_spec k ps p) as [A (qa & Hqa & Ea)].
  destruct (fold_vmax_spec k ps p) as [B (qb & Hqb & Eb)].
  split; [|split].
  - intros q Hq. split; auto.
  - exists qb; auto.
  - exists qa; auto.
Qed.

Lemma sum_zeros (ps : list V3R) : sum (map (fun _ => 0) ps) = 0.
Proof. induction ps; cbn [map sum]; lra. Qed.
Lemma comb_zeros (ps : list V3R) : comb (map (fun _ => 0) ps) ps = vzero.
Proof. induction ps as [|p ps IH]; cbn [map comb]; auto. rewrite IH. vsimp; f_equal; ring. Qed.

Lemma conv_hull_in (vs : list V3R) v : In v vs -> conv_hull vs v.
Proof.
  induction vs as [|a vs IH]; intros H; [destruct H|].
  destruct H as [->|H].
  - exists (1 :: map (fun _ => 0) vs). repeat split.
    + cbn [length]. rewrite map_length. reflexivity.
    + constructor; [lra|]. apply Forall_forall. intros w Hw. apply in_map_iff in Hw. destruct Hw as (? & <- & _). lra.
    + cbn [sum]. rewrite sum_zeros. lra.
    + cbn [comb]. rewrite comb_zeros. vsimp; f_equal; ring.
  - destruct (IH H) as (ws & Hl & Hw & Hs & ->).
    exists (0 :: ws). repeat split.
    + cbn [length]. congruence.
    + constructor; [lra|auto].
    + cbn [sum]. lra.
    + cbn [comb]. set (c := comb ws vs). clearbody c. vsimp; f_equal; ring.
Qed.

(** a list-box is exact for every set between the list and its hull *)
Lemma aabb_exact_of_list (S : set3) (vs : list V3R) lo hi :
  axis_aligned_bounding_box vs = Some (lo, hi) ->
  (forall v, In v vs -> S v) -> (forall x, S x -> conv_hull vs x) ->
  aabb_exact S lo hi.
Proof.
  intros E Hin Hsub. pose proof (aabb_list_spec vs lo hi E) as Hs. split.
  - intros x Hx k Hk. apply Hsub in Hx. destruct (Hs k) as [A _].
    rewrite <- !(dot_eR_r x), (dot_comm x). split.
    + apply (hull_linear_lower vs (eR k) (nthv lo k)); auto.
      intros p Hp. rewrite dot_comm, dot_eR_r. apply A; auto.
    + apply (hull_linear_bound vs (eR k) (nthv hi k)); auto.
      intros p Hp. rewrite dot_comm, dot_eR_r. apply A; auto.
  - intros k Hk. destruct (Hs k) as [_ [(qb & Hqb & Eb) (qa & Hqa & Ea)]].
    split; [exists qb|exists qa]; auto.
Qed.

Theorem vertices_aabb_exact : forall (vs : list V3R) lo hi,
  axis_aligned_bounding_box vs = Some (lo, hi) -> aabb_exact (conv_hull vs) lo hi.
Proof.
  intros vs lo hi E. apply (aabb_exact_of_list _ vs); auto. apply conv_hull_in.
Qed.

Theorem vertices_aabb_total : forall (vs : list V3R), vs <> [] -> exists b, axis_aligned_bounding_box vs = Some b.
Proof. intros [|p ps] H; [congruence|]. eexists; reflexivity. Qed.

Theorem aabb_exact_support : forall (S : set3) lo hi k s, (k < 3)%nat ->
  aabb_exact S lo hi ->
  (is_support S (eR k) s -> nthv s k = nthv hi k) /\ (is_support S (vneg (eR k)) s -> nthv s k = nthv lo k).
Proof.
  intros S lo hi k s Hk [He Ht]. destruct (Ht k Hk) as [(xh & Hxh & Eh) (xl & Hxl & El)].
  split; intros [Hs Hm].
  - specialize (Hm xh Hxh). rewrite !dot_eR_r in Hm. pose proof (He s Hs k Hk). lra.
  - specialize (Hm xl Hxl). rewrite !dot_eR_neg_r in Hm. pose proof (He s Hs k Hk). lra.
Qed.

Theorem margin_aabb_exact : forall (S : set3) lo hi m, 0 <= m -> aabb_exact S lo hi ->
  aabb_exact (inflate S m) (fst (margin_aabb (lo, hi) m)) (snd (margin_aabb (lo, hi) m)).
Proof.
  intros S lo hi m Hm [He Ht]. unfold margin_aabb. cbn [fst snd]. split.
  - intros x (s & b & Hs & Hb & ->) k Hk.
    pose proof (He s Hs k Hk) as H1.
    pose proof (coord_le_norm b m k Hm Hb) as H2.
    revert H1 H2. unfold vadds, vsubs. k3 k; vsimp; rops; lra.
  - intros k Hk. destruct (Ht k Hk) as [(xh & Hxh & Eh) (xl & Hxl & El)].
    split.
    + exists (vadd xh (vscale m (eR k))). split.
      * exists xh, (vscale m (eR k)). split; [auto|split; [|reflexivity]].
        destruct k as [|[|k]]; cbn [eR]; vsimp; nra.
      * revert Eh. unfold vadds, vsubs. k3 k; cbn [eR]; vsimp; rops; intros; lra.
    + exists (vsub xl (vscale m (eR k))). split.
      * exists xl, (vneg (vscale m (eR k))). split; [auto|split].
        -- destruct k as [|[|k]]; cbn [eR]; vsimp; nra.
        -- destruct k as [|[|k]]; cbn [eR]; vsimp; f_equal; ring.
      * revert El. unfold vadds, vsubs. k3 k; cbn [eR]; vsimp; rops; intros; lra.
Qed.
