(** * C06, part 4: the generated self-collision whitelists (urdf_utils.LinkInfo). *)
From Coq Require Import List Arith Bool Lia.
From D3 Require Import Model.Bvh Proofs.BvhDict.
Import ListNotations.

Lemma fname_eqb_spec a b : fname_eqb a b = true <-> a = b.
Proof.
  destruct a, b; simpl; try (split; [discriminate|congruence]).
  - rewrite Nat.eqb_eq. split; congruence.
  - rewrite andb_true_iff, !Nat.eqb_eq. split; [intros (-> & ->); auto|intros E; inversion E; auto].
  - rewrite Nat.eqb_eq. split; congruence.
Qed.

Section Whitelists.
  Variable transforms : list (fname * fname).
  Variable nodes : list fname.
  Variable objs : list fname.
  Notation whitelist_for := (whitelist_for transforms nodes).
  Notation attached := (attached nodes).
  Notation parent_link := (parent_link transforms).
  Notation child_link := (child_link transforms).

  Lemma attached_spec lf g :
    In g (attached lf) <-> exists l k, lf = Some (NLink l) /\ g = NColl l k /\ In g nodes.
  Proof.
    unfold Bvh.attached. destruct lf as [[l| |]|]; simpl;
      try (split; [tauto|intros (l1 & k1 & E1 & _); discriminate]).
    rewrite filter_In. split.
    - intros (Hin & Hm). destruct g as [|l' k|]; try discriminate.
      apply Nat.eqb_eq in Hm. subst. eauto.
    - intros (l' & k & E & -> & Hin). inversion E; subst. split; auto. apply Nat.eqb_refl.
  Qed.

  (** the frames a collision frame whitelists: the collision frames of its own link, of the
      link recorded LAST as its parent and of the link (or frame) recorded LAST as its child *)
  Theorem whitelist_for_spec f g :
    In g (whitelist_for f) <->
    exists l k, g = NColl l k /\ In g nodes /\
      (link_of f = Some (NLink l) \/ parent_link (link_of f) = Some (NLink l) \/
       child_link (link_of f) = Some (NLink l)).
  Proof.
    unfold Bvh.whitelist_for. rewrite !in_app_iff, !attached_spec. split.
    - intros [(l & k & H1 & H2 & H3)|[(l & k & H1 & H2 & H3)|(l & k & H1 & H2 & H3)]];
        exists l, k; auto.
    - intros (l & k & H1 & H2 & [H|[H|H]]); [left|right; left|right; right]; exists l, k; auto.
  Qed.

  (** a collision frame always whitelists itself (so gjk of a collider with itself is never
      reported), provided it is a node of the transform manager *)
  Corollary own_frame_whitelisted l k : In (NColl l k) nodes -> In (NColl l k) (whitelist_for (NColl l k)).
  Proof. intros H. apply whitelist_for_spec. exists l, k. simpl. auto. Qed.

  (** the dict built by the loop over tm.collision_objects *)
  Lemma whitelists_fold os : forall acc,
    (forall f w, dict_get fname_eqb acc f = Some w -> w = whitelist_for f) ->
    let d := fold_left (fun acc f => dict_set fname_eqb acc f (whitelist_for f)) os acc in
    (forall f w, dict_get fname_eqb d f = Some w -> w = whitelist_for f) /\
    (forall f, In f os -> dict_get fname_eqb d f = Some (whitelist_for f)) /\
    (forall f, In f (map fst acc) -> In f (map fst d)).
  Proof.
    induction os as [|o os IH]; intros acc Hacc; simpl.
    - repeat split; auto. tauto.
    - assert (Hacc' : forall f w, dict_get fname_eqb (dict_set fname_eqb acc o (whitelist_for o)) f = Some w ->
                                  w = whitelist_for f).
      { intros f w. destruct (fname_eqb o f) eqn:E.
        - apply fname_eqb_spec in E. subst. rewrite (dict_get_set_eq _ _ _ fname_eqb_spec). congruence.
        - rewrite (dict_get_set_neq _ _ _ fname_eqb_spec); auto.
          intros ->. rewrite (keqb_refl _ _ fname_eqb_spec) in E. discriminate. }
      destruct (IH _ Hacc') as (H1 & H2 & H3). split; auto. split.
      + intros f [<-|Hin]; auto.
        assert (Hk : In o (map fst (fold_left (fun acc f => dict_set fname_eqb acc f (whitelist_for f)) os
                                              (dict_set fname_eqb acc o (whitelist_for o))))).
        { apply H3. apply (dict_set_keys _ _ _ fname_eqb_spec). auto. }
        apply (dict_mem_iff _ _ _ fname_eqb_spec) in Hk. unfold dict_mem in Hk.
        destruct (dict_get fname_eqb _ o) as [w|] eqn:E; [|discriminate].
        rewrite (H1 _ _ E). reflexivity.
      + intros f Hin. apply H3. apply (dict_set_keys _ _ _ fname_eqb_spec). auto.
  Qed.

  Theorem whitelists_lookup f :
    In f objs ->
    dict_get fname_eqb (self_collision_whitelists transforms nodes objs) f = Some (whitelist_for f).
  Proof.
    intros Hin. unfold self_collision_whitelists.
    destruct (whitelists_fold objs []) as (_ & H & _); auto. simpl. discriminate.
  Qed.
End Whitelists.

(** The generated whitelists are NOT symmetric as soon as a link has two child links:
    robot r, links base(0), a(1), b(2) with one collision object each, joints base->a and
    base->b, in the key order pytransform3d's URDF parser produces.  child_links[base]
    keeps only the last child b, so base's collider whitelists b's but not a's, while a's
    collider whitelists base's. *)
Definition ex_transforms : list (fname * fname) :=
  [ (NLink 0, NOther 0); (NColl 0 0, NLink 0); (NColl 1 0, NLink 1); (NColl 2 0, NLink 2);
    (NLink 1, NLink 0); (NLink 2, NLink 0); (NLink 0, NOther 1) ].
Definition ex_nodes : list fname :=
  [ NLink 0; NOther 0; NColl 0 0; NColl 1 0; NLink 1; NColl 2 0; NLink 2; NOther 1 ].
Definition ex_objs : list fname := [ NColl 0 0; NColl 1 0; NColl 2 0 ].

Example generated_whitelists_asymmetric :
  self_collision_whitelists ex_transforms ex_nodes ex_objs =
    [ (NColl 0 0, [NColl 0 0; NColl 2 0]);
      (NColl 1 0, [NColl 1 0; NColl 0 0]);
      (NColl 2 0, [NColl 2 0; NColl 0 0]) ] /\
  In (NColl 0 0) (whitelist_for ex_transforms ex_nodes (NColl 1 0)) /\
  ~ In (NColl 1 0) (whitelist_for ex_transforms ex_nodes (NColl 0 0)).
Proof.
  split; [reflexivity|]. split; [simpl; auto|].
  simpl. intros [H|[H|[]]]; discriminate.
Qed.
