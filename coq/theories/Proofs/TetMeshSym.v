(** * Symbolic mesh checker (C17): meshes whose vertex coordinates are polynomials in
    positive parameters (the sizes of the shape).

    [chk_oriented], [chk_sum], [chk_inbox], [chk_disjoint] are executable ([vm_compute])
    tests on the coefficient tables; the soundness theorems transfer a positive answer to
    the real mesh obtained by evaluating the polynomials at ANY positive values of the
    parameters: orientation and non-zero volume of every element, the exact sum of the
    signed volumes, containment in the box, pairwise disjoint interiors (a separating plane
    is searched among the face planes of the two tetrahedra and the planes spanned by one
    edge of each). *)
From Coq Require Import List ZArith QArith Reals Lra Lia Bool.
From D3 Require Import Base.Ops Base.Vec Base.RVec Model.TetSym Model.TetMesh Checker.TetMesh
                       Proofs.TetMeshPoly Proofs.TetMeshBase.
Import ListNotations.

Definition spoint : Type := V3 poly.
Definition stet : Type := (spoint * spoint * spoint * spoint)%type.

(** ** the tests *)
Definition chk_oriented (sg : Z) (vs : list spoint) (ts : list tet) : bool :=
  forallb (fun t => match tet_vol6 (O := POps) vs t with
                    | Some p => ppos (pscale [] sg p)
                    | None => false
                    end) ts.

Fixpoint ssum (sg : Z) (vs : list spoint) (ts : list tet) : option poly :=
  match ts with
  | [] => Some []
  | t :: r => match tet_vol6 (O := POps) vs t, ssum sg vs r with
              | Some p, Some s => Some (padd (pscale [] sg p) s)
              | _, _ => None
              end
  end.
Definition chk_sum (sg : Z) (vs : list spoint) (ts : list tet) (total : poly) : bool :=
  match ssum sg vs ts with Some s => peqb s total | None => false end.

Definition chk_inbox (hx hy hz : poly) (vs : list spoint) : bool :=
  forallb (fun v => pnonneg (psub hx (vx v)) && pnonneg (padd hx (vx v)) &&
                    pnonneg (psub hy (vy v)) && pnonneg (padd hy (vy v)) &&
                    pnonneg (psub hz (vz v)) && pnonneg (padd hz (vz v))) vs.

Definition splane (n q p : spoint) : poly := dot (O := POps) n (vsub (O := POps) p q).

(** T1 on the non-positive side, T2 on the non-negative side, one vertex strictly off *)
Definition sep_ok (n q : spoint) (T1 T2 : stet) : bool :=
  let '(a1, b1, c1, d1) := T1 in
  let '(a2, b2, c2, d2) := T2 in
  let f := splane n q in
  pnonpos (f a1) && pnonpos (f b1) && pnonpos (f c1) && pnonpos (f d1) &&
  pnonneg (f a2) && pnonneg (f b2) && pnonneg (f c2) && pnonneg (f d2) &&
  (pneg (f a1) || pneg (f b1) || pneg (f c1) || pneg (f d1) ||
   ppos (f a2) || ppos (f b2) || ppos (f c2) || ppos (f d2)).

Definition face_planes (T : stet) : list (spoint * spoint) :=
  let '(a, b, c, d) := T in
  let nrm p q r := cross (O := POps) (vsub (O := POps) q p) (vsub (O := POps) r p) in
  [(nrm a b c, a); (nrm a b d, a); (nrm a c d, a); (nrm b c d, b)].
Definition tet_edges (T : stet) : list (spoint * spoint) :=
  let '(a, b, c, d) := T in [(a, b); (a, c); (a, d); (b, c); (b, d); (c, d)].
Definition edge_planes (T1 T2 : stet) : list (spoint * spoint) :=
  flat_map (fun e1 => map (fun e2 =>
     (cross (O := POps) (vsub (O := POps) (snd e1) (fst e1)) (vsub (O := POps) (snd e2) (fst e2)), fst e1))
     (tet_edges T2)) (tet_edges T1).

Definition sep_pair (T1 T2 : stet) : bool :=
  existsb (fun nq => sep_ok (fst nq) (snd nq) T1 T2 || sep_ok (fst nq) (snd nq) T2 T1)
          (face_planes T1 ++ face_planes T2 ++ edge_planes T1 T2).

Definition sep_tets (vs : list spoint) (t1 t2 : tet) : bool :=
  match tet_points vs t1, tet_points vs t2 with
  | Some T1, Some T2 => sep_pair T1 T2
  | _, _ => false
  end.

Fixpoint chk_disjoint (vs : list spoint) (ts : list tet) : bool :=
  match ts with
  | [] => true
  | t :: r => forallb (sep_tets vs t) r && chk_disjoint vs r
  end.

(** ** soundness *)
Local Open Scope R_scope.

Section Sound.
  Variable env : list R.
  Hypothesis Henv : env_pos env.
  Notation ev := (eval_pt env).

  Lemma ev_vsub a b : ev (vsub (O := POps) a b) = vsub (O := ROps) (ev a) (ev b).
  Proof. unfold eval_pt, vsub; cbn [vx vy vz]. now rewrite !peval_sub. Qed.
  Lemma ev_cross a b : ev (cross (O := POps) a b) = cross (O := ROps) (ev a) (ev b).
  Proof. unfold eval_pt, cross; cbn [vx vy vz]. now rewrite !peval_sub, !peval_mul. Qed.
  Lemma ev_dot a b : peval env (dot (O := POps) a b) = dot (O := ROps) (ev a) (ev b).
  Proof. unfold eval_pt, dot; cbn [vx vy vz]. now rewrite !peval_add, !peval_mul. Qed.
  Lemma ev_vol6 a b c d :
    peval env (vol6 (O := POps) a b c d) = vol6 (O := ROps) (ev a) (ev b) (ev c) (ev d).
  Proof. unfold vol6. now rewrite ev_dot, ev_cross, !ev_vsub. Qed.
  Lemma ev_splane n q p : peval env (splane n q p) = plane_fn (ev n) (ev q) (ev p).
  Proof. unfold splane, plane_fn. now rewrite ev_dot, ev_vsub. Qed.

  Lemma ev_vget vs i : vget (map ev vs) i = option_map ev (vget vs i).
  Proof. unfold vget. destruct (i <? 0)%Z; [reflexivity|]. now rewrite nth_error_map. Qed.

  Definition ev_tet (T : stet) : V3 R * V3 R * V3 R * V3 R :=
    let '(a, b, c, d) := T in (ev a, ev b, ev c, ev d).

  Lemma ev_tet_points vs t : tet_points (map ev vs) t = option_map ev_tet (tet_points vs t).
  Proof.
    destruct t as [[[a b] c] d]. unfold tet_points. rewrite !ev_vget.
    destruct (vget vs a), (vget vs b), (vget vs c), (vget vs d); reflexivity.
  Qed.

  Lemma ev_tet_vol6 vs t :
    tet_vol6 (O := ROps) (map ev vs) t = option_map (peval env) (tet_vol6 (O := POps) vs t).
  Proof.
    unfold tet_vol6. rewrite ev_tet_points.
    destruct (tet_points vs t) as [[[[a b] c] d]|]; cbn [option_map ev_tet]; [|reflexivity].
    now rewrite ev_vol6.
  Qed.

  Lemma peval_pscale0 sg p : peval env (pscale [] sg p) = IZR sg * peval env p.
  Proof. rewrite peval_pscale. cbn. ring. Qed.

  Theorem chk_oriented_sound sg vs ts :
    chk_oriented sg vs ts = true -> tets_oriented (IZR sg) (map ev vs) ts.
  Proof.
    unfold chk_oriented, tets_oriented. rewrite forallb_forall, Forall_forall.
    intros H t Ht. specialize (H t Ht). rewrite ev_tet_vol6.
    destruct (tet_vol6 (O := POps) vs t) as [p|]; [|discriminate].
    exists (peval env p). split; [reflexivity|].
    apply (ppos_sound env _ Henv) in H. now rewrite peval_pscale0 in H.
  Qed.

  Lemma ssum_sound sg vs ts s :
    ssum sg vs ts = Some s -> sum_vol6 (IZR sg) (map ev vs) ts = Some (peval env s).
  Proof.
    revert s; induction ts as [|t r IH]; intros s H; cbn in *.
    - inversion H; subst. reflexivity.
    - rewrite ev_tet_vol6.
      destruct (tet_vol6 (O := POps) vs t) as [p|]; [|discriminate].
      destruct (ssum sg vs r) as [s'|]; [|discriminate].
      inversion H; subst. cbn. rewrite (IH s' eq_refl). f_equal.
      rewrite peval_padd, peval_pscale0. reflexivity.
  Qed.

  Theorem chk_sum_sound sg vs ts total :
    chk_sum sg vs ts total = true -> sum_vol6 (IZR sg) (map ev vs) ts = Some (peval env total).
  Proof.
    unfold chk_sum. destruct (ssum sg vs ts) as [s|] eqn:E; [|discriminate].
    intros H. apply (peqb_sound env) in H. rewrite (ssum_sound _ _ _ _ E). now f_equal.
  Qed.

  Theorem chk_inbox_sound hx hy hz vs :
    chk_inbox hx hy hz vs = true ->
    verts_in_box (peval env hx) (peval env hy) (peval env hz) (map ev vs).
  Proof.
    unfold chk_inbox, verts_in_box. rewrite forallb_forall, Forall_forall.
    intros H p Hp. apply in_map_iff in Hp as [v [<- Hv]]. specialize (H v Hv).
    repeat (apply andb_true_iff in H as [H ?]).
    repeat match goal with
           | X : pnonneg _ = true |- _ => apply (pnonneg_sound env _ Henv) in X
           end.
    rewrite ?peval_psub, ?peval_padd in *.
    unfold in_box, eval_pt; cbn [vx vy vz]. repeat split; apply Rabs_le; lra.
  Qed.

  Lemma sep_ok_sound n q T1 T2 :
    sep_ok n q T1 T2 = true ->
    let '(a1, b1, c1, d1) := ev_tet T1 in
    let '(a2, b2, c2, d2) := ev_tet T2 in
    forall p, ~ (tet_interior a1 b1 c1 d1 p /\ tet_interior a2 b2 c2 d2 p).
  Proof.
    destruct T1 as [[[a1 b1] c1] d1], T2 as [[[a2 b2] c2] d2]. cbn [sep_ok ev_tet].
    intros H. repeat (apply andb_true_iff in H as [H ?]).
    repeat match goal with
           | X : pnonneg _ = true |- _ => apply (pnonneg_sound env _ Henv) in X; rewrite ev_splane in X
           | X : pnonpos _ = true |- _ => apply (pnonpos_sound env _ Henv) in X; rewrite ev_splane in X
           end.
    apply (separated_interiors_disjoint (ev n) (ev q)); try assumption.
    repeat match goal with
           | X : (_ || _)%bool = true |- _ => apply orb_true_iff in X as [X|X]
           end;
      (apply (pneg_sound env _ Henv) in H0 || apply (ppos_sound env _ Henv) in H0);
      rewrite ev_splane in H0; tauto.
  Qed.

  Lemma sep_pair_sound T1 T2 :
    sep_pair T1 T2 = true ->
    let '(a1, b1, c1, d1) := ev_tet T1 in
    let '(a2, b2, c2, d2) := ev_tet T2 in
    forall p, ~ (tet_interior a1 b1 c1 d1 p /\ tet_interior a2 b2 c2 d2 p).
  Proof.
    unfold sep_pair. intros H. apply existsb_exists in H as [[n q] [_ H]]. cbn [fst snd] in H.
    apply orb_true_iff in H as [H|H].
    - apply (sep_ok_sound n q T1 T2 H).
    - pose proof (sep_ok_sound n q T2 T1 H) as S.
      destruct (ev_tet T1) as [[[a1 b1] c1] d1], (ev_tet T2) as [[[a2 b2] c2] d2].
      intros p [P1 P2]. apply (S p). split; assumption.
  Qed.

  Lemma sep_tets_sound vs t1 t2 :
    sep_tets vs t1 t2 = true ->
    forall p, ~ (mesh_interior (map ev vs) t1 p /\ mesh_interior (map ev vs) t2 p).
  Proof.
    unfold sep_tets, mesh_interior. intros H p [(a1 & b1 & c1 & d1 & E1 & I1) (a2 & b2 & c2 & d2 & E2 & I2)].
    rewrite ev_tet_points in E1, E2.
    destruct (tet_points vs t1) as [T1|]; [|discriminate].
    destruct (tet_points vs t2) as [T2|]; [|discriminate].
    cbn in E1, E2. pose proof (sep_pair_sound T1 T2 H) as S.
    inversion E1 as [E1']. inversion E2 as [E2']. rewrite E1', E2' in S.
    apply (S p). split; assumption.
  Qed.

  Theorem chk_disjoint_sound vs ts :
    chk_disjoint vs ts = true -> interiors_disjoint (map ev vs) ts.
  Proof.
    unfold interiors_disjoint. induction ts as [|t r IH]; intros H i j ti tj Hij Hi Hj.
    - destruct i; discriminate.
    - cbn in H. apply andb_true_iff in H as [H1 H2].
      destruct j as [|j]; [lia|]. cbn in Hj.
      destruct i as [|i].
      + cbn in Hi. inversion Hi; subst ti. rewrite forallb_forall in H1.
        apply sep_tets_sound. apply H1. eapply nth_error_In; eassumption.
      + cbn in Hi. apply (IH H2 i j ti tj); [lia|assumption|assumption].
  Qed.
End Sound.
