(** * Jolt simplex solver, one and two points: [closest_point_line] returns the minimum-norm
      point of the segment, for all real inputs (Model/Simplex.v over [ROps]).

    In the regular arm ([|b - a|^2 >= EPSILON^2]) the result is the exact minimum-norm point.
    In the degenerate arm the nearer end point is returned, which is within [EPSILON] of
    optimal (and in general not exactly optimal: [line_degenerate_not_exact]). *)
From Coq Require Import List NArith QArith Qreals Reals Lra Psatz Bool.
From D3 Require Import Base.Ops Base.Vec Base.RVec Spec.Convex Spec.ConvexHull Model.Simplex.
Import ListNotations.
Local Open Scope R_scope.

(** ** the constants over R *)
Definition eps : R := @EPSILON R ROps.
Lemma eps_val : eps = / 4503599627370496.
Proof. unfold eps, EPSILON. cbn [cst ROps]. unfold Q2R. cbn [Qnum Qden]. lra. Qed.
Lemma eps_pos : 0 < eps.
Proof. rewrite eps_val. lra. Qed.
Lemma eps_sqr : @EPSILON_SQR R ROps = eps * eps.
Proof. reflexivity. Qed.

(** destructing the boolean comparisons of the real instance *)
Ltac rcases :=
  repeat match goal with
  | |- context [Rltb ?x ?y] =>
    let E := fresh "E" in destruct (Rltb x y) eqn:E; [apply Rltb_true in E | apply Rltb_false in E]
  | |- context [Rleb ?x ?y] =>
    let E := fresh "E" in destruct (Rleb x y) eqn:E; [apply Rleb_true in E | apply Rleb_false in E]
  end.

(** ** points of a segment *)
Lemma hull2_param (a b x : V3R) :
  conv_hull [a; b] x -> exists t, 0 <= t <= 1 /\ x = vadd a (vscale t (vsub b a)).
Proof.
  intros (ws & Hl & Hw & Hs & ->).
  destruct ws as [|u [|v [|? ?]]]; simpl in Hl; try discriminate.
  inversion Hw as [|? ? Hu Hw']; subst. inversion Hw' as [|? ? Hv _]; subst.
  simpl in Hs. exists v. split; [lra|].
  assert (u = 1 - v) by lra. subst u. simpl. vsimp. f_equal; ring.
Qed.

Lemma hull2_near_a (a b x : V3R) :
  conv_hull [a; b] x -> norm (vsub a x) <= norm (vsub b a).
Proof.
  intros H. destruct (hull2_param _ _ _ H) as (t & Ht & ->).
  replace (vsub a (vadd a (vscale t (vsub b a)))) with (vscale (- t) (vsub b a))
    by (vsimp; f_equal; ring).
  rewrite norm_scale, Rabs_Ropp, Rabs_right by lra.
  pose proof (norm_nonneg (vsub b a)). nra.
Qed.
Lemma hull2_near_b (a b x : V3R) :
  conv_hull [a; b] x -> norm (vsub b x) <= norm (vsub b a).
Proof.
  intros H. destruct (hull2_param _ _ _ H) as (t & Ht & ->).
  replace (vsub b (vadd a (vscale t (vsub b a)))) with (vscale (1 - t) (vsub b a))
    by (vsimp; f_equal; ring).
  rewrite norm_scale, Rabs_right by lra.
  pose proof (norm_nonneg (vsub b a)). nra.
Qed.

Lemma norm_le_plus_dist (p x : V3R) : norm p <= norm x + norm (vsub p x).
Proof.
  pose proof (norm_triangle x (vsub p x)) as H.
  replace (vadd x (vsub p x)) with p in H by (vsimp; f_equal; ring). exact H.
Qed.

Lemma norm_lt_of_sq_lt (v : V3R) (e : R) : 0 < e -> dot v v < e * e -> norm v < e.
Proof.
  intros He H. pose proof (norm_nonneg v). pose proof (norm_sq v).
  destruct (Rlt_le_dec (norm v) e); auto. nra.
Qed.

(** ** the theorem *)
Theorem jolt_line_correct (a b : V3R) :
  let p := fst (@closest_point_line R ROps a b) in
  let s := snd (@closest_point_line R ROps a b) in
  (* the bit set names a non-empty subset of the two points whose hull contains the result *)
  (s = 1%N \/ s = 2%N \/ s = 3%N) /\
  conv_hull (update_simplex_y [a; b] 2 s) p /\
  conv_hull [a; b] p /\
  (* regular arm: exact minimum-norm point *)
  (eps * eps <= dot (vsub b a) (vsub b a) -> is_min_norm [a; b] p) /\
  (* every arm: within EPSILON of the minimum *)
  (forall x, conv_hull [a; b] x -> norm p <= norm x + eps).
Proof.
  unfold closest_point_line, closest_point_line_t, get_barycentric_coordinates_line_t.
  rewrite eps_sqr. cbn [ltb leb ROps zero one add sub mul div opp].
  pose proof eps_pos as Heps.
  set (ab := vsub b a). set (den := dot ab ab).
  assert (Hden0 : 0 <= den) by apply dot_self_nonneg.
  destruct (Rltb den (eps * eps)) eqn:Ed; [apply Rltb_true in Ed | apply Rltb_false in Ed].
  - (* degenerate: the nearer end point *)
    assert (Hab : norm ab < eps) by (apply norm_lt_of_sq_lt; auto).
    destruct (Rltb (dot a a) (dot b b)) eqn:Eab.
    + (* (1, 0): v = 0 <= 0 -> a *)
      replace (Rleb 0 0) with true by (symmetry; apply Rleb_true; lra).
      cbn [fst snd]. split; [auto|]. split; [cbn; apply conv_hull_1|].
      split; [apply conv_hull_In; simpl; auto|]. split; [intros; lra|].
      intros x Hx. pose proof (norm_le_plus_dist a x). pose proof (hull2_near_a a b x Hx). fold ab in H0. lra.
    + (* (0, 1): v = 1 > 0, u = 0 <= 0 -> b *)
      replace (Rleb 1 0) with false by (symmetry; apply Rleb_false; lra).
      replace (Rleb 0 0) with true by (symmetry; apply Rleb_true; lra).
      cbn [fst snd]. split; [auto|]. split; [cbn; apply conv_hull_1|].
      split; [apply conv_hull_In; simpl; auto|]. split; [intros; lra|].
      intros x Hx. pose proof (norm_le_plus_dist b x). pose proof (hull2_near_b a b x Hx). fold ab in H0. lra.
  - (* regular *)
    assert (Hden : 0 < den) by nra.
    set (v := - dot a ab / den). set (u := 1 - v).
    assert (Hv : v * den = - dot a ab) by (unfold v; field; lra).
    assert (exact_ok : forall p s, (s = 1%N \/ s = 2%N \/ s = 3%N) ->
               conv_hull (update_simplex_y [a; b] 2 s) p -> conv_hull [a; b] p ->
               (forall y, In y [a; b] -> dot p p <= dot p y) ->
               (s = 1%N \/ s = 2%N \/ s = 3%N) /\ conv_hull (update_simplex_y [a; b] 2 s) p /\
               conv_hull [a; b] p /\ (eps * eps <= den -> is_min_norm [a; b] p) /\
               (forall x, conv_hull [a; b] x -> norm p <= norm x + eps)).
    { intros p s Hs H1 H2 H3. split; auto. split; auto. split; auto.
      pose proof (is_min_norm_of_kkt _ _ H2 H3) as Hm. split; auto.
      intros x Hx. destruct Hm as [_ Hm]. specialize (Hm x Hx). lra. }
    destruct (Rleb v 0) eqn:Ev; [apply Rleb_true in Ev | apply Rleb_false in Ev].
    + (* a *)
      cbn [fst snd]. apply exact_ok; auto; [cbn; apply conv_hull_1|apply conv_hull_In; simpl; auto|].
      intros y [<-|[<-|[]]]; [lra|].
      assert (dot a b = dot a a + dot a ab) by (unfold ab; rewrite dot_sub_r; ring). nra.
    + destruct (Rleb u 0) eqn:Eu; [apply Rleb_true in Eu | apply Rleb_false in Eu].
      * (* b *)
        cbn [fst snd]. apply exact_ok; auto; [cbn; apply conv_hull_1|apply conv_hull_In; simpl; auto|].
        intros y [<-|[<-|[]]]; [|lra].
        assert (E1 : dot b a = dot b b - dot b ab) by (unfold ab; rewrite dot_sub_r; ring).
        assert (E2 : dot b ab = dot a ab + den) by (unfold den, ab; vsimp; ring).
        unfold u in Eu. nra.
      * (* interior *)
        cbn [fst snd]. unfold u in Eu.
        set (p := vadd (vscale u a) (vscale v b)).
        assert (Hp : p = vadd a (vscale v ab)) by (unfold p, u, ab; vsimp; f_equal; ring).
        assert (Hpab : dot p ab = 0).
        { rewrite Hp, dot_add_l, dot_scale_l. fold den. lra. }
        apply exact_ok; auto.
        -- cbn. apply conv_hull_2; unfold u; lra.
        -- apply conv_hull_2; unfold u; lra.
        -- intros y [<-|[<-|[]]].
           ++ assert (dot p p = dot p a + v * dot p ab) by (rewrite Hp at 2; rewrite dot_add_r, dot_scale_r; ring). nra.
           ++ assert (dot p b = dot p a + dot p ab) by (unfold ab; rewrite dot_sub_r; ring).
              assert (dot p p = dot p a + v * dot p ab) by (rewrite Hp at 2; rewrite dot_add_r, dot_scale_r; ring). nra.
Qed.

(** the degenerate arm is not exactly optimal: two points closer together than EPSILON whose
    segment passes nearer to the origin than both *)
Lemma line_degenerate_not_exact :
  exists a b : V3R,
    let p := fst (@closest_point_line R ROps a b) in
    exists x, conv_hull [a; b] x /\ norm x < norm p.
Proof.
  pose proof eps_pos as He. pose proof eps_val as Hv.
  set (d := eps / 4).
  exists (V 1 (- d) 0), (V 1 d 0).
  unfold closest_point_line, closest_point_line_t, get_barycentric_coordinates_line_t.
  rewrite eps_sqr. cbn [ltb leb ROps zero one add sub mul div opp].
  assert (E1 : Rltb (dot (vsub (V 1 d 0) (V 1 (- d) 0)) (vsub (V 1 d 0) (V 1 (- d) 0))) (eps * eps) = true).
  { apply Rltb_true. vunfold. cbn [vx vy vz]. unfold d. nra. }
  rewrite E1.
  assert (E2 : Rltb (dot (V 1 (- d) 0) (V 1 (- d) 0)) (dot (V 1 d 0) (V 1 d 0)) = false).
  { apply Rltb_false. vunfold. cbn [vx vy vz]. lra. }
  rewrite E2.
  replace (Rleb 1 0) with false by (symmetry; apply Rleb_false; lra).
  replace (Rleb 0 0) with true by (symmetry; apply Rleb_true; lra).
  cbn [fst]. exists (V 1 0 0). split.
  - replace (V 1 0 0) with (vadd (vscale (1/2) (V 1 (- d) 0)) (vscale (1/2) (V 1 d 0)))
      by (vunfold; cbn [vx vy vz]; f_equal; lra).
    apply conv_hull_2; lra.
  - assert (H1 : norm (V 1 0 0) = 1).
    { unfold norm. cbn [sqrt ROps]. replace (dot (V 1 0 0) (V 1 0 0)) with 1 by (vunfold; cbn [vx vy vz]; ring).
      apply sqrt_1. }
    rewrite H1.
    pose proof (norm_nonneg (V 1 d 0)). pose proof (norm_sq (V 1 d 0)) as Hs.
    replace (dot (V 1 d 0) (V 1 d 0)) with (1 + d * d) in Hs by (vunfold; cbn [vx vy vz]; ring).
    assert (0 < d) by (unfold d; lra). nra.
Qed.
