(** * Non-vacuity of [distance_step_stall_exact_partial]: a concrete state of the loop model (over
      the reals) that meets ALL its hypotheses together - the state after the first iteration on
      A = {(2,0,0)}, B = {(0,0,0)}: the second support point repeats the first, the simplex
      solver reports "no improvement", and the conclusion gives the exact distance 2. *)
From Coq Require Import Reals Lra Psatz List NArith Bool QArith Qreals.
From D3 Require Import Base.Ops Base.Vec Base.RVec Spec.Convex Model.Simplex Model.JoltLoop Proofs.JoltLoop
  Proofs.JoltStall.
Import ListNotations.
Local Open Scope R_scope.

Definition exA : set3 := fun x => x = V 2 0 0.
Definition exB : set3 := fun x => x = V 0 0 0.
Definition ex_y : V3R := V 2 0 0.
Definition ex_p : V3R := V 2 0 0.
Definition ex_q : V3R := V 0 0 0.
Definition ex_s : @dstate R := DS [ex_y] [V 2 0 0] [V 0 0 0] 4 4 (V (-2) 0 0).

Lemma ex_sub : vsub (V 2 0 0 : V3R) (V 0 0 0) = ex_y.
Proof. unfold ex_y. veq. Qed.

From D3 Require Import Proofs.SimplexLine.

Lemma ex_line : @closest_point_line R ROps ex_y ex_y = (ex_y, 2%N).
Proof.
  pose proof eps_pos as He.
  unfold closest_point_line, closest_point_line_t, get_barycentric_coordinates_line_t.
  rewrite eps_sqr.
  replace (dot (vsub ex_y ex_y) (vsub ex_y ex_y)) with 0 by (unfold ex_y; vsimp; ring).
  assert (E1 : ltb 0 (eps * eps) = true) by (apply Rltb_true; nra).
  rewrite E1.
  assert (E2 : ltb (dot ex_y ex_y) (dot ex_y ex_y) = false) by (apply Rltb_false; lra).
  rewrite E2.
  assert (E3 : leb (one : R) zero = false) by (apply Rleb_false; cbn; lra).
  rewrite E3.
  assert (E4 : leb (zero : R) zero = true) by (apply Rleb_true; cbn; lra).
  rewrite E4. reflexivity.
Qed.

Lemma ex_gcp prev :
  @get_closest_point_to_origin R ROps [ex_y; ex_y] 2 prev
  = if Rltb (dot ex_y ex_y) prev then GcpOk ex_y (dot ex_y ex_y) 2%N else GcpFail.
Proof. unfold get_closest_point_to_origin. rewrite ex_line. reflexivity. Qed.

Lemma ex_dot : dot ex_y ex_y = 4.
Proof. unfold ex_y. vsimp. ring. Qed.

Lemma ex_hull_single x : conv_hull [ex_y; ex_y] x -> x = ex_y.
Proof.
  intros (ws & Hl & Hw & Hs & ->).
  destruct ws as [|u [|v [|? ?]]]; simpl in Hl; try discriminate.
  simpl in Hs. unfold ex_y. simpl. vsimp. f_equal; nra.
Qed.

Theorem stall_exact_nonvacuous :
  srows exA exB ex_s /\ dinv ex_s /\ prev_v_len_sq ex_s = v_len_sq ex_s /\
  is_support exA (search_direction ex_s) ex_p /\
  is_support exB (vneg (search_direction ex_s)) ex_q /\
  conv_hull (Ys ex_s) (vneg (search_direction ex_s)) /\
  (forall v' sx prev',
      get_closest_point_to_origin (Ys ex_s ++ [vsub ex_p ex_q])
        (length (Ys ex_s ++ [vsub ex_p ex_q])) prev' = GcpOk v' (dot v' v') sx ->
      min_norm_in_hull (Ys ex_s ++ [vsub ex_p ex_q]) v') /\
  get_closest_point_to_origin (Ys ex_s ++ [vsub ex_p ex_q])
    (length (Ys ex_s ++ [vsub ex_p ex_q])) (prev_v_len_sq ex_s) = GcpFail /\
  norm (search_direction ex_s) = 2.
Proof.
  unfold ex_p, ex_q. rewrite ex_sub. cbn [ex_s Ys Ps Qs prev_v_len_sq v_len_sq search_direction app length].
  split. { unfold srows. cbn. constructor; [reflexivity|reflexivity|symmetry; apply ex_sub|constructor]. }
  split. { unfold dinv. cbn. ring. }
  split. { reflexivity. }
  split. { split; [reflexivity|]. intros x ->. lra. }
  split. { split; [reflexivity|]. intros x ->. lra. }
  split. { exists [1]. repeat split; [constructor; [lra|constructor]|cbn; lra|unfold ex_y; cbn; vsimp; f_equal; ring]. }
  split.
  { intros v' sx prev' H. rewrite ex_gcp in H. destruct (Rltb _ _); [|discriminate]. injection H as <- _ _.
    split.
    - exists [1; 0]. repeat split; [repeat constructor; lra|cbn; lra|unfold ex_y; cbn; vsimp; f_equal; ring].
    - intros y Hy. rewrite (ex_hull_single _ Hy). lra. }
  split. { rewrite ex_gcp, ex_dot. rewrite (proj2 (Rltb_false 4 4)); [reflexivity|lra]. }
  unfold norm. replace (dot _ _) with (2 * 2) by (vsimp; ring). apply sqrt_square. lra.
Qed.
