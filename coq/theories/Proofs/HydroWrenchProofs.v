(** * Wrench algebra, express_in and cache bookkeeping of Model/HydroWrench.v over the reals (C16). *)
From Coq Require Import Reals Lra List Bool Arith Lia.
From D3 Require Import Base.Ops Base.Vec Base.RVec Base.RVec2 Model.AabbTree Model.HydroWrench.
Import ListNotations.
Local Open Scope R_scope.

(** ** small vector algebra *)
Lemma vadd_zero_l (a : V3R) : vadd vzero a = a.
Proof. veq. Qed.
Lemma vadd_zero_r (a : V3R) : vadd a vzero = a.
Proof. veq. Qed.
Lemma vadd_assoc (a b c : V3R) : vadd (vadd a b) c = vadd a (vadd b c).
Proof. veq. Qed.
Lemma vadd_comm (a b : V3R) : vadd a b = vadd b a.
Proof. veq. Qed.
Lemma vneg_vadd (a b : V3R) : vneg (vadd a b) = vadd (vneg a) (vneg b).
Proof. veq. Qed.
Lemma vneg_vneg (a : V3R) : vneg (vneg a) = a.
Proof. veq. Qed.
Lemma vneg_zero : vneg (vzero : V3R) = vzero.
Proof. unfold vneg, vzero. cbn [vx vy vz opp zero ROps]. f_equal; ring. Qed.
Lemma mulMV_vadd (m : M3 R) (a b : V3R) : mulMV m (vadd a b) = vadd (mulMV m a) (mulMV m b).
Proof. destruct m as [[a1 a2 a3] [b1 b2 b3] [c1 c2 c3]]. veq. Qed.
Lemma mulMV_vneg (m : M3 R) (a : V3R) : mulMV m (vneg a) = vneg (mulMV m a).
Proof. destruct m as [[a1 a2 a3] [b1 b2 b3] [c1 c2 c3]]. veq. Qed.
Lemma mulMV_vsub (m : M3 R) (a b : V3R) : mulMV m (vsub a b) = vsub (mulMV m a) (mulMV m b).
Proof. destruct m as [[a1 a2 a3] [b1 b2 b3] [c1 c2 c3]]. veq. Qed.
Lemma mulMV_zero (m : M3 R) : mulMV m vzero = vzero.
Proof. destruct m as [[a1 a2 a3] [b1 b2 b3] [c1 c2 c3]]. unfold mulMV, dot, vzero. cbn [vx vy vz r0 r1 r2 add mul zero ROps]. f_equal; ring. Qed.
Lemma mulMV_mmul (A B : M3 R) (v : V3R) : mulMV (mmul A B) v = mulMV A (mulMV B v).
Proof.
  destruct A as [[a1 a2 a3] [b1 b2 b3] [c1 c2 c3]], B as [[d1 d2 d3] [e1 e2 e3] [f1 f2 f3]], v as [x y z].
  unfold mulMV, mmul, transpose, col, nthv, dot. cbn [vx vy vz r0 r1 r2 add mul ROps]. f_equal; ring.
Qed.
Lemma cross_vneg_r (a b : V3R) : cross a (vneg b) = vneg (cross a b).
Proof. veq. Qed.
Lemma cross_vadd_r (a b c : V3R) : cross a (vadd b c) = vadd (cross a b) (cross a c).
Proof. veq. Qed.
Lemma cross_vsub_l (a b c : V3R) : cross (vsub a b) c = vsub (cross a c) (cross b c).
Proof. veq. Qed.

(** ** sums *)
Lemma fold_vadd_acc (l : list V3R) (a : V3R) : fold_left vadd l a = vadd a (fold_left vadd l vzero).
Proof.
  revert a. induction l as [|x l IH]; intros a; cbn [fold_left].
  - now rewrite vadd_zero_r.
  - rewrite IH, (IH (vadd vzero x)), vadd_zero_l, vadd_assoc. reflexivity.
Qed.
Lemma vsum_cons (x : V3R) (l : list V3R) : vsum (x :: l) = vadd x (vsum l).
Proof. unfold vsum. cbn [fold_left]. rewrite fold_vadd_acc, vadd_zero_l. reflexivity. Qed.
Lemma vsum_nil : vsum ([] : list V3R) = vzero.
Proof. reflexivity. Qed.
Lemma vsum_map_vneg (l : list V3R) : vsum (map vneg l) = vneg (vsum l).
Proof.
  induction l as [|x l IH]; cbn [map].
  - rewrite vsum_nil, vneg_zero. reflexivity.
  - rewrite !vsum_cons, IH, vneg_vadd. reflexivity.
Qed.
Lemma vsum_map_mulMV (m : M3 R) (l : list V3R) : vsum (map (mulMV m) l) = mulMV m (vsum l).
Proof.
  induction l as [|x l IH]; cbn [map].
  - rewrite vsum_nil, mulMV_zero. reflexivity.
  - rewrite !vsum_cons, IH, mulMV_vadd. reflexivity.
Qed.

(** ** action - reaction: the two forces are opposite in the world frame, for every frame *)
Theorem action_reaction (forces coms : list V3R) (com1 com2 : V3R) (T : Pose R) :
  let '((f12, _), (f21, _)) := accumulate_wrenches forces coms com1 com2 T in
  f12 = vneg f21.
Proof. unfold accumulate_wrenches. cbv zeta. apply mulMV_vneg. Qed.

(** the torque body 1 exerts on body 2 is the sum of the moments of the opposite forces *)
Lemma torques_vneg (about : V3R) (coms forces : list V3R) :
  torques about coms (map vneg forces) = map vneg (torques about coms forces).
Proof.
  revert forces. induction coms as [|c coms IH]; intros [|f forces]; cbn [torques map]; auto.
  f_equal; [apply cross_vneg_r | apply IH].
Qed.

Lemma sum_sq3_zero (x y z : R) : x * x + y * y + z * z = 0 -> x = 0 /\ y = 0 /\ z = 0.
Proof. intros H. pose proof (sqr_nonneg x). pose proof (sqr_nonneg y). pose proof (sqr_nonneg z). repeat split; nra. Qed.

(** ** proper rotations preserve the cross product *)
Definition det3m (m : M3 R) : R := dot (r0 m) (cross (r1 m) (r2 m)).
Definition proper_rotation (m : M3 R) : Prop := is_rotation m /\ det3m m = 1.

Lemma proper_rotation_cross (m : M3 R) : proper_rotation m ->
  forall a b, cross (mulMV m a) (mulMV m b) = mulMV m (cross a b).
Proof.
  intros [Hrot Hdet].
  (* orthonormal rows, determinant 1 => each row is the cross product of the two others *)
  pose proof (rotation_rows_orthonormal m Hrot) as Hrows.
  destruct m as [[a1 a2 a3] [b1 b2 b3] [c1 c2 c3]].
  unfold orthonormal in Hrows. unfold det3m in Hdet.
  cbn [r0 r1 r2] in *.
  unfold dot, cross in *. cbn [vx vy vz add sub mul ROps] in *.
  destruct Hrows as (H00 & H11 & H22 & H01 & H02 & H12).
  (* |r1 x r2 - r0|^2 = |r1|^2 |r2|^2 - (r1.r2)^2 - 2 det + |r0|^2 = 0, and cyclically *)
  set (AA := a1 * a1 + a2 * a2 + a3 * a3) in *. set (BB := b1 * b1 + b2 * b2 + b3 * b3) in *.
  set (CC := c1 * c1 + c2 * c2 + c3 * c3) in *. set (AB := a1 * b1 + a2 * b2 + a3 * b3) in *.
  set (AC := a1 * c1 + a2 * c2 + a3 * c3) in *. set (BC := b1 * c1 + b2 * c2 + b3 * c3) in *.
  set (DET := a1 * (b2 * c3 - b3 * c2) + a2 * (b3 * c1 - b1 * c3) + a3 * (b1 * c2 - b2 * c1)) in *.
  assert (E0 : (b2 * c3 - b3 * c2 - a1) * (b2 * c3 - b3 * c2 - a1) + (b3 * c1 - b1 * c3 - a2) * (b3 * c1 - b1 * c3 - a2)
               + (b1 * c2 - b2 * c1 - a3) * (b1 * c2 - b2 * c1 - a3) = 0).
  { replace (_ + _ + _) with (BB * CC - BC * BC - 2 * DET + AA) by (unfold AA, BB, CC, BC, DET; ring).
    rewrite H00, H11, H22, H12, Hdet. ring. }
  assert (E1 : (c2 * a3 - c3 * a2 - b1) * (c2 * a3 - c3 * a2 - b1) + (c3 * a1 - c1 * a3 - b2) * (c3 * a1 - c1 * a3 - b2)
               + (c1 * a2 - c2 * a1 - b3) * (c1 * a2 - c2 * a1 - b3) = 0).
  { replace (_ + _ + _) with (CC * AA - AC * AC - 2 * DET + BB) by (unfold AA, BB, CC, AC, DET; ring).
    rewrite H00, H11, H22, H02, Hdet. ring. }
  assert (E2 : (a2 * b3 - a3 * b2 - c1) * (a2 * b3 - a3 * b2 - c1) + (a3 * b1 - a1 * b3 - c2) * (a3 * b1 - a1 * b3 - c2)
               + (a1 * b2 - a2 * b1 - c3) * (a1 * b2 - a2 * b1 - c3) = 0).
  { replace (_ + _ + _) with (AA * BB - AB * AB - 2 * DET + CC) by (unfold AA, BB, CC, AB, DET; ring).
    rewrite H00, H11, H22, H01, Hdet. ring. }
  clearbody AA BB CC AB AC BC DET.
  apply sum_sq3_zero in E0 as (A1 & A2 & A3). apply sum_sq3_zero in E1 as (B1 & B2 & B3).
  apply sum_sq3_zero in E2 as (C1 & C2 & C3).
  assert (A1' : a1 = b2 * c3 - b3 * c2) by lra. assert (A2' : a2 = b3 * c1 - b1 * c3) by lra.
  assert (A3' : a3 = b1 * c2 - b2 * c1) by lra.
  assert (B1' : b1 = c2 * a3 - c3 * a2) by lra. assert (B2' : b2 = c3 * a1 - c1 * a3) by lra.
  assert (B3' : b3 = c1 * a2 - c2 * a1) by lra.
  assert (C1' : c1 = a2 * b3 - a3 * b2) by lra. assert (C2' : c2 = a3 * b1 - a1 * b3) by lra.
  assert (C3' : c3 = a1 * b2 - a2 * b1) by lra.
  intros [x y z] [u v w]. unfold mulMV, cross, dot. cbn [vx vy vz r0 r1 r2 add sub mul ROps].
  f_equal.
  - transitivity ((b2 * c3 - b3 * c2) * (y * w - z * v) + (b3 * c1 - b1 * c3) * (z * u - x * w) + (b1 * c2 - b2 * c1) * (x * v - y * u)).
    + ring.
    + rewrite <- A1', <- A2', <- A3'. reflexivity.
  - transitivity ((c2 * a3 - c3 * a2) * (y * w - z * v) + (c3 * a1 - c1 * a3) * (z * u - x * w) + (c1 * a2 - c2 * a1) * (x * v - y * u)).
    + ring.
    + rewrite <- B1', <- B2', <- B3'. reflexivity.
  - transitivity ((a2 * b3 - a3 * b2) * (y * w - z * v) + (a3 * b1 - a1 * b3) * (z * u - x * w) + (a1 * b2 - a2 * b1) * (x * v - y * u)).
    + ring.
    + rewrite <- C1', <- C2', <- C3'. reflexivity.
Qed.

(** ** equivariance under a common rigid motion *)
(** Moving both bodies by g leaves body 1 expressed in body 2's frame unchanged ... *)
Lemma mulMV_transpose_is_mulTV (m : M3 R) (v : V3R) : mulMV (transpose m) v = mulTV m v.
Proof. reflexivity. Qed.

Lemma transform_compose (A B : Pose R) (v : V3R) :
  transform_point (compose A B) v = transform_point A (transform_point B v).
Proof.
  unfold transform_point, compose. cbn [rot trans]. rewrite mulMV_mmul, mulMV_vadd, vadd_assoc. reflexivity.
Qed.

Lemma transform_invert_l (T : Pose R) (v : V3R) : is_rotation (rot T) ->
  transform_point (invert_transform T) (transform_point T v) = v.
Proof.
  intros HR. unfold transform_point, invert_transform. cbn [rot trans].
  rewrite mulMV_vadd, !mulMV_transpose_is_mulTV, HR.
  destruct v as [x y z], (mulTV (rot T) (trans T)) as [a b c]. unfold vadd, vneg.
  cbn [vx vy vz add opp ROps]. f_equal; ring.
Qed.

Theorem express_in_common_motion (g T1 T2 : Pose R) (v : V3R) : is_rotation (rot g) ->
  transform_point (compose (invert_transform (compose g T2)) (compose g T1)) v =
  transform_point (compose (invert_transform T2) T1) v.
Proof.
  intros Hg. rewrite !transform_compose.
  set (w := transform_point T1 v).
  (* invert (g T2) (g w) = invert T2 w, pointwise *)
  unfold transform_point, invert_transform, compose. cbn [rot trans].
  rewrite !mulMV_transpose_is_mulTV.
  assert (HT : forall u, mulTV (mmul (rot g) (rot T2)) u = mulTV (rot T2) (mulTV (rot g) u)).
  { intros u. destruct (rot g) as [[a1 a2 a3] [b1 b2 b3] [c1 c2 c3]], (rot T2) as [[d1 d2 d3] [e1 e2 e3] [f1 f2 f3]], u as [x y z].
    unfold mulTV, mulMV, mmul, transpose, col, nthv, dot. cbn [vx vy vz r0 r1 r2 add mul ROps]. f_equal; ring. }
  rewrite !HT.
  assert (HL : forall a b : V3R, vadd (mulTV (rot T2) (mulTV (rot g) a)) (vneg (mulTV (rot T2) (mulTV (rot g) b)))
                         = mulTV (rot T2) (mulTV (rot g) (vsub a b))).
  { intros a b. destruct (rot g) as [[a1 a2 a3] [b1 b2 b3] [c1 c2 c3]], (rot T2) as [[d1 d2 d3] [e1 e2 e3] [f1 f2 f3]],
      a as [x y z], b as [x' y' z'].
    unfold mulTV, mulMV, transpose, col, nthv, dot, vadd, vneg, vsub. cbn [vx vy vz r0 r1 r2 add sub mul opp ROps]. f_equal; ring. }
  rewrite HL.
  replace (vsub (vadd (mulMV (rot g) w) (trans g)) (vadd (mulMV (rot g) (trans T2)) (trans g)))
    with (mulMV (rot g) (vsub w (trans T2))).
  2:{ rewrite mulMV_vsub. destruct (mulMV (rot g) w) as [w1 w2 w3], (mulMV (rot g) (trans T2)) as [u1 u2 u3], (trans g) as [g1 g2 g3].
      unfold vsub, vadd. cbn [vx vy vz add sub ROps]. f_equal; ring. }
  rewrite Hg.
  destruct (rot T2) as [[d1 d2 d3] [e1 e2 e3] [f1 f2 f3]], w as [x y z], (trans T2) as [p q r].
  unfold mulTV, mulMV, transpose, col, nthv, dot, vadd, vneg, vsub. cbn [vx vy vz r0 r1 r2 add sub mul opp ROps]. f_equal; ring.
Qed.

(** ... so the contact surface (computed in body 2's frame) is the same and only frame2world
    changes from T2 to g T2: both wrenches are rotated by the rotation of g. *)
Definition rot_wrench (m : M3 R) (w : V3R * V3R) : V3R * V3R := (mulMV m (fst w), mulMV m (snd w)).

Theorem wrench_equivariance (forces coms : list V3R) (com1 com2 : V3R) (g T : Pose R) :
  accumulate_wrenches forces coms com1 com2 (compose g T) =
  (rot_wrench (rot g) (fst (accumulate_wrenches forces coms com1 com2 T)),
   rot_wrench (rot g) (snd (accumulate_wrenches forces coms com1 com2 T))).
Proof.
  unfold accumulate_wrenches, rot_wrench, compose. cbn [rot fst snd]. rewrite !mulMV_mmul. reflexivity.
Qed.

(** ** swap symmetry *)
Lemma torques_map_rigid (Q : M3 R) (s : V3R) : proper_rotation Q ->
  forall (about : V3R) (coms forces : list V3R),
    torques (vadd (mulMV Q about) s) (map (fun c => vadd (mulMV Q c) s) coms) (map (mulMV Q) forces)
    = map (mulMV Q) (torques about coms forces).
Proof.
  intros HQ about. induction coms as [|c coms IH]; intros [|f forces]; cbn [torques map]; auto.
  f_equal; [|apply IH].
  rewrite <- (proper_rotation_cross Q HQ). f_equal.
  rewrite mulMV_vsub. destruct (mulMV Q c) as [c1 c2 c3], (mulMV Q about) as [a1 a2 a3], s as [s1 s2 s3]. unfold vsub, vadd. cbn [vx vy vz add sub ROps]. f_equal; ring.
Qed.

Lemma map_vneg_mulMV (Q : M3 R) (l : list V3R) : map (fun f => vneg (mulMV Q f)) l = map (mulMV Q) (map vneg l).
Proof. rewrite map_map. apply map_ext. intros f. rewrite mulMV_vneg. reflexivity. Qed.

Lemma map_vneg_mulMV_vneg (Q : M3 R) (l : list V3R) : map vneg (map (mulMV Q) (map vneg l)) = map (mulMV Q) l.
Proof. rewrite !map_map. apply map_ext. intros f. rewrite mulMV_vneg, vneg_vneg. reflexivity. Qed.

(** The same physical contact seen from body 1's frame T' instead of body 2's frame T = T' o phi
    (phi = (Q, s) a proper rigid motion), with the roles of the bodies exchanged: contact
    centres are mapped by phi, forces are mapped by Q and negated (the force ON the other
    body), the centres of mass exchange their roles.  Then the two wrenches are exchanged. *)
Theorem wrench_swap (forces coms : list V3R) (com1 com2 : V3R) (R' Q : M3 R) (s p p' : V3R) :
  proper_rotation Q ->
  let phi := fun c => vadd (mulMV Q c) s in
  accumulate_wrenches (map (fun f => vneg (mulMV Q f)) forces) (map phi coms) (phi com2) (phi com1) (P R' p') =
  (snd (accumulate_wrenches forces coms com1 com2 (P (mmul R' Q) p)),
   fst (accumulate_wrenches forces coms com1 com2 (P (mmul R' Q) p))).
Proof.
  intros HQ phi. unfold accumulate_wrenches. cbn [rot fst snd].
  rewrite !map_vneg_mulMV.
  unfold phi. rewrite !(torques_map_rigid Q s HQ).
  rewrite map_vneg_mulMV_vneg, (torques_map_rigid Q s HQ).
  rewrite !vsum_map_mulMV, !mulMV_mmul.
  rewrite !torques_vneg, !vsum_map_vneg, !mulMV_vneg, !vneg_vneg.
  reflexivity.
Qed.

(** ** express_in *)
Section Express.
  Variable A : Type.

  (** re-expressing a body in the frame it is already in leaves every vertex where it is *)
  Theorem express_in_idempotent (b : body (F:=R) A) (T : Pose R) : is_rotation (rot T) ->
    vertices (express_in A (express_in A b T) T) = vertices (express_in A b T) /\
    body2origin (express_in A (express_in A b T) T) = T.
  Proof.
    intros HT. unfold express_in. cbn [vertices body2origin]. split; [|reflexivity].
    unfold transform_points. rewrite map_map. apply map_ext. intros v.
    rewrite transform_compose. apply transform_invert_l. exact HT.
  Qed.

  (** the new vertices are the old ones moved by inverse(new) o old *)
  Theorem express_in_vertices (b : body (F:=R) A) (T : Pose R) (v : V3R) : is_rotation (rot T) ->
    In v (vertices b) ->
    In (transform_point (invert_transform T) (transform_point (body2origin b) v)) (vertices (express_in A b T)).
  Proof.
    intros HT Hv. unfold express_in, transform_points. cbn [vertices].
    rewrite <- transform_compose. apply in_map. exact Hv.
  Qed.

  (** every cached property is recomputed from the new vertices after express_in *)
  Theorem express_in_invalidates (fcom : list (V3R * V3R * V3R * V3R) -> V3R)
          (faabbs : list (V3R * V3R * V3R * V3R) -> A) (b : body (F:=R) A) (T : Pose R) :
    let b' := express_in A b T in
    let pts := map (tet_points (vertices b')) (tetrahedra b') in
    fst (get_points A b') = pts /\ fst (get_com A fcom b') = fcom pts /\ fst (get_aabbs A faabbs b') = faabbs pts.
  Proof. cbv zeta. unfold express_in, get_points, get_com, get_aabbs. cbn. repeat split. Qed.
End Express.
