(** * Wrench algebra, express_in and cache bookkeeping of Model/HydroWrench.v over the reals (C16). *)
From Coq Require Import Reals Lra List Bool Arith Lia.
From D3 Require Import Base.Ops Base.Vec Base.RVec Base.RVec2 Model.AabbTree Model.HydroWrench.
Import ListNotations.
Local Open Scope R_scope.

(** ** small vector algebra *)
Lemma vadd_zero_l (a : V3R) : vadd vzero a = a.
Proof. veq. Qed.
Lemma vadd_zero_r (a : V3R) : vadd a vzero = a.
Proof. veq. Qed.
Lemma vadd_assoc (a b c : V3R) : vadd (vadd a b) c = vadd a (vadd b c).
Proof. veq. Qed.
Lemma vadd_comm (a b : V3R) : vadd a b = vadd b a.
Proof. veq. Qed.
Lemma vneg_vadd (a b : V3R) : vneg (vadd a b) = vadd (vneg a) (vneg b).
Proof. veq. Qed.
Lemma vneg_vneg (a : V3R) : vneg (vneg a) = a.
Proof. veq. Qed.
Lemma vneg_zero : vneg (vzero : V3R) = vzero.
Proof. unfold vneg, vzero. cbn [vx vy vz opp zero ROps]. f_equal; ring. Qed.
Lemma mulMV_vadd (m : M3 R) (a b : V3R) : mulMV m (vadd a b) = vadd (mulMV m a) (mulMV m b).
Proof. destruct m as [[a1 a2 a3] [b1 b2 b3] [c1 c2 c3]]. veq. Qed.
Lemma mulMV_vneg (m : M3 R) (a : V3R) : mulMV m (vneg a) = vneg (mulMV m a).
Proof. destruct m as [[a1 a2 a3] [b1 b2 b3] [c1 c2 c3]]. veq. Qed.
Lemma mulMV_vsub (m : M3 R) (a b : V3R) : mulMV m (vsub a b) = vsub (mulMV m a) (mulMV m b).
Proof. destruct m as [[a1 a2 a3] [b1 b2 b3] [c1 c2 c3]]. veq. Qed.
Lemma mulMV_zero (m : M3 R) : mulMV m vzero = vzero.
Proof. destruct m as [[a1 a2 a3] [b1 b2 b3] [c1 c2 c3]]. unfold mulMV, dot, vzero. cbn [vx vy vz r0 r1 r2 add mul zero ROps]. f_equal; ring. Qed.
Lemma mulMV_mmul (A B : M3 R) (v : V3R) : mulMV (mmul A B) v = mulMV A (mulMV B v).
Proof.
  destruct A as [[a1 a2 a3] [b1 b2 b3] [c1 c2 c3]], B as [[d1 d2 d3] [e1 e2 e3] [f1 f2 f3]], v as [x y z].
  unfold mulMV, mmul, transpose, col, nthv, dot. cbn [vx vy vz r0 r1 r2 add mul ROps]. f_equal; ring.
Qed.
Lemma cross_vneg_r (a b : V3R) : cross a (vneg b) = vneg (cross a b).
Proof. veq. Qed.
Lemma cross_vadd_r (a b c : V3R) : cross a (vadd b c) = vadd (cross a b) (cross a c).
Proof. veq. Qed.
Lemma cross_vsub_l (a b c : V3R) : cross (vsub a b) c = vsub (cross a c) (cross b c).
Proof. veq. Qed.

(** ** sums *)
Lemma fold_vadd_acc (l : list V3R) (a : V3R) : fold_left vadd l a = vadd a (fold_left vadd l vzero).
Proof.
  revert a. induction l as [|x l IH]; intros a; cbn [fold_left].
  - now rewrite vadd_zero_r.
  - rewrite IH, (IH (vadd vzero x)), vadd_zero_l, vadd_assoc. reflexivity.
Qed.
Lemma vsum_cons (x : V3R) (l : list V3R) : vsum (x :: l) = vadd x (vsum l).
Proof. unfold vsum. cbn [fold_left]. rewrite fold_vadd_acc, vadd_zero_l. reflexivity. Qed.
Lemma vsum_nil : vsum ([] : list V3R) = vzero.
Proof. reflexivity. Qed.
Lemma vsum_map_vneg (l : list V3R) : vsum (map vneg l) = vneg (vsum l).
Proof.
  induction l as [|x l IH]; cbn [map].
  - rewrite vsum_nil, vneg_zero. reflexivity.
  - rewrite !vsum_cons, IH, vneg_vadd. reflexivity.
Qed.
Lemma vsum_map_mulMV (m : M3 R) (l : list V3R) : vsum (map (mulMV m) l) = mulMV m (vsum l).
Proof.
  induction l as [|x l IH]; cbn [map].
  - rewrite vsum_nil, mulMV_zero. reflexivity.
  - rewrite !vsum_cons, IH, mulMV_vadd. reflexivity.
Qed.

(** ** action - reaction: the two forces are opposite in the world frame, for every frame *)
Theorem action_reaction (forces coms : list V3R) (com1 com2 : V3R) (T : Pose R) :
  let '((f12, _), (f21, _)) := accumulate_wrenches forces coms com1 com2 T in
  f12 = vneg f21.
Proof. unfold accumulate_wrenches. cbv zeta. apply mulMV_vneg. Qed.

(** the torque body 1 exerts on body 2 is the sum of the moments of the opposite forces *)
Lemma torques_vneg (about : V3R) (coms forces : list V3R) :
  torques about coms (map vneg forces) = map vneg (torques about coms forces).
Proof.
  revert forces. induction coms as [|c coms IH]; intros [|f forces]; cbn [torques map]; auto.
  f_equal; [apply cross_vneg_r | apply IH].
Qed.

Lemma sum_sq3_zero (x y z : R) : x * x + y * y + z * z = 0 -> x = 0 /\ y = 0 /\ z = 0.
Proof. intros H. pose proof (sqr_nonneg x). pose proof (sqr_nonneg y). pose proof (sqr_nonneg z). repeat split; nra. Qed.

(** ** proper rotations preserve the cross product *)
Definition det3m (m : M3 R) : R := dot (r0 m) (cross (r1 m) (r2 m)).
Definition proper_rotation (m : M3 R) : Prop := is_rotation m /\ det3m m = 1.

Lemma proper_rotation_cross (m : M3 R) : proper_rotation m ->
  forall a b, cross (mulMV m a) (mulMV m b) = mulMV m (cross a b).
Proof.
  intros [Hrot Hdet].
  (* orthonormal rows, determinant 1 => each row is the cross product of the two others *)
  pose proof (rotation_rows_orthonormal m Hrot) as Hrows.
  destruct m as [[a1 a2 a3] [b1 b2 b3] [c1 c2 c3]].
  unfold orthonormal in Hrows. unfold det3m in Hdet.
  cbn [r0 r1 r2] in *.
  unfold dot, cross in *. cbn [vx vy vz add sub mul ROps] in *.
  destruct Hrows as (H00 & H11 & H22 & H01 & H02 & H12).
  (* |r1 x r2 - r0|^2 = |r1|^2 |r2|^2 - (r1.r2)^2 - 2 det + |r0|^2 = 0, and cyclically *)
  set (AA := a1 * a1 + a2 * a2 + a3 * a3) in *. set (BB := b1 * b1 + b2 * b2 + b3 * b3) in *.
  set (CC := c1 * c1 + c2 * c2 + c3 * c3) in *. set (AB := a1 * b1 + a2 * b2 + a3 * b3) in *.
  set (AC := a1 * c1 + a2 * c2 + a3 * c3) in *. set (BC := b1 * c1 + b2 * c2 + b3 * c3) in *.
  set (DET := a1 * (b2 * c3 - b3 * c2) + a2 * (b3 * c1 - b1 * c3) + a3 * (b1 * c2 - b2 * c1)) in *.
  assert (E0 : (b2 * c3 - b3 * c2 - a1) * (b2 * c3 - b3 * c2 - a1) + (b3 * c1 - b1 * c3 - a2) * (b3 * c1 - b1 * c3 - a2)
               + (b1 * c2 - b2 * c1 - a3) * (b1 * c2 - b2 * c1 - a3) = 0).
  { replace (_ + _ + _) with (BB * CC - BC * BC - 2 * DET + AA) by (unfold AA, BB, CC, BC, DET; ring).
    rewrite H00, H11, H22, H12, Hdet. ring. }
  assert (E1 : (c2 * a3 - c3 * a2 - b1) * (c2 * a3 - c3 * a2 - b1) + (c3 * a1 - c1 * a3 - b2) * (c3 * a1 - c1 * a3 - b2)
               + (c1 * a2 - c2 * a1 - b3) * (c1 * a2 - c2 * a1 - b3) = 0).
  { replace (_ + _ + _) with (CC * AA - AC * AC - 2 * DET + BB) by (unfold AA, BB, CC, AC, DET; ring).
    rewrite H00, H11, H22, H02, Hdet. ring. }
  assert (E2 : (a2 * b3 - a3 * b2 - c1) * (a2 * b3 - a3 * b2 - c1) + (a3 * b1 - a1 * b3 - c2) * (a3 * b1 - a1 * b3 - c2)
               + (a1 * b2 - a2 * b1 - c3) * (a1 * b2 - a2 * b1 - c3) = 0).
  { replace (_ + _ + _) with (AA * BB - AB * AB - 2 * DET + CC) by (unfold AA, BB, CC, AB, DET; ring).
    rewrite H00, H11, H22, H01, Hdet. ring. }
  clearbody AA BB CC AB AC BC DET.
  apply sum_sq3_zero in E0 as (A1 & A2 & A3). apply sum_sq3_zero in E1 as (B1 & B2 & B3).
  apply sum_sq3_zero in E2 as (C1 & C2 & C3).
  assert (A1' : a1 = b2 * c3 - b3 * c2) by lra. assert (A2' : a2 = b3 * c1 - b1 * c3) by lra.
  assert (A3' : a3 = b1 * c2 - b2 * c1) by lra.
  assert (B1' : b1 = c2 * a3 - c3 * a2) by lra. assert (B2' : b2 = c3 * a1 - c1 * a3) by lra.
  assert (B3' : b3 = c1 * a2 - c2 * a1) by lra.
  assert (C1' : c1 = a2 * b3 - a3 * b2) by lra. assert (C2' : c2 = a3 * b1 - a1 * b3) by lra.
  assert (C3' : c3 = a1 * b2 - a2 * b1) by lra.
  intros [x y z] [u v w]. unfold mulMV, cross, dot. cbn [vx vy vz r0 r1 r2 add sub mul ROps].
  f_equal.
  - transitivity ((b2 * c3 - b3 * c2) * (y * w - z * v) + (b3 * c1 - b1 * c3) * (z * u - x * w) + (b1 * c2 - b2 * c1) * (x * v - y * u)).
    + ring.
    + rewrite <- A1', <- A2', <- A3'. reflexivity.
  - transitivity ((c2 * a3 - c3 * a2) * (y * w - z * v) + (c3 * a1 - c1 * a3) * (z * u - x * w) + (c1 * a2 - c2 * a1) * (x * v - y * u)).
    + ring.
    + rewrite <- B1', <- B2', <- B3'. reflexivity.
  - transitivity ((a2 * b3 - a3 * b2) * (y * w - z * v) + (a3 * b1 - a1 * b3) * (z * u - x * w) + (a1 * b2 - a2 * b1) * (x * v - y * u)).
    + ring.
    + rewrite <- C1', <- C2', <- C3'. reflexivity.
Qed.
