(** * C13, cross-agreement: the containment predicates (Model/Contain.v) against the
      library's own point_to_<shape> distance functions (Model/DistPrim.v, owned by the
      C10/C11 work; imported, not edited) and against the support mappings (Model/Support.v). *)
From Coq Require Import Reals Lra Psatz Nsatz List Bool Qreals.
From D3 Require Import Base.Ops Base.Vec Base.RVec Base.RVec2 Spec.Convex Spec.Shapes
  Model.Support Model.Contain Proofs.ShapesTac Proofs.SupportA Proofs.SupportB Proofs.ContainProofs Base.RVec3.
From D3 Require Model.DistPrim.
Import ListNotations.
Local Open Scope R_scope.

Lemma dhalf_R : @DistPrim.half R ROps = / 2.
Proof. unfold DistPrim.half. cbn [cst ROps]. unfold Q2R. cbn. lra. Qed.

(** np.clip at the real instance *)
Lemma clip_inside (x h : R) : - h <= x <= h -> clip x (- h) h = x.
Proof.
  intros H. unfold clip, fmin, fmax. rops.
  case_ltb x (- h) A; [lra|]. case_ltb h x B; lra.
Qed.
Lemma clip_range (x h : R) : 0 <= h -> - h <= clip x (- h) h <= h.
Proof.
  intros H. unfold clip, fmin, fmax. rops.
  case_ltb x (- h) A; [case_ltb h (- h) B; lra|]. case_ltb h x B; lra.
Qed.

Lemma norm_self_zero (a : V3R) : norm (vsub a a) = 0.
Proof. apply norm_zero_iff. vsimp. f_equal; ring. Qed.
Lemma norm_zero_eq (a b : V3R) : norm (vsub a b) = 0 -> a = b.
Proof.
  intros H. apply norm_zero_iff in H. destruct a as [a0 a1 a2], b as [b0 b1 b2].
  unfold vsub, vzero in H. cbn [vx vy vz] in H. rops. injection H as H0 H1 H2. f_equal; lra.
Qed.

(** ** box *)
Theorem point_in_box_iff_distance_zero (p : V3R) (T : Pose R) (size : V3R) :
  is_rotation (rot T) -> 0 <= vx size -> 0 <= vy size -> 0 <= vz size ->
  (point_in_box p T size = true <-> fst (DistPrim.point_to_box p T size) = 0).
Proof.
  intros HR S0 S1 S2. rewrite (point_in_box_iff p T size HR).
  unfold box_set. rewrite image_rotation_iff by auto.
  unfold DistPrim.point_to_box. cbv zeta. cbn [fst]. rewrite inverse_transform_point_code_eq.
  set (q := inverse_transform_point T p).
  assert (Hp : p = transform_point T q) by (subst q; symmetry; apply transform_inverse_transform; auto).
  clearbody q. destruct q as [q0 q1 q2].
  unfold vscale. cbn [vx vy vz]. rewrite dhalf_R. rops.
  unfold box_K. cbn [vx vy vz]. rewrite !ContainProofs.Rabs_le_iff.
  split.
  - intros (A & B & C).
    rewrite !clip_inside by lra.
    replace (vadd (trans T) (mulMV (rot T) (V q0 q1 q2))) with p.
    + apply norm_self_zero.
    + rewrite Hp at 1. unfold transform_point.
      generalize (mulMV (rot T) (V q0 q1 q2)). intros w. vsimp. f_equal; ring.
  - intros H. apply norm_zero_eq in H.
    set (k := V (clip q0 (- (/ 2 * vx size)) (/ 2 * vx size)) (clip q1 (- (/ 2 * vy size)) (/ 2 * vy size))
                (clip q2 (- (/ 2 * vz size)) (/ 2 * vz size))) in *.
    assert (Hq : V q0 q1 q2 = k).
    { assert (E : transform_point T (V q0 q1 q2) = transform_point T k).
      { rewrite <- Hp, H. unfold transform_point. generalize (mulMV (rot T) k). intros w. vsimp. f_equal; ring. }
      apply (f_equal (inverse_transform_point T)) in E. rewrite !inverse_transform_transform in E by auto. exact E. }
    subst k. injection Hq as E0 E1 E2. rewrite E0, E1, E2.
    pose proof (clip_range q0 (/ 2 * vx size)). pose proof (clip_range q1 (/ 2 * vy size)).
    pose proof (clip_range q2 (/ 2 * vz size)). repeat split; lra.
Qed.

(** ** cylinder: closed form of the model's point_to_cylinder distance in local coordinates *)
Lemma axis_perp_dot (T : Pose R) (k : V3R) :
  is_rotation (rot T) ->
  dot (vsub (vsub (transform_point T k) (trans T)) (vscale (vz k) (col (rot T) 2))) (col (rot T) 2) = 0.
Proof.
  intros H. apply is_rotation_cols in H. destruct H as (A & B & C & D & E & G).
  vsimp. nsatz.
Qed.

Definition cyl_m (r rho2 : R) : R :=
  fmin 1 (if negb (Reqb (R_sqrt.sqrt rho2) 0) then r / R_sqrt.sqrt rho2 else r).

Lemma point_to_cylinder_local (T : Pose R) (k : V3R) (r l : R) :
  is_rotation (rot T) ->
  let rho2 := vx k * vx k + vy k * vy k in
  let m := cyl_m r rho2 in
  let c := clip (vz k) (- (/ 2 * l)) (/ 2 * l) in
  fst (DistPrim.point_to_cylinder (transform_point T k) T r l)
  = R_sqrt.sqrt ((1 - m) * (1 - m) * rho2 + (vz k - c) * (vz k - c)).
Proof.
  intros HR rho2 m c.
  unfold DistPrim.point_to_cylinder. cbv zeta. cbn [fst].
  rewrite !axis_dot by auto.
  set (z := col (rot T) 2). set (p := transform_point T k).
  set (u := vsub (vsub p (trans T)) (vscale (vz k) z)).
  assert (U1 : dot u u = rho2).
  { subst u p z. rewrite <- sumsq_dot, axis_perp by auto. subst rho2. ring. }
  assert (U2 : dot u z = 0) by (subst u p z; apply axis_perp_dot; auto).
  assert (U3 : dot z z = 1) by (subst z; apply rotation_col_unit; auto).
  assert (P : p = vadd (vadd (trans T) u) (vscale (vz k) z)).
  { subst u. generalize (trans T) z p. intros a b q. vsimp. f_equal; ring. }
  rewrite U1. rewrite dhalf_R. rops. unfold DistPrim.neqb. rops.
  replace (- / 2 * l) with (- (/ 2 * l)) by ring.
  fold (cyl_m r rho2). fold m. fold c.
  unfold norm. rops. f_equal.
  replace (vsub p (vadd (vadd (trans T) (vscale m u)) (vscale c z)))
    with (vadd (vscale (1 - m) u) (vscale (vz k - c) z)).
  - rewrite !dot_add_l, !dot_add_r, !dot_scale_l, !dot_scale_r, (dot_comm z u), U1, U2, U3. ring.
  - rewrite P. generalize (trans T) z u. intros a b q. vsimp. f_equal; ring.
Qed.

Lemma sqrt_sum_zero (a b : R) : 0 <= a -> 0 <= b -> (R_sqrt.sqrt (a + b) = 0 <-> a = 0 /\ b = 0).
Proof.
  intros Ha Hb. rewrite sqrt_zero_iff by lra. lra.
Qed.

Theorem point_in_cylinder_iff_distance_zero (p : V3R) (T : Pose R) (r l : R) :
  is_rotation (rot T) -> 0 <= r -> 0 <= l ->
  (point_in_cylinder p T r l = true <-> fst (DistPrim.point_to_cylinder p T r l) = 0).
Proof.
  intros HR Hr Hl. rewrite (point_in_cylinder_iff p T r l HR).
  unfold cylinder_set. rewrite image_rotation_iff by auto.
  pose proof (local_point T p HR) as Hp.
  set (k := inverse_transform_point T p) in *. clearbody k. subst p.
  rewrite point_to_cylinder_local by auto. cbv zeta.
  destruct k as [kx ky kz]. cbn [vx vy vz]. unfold cylinder_K. cbn [vx vy vz].
  set (rho2 := kx * kx + ky * ky). assert (Hrho : 0 <= rho2) by (subst rho2; nra).
  rewrite sqrt_sum_zero; [|apply Rmult_le_pos; [apply sqr_nonneg|exact Hrho]|apply sqr_nonneg].
  pose proof (sqrt_pos rho2) as Hs0. pose proof (sqrt_sqrt rho2 Hrho) as Hss.
  unfold cyl_m. rops. set (s := R_sqrt.sqrt rho2) in *. clearbody s.
  rewrite ContainProofs.Rabs_le_iff.
  pose proof (clip_range kz (/ 2 * l) ltac:(lra)) as Hc.
  split.
  - intros [A B]. rewrite clip_inside by lra. split; [|ring].
    case_eqb s 0 Hs; cbn [negb].
    + assert (rho2 = 0) by nra. nra.
    + assert (0 < s) by lra. assert (s <= r) by nra.
      assert (1 <= r / s). { apply Rmult_le_reg_r with s; auto. unfold Rdiv. rewrite Rmult_assoc, Rinv_l by lra. lra. }
      unfold fmin. rops. case_ltb (r / s) 1 Hlt; [lra|]. ring.
  - intros [A B]. assert (Ekz : kz = clip kz (- (/ 2 * l)) (/ 2 * l)) by nra.
    split; [|lra].
    destruct (Req_dec rho2 0) as [Z|NZ]; [nra|].
    assert (0 < s) by nra.
    revert A. case_eqb s 0 Hs; [lra|]. cbn [negb]. unfold fmin. rops.
    case_ltb (r / s) 1 Hlt; intros A.
    + exfalso. assert ((1 - r / s) * (1 - r / s) = 0) by nra. nra.
    + assert (1 <= r / s) by lra.
      assert (s <= r). { apply Rmult_le_reg_r with (/ s); [apply Rinv_0_lt_compat; lra|]. rewrite Rinv_r by lra. exact H0. }
      nra.
Qed.

(** ** disk *)
Lemma cyl_m_inside (r rho2 : R) : 0 <= r -> 0 <= rho2 -> rho2 <= r * r -> (1 - cyl_m r rho2) * (1 - cyl_m r rho2) * rho2 = 0.
Proof.
  intros Hr H0 H. pose proof (sqrt_pos rho2) as Hs0. pose proof (sqrt_sqrt rho2 H0) as Hss.
  unfold cyl_m. rops. set (s := R_sqrt.sqrt rho2) in *. clearbody s.
  case_eqb s 0 Hs; cbn [negb].
  - assert (Z : rho2 = 0) by nra. rewrite Z. ring.
  - assert (0 < s) by lra. assert (s <= r) by nra.
    assert (1 <= r / s). { apply Rmult_le_reg_r with s; auto. unfold Rdiv. rewrite Rmult_assoc, Rinv_l by lra. lra. }
    unfold fmin. rops. case_ltb (r / s) 1 Hlt; [lra|]. ring.
Qed.
Lemma cyl_m_zero_inside (r rho2 : R) : 0 <= r -> 0 <= rho2 ->
  (1 - cyl_m r rho2) * (1 - cyl_m r rho2) * rho2 = 0 -> rho2 <= r * r.
Proof.
  intros Hr H0. pose proof (sqrt_pos rho2) as Hs0. pose proof (sqrt_sqrt rho2 H0) as Hss.
  unfold cyl_m. rops. set (s := R_sqrt.sqrt rho2) in *. clearbody s.
  destruct (Req_dec rho2 0) as [Z|NZ]; [nra|].
  assert (0 < s) by nra.
  case_eqb s 0 Hs; [lra|]. cbn [negb]. unfold fmin. rops.
  case_ltb (r / s) 1 Hlt; intros A.
  - exfalso. assert ((1 - r / s) * (1 - r / s) = 0) by nra. nra.
  - assert (1 <= r / s) by lra.
    assert (s <= r). { apply Rmult_le_reg_r with (/ s); [apply Rinv_0_lt_compat; lra|]. rewrite Rinv_r by lra. exact H1. }
    nra.
Qed.

Lemma point_to_disk_formula (p c : V3R) (r : R) (n : V3R) : dot n n = 1 ->
  let d := dot (vsub p c) n in
  let sq := dot (vsub (vsub p c) (vscale d n)) (vsub (vsub p c) (vscale d n)) in
  fst (DistPrim.point_to_disk p c r n) = R_sqrt.sqrt ((1 - cyl_m r sq) * (1 - cyl_m r sq) * sq + d * d).
Proof.
  intros Hn d sq. unfold DistPrim.point_to_disk. cbv zeta. cbn [fst].
  fold d. set (u := vsub (vsub p c) (vscale d n)). fold sq.
  unfold DistPrim.neqb. rops. fold (cyl_m r sq). set (m := cyl_m r sq).
  assert (U2 : dot u n = 0).
  { subst u. rewrite dot_sub_l, dot_scale_l, Hn. subst d. ring. }
  unfold norm. rops. f_equal.
  replace (vsub p (vadd c (vscale m u))) with (vadd (vscale (1 - m) u) (vscale d n)).
  - rewrite !dot_add_l, !dot_add_r, !dot_scale_l, !dot_scale_r, (dot_comm n u), U2, Hn. replace (dot u u) with sq by reflexivity. ring.
  - subst u. generalize d. intros d'. generalize m. intros m'. vsimp. f_equal; ring.
Qed.

Theorem point_in_disk_distance_small (p c : V3R) (r : R) (n : V3R) :
  dot n n = 1 -> 0 <= r ->
  point_in_disk p c r n = true -> fst (DistPrim.point_to_disk p c r n) <= @EPSILON10 R ROps.
Proof.
  intros Hn Hr H. rewrite point_to_disk_formula by auto. cbv zeta.
  unfold point_in_disk in H. cbv zeta in H. rops.
  rewrite andb_true_iff, !negb_true_iff, !Rltb_false, sumsq_dot in H. destruct H as [A B].
  rewrite cyl_m_inside by (auto; apply dot_self_nonneg).
  rewrite Rplus_0_l, sqrt_sq_abs. exact A.
Qed.

Theorem point_in_disk_exact_distance_zero (p c : V3R) (r : R) (n : V3R) :
  dot n n = 1 -> 0 <= r -> disk_set c r n p -> fst (DistPrim.point_to_disk p c r n) = 0.
Proof.
  intros Hn Hr [A B]. rewrite point_to_disk_formula by auto. cbv zeta.
  rewrite A. replace (vsub (vsub p c) (vscale 0 n)) with (vsub p c) by (vsimp; f_equal; ring).
  rewrite cyl_m_inside by (auto; apply dot_self_nonneg).
  replace (0 + 0 * 0) with 0 by ring. apply sqrt_0.
Qed.

Theorem distance_zero_point_in_disk (p c : V3R) (r : R) (n : V3R) :
  dot n n = 1 -> 0 <= r -> fst (DistPrim.point_to_disk p c r n) = 0 -> disk_set c r n p /\ point_in_disk p c r n = true.
Proof.
  intros Hn Hr H. rewrite point_to_disk_formula in H by auto. cbv zeta in H.
  set (d := dot (vsub p c) n) in *.
  set (sq := dot (vsub (vsub p c) (vscale d n)) (vsub (vsub p c) (vscale d n))) in *.
  assert (Hsq : 0 <= sq) by (subst sq; apply dot_self_nonneg).
  apply sqrt_sum_zero in H; [|apply Rmult_le_pos; [apply sqr_nonneg|auto]|apply sqr_nonneg].
  destruct H as [A B]. assert (Hd : d = 0) by nra.
  apply cyl_m_zero_inside in A; auto.
  assert (Hin : disk_set c r n p).
  { split; [exact Hd|]. subst sq. rewrite Hd in A.
    replace (vsub (vsub p c) (vscale 0 n)) with (vsub p c) in A by (vsimp; f_equal; ring). exact A. }
  split; auto. apply point_in_disk_of_disk; auto.
Qed.

(** ** against the support mappings: no contained point projects beyond the support value *)
Theorem contained_sphere_below_support (p c d : V3R) (r : R) : 0 <= r ->
  point_in_sphere p c r = true -> dot p d <= dot (support_sphere d c r) d.
Proof.
  intros Hr H. apply point_in_sphere_iff in H.
  apply (contained_below_support (sphere_set c r)); auto. apply support_sphere_correct; auto.
Qed.
Theorem contained_capsule_below_support (p d : V3R) (T : Pose R) (r h : R) :
  is_rotation (rot T) -> 0 <= r -> 0 < h ->
  point_in_capsule p T r h = true -> dot p d <= dot (support_capsule d T r h) d.
Proof.
  intros HR Hr Hh H. apply point_in_capsule_iff in H; auto.
  apply (contained_below_support (capsule_set T r h)); auto. apply support_capsule_correct; lra.
Qed.
Theorem contained_ellipsoid_below_support (p d : V3R) (T : Pose R) (radii : V3R) :
  is_rotation (rot T) -> 0 < vx radii -> 0 < vy radii -> 0 < vz radii ->
  point_in_ellipsoid p T radii = true -> dot p d <= dot (support_ellipsoid d T radii) d.
Proof.
  intros HR A B C H. apply point_in_ellipsoid_iff in H; auto.
  apply (contained_below_support (ellipsoid_set T radii)); auto. apply support_ellipsoid_correct; auto.
Qed.
Theorem contained_cone_below_support (p d : V3R) (T : Pose R) (r h : R) :
  is_rotation (rot T) -> 0 <= r -> 0 < h ->
  point_in_cone p T r h = true -> dot p d <= dot (support_cone d T r h) d.
Proof.
  intros HR Hr Hh H. apply point_in_cone_iff in H; auto.
  apply (contained_below_support (cone_set T r h)); auto. apply support_cone_correct; auto.
Qed.
Theorem contained_cylinder_below_support (p d : V3R) (T : Pose R) (r l : R) :
  is_rotation (rot T) -> 0 <= r -> 0 <= l ->
  point_in_cylinder p T r l = true -> dot p d <= dot (support_cylinder d T r l) d.
Proof.
  intros HR Hr Hl H. apply point_in_cylinder_iff in H; auto.
  apply (contained_below_support (cylinder_set T r l)); auto. apply support_cylinder_correct; auto.
Qed.
Theorem contained_box_below_support (p d : V3R) (T : Pose R) (size : V3R) :
  is_rotation (rot T) -> 0 <= vx size -> 0 <= vy size -> 0 <= vz size ->
  point_in_box p T size = true ->
  exists s, support_box_collider d T size = Some s /\ dot p d <= dot s d.
Proof.
  intros HR A B C H. apply point_in_box_iff in H; auto.
  destruct (support_box_collider_correct d T size A B C) as (s & Es & Hs).
  exists s. split; auto. apply (contained_below_support (box_set T size)); auto.
Qed.
(** the disk predicate accepts a slab of half width 10*eps around the disk, so the bound
    carries that slack along the normal *)
Theorem contained_disk_below_support (p c d : V3R) (r : R) (n : V3R) :
  dot n n = 1 -> 0 <= r ->
  point_in_disk p c r n = true ->
  dot p d <= dot (support_disk d c r n) d + @EPSILON10 R ROps * Rabs (dot n d).
Proof.
  intros Hn Hr H. apply point_in_disk_iff in H; auto.
  destruct H as (q & t & Hq & Ht & ->).
  pose proof (contained_below_support (disk_set c r n) q d _ Hq (support_disk_correct d c r n Hr Hn)) as Hb.
  rewrite dot_add_l, dot_scale_l.
  pose proof (mul_le_abs t (dot n d)) as Hm. pose proof (Rabs_pos (dot n d)).
  assert (Rabs t * Rabs (dot n d) <= EPSILON10 * Rabs (dot n d)) by nra. lra.
Qed.
