(** * C13, cross-agreement: the containment predicates (Model/Contain.v) against the
      library's own point_to_<shape> distance functions (Model/DistPrim.v, owned by the
      C10/C11 work; imported, not edited) and against the support mappings (Model/Support.v). *)
From Coq Require Import Reals Lra Psatz Nsatz List Bool Qreals.
From D3 Require Import Base.Ops Base.Vec Base.RVec Base.RVec2 Spec.Convex Spec.Shapes
  Model.Support Model.Contain Proofs.ShapesTac Proofs.SupportA Proofs.SupportB Proofs.ContainProofs.
From D3 Require Model.DistPrim.
Import ListNotations.
Local Open Scope R_scope.

Lemma dhalf_R : @DistPrim.half R ROps = / 2.
Proof. unfold DistPrim.half. cbn [cst ROps]. unfold Q2R. cbn. lra. Qed.

(** np.clip at the real instance *)
Lemma clip_inside (x h : R) : - h <= x <= h -> clip x (- h) h = x.
Proof.
  intros H. unfold clip, fmin, fmax. rops.
  case_ltb x (- h) A; [lra|]. case_ltb h x B; lra.
Qed.
Lemma clip_range (x h : R) : 0 <= h -> - h <= clip x (- h) h <= h.
Proof.
  intros H. unfold clip, fmin, fmax. rops.
  case_ltb x (- h) A; [case_ltb h (- h) B; lra|]. case_ltb h x B; lra.
Qed.

Lemma norm_self_zero (a : V3R) : norm (vsub a a) = 0.
Proof. apply norm_zero_iff. vsimp. f_equal; ring. Qed.
Lemma norm_zero_eq (a b : V3R) : norm (vsub a b) = 0 -> a = b.
Proof.
  intros H. apply norm_zero_iff in H. destruct a as [a0 a1 a2], b as [b0 b1 b2].
  unfold vsub, vzero in H. cbn [vx vy vz] in H. rops. injection H as H0 H1 H2. f_equal; lra.
Qed.

(** ** box *)
Theorem point_in_box_iff_distance_zero (p : V3R) (T : Pose R) (size : V3R) :
  is_rotation (rot T) -> 0 <= vx size -> 0 <= vy size -> 0 <= vz size ->
  (point_in_box p T size = true <-> fst (DistPrim.point_to_box p T size) = 0).
Proof.
  intros HR S0 S1 S2. rewrite (point_in_box_iff p T size HR).
  unfold box_set. rewrite image_rotation_iff by auto.
  unfold DistPrim.point_to_box. cbv zeta. cbn [fst].
  set (q := inverse_transform_point T p).
  assert (Hp : p = transform_point T q) by (subst q; symmetry; apply transform_inverse_transform; auto).
  clearbody q. destruct q as [q0 q1 q2].
  unfold vscale. cbn [vx vy vz]. rewrite dhalf_R. rops.
  unfold box_K. cbn [vx vy vz]. rewrite !ContainProofs.Rabs_le_iff.
  split.
  - intros (A & B & C).
    rewrite !clip_inside by lra.
    replace (vadd (trans T) (mulMV (rot T) (V q0 q1 q2))) with p.
    + apply norm_self_zero.
    + rewrite Hp at 1. unfold transform_point.
      generalize (mulMV (rot T) (V q0 q1 q2)). intros w. vsimp. f_equal; ring.
  - intros H. apply norm_zero_eq in H.
    set (k := V (clip q0 (- (/ 2 * vx size)) (/ 2 * vx size)) (clip q1 (- (/ 2 * vy size)) (/ 2 * vy size))
                (clip q2 (- (/ 2 * vz size)) (/ 2 * vz size))) in *.
    assert (Hq : V q0 q1 q2 = k).
    { assert (E : transform_point T (V q0 q1 q2) = transform_point T k).
      { rewrite <- Hp, H. unfold transform_point. generalize (mulMV (rot T) k). intros w. vsimp. f_equal; ring. }
      apply (f_equal (inverse_transform_point T)) in E. rewrite !inverse_transform_transform in E by auto. exact E. }
    subst k. injection Hq as E0 E1 E2. rewrite E0, E1, E2.
    pose proof (clip_range q0 (/ 2 * vx size)). pose proof (clip_range q1 (/ 2 * vy size)).
    pose proof (clip_range q2 (/ 2 * vz size)). repeat split; lra.
Qed.
