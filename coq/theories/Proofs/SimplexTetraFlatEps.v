(** * Jolt, flat tetrahedron whose faces are each non-degenerate or exactly collinear: the result is
      within EPSILON of the minimum over the hull (all four faces are examined, each face result is
      exact resp. within EPSILON, and a flat tetrahedron is the union of its faces). *)
From Coq Require Import List NArith QArith Qreals Reals Lra Psatz Bool Lia.
From D3 Require Import Base.Ops Base.Vec Base.RVec Spec.Convex Spec.ConvexHull Model.Simplex
  Proofs.SimplexLine Proofs.SimplexTriangle Proofs.SimplexTetra Proofs.SimplexCara Proofs.SimplexTetraFlat
  Proofs.SimplexCollinear.
Import ListNotations.
Local Open Scope R_scope.

(** a point of a hull is no farther from the origin than the farthest generator *)
Lemma comb_norm_bound (M : R) : forall ws ps,
  length ws = length ps -> Forall (fun w => 0 <= w) ws -> (forall p, In p ps -> norm p <= M) ->
  norm (comb ws ps) <= sum ws * M.
Proof.
  induction ws as [|w ws IH]; intros [|p ps] Hl Hw Hb; cbn [comb sum length] in *; try discriminate.
  - assert (E : norm (vzero : V3R) = 0) by (apply norm_zero_iff; reflexivity). rewrite E. lra.
  - inversion Hw as [|? ? Hw0 Hw']; subst.
    pose proof (norm_triangle (vscale w p) (comb ws ps)) as Ht.
    rewrite norm_scale, Rabs_right in Ht by lra.
    assert (Hp : norm p <= M) by (apply Hb; simpl; auto).
    assert (IH' : norm (comb ws ps) <= sum ws * M).
    { apply IH; auto. intros q Hq. apply Hb. simpl; auto. }
    nra.
Qed.
Lemma hull_norm_bound (ps : list V3R) (M : R) (x : V3R) :
  (forall p, In p ps -> norm p <= M) -> conv_hull ps x -> norm x <= M.
Proof.
  intros Hb (ws & Hl & Hw & Hs & ->). pose proof (comb_norm_bound M ws ps Hl Hw Hb) as H. rewrite Hs in H. lra.
Qed.

(** what is known about one face, whichever of the two proved arms applies *)
Definition face_ok (u v w : V3R) : Prop :=
  eps * eps <= dot (cross (vsub v u) (vsub w u)) (cross (vsub v u) (vsub w u)) \/
  cross (vsub v u) (vsub w u) = vzero.

Lemma face_facts (u v w : V3R) : face_ok u v w ->
  let q := @closest_point_triangle R ROps u v w in
  tri_set_ok (snd q) /\ conv_hull (update_simplex_y [u; v; w] 3 (snd q)) (fst q) /\ conv_hull [u; v; w] (fst q) /\
  forall x, conv_hull [u; v; w] x -> norm (fst q) <= norm x + eps.
Proof.
  intros [H|H] q; pose proof eps_pos as He.
  - destruct (jolt_triangle_correct u v w H) as (S & U & [I L]). fold q in S, U, I, L.
    repeat split; auto. intros x Hx. specialize (L x Hx). lra.
  - exact (jolt_triangle_collinear u v w H).
Qed.

(** ** Jolt, flat tetrahedron whose faces are non-degenerate or exactly collinear: within EPSILON *)
Theorem jolt_tetra_flat_eps (a b c d : V3R) :
  V6 a b c d = 0 ->
  face_ok a b c -> face_ok a c d -> face_ok a d b -> face_ok b d c ->
  dot a a < maxf -> dot b b < maxf -> dot c c < maxf -> dot d d < maxf ->
  let r := @closest_point_tetrahedron R ROps a b c d in
  conv_hull (update_simplex_y [a; b; c; d] 4 (snd r)) (fst r) /\ conv_hull [a; b; c; d] (fst r) /\
  forall x, conv_hull [a; b; c; d] x -> norm (fst r) <= norm x + eps.
Proof.
  intros HV N0 N1 N2 N3 Ma Mb Mc Md r.
  destruct (face_facts a b c N0) as (S0 & U0 & I0 & L0).
  destruct (face_facts a c d N1) as (S1 & U1 & I1 & L1).
  destruct (face_facts a d b N2) as (S2 & U2 & I2 & L2).
  destruct (face_facts b d c N3) as (S3 & U3 & I3 & L3).
  set (q0 := @closest_point_triangle R ROps a b c) in *.
  set (q1 := @closest_point_triangle R ROps a c d) in *.
  set (q2 := @closest_point_triangle R ROps a d b) in *.
  set (q3 := @closest_point_triangle R ROps b d c) in *.
  (* squared norms of hull points stay below MAX_FLOAT *)
  pose proof maxf_big as HMb.
  set (Mx := R_sqrt.sqrt (Rmax (Rmax (dot a a) (dot b b)) (Rmax (dot c c) (dot d d)))).
  set (m2 := Rmax (Rmax (dot a a) (dot b b)) (Rmax (dot c c) (dot d d))) in *.
  assert (Hm2 : m2 < maxf) by (unfold m2; repeat apply Rmax_lub_lt; auto).
  assert (Hm20 : 0 <= m2) by (unfold m2; pose proof (dot_self_nonneg a); pose proof (Rmax_l (Rmax (dot a a) (dot b b)) (Rmax (dot c c) (dot d d))); pose proof (Rmax_l (dot a a) (dot b b)); lra).
  assert (Hvn : forall y, dot y y <= m2 -> norm y <= Mx).
  { intros y Hy. unfold Mx, norm. cbn [sqrt ROps]. apply sqrt_le_1_alt. exact Hy. }
  assert (Ha2 : dot a a <= m2) by (unfold m2; eapply Rle_trans; [apply Rmax_l|]; eapply Rle_trans; [apply Rmax_l|]; apply Rle_refl).
  assert (Hb2 : dot b b <= m2) by (unfold m2; eapply Rle_trans; [apply Rmax_r|]; eapply Rle_trans; [apply Rmax_l|]; apply Rle_refl).
  assert (Hc2 : dot c c <= m2) by (unfold m2; eapply Rle_trans; [apply Rmax_l|]; eapply Rle_trans; [apply Rmax_r|]; apply Rle_refl).
  assert (Hd2 : dot d d <= m2) by (unfold m2; eapply Rle_trans; [apply Rmax_r|]; eapply Rle_trans; [apply Rmax_r|]; apply Rle_refl).
  assert (HMx2 : Mx * Mx = m2) by (unfold Mx; apply sqrt_sqrt; exact Hm20).
  assert (HMx0 : 0 <= Mx) by (unfold Mx; apply sqrt_pos).
  assert (Hsmall : forall y, conv_hull [a; b; c; d] y -> dot y y < maxf).
  { intros y Hy. assert (Hn : norm y <= Mx).
    { apply (hull_norm_bound [a; b; c; d] Mx y); auto.
      intros p [<-|[<-|[<-|[<-|[]]]]]; apply Hvn; auto. }
    pose proof (norm_sq y). pose proof (norm_nonneg y). nra. }
  assert (F0 : forall x, conv_hull [a; b; c] x -> conv_hull [a; b; c; d] x)
    by (apply conv_hull_incl; intros v Hv; simpl in *; tauto).
  assert (F1 : forall x, conv_hull [a; c; d] x -> conv_hull [a; b; c; d] x)
    by (apply conv_hull_incl; intros v Hv; simpl in *; tauto).
  assert (F2 : forall x, conv_hull [a; d; b] x -> conv_hull [a; b; c; d] x)
    by (apply conv_hull_incl; intros v Hv; simpl in *; tauto).
  assert (F3 : forall x, conv_hull [b; d; c] x -> conv_hull [a; b; c; d] x)
    by (apply conv_hull_incl; intros v Hv; simpl in *; tauto).
  assert (P2 : forall x, conv_hull [a; b; d] x -> conv_hull [a; d; b] x)
    by (apply conv_hull_incl; intros v Hv; simpl in *; tauto).
  assert (P3 : forall x, conv_hull [b; c; d] x -> conv_hull [b; d; c] x)
    by (apply conv_hull_incl; intros v Hv; simpl in *; tauto).
  assert (Hm : forall i, (i < 4)%nat -> dot (fst (tcand a b c d i)) (fst (tcand a b c d i)) < maxf).
  { intros i Hi. destruct i as [|[|[|[|i]]]]; cbn [tcand fst]; try (exfalso; clear -Hi; lia); apply Hsmall; auto. }
  assert (Hex : forall j, texamined a b c d j = true).
  { intros j. unfold texamined. rewrite (oop_flat a b c d HV). destruct j as [|[|[|j]]]; reflexivity. }
  destruct (tetra_structure a b c d Hm) as [[Hnone _]|(i & Hi & Hexi & Hr & Hbest)].
  { exfalso. specialize (Hnone 0%nat ltac:(lia)). rewrite Hex in Hnone. discriminate. }
  fold r in Hr, Hbest.
  assert (Hsub : conv_hull (update_simplex_y [a; b; c; d] 4 (snd r)) (fst r) /\ conv_hull [a; b; c; d] (fst r)).
  { rewrite Hr. destruct i as [|[|[|[|i]]]]; cbn [tcand fst snd]; try (exfalso; clear -Hi; lia).
    - split; [apply face0_subset; auto|apply F0; auto].
    - split; [apply face1_subset; auto|apply F1; auto].
    - split; [apply face2_subset; auto|apply F2; auto].
    - split; [apply face3_subset; auto|apply F3; auto]. }
  destruct Hsub as [Hsub Hin]. split; auto. split; auto.
  intros x Hx.
  destruct (flat_hull_faces a b c d x HV Hx) as [Hy|[Hy|[Hy|Hy]]].
  - specialize (Hbest 3%nat ltac:(lia) (Hex 3%nat)). cbn [tcand fst] in Hbest.
    apply norm_le_of_sq in Hbest. specialize (L3 x (P3 x Hy)). fold q3 in Hbest. lra.
  - specialize (Hbest 1%nat ltac:(lia) (Hex 1%nat)). cbn [tcand fst] in Hbest.
    apply norm_le_of_sq in Hbest. specialize (L1 x Hy). fold q1 in Hbest. lra.
  - specialize (Hbest 2%nat ltac:(lia) (Hex 2%nat)). cbn [tcand fst] in Hbest.
    apply norm_le_of_sq in Hbest. specialize (L2 x (P2 x Hy)). fold q2 in Hbest. lra.
  - specialize (Hbest 0%nat ltac:(lia) (Hex 0%nat)). cbn [tcand fst] in Hbest.
    apply norm_le_of_sq in Hbest. specialize (L0 x Hy). fold q0 in Hbest. lra.
Qed.
