(** * point_to_line, point_to_line_segment, point_to_plane over the reals:
      feasibility (C10) and optimality (C11) of the model of [Model/DistPrim.v]. *)
From Coq Require Import Reals Lra Psatz List Bool.
From D3 Require Import Base.Ops Base.Vec Base.RVec Base.RVec2 Spec.Convex Spec.Prims Model.DistPrim
  Proofs.DistBase.
Local Open Scope R_scope.

(** ** point_to_line *)
(** no hypothesis on the direction: the returned point is on the line and d is its distance *)
Lemma point_to_line_feasible (p lp ld : V3R) d c :
  point_to_line p lp ld = (d, c) -> feasible (point_set p) (line_set lp ld) d p c.
Proof.
  unfold point_to_line, point_to_line_full. intros H. apply pair_equal_spec in H. destruct H as [Hd Hc]. subst d c.
  split; [reflexivity|]. split; [eexists; reflexivity|]. split; [apply norm_nonneg|].
  f_equal. veq.
Qed.

(** unit direction (the documented precondition) => global minimum *)
Lemma point_to_line_optimal (p lp ld : V3R) d c :
  dot ld ld = 1 ->
  point_to_line p lp ld = (d, c) -> closest_on (line_set lp ld) p d.
Proof.
  unfold point_to_line, point_to_line_full. intros Hu H. apply pair_equal_spec in H. destruct H as [Hd Hc]. subst d c.
  intros x [u ->]. rewrite vsub_vadd_vscale. apply norm_le_of_sq.
  set (w := vsub p lp). rewrite !dot_sub_scale_sq, Hu. rewrite (dot_comm ld w).
  set (t := dot w ld). clearbody t w. pose proof (sqr_nonneg (u - t)). nra.
Qed.

(** ** point_to_line_segment *)
Lemma point_to_line_segment_feasible (p s e : V3R) d c :
  point_to_line_segment p s e = (d, c) -> feasible (point_set p) (segment_set s e) d p c.
Proof.
  unfold point_to_line_segment. intros H. apply pair_equal_spec in H. destruct H as [Hd Hc]. subst d c.
  fold (clamp01 (dot (vsub p s) (vsub e s) / dot (vsub e s) (vsub e s))).
  destruct (clamp01_spec (dot (vsub p s) (vsub e s) / dot (vsub e s) (vsub e s))) as [Hr _].
  split; [reflexivity|]. split; [eexists; split; [exact Hr|reflexivity]|].
  split; [apply norm_nonneg|reflexivity].
Qed.

(** non-degenerate segment => global minimum over the segment *)
Lemma point_to_line_segment_optimal (p s e : V3R) d c :
  s <> e ->
  point_to_line_segment p s e = (d, c) -> closest_on (segment_set s e) p d.
Proof.
  unfold point_to_line_segment. intros Hne H. apply pair_equal_spec in H. destruct H as [Hd Hc]. subst d c.
  intros x (u & Hu & ->). rewrite !vsub_vadd_vscale. apply norm_le_of_sq.
  set (w := vsub p s). set (sd := vsub e s).
  assert (Ha : 0 < dot sd sd).
  { pose proof (dot_self_nonneg sd). destruct (Req_dec (dot sd sd) 0) as [E|E]; [|lra].
    exfalso. apply Hne. symmetry. apply vsub_eq_zero. apply dot_self_zero. exact E. }
  ops_R. fold (clamp01 (dot w sd / dot sd sd)).
  rewrite !dot_sub_scale_sq.
  set (a := dot sd sd) in *. set (cc := dot w sd).
  destruct (clamp01_spec (cc / a)) as [Hr Hc].
  set (t := clamp01 (cc / a)) in *.
  assert (Et : a * (cc / a) = cc) by (field; lra).
  set (t0 := cc / a) in *. clearbody t t0 cc a w.
  pose proof (sqr_nonneg (u - t)).
  assert (0 <= (u - t) * (a * t - cc)).
  { destruct Hc as [Hc|[[Hc Hc']|[Hc Hc']]].
    - replace (a * t - cc) with 0 by (rewrite Hc; lra). lra.
    - rewrite Hc. apply Rmult_le_pos; [lra|nra].
    - rewrite Hc. replace ((u - 1) * (a * 1 - cc)) with ((1 - u) * (cc - a)) by ring.
      apply Rmult_le_pos; [lra|nra]. }
  nra.
Qed.

(** ** point_to_plane (signed = False) *)
Lemma point_to_plane_feasible (p pp pn : V3R) d c :
  dot pn pn = 1 ->
  point_to_plane p pp pn = (d, c) -> feasible (point_set p) (plane_set pp pn) d p c.
Proof.
  unfold point_to_plane. intros Hu H. apply pair_equal_spec in H. destruct H as [Hd Hc]. subst d c.
  split; [reflexivity|]. split.
  - unfold plane_set. rewrite dot_sub_l, dot_sub_l, dot_scale_l, Hu.
    rewrite (dot_comm pn (vsub p pp)), dot_sub_l. ring.
  - split; [apply Rabs_pos|]. ops_R. symmetry. apply norm_abs_of_sq.
    replace (vsub p (vsub p (vscale (dot pn (vsub p pp)) pn))) with (vscale (dot pn (vsub p pp)) pn) by veq.
    rewrite dot_scale_l, dot_scale_r, Hu. ring.
Qed.

Lemma point_to_plane_optimal (p pp pn : V3R) d c :
  dot pn pn = 1 ->
  point_to_plane p pp pn = (d, c) -> closest_on (plane_set pp pn) p d.
Proof.
  unfold point_to_plane. intros Hu H. apply pair_equal_spec in H. destruct H as [Hd Hc]. subst d c.
  intros x Hx. unfold plane_set in Hx. ops_R.
  assert (E : dot pn (vsub p pp) = dot (vsub p x) pn).
  { rewrite (dot_comm pn). rewrite dot_sub_l in Hx. rewrite !dot_sub_l. lra. }
  rewrite E. pose proof (cauchy_schwarz_abs (vsub p x) pn) as HC.
  assert (norm pn = 1).
  { unfold norm. ops_R. rewrite Hu. apply sqrt_1. }
  rewrite H, Rmult_1_r in HC. exact HC.
Qed.
